import SimilarVerif.Model.Iter
import SimilarVerif.Model.Text
/-!
# What a unified diff means (C05), at the level of structured hunks

Written from the property text, independent of the renderer.  A hunk is what a parser gets out of
`@@ -a,b +c,d @@` plus the body lines: the two ranges (0-based, half-open: `oS` is the number of old
lines before the hunk, `oE - oS` the printed count) and the body as `(tag, text)` pairs.
`applyHunks` is a strict `patch`: it needs the old text and the hunks only.
-/
namespace SimilarVerif.Spec
open SimilarVerif

structure SHunk where
  oS : Nat
  oE : Nat
  nS : Nat
  nE : Nat
  body : List (CTag × Bytes)
  deriving Repr, DecidableEq, Inhabited

/-- Apply one hunk body with the old-side cursor at `pos`: every context and `-` line must be the old
line at the cursor; context and `+` lines are emitted.  Returns the cursor after the body and the
emitted lines. -/
def applyBody (old : Array Bytes) : Nat → List (CTag × Bytes) → Option (Nat × List Bytes)
  | pos, [] => some (pos, [])
  | pos, (.equal, v) :: cs =>
    if old[pos]? = some v then
      match applyBody old (pos + 1) cs with
      | some (p, out) => some (p, v :: out)
      | none => none
    else none
  | pos, (.delete, v) :: cs =>
    if old[pos]? = some v then applyBody old (pos + 1) cs else none
  | pos, (.insert, v) :: cs =>
    match applyBody old pos cs with
    | some (p, out) => some (p, v :: out)
    | none => none

/-- Strict application of hunks in order.  `pos` = old lines consumed so far, `npos` = new lines
produced so far.  A hunk must start at or after the cursor (increasing, non-overlapping), inside the
old text; the old lines up to its start are copied, and with them the output must have reached exactly
the stated new start; the body must consume exactly `oE - oS` old lines and emit exactly `nE - nS`
lines.  After the last hunk the rest of the old text is copied. -/
def applyFrom (old : Array Bytes) : (pos npos : Nat) → List SHunk → Option (List Bytes)
  | pos, _, [] => some (old.toList.drop pos)
  | pos, npos, h :: hs =>
    if pos ≤ h.oS ∧ h.oS ≤ old.size ∧ npos + (h.oS - pos) = h.nS then
      match applyBody old h.oS h.body with
      | some (p, out) =>
        if p = h.oE ∧ h.nS + out.length = h.nE then
          match applyFrom old h.oE h.nE hs with
          | some rest => some ((old.toList.drop pos).take (h.oS - pos) ++ out ++ rest)
          | none => none
        else none
      | none => none
    else none

def applyHunks (old : Array Bytes) (hs : List SHunk) : Option (List Bytes) := applyFrom old 0 0 hs

/-! ### what a group of ops denotes

The header of a group takes its ranges from the first and the last op; the body is the expansion of
the ops into changes, each carrying the line it was read from. -/

/-- the body line of a change: its tag and the line at its index in its sequence -/
def lineOf (old new : Array Bytes) (c : Change) : Option (CTag × Bytes) :=
  match (if c.fromNew then new[c.idx]? else old[c.idx]?) with
  | some v => some (c.tag, v)
  | none => none

def bodyOf (old new : Array Bytes) : List Change → Option (List (CTag × Bytes))
  | [] => some []
  | c :: cs =>
    match lineOf old new c, bodyOf old new cs with
    | some l, some ls => some (l :: ls)
    | _, _ => none

def hunkOf (old new : Array Bytes) (g : List Op) : Option SHunk :=
  match g.head?, g.getLast?, bodyOf old new (allChanges g) with
  | some first, some last, some body => some ⟨first.oStart, last.oEnd, first.nStart, last.nEnd, body⟩
  | _, _, _ => none

def hunksOf (old new : Array Bytes) : List (List Op) → Option (List SHunk)
  | [] => some []
  | g :: gs =>
    match hunkOf old new g, hunksOf old new gs with
    | some h, some hs => some (h :: hs)
    | _, _ => none

end SimilarVerif.Spec

import SimilarVerif.Spec.Walk
/-! Length of a longest common subsequence — the textbook recursion (C03). -/
namespace SimilarVerif.Spec

/-- LCS length of `old[i ..< i+a]` and `new[j ..< j+b]` under the equality `e i j` (`new[j] == old[i]`),
by recursion on the two remaining lengths. -/
def lcsLen (e : Nat → Nat → Bool) : (a b : Nat) → (i j : Nat) → Nat
  | 0, _, _, _ => 0
  | _, 0, _, _ => 0
  | a+1, b+1, i, j =>
    if e i j then lcsLen e a b (i+1) (j+1) + 1
    else max (lcsLen e a (b+1) (i+1) j) (lcsLen e (a+1) b i (j+1))
termination_by a b => a + b

/-- cost of a script: deleted plus inserted items -/
def cost (ops : List Op) : Nat := nDel ops + nIns ops

end SimilarVerif.Spec

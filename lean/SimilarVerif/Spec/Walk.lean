import SimilarVerif.Model.Basic
/-!
# What a valid edit script is (C01, C02, C07, C09, C10, C11)

Written from the property text, independent of every model function.
`e i j` stands for `new[j] == old[i]`.
-/
namespace SimilarVerif.Spec
open SimilarVerif

/-- equality as a total predicate: an out-of-bounds index is equal to nothing -/
def eqB (E : Env) (i j : Nat) : Bool := E.on i j == some true

/-- The ops walk from position `(o,n)` to `(o',n')`: each op starts exactly where the previous one
stopped (primary indices exact), nothing is empty, segments reported equal are element-wise equal. -/
def Walk (e : Nat → Nat → Bool) : Nat → Nat → List Op → Nat → Nat → Prop
  | o, n, [], o', n' => o = o' ∧ n = n'
  | o, n, .equal co cn len :: cs, o', n' =>
      co = o ∧ cn = n ∧ 0 < len ∧ (∀ t, t < len → e (o+t) (n+t) = true) ∧ Walk e (o+len) (n+len) cs o' n'
  | o, n, .delete co len _ :: cs, o', n' => co = o ∧ 0 < len ∧ Walk e (o+len) n cs o' n'
  | o, n, .insert _ cn len :: cs, o', n' => cn = n ∧ 0 < len ∧ Walk e o (n+len) cs o' n'
  | o, n, .replace co ol cn nl :: cs, o', n' =>
      co = o ∧ cn = n ∧ 0 < ol ∧ 0 < nl ∧ Walk e (o+ol) (n+nl) cs o' n'

/-- C11: every index of every op, carried ones included, is the current position. -/
def Exact : Nat → Nat → List Op → Prop
  | _, _, [] => True
  | o, n, x :: cs => x.oStart = o ∧ x.nStart = n ∧ Exact (o + x.oLen) (n + x.nLen) cs

/-- the carried index of `x` lies within the run of changes spanning `(o0,n0)`–`(o1,n1)` -/
def InRun (o0 n0 o1 n1 : Nat) : Op → Prop
  | .delete _ _ cn => n0 ≤ cn ∧ cn ≤ n1
  | .insert co _ _ => o0 ≤ co ∧ co ≤ o1
  | _ => True

/-- C01's rule for carried indices: inside each maximal run of delete/insert/replace ops, started at
`(o0,n0)` and currently at `(o,n)`, with `pend` the ops of the run seen so far. For a run of a single
op the interval is a point, which is the "exactly the current position" clause. -/
def CarriedGo : (o0 n0 o n : Nat) → (pend : List Op) → List Op → Prop
  | o0, n0, o, n, pend, [] => ∀ x ∈ pend, InRun o0 n0 o n x
  | o0, n0, o, n, pend, .equal _ _ len :: cs =>
      (∀ x ∈ pend, InRun o0 n0 o n x) ∧ CarriedGo (o+len) (n+len) (o+len) (n+len) [] cs
  | o0, n0, o, n, pend, .delete co l cn :: cs => CarriedGo o0 n0 (o+l) n (.delete co l cn :: pend) cs
  | o0, n0, o, n, pend, .insert co cn l :: cs => CarriedGo o0 n0 o (n+l) (.insert co cn l :: pend) cs
  | o0, n0, o, n, pend, .replace co ol cn nl :: cs => CarriedGo o0 n0 (o+ol) (n+nl) (.replace co ol cn nl :: pend) cs

def Carried (o n : Nat) (ops : List Op) : Prop := CarriedGo o n o n [] ops

/-- number of deleted / inserted / equal items of a script -/
def nDel : List Op → Nat
  | [] => 0
  | .delete _ l _ :: cs => l + nDel cs
  | .replace _ l _ _ :: cs => l + nDel cs
  | _ :: cs => nDel cs
def nIns : List Op → Nat
  | [] => 0
  | .insert _ _ l :: cs => l + nIns cs
  | .replace _ _ _ l :: cs => l + nIns cs
  | _ :: cs => nIns cs
def nEq : List Op → Nat
  | [] => 0
  | .equal _ _ l :: cs => l + nEq cs
  | _ :: cs => nEq cs

/-- the ops of a trace -/
def opsOf : List Call → List Op
  | [] => []
  | .op x :: cs => x :: opsOf cs
  | .finish :: cs => opsOf cs

/-- A raw callback stream is valid for the ranges: ops then exactly one `finish`, last. -/
def ValidRaw (E : Env) (os oe ns ne : Nat) (t : List Call) : Prop :=
  ∃ ops, t = ops.map Call.op ++ [.finish] ∧ Walk (eqB E) os ns ops oe ne ∧ Carried os ns ops

/-- all cross comparisons inside the ranges are defined (the ranges are in bounds) -/
def InBounds (E : Env) (os oe ns ne : Nat) : Prop :=
  ∀ i j, os ≤ i → i < oe → ns ≤ j → j < ne → (E.on i j).isSome

/-- replaying a script on `old` (C01/C02 corollary): the new-side items it produces -/
def produced : List Op → List (Bool × Nat)
  | [] => []
  | .equal o _ l :: cs => (List.range l).map (fun t => (false, o+t)) ++ produced cs
  | .delete .. :: cs => produced cs
  | .insert _ n l :: cs => (List.range l).map (fun t => (true, n+t)) ++ produced cs
  | .replace _ _ n l :: cs => (List.range l).map (fun t => (true, n+t)) ++ produced cs

/-- C09 normal form of a captured op list -/
def NormalForm (e : Nat → Nat → Bool) : List Op → Prop
  | [] => True
  | [x] => ¬ x.isEmpty = true ∧ (match x with | .replace _ ol _ nl => 0 < ol ∧ 0 < nl | _ => True)
  | x :: y :: cs =>
      ¬ x.isEmpty = true ∧ (match x with | .replace _ ol _ nl => 0 < ol ∧ 0 < nl | _ => True) ∧
      ((x.tag = .equal) ≠ (y.tag = .equal)) ∧
      (match x, y with
       | .insert _ cn _, .equal eo _ _ => e eo cn = false
       | _, _ => True) ∧
      NormalForm e (y :: cs)

end SimilarVerif.Spec

import SimilarVerif.Model.Common
/-! Specification of item-wise expansion (C13), written directly from the property text. -/
namespace SimilarVerif.Spec
open SimilarVerif

/-- one change per consumed item, indices increasing by one -/
def iterChanges : Op → List Change
  | .equal o n len => (List.range len).map fun t => ⟨.equal, some (o+t), some (n+t), false, o+t⟩
  | .delete o len _ => (List.range len).map fun t => ⟨.delete, some (o+t), none, false, o+t⟩
  | .insert _ n len => (List.range len).map fun t => ⟨.insert, none, some (n+t), true, n+t⟩
  | .replace o ol n nl =>
    ((List.range ol).map fun t => ⟨.delete, some (o+t), none, false, o+t⟩) ++
    ((List.range nl).map fun t => ⟨.insert, none, some (n+t), true, n+t⟩)

def iterAllChanges (ops : List Op) : List Change := ops.flatMap iterChanges


end SimilarVerif.Spec

import SimilarVerif.Spec.Udiff
/-!
# A strict reader of unified-diff bytes (C05, first sentence: "the rendered diff PARSES as …")

Written from the format, independent of the renderer: bytes in, structured hunks (`SHunk`) out.
The reader is *tag-first* and *count-driven*, as a strict `patch` reads a diff:

* optional file header `--- a⏎+++ b⏎`;
* then hunks until the end of the input.  A hunk is a header line `@@ -R +R @@⏎` (`R` is `a` or `a,len`
  in decimal) followed by body lines; the header says how many old-side (` `/`-`) and new-side (` `/`+`)
  lines the body has, and exactly that many are read – so a body line that happens to look like a
  header (`@@ …`, `--- …`) is read as a body line;
* a body line is a tag byte (` `, `-`, `+`), then the text up to and including its terminator
  (`⏎`, `\r⏎`, or a lone `\r` – a CR ends the line when the next byte is not `⏎`); when the text ended
  with `⏎` and the next line is the marker `\ No newline at end of file⏎`, that `⏎` was not part of the
  text;
* anything else (unknown tag, a count that does not fit, missing bytes, trailing garbage) is rejected.

Ranges are returned 0-based and half-open, the convention of `SHunk`: `a` is `[a-1, a)`, `a,0` is the
empty range `[a, a)` (the line *before* which nothing stands is printed), `a,len` is `[a-1, a-1+len)`.
-/
namespace SimilarVerif.Spec
open SimilarVerif

/-- the bytes of an ASCII string literal -/
def lit (s : String) : Bytes := s.toList.map fun c => c.toNat.toUInt8

/-- `expect p inp`: `inp` must start with `p`; the rest of `inp` -/
def expect : Bytes → Bytes → Option Bytes
  | [], inp => some inp
  | _ :: _, [] => none
  | p :: ps, x :: xs => if p = x then expect ps xs else none

/-- the bytes up to (not including) the first `⏎`, and the bytes after it -/
def untilNewline : Bytes → Option (Bytes × Bytes)
  | [] => none
  | x :: xs =>
    if x = 10 then some ([], xs)
    else match untilNewline xs with
      | some (l, r) => some (x :: l, r)
      | none => none

/-! ### numbers and ranges -/

def isDigit (x : UInt8) : Bool := 48 ≤ x && x ≤ 57

/-- read decimal digits as long as there are any, most significant first -/
def digitsGo (acc : Nat) : Bytes → Nat × Bytes
  | [] => (acc, [])
  | x :: xs => if isDigit x then digitsGo (acc * 10 + (x.toNat - 48)) xs else (acc, x :: xs)

/-- a decimal number: at least one digit, then as many as follow -/
def parseNat : Bytes → Option (Nat × Bytes)
  | [] => none
  | x :: xs => if isDigit x then some (digitsGo 0 (x :: xs)) else none

/-- `a` ↦ `[a-1, a)`; `a,0` ↦ `[a, a)`; `a,len` ↦ `[a-1, a-1+len)`.  A non-empty range cannot start
at line 0. -/
def parseRange (inp : Bytes) : Option ((Nat × Nat) × Bytes) :=
  match parseNat inp with
  | none => none
  | some (a, rest) =>
    match expect (lit ",") rest with
    | some rest' =>
      (match parseNat rest' with
       | none => none
       | some (len, rest'') =>
         if len = 0 then some ((a, a), rest'')
         else if a = 0 then none
         else some ((a - 1, a - 1 + len), rest''))
    | none => if a = 0 then none else some ((a - 1, a), rest)

/-- `@@ -R +R @@⏎` -/
def parseHunkHeader (inp : Bytes) : Option ((Nat × Nat) × (Nat × Nat) × Bytes) :=
  match expect (lit "@@ -") inp with
  | none => none
  | some r1 =>
    match parseRange r1 with
    | none => none
    | some (o, r2) =>
      match expect (lit " +") r2 with
      | none => none
      | some r3 =>
        match parseRange r3 with
        | none => none
        | some (n, r4) =>
          match expect (lit " @@\n") r4 with
          | none => none
          | some r5 => some (o, n, r5)

/-! ### body lines -/

def parseTag (x : UInt8) : Option CTag :=
  if x = 32 then some .equal else if x = 45 then some .delete else if x = 43 then some .insert else none

/-- the text of a line up to and including its terminator `⏎`, `\r⏎` or lone `\r`; the rest.  The end of
the input does not terminate a line (a text without final newline is followed by `⏎` and the marker). -/
def scanLine : Bytes → Option (Bytes × Bytes)
  | [] => none
  | x :: xs =>
    if x = 10 then some ([10], xs)
    else if x = 13 then
      (match xs with
       | [] => some ([13], [])
       | y :: ys => if y = 10 then some ([13, 10], ys) else some ([13], y :: ys))
    else match scanLine xs with
      | some (l, r) => some (x :: l, r)
      | none => none

/-- the line after a text that has no newline of its own -/
def noNewlineMarker : Bytes := lit "\\ No newline at end of file\n"

/-- the text of a body line (after its tag): scanned up to its terminator; if that ended in `⏎` and the
marker line follows, the `⏎` belongs to the format, not to the text -/
def parseLineText (inp : Bytes) : Option (Bytes × Bytes) :=
  match scanLine inp with
  | none => none
  | some (l, rest) =>
    if l.getLast? = some 10 then
      match expect noNewlineMarker rest with
      | some rest' => some (l.dropLast, rest')
      | none => some (l, rest)
    else some (l, rest)

/-- `oc` old-side and `nc` new-side lines are still to come: a context line is one of each, a `-` line an
old-side one, a `+` line a new-side one; a line the counts have no room for is an error -/
def parseBody (oc nc : Nat) (inp : Bytes) : Option (List (CTag × Bytes) × Bytes) :=
  if oc = 0 ∧ nc = 0 then some ([], inp)
  else
    match inp with
    | [] => none
    | t :: inp' =>
      match parseTag t with
      | none => none
      | some tag =>
        let oc' := if tag = .insert then oc else oc - 1
        let nc' := if tag = .delete then nc else nc - 1
        if (tag ≠ .insert ∧ oc = 0) ∨ (tag ≠ .delete ∧ nc = 0) then none
        else
          match parseLineText inp' with
          | none => none
          | some (v, rest) =>
            match parseBody oc' nc' rest with
            | none => none
            | some (ls, rest') => some ((tag, v) :: ls, rest')
termination_by oc + nc
decreasing_by cases tag <;> simp at * <;> omega

/-- one hunk: header line, then the body it announces -/
def parseHunk (inp : Bytes) : Option (SHunk × Bytes) :=
  match parseHunkHeader inp with
  | none => none
  | some ((oS, oE), (nS, nE), rest) =>
    match parseBody (oE - oS) (nE - nS) rest with
    | none => none
    | some (body, rest') => some (⟨oS, oE, nS, nE, body⟩, rest')

/-- hunks until the end of the input (`fuel` ≥ number of hunks; every hunk takes at least one byte) -/
def parseHunks : Nat → Bytes → Option (List SHunk)
  | _, [] => some []
  | 0, _ :: _ => none
  | fuel + 1, x :: xs =>
    match parseHunk (x :: xs) with
    | none => none
    | some (h, rest) =>
      match parseHunks fuel rest with
      | none => none
      | some hs => some (h :: hs)

/-- optional `--- a⏎+++ b⏎` (the names are everything up to the end of the line) -/
def parseFileHeader (inp : Bytes) : Option (Option (Bytes × Bytes) × Bytes) :=
  match expect (lit "--- ") inp with
  | none => some (none, inp)
  | some r1 =>
    match untilNewline r1 with
    | none => none
    | some (a, r2) =>
      match expect (lit "+++ ") r2 with
      | none => none
      | some r3 =>
        match untilNewline r3 with
        | none => none
        | some (b, r4) => some (some (a, b), r4)

/-- a whole unified diff: the file header, if any, and the hunks -/
def parseUnified (inp : Bytes) : Option (Option (Bytes × Bytes) × List SHunk) :=
  match parseFileHeader inp with
  | none => none
  | some (hdr, rest) =>
    match parseHunks rest.length rest with
    | none => none
    | some hs => some (hdr, hs)

end SimilarVerif.Spec

import SimilarVerif.Props.C01
/-!
# C08 — hook protocol: finish once and last; a hook error aborts the diff unchanged

Model: a hook is `Hook σ`; the recording hook fails at call `k` when `failAt = some k`, and its error
carries everything it was told.  Proved here: the structural clauses (finish exactly once and last;
`NoFinishHook` forwards everything but `finish`; a hook without `replace` override receives delete then
insert; delivering a script stops at the first error).  The abort-prefix theorem for every algorithm
and adapter stack is Lemmas/HookFail.lean (in progress); until it is imported here that clause is
established by the correspondence over every failing call index of every run of the `stacks` suite.
-/
namespace SimilarVerif.C08
open SimilarVerif Spec

/-- a valid stream ends with its only `finish` -/
theorem finish_once_last (E : Env) (os oe ns ne : Nat) (t : List Call) (hv : ValidRaw E os oe ns ne t) :
    t.getLast? = some .finish ∧ (t.filter (· == .finish)).length = 1 := by
  obtain ⟨ops, rfl, _, _⟩ := hv
  refine ⟨by simp, ?_⟩
  have : (ops.map Call.op).filter (· == Call.finish) = [] := by
    induction ops with
    | nil => rfl
    | cons x xs ih => simp [List.filter, ih]
  simp [List.filter_append, this]

/-- LCS finishes the hook exactly once and last, on every input and clock -/
theorem lcs_finish_once_last (E : Env) (os oe ns ne : Nat) (w : World) (ho : os ≤ oe) (hn : ns ≤ ne)
    (hb : InBounds E os oe ns ne) :
    ∃ r w', rawTrace .lcs E os oe ns ne w = .ok (r, w') ∧ r.trace.getLast? = some .finish ∧
      (r.trace.filter (· == .finish)).length = 1 := by
  obtain ⟨r, w', h, hv⟩ := C01.lcs_total_valid E os oe ns ne w ho hn hb
  exact ⟨r, w', h, finish_once_last E os oe ns ne r.trace hv⟩

/-- Myers, when it returns, has finished the hook exactly once and last (relative to `SnakeInBox`) -/
theorem myers_finish_once_last (E : Env) (hbox : MyersP.SnakeInBox E) (os oe ns ne : Nat) (w : World) (r' : Rec) (w' : World)
    (ho : os ≤ oe) (hn : ns ≤ ne) (hb : InBounds E os oe ns ne)
    (h : rawTrace .myers E os oe ns ne w = .ok (r', w')) :
    r'.trace.getLast? = some .finish ∧ (r'.trace.filter (· == .finish)).length = 1 :=
  finish_once_last E os oe ns ne r'.trace (C01.myers_partial E hbox os oe ns ne w r' w' ho hn hb h)

/-- the finish-suppressing wrapper forwards everything except `finish` -/
theorem noFinish_forwards {σ} (h : Hook σ) (x : Op) (s : σ) (w : World) :
    (noFinishHook h).call (.op x) s w = h.call (.op x) s w := rfl

theorem noFinish_swallows_finish {σ} (h : Hook σ) (s : σ) (w : World) :
    (noFinishHook h).call .finish s w = .ok (s, w) := rfl

/-- a hook that does not override `replace` receives a delete followed by an insert -/
theorem default_replace (o ol n nl : Nat) (t : List Call) (w : World) :
    recHook.call (.op (.replace o ol n nl)) { trace := t, nativeReplace := false } w =
      .ok ({ trace := t ++ [.op (.delete o ol n), .op (.insert o n nl)], nativeReplace := false }, w) := by
  simp [recHook, Rec.push, Except.map]

/-- … and if the delete fails the insert is never delivered -/
theorem default_replace_fail_first (o ol n nl : Nat) (t : List Call) (w : World) :
    recHook.call (.op (.replace o ol n nl)) { trace := t, failAt := some t.length, nativeReplace := false } w =
      .error (.hookErr (t ++ [.op (.delete o ol n)])) := by
  simp [recHook, Rec.push]

/-- the failing call itself is the last thing the hook sees: the error carries the trace so far plus
that call, and nothing else -/
theorem fail_is_last (r : Rec) (c : Call) (h : r.failAt = some r.trace.length) :
    r.push c = .error (.hookErr (r.trace ++ [c])) := by
  simp [Rec.push, h]

/-- delivering a list of calls (what `Compact::finish` does with its buffer) stops at the first error -/
theorem deliver_stops {σ} (h : Hook σ) (c : Call) (cs : List Call) (s : σ) (w : World) (e : Abort)
    (he : h.call c s w = .error e) : deliver h (c :: cs) s w = .error e := by
  simp [deliver, he]

end SimilarVerif.C08

import SimilarVerif.Props.C01
import SimilarVerif.Lemmas.HookFail
import SimilarVerif.Lemmas.ReplaceTotal
import SimilarVerif.Lemmas.ReplaceReuse
/-!
# C08 — hook protocol: finish once and last; a hook error aborts the diff unchanged

Model: a hook is `Hook σ`; the recording hook fails at call `k` when `failAt = some k`, and its error
carries everything it was told.  Proved here: the structural clauses (finish exactly once and last;
`NoFinishHook` forwards everything but `finish`; a hook without `replace` override receives delete then
insert; delivering a script stops at the first error).  The abort-prefix theorem (second half of this file, from
Lemmas/HookFail.lean) holds for every algorithm and every adapter stack: a run against the hook failing
at call `k` is the `k+1`-prefix of the run against the never-failing hook.
-/
namespace SimilarVerif.C08
open SimilarVerif Spec

/-- a valid stream ends with its only `finish` -/
theorem finish_once_last (E : Env) (os oe ns ne : Nat) (t : List Call) (hv : ValidRaw E os oe ns ne t) :
    t.getLast? = some .finish ∧ (t.filter (· == .finish)).length = 1 := by
  obtain ⟨ops, rfl, _, _⟩ := hv
  refine ⟨by simp, ?_⟩
  have : (ops.map Call.op).filter (· == Call.finish) = [] := by
    induction ops with
    | nil => rfl
    | cons x xs ih => simp [List.filter, ih]
  simp [List.filter_append, this]

/-- LCS finishes the hook exactly once and last, on every input and clock -/
theorem lcs_finish_once_last (E : Env) (os oe ns ne : Nat) (w : World) (ho : os ≤ oe) (hn : ns ≤ ne)
    (hb : InBounds E os oe ns ne) :
    ∃ r w', rawTrace .lcs E os oe ns ne w = .ok (r, w') ∧ r.trace.getLast? = some .finish ∧
      (r.trace.filter (· == .finish)).length = 1 := by
  obtain ⟨r, w', h, hv⟩ := C01.lcs_total_valid E os oe ns ne w ho hn hb
  exact ⟨r, w', h, finish_once_last E os oe ns ne r.trace hv⟩

/-- Myers, when it returns, has finished the hook exactly once and last (relative to `SnakeInBox`) -/
theorem myers_finish_once_last (E : Env) (hbox : MyersP.SnakeInBox E) (os oe ns ne : Nat) (w : World) (r' : Rec) (w' : World)
    (ho : os ≤ oe) (hn : ns ≤ ne) (hb : InBounds E os oe ns ne)
    (h : rawTrace .myers E os oe ns ne w = .ok (r', w')) :
    r'.trace.getLast? = some .finish ∧ (r'.trace.filter (· == .finish)).length = 1 :=
  finish_once_last E os oe ns ne r'.trace (C01.myers_partial E hbox os oe ns ne w r' w' ho hn hb h)

/-- the finish-suppressing wrapper forwards everything except `finish` -/
theorem noFinish_forwards {σ} (h : Hook σ) (x : Op) (s : σ) (w : World) :
    (noFinishHook h).call (.op x) s w = h.call (.op x) s w := rfl

theorem noFinish_swallows_finish {σ} (h : Hook σ) (s : σ) (w : World) :
    (noFinishHook h).call .finish s w = .ok (s, w) := rfl

/-- a hook that does not override `replace` receives a delete followed by an insert -/
theorem default_replace (o ol n nl : Nat) (t : List Call) (w : World) :
    recHook.call (.op (.replace o ol n nl)) { trace := t, nativeReplace := false } w =
      .ok ({ trace := t ++ [.op (.delete o ol n), .op (.insert o n nl)], nativeReplace := false }, w) := by
  simp [recHook, Rec.push, Except.map]

/-- … and if the delete fails the insert is never delivered -/
theorem default_replace_fail_first (o ol n nl : Nat) (t : List Call) (w : World) :
    recHook.call (.op (.replace o ol n nl)) { trace := t, failAt := some t.length, nativeReplace := false } w =
      .error (.hookErr (t ++ [.op (.delete o ol n)])) := by
  simp [recHook, Rec.push]

/-- the failing call itself is the last thing the hook sees: the error carries the trace so far plus
that call, and nothing else -/
theorem fail_is_last (r : Rec) (c : Call) (h : r.failAt = some r.trace.length) :
    r.push c = .error (.hookErr (r.trace ++ [c])) := by
  simp [Rec.push, h]

/-- delivering a list of calls (what `Compact::finish` does with its buffer) stops at the first error -/
theorem deliver_stops {σ} (h : Hook σ) (c : Call) (cs : List Call) (s : σ) (w : World) (e : Abort)
    (he : h.call c s w = .error e) : deliver h (c :: cs) s w = .error e := by
  simp [deliver, he]

end SimilarVerif.C08

namespace SimilarVerif.C08
open SimilarVerif Spec

/-- **A hook error aborts the diff unchanged — every algorithm, no adapter.** If the run against the
never-failing recording hook returns with trace `T`, then the run against the hook that fails at call
`k < |T|` returns exactly that hook's error, and the hook has seen exactly `T.take (k+1)` — the calls up
to and including the failing one, and nothing after it; if `k ≥ |T|` the run is unaffected. -/
theorem abort_prefix_plain (alg : Alg) (E : Env) (os oe ns ne : Nat) (w : World) (native : Bool) (k : Nat)
    {rInf : Rec} {wInf : World}
    (hInf : diffWith alg E recHook os oe ns ne { failAt := none, nativeReplace := native } w = .ok (rInf, wInf)) :
    (k < rInf.trace.length →
      diffWith alg E recHook os oe ns ne { failAt := some k, nativeReplace := native } w =
        .error (.hookErr (rInf.trace.take (k + 1)))) ∧
    (rInf.trace.length ≤ k →
      diffWith alg E recHook os oe ns ne { failAt := some k, nativeReplace := native } w =
        .ok ({ rInf with failAt := some k }, wInf)) :=
  HookFail.diff_plain alg E os oe ns ne w native k hInf

/-- … wrapped in `Replace` -/
theorem abort_prefix_replace (alg : Alg) (E : Env) (os oe ns ne : Nat) (w : World) (native : Bool) (k : Nat)
    {aInf : RState} {rInf : Rec} {wInf : World}
    (hInf : diffWith alg E (replaceHook recHook) os oe ns ne ({}, { failAt := none, nativeReplace := native }) w
      = .ok ((aInf, rInf), wInf)) :
    (k < rInf.trace.length →
      diffWith alg E (replaceHook recHook) os oe ns ne ({}, { failAt := some k, nativeReplace := native }) w =
        .error (.hookErr (rInf.trace.take (k + 1)))) ∧
    (rInf.trace.length ≤ k →
      diffWith alg E (replaceHook recHook) os oe ns ne ({}, { failAt := some k, nativeReplace := native }) w =
        .ok ((aInf, { rInf with failAt := some k }), wInf)) :=
  HookFail.diff_replace alg E os oe ns ne w native k hInf

/-- … wrapped in `Compact` (nothing reaches the inner hook before `finish`; the buffered ops are then
replayed in order and the first error stops the replay) -/
theorem abort_prefix_compact (alg : Alg) (E : Env) (repair : Bool) (os oe ns ne : Nat) (w : World) (native : Bool) (k : Nat)
    {bInf : List Op} {rInf : Rec} {wInf : World}
    (hInf : diffWith alg E (compactHook E repair recHook) os oe ns ne ([], { failAt := none, nativeReplace := native }) w
      = .ok ((bInf, rInf), wInf)) :
    (k < rInf.trace.length →
      diffWith alg E (compactHook E repair recHook) os oe ns ne ([], { failAt := some k, nativeReplace := native }) w =
        .error (.hookErr (rInf.trace.take (k + 1)))) ∧
    (rInf.trace.length ≤ k →
      diffWith alg E (compactHook E repair recHook) os oe ns ne ([], { failAt := some k, nativeReplace := native }) w =
        .ok ((bInf, { rInf with failAt := some k }), wInf)) :=
  HookFail.diff_compact alg E repair os oe ns ne w native k hInf

/-- … wrapped in `Compact` + `Replace` (the capture pipeline's adapters) -/
theorem abort_prefix_compact_replace (alg : Alg) (E : Env) (repair : Bool) (os oe ns ne : Nat) (w : World) (native : Bool) (k : Nat)
    {bInf : List Op} {aInf : RState} {rInf : Rec} {wInf : World}
    (hInf : diffWith alg E (compactHook E repair (replaceHook recHook)) os oe ns ne
      ([], ({}, { failAt := none, nativeReplace := native })) w = .ok ((bInf, (aInf, rInf)), wInf)) :
    (k < rInf.trace.length →
      diffWith alg E (compactHook E repair (replaceHook recHook)) os oe ns ne
        ([], ({}, { failAt := some k, nativeReplace := native })) w = .error (.hookErr (rInf.trace.take (k + 1)))) ∧
    (rInf.trace.length ≤ k →
      diffWith alg E (compactHook E repair (replaceHook recHook)) os oe ns ne
        ([], ({}, { failAt := some k, nativeReplace := native })) w =
        .ok ((bInf, (aInf, { rInf with failAt := some k })), wInf)) :=
  HookFail.diff_compact_replace alg E repair os oe ns ne w native k hInf

/-- … wrapped in `NoFinishHook` -/
theorem abort_prefix_noFinish (alg : Alg) (E : Env) (os oe ns ne : Nat) (w : World) (native : Bool) (k : Nat)
    {rInf : Rec} {wInf : World}
    (hInf : diffWith alg E (noFinishHook recHook) os oe ns ne { failAt := none, nativeReplace := native } w = .ok (rInf, wInf)) :
    (k < rInf.trace.length →
      diffWith alg E (noFinishHook recHook) os oe ns ne { failAt := some k, nativeReplace := native } w =
        .error (.hookErr (rInf.trace.take (k + 1)))) ∧
    (rInf.trace.length ≤ k →
      diffWith alg E (noFinishHook recHook) os oe ns ne { failAt := some k, nativeReplace := native } w =
        .ok ({ rInf with failAt := some k }, wInf)) :=
  HookFail.diff_noFinish alg E os oe ns ne w native k hInf

end SimilarVerif.C08

namespace SimilarVerif.C08
open SimilarVerif Spec

/-- Myers finishes the hook exactly once and last, on every input and clock (unconditional) -/
theorem myers_finish_once_last_total (E : Env) (os oe ns ne : Nat) (w : World) (ho : os ≤ oe) (hn : ns ≤ ne)
    (hb : InBounds E os oe ns ne) :
    ∃ r w', rawTrace .myers E os oe ns ne w = .ok (r, w') ∧ r.trace.getLast? = some .finish ∧
      (r.trace.filter (· == .finish)).length = 1 := by
  obtain ⟨r, w', h, hv⟩ := C01.myers_total_valid E os oe ns ne w ho hn hb
  exact ⟨r, w', h, finish_once_last E os oe ns ne r.trace hv⟩

/-- Patience, whenever it returns, has finished the hook exactly once and last -/
theorem patience_finish_once_last (E : Env) (os oe ns ne : Nat) (w : World) (r' : Rec) (w' : World)
    (ho : os ≤ oe) (hn : ns ≤ ne) (hb : InBounds E os oe ns ne)
    (h : rawTrace .patience E os oe ns ne w = .ok (r', w')) :
    r'.trace.getLast? = some .finish ∧ (r'.trace.filter (· == .finish)).length = 1 :=
  finish_once_last E os oe ns ne r'.trace (C01.patience_valid_if_returns E os oe ns ne w r' w' ho hn hb h)

end SimilarVerif.C08

namespace SimilarVerif.C08
open SimilarVerif Spec

/-- **The run behind `Replace` alone returns** (totality, every algorithm, every clock, in-bounds ranges): no
algorithm ever calls `replace` (`raw` has no `replace` op), so the two `debug_assert_eq!` of `Replace` never
fire on the valid raw stream; the run against `Replace` over the never-failing recording hook returns, with the
clock of the raw run, and the hook has been told `out` followed by exactly one `finish`, where `out` is what
`Replace` makes of the raw stream (`replaceOut raw`, Lemmas/Replace.lean) — a valid alternating script. -/
theorem replace_alone_total (alg : Alg) (E : Env) (os oe ns ne : Nat) (w : World)
    (hr : Headline.RangesInBounds E os oe ns ne) :
    ∃ (raw out : List Op) (rs : RState) (w' : World),
      rawTrace alg E os oe ns ne w = .ok ({ trace := raw.map Call.op ++ [.finish] }, w') ∧
      NoReplaceOp raw ∧
      diffWith alg E (replaceHook recHook) os oe ns ne ({}, {}) w =
        .ok ((rs, { trace := out.map Call.op ++ [.finish] }), w') ∧
      (∀ w0, replaceOut raw w0 = .ok ((rs, { trace := out.map Call.op ++ [.finish] }), w0)) ∧
      Walk (eqB E) os ns out oe ne ∧ Alternating out :=
  ReplaceTotal.replace_stack_total alg E os oe ns ne w hr

/-- no algorithm calls `replace` on its hook: a hook that panics on `replace` is as good as the hook itself -/
theorem no_algorithm_calls_replace {σ} (h : Hook σ) (alg : Alg) (E : Env) (os oe ns ne : Nat) (s : σ) (w : World) :
    diffWith alg E (Headline.guardReplace h) os oe ns ne s w = diffWith alg E h os oe ns ne s w :=
  ReplaceTotal.diffWith_guard h alg E os oe ns ne s w

end SimilarVerif.C08

#print axioms SimilarVerif.C08.replace_alone_total
#print axioms SimilarVerif.C08.no_algorithm_calls_replace

namespace SimilarVerif.C08
open SimilarVerif Spec

/-- **`Replace::finish` leaves the adapter in its initial state** (any inner hook, any pending runs), and so the
adapter state returned by the run behind `Replace` (`replace_alone_total`) is the initial one `{}` -/
theorem replace_finish_leaves_initial_state :
    (∀ {σ : Type} (h : Hook σ) (rs rs' : RState) (s s' : σ) (w w' : World),
      (replaceHook h).call .finish (rs, s) w = .ok ((rs', s'), w') → rs' = {}) ∧
    (∀ (alg : Alg) (E : Env) (os oe ns ne : Nat) (w : World), Headline.RangesInBounds E os oe ns ne →
      ∃ (raw out : List Op) (w' : World),
        rawTrace alg E os oe ns ne w = .ok ({ trace := raw.map Call.op ++ [.finish] }, w') ∧
        NoReplaceOp raw ∧
        diffWith alg E (replaceHook recHook) os oe ns ne ({}, {}) w =
          .ok ((({} : RState), { trace := out.map Call.op ++ [.finish] }), w') ∧
        (∀ w0, replaceOut raw w0 = .ok ((({} : RState), { trace := out.map Call.op ++ [.finish] }), w0)) ∧
        Walk (eqB E) os ns out oe ne ∧ Alternating out) :=
  ⟨fun h rs rs' s s' w w' hc => ReplaceReuse.replace_finish_resets h rs rs' s s' w w' hc,
   fun alg E os oe ns ne w hr => ReplaceReuse.replace_run_final_state alg E os oe ns ne w hr⟩

/-- **one `Replace` adapter value can be re-used for a second diff**: after a first diff (`alg`, `E`) a second diff
(`alg2`, `E2`, any in-bounds ranges) run from the very adapter state, recorded trace and clock the first one
returned returns, ends in the initial adapter state with the clock of the same second diff through a FRESH
adapter, and the recording hook holds the first trace followed by exactly the trace of the fresh second diff -/
theorem replace_adapter_reusable (alg alg2 : Alg) (E E2 : Env) (os oe ns ne os2 oe2 ns2 ne2 : Nat) (w : World)
    (hr : Headline.RangesInBounds E os oe ns ne) (hr2 : Headline.RangesInBounds E2 os2 oe2 ns2 ne2) :
    ∃ (out out2 : List Op) (rs : RState) (w' w'' : World),
      diffWith alg E (replaceHook recHook) os oe ns ne ({}, {}) w =
        .ok ((rs, { trace := out.map Call.op ++ [.finish] }), w') ∧
      rs = {} ∧
      diffWith alg2 E2 (replaceHook recHook) os2 oe2 ns2 ne2 ({}, {}) w' =
        .ok ((({} : RState), { trace := out2.map Call.op ++ [.finish] }), w'') ∧
      diffWith alg2 E2 (replaceHook recHook) os2 oe2 ns2 ne2 (rs, { trace := out.map Call.op ++ [.finish] }) w' =
        .ok ((({} : RState), { trace := (out.map Call.op ++ [.finish]) ++ (out2.map Call.op ++ [.finish]) }), w'') ∧
      Walk (eqB E) os ns out oe ne ∧ Alternating out ∧
      Walk (eqB E2) os2 ns2 out2 oe2 ne2 ∧ Alternating out2 :=
  ReplaceReuse.replace_reuse alg alg2 E E2 os oe ns ne os2 oe2 ns2 ne2 w hr hr2

/-- a trace the recording hook already holds is only a prefix of what it holds after a run behind `Replace` -/
theorem replace_recorded_prefix (alg : Alg) (E : Env) (os oe ns ne : Nat) (a a' : RState) (P T : List Call)
    (r' : Rec) (w w' : World)
    (h : diffWith alg E (replaceHook recHook) os oe ns ne (a, { trace := T }) w = .ok ((a', r'), w')) :
    r' = { trace := r'.trace } ∧
    diffWith alg E (replaceHook recHook) os oe ns ne (a, { trace := P ++ T }) w =
      .ok ((a', { trace := P ++ r'.trace }), w') :=
  ReplaceReuse.replace_prefix alg E os oe ns ne a a' P T r' w w' h

/-- non-vacuity: `[1,0]` vs `[1,2,0,1]`, Myers behind `Replace`: the adapter comes back in its initial state … -/
example : (diffWith .myers (Env.ofSeqs #[1,0] #[1,2,0,1]) (replaceHook recHook) 0 2 0 4 ({}, {}) {}).map (·.1.1) =
    .ok {} := by rfl

/-- … with a pending delete it would not be initial before `finish`, and is after it -/
example : ((replaceHook recHook).call .finish ({ del := some (0, 1, 0) }, {}) {}).map (·.1) =
    .ok ({}, { trace := [.op (.delete 0 1 0), .finish] }) := by rfl

/-- … and a second diff (`[3]` vs `[4]`, LCS) through the returned adapter appends its own script to the first -/
example :
    (match diffWith .myers (Env.ofSeqs #[1,0] #[1,2,0,1]) (replaceHook recHook) 0 2 0 4 ({}, {}) {} with
     | .ok (st, w') =>
       (diffWith .lcs (Env.ofSeqs #[3] #[4]) (replaceHook recHook) 0 1 0 1 st w').map
         (fun (x : (RState × Rec) × World) => x.1)
     | .error e => .error e) =
    (.ok (({} : RState), { trace := [.op (.equal 0 0 1), .op (.insert 1 1 1), .op (.equal 1 2 1), .op (.insert 2 3 1), .finish,
                        .op (.replace 0 1 0 1), .finish] }) : Res (RState × Rec)) := by rfl

end SimilarVerif.C08

#print axioms SimilarVerif.C08.replace_finish_leaves_initial_state
#print axioms SimilarVerif.C08.replace_adapter_reusable
#print axioms SimilarVerif.C08.replace_recorded_prefix

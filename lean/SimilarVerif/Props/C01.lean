import SimilarVerif.Model.Common
import SimilarVerif.Lemmas.Lcs
import SimilarVerif.Lemmas.Myers
import SimilarVerif.Lemmas.Patience
import SimilarVerif.Lemmas.MyersTotal
import SimilarVerif.Lemmas.PatienceTotal
import SimilarVerif.Lemmas.Walk
import SimilarVerif.Lemmas.Shift
/-!
# C01 — every algorithm emits a sound, gap-free, index-exact edit script

`rawTrace alg E os oe ns ne w` is what a recording hook is told by `algorithms::diff_deadline`.
`ValidRaw` (Spec/Walk.lean) is the property text: the ops walk both ranges without gap, overlap or
empty op, equal segments are element-wise equal, carried indices obey the run-relative rule, and the
stream ends with exactly one `finish`.

Status
* LCS: **full** — total (no panic, for every clock) and valid.
* Myers: **full** — total and valid for every clock (`myers_total_valid`, second half of this file):
  Myers' middle-snake theory is formalised in Lemmas/MyersTheory.lean (furthest-reaching invariant of
  the `V` arrays, the overlap test fires exactly at ⌈D/2⌉, the split point lies on an optimal path
  inside the box and is not a corner) and discharges the hypothesis `SnakeInBox` the first theorems
  below are stated relative to.
* Patience: **full** — total and valid for every clock (`patience_total_valid`, last theorem of this
  file; Lemmas/PatienceTotal.lean on top of the hook-generic Myers totality).
* Shift invariance ("diffing a sub-range equals diffing the extracted slices shifted by the range
  starts"): **full**, every algorithm, every clock, including aborts, comparison and probe counts
  (`subrange_is_shifted_slice`, Lemmas/Shift.lean).
-/
namespace SimilarVerif.C01
open SimilarVerif Spec

/-- **LCS, full strength**: for all in-bounds ranges and every clock the call returns and the
callback stream is valid. -/
theorem lcs_total_valid (E : Env) (os oe ns ne : Nat) (w : World) (ho : os ≤ oe) (hn : ns ≤ ne)
    (hb : InBounds E os oe ns ne) :
    ∃ r w', rawTrace .lcs E os oe ns ne w = .ok (r, w') ∧ ValidRaw E os oe ns ne r.trace := by
  obtain ⟨r, w', h, hv⟩ := LcsP.lcs_validRaw E os oe ns ne w ho hn hb
  exact ⟨r, w', by simpa [rawTrace, diffWith] using h, hv⟩

/-- LCS indices are exact (not merely run-relative), for every clock. -/
theorem lcs_exact (E : Env) (os oe ns ne : Nat) (w : World) (ho : os ≤ oe) (hn : ns ≤ ne)
    (hb : InBounds E os oe ns ne) :
    ∃ ops w', rawTrace .lcs E os oe ns ne w = .ok ({ trace := ops.map Call.op ++ [.finish] }, w') ∧
      Walk (eqB E) os ns ops oe ne ∧ Exact os ns ops := by
  obtain ⟨ops, w', h, hw, hx⟩ := LcsP.lcs_valid E os oe ns ne w ho hn hb
  exact ⟨ops, w', by simpa [rawTrace, diffWith] using h, hw, hx⟩

/-- **Myers, partial correctness** (for every clock), relative to `SnakeInBox`. -/
theorem myers_partial (E : Env) (hbox : MyersP.SnakeInBox E) (os oe ns ne : Nat) (w : World) (r' : Rec) (w' : World)
    (ho : os ≤ oe) (hn : ns ≤ ne) (hb : InBounds E os oe ns ne)
    (h : rawTrace .myers E os oe ns ne w = .ok (r', w')) : ValidRaw E os oe ns ne r'.trace :=
  MyersP.myers_sound E hbox os oe ns ne w r' w' ho hn hb (by simpa [rawTrace, diffWith] using h)

/-- Myers' indices are exact except that the insert of the deadline fallback carries the old
position before its delete (unconditional in the clock; `NearExact` is defined in Lemmas/Myers). -/
theorem myers_near_exact (E : Env) (hbox : MyersP.SnakeInBox E) (os oe ns ne : Nat) (w : World) (r' : Rec) (w' : World)
    (ho : os ≤ oe) (hn : ns ≤ ne) (hb : InBounds E os oe ns ne)
    (h : rawTrace .myers E os oe ns ne w = .ok (r', w')) :
    ∃ ops, r'.trace = ops.map Call.op ++ [.finish] ∧ Walk (eqB E) os ns ops oe ne ∧ Carried os ns ops ∧
      MyersP.NearExact none os ns ops := by
  obtain ⟨ops, h1, h2, h3, _, h5, _⟩ :=
    MyersP.myers_sound_near E hbox os oe ns ne w r' w' ho hn hb (by simpa [rawTrace, diffWith] using h)
  exact ⟨ops, h1, h2, h3, h5⟩

/-- **Corollary for every algorithm: replaying the callbacks on the old range reproduces the new
range.** The `k`-th item the script produces is `new[ns+k]` itself or an old item equal to it, and
it produces exactly `ne - ns` items. -/
theorem replay_reproduces_new (E : Env) (os oe ns ne : Nat) (t : List Call) (hv : ValidRaw E os oe ns ne t) :
    ∃ ops, t = ops.map Call.op ++ [.finish] ∧ (produced ops).length = ne - ns ∧
      ∀ k item, (produced ops)[k]? = some item →
        (item.1 = true → item.2 = ns + k) ∧ (item.1 = false → eqB E item.2 (ns + k) = true) := by
  obtain ⟨ops, ht, hw, _⟩ := hv
  exact ⟨ops, ht, (walk_replay ops os ns oe ne hw).1, (walk_replay ops os ns oe ne hw).2⟩

/-- a valid script consumes exactly both ranges -/
theorem covers_both_ranges (E : Env) (os oe ns ne : Nat) (t : List Call) (hv : ValidRaw E os oe ns ne t) :
    ∃ ops, t = ops.map Call.op ++ [.finish] ∧ oe = os + nDel ops + nEq ops ∧ ne = ns + nIns ops + nEq ops := by
  obtain ⟨ops, ht, hw, _⟩ := hv
  exact ⟨ops, ht, walk_counts ops os ns oe ne hw⟩

/-- non-vacuity: a concrete in-bounds instance (`[1,0]` vs `[1,2,0,1]`), LCS returns the script shown -/
example : (rawTrace .lcs (Env.ofSeqs #[1,0] #[1,2,0,1]) 0 2 0 4 {}).map (·.1.trace) =
    .ok [.op (.equal 0 0 1), .op (.insert 1 1 1), .op (.equal 1 2 1), .op (.insert 2 3 1), .finish] := by rfl

example : InBounds (Env.ofSeqs #[1,0] #[1,2,0,1]) 0 2 0 4 := by
  intro i j _ hi _ hj
  have : i = 0 ∨ i = 1 := by omega
  have : j = 0 ∨ j = 1 ∨ j = 2 ∨ j = 3 := by omega
  rcases ‹i = 0 ∨ i = 1› with rfl | rfl <;> rcases ‹j = 0 ∨ j = 1 ∨ j = 2 ∨ j = 3› with rfl | rfl | rfl | rfl <;> decide

end SimilarVerif.C01

namespace SimilarVerif.C01
open SimilarVerif Spec

/-- **Patience, partial correctness** (for every clock), relative to `SnakeInBox` for the sequences
and for the two unique-item lists the outer Myers run works on. -/
theorem patience_partial (E : Env) (hboxE : MyersP.SnakeInBox E) (os oe ns ne : Nat)
    (hboxU : ∀ uo un, unique E.oo os oe = some uo → unique E.nn ns ne = some un →
      MyersP.SnakeInBox (E.sub uo.toArray un.toArray))
    (w : World) (r' : Rec) (w' : World) (ho : os ≤ oe) (hn : ns ≤ ne) (hb : InBounds E os oe ns ne)
    (h : rawTrace .patience E os oe ns ne w = .ok (r', w')) : ValidRaw E os oe ns ne r'.trace :=
  PatienceP.patience_sound E hboxE os oe ns ne hboxU w r' w' ho hn hb (by simpa [rawTrace, diffWith] using h)

end SimilarVerif.C01

namespace SimilarVerif.C01
open SimilarVerif Spec

/-- **Myers, full strength** (Myers' middle-snake theory, Lemmas/MyersTheory.lean + MyersTotal.lean):
for all in-bounds ranges and every clock the call returns — no index of the `V` arrays out of bounds,
no `usize` underflow, the split point inside the box and never a corner, so the recursion terminates —
and the callback stream is valid. -/
theorem myers_total_valid (E : Env) (os oe ns ne : Nat) (w : World) (ho : os ≤ oe) (hn : ns ≤ ne)
    (hb : InBounds E os oe ns ne) :
    ∃ r w', rawTrace .myers E os oe ns ne w = .ok (r, w') ∧ ValidRaw E os oe ns ne r.trace := by
  obtain ⟨r, w', h, hv⟩ := MyersT.myers_valid E os oe ns ne w ho hn hb
  exact ⟨r, w', by simpa [rawTrace, diffWith] using h, hv⟩

/-- the two facts about `find_middle_snake` the soundness proofs were relative to hold for EVERY
environment (arbitrary `off`, arbitrary stale contents of the `V` arrays) -/
theorem snake_in_box (E : Env) : MyersP.SnakeInBox E := MyersT.snake_in_box E
theorem snake_found (E : Env) : MyersP.SnakeFound E := MyersT.snake_found E

/-- **Patience, partial correctness without hypotheses**: whenever the call returns, the stream is
valid (totality of Patience — the inner runs and `unique` never abort — is the remaining gap). -/
theorem patience_valid_if_returns (E : Env) (os oe ns ne : Nat) (w : World) (r' : Rec) (w' : World)
    (ho : os ≤ oe) (hn : ns ≤ ne) (hb : InBounds E os oe ns ne)
    (h : rawTrace .patience E os oe ns ne w = .ok (r', w')) : ValidRaw E os oe ns ne r'.trace :=
  patience_partial E (MyersT.snake_in_box E) os oe ns ne (fun uo un _ _ => MyersT.snake_in_box _) w r' w' ho hn hb h

end SimilarVerif.C01

namespace SimilarVerif.C01
open SimilarVerif Spec

/-- **Patience, full strength**: for in-bounds ranges (cross comparisons and the same-side comparisons
`unique` needs) and every clock the call returns — `unique`, the anchor scans, every gap run, the tail
run and the `Replace` adapter in front of the internal hook never abort — and the stream is valid. -/
theorem patience_total_valid (E : Env) (os oe ns ne : Nat) (w : World) (ho : os ≤ oe) (hn : ns ≤ ne)
    (hb : InBounds E os oe ns ne)
    (hbo : ∀ i j, os ≤ i → i < oe → os ≤ j → j < oe → (E.oo i j).isSome)
    (hbn : ∀ i j, ns ≤ i → i < ne → ns ≤ j → j < ne → (E.nn i j).isSome) :
    ∃ r w', rawTrace .patience E os oe ns ne w = .ok (r, w') ∧ ValidRaw E os oe ns ne r.trace := by
  obtain ⟨r, w', h, hv⟩ := PatienceT.patience_total E os oe ns ne w ho hn hb hbo hbn
  exact ⟨r, w', by simpa [rawTrace, diffWith] using h, hv⟩

/-- **Diffing a sub-range equals diffing the extracted slices shifted by the range starts** — every
algorithm, every clock: the run on ranges `os..oe`, `ns..ne` of `E` is the run on `0..oe-os`, `0..ne-ns` of the
shifted element tests (`E.shift os ns` is what the extracted slices answer), with every reported index — carried
ones included — moved by `os` on the old and `ns` on the new side; the same world comes out (comparisons, probes,
clock), and an abort on one side is the same abort on the other. -/
theorem subrange_is_shifted_slice : type_of% @ShiftP.rawTrace_shift := @ShiftP.rawTrace_shift

/-- the additive form, for any initial state of the recording hook (a failing hook included) -/
theorem subrange_is_shifted_slice_add : type_of% @ShiftP.rawTrace_shift_add := @ShiftP.rawTrace_shift_add

/-- … and for ARBITRARY hooks that are related by the shift (`HSim`), any state types -/
theorem subrange_is_shifted_slice_hooks : type_of% @ShiftP.diffWith_sim := @ShiftP.diffWith_sim

end SimilarVerif.C01

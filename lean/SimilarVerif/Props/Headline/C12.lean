import SimilarVerif.Props.C12
import SimilarVerif.Lemmas.HeadlineGlueC12
/-! # C12 — headline -/
namespace SimilarVerif.Headline
open SimilarVerif Spec

/-- **C12 — Grouping keeps every change once, in order, with exactly n items of context.**

Vocabulary: `groupDiffOps ops n` is `group_diff_ops(ops, n)` of `src/common.rs` (a total function: it returns for
every input); `changesOf l` the non-Equal ops of `l`, in order; `lastItems n x` / `firstItems n x` the last / first
`min n len` items of an Equal op `x` of `len` items, `x` itself when `x` is a change; `BigEqual n x`: `x` is an Equal
op of more than `2n` items; `GroupOf n pre mid post g` (Lemmas/HeadlineGlueC12.lean): `g` is the run `mid` of
`ops = pre ++ mid ++ post` with its first op replaced by `lastItems n` of it, its last op by `firstItems n` of it and
every interior op unchanged, where `mid` starts at the start of the input or at a `BigEqual` op and ends at the end
of the input or at a `BigEqual` op (or, when the whole input is one change, `g = mid = ops`).

"For any valid op list and radius n [part (I): `ops`, `n`.  "Valid" is `AltOps ops` — no empty op and no two
adjacent Equal ops; (V) shows that every valid script (`Walk`) whose Equal / non-Equal ops alternate satisfies it,
(CAP) that whatever `capture_diff` returns does.  The clauses that hold for EVERY op list — (a), (b), (e), (e0),
(f), (g), (g0), (g') — are stated without it; (c), (d), (e1), (e2) have it as a visible hypothesis, and
`C12_altOps_needed` below is the recorded counterexample showing that (c) and (d) are false without it],
grouping returns groups that are
(a) each a contiguous run of ops [`ops = pre ++ mid ++ post ∧ GroupOf n pre mid post g`: only the first and the
    last op of the run are cut, and only when they are Equal ops],
(b) together contain every non-Equal op exactly once, unchanged and in order
    [`changesOf (groupDiffOps ops n).flatten = changesOf ops`],
(c) and never consist of Equal ops only [`changesOf g ≠ []`; needs `AltOps`]
(d) (no changes means no groups) [needs `AltOps`].
(e) Each group starts and ends with min(n, available) equal items of context taken from the adjacent equal run
    [`GroupOf`, for every group: a group whose run starts with an Equal op of `len` items starts with exactly the
    LAST `min n len` items of it, one whose run ends with an Equal op ends with exactly its FIRST `min n len` items;
    a run that starts with a change has `pre = []` and one that ends with a change has `post = []` (a change is
    not `BigEqual`), so nothing was available; (e0): an input that starts / ends with a change gives a first / last
    group that starts / ends with that change; (e1), (e2), under `AltOps`: the first group starts with the last
    `min n len` items of a leading Equal op, the last group ends with the first `min n len` items of a trailing
    Equal op; at a split both sides get exactly `n` items: second half of (g)],
(f) keeps interior equal runs whole [`inner` in `GroupOf` is unchanged] (they are at most 2n long) [every Equal op
    of a group has at most `2n` items; a group's first / last op, when Equal, at most `n`],
(g) and two changes fall into different groups exactly when more than 2n equal items separate them [two consecutive
    changes `c1`, `c2` with one Equal op of `len` items between them: `len ≤ 2n` — one group contains `c1`, the
    whole Equal op and `c2`; `2n < len` — `c1` ends one group, followed by `n` items of context, and `c2` starts the
    next group, preceded by the last `n` items; `changesOf (G1.flatten ++ s1) = changesOf pre` says that these are
    the occurrences of `c1`, `c2` at that place; (g0): no Equal op between them — same group]
(g') [the same for two ARBITRARY changes `c1`, `c2` with any ops `mid` between them,
    `ops = pre ++ [c1] ++ mid ++ [c2] ++ post`: every Equal op of `mid` has at most `2n` items — one group contains
    `c1`, the whole of `mid` and `c2`; some Equal op of `mid` has more than `2n` items — `c1` is in a group `g1` and
    `c2` in a LATER group `g2` (`groupDiffOps ops n = G1 ++ [g1] ++ Gm ++ [g2] ++ G2`), where `g1` ends with the
    first `n` items of the first such Equal op of `mid` and holds the ops of `mid` before it whole;
    `changesOf (G1.flatten ++ s1) = changesOf pre` and
    `changesOf ((G1 ++ [g1] ++ Gm).flatten ++ s2) = changesOf (pre ++ [c1] ++ mid)` say that these are the given
    occurrences of `c1` (after `s1` in `g1`) and `c2` (after `s2` in `g2`).  No hypothesis on the op list]."

(CAP), the hypothesis-free form: for every algorithm, shipped (`repair = false`) and repaired clean-up, every clock
and in-bounds ranges (`os ≤ oe`, `ns ≤ ne`, `InBounds`: every cross comparison is defined; for Patience also the
same-side comparisons of `unique`, `SameSideBounds`) `capture_diff` RETURNS a valid script `ops` with `AltOps ops`,
for which all clauses hold for every radius, with no hypothesis on `ops`; additionally (h) every group is itself a
valid script between its own end points (empty context ops, which `n = 0` produces, aside).

Not covered by this theorem: nothing of the property text is false of the model or left out.  Remarks on the form:
(g) is stated for CONSECUTIVE changes; the form for two ARBITRARY changes is clause (g').  (e1), (e2) are
proved under `AltOps` (the existing theorems); the counterexample concerns (c) and (d) only. -/
theorem C12_statement :
    -- (I) every op list, every radius
    (∀ (ops : List Op) (n : Nat),
      -- (a), (e), (f): every group, exactly
      (∀ g ∈ groupDiffOps ops n, ∃ pre mid post, ops = pre ++ mid ++ post ∧ GroupOf n pre mid post g) ∧
      -- (b)
      changesOf (groupDiffOps ops n).flatten = changesOf ops ∧
      -- (f) bounds
      (∀ g ∈ groupDiffOps ops n,
        (∀ x ∈ g, x.tag = .equal → x.oLen ≤ 2 * n) ∧
        (∀ x, g.head? = some x → x.tag = .equal → x.oLen ≤ n) ∧
        (∀ x, g.getLast? = some x → x.tag = .equal → x.oLen ≤ n)) ∧
      -- (g)
      (∀ pre post c1 c2 o m len, ops = pre ++ [c1, .equal o m len, c2] ++ post →
        c1.tag ≠ .equal → c2.tag ≠ .equal →
        (len ≤ 2 * n → ∃ G1 s1 s2 G2,
          groupDiffOps ops n = G1 ++ [s1 ++ [c1, .equal o m len, c2] ++ s2] ++ G2 ∧
          changesOf (G1.flatten ++ s1) = changesOf pre) ∧
        (2 * n < len → ∃ G1 s1 s2 G2,
          groupDiffOps ops n =
            G1 ++ [s1 ++ [c1, .equal o m n], [.equal (o + (len - n)) (m + (len - n)) n, c2] ++ s2] ++ G2 ∧
          changesOf (G1.flatten ++ s1) = changesOf pre)) ∧
      -- (g0)
      (∀ pre post c1 c2, ops = pre ++ [c1, c2] ++ post → c1.tag ≠ .equal → c2.tag ≠ .equal →
        ∃ G1 s1 s2 G2, groupDiffOps ops n = G1 ++ [s1 ++ [c1, c2] ++ s2] ++ G2 ∧
          changesOf (G1.flatten ++ s1) = changesOf pre) ∧
      -- (g') two arbitrary changes
      (∀ pre mid post c1 c2, ops = pre ++ [c1] ++ mid ++ [c2] ++ post → c1.tag ≠ .equal → c2.tag ≠ .equal →
        ((∀ x ∈ mid, x.tag = .equal → x.oLen ≤ 2 * n) → ∃ G1 s1 s2 G2,
          groupDiffOps ops n = G1 ++ [s1 ++ [c1] ++ mid ++ [c2] ++ s2] ++ G2 ∧
          changesOf (G1.flatten ++ s1) = changesOf pre) ∧
        ((∃ x ∈ mid, x.tag = .equal ∧ 2 * n < x.oLen) → ∃ G1 g1 Gm g2 G2 s1 t1 s2 t2,
          groupDiffOps ops n = G1 ++ [g1] ++ Gm ++ [g2] ++ G2 ∧
          g1 = s1 ++ [c1] ++ t1 ∧ changesOf (G1.flatten ++ s1) = changesOf pre ∧
          g2 = s2 ++ [c2] ++ t2 ∧
          changesOf ((G1 ++ [g1] ++ Gm).flatten ++ s2) = changesOf (pre ++ [c1] ++ mid) ∧
          (∃ m1 o m len m2, mid = m1 ++ .equal o m len :: m2 ∧ 2 * n < len ∧
            (∀ y ∈ m1, y.tag = .equal → y.oLen ≤ 2 * n) ∧ t1 = m1 ++ [.equal o m n]))) ∧
      -- (e0)
      (∀ c rest, ops = c :: rest → c.tag ≠ .equal → ∃ s gs, groupDiffOps ops n = (c :: s) :: gs) ∧
      (∀ c pre, ops = pre ++ [c] → c.tag ≠ .equal → ∃ gs s, groupDiffOps ops n = gs ++ [s ++ [c]]) ∧
      -- valid op lists
      (AltOps ops →
        -- (c)
        (∀ g ∈ groupDiffOps ops n, changesOf g ≠ []) ∧
        -- (d)
        (changesOf ops = [] → groupDiffOps ops n = []) ∧
        -- (e1)
        (∀ o m len rest, ops = .equal o m len :: rest → rest ≠ [] →
          ∃ s gs, groupDiffOps ops n =
            (.equal (o + (len - min n len)) (m + (len - min n len)) (min n len) :: s) :: gs) ∧
        -- (e2)
        (∀ o m len pre, ops = pre ++ [.equal o m len] → pre ≠ [] →
          ∃ gs s, groupDiffOps ops n = gs ++ [s ++ [.equal o m (min n len)]]))) ∧
    -- (V) a valid script whose Equal / non-Equal ops alternate is a valid op list
    (∀ (e : Nat → Nat → Bool) (ops : List Op) (o n o' n' : Nat),
      Walk e o n ops o' n' → Alternating ops → AltOps ops) ∧
    -- (CAP) every captured diff, no hypothesis on the op list
    (∀ (alg : Alg) (E : Env) (repair : Bool) (os oe ns ne : Nat) (w : World),
      os ≤ oe → ns ≤ ne → InBounds E os oe ns ne →
      (alg = .patience → CaptureNF.SameSideBounds E os oe ns ne) →
      ∃ ops w', captureDiff alg E repair os oe ns ne w = .ok (ops, w') ∧ Walk (eqB E) os ns ops oe ne ∧
        AltOps ops ∧ ∀ n : Nat,
        -- (a), (e), (f)
        (∀ g ∈ groupDiffOps ops n, ∃ pre mid post, ops = pre ++ mid ++ post ∧ GroupOf n pre mid post g) ∧
        -- (b)
        changesOf (groupDiffOps ops n).flatten = changesOf ops ∧
        -- (c)
        (∀ g ∈ groupDiffOps ops n, changesOf g ≠ []) ∧
        -- (d)
        (changesOf ops = [] → groupDiffOps ops n = []) ∧
        -- (f) bounds
        (∀ g ∈ groupDiffOps ops n,
          (∀ x ∈ g, x.tag = .equal → x.oLen ≤ 2 * n) ∧
          (∀ x, g.head? = some x → x.tag = .equal → x.oLen ≤ n) ∧
          (∀ x, g.getLast? = some x → x.tag = .equal → x.oLen ≤ n)) ∧
        -- (e1)
        (∀ o m len rest, ops = .equal o m len :: rest → rest ≠ [] →
          ∃ s gs, groupDiffOps ops n =
            (.equal (o + (len - min n len)) (m + (len - min n len)) (min n len) :: s) :: gs) ∧
        -- (e2)
        (∀ o m len pre, ops = pre ++ [.equal o m len] → pre ≠ [] →
          ∃ gs s, groupDiffOps ops n = gs ++ [s ++ [.equal o m (min n len)]]) ∧
        -- (g)
        (∀ pre post c1 c2 o m len, ops = pre ++ [c1, .equal o m len, c2] ++ post →
          c1.tag ≠ .equal → c2.tag ≠ .equal →
          (len ≤ 2 * n → ∃ G1 s1 s2 G2,
            groupDiffOps ops n = G1 ++ [s1 ++ [c1, .equal o m len, c2] ++ s2] ++ G2 ∧
            changesOf (G1.flatten ++ s1) = changesOf pre) ∧
          (2 * n < len → ∃ G1 s1 s2 G2,
            groupDiffOps ops n =
              G1 ++ [s1 ++ [c1, .equal o m n], [.equal (o + (len - n)) (m + (len - n)) n, c2] ++ s2] ++ G2 ∧
            changesOf (G1.flatten ++ s1) = changesOf pre)) ∧
        -- (h)
        (∀ g ∈ groupDiffOps ops n,
          ∃ a b c d, Walk (eqB E) a b (g.filter fun x => !x.isEmpty) c d ∧ os ≤ a ∧ c ≤ oe ∧ ns ≤ b ∧ d ≤ ne)) := by
  refine ⟨fun ops n => ⟨group_groupOf ops n, C12.keeps_changes ops n, C12.equal_bounds ops n,
    fun pre post c1 c2 o m len h h1 h2 => C12.separation ops n pre post c1 c2 o m len h h1 h2,
    fun pre post c1 c2 h h1 h2 => C12.adjacent_changes ops n pre post c1 c2 h h1 h2,
    fun pre mid post c1 c2 h h1 h2 =>
      ⟨fun hm => C12.arbitrary_pair_same_group ops n pre mid post c1 c2 h h1 h2 hm,
       fun hm => C12.arbitrary_pair_different_groups ops n pre mid post c1 c2 h h1 h2 hm⟩,
    fun c rest h hc => h ▸ group_leading_change n c rest hc,
    fun c pre h hc => h ▸ group_trailing_change n c pre hc,
    fun hv => ⟨C12.has_change ops n hv, C12.no_changes ops n hv,
      fun o m len rest h hr => C12.leading_context ops n o m len rest hv h hr,
      fun o m len pre h hp => C12.trailing_context ops n o m len pre hv h hp⟩⟩,
    C12.altOps_of_walk_alternating, ?_⟩
  intro alg E repair os oe ns ne w ho hn hb hp
  obtain ⟨ops, w', hc, hw, hv, hall⟩ := C12.group_captured alg E repair os oe ns ne w ho hn hb hp
  refine ⟨ops, w', hc, hw, hv, fun n => ?_⟩
  obtain ⟨k1, k2, k3, -, k5, k6, k7, k8, k9⟩ := hall n
  exact ⟨group_groupOf ops n, k1, k2, k3, k5, k6, k7, k8, k9⟩

#print axioms C12_statement

/-- **the hypothesis `AltOps` cannot be dropped from (c) and (d)** (recorded in Props/C12.lean, found while proving):
two adjacent Equal ops — a list without any change — give one group, which consists of Equal ops only.  Such lists
are not produced by the capture pipeline (CAP). -/
theorem C12_altOps_needed :
    ¬ AltOps [.equal 0 0 5, .equal 5 5 5] ∧
    changesOf [.equal 0 0 5, .equal 5 5 5] = [] ∧
    groupDiffOps [.equal 0 0 5, .equal 5 5 5] 1 = [[.equal 4 4 1, .equal 5 5 1]] ∧
    changesOf [.equal 4 4 1, .equal 5 5 1] = [] :=
  ⟨fun h => h.2.1 ⟨rfl, rfl⟩, rfl, by decide, rfl⟩

/-- the exact per-group form (a) implies the form of `C12.contiguous` -/
example (ops : List Op) (n : Nat) (g : List Op) (hg : g ∈ groupDiffOps ops n) :
    ∃ pre mid post, ops = pre ++ mid ++ post ∧ Trimmed mid g := by
  obtain ⟨pre, mid, post, h, hG⟩ := C12_statement.1 ops n |>.1 g hg
  exact ⟨pre, mid, post, h, hG.trimmed⟩

/-- non-vacuity: a concrete valid op list (leading and trailing Equal op, two changes 7 > 2·1 items apart) … -/
example : AltOps [.equal 0 0 5, .delete 5 1 5, .equal 6 5 7, .insert 13 12 1, .equal 13 13 2] := by
  simp [AltOps, Op.isEmpty, Op.oLen, Op.nLen, Op.tag]
example : Walk (fun _ _ => true) 0 0 [.equal 0 0 5, .delete 5 1 5, .equal 6 5 7, .insert 13 12 1, .equal 13 13 2] 15 15 ∧
    Alternating [.equal 0 0 5, .delete 5 1 5, .equal 6 5 7, .insert 13 12 1, .equal 13 13 2] := by
  simp [Walk, Alternating, Op.tag]

/-- … what the model computes on it for `n = 1` (two groups) and `n = 4` (7 ≤ 2·4: one group, interior run whole) … -/
example : groupDiffOps [.equal 0 0 5, .delete 5 1 5, .equal 6 5 7, .insert 13 12 1, .equal 13 13 2] 1 =
    [[.equal 4 4 1, .delete 5 1 5, .equal 6 5 1], [.equal 12 11 1, .insert 13 12 1, .equal 13 13 1]] := by decide
example : groupDiffOps [.equal 0 0 5, .delete 5 1 5, .equal 6 5 7, .insert 13 12 1, .equal 13 13 2] 4 =
    [[.equal 1 1 4, .delete 5 1 5, .equal 6 5 7, .insert 13 12 1, .equal 13 13 2]] := by decide

/-- … and `GroupOf` for its two groups at `n = 1`: the runs overlap in the Equal op of 7 items, which is `BigEqual` -/
example : GroupOf 1 [] [.equal 0 0 5, .delete 5 1 5, .equal 6 5 7] [.insert 13 12 1, .equal 13 13 2]
    [.equal 4 4 1, .delete 5 1 5, .equal 6 5 1] :=
  Or.inr ⟨_, [_], _, rfl, rfl, Or.inl rfl, Or.inr ⟨rfl, by decide⟩⟩
example : GroupOf 1 [.equal 0 0 5, .delete 5 1 5] [.equal 6 5 7, .insert 13 12 1, .equal 13 13 2] []
    [.equal 12 11 1, .insert 13 12 1, .equal 13 13 1] :=
  Or.inr ⟨_, [_], _, rfl, rfl, Or.inr ⟨rfl, by decide⟩, Or.inl rfl⟩

/-- non-vacuity of (CAP): its hypotheses hold for `[0,1,2]` vs `[0,2,2]`, every algorithm and clock … -/
example (alg : Alg) (w : World) :=
  C12_statement.2.2 alg (Env.ofSeqs #[0, 1, 2] #[0, 2, 2]) false 0 3 0 3 w (by omega) (by omega)
    (by
      intro i j _ hi _ hj
      have : i = 0 ∨ i = 1 ∨ i = 2 := by omega
      have : j = 0 ∨ j = 1 ∨ j = 2 := by omega
      rcases ‹i = 0 ∨ i = 1 ∨ i = 2› with rfl | rfl | rfl <;>
        rcases ‹j = 0 ∨ j = 1 ∨ j = 2› with rfl | rfl | rfl <;> decide)
    (fun _ => by
      constructor <;>
      · intro i j _ hi _ hj
        have : i = 0 ∨ i = 1 ∨ i = 2 := by omega
        have : j = 0 ∨ j = 1 ∨ j = 2 := by omega
        rcases ‹i = 0 ∨ i = 1 ∨ i = 2› with rfl | rfl | rfl <;>
          rcases ‹j = 0 ∨ j = 1 ∨ j = 2› with rfl | rfl | rfl <;> decide)

/-- … and what the model computes there (all three algorithms; tags and old / new lengths, the carried index of the
Delete differs between the algorithms): Equal, Delete, Equal, Insert, which radius `0` splits at the Equal op of 1 > 2·0
items into two groups with empty context ops, and radius `1` keeps in one group -/
example : ∀ alg, (captureDiff alg (Env.ofSeqs #[0, 1, 2] #[0, 2, 2]) false 0 3 0 3 {}).map
      (fun r => (groupDiffOps r.1 0).map (·.map fun x => (x.tag, x.oLen, x.nLen))) =
    .ok [[(.equal, 0, 0), (.delete, 1, 0), (.equal, 0, 0)], [(.equal, 0, 0), (.insert, 0, 1)]] := by
  intro alg; cases alg <;> rfl
example : ∀ alg, (captureDiff alg (Env.ofSeqs #[0, 1, 2] #[0, 2, 2]) false 0 3 0 3 {}).map
      (fun r => (groupDiffOps r.1 1).map (·.map fun x => (x.tag, x.oLen, x.nLen))) =
    .ok [[(.equal, 1, 1), (.delete, 1, 0), (.equal, 1, 1), (.insert, 0, 1)]] := by
  intro alg; cases alg <;> rfl

end SimilarVerif.Headline

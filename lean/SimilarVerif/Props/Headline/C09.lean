import SimilarVerif.Props.C09
import SimilarVerif.Props.C10
import SimilarVerif.Props.C13
import SimilarVerif.Lemmas.HeadlineGlue
import SimilarVerif.Lemmas.HeadlineGlueC09
/-! # C09 — headline -/
namespace SimilarVerif.Headline
open SimilarVerif Spec

/-- **the canonical normal form of C09, clause by clause**, for an op list `ops` whose items are compared through
`E` (`E.on i j` is `new[j] == old[i]`, `none` = out of bounds).  The letters are those of `C09_statement`.
`Alternating` (Lemmas/Replace.lean): for every two adjacent ops `x, y`, `(x.tag = .equal) ≠ (y.tag = .equal)`.
`allChanges ops` is the item-wise expansion of the whole list (`AllChangesIter` of `src/iter.rs`, C13): one
`Change` per item, tag `equal` / `delete` / `insert`, a Replace giving its deletes then its inserts. -/
def CanonicalNormalForm (E : Env) (ops : List Op) : Prop :=
  -- (a) Equal and non-Equal ops strictly alternate
  Alternating ops ∧
  -- (b) no op is empty
  (∀ x ∈ ops, x.isEmpty = false) ∧
  -- (c) a deletion adjacent to an insertion is reported as one Replace: two adjacent ops are never both changes
  --     (so a Delete never touches an Insert, in either order), and a Replace has a deleted and an inserted part
  ((∀ pre x y post, ops = pre ++ x :: y :: post → ¬ (x.tag ≠ .equal ∧ y.tag ≠ .equal)) ∧
    (∀ o ol n nl, Op.replace o ol n nl ∈ ops → 0 < ol ∧ 0 < nl)) ∧
  -- (d) within any run of changes all deleted items precede all inserted items
  (∀ pre run post : List Change, allChanges ops = pre ++ run ++ post → (∀ c ∈ run, c.tag ≠ .equal) →
    ∀ (i j : Nat) (ci cj : Change), run[i]? = some ci → run[j]? = some cj →
      ci.tag = .delete → cj.tag = .insert → i < j) ∧
  -- (e) a pure insertion followed by equal items: its first inserted item differs from the first equal item after it
  (∀ pre co cn l eo en el post, ops = pre ++ .insert co cn l :: .equal eo en el :: post →
    E.on eo cn = some false)

/-- a valid alternating script over in-bounds ranges that satisfies clause 4 in the form of Props/C09.lean
(`eqB E eo cn = false`) is in canonical normal form -/
theorem canonicalNormalForm_of {E : Env} {ops : List Op} {os ns oe ne : Nat}
    (hw : Walk (eqB E) os ns ops oe ne) (ha : Alternating ops) (hb : InBounds E os oe ns ne)
    (h4 : ∀ pre co cn l eo en el post, ops = pre ++ .insert co cn l :: .equal eo en el :: post →
      eqB E eo cn = false) : CanonicalNormalForm E ops :=
  ⟨ha, C09.walk_no_empty _ ops _ _ _ _ hw,
    ⟨C09.alternating_no_adjacent_changes ops ha, C09G.walk_replace_pos ops _ _ _ _ hw⟩,
    C09G.run_dels_first ops _ _ _ _ hw ha,
    C09G.insert_equal_differs E ops _ _ _ _ hw hb h4⟩

/-- **C09 — Captured diffs are in canonical normal form.**

"In every captured op list [(I) `captureDiff alg E repair os oe ns ne w = .ok (ops, _)` — it RETURNS — for every
algorithm `alg`, environment `E` (the two sequences, seen through their element tests) and in-bounds sub-ranges
`os..oe`, `ns..ne`, every world `w` (the clock: no deadline, or expiry after any number of probes), both settings of
the model's `repair` switch (`false` = shipped clean-up); (II) the ops stored in a text diff, `textDiffOps`, for any
two token arrays — no hypothesis; (III) C10's arbitrary scripts pushed through Compact+Replace: any valid script
`script` of equal/delete/insert calls fed, followed by `finish`, to `Compact` over `Replace` over the recording
hook — what the recording hook then holds, `out`.  In all three the list is also a valid script, `Walk`.],
[the five clauses are the five conjuncts of `CanonicalNormalForm E ops`, defined directly above:]
(a) Equal and non-Equal ops strictly alternate [`Alternating ops`],
(b) no op is empty [`x.isEmpty = false` for every `x ∈ ops`; `Op.isEmpty` is `DiffOp::is_empty`],
(c) and a deletion adjacent to an insertion is reported as one Replace [no two adjacent ops are both non-Equal, so no
    Delete is next to an Insert in either order; and every Replace has `0 < old_len` and `0 < new_len`],
(d) so within any run of changes all deleted items precede all inserted items [item level: `run` is any contiguous
    stretch of `allChanges ops` without an equal item — in particular every maximal one; a `delete` item at
    position `i` of `run` and an `insert` item at position `j` have `i < j`].
(e) A pure insertion that is followed by equal items sits at its latest position: its first inserted item differs
    from the first equal item after it [an `Insert … cn …` directly followed by an `Equal eo …`: the comparison
    `new[cn] == old[eo]`, `E.on eo cn`, is defined and `false`]."

Hypotheses, all visible in the statement.  (I): the ranges are not reversed (`os ≤ oe`, `ns ≤ ne`) and in bounds —
`InBounds`: every `new[j] == old[i]` inside them is defined; for Patience also `CaptureNF.SameSideBounds`: the
same-side tests `old[i] == old[j]`, `new[i] == new[j]` that only its `unique` performs are defined (an undefined
test is a Rust indexing panic).  (II): none.  (III): C10's — the script is valid (`Walk`), contains no `replace`
call (`NoReplaceOp`; C10's text: "equal/delete/insert calls"), its carried indices obey C01's rule (`Carried`, what
every algorithm delivers) and its ranges are in bounds; `Compact`'s clean-up compares items and shifts carried
indices with checked subtraction, without these it can panic.

No clause of the text is false of the model, so there is no counterexample theorem to record here (the known
finding of the shipped clean-up, the swap that corrupts CARRIED indices, belongs to C11; it does not touch the normal
form, and the statement holds for `repair = false`).  (III) closes what `C10_statement` lists as not covered: clause
(e) for `out`, not only for `Compact`'s buffer.
Not covered by this theorem: nothing of the property text. -/
theorem C09_statement (alg : Alg) (E : Env) (repair : Bool) (os oe ns ne : Nat) (w : World) :
    -- (I) whatever `capture_diff` returns
    (os ≤ oe → ns ≤ ne → InBounds E os oe ns ne →
      (alg = .patience → CaptureNF.SameSideBounds E os oe ns ne) →
      ∃ ops w', captureDiff alg E repair os oe ns ne w = .ok (ops, w') ∧
        Walk (eqB E) os ns ops oe ne ∧
        -- (a) – (e)
        CanonicalNormalForm E ops) ∧
    -- (II) the ops stored in a text diff
    (∀ old new : Array Bytes,
      ∃ ops w', textDiffOps alg repair old new w = .ok (ops, w') ∧
        Walk (eqB (Env.ofTokens old new)) 0 0 ops old.size new.size ∧
        -- (a) – (e)
        CanonicalNormalForm (Env.ofTokens old new) ops) ∧
    -- (III) C10's arbitrary scripts pushed through Compact+Replace
    (∀ (script : List Op) (o n o' n' : Nat),
      NoReplaceOp script → Walk (eqB E) o n script o' n' → Carried o n script → InBounds E o o' n n' →
      ∃ (buf : List Op) (rs : RState) (out : List Op) (w' : World),
        deliver (compactHook E repair (replaceHook recHook)) (script.map Call.op ++ [.finish]) ([], ({}, {})) w =
          .ok ((buf, (rs, { trace := out.map Call.op ++ [.finish] })), w') ∧
        Walk (eqB E) o n out o' n' ∧
        -- (a) – (e)
        CanonicalNormalForm E out) := by
  refine ⟨?_, ?_, ?_⟩
  · intro ho hn hb hp
    obtain ⟨ops, w', hc, hw, ha, -, -, h4⟩ := C09.capture_normal_form alg E repair os oe ns ne w ho hn hb hp
    exact ⟨ops, w', hc, hw, canonicalNormalForm_of hw ha hb h4⟩
  · intro old new
    have hp := IdentP.eqPattern_ofTokens old new 0 old.size 0 new.size (Nat.le_refl _) (Nat.le_refl _)
    have hr := RangesInBounds.of_eqPattern (Nat.zero_le _) (Nat.zero_le _) hp
    have he := IdentP.textDiffOps_eq_capture alg repair old new w
    obtain ⟨ops, w', hc, hw, ha, -, -, h4⟩ := C09.capture_normal_form alg (Env.ofTokens old new) repair
      0 old.size 0 new.size w hr.old_le hr.new_le hr.cross (fun _ => ⟨hr.oldSide, hr.newSide⟩)
    exact ⟨ops, w', by rw [he]; exact hc, hw, canonicalNormalForm_of hw ha hr.cross h4⟩
  · intro script o n o' n' hnr hw hcar hb
    obtain ⟨buf, rs, out, w', hd, hwo, ha, h4⟩ :=
      C09G.script_compact_replace E repair script o n o' n' w hnr hw hcar hb
    exact ⟨buf, rs, out, w', hd, hwo, canonicalNormalForm_of hwo ha hb h4⟩

#print axioms C09_statement

/-- non-vacuity of (I): old `[1,2,3]`, new `[1,1,2,4]` — the ranges are in bounds, with the same-side tests of
Patience defined, for every algorithm … -/
example (alg : Alg) : (0 ≤ 3 ∧ 0 ≤ 4) ∧ InBounds (Env.ofSeqs #[1,2,3] #[1,1,2,4]) 0 3 0 4 ∧
    (alg = .patience → CaptureNF.SameSideBounds (Env.ofSeqs #[1,2,3] #[1,1,2,4]) 0 3 0 4) :=
  have hr := RangesInBounds.of_eqPattern (by decide) (by decide)
    (IdentP.eqPattern_ofSeqs #[1,2,3] #[1,1,2,4] 0 0 0 3 0 4 (by decide) (by decide) (by decide) (by decide))
  ⟨⟨by decide, by decide⟩, hr.cross, fun _ => ⟨hr.oldSide, hr.newSide⟩⟩

/-- … and every clause is exercised: the inserted `1` sits AFTER the equal `1` (latest position, directly before the
equal `2`, which differs from it), and the deletion of `3` next to the insertion of `4` is one Replace; all three
algorithms, no deadline … -/
example : ∀ alg, (captureDiff alg (Env.ofSeqs #[1,2,3] #[1,1,2,4]) false 0 3 0 4 {}).map (·.1) =
    .ok [.equal 0 0 1, .insert 1 1 1, .equal 1 2 1, .replace 2 1 3 1] := by
  intro alg; cases alg <;> rfl

/-- … and with a deadline that has expired at the first probe (the tail is then one Replace) -/
example : ∀ alg, (captureDiff alg (Env.ofSeqs #[1,2,3] #[1,1,2,4]) false 0 3 0 4 { clock := some 0 }).map (·.1) =
    .ok [.equal 0 0 1, .replace 1 2 1 3] := by
  intro alg; cases alg <;> rfl

/-- (d) on that list: the only run of changes with a deleted and an inserted item is `delete 3, insert 4` -/
example : (allChanges [.equal 0 0 1, .insert 1 1 1, .equal 1 2 1, .replace 2 1 3 1]).map (·.tag) =
    [.equal, .insert, .equal, .delete, .insert] := by decide

/-- (II): the same texts as tokens `a b c` / `a a b d` -/
example : ∀ alg, (textDiffOps alg false #[[97],[98],[99]] #[[97],[97],[98],[100]] {}).map (·.1) =
    .ok [.equal 0 0 1, .insert 1 1 1, .equal 1 2 1, .replace 2 1 3 1] := by
  intro alg; cases alg <;> rfl

/-- non-vacuity of (III): a valid script for the same sequences with the insertion at its EARLIEST position and an
Insert before a Delete satisfies the hypotheses … -/
example : NoReplaceOp [.insert 0 0 1, .equal 0 1 2, .insert 2 3 1, .delete 2 1 4] ∧
    Carried 0 0 [.insert 0 0 1, .equal 0 1 2, .insert 2 3 1, .delete 2 1 4] := by
  simp [NoReplaceOp, Carried, CarriedGo, InRun]
example : Walk (eqB (Env.ofSeqs #[1,2,3] #[1,1,2,4])) 0 0
    [.insert 0 0 1, .equal 0 1 2, .insert 2 3 1, .delete 2 1 4] 3 4 := by
  simp only [Walk, true_and, and_true]
  refine ⟨by decide, by decide, ?_, by decide, by decide⟩
  intro t ht
  have : t = 0 ∨ t = 1 := by omega
  rcases this with rfl | rfl <;> decide

/-- … and `Compact` over `Replace` turns it into the captured list above -/
example : (deliver (compactHook (Env.ofSeqs #[1,2,3] #[1,1,2,4]) false (replaceHook recHook))
    (([.insert 0 0 1, .equal 0 1 2, .insert 2 3 1, .delete 2 1 4] : List Op).map Call.op ++ [.finish])
    ([], ({}, {})) {}).map (·.1.2.2.trace) =
    .ok [.op (.equal 0 0 1), .op (.insert 1 1 1), .op (.equal 1 2 1), .op (.replace 2 1 3 1), .finish] := by rfl

end SimilarVerif.Headline

import SimilarVerif.Props.C14
import SimilarVerif.Spec.Walk
import SimilarVerif.Lemmas.Identical
/-! # C14 — headline -/
namespace SimilarVerif.Headline
open SimilarVerif Spec IdentP

/-- **C14 — A text diff is the sequence diff of its tokens at every size and config.**

`textDiffOps alg repair old new w` is the op computation of `TextDiffConfig::diff` on the two token arrays — with
the switch to `IdentifyDistinct::<u32>` when a side has more than 100 tokens; `identifyDistinct` is the integer
mapping (ids in first-seen order, specified without the Rust `HashMap`).

"(a) For every tokenizer [every pair of token arrays `old new`], algorithm and input size - below and above the size
    at which items are first mapped to integers - the ops of a text diff equal the ops obtained by diffing the token
    slices directly with the same algorithm [`captureDiff` on `Env.ofTokens old new`, whole ranges, same clock,
    same setting of the model's repair switch],
(b) the diff reports the configured algorithm [see "not covered"],
(c) and it is marked newline-terminated only for line diffs unless explicitly overridden.
(d) The integer mapping itself assigns equal numbers to two items, within or across the two sides, exactly when the
    items are equal [for index ranges whose element tests are those of labellings `lo`, `ln` of the items
    (`EqPatternWith`, any label type with lawful equality — every pair of real sequences is of this form, cf.
    `C14.pattern_ofSeqs`, `C14.pattern_ofTokens`): the mapping returns, and id equality is label equality within
    old, within new, and across], and keeps the caller's index ranges [the id arrays have the lengths of the two
    ranges; position `i - os` / `j - ns` holds the id of item `i` / `j`];
(e) [consequence used for (a)] the environment of the two id arrays IS the environment of the tokens."

No hypotheses besides `EqPatternWith` in (d).
Not covered by this theorem: (b) `TextDiff::algorithm()` — a stored configuration field returned by a getter; the
model has no such field (what (a) shows is that the configured algorithm is the one that runs); more distinct items
than the integer type holds (excluded by the property's own scope: the model's ids are unbounded naturals). -/
theorem C14_statement :
    -- (a)
    (∀ (alg : Alg) (repair : Bool) (old new : Array Bytes) (w : World),
      textDiffOps alg repair old new w =
        captureDiff alg (Env.ofTokens old new) repair 0 old.size 0 new.size w) ∧
    -- (c)
    (∀ (override : Option Bool) (isLines : Bool),
      newlineTerminated override isLines = (match override with | some b => b | none => isLines)) ∧
    -- (d)
    (∀ {α : Type} [BEq α] [LawfulBEq α] (E : Env) (os oe ns ne : Nat) (lo ln : Nat → α),
      EqPatternWith E os oe ns ne lo ln →
      ∃ io i_n, identifyDistinct E os oe ns ne = some (io, i_n) ∧ io.size = oe - os ∧ i_n.size = ne - ns ∧
        (∀ i j, os ≤ i → i < oe → os ≤ j → j < oe → (io[i - os]! = io[j - os]! ↔ lo i = lo j)) ∧
        (∀ i j, ns ≤ i → i < ne → ns ≤ j → j < ne → (i_n[i - ns]! = i_n[j - ns]! ↔ ln i = ln j)) ∧
        (∀ i j, os ≤ i → i < oe → ns ≤ j → j < ne → (i_n[j - ns]! = io[i - os]! ↔ ln j = lo i))) ∧
    -- (e)
    (∀ (old new : Array Bytes) (io i_n : Array Nat),
      identifyDistinct (Env.ofTokens old new) 0 old.size 0 new.size = some (io, i_n) →
      Env.ofSeqs io i_n = Env.ofTokens old new) := by
  refine ⟨C14.text_diff_is_token_diff, C14.newline_terminated_rule, ?_, fun old new io i_n h =>
    ofSeqs_identify_eq_ofTokens old new h⟩
  intro α _ _ E os oe ns ne lo ln P
  obtain ⟨io, i_n, h, s1, s2⟩ := identifyDistinct_total P
  obtain ⟨e1, e2, e3⟩ := identifyDistinct_ids_eq_iff P h
  exact ⟨io, i_n, h, s1, s2, e1, e2, e3⟩

#print axioms C14_statement

/-- non-vacuity: the hypothesis of (d) holds for every pair of label arrays and in-range index ranges … -/
example : EqPattern (Env.ofSeqs #[7,8,7] #[8,7]) 1 3 0 2 :=
  eqPattern_ofSeqs #[7,8,7] #[8,7] 0 0 1 3 0 2 (by decide) (by decide) (by decide) (by decide)

/-- … the mapping numbers `old[1..3] = [8,7]`, `new[0..2] = [8,7]` in first-seen order … -/
example : identifyDistinct (Env.ofSeqs #[7,8,7] #[8,7]) 1 3 0 2 = some (#[0,1], #[0,1]) := by decide

/-- … and a text diff above the switch (101 equal tokens each side) is the direct diff -/
example : (textDiffOps .myers false (Array.replicate 101 [97]) (Array.replicate 101 [97]) {}).map (·.1) =
    .ok [.equal 0 0 101] := by
  rw [C14.text_diff_is_token_diff]
  obtain ⟨k, hk⟩ := IdentQ.captureDiff_identical .myers (Env.ofTokens (Array.replicate 101 [97]) (Array.replicate 101 [97]))
    false 0 101 0 101 101 {}
    (by simpa using IdentP.eqPattern_ofTokens (Array.replicate 101 [97]) (Array.replicate 101 [97]) 0 101 0 101 (by simp) (by simp))
    rfl rfl (by intro t ht; simp [eqB, Env.ofTokens, ht])
  simp only [Array.size_replicate, hk]; rfl

end SimilarVerif.Headline

import SimilarVerif.Props.C11
import SimilarVerif.Props.C05
import SimilarVerif.Lemmas.HeadlineGlue
import SimilarVerif.Lemmas.HeadlineGlueC11
/-! # C11 — headline -/
namespace SimilarVerif.Headline
open SimilarVerif Spec UdiffP

/-- **C11 — Every captured op carries exact positions in both sequences.**

THE SHIPPED CODE VIOLATES THIS PROPERTY (known finding `KF-compact-swap`: the swap of an adjacent Delete / Insert
pair in `Compact`'s clean-up keeps the stale carried indices).  The model's `repair` switch selects the shipped swap
(`false`) or the repaired one (`true`, `cfg(similar_verif)`).  The theorem states the property for the repaired swap
((a), (b)), states for the shipped swap exactly what IS true ((c), (d)), and contains the recorded counterexample
((e): `C11.shipped_counterexample`, and the same witness run through the whole of `capture_diff`).

Vocabulary: `opsR` / `opsS` the op lists `capture_diff_deadline` returns with the repaired / the shipped swap
[`captureDiff alg E repair os oe ns ne w = .ok (ops, _)`: the call RETURNS, for both settings, in the same final
world]; for an op `x`, `x.oStart` / `x.nStart` are its old / new index — for a Delete `x.nStart` IS the carried
new-side index, for an Insert `x.oStart` IS the carried old-side index — and `x.oLen` / `x.nLen` the numbers of old /
new items it consumes; `(pre.map Op.oLen).sum` is the number of old items consumed by the ops `pre`.

"(a) In every captured op list [`opsR`, the repaired swap; every algorithm, EVERY clock, every in-bounds pair of
    ranges], both
    indices of every op - including the new-side index carried by a Delete and the old-side index carried by an
    Insert - equal the number of new, respectively old, items consumed by all preceding ops plus the range start
    [`Exact os ns opsR`, and the same unfolded: for every split `opsR = pre ++ x :: post`,
    `x.oStart = os + Σ oLen pre` and `x.nStart = ns + Σ nLen pre`].
    [(a) and (b) have NO hypothesis beyond in-bounds ranges: every algorithm, every world — in particular Myers and
    Patience under a deadline that expires in the middle of the run (`C11.capture_exact_repaired_every_clock`).
    Without a deadline (and for LCS under every clock) the raw callback stream is already exact
    (`C11.lcs_raw_exact_noReplace`, `C11.myers_raw_exact_uncond`, `C11.patience_raw_exact_total`) and the repaired
    clean-up and `Replace` keep it so.  Under an expiring deadline the raw Myers fallback `delete; insert` is NOT exact
    (`C11.expired_deadline_raw_not_exact`: the Insert carries the old position before its Delete), only near-exact;
    the repaired clean-up swaps every such pair at least once and the repaired swap recomputes both carried indices,
    so the CAPTURED ops are exact all the same (`CaptureClock.capture_exact_of_near`).]
 (b) Consumers that position an insertion by its old index [for every Insert `insert co cn l` of `opsR`, `co` is the
    range start plus the number of old items consumed before it: the true old position of the insertion] or
    compute hunk extents from the first and last op (as the unified-diff header does) [every range start `os`, `ns`:
    for every radius and every non-empty group `g` of
    `group_diff_ops`, with `f` / `l` its first / last op, the numbers of old- and new-side lines in the group are
    `l.oEnd - f.oStart` and `l.nEnd - f.nStart`, and the old / new indices of its changes are exactly
    `f.oStart, f.oStart+1, …` resp. `f.nStart, …`: `C05.header_counts_match`, `UdiffSub.header_counts_sub`]
    therefore see true coordinates."

What holds for the SHIPPED swap, every algorithm and EVERY clock (no hypothesis beyond in-bounds ranges):
 (c) every index that is NOT a carried index is exact [`Walk`, and unfolded: for `opsS = pre ++ x :: post`, the old
    index of every op but an Insert and the new index of every op but a Delete are the consumed counts plus the
    range start; the same holds for `opsR`];
 (d) the shipped and the repaired result agree on everything but carried indices [same final world; `opsS` and
    `opsR` are equal once the carried index of every Delete / Insert is overwritten with 0
    (`CompactP.eraseOp`): same length, same tags, same primary indices, same lengths —
    `C11.repair_only_touches_carried` lifted through `Replace` to the whole pipeline]; so, where `opsR` is exact, the
    shipped list is exact precisely when it is the repaired list [`Exact os ns opsS ↔ opsS = opsR`].
 (e) The property is FALSE for the shipped swap: `C11.shipped_counterexample` (a valid exact script that the shipped
    clean-up turns into an inexact one), and its witness end to end: `[0,1]` vs `[1,1]` with Myers, no deadline —
    the shipped `capture_diff` returns `delete(0,1,1) equal(1,0,1) insert(1,1,1)` (the Delete claims new position 1,
    true 0; the Insert claims old position 1, true 2), the repaired one `delete(0,1,0) equal(1,0,1) insert(2,1,1)`.

Hypothesis: `RangesInBounds` (ranges not reversed, all element tests on them defined; Myers and LCS need only its
first three fields, the same-side tests are Patience's).
Not covered by this theorem: (a) and (b) for the SHIPPED swap — false, (e); the rendered
header text itself is C05. -/
theorem C11_statement (alg : Alg) (E : Env) (os oe ns ne : Nat) (w : World)
    (hr : RangesInBounds E os oe ns ne) :
    (∃ (opsR opsS : List Op) (w' : World),
      -- `capture_diff` returns, with the repaired and with the shipped swap
      captureDiff alg E true os oe ns ne w = .ok (opsR, w') ∧
      captureDiff alg E false os oe ns ne w = .ok (opsS, w') ∧
      -- (a), (b): the repaired swap, every algorithm, every clock
      (-- (a)
        Exact os ns opsR ∧
        (∀ pre x post, opsR = pre ++ x :: post →
          x.oStart = os + (pre.map Op.oLen).sum ∧ x.nStart = ns + (pre.map Op.nLen).sum) ∧
        -- (b) an insertion positioned by its old index
        (∀ pre co cn l post, opsR = pre ++ .insert co cn l :: post → co = os + (pre.map Op.oLen).sum) ∧
        -- (b) hunk extents from the first and last op
        (∀ (radius : Nat) (g : List Op),
          g ∈ (groupDiffOps opsR radius).filter (fun g => !g.isEmpty) →
          ∃ f l, g.head? = some f ∧ g.getLast? = some l ∧
            os ≤ f.oStart ∧ f.oStart ≤ l.oEnd ∧ l.oEnd ≤ oe ∧ ns ≤ f.nStart ∧ f.nStart ≤ l.nEnd ∧ l.nEnd ≤ ne ∧
            (allChanges g).countP isOld = l.oEnd - f.oStart ∧
            (allChanges g).countP isNew = l.nEnd - f.nStart ∧
            (allChanges g).filterMap (·.oldIndex) = List.range' f.oStart (l.oEnd - f.oStart) ∧
            (allChanges g).filterMap (·.newIndex) = List.range' f.nStart (l.nEnd - f.nStart))) ∧
      -- (c) shipped (and repaired), every clock: every index that is not a carried index is exact
      (Walk (eqB E) os ns opsS oe ne ∧ Walk (eqB E) os ns opsR oe ne ∧
        ∀ pre x post, opsS = pre ++ x :: post →
          (x.tag ≠ .insert → x.oStart = os + (pre.map Op.oLen).sum) ∧
          (x.tag ≠ .delete → x.nStart = ns + (pre.map Op.nLen).sum)) ∧
      -- (d) shipped and repaired agree on everything but carried indices
      opsS.map CompactP.eraseOp = opsR.map CompactP.eraseOp ∧
      (Exact os ns opsR → (Exact os ns opsS ↔ opsS = opsR))) ∧
    -- (e) the property is false for the shipped swap: the recorded counterexample …
    (∃ (E : Env) (ops : List Op) (o n o' n' : Nat) (w : World) (ops' : List Op) (w' : World),
      NoReplaceOp ops ∧ Walk (eqB E) o n ops o' n' ∧ Exact o n ops ∧
      cleanupDiffOps E false ops w = .ok (ops', w') ∧ ¬ Exact o n ops') ∧
    -- … and its witness through the whole of `capture_diff`
    ((captureDiff .myers (Env.ofSeqs #[0, 1] #[1, 1]) false 0 2 0 2 {}).map (·.1) =
        .ok [.delete 0 1 1, .equal 1 0 1, .insert 1 1 1] ∧
      ¬ Exact 0 0 [.delete 0 1 1, .equal 1 0 1, .insert 1 1 1] ∧
      (captureDiff .myers (Env.ofSeqs #[0, 1] #[1, 1]) true 0 2 0 2 {}).map (·.1) =
        .ok [.delete 0 1 0, .equal 1 0 1, .insert 2 1 1] ∧
      Exact 0 0 [.delete 0 1 0, .equal 1 0 1, .insert 2 1 1]) := by
  refine ⟨?_, C11.shipped_counterexample, by rfl, CompactP.cex_not_exact, by rfl, by simp only [Exact]; decide⟩
  obtain ⟨opsR, opsS, w', hcR, hcS, hwR, hwS, -, -, her⟩ :=
    capture_repair_only_touches_carried alg E os oe ns ne w hr
  refine ⟨opsR, opsS, w', hcR, hcS, ?_, ⟨hwS, hwR, walk_primary_positions _ opsS _ _ _ _ hwS⟩, her, ?_⟩
  · have hx : Exact os ns opsR := by
      obtain ⟨ops, w'', hc, hx⟩ := C11.capture_exact_repaired_every_clock alg E os oe ns ne w hr
      rw [hcR] at hc
      cases hc
      exact hx
    have hpos := (exact_iff_positions opsR os ns).1 hx
    refine ⟨hx, hpos, ?_, ?_⟩
    · intro pre co cn l post h
      exact (hpos pre _ post h).1
    · intro radius g hg
      exact UdiffSub.header_counts_sub (eqB E) opsR radius os ns oe ne hwR hx g hg
  · intro hxR
    constructor
    · intro hxS
      exact exact_unique_of_erase opsS opsR os ns her hxS hxR
    · rintro rfl
      exact hxR

#print axioms C11_statement

/-- non-vacuity: the hypothesis holds for the SUB-RANGES `1..3` of `[5,0,1,7]` and `[5,1,1,7]` (for every world:
the theorem has no hypothesis on the algorithm or the clock) … -/
example : RangesInBounds (Env.ofSeqs #[5,0,1,7] #[5,1,1,7]) 1 3 1 3 :=
  RangesInBounds.of_eqPattern (by decide) (by decide)
    (IdentP.eqPattern_ofSeqs #[5,0,1,7] #[5,1,1,7] 0 0 1 3 1 3 (by decide) (by decide) (by decide) (by decide))

/-- … on which the shipped Myers and Patience results have stale carried indices (the Delete claims new position 2,
true 1; the Insert claims old position 2, true 3), the repaired ones are exact (range start 1 plus the items
consumed), and the two agree once carried indices are erased … -/
example : ∀ alg : Alg, alg ≠ .lcs →
    (captureDiff alg (Env.ofSeqs #[5,0,1,7] #[5,1,1,7]) false 1 3 1 3 {}).map (·.1) =
      .ok [.delete 1 1 2, .equal 2 1 1, .insert 2 2 1] ∧
    (captureDiff alg (Env.ofSeqs #[5,0,1,7] #[5,1,1,7]) true 1 3 1 3 {}).map (·.1) =
      .ok [.delete 1 1 1, .equal 2 1 1, .insert 3 2 1] := by
  intro alg h; cases alg
  · exact ⟨by rfl, by rfl⟩
  · exact ⟨by rfl, by rfl⟩
  · exact absurd rfl h
example : ([.delete 1 1 2, .equal 2 1 1, .insert 2 2 1] : List Op).map CompactP.eraseOp =
    ([.delete 1 1 1, .equal 2 1 1, .insert 3 2 1] : List Op).map CompactP.eraseOp := by decide
example : Exact 1 1 [.delete 1 1 1, .equal 2 1 1, .insert 3 2 1] ∧
    ¬ Exact 1 1 [.delete 1 1 2, .equal 2 1 1, .insert 2 2 1] := by
  simp only [Exact]; decide

/-- … while LCS does not swap on this input: shipped and repaired coincide and are exact, without a deadline and
with an already expired one -/
example : ∀ (repair : Bool) (clock : Option Nat), clock = none ∨ clock = some 0 →
    (captureDiff .lcs (Env.ofSeqs #[5,0,1,7] #[5,1,1,7]) repair 1 3 1 3 { clock := clock }).map (·.1) =
      .ok [.delete 1 1 1, .equal 2 1 1, .insert 3 2 1] := by
  intro repair clock h
  rcases h with rfl | rfl <;> cases repair <;> rfl

/-- non-vacuity under an EXPIRING deadline (the case (a), (b) cover since `C11.capture_exact_repaired_every_clock`):
`[1,0]` vs `[0,0,0]`, whole ranges, clock `some 0` — the hypothesis holds … -/
example : RangesInBounds (Env.ofSeqs #[1, 0] #[0, 0, 0]) 0 2 0 3 :=
  RangesInBounds.of_eqPattern (by decide) (by decide)
    (IdentP.eqPattern_ofSeqs #[1, 0] #[0, 0, 0] 0 0 0 2 0 3 (by decide) (by decide) (by decide) (by decide))

/-- … Myers and Patience fall back to `delete; insert` (the Insert carries old index 0, true 1: the raw stream is not
exact); the repaired `capture_diff` returns exact positions (the swapped Insert survives as a stand-alone op with the
true old index 2), the shipped one does not (`insert(1,1,2)`), and the two agree once carried indices are erased -/
example : ∀ alg : Alg, alg ≠ .lcs →
    (rawTrace alg (Env.ofSeqs #[1, 0] #[0, 0, 0]) 0 2 0 3 { clock := some 0 }).map (·.1.trace) =
      .ok [.op (.delete 0 1 0), .op (.insert 0 0 2), .op (.equal 1 2 1), .finish] ∧
    (captureDiff alg (Env.ofSeqs #[1, 0] #[0, 0, 0]) true 0 2 0 3 { clock := some 0 }).map (·.1) =
      .ok [.delete 0 1 0, .equal 1 0 1, .insert 2 1 2] ∧
    (captureDiff alg (Env.ofSeqs #[1, 0] #[0, 0, 0]) false 0 2 0 3 { clock := some 0 }).map (·.1) =
      .ok [.delete 0 1 0, .equal 1 0 1, .insert 1 1 2] := by
  intro alg h; cases alg
  · exact ⟨by rfl, by rfl, by rfl⟩
  · exact ⟨by rfl, by rfl, by rfl⟩
  · exact absurd rfl h
example : ¬ Exact 0 0 [.delete 0 1 0, .insert 0 0 2, .equal 1 2 1] ∧
    Exact 0 0 [.delete 0 1 0, .equal 1 0 1, .insert 2 1 2] ∧
    ¬ Exact 0 0 [.delete 0 1 0, .equal 1 0 1, .insert 1 1 2] := by
  simp only [Exact]; decide
example : ([.delete 0 1 0, .equal 1 0 1, .insert 1 1 2] : List Op).map CompactP.eraseOp =
    ([.delete 0 1 0, .equal 1 0 1, .insert 2 1 2] : List Op).map CompactP.eraseOp := by decide

end SimilarVerif.Headline

import SimilarVerif.Props.C07
import SimilarVerif.Props.C14
import SimilarVerif.Lemmas.HeadlineGlue
/-! # C07 — headline -/
namespace SimilarVerif.Headline
open SimilarVerif Spec DeadlineP PatiencePost

/-- **C07 — Deadline expiry at any point still yields a valid diff, promptly; it is plumbed.**

The deadline is the virtual clock of the world `w` (`clock = some f`: the next `f` deadline checks answer "not
exceeded", every later one "exceeded"; `none`: no deadline).  The theorem holds for EVERY initial world, hence for
every expiry point: before the start (`clock = some 0`) or at the `(f+1)`-th check, wherever that check happens.

"(a) Whenever the deadline expires - before the start, or at any later deadline check of any algorithm - the diff
    still completes with a valid edit script (as in C01/C02) [the raw run returns a `ValidRaw` stream; the capture
    pipeline returns a valid `Walk`] and finishes the hook exactly once [`finish` is the last call and occurs
    once];
(b) after expiry it performs only a small constant multiple of N+M further element comparisons
    [(b0) entered on an expired clock: at most `5·min(N,M) + 4` comparisons in all, every algorithm;
     (bM) Myers: the ghost-instrumented run `conquerG` (the model run, `conquerG_erase`, with a ghost that records
          the world `we` right after the first probe that answered "exceeded") returns the same result; no such
          probe (`g' = none`) leaves `tm = probes + remaining clock` unchanged, otherwise
          `cmps' ≤ we.cmps + 3·min(N,M)`;
     (bP) Patience: likewise with `patienceDiffG` (`patienceDiffG_erase`) — the probe may be one of the outer run,
          of a gap run inside a hook call, or of the tail run — `cmps' ≤ we.cmps + 7·min(N,M)`, and
          `we.probes = tm w` (it is the first such probe);
     (bL) LCS probes the clock only in `make_table`: if that gave up with world `wt` (right after the probe that
          answered "exceeded"), the final world IS `wt`: no further comparison, no further probe].
(c) A deadline that never expires gives exactly the result of no deadline [raw stream and captured ops: if the
    run under `clock = some f` made at most `f` probes, the run with `clock = none` returns the same stream / ops
    and the same number of comparisons],
(d) and deadlines or timeouts configured on the text-diff builder and the capture functions reach the algorithm
    [model: the world given to `textDiffOps` is the world given to `captureDiff` on the tokens, below and above
    the 100-token switch, and the clock `captureDiff` ends with is the clock the algorithm's run ends with — the
    clean-up and `Replace` never probe it]."

Hypothesis: `RangesInBounds` for (a), (b); none for (c), (d).
Not covered by this theorem: real time (`Instant::now() > deadline` is replaced by the virtual clock; the harness
installs the same clock in the Rust crate under `cfg(similar_verif)`); the `TextDiffConfig::deadline` /
`timeout` setters and the `Option<Instant>` arithmetic in front of `capture_diff_deadline` — runtime plumbing,
exercised by the correspondence harness, not expressible in the model, which takes the clock as input. -/
theorem C07_statement (alg : Alg) (E : Env) (repair : Bool) (os oe ns ne : Nat) (w : World)
    (hr : RangesInBounds E os oe ns ne) :
    (∃ r w', rawTrace alg E os oe ns ne w = .ok (r, w') ∧
      -- (a) raw stream
      ValidRaw E os oe ns ne r.trace ∧
      (r.trace.getLast? = some .finish ∧ (r.trace.filter (· == .finish)).length = 1) ∧
      -- (a) captured, and (d) for the capture functions
      (∃ ops wc, captureDiff alg E repair os oe ns ne w = .ok (ops, wc) ∧ Walk (eqB E) os ns ops oe ne ∧
        wc.clock = w'.clock) ∧
      -- (b0)
      (w.clock = some 0 → w'.cmps ≤ w.cmps + 5 * min (oe - os) (ne - ns) + 4 ∧ w'.clock = some 0) ∧
      -- (bM)
      (alg = .myers → ∃ sc vf' vb' g',
        conquerG E recHook (maxD (oe - os) (ne - ns)) (oe - os + (ne - ns) + 2) os oe ns ne
          (Array.replicate (2 * maxD (oe - os) (ne - ns)) 0) (Array.replicate (2 * maxD (oe - os) (ne - ns)) 0)
          {} none w = .ok (sc, vf', vb', g', w') ∧
        recHook.call .finish sc w' = .ok (r, w') ∧
        (g' = none → tm w' = tm w) ∧
        (∀ we, g' = some we → JustExpired we ∧ w.cmps ≤ we.cmps ∧ we.cmps ≤ w'.cmps ∧
          w'.cmps ≤ we.cmps + 3 * min (oe - os) (ne - ns) ∧ w'.clock = some 0)) ∧
      -- (bP)
      (alg = .patience → ∃ g', patienceDiffG E recHook os oe ns ne {} none w = .ok ((r, g'), w') ∧
        (g' = none → tm w' = tm w) ∧
        (∀ we, g' = some we → JustExpired we ∧ we.probes = tm w ∧ w.cmps ≤ we.cmps ∧ we.cmps ≤ w'.cmps ∧
          w'.cmps ≤ we.cmps + 7 * min (oe - os) (ne - ns) ∧ w'.clock = some 0)) ∧
      -- (bL)
      (alg = .lcs → ∀ p sl w0 w1 wt, ns < ne → os < oe →
        commonPrefixLen E os oe ns ne w = .ok (p, w0) →
        commonSuffixLen E (os + p) oe (ns + p) ne w0 = .ok (sl, w1) →
        (p == oe - os && oe - os == ne - ns) = false →
        makeTable E (os + p) (oe - sl) (ns + p) (ne - sl) w1 = .ok (none, wt) →
        w' = wt ∧ JustExpired wt)) ∧
    -- (c)
    (∀ f p c r' w', rawTrace alg E os oe ns ne { clock := some f, probes := p, cmps := c } = .ok (r', w') →
      w'.probes - p ≤ f →
      rawTrace alg E os oe ns ne { clock := none, probes := p, cmps := c } =
        .ok (r', { clock := none, probes := p, cmps := w'.cmps })) ∧
    (∀ f p c ops w', captureDiff alg E repair os oe ns ne { clock := some f, probes := p, cmps := c } = .ok (ops, w') →
      w'.probes - p ≤ f →
      captureDiff alg E repair os oe ns ne { clock := none, probes := p, cmps := c } =
        .ok (ops, { clock := none, probes := p, cmps := w'.cmps })) ∧
    -- (d) text diffs
    (∀ old new : Array Bytes,
      textDiffOps alg repair old new w = captureDiff alg (Env.ofTokens old new) repair 0 old.size 0 new.size w) := by
  refine ⟨?_, ?_, ?_, ?_⟩
  · obtain ⟨r, w', h, hv⟩ := rawTrace_total_valid alg E os oe ns ne w hr
    obtain ⟨raw, ops, wc, -, -, -, hc, hw, -, -, -, -, hclk⟩ :=
      CaptureMin.capture_total_of_validRaw alg E repair os oe ns ne w r w' h hv hr.cross
    refine ⟨r, w', h, hv, C08.finish_once_last E os oe ns ne r.trace hv, ⟨ops, wc, hc, hw, hclk⟩, ?_, ?_, ?_, ?_⟩
    · intro h0
      cases alg with
      | myers =>
        have := myersDiff_expired recHook_worldId h0 (by simpa [rawTrace, diffWith] using h)
        exact ⟨by omega, this.1⟩
      | patience =>
        exact PatienceC.patience_expired_entry E os oe ns ne {} w r w' hr.old_le hr.new_le h0
          (by simpa [rawTrace, diffWith] using h)
      | lcs =>
        have := lcsDiff_expired_start recHook_worldId h0 (by simpa [rawTrace, diffWith] using h)
        exact ⟨by omega, this.1⟩
    · intro ha; subst ha
      obtain ⟨sc, vf', vb', g', h1, h2, h3⟩ := myersDiff_post_expiry recHook_worldId (MyersT.snake_in_box E)
        hr.old_le hr.new_le hr.cross (by simpa [rawTrace, diffWith] using h)
      refine ⟨sc, vf', vb', g', h1, h2, ?_, ?_⟩
      · intro hg; subst hg; exact h3.1
      · intro we hg; subst hg
        obtain ⟨a, b, c, d, e⟩ := h3
        exact ⟨a, b, c, d, ck_one.1 e⟩
    · intro ha; subst ha
      obtain ⟨g', h1, h3⟩ := patience_post_expiry E os oe ns ne {} w r w' hr.old_le hr.new_le hr.cross
        (by simpa [rawTrace, diffWith] using h)
      refine ⟨g', h1, ?_, ?_⟩
      · intro hg; subst hg; exact h3.1
      · intro we hg; subst hg
        obtain ⟨a, a', b, c, d, e⟩ := h3
        exact ⟨a, a', b, c, d, ck_one.1 e⟩
    · intro ha; subst ha
      intro p sl w0 w1 wt h1 h2 h3 h4 h5 h6
      exact lcsDiff_expired recHook_worldId h1 h2 h3 h4 h5 h6 (by simpa [rawTrace, diffWith] using h)
  · intro f p c r' w' h hp
    exact (never_expires_rec alg E os oe ns ne {} f p c h hp).1
  · intro f p c ops w' h hp
    exact (never_expires_capture alg E repair os oe ns ne f p c h hp).1
  · intro old new
    exact IdentP.textDiffOps_eq_capture alg repair old new w

#print axioms C07_statement

/-- non-vacuity: `[1,2,3,4]` vs `[4,3,2,1]`, the deadline allows 2 probes.  The hypothesis holds … -/
example : RangesInBounds (Env.ofSeqs #[1,2,3,4] #[4,3,2,1]) 0 4 0 4 :=
  RangesInBounds.of_eqPattern (by decide) (by decide)
    (IdentP.eqPattern_ofSeqs #[1,2,3,4] #[4,3,2,1] 0 0 0 4 0 4 (by decide) (by decide) (by decide) (by decide))

/-- … Patience returns after 4 probes and 10 comparisons, and the ghost run records the world right after the 3rd
probe (the first that answered "exceeded"): 8 comparisons had been made, 2 more follow (`≤ 7 * min 4 4`) -/
example : patienceDiffG (Env.ofSeqs #[1,2,3,4] #[4,3,2,1]) recHook 0 4 0 4 {} none { clock := some 2 } =
    .ok ((⟨[.op (.delete 0 4 0), .op (.insert 0 0 4), .finish], none, true⟩,
      some { clock := some 0, probes := 3, cmps := 8 }), { clock := some 0, probes := 4, cmps := 10 }) := by rfl

/-- … and Myers, deadline allowing 1 probe: the second probe answers "exceeded"; 4 comparisons in all (`≤ 3 * min 4 4` after the probe) -/
example : ((rawTrace .myers (Env.ofSeqs #[1,2,3,4] #[4,3,2,1]) 0 4 0 4 { clock := some 1 }).map
    fun x => (x.1.trace, x.2)) =
    .ok ([.op (.delete 0 4 0), .op (.insert 0 0 4), .finish], { clock := some 0, probes := 2, cmps := 4 }) := by rfl

end SimilarVerif.Headline

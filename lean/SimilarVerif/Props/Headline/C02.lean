import SimilarVerif.Props.C02
import SimilarVerif.Props.C14
import SimilarVerif.Lemmas.HeadlineGlue
/-! # C02 — headline -/
namespace SimilarVerif.Headline
open SimilarVerif Spec

/-- **C02 — Captured ops (capture_diff*, TextDiff::ops) form a valid edit script old->new.**

"For any inputs, algorithm and deadline [`alg`, `E` with in-bounds ranges, every world `w`; also both settings
of the model's `repair` switch, `false` = shipped code],
(a) the op list returned by the capture functions [`captureDiff … = .ok (ops, _)`: it returns] and stored in a
    text diff [(g): `textDiffOps` IS `captureDiff` on the token arrays, whose ranges satisfy the hypotheses, so
    (a)–(f) hold for it; its `Walk` is restated] consumes old and new left to right without gap or overlap: the
    old range of every Equal/Delete/Replace and the new range of every Equal/Insert/Replace are exactly the
    next unconsumed items, Equal ops pair element-wise equal items, and the walk ends at both sequence ends
    [`Walk (eqB E) os ns ops oe ne`].
(b) Hence applying the ops to old yields new [`produced ops`: item `k` is `new[ns+k]` or an old item equal to
    it, `M` items]
(c) (and inverted, old from new) [`produced (ops.map invOp)`: item `k` is `old[os+k]` or a new item equal to it,
    `N` items];
(d) identical inputs give only Equal ops (none for two empty inputs) [hypothesis `EqPattern`: the three element
    tests come from one labelling of the items, needed for Patience only — `C02.identical_inputs_only_equal_myers_lcs`
    is the Myers/LCS form without it; the result is `[Equal os ns N]`, `[]` for `N = 0`],
(e) and the similarity ratio lies in 0..=1 [IEEE comparisons on the `f32` bits `ratioBits`]
(f) and is 1.0 exactly when the inputs are equal [⇐: part of (d), every size; ⇒: under the visible hypothesis
    `N + M < 2^24` — beyond it the `f32` rounding makes the clause FALSE: `C02.ratio_f32_one_needs_bound`,
    2^23 equal items and one inserted item give exactly `1.0`]."

Not covered by this theorem: nothing of the property text (the `f32` caveat in (f) is a fact about the shipped
arithmetic, stated as a hypothesis). -/
theorem C02_statement (alg : Alg) (E : Env) (repair : Bool) (os oe ns ne : Nat) (w : World)
    (hr : RangesInBounds E os oe ns ne) :
    (∃ ops w', captureDiff alg E repair os oe ns ne w = .ok (ops, w') ∧
      -- (a)
      Walk (eqB E) os ns ops oe ne ∧
      -- (b)
      ((produced ops).length = ne - ns ∧
        ∀ k item, (produced ops)[k]? = some item →
          (item.1 = true → item.2 = ns + k) ∧ (item.1 = false → eqB E item.2 (ns + k) = true)) ∧
      -- (c)
      ((produced (ops.map invOp)).length = oe - os ∧
        ∀ k item, (produced (ops.map invOp))[k]? = some item →
          (item.1 = true → item.2 = os + k) ∧ (item.1 = false → eqB E (os + k) item.2 = true)) ∧
      -- (e)
      (F32.le 0 (ratioBits ops (oe - os) (ne - ns)) = true ∧
        F32.le (ratioBits ops (oe - os) (ne - ns)) F32.one = true) ∧
      -- (f) ⇒
      ((oe - os) + (ne - ns) < 2 ^ 24 → ratioBits ops (oe - os) (ne - ns) = F32.one →
        oe - os = ne - ns ∧ ∀ t, t < oe - os → eqB E (os + t) (ns + t) = true)) ∧
    -- (d), (f) ⇐
    (IdentP.EqPattern E os oe ns ne → oe - os = ne - ns →
      (∀ t, t < oe - os → eqB E (os + t) (ns + t) = true) →
      ∃ w', captureDiff alg E repair os oe ns ne w =
          .ok (if oe - os = 0 then [] else [.equal os ns (oe - os)], w') ∧
        ratioBits (if oe - os = 0 then [] else [.equal os ns (oe - os)]) (oe - os) (ne - ns) = F32.one) ∧
    -- (g) the ops stored in a text diff
    (∀ old new : Array Bytes,
      textDiffOps alg repair old new w = captureDiff alg (Env.ofTokens old new) repair 0 old.size 0 new.size w ∧
      RangesInBounds (Env.ofTokens old new) 0 old.size 0 new.size ∧
      IdentP.EqPattern (Env.ofTokens old new) 0 old.size 0 new.size ∧
      ∃ ops w', textDiffOps alg repair old new w = .ok (ops, w') ∧
        Walk (eqB (Env.ofTokens old new)) 0 0 ops old.size new.size) := by
  refine ⟨?_, ?_, ?_⟩
  · obtain ⟨ops, w', hc, hw, -⟩ := captureDiff_total_valid alg E repair os oe ns ne w hr
    have hle := C02.ratio_f32_le_one _ ops _ _ _ _ hw
    have hinf : F32.ratio (nEq ops) (oe - os + (ne - ns)) ≤ F32.inf := F32.ratio_le_inf _ _
    refine ⟨ops, w', hc, hw, walk_replay ops os ns oe ne hw, walk_replay _ ns os ne oe (walk_invert ops _ _ _ _ hw),
      ?_, ?_⟩
    · rw [ratioBits_eq]
      exact ⟨(F32.le_iff (by decide) hinf).2 (Nat.zero_le _), (F32.le_iff hinf (by decide)).2 hle⟩
    · intro hsz h1
      rw [ratioBits_eq] at h1
      obtain ⟨hd, hi⟩ := (C02.ratio_f32_eq_one_iff _ ops _ _ _ _ hw hsz).1 h1
      exact C02.no_changes_iff_equal _ ops _ _ _ _ hw hd hi
  · intro hp hlen heq
    obtain ⟨k, hk⟩ := IdentQ.captureDiff_identical alg E repair os oe ns ne (oe - os) w hp rfl hlen.symm heq
    refine ⟨_, hk, ?_⟩
    rw [ratioBits_eq, ← hlen]
    by_cases h0 : oe - os = 0
    · simp [h0, nEq]; rfl
    · simp only [if_neg h0, nEq, Nat.add_zero]; exact F32_ratio_self _
  · intro old new
    have hp := IdentP.eqPattern_ofTokens old new 0 old.size 0 new.size (Nat.le_refl _) (Nat.le_refl _)
    have hr' := RangesInBounds.of_eqPattern (Nat.zero_le _) (Nat.zero_le _) hp
    have he := IdentP.textDiffOps_eq_capture alg repair old new w
    obtain ⟨ops, w', hc, hw, -⟩ := captureDiff_total_valid alg _ repair 0 old.size 0 new.size w hr'
    exact ⟨he, hr', hp, ops, w', by rw [he]; exact hc, hw⟩

#print axioms C02_statement

/-- non-vacuity: the hypotheses hold for `[1,0]` vs `[1,2,0,1]` (and `EqPattern` for every pair of label arrays) -/
example : RangesInBounds (Env.ofSeqs #[1,0] #[1,2,0,1]) 0 2 0 4 :=
  RangesInBounds.of_eqPattern (by decide) (by decide)
    (IdentP.eqPattern_ofSeqs #[1,0] #[1,2,0,1] 0 0 0 2 0 4 (by decide) (by decide) (by decide) (by decide))

example : ∀ alg, (captureDiff alg (Env.ofSeqs #[1,0] #[1,2,0,1]) false 0 2 0 4 {}).map (·.1) =
    .ok [.equal 0 0 1, .insert 1 1 1, .equal 1 2 1, .insert 2 3 1] := by
  intro alg; cases alg <;> rfl

end SimilarVerif.Headline

import SimilarVerif.Props.C04
/-! # C04 — headline -/
namespace SimilarVerif.Headline
open SimilarVerif Spec TextP TokP

/-- **C04 — Text diffs reconstruct both inputs byte-for-byte for every tokenizer.**

Vocabulary: a byte string is `b : Bytes`, a `str` is `s : List Char` (its scalar values; its bytes are
`utf8EncAll s`).  A tokenizer returns the byte ranges `(start, end)` of its tokens; `tokens b r` is the token array
`slice b r₀, slice b r₁, …` that `TextDiffConfig::diff` stores and the ops index into.  `textDiffOps alg repair old new w`
is `TextDiffConfig::diff` on the two token arrays (with the 100-token switch to `IdentifyDistinct`), `allChanges ops`
is `TextDiff::iter_all_changes` drained (= the concatenation of `iter_changes(op)` over the ops, C13 (f)).  A `Change`
is `⟨tag, old_index, new_index, fromNew, idx⟩`; `value old new c` is the value it carries: `new[idx]` if `fromNew`,
else `old[idx]` — exactly the lookup `ChangesIter` performs (Equal and Delete read the old, Insert the new side).

"For every pair of texts (str or byte strings) [`bo bn : Bytes`, any bytes — empty, CR/LF/CRLF mixes, invalid UTF-8;
a pair of `str`s is `so sn : List Char` with `bo = utf8EncAll so`, `bn = utf8EncAll sn`],
every tokenizer (lines, words, chars, unicode words, graphemes) [`htok`: this is not an assumption on the input
but the enumeration of `5 tokenizers × {str, [u8]}` — the token ranges `ro rn` of the two texts come from the SAME
tokenizer, which is one of `tokenizeLinesB / WordsB / CharsB` (`[u8]`), `tokenizeLinesS / WordsS / CharsS` (`str`), or,
for unicode words and graphemes (`str` and `[u8]` alike), the slicing `rangesOfLens 0 lens` of the text at the piece
lengths `lens` an EXTERNAL segmenter reports; only in this last case a hypothesis is left, that segmenter's contract
`Partition lens len`: the pieces are non-empty and their lengths sum to the length of the text]
and every algorithm [`alg`; also every world `w` — any deadline / clock — and both settings of the model's `repair`
switch, `false` = shipped code; the text diff RETURNS: `textDiffOps … = .ok (ops, w')`, no panic],
(a) concatenating in order the values of all changes that are not Insert reproduces the old text exactly
(b) and all that are not Delete the new text.
(c) Equal changes carry both indices, Delete only the old and Insert only the new one [and each reads its value at its
    own index of the proper side: `idx` is the old index for Equal / Delete, the new index for Insert; `CTag` has
    only these three tags],
(d) and indices count tokens consecutively from zero on each side [the old indices of the changes, in order, are
    `0, 1, …, #old tokens - 1`, the new indices `0, 1, …, #new tokens - 1`; and an index counts TOKENS: a change
    with old index `i` carries old token `i`, a change with new index `j` carries a value equal to new token `j`]."

No hypotheses for the six `lines / words / chars` tokenizers; `Partition` (both texts) for the two unicode ones.
The form for ANY token ranges that tile the two texts is `C04.text_diff_total_reconstructs`.
Not covered by this theorem: the segmentation rules of the external Unicode word / grapheme segmenters themselves
(`unicode-segmentation`, bstr) — they enter only through their contract `Partition`, which the harness checks on
every case; nothing else of the property text (no clause of C04 is false of the model: there is no counterexample
theorem in `Props/C04.lean`). -/
theorem C04_statement (alg : Alg) (repair : Bool) (w : World) (bo bn : Bytes) (ro rn : List (Nat × Nat))
    (htok :
      -- `[u8]` texts: lines, words, chars
      (∃ tk ∈ [tokenizeLinesB, tokenizeWordsB, tokenizeCharsB], ro = tk bo ∧ rn = tk bn) ∨
      -- `str` texts: lines, words, chars
      (∃ so sn : List Char, bo = utf8EncAll so ∧ bn = utf8EncAll sn ∧
        ∃ tk ∈ [tokenizeLinesS, tokenizeWordsS, tokenizeCharsS], ro = tk so ∧ rn = tk sn) ∨
      -- unicode words, graphemes (`str` and `[u8]`): the external segmenter's piece lengths, under its contract
      (∃ lo ln : List Nat, Partition lo bo.length ∧ Partition ln bn.length ∧
        ro = rangesOfLens 0 lo ∧ rn = rangesOfLens 0 ln)) :
    ∃ ops w', textDiffOps alg repair (tokens bo ro) (tokens bn rn) w = .ok (ops, w') ∧
      -- (a)
      (((allChanges ops).filter (·.tag != .insert)).map (value (tokens bo ro) (tokens bn rn))).flatten = bo ∧
      -- (b)
      (((allChanges ops).filter (·.tag != .delete)).map (value (tokens bo ro) (tokens bn rn))).flatten = bn ∧
      -- (c)
      (∀ c ∈ allChanges ops,
        (c.tag = .equal → c.oldIndex = some c.idx ∧ c.newIndex.isSome ∧ c.fromNew = false) ∧
        (c.tag = .delete → c.oldIndex = some c.idx ∧ c.newIndex = none ∧ c.fromNew = false) ∧
        (c.tag = .insert → c.oldIndex = none ∧ c.newIndex = some c.idx ∧ c.fromNew = true)) ∧
      -- (d)
      (allChanges ops).filterMap (·.oldIndex) = List.range (tokens bo ro).size ∧
      (allChanges ops).filterMap (·.newIndex) = List.range (tokens bn rn).size ∧
      (∀ c ∈ allChanges ops,
        (∀ i, c.oldIndex = some i → (tokens bo ro)[i]? = some (value (tokens bo ro) (tokens bn rn) c)) ∧
        (∀ j, c.newIndex = some j → (tokens bn rn)[j]? = some (value (tokens bo ro) (tokens bn rn) c))) := by
  have ht : Tiling ro bo.length ∧ Tiling rn bn.length := by
    rcases htok with ⟨tk, hm, rfl, rfl⟩ | ⟨so, sn, rfl, rfl, tk, hm, rfl, rfl⟩ | ⟨lo, ln, hlo, hln, rfl, rfl⟩
    · simp only [List.mem_cons, List.not_mem_nil, or_false] at hm
      rcases hm with rfl | rfl | rfl
      · exact ⟨tokenizeLinesB_tiling _, tokenizeLinesB_tiling _⟩
      · exact ⟨tokenizeWordsB_tiling _, tokenizeWordsB_tiling _⟩
      · exact ⟨tokenizeCharsB_tiling _, tokenizeCharsB_tiling _⟩
    · simp only [List.mem_cons, List.not_mem_nil, or_false] at hm
      rcases hm with rfl | rfl | rfl
      · exact ⟨tokenizeLinesS_tiling _, tokenizeLinesS_tiling _⟩
      · exact ⟨tokenizeWordsS_tiling _, tokenizeWordsS_tiling _⟩
      · exact ⟨tokenizeCharsS_tiling _, tokenizeCharsS_tiling _⟩
    · exact ⟨tiling_rangesOfLens hlo, tiling_rangesOfLens hln⟩
  obtain ⟨ops, w', h, -, -, -, hs, hr, b1, b2, -⟩ :=
    C04.text_diff_total_reconstructs alg repair bo bn ro rn w ht.1 ht.2
  refine ⟨ops, w', h, b1, b2, hs, hr.oldIdx, hr.newIdx, ?_⟩
  intro c hc
  obtain ⟨v1, v2⟩ := hr.val c hc
  exact ⟨fun i hi => (v1 i hi).2.2, fun j hj => (v2 j hj).2⟩

#print axioms C04_statement

/-! ## non-vacuity -/

/-- `[u8]`, lines: `"a\r\nb\rc\xff"` vs `"a\nb\rc"` — CRLF / lone CR / LF mixed, an invalid byte: `htok` holds … -/
example (alg : Alg) (w : World) :=
  C04_statement alg false w [0x61, 0x0d, 0x0a, 0x62, 0x0d, 0x63, 0xff] [0x61, 0x0a, 0x62, 0x0d, 0x63] _ _
    (.inl ⟨tokenizeLinesB, by simp, rfl, rfl⟩)

/-- … the tokens are `a\r\n`, `b\r`, `c\xff` and `a\n`, `b\r`, `c` … -/
example : tokenizeLinesB [0x61, 0x0d, 0x0a, 0x62, 0x0d, 0x63, 0xff] = [(0, 3), (3, 5), (5, 7)] ∧
    tokenizeLinesB [0x61, 0x0a, 0x62, 0x0d, 0x63] = [(0, 2), (2, 4), (4, 5)] := by decide

/-- … and this is what the model computes (all three algorithms): `(tag, old_index, new_index, value)` of
`iter_all_changes` — old indices `0,1,2`, new indices `0,1,2`; the non-Insert values concatenate to the old text,
the non-Delete values to the new text -/
example : ∀ alg : Alg,
    (textDiffOps alg false (tokens [0x61, 0x0d, 0x0a, 0x62, 0x0d, 0x63, 0xff] [(0, 3), (3, 5), (5, 7)])
        (tokens [0x61, 0x0a, 0x62, 0x0d, 0x63] [(0, 2), (2, 4), (4, 5)]) {}).map
      (fun r => (allChanges r.1).map fun c => (c.tag, c.oldIndex, c.newIndex,
        value (tokens [0x61, 0x0d, 0x0a, 0x62, 0x0d, 0x63, 0xff] [(0, 3), (3, 5), (5, 7)])
          (tokens [0x61, 0x0a, 0x62, 0x0d, 0x63] [(0, 2), (2, 4), (4, 5)]) c)) =
    .ok [(.delete, some 0, none, [0x61, 0x0d, 0x0a]), (.insert, none, some 0, [0x61, 0x0a]),
         (.equal, some 1, some 1, [0x62, 0x0d]),
         (.delete, some 2, none, [0x63, 0xff]), (.insert, none, some 2, [0x63])] := by
  intro alg; cases alg <;> rfl

/-- `str`, words: `"a  b"` vs `"ä b"` (a multi-byte scalar value) -/
example (alg : Alg) (w : World) :=
  C04_statement alg false w (utf8EncAll ['a', ' ', ' ', 'b']) (utf8EncAll ['ä', ' ', 'b']) _ _
    (.inr (.inl ⟨['a', ' ', ' ', 'b'], ['ä', ' ', 'b'], rfl, rfl, tokenizeWordsS, by simp, rfl, rfl⟩))

example : tokenizeWordsS ['a', ' ', ' ', 'b'] = [(0, 1), (1, 3), (3, 4)] ∧
    tokenizeWordsS ['ä', ' ', 'b'] = [(0, 2), (2, 3), (3, 4)] := by decide

/-- unicode words / graphemes: the segmenter's contract is satisfiable (pieces `2,1` of a 3-byte text, one piece of
a 2-byte text; also the empty text with no piece), and the theorem applies -/
example (alg : Alg) (w : World) :=
  C04_statement alg false w [0xc3, 0xa4, 0x62] [0xc3, 0xa4] _ _
    (.inr (.inr ⟨[2, 1], [2], by simp [Partition], by simp [Partition], rfl, rfl⟩))
example (alg : Alg) (w : World) :=
  C04_statement alg false w [] [0x62] _ _
    (.inr (.inr ⟨[], [1], by simp [Partition], by simp [Partition], rfl, rfl⟩))

end SimilarVerif.Headline

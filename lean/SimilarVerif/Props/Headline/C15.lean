import SimilarVerif.Props.C15
import SimilarVerif.Lemmas.HeadlineGlue
import SimilarVerif.Lemmas.CapturePatienceChain
/-! # C15 — headline -/
namespace SimilarVerif.Headline
open SimilarVerif Spec PatienceT

/-- **C15 — Patience keeps a maximum in-order set of unique common items.**

Vocabulary: `unique E.oo os oe = some uo` — `uo` lists, ascending, the positions of the old range whose item occurs
exactly once in that range (`unique`, Model/Utils.lean; likewise `un` for new).  `E.sub uo un` compares the `i`-th
entry of `uo` with the `j`-th of `un` through the items, so `L = lcsLen (eqB (E.sub uo un)) |uo| |un| 0 0` is the
length of the longest subsequence of items occurring exactly once in old and exactly once in new that appears in the
same relative order on both sides (an item unique on one side only matches nothing in the other list).
`covered ops a b`: position pair `(a, b)` lies on the diagonal of an `equal` op of `ops`, i.e. is reported Equal.
`Chain pairs`: strictly increasing in both coordinates.

"Without a deadline [`w.clock = none`], among the items that occur exactly once in old and exactly once in new, the
Patience diff reports as Equal a set that is as large as the longest subsequence of them appearing in the same
relative order on both sides
  [(a) raw callback stream: the call returns a valid script `raw`, and there is a chain of `L` pairs of positions in
       the two unique lists whose items are equal and reported Equal at exactly that pair of item positions;
   (b) captured diff (`capture_diff` with Patience, both settings of `repair`): it returns a valid script whose Equal
       segments hold at least `L` items; and if the element tests are consistent across the two sides
       [`CrossConsistent`: two new items equal to the same old item are equal to each other — true for the
       environment of any two sequences, `CaptureChain.crossConsistent_of_eqPattern`], the chain form of (a) holds
       for the captured diff too: a chain of `L` pairs of positions in the two unique lists whose items are equal
       and reported Equal by the captured diff at exactly that pair of item positions];
(c) such anchored items are matched to their unique counterpart, never to another occurrence [in the captured diff
    every item of an Equal op is paired with an equal item, and if `j'` is the only new position holding an item
    equal to `old[co+t]`, it is paired with exactly `j'`; same for the raw stream, being a valid script]."

Hypothesis: `RangesInBounds` (incl. the same-side tests `unique` performs).
Why the chain survives the capture pipeline: the clean-up only slides Inserts over equal items (Deletes never
slide), swaps / merges Deletes and Inserts, and `Replace` coalesces — the SET of old positions lying in Equal ops is
unchanged (`CaptureChain.capture_oCov_iff`, any algorithm); an old position still reported Equal is paired with an
equal new item, and for an item that `unique` returned on the new side that can only be its one occurrence.
Not covered by this theorem: the chain form of (b) WITHOUT `CrossConsistent` — it is false for an abstract
environment whose three element tests contradict each other (`CaptureChain.captured_chain_needs_consistency`:
`new[0] == old[0]`, `new[1] == old[0]`, `new[0] != new[1]`; the clean-up slides an Insert over the anchor and the
old item ends up paired with an occurrence `unique` did not return); no two real sequences behave like that. -/
theorem C15_statement (E : Env) (repair : Bool) (os oe ns ne : Nat) (w : World)
    (hr : RangesInBounds E os oe ns ne) (hclk : w.clock = none) :
    ∃ (uo un : List Nat), unique E.oo os oe = some uo ∧ unique E.nn ns ne = some un ∧
      -- (a)
      (∃ (r : Rec) (w1 : World) (raw : List Op) (pairs : List (Nat × Nat)),
        rawTrace .patience E os oe ns ne w = .ok (r, w1) ∧ r.trace = raw.map Call.op ++ [.finish] ∧
        Walk (eqB E) os ns raw oe ne ∧
        pairs.length = lcsLen (eqB (E.sub uo.toArray un.toArray)) uo.length un.length 0 0 ∧
        Chain pairs ∧
        ∀ x ∈ pairs, ∃ a b, uo[x.1]? = some a ∧ un[x.2]? = some b ∧ eqB E a b = true ∧ covered raw a b) ∧
      -- (b)
      (∃ (ops : List Op) (w' : World), captureDiff .patience E repair os oe ns ne w = .ok (ops, w') ∧
        Walk (eqB E) os ns ops oe ne ∧
        lcsLen (eqB (E.sub uo.toArray un.toArray)) uo.length un.length 0 0 ≤ nEq ops ∧
        (CaptureChain.CrossConsistent E os oe ns ne →
          ∃ pairs : List (Nat × Nat),
            pairs.length = lcsLen (eqB (E.sub uo.toArray un.toArray)) uo.length un.length 0 0 ∧
            Chain pairs ∧
            ∀ x ∈ pairs, ∃ a b, uo[x.1]? = some a ∧ un[x.2]? = some b ∧ eqB E a b = true ∧ covered ops a b) ∧
        -- (c)
        ∀ co cn len t, Op.equal co cn len ∈ ops → t < len →
          eqB E (co + t) (cn + t) = true ∧
          ∀ j', (∀ j, eqB E (co + t) j = true → j = j') → cn + t = j') := by
  obtain ⟨r, w1, hp, -⟩ := PatienceT.patience_total E os oe ns ne w hr.old_le hr.new_le hr.cross hr.oldSide hr.newSide
  obtain ⟨uo, un, raw, pairs, h1, h2, h3, h4, h5, h6, h7⟩ :=
    PatienceT.patience_lis E os oe ns ne w r w1 hr.old_le hr.new_le hr.cross hclk hp
  obtain ⟨ops, w', uo', un', hc, g1, g2, g3, g4⟩ :=
    CaptureP.captured_count_ge_lis_total E repair os oe ns ne w hr.old_le hr.new_le hr.cross hr.oldSide hr.newSide hclk
  rw [h1] at g1; rw [h2] at g2
  cases g1; cases g2
  refine ⟨uo, un, h1, h2, ⟨r, w1, raw, pairs, by simpa [rawTrace, diffWith] using hp, h3, h4, h5, h6, h7⟩,
    ops, w', hc, g3, g4, ?_, ?_⟩
  · intro hcons
    obtain ⟨uo', un', prs, k1, k2, -, k4, k5, k6⟩ :=
      CaptureChain.captured_patience_chain E repair os oe ns ne w ops w' hr.old_le hr.new_le hr.cross hclk hcons hc
    rw [h1] at k1; rw [h2] at k2
    cases k1; cases k2
    exact ⟨prs, k4, k5, k6⟩
  intro co cn len t hm ht
  exact ⟨C15.equal_segments_pair_equal_items _ ops _ _ _ _ g3 co cn len hm t ht,
    fun j' hu => C15.anchor_matched_to_counterpart _ ops _ _ _ _ g3 co cn len t hm ht j' hu⟩

#print axioms C15_statement

/-! non-vacuity: `[7,1,8,2]` vs `[1,9,2,7]`; unique common items `7,1,2` / `1,2,7`, longest in-order set `1,2` -/

example : RangesInBounds (Env.ofSeqs #[7,1,8,2] #[1,9,2,7]) 0 4 0 4 ∧ ({} : World).clock = none :=
  ⟨RangesInBounds.of_eqPattern (by decide) (by decide)
    (IdentP.eqPattern_ofSeqs #[7,1,8,2] #[1,9,2,7] 0 0 0 4 0 4 (by decide) (by decide) (by decide) (by decide)), rfl⟩

example : unique (Env.ofSeqs #[7,1,8,2] #[1,9,2,7]).oo 0 4 = some [0,1,2,3] ∧
    unique (Env.ofSeqs #[7,1,8,2] #[1,9,2,7]).nn 0 4 = some [0,1,2,3] := by decide

example : lcsLen (eqB ((Env.ofSeqs #[7,1,8,2] #[1,9,2,7]).sub #[0,1,2,3] #[0,1,2,3])) 4 4 0 0 = 2 := by
  simp [lcsLen]; decide

example : (captureDiff .patience (Env.ofSeqs #[7,1,8,2] #[1,9,2,7]) false 0 4 0 4 {}).map (·.1) =
    .ok [.delete 0 1 0, .equal 1 0 1, .replace 2 1 1 1, .equal 3 2 1, .insert 4 3 1] := by rfl

/-- the environment of two sequences is consistent across the sides -/
example : CaptureChain.CrossConsistent (Env.ofSeqs #[7,1,8,2] #[1,9,2,7]) 0 4 0 4 :=
  CaptureChain.crossConsistent_of_eqPattern
    (IdentP.eqPattern_ofSeqs #[7,1,8,2] #[1,9,2,7] 0 0 0 4 0 4 (by decide) (by decide) (by decide) (by decide))

/-- the chain of the captured diff above: unique-list positions `(1,0)`, `(3,2)` = items `1`, `2` -/
example : Chain [(1,0),(3,2)] ∧
    covered [.delete 0 1 0, .equal 1 0 1, .replace 2 1 1 1, .equal 3 2 1, .insert 4 3 1] 1 0 ∧
    covered [.delete 0 1 0, .equal 1 0 1, .replace 2 1 1 1, .equal 3 2 1, .insert 4 3 1] 3 2 :=
  ⟨by simp [Chain], ⟨1, 0, 1, by simp, by omega, by omega, by omega⟩, ⟨3, 2, 1, by simp, by omega, by omega, by omega⟩⟩

end SimilarVerif.Headline

import SimilarVerif.Props.C08
import SimilarVerif.Lemmas.HeadlineGlue
/-! # C08 — headline -/
namespace SimilarVerif.Headline
open SimilarVerif Spec

/-- `finish` is the last call of the stream and occurs exactly once -/
def FinishOnceLast (t : List Call) : Prop :=
  t.getLast? = some .finish ∧ (t.filter (· == .finish)).length = 1

/-- "a hook error aborts the run unchanged", for a run `run r` started with the recording hook in state `r` whose result
holds the final recorder at `recOf`: if the run against the never-failing hook returns `x` (recorder trace `T`), then
the run against the hook failing at call `k < |T|` returns exactly that hook's error, which carries `T.take (k+1)` —
the calls up to and including the failing one, nothing after it; for `k ≥ |T|` the run is unaffected. -/
def AbortsUnchanged {γ : Type} (run : Rec → Res (γ × World)) (recOf : γ → Rec) (setRec : γ → Rec → γ)
    (native : Bool) (k : Nat) : Prop :=
  ∀ x wInf, run { failAt := none, nativeReplace := native } = .ok (x, wInf) →
    (k < (recOf x).trace.length →
      run { failAt := some k, nativeReplace := native } = .error (.hookErr ((recOf x).trace.take (k + 1)))) ∧
    ((recOf x).trace.length ≤ k →
      run { failAt := some k, nativeReplace := native } = .ok (setRec x { recOf x with failAt := some k }, wInf))

/-- **C08 — Hook protocol: finish once and last; a hook error aborts the diff unchanged.**

The hook is the recording hook `recHook` (state `Rec`: everything it was told; `failAt = some k`: it returns an
error at its `k`-th call, and the error carries everything it had been told including that call;
`nativeReplace = false`: it does not override `replace`).

"(a) On success every algorithm, alone or wrapped in the compaction and replace adapters, calls the hook's finish
    exactly once and makes no other call after it
    [(a1) alone: the run returns and `FinishOnceLast`; (a2) behind `Replace`: the run returns and the hook has
     been told a list of ops followed by `finish` (no algorithm ever calls `replace`, so the adapter's two
     `debug_assert_eq!` cannot fire on the valid raw stream; Lemmas/ReplaceTotal.lean), and — without any
     hypothesis on what was told — whenever the run returns the stream is `FinishOnceLast`;
     (a3) behind `Compact`, (a4) behind `Compact` over `Replace` (the stack of `capture_diff`): the run returns and
     the hook has been told a list of ops followed by `finish` — for every clock `w`].
(b) If any hook call (including finish) returns an error, the diff returns precisely that error and makes no
    further call to the hook [`AbortsUnchanged`, for every position `k` and each of the five stacks (alone, `NoFinishHook`, `Replace`,
    `Compact`, `Compact`∘`Replace`): if the run against the never-failing hook returns with trace `T`, the run
    against the hook failing at call `k < |T|` — `finish` is `T`'s last call — returns `.error (.hookErr (T.take
    (k+1)))`: that hook's own error, and it has seen exactly the calls up to and including the failing one;
    `k ≥ |T|` changes nothing];
(c) the finish-suppressing wrapper forwards everything except finish [any hook `h`],
(d) and a hook that does not override replace receives a delete followed by an insert [and nothing after a
    failing delete]."

Hypothesis: `RangesInBounds` for (a1), (a2), (a3), (a4) (totality); none for (b), (c), (d).
Not covered by this theorem: arbitrary user hooks other than the recording hook in (a)/(b) (the recording hook
observes the complete call sequence, which is what the clauses speak about; `C01.subrange_is_shifted_slice_hooks`
and Lemmas/HookFail.lean `diffWith_sim` are the hook-generic tools). -/
theorem C08_statement (alg : Alg) (E : Env) (repair : Bool) (os oe ns ne : Nat) (w : World) :
    -- (a)
    (RangesInBounds E os oe ns ne →
      (∃ r w', rawTrace alg E os oe ns ne w = .ok (r, w') ∧ FinishOnceLast r.trace) ∧
      (∃ (rs : RState) (out : List Op) (w' : World),
        diffWith alg E (replaceHook recHook) os oe ns ne ({}, {}) w =
          .ok ((rs, { trace := out.map Call.op ++ [.finish] }), w') ∧
        FinishOnceLast (out.map Call.op ++ [.finish])) ∧
      (∃ (ops : List Op) (w' : World), diffWith alg E (compactHook E repair recHook) os oe ns ne ([], {}) w =
          .ok ((ops, { trace := ops.map Call.op ++ [.finish] }), w') ∧
        FinishOnceLast (ops.map Call.op ++ [.finish])) ∧
      (∃ (buf : List Op) (rs : RState) (out : List Op) (w' : World),
        diffWith alg E (compactHook E repair (replaceHook recHook)) os oe ns ne ([], ({}, {})) w =
          .ok ((buf, (rs, { trace := out.map Call.op ++ [.finish] })), w') ∧
        FinishOnceLast (out.map Call.op ++ [.finish])) ∧
      (∀ a r2 w', diffWith alg E (replaceHook recHook) os oe ns ne ({}, {}) w = .ok ((a, r2), w') →
        FinishOnceLast r2.trace)) ∧
    -- (b)
    (∀ (native : Bool) (k : Nat),
      AbortsUnchanged (fun r => diffWith alg E recHook os oe ns ne r w) id (fun _ r => r) native k ∧
      AbortsUnchanged (fun r => diffWith alg E (noFinishHook recHook) os oe ns ne r w) id (fun _ r => r) native k ∧
      AbortsUnchanged (fun r => diffWith alg E (replaceHook recHook) os oe ns ne ({}, r) w)
        (fun x => x.2) (fun x r => (x.1, r)) native k ∧
      AbortsUnchanged (fun r => diffWith alg E (compactHook E repair recHook) os oe ns ne ([], r) w)
        (fun x => x.2) (fun x r => (x.1, r)) native k ∧
      AbortsUnchanged (fun r => diffWith alg E (compactHook E repair (replaceHook recHook)) os oe ns ne ([], ({}, r)) w)
        (fun x => x.2.2) (fun x r => (x.1, x.2.1, r)) native k) ∧
    -- (c)
    (∀ {σ : Type} (h : Hook σ) (s : σ) (w : World),
      (∀ x, (noFinishHook h).call (.op x) s w = h.call (.op x) s w) ∧
      (noFinishHook h).call .finish s w = .ok (s, w)) ∧
    -- (d)
    (∀ (o ol n nl : Nat) (t : List Call) (w : World),
      recHook.call (.op (.replace o ol n nl)) { trace := t, nativeReplace := false } w =
        .ok ({ trace := t ++ [.op (.delete o ol n), .op (.insert o n nl)], nativeReplace := false }, w) ∧
      recHook.call (.op (.replace o ol n nl)) { trace := t, failAt := some t.length, nativeReplace := false } w =
        .error (.hookErr (t ++ [.op (.delete o ol n)]))) := by
  have fol : ∀ ops : List Op, FinishOnceLast (ops.map Call.op ++ [.finish]) := fun ops =>
    ⟨by simp, by
      have := countFin_append (ops.map Call.op) [.finish]
      rw [countFin_ops, countFin_finish] at this
      exact this⟩
  refine ⟨?_, ?_, ?_, ?_⟩
  · intro hr
    obtain ⟨r, w', h, hv⟩ := rawTrace_total_valid alg E os oe ns ne w hr
    have hf := C08.finish_once_last E os oe ns ne r.trace hv
    obtain ⟨⟨ops, w1, h1, -⟩, ⟨buf, rs, out, w2, h2, -, -⟩⟩ := compact_stacks_total alg E repair os oe ns ne w hr
    obtain ⟨-, outR, rsR, wR, -, -, hR, -⟩ := C08.replace_alone_total alg E os oe ns ne w hr
    exact ⟨⟨r, w', h, hf⟩, ⟨rsR, outR, wR, hR, fol outR⟩, ⟨ops, w1, h1, fol ops⟩, ⟨buf, rs, out, w2, h2, fol out⟩,
      fun a r2 w3 hrun => replace_stack_finish alg E os oe ns ne w r w' h hf a r2 w3 hrun⟩
  · intro native k
    refine ⟨?_, ?_, ?_, ?_, ?_⟩
    · intro x wInf h; exact C08.abort_prefix_plain alg E os oe ns ne w native k h
    · intro x wInf h; exact C08.abort_prefix_noFinish alg E os oe ns ne w native k h
    · intro ⟨aInf, rInf⟩ wInf h; exact C08.abort_prefix_replace alg E os oe ns ne w native k h
    · intro ⟨bInf, rInf⟩ wInf h; exact C08.abort_prefix_compact alg E repair os oe ns ne w native k h
    · intro ⟨bInf, aInf, rInf⟩ wInf h; exact C08.abort_prefix_compact_replace alg E repair os oe ns ne w native k h
  · intro σ h s w
    exact ⟨fun _ => rfl, rfl⟩
  · intro o ol n nl t w
    exact ⟨C08.default_replace o ol n nl t w, C08.default_replace_fail_first o ol n nl t w⟩

#print axioms C08_statement

/-- non-vacuity: `[1,0]` vs `[1,2,0,1]`, Myers: the stream of the never-failing hook has 5 calls … -/
example : (rawTrace .myers (Env.ofSeqs #[1,0] #[1,2,0,1]) 0 2 0 4 {}).map (·.1.trace) =
    .ok [.op (.equal 0 0 1), .op (.insert 1 1 1), .op (.equal 1 2 1), .op (.insert 2 3 1), .finish] := by rfl

/-- … a hook failing at `finish` (call 4) gets all five calls and the diff returns its error, a hook failing at
call 1 gets two calls -/
example : diffWith .myers (Env.ofSeqs #[1,0] #[1,2,0,1]) recHook 0 2 0 4 { failAt := some 4 } {} =
    .error (.hookErr [.op (.equal 0 0 1), .op (.insert 1 1 1), .op (.equal 1 2 1), .op (.insert 2 3 1), .finish]) := by rfl
example : diffWith .myers (Env.ofSeqs #[1,0] #[1,2,0,1]) recHook 0 2 0 4 { failAt := some 1 } {} =
    .error (.hookErr [.op (.equal 0 0 1), .op (.insert 1 1 1)]) := by rfl

/-- … and behind `Replace` the hook is told the same script, finished once -/
example : (diffWith .myers (Env.ofSeqs #[1,0] #[1,2,0,1]) (replaceHook recHook) 0 2 0 4 ({}, {}) {}).map (·.1.2.trace) =
    .ok [.op (.equal 0 0 1), .op (.insert 1 1 1), .op (.equal 1 2 1), .op (.insert 2 3 1), .finish] := by rfl

end SimilarVerif.Headline

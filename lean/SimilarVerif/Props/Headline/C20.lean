import SimilarVerif.Props.C20
import SimilarVerif.Props.C14
import SimilarVerif.Lemmas.TextDiff
/-! # C20 — headline -/
namespace SimilarVerif.Headline
open SimilarVerif Spec

/-- an injective relabelling of the tokens leaves the token environment unchanged -/
theorem ofTokens_relabel (g : Bytes → Bytes) (hg : ∀ a b, g a = g b → a = b) (old new : Array Bytes) :
    Env.ofTokens (old.map g) (new.map g) = Env.ofTokens old new := by
  have key : ∀ a b : Bytes, (g a == g b) = (a == b) := by
    intro a b
    rw [Bool.eq_iff_iff]
    simp only [beq_iff_eq]
    exact ⟨hg a b, fun h => h ▸ rfl⟩
  unfold Env.ofTokens
  simp only [Env.mk.injEq]
  refine ⟨?_, ?_, ?_⟩ <;> funext i j <;> simp only [Array.getElem?_map]
  · cases old[i]? <;> cases new[j]? <;> simp [key]
  · cases old[i]? <;> cases old[j]? <;> simp [key]
  · cases new[i]? <;> cases new[j]? <;> simp [key]

/-- **C20 — Diffs are deterministic and depend only on the equality pattern of the items.**

"(a) Diffing the same inputs with the same algorithm always returns the same ops - across repeated calls, threads
    and hasher seeds [see "not covered"] -
(b) and replacing the items by any order-preserving injective relabelling (same equalities, different values and
    hashes) returns the same ops [any injective relabelling `f`, order-preserving or not: the raw callback stream
    (with the world: comparisons, probes, clock) and the captured ops of every algorithm on label sequences read
    through any offsets and ranges; likewise a text diff whose tokens are relabelled by an injective `g`].
(c) Text diffs of str input and of the same bytes as [u8] have identical ops for the line, word and char tokenizers
    [for strings `so sn` (lists of scalar values) and their UTF-8 encodings: the byte tokenizers return the same
    token ranges as the `str` tokenizers, hence the same token arrays and the same ops — every algorithm, clock
    and setting of `repair`]."

No hypotheses besides injectivity.
Not covered by this theorem: (a) "repeated calls, threads and hasher seeds" is runtime behaviour: the model is a
mathematical function whose only state (clock, counters) is the explicit `World` argument, so in the model the
clause is `x = x`; what the model contributes is that `unique` (Model/Utils.lean) and `IdentifyDistinct`
(Model/TextDiff.lean) are specified without a hash map — ascending positions (`C15.unique_ascending`) resp. ids in
first-seen order (`C14.ids_first_seen`) — and the correspondence harness compares the Rust against that on every
case, repeatedly, in spawned threads with fresh `RandomState`s and with a second `Hash` impl (suite `determinism`). -/
theorem C20_statement (alg : Alg) (repair : Bool) (w : World) :
    -- (b) label sequences
    (∀ (f : Nat → Nat), (∀ a b, f a = f b → a = b) →
      ∀ (old new : Array Nat) (oOff nOff os oe ns ne : Nat),
        rawTrace alg (Env.ofSeqs (old.map f) (new.map f) oOff nOff) os oe ns ne w =
          rawTrace alg (Env.ofSeqs old new oOff nOff) os oe ns ne w ∧
        captureDiff alg (Env.ofSeqs (old.map f) (new.map f) oOff nOff) repair os oe ns ne w =
          captureDiff alg (Env.ofSeqs old new oOff nOff) repair os oe ns ne w) ∧
    -- (b) text diffs
    (∀ (g : Bytes → Bytes), (∀ a b, g a = g b → a = b) →
      ∀ (old new : Array Bytes),
        textDiffOps alg repair (old.map g) (new.map g) w = textDiffOps alg repair old new w) ∧
    -- (c)
    (∀ (so sn : List Char),
      textDiffOps alg repair (TextP.tokens (utf8EncAll so) (tokenizeLinesB (utf8EncAll so)))
          (TextP.tokens (utf8EncAll sn) (tokenizeLinesB (utf8EncAll sn))) w =
        textDiffOps alg repair (TextP.tokens (utf8EncAll so) (tokenizeLinesS so))
          (TextP.tokens (utf8EncAll sn) (tokenizeLinesS sn)) w ∧
      textDiffOps alg repair (TextP.tokens (utf8EncAll so) (tokenizeWordsB (utf8EncAll so)))
          (TextP.tokens (utf8EncAll sn) (tokenizeWordsB (utf8EncAll sn))) w =
        textDiffOps alg repair (TextP.tokens (utf8EncAll so) (tokenizeWordsS so))
          (TextP.tokens (utf8EncAll sn) (tokenizeWordsS sn)) w ∧
      textDiffOps alg repair (TextP.tokens (utf8EncAll so) (tokenizeCharsB (utf8EncAll so)))
          (TextP.tokens (utf8EncAll sn) (tokenizeCharsB (utf8EncAll sn))) w =
        textDiffOps alg repair (TextP.tokens (utf8EncAll so) (tokenizeCharsS so))
          (TextP.tokens (utf8EncAll sn) (tokenizeCharsS sn)) w) := by
  refine ⟨?_, ?_, ?_⟩
  · intro f hf old new oOff nOff os oe ns ne
    exact ⟨C20.rawTrace_relabel alg f hf old new oOff nOff os oe ns ne w {},
      C20.capture_relabel alg repair f hf old new oOff nOff os oe ns ne w⟩
  · intro g hg old new
    rw [C14.text_diff_is_token_diff, C14.text_diff_is_token_diff, ofTokens_relabel g hg]
    simp
  · intro so sn
    obtain ⟨a1, a2, a3⟩ := C20.str_bytes_same_tokens so
    obtain ⟨b1, b2, b3⟩ := C20.str_bytes_same_tokens sn
    rw [a1, a2, a3, b1, b2, b3]
    exact ⟨rfl, rfl, rfl⟩

#print axioms C20_statement

/-- non-vacuity: `[1,0]` vs `[1,2,0,1]` relabelled by the injective, order-REVERSING `x ↦ 10 - x` (on these labels) -/
example : ∀ alg, (captureDiff alg (Env.ofSeqs #[9,10] #[9,8,10,9]) false 0 2 0 4 {}).map (·.1) =
    (captureDiff alg (Env.ofSeqs #[1,0] #[1,2,0,1]) false 0 2 0 4 {}).map (·.1) := by
  intro alg; cases alg <;> rfl

/-- … and "a\nb" tokenized by lines as `str` and as bytes -/
example : tokenizeLinesB (utf8EncAll ['a', '\n', 'b']) = [(0, 2), (2, 3)] ∧
    tokenizeLinesS ['a', '\n', 'b'] = [(0, 2), (2, 3)] := by decide

end SimilarVerif.Headline

import SimilarVerif.Props.C05
import SimilarVerif.Props.C09
import SimilarVerif.Props.C11
import SimilarVerif.Lemmas.TextDiff
import SimilarVerif.Lemmas.HeadlineGlue
import SimilarVerif.Lemmas.HeadlineGlueG1
/-! # C05 — headline -/
namespace SimilarVerif.Headline
open SimilarVerif Spec UdiffP UdiffParseP

theorem sAltT_of_alternating : ∀ (ops : List Op), Alternating ops → SAltT (ops.map Op.tag)
  | [], _ => trivial
  | [_], _ => trivial
  | _ :: y :: cs, h => ⟨h.1, sAltT_of_alternating (y :: cs) h.2⟩

theorem altOps_of_alternating : ∀ (ops : List Op), (∀ x ∈ ops, x.isEmpty = false) → Alternating ops → AltOps ops
  | [], _, _ => trivial
  | [x], he, _ => by simp [AltOps, he x (by simp)]
  | x :: y :: cs, he, h => by
    refine ⟨by simp [he x (by simp)], ?_, altOps_of_alternating (y :: cs) (fun z hz => he z (List.mem_cons_of_mem _ hz)) h.2⟩
    intro ⟨h1, h2⟩
    exact h.1 (by simp [h1, h2])

/-- **what C05 says of ONE op list** `ops` over the line arrays `old new`, context radius `n`, header setting
`header`: verbatim the conjuncts (a) – (f) of `C05_statement` (the proof of `C05_statement` checks that the two texts
agree).  Used to state the same conclusions for the op list that `textDiffOps` returns, conjunct (h). -/
def UnifiedDiffCorrect (old new : Array Bytes) (ops : List Op) (n : Nat) (header : Option (Bytes × Bytes)) : Prop :=
    (∃ hs : List SHunk,
      hunksOf old new ((groupDiffOps ops n).filter fun g => !g.isEmpty) = some hs ∧
      -- (f) what is printed, every mode
      (∀ nlt hint isLossy, renderUnified n header ops old new nlt hint isLossy =
        .ok (if hs = [] then [] else fileHeader header ++ hs.flatMap (renderSHunk nlt hint isLossy))) ∧
      -- (a)
      (GoodNames header → (∀ v ∈ old, IsLine v) → (∀ v ∈ new, IsLine v) →
        ∃ out, renderUnified n header ops old new true true false = .ok out ∧
          parseUnified out = some (if hs = [] then none else header, hs) ∧
          ∀ h ∈ hs, oldCount h.body = h.oE - h.oS ∧ newCount h.body = h.nE - h.nS) ∧
      -- (b)
      (hs.Pairwise Before ∧ ∀ h ∈ hs, InRange old.size new.size h) ∧
      -- (c)
      applyHunks old hs = some new.toList) ∧
    -- (b) true positions, per group
    (∀ g ∈ (groupDiffOps ops n).filter (fun g => !g.isEmpty), ∃ f l, g.head? = some f ∧ g.getLast? = some l ∧
      (allChanges g).countP isOld = l.oEnd - f.oStart ∧ (allChanges g).countP isNew = l.nEnd - f.nStart ∧
      (allChanges g).filterMap (·.oldIndex) = List.range' f.oStart (l.oEnd - f.oStart) ∧
      (allChanges g).filterMap (·.newIndex) = List.range' f.nStart (l.nEnd - f.nStart)) ∧
    -- (d)
    (changesOf ops = [] → ∀ nlt hint isLossy, renderUnified n header ops old new nlt hint isLossy = .ok []) ∧
    -- (e)
    (∀ g ∈ groupDiffOps ops n,
      (∃ lead core trail, allChanges g = lead ++ core ++ trail ∧
        (∀ c ∈ lead, c.tag = .equal) ∧ lead.length ≤ n ∧ (∀ c ∈ trail, c.tag = .equal) ∧ trail.length ≤ n ∧
        (∃ c, core.head? = some c ∧ c.tag ≠ .equal) ∧ (∃ c, core.getLast? = some c ∧ c.tag ≠ .equal)) ∧
      NoID (allChanges g)) ∧
    -- (f) Display vs writer
    ((∀ a b, header = some (a, b) → lossy a = a ∧ lossy b = b) → ∀ nlt hint,
      renderUnified n header ops old new nlt hint true =
        (renderUnified n header ops old new nlt hint false).map lossy) ∧
    ((∀ t, t ∈ old ∨ t ∈ new → lossy t = t) → ∀ nlt hint,
      renderUnified n header ops old new nlt hint true = renderUnified n header ops old new nlt hint false)

/-- (a) – (f) for any valid, alternating op list with exact positions -/
theorem unifiedDiffCorrect_of (old new : Array Bytes) (e : Nat → Nat → Bool) (he : Sound old new e)
    (ops : List Op) (n : Nat) (header : Option (Bytes × Bytes))
    (hw : Walk e 0 0 ops old.size new.size) (hx : Exact 0 0 ops) (ha : Alternating ops) :
    UnifiedDiffCorrect old new ops n header := by
  have hne := C09.walk_no_empty e ops _ _ _ _ hw
  have hv : AltOps ops := altOps_of_alternating ops hne ha
  have hs' : SAltT (ops.map Op.tag) := sAltT_of_alternating ops ha
  refine ⟨?_, ?_, ?_, ?_, ?_, ?_⟩
  · obtain ⟨hs, h1, h2, _⟩ := C05.unified_applies old new e he ops n header true true false hw hx hv
    refine ⟨hs, h1, ?_, ?_, C05.hunks_increasing old new e ops n _ _ hw hx hs h1, h2⟩
    · intro nlt hint isLossy
      obtain ⟨hs2, g1, -, g3⟩ := C05.unified_applies old new e he ops n header nlt hint isLossy hw hx hv
      rw [h1] at g1; cases g1; exact g3
    · intro hn hlo hln
      obtain ⟨hs2, out, g1, g2, g3, g4, -⟩ := C05.parse_of_rendered old new e he ops n header hw hx hv hn hlo hln
      rw [h1] at g1; cases g1
      exact ⟨out, g2, g3, g4⟩
  · intro g hg
    obtain ⟨f, l, a1, a2, -, -, -, -, a7, a8, a9, a10⟩ := C05.header_counts_match e ops n _ _ hw hx g hg
    exact ⟨f, l, a1, a2, a7, a8, a9, a10⟩
  · intro hc nlt hint isLossy
    exact C05.equal_inputs_render_empty ops n header old new nlt hint isLossy hv hc
  · intro g hg
    exact ⟨C05.hunk_shape ops n hv g hg, C05.deletions_before_insertions ops n hv hs' g hg⟩
  · intro hh nlt hint
    exact C05.display_is_lossy_writer n header ops old new nlt hint hh
  · intro ht nlt hint
    exact C05.display_eq_writer_on_utf8 old new ht n header ops nlt hint

#print axioms unifiedDiffCorrect_of

/-- **C05 — Rendered unified diffs are well-formed and apply exactly.**

Vocabulary: `old new` the two line arrays (each line with its terminator, if any), `ops` the op list of the diff,
`renderUnified n header ops old new nlt hint isLossy` the printed bytes of `UnifiedDiff` with context radius `n`
(`isLossy = true`: `Display`, `false`: `to_writer`; `nlt`: the diff is newline-terminated, i.e. a line diff; `hint`:
`missing_newline_hint`); `SHunk` a structured hunk `(oS, oE, nS, nE, body)` with 0-based half-open ranges;
`parseUnified` a strict count-driven reader of unified-diff bytes written from the format (Spec/UdiffParse.lean);
`applyHunks` a strict patch (every context and `-` line must equal the old line at the stated position).

Hypotheses (visible): the ops are a valid script over the lines (`Walk` over a comparison `e` that is `Sound`: lines
that compare equal are equal), alternate Equal / non-Equal (`Alternating`, C09), and carry EXACT positions
(`Exact 0 0 ops`, C11) — the renderer reads hunk positions from the first and last op of each group.  `Exact` is what
the shipped clean-up does NOT provide (known finding, conjunct (i): `KF-compact-swap`), so this headline is the
property for the repaired swap.  The theorem has two layers:
* (a) – (g): for ANY op list with these three properties (the general clause; its conjuncts (a) – (f) are, verbatim,
  the definition `UnifiedDiffCorrect old new ops n header` directly above);
* (h): END TO END, with NO `Exact` hypothesis — for the repaired swap (`textDiffOps alg true`), all three algorithms,
  EVERY world (every clock, also Myers and Patience under a deadline that expires in the middle of the run: the range
  of `C11_statement` (a)), and any two token arrays `lo ln`: `textDiffOps` RETURNS an op list `ops'` that is a valid
  script over the (sound) token comparison, alternating and `Exact` (`C11.capture_exact_repaired_every_clock'`), hence
  (a) – (f) hold of `ops'` [`UnifiedDiffCorrect lo ln ops' n header`: well-formed hunks, header counts, true start
  lines, increasing non-overlapping order, strict application gives the new lines, equal inputs render empty, hunk
  shape, Display vs writer]; and when `lo ln` are the line tokens of two texts `bo bn` (`tokenize_lines`), every token
  is a line (`IsLine`), so the byte-level clause (a) needs only the header names: the printed text (`to_writer`, hint
  on) parses back to exactly the hunks `hs`, whose counts match, which are ordered and in range, and which patch the
  old lines into exactly the new lines.

"For every line diff, context radius and header setting,
(a) the rendered unified diff parses as a sequence of hunks [`parseUnified out = some (header, hs)`; hypotheses: header
    names without `\n`, every line is a line (`IsLine`: no inner line break — what `tokenize_lines` produces; discharged in (h)); the
    configuration whose text is unambiguous: `to_writer`, line diff, hint on]
    whose '@@ -a,b +c,d @@' counts equal the numbers of old-side and new-side lines in the hunk body
(b) and whose start lines are the true positions [the old / new indices of the changes of each group are exactly
    `f.oStart, f.oStart+1, …` up to `l.oEnd`, resp. new], in increasing non-overlapping order [`Pairwise Before`, inside
    the texts];
(c) applying the hunks strictly (every context and '-' line must match the old text at the stated position) turns the
    old text into exactly the new text [`applyHunks old hs = some new.toList`], including a missing final newline [lines
    carry their terminators], which is marked by '\ No newline at end of file' exactly on lines lacking one [(g): the
    marker is printed iff `nlt && !endsWithNewline line`, with the hint on].
(d) Equal inputs render as the empty string (no file header) [no change op ⇒ `.ok []`, any header setting],
(e) every hunk contains a change with at most radius context lines at its edges [`lead`, `trail` all Equal, length
    `≤ n`, `core` starts and ends with a change] and deletions before insertions [`NoID`: no `+` line directly before a
    `-` line],
(f) and the byte writer emits every line's bytes unchanged [(g): the body line is the tag byte followed by the line's
    bytes; the whole output is the file header and the printed hunks `hs`, for every mode] - identical to Display for
    UTF-8 input, while Display equals the lossy decoding of the writer's output otherwise [header names are `String`s,
    i.e. valid UTF-8]."

Not covered by this theorem: the property for the SHIPPED swap (`textDiffOps alg false`) — false: (i),
`C05.unified_needs_exact`, C11's known finding `KF-compact-swap` (for shipped op lists the general clause still
applies whenever they are `Exact`).  Parsing of the other output modes (`Display`, non-line diffs, hint off) — their
text is ambiguous or lossy; they are covered at the level of structured hunks by (f). -/
theorem C05_statement (old new : Array Bytes) (e : Nat → Nat → Bool) (he : Sound old new e)
    (ops : List Op) (n : Nat) (header : Option (Bytes × Bytes))
    (hw : Walk e 0 0 ops old.size new.size) (hx : Exact 0 0 ops) (ha : Alternating ops) :
    (∃ hs : List SHunk,
      hunksOf old new ((groupDiffOps ops n).filter fun g => !g.isEmpty) = some hs ∧
      -- (f) what is printed, every mode
      (∀ nlt hint isLossy, renderUnified n header ops old new nlt hint isLossy =
        .ok (if hs = [] then [] else fileHeader header ++ hs.flatMap (renderSHunk nlt hint isLossy))) ∧
      -- (a)
      (GoodNames header → (∀ v ∈ old, IsLine v) → (∀ v ∈ new, IsLine v) →
        ∃ out, renderUnified n header ops old new true true false = .ok out ∧
          parseUnified out = some (if hs = [] then none else header, hs) ∧
          ∀ h ∈ hs, oldCount h.body = h.oE - h.oS ∧ newCount h.body = h.nE - h.nS) ∧
      -- (b)
      (hs.Pairwise Before ∧ ∀ h ∈ hs, InRange old.size new.size h) ∧
      -- (c)
      applyHunks old hs = some new.toList) ∧
    -- (b) true positions, per group
    (∀ g ∈ (groupDiffOps ops n).filter (fun g => !g.isEmpty), ∃ f l, g.head? = some f ∧ g.getLast? = some l ∧
      (allChanges g).countP isOld = l.oEnd - f.oStart ∧ (allChanges g).countP isNew = l.nEnd - f.nStart ∧
      (allChanges g).filterMap (·.oldIndex) = List.range' f.oStart (l.oEnd - f.oStart) ∧
      (allChanges g).filterMap (·.newIndex) = List.range' f.nStart (l.nEnd - f.nStart)) ∧
    -- (d)
    (changesOf ops = [] → ∀ nlt hint isLossy, renderUnified n header ops old new nlt hint isLossy = .ok []) ∧
    -- (e)
    (∀ g ∈ groupDiffOps ops n,
      (∃ lead core trail, allChanges g = lead ++ core ++ trail ∧
        (∀ c ∈ lead, c.tag = .equal) ∧ lead.length ≤ n ∧ (∀ c ∈ trail, c.tag = .equal) ∧ trail.length ≤ n ∧
        (∃ c, core.head? = some c ∧ c.tag ≠ .equal) ∧ (∃ c, core.getLast? = some c ∧ c.tag ≠ .equal)) ∧
      NoID (allChanges g)) ∧
    -- (f) Display vs writer
    ((∀ a b, header = some (a, b) → lossy a = a ∧ lossy b = b) → ∀ nlt hint,
      renderUnified n header ops old new nlt hint true =
        (renderUnified n header ops old new nlt hint false).map lossy) ∧
    ((∀ t, t ∈ old ∨ t ∈ new → lossy t = t) → ∀ nlt hint,
      renderUnified n header ops old new nlt hint true = renderUnified n header ops old new nlt hint false) ∧
    -- (g) one body line
    (∀ (nlt hint isLossy : Bool) (l : CTag × Bytes), renderLine nlt hint isLossy l =
      [tagByte l.1] ++ (if isLossy then lossy l.2 else l.2) ++ (if nlt then [] else [10]) ++
        (if nlt && !endsWithNewline l.2 then
          (if hint then ascii "\n\\ No newline at end of file" else []) ++ [10] else [])) ∧
    -- (h) END TO END, no `Exact` hypothesis: the repaired swap, every algorithm, every world (every clock, also an
    --     expiring deadline) — `textDiffOps` returns ops that meet the hypotheses, hence (a) – (f) hold of them
    (∀ (alg : Alg) (w : World) (lo ln : Array Bytes),
      ∃ ops' w', textDiffOps alg true lo ln w = .ok (ops', w') ∧
        Sound lo ln (eqB (Env.ofTokens lo ln)) ∧
        Walk (eqB (Env.ofTokens lo ln)) 0 0 ops' lo.size ln.size ∧
        Exact 0 0 ops' ∧ Alternating ops' ∧
        -- (a) – (f) for the ops returned
        UnifiedDiffCorrect lo ln ops' n header ∧
        -- two texts: `lo ln` the line tokens of `bo bn`
        (∀ bo bn : Bytes, lo = TextP.tokens bo (tokenizeLinesB bo) → ln = TextP.tokens bn (tokenizeLinesB bn) →
          (∀ v ∈ lo, IsLine v) ∧ (∀ v ∈ ln, IsLine v) ∧
          -- (a), (c) at byte level: the printed text parses back to hunks that patch the old lines into the new ones
          (GoodNames header → ∃ hs out,
            hunksOf lo ln ((groupDiffOps ops' n).filter fun g => !g.isEmpty) = some hs ∧
            renderUnified n header ops' lo ln true true false = .ok out ∧
            parseUnified out = some (if hs = [] then none else header, hs) ∧
            (∀ h ∈ hs, oldCount h.body = h.oE - h.oS ∧ newCount h.body = h.nE - h.nS) ∧
            hs.Pairwise Before ∧ (∀ h ∈ hs, InRange lo.size ln.size h) ∧
            applyHunks lo hs = some ln.toList))) ∧
    -- (i) … and NOT by the shipped clean-up
    (∃ (E : Env) (ops0 : List Op) (o0 n0 o1 n1 : Nat) (w : World) (ops1 : List Op) (w' : World),
      NoReplaceOp ops0 ∧ Walk (eqB E) o0 n0 ops0 o1 n1 ∧ Exact o0 n0 ops0 ∧
      cleanupDiffOps E false ops0 w = .ok (ops1, w') ∧ ¬ Exact o0 n0 ops1) := by
  obtain ⟨c1, c2, c3, c4, c5, c6⟩ := unifiedDiffCorrect_of old new e he ops n header hw hx ha
  refine ⟨c1, c2, c3, c4, c5, c6, ?_, ?_, C05.unified_needs_exact⟩
  · intro nlt hint isLossy l; rfl
  · intro alg w lo ln
    obtain ⟨ops', w', hc, hw', hx', ha'⟩ := G1.textDiffOps_exact_repaired alg lo ln w
    have hu := unifiedDiffCorrect_of lo ln _ (sound_ofTokens lo ln) ops' n header hw' hx' ha'
    refine ⟨ops', w', hc, sound_ofTokens lo ln, hw', hx', ha', hu, ?_⟩
    rintro bo bn rfl rfl
    have hlo : ∀ v ∈ TextP.tokens bo (tokenizeLinesB bo), IsLine v := fun v hv => C05.lines_are_lines bo v hv
    have hln : ∀ v ∈ TextP.tokens bn (tokenizeLinesB bn), IsLine v := fun v hv => C05.lines_are_lines bn v hv
    refine ⟨hlo, hln, ?_⟩
    intro hn
    obtain ⟨⟨hs, h1, -, h3, h4, h5⟩, -⟩ := hu
    obtain ⟨out, g1, g2, g3⟩ := h3 hn hlo hln
    exact ⟨hs, out, h1, g1, g2, g3, h4.1, h4.2, h5⟩

#print axioms C05_statement

/-- non-vacuity: "a\nb\n" vs "a\nc" (no final newline); the Myers line diff with the repaired swap … -/
example : (textDiffOps .myers true (TextP.tokens [97,10,98,10] (tokenizeLinesB [97,10,98,10]))
    (TextP.tokens [97,10,99] (tokenizeLinesB [97,10,99])) {}).map (·.1) = .ok [.equal 0 0 1, .replace 1 1 1 1] := by rfl

/-- … satisfies the hypotheses … -/
example : Exact 0 0 [.equal 0 0 1, .replace 1 1 1 1] ∧ Alternating [.equal 0 0 1, .replace 1 1 1 1] := by
  simp [Exact, Alternating, Op.oStart, Op.nStart, Op.oLen, Op.nLen, Op.tag]

/-- … and renders (writer path, hint on) as `@@ -1,2 +1,2 @@`, ` a`, `-b`, `+c`, `\ No newline at end of file` -/
example : renderUnified 3 none [.equal 0 0 1, .replace 1 1 1 1] #[[97,10],[98,10]] #[[97,10],[99]] true true false =
    .ok (ascii "@@ -1,2 +1,2 @@\n a\n-b\n+c\n\\ No newline at end of file\n") := by rfl

/-- non-vacuity of (h) (it has no hypothesis on the algorithm or the world): "a\nb\n" vs "b\nb\n" — the input on which the clean-up swaps a Delete / Insert pair: the PATIENCE line diff (not
covered before) with the repaired swap returns exact positions (the Insert carries old position 2), as do Myers, and
LCS with an already expired deadline; the shipped swap does not (the Delete claims new position 1, true 0) … -/
example : ∀ alg : Alg, (textDiffOps alg true (TextP.tokens [97,10,98,10] (tokenizeLinesB [97,10,98,10]))
    (TextP.tokens [98,10,98,10] (tokenizeLinesB [98,10,98,10])) {}).map (·.1) =
    .ok [.delete 0 1 0, .equal 1 0 1, .insert 2 1 1] := by
  intro alg; cases alg <;> rfl
example : (textDiffOps .lcs true (TextP.tokens [97,10,98,10] (tokenizeLinesB [97,10,98,10]))
    (TextP.tokens [98,10,98,10] (tokenizeLinesB [98,10,98,10])) { clock := some 0 }).map (·.1) =
    .ok [.delete 0 1 0, .equal 1 0 1, .insert 2 1 1] := by rfl
example : Exact 0 0 [.delete 0 1 0, .equal 1 0 1, .insert 2 1 1] ∧
    Alternating [.delete 0 1 0, .equal 1 0 1, .insert 2 1 1] := by
  simp [Exact, Alternating, Op.oStart, Op.nStart, Op.oLen, Op.nLen, Op.tag]
example : (textDiffOps .patience false (TextP.tokens [97,10,98,10] (tokenizeLinesB [97,10,98,10]))
    (TextP.tokens [98,10,98,10] (tokenizeLinesB [98,10,98,10])) {}).map (·.1) =
    .ok [.delete 0 1 1, .equal 1 0 1, .insert 1 1 1] ∧ ¬ Exact 0 0 [.delete 0 1 1, .equal 1 0 1, .insert 1 1 1] := by
  refine ⟨by rfl, ?_⟩
  simp [Exact, Op.oStart, Op.nStart, Op.oLen, Op.nLen]

/-- … and with radius 0 the exact list renders as two hunks with the true start lines, `@@ -1 +0,0 @@`, `-a`,
`@@ -2,0 +2 @@`, `+b` (the shipped list would print `@@ -1 +1,0 @@` for the first) -/
example : renderUnified 0 none [.delete 0 1 0, .equal 1 0 1, .insert 2 1 1] #[[97,10],[98,10]] #[[98,10],[98,10]]
    true true false = .ok (ascii "@@ -1 +0,0 @@\n-a\n@@ -2,0 +2 @@\n+b\n") := by rfl
example : renderUnified 0 none [.delete 0 1 1, .equal 1 0 1, .insert 1 1 1] #[[97,10],[98,10]] #[[98,10],[98,10]]
    true true false = .ok (ascii "@@ -1 +1,0 @@\n-a\n@@ -2,0 +2 @@\n+b\n") := by rfl

/-- non-vacuity of (h) under an EXPIRING deadline (clock `some 0`; Myers and Patience): "b\na\n" vs "a\na\na\n" — the
deadline fallback `delete; insert` is swapped by the clean-up, and the Insert survives as a stand-alone op: the
repaired swap gives it the exact old position 2, the shipped swap the stale 1 … -/
example : ∀ alg : Alg, alg ≠ .lcs →
    (textDiffOps alg true (TextP.tokens [98,10,97,10] (tokenizeLinesB [98,10,97,10]))
      (TextP.tokens [97,10,97,10,97,10] (tokenizeLinesB [97,10,97,10,97,10])) { clock := some 0 }).map (·.1) =
      .ok [.delete 0 1 0, .equal 1 0 1, .insert 2 1 2] ∧
    (textDiffOps alg false (TextP.tokens [98,10,97,10] (tokenizeLinesB [98,10,97,10]))
      (TextP.tokens [97,10,97,10,97,10] (tokenizeLinesB [97,10,97,10,97,10])) { clock := some 0 }).map (·.1) =
      .ok [.delete 0 1 0, .equal 1 0 1, .insert 1 1 2] := by
  intro alg h; cases alg
  · exact ⟨by rfl, by rfl⟩
  · exact ⟨by rfl, by rfl⟩
  · exact absurd rfl h
example : Exact 0 0 [.delete 0 1 0, .equal 1 0 1, .insert 2 1 2] ∧
    Alternating [.delete 0 1 0, .equal 1 0 1, .insert 2 1 2] ∧
    ¬ Exact 0 0 [.delete 0 1 0, .equal 1 0 1, .insert 1 1 2] := by
  simp [Exact, Alternating, Op.oStart, Op.nStart, Op.oLen, Op.nLen, Op.tag]

/-- … and with radius 0 the exact list renders with the true start lines: `@@ -1 +0,0 @@`, `-b`, `@@ -2,0 +2,2 @@`,
`+a`, `+a` -/
example : renderUnified 0 none [.delete 0 1 0, .equal 1 0 1, .insert 2 1 2] #[[98,10],[97,10]]
    #[[97,10],[97,10],[97,10]] true true false = .ok (ascii "@@ -1 +0,0 @@\n-b\n@@ -2,0 +2,2 @@\n+a\n+a\n") := by rfl

end SimilarVerif.Headline

import SimilarVerif.Props.C03
import SimilarVerif.Lemmas.HeadlineGlue
/-! # C03 — headline -/
namespace SimilarVerif.Headline
open SimilarVerif Spec

/-- **C03 — Myers and LCS report a shortest edit script; ratio = 2*LCS/(N+M).**

"Without a deadline [`w.clock = none`], the Myers and LCS algorithms [`alg ≠ .patience`] delete and insert the
minimum possible number of items [`∀ ops', Walk … ops' … → cost ops ≤ cost ops'`]: deleted+inserted equals
N+M-2*L where L is the length of a longest common subsequence of the two ranges [`L = lcsLen (eqB E) N M os ns`,
the textbook recursion of Spec/Lcs.lean; `C03.equal_items_le_lcs`: the equal items of ANY valid script number at
most `L`],
(a) both in the raw callback stream [`rawTrace`: the call returns, the stream is a valid script]
(b) and after the capture pipeline's clean-up [`captureDiff`, both settings of `repair`: it returns a valid
    script].
(c) Consequently the total length of Equal ops is L [`nEq ops = L`, and `sumEqual ops = L`, the sum the Rust
    computes]
(d) and the similarity ratio equals 2*L/(N+M) [exact pair `ratioPair = (2·L, N+M)`; the `f32` returned is
    `F32.ratio L (N+M)`, the correctly rounded `2.0 * L as f32 / (N+M) as f32`, `1.0` for `N+M = 0`]."

Hypotheses: ranges not reversed and in bounds (`InBounds`).
Not covered by this theorem: nothing of the property text. -/
theorem C03_statement (alg : Alg) (halg : alg ≠ .patience) (E : Env) (repair : Bool) (os oe ns ne : Nat)
    (w : World) (ho : os ≤ oe) (hn : ns ≤ ne) (hb : InBounds E os oe ns ne) (hclk : w.clock = none) :
    -- (a)
    (∃ r w1 raw, rawTrace alg E os oe ns ne w = .ok (r, w1) ∧ r.trace = raw.map Call.op ++ [.finish] ∧
      Walk (eqB E) os ns raw oe ne ∧
      Spec.cost raw = (oe - os) + (ne - ns) - 2 * lcsLen (eqB E) (oe - os) (ne - ns) os ns ∧
      (∀ ops', Walk (eqB E) os ns ops' oe ne → Spec.cost raw ≤ Spec.cost ops')) ∧
    -- (b)
    (∃ ops w', captureDiff alg E repair os oe ns ne w = .ok (ops, w') ∧
      Walk (eqB E) os ns ops oe ne ∧
      Spec.cost ops = (oe - os) + (ne - ns) - 2 * lcsLen (eqB E) (oe - os) (ne - ns) os ns ∧
      (∀ ops', Walk (eqB E) os ns ops' oe ne → Spec.cost ops ≤ Spec.cost ops') ∧
      -- (c)
      nEq ops = lcsLen (eqB E) (oe - os) (ne - ns) os ns ∧
      sumEqual ops = lcsLen (eqB E) (oe - os) (ne - ns) os ns ∧
      -- (d)
      ratioPair ops (oe - os) (ne - ns) = (2 * lcsLen (eqB E) (oe - os) (ne - ns) os ns, (oe - os) + (ne - ns)) ∧
      ratioBits ops (oe - os) (ne - ns) =
        F32.ratio (lcsLen (eqB E) (oe - os) (ne - ns) os ns) ((oe - os) + (ne - ns))) := by
  cases alg with
  | patience => exact absurd rfl halg
  | myers =>
    refine ⟨?_, ?_⟩
    · obtain ⟨r, w1, hm⟩ := MyersT.myersDiff_total E os oe ns ne w ho hn hb
      obtain ⟨raw, ht, hw, -, hcost, hmin⟩ := MyersT.myers_optimal E os oe ns ne w r w1 ho hn hb hclk hm
      exact ⟨r, w1, raw, by simpa [rawTrace, diffWith] using hm, ht, hw, by omega, hmin⟩
    · obtain ⟨ops, w', hc, hw, hcost, hL, hrp, hmin, -⟩ :=
        CaptureMin.capture_myers_minimal E repair os oe ns ne w ho hn hb hclk
      exact ⟨ops, w', hc, hw, hcost, hmin, hL, by rw [CaptureMin.sumEqual_eq_nEq, hL], hrp,
        by rw [ratioBits_eq, hL]⟩
  | lcs =>
    refine ⟨?_, ?_⟩
    · obtain ⟨raw, w1, h, hw, -, -, hcost, hcost2⟩ := LcsMin.lcs_minimal E os oe ns ne w ho hn hb hclk
      refine ⟨_, w1, raw, by simpa [rawTrace, diffWith] using h, rfl, hw, hcost, ?_⟩
      intro ops' hw'
      have := LcsMin.walk_cost_lower hw'
      omega
    · obtain ⟨ops, w', hc, hw, hcost, hL, hrp, hmin, -⟩ :=
        CaptureMin.capture_lcs_minimal_total E repair os oe ns ne w ho hn hb hclk
      exact ⟨ops, w', hc, hw, hcost, hmin, hL, by rw [CaptureMin.sumEqual_eq_nEq, hL], hrp,
        by rw [ratioBits_eq, hL]⟩

#print axioms C03_statement

/-- non-vacuity: the hypotheses hold for `[1,0]` vs `[1,2,0,1]` (whole ranges, no deadline) … -/
example : (0 ≤ 2) ∧ (0 ≤ 4) ∧ InBounds (Env.ofSeqs #[1,0] #[1,2,0,1]) 0 2 0 4 ∧ ({} : World).clock = none :=
  ⟨by decide, by decide,
    (RangesInBounds.of_eqPattern (by decide) (by decide)
      (IdentP.eqPattern_ofSeqs #[1,0] #[1,2,0,1] 0 0 0 2 0 4 (by decide) (by decide) (by decide) (by decide))).cross,
    rfl⟩

/-- … `L = 2`, and both algorithms report cost `2 = 2 + 4 - 2·2` -/
example : lcsLen (eqB (Env.ofSeqs #[1,0] #[1,2,0,1])) 2 4 0 0 = 2 := by simp [lcsLen]; decide
example : (captureDiff .myers (Env.ofSeqs #[1,0] #[1,2,0,1]) false 0 2 0 4 {}).map (fun x => Spec.cost x.1) = .ok 2 := by rfl
example : (captureDiff .lcs (Env.ofSeqs #[1,0] #[1,2,0,1]) false 0 2 0 4 {}).map (fun x => Spec.cost x.1) = .ok 2 := by rfl

end SimilarVerif.Headline

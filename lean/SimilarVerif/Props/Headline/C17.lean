import SimilarVerif.Props.C17
/-! # C17 — headline -/
namespace SimilarVerif.Headline
open SimilarVerif Spec RemapP TextP TokP HelpersP

/-- **C17 — Remapped slices are the original substrings and reconstruct both texts.**

Vocabulary: `bo bn` the two original texts (bytes), `ro rn` the token byte ranges a tokenizer returned for them,
`tokens b r` the token array, `lens b r` the token byte lengths (what `SliceRemapper::new` sees);
`remapOps oldIdx newIdx ops` = `TextDiffRemapper::iter_slices` over all ops, returning `(tag, fromNew, start, end)`
byte ranges into the old / new text; `toBytes lo ln (t, side, s, e) = (t, side, byteRange … s e)` with `byteRange l s e`
the bytes from the start of token `s` to the end of token `e-1`; `sliceText bo bn x` the bytes of that range.

"For every text diff [every algorithm, clock, both settings of `repair`; it returns a valid script over the tokens]
and the original strings it was built from,
(a) remapping an op yields the same tags as slice-wise expansion [remapping returns — no `expect` / underflow panic
    — exactly `iter_slices` of every op with each token range turned into a byte range: same tags, same sides,
    one slice per op, two for Replace],
(b) and each returned slice is the substring of the original text covering exactly the op's tokens (equal to their
    concatenation) [`byteRange`; `slice b (byteRange l s (s+k))` is the concatenation of the tokens `s … s+k-1`].
(c) Concatenating the non-Insert slices over all ops gives the old text and the non-Delete slices the new text;
(d) the one-call helpers for chars, words, unicode words, graphemes [`utilsDiffRemap`: tokenize, text diff, remap
    every op], lines [`utilsDiffLines`: tokenize, text diff, `iter_all_changes` values] and slices satisfy the same
    reconstruction, never return an empty slice and never panic [they return `.ok`], for every algorithm [and every
    clock]; their tags are those of slice-wise resp. item-wise expansion of the text diff's ops."

Hypothesis: the token ranges tile the texts with non-empty tokens (`Tiling`, the contract of the tokenizer; C06
proves it for the model's tokenizers `tokenize*`).
(e) "and slices" [`utilsDiffSlices` = `similar::utils::diff_slices`: `capture_diff_slices` then `iter_slices` of every op,
    on ANY two item sequences seen through an in-bounds `Env`: it returns, no slice is empty, the slices expand to
    exactly the items of the captured ops (`C13.sliceItems`), whose old / new indices are `0 … n-1` / `0 … m-1` in
    order — the non-Insert slices cut the old slice, the non-Delete slices the new one, into consecutive pieces].
Not covered by this theorem: the external segmenters (unicode words, graphemes) enter only through the `Tiling`
hypothesis. -/
theorem C17_statement (alg : Alg) (bo bn : Bytes) (ro rn : List (Nat × Nat)) (w : World)
    (hto : Tiling ro bo.length) (htn : Tiling rn bn.length) :
    -- the text diff, then (a), (b), (c)
    (∀ repair : Bool, ∃ ops w',
      textDiffOps alg repair (tokens bo ro) (tokens bn rn) w = .ok (ops, w') ∧
      Walk (eqB (Env.ofTokens (tokens bo ro) (tokens bn rn))) 0 0 ops ro.length rn.length ∧
      -- (a)
      remapOps (remapIndexes 0 (lens bo ro)).toArray (remapIndexes 0 (lens bn rn)).toArray ops =
        .ok ((ops.flatMap iterSlices).map (toBytes (lens bo ro) (lens bn rn))) ∧
      -- (c)
      (((ops.flatMap iterSlices).map (toBytes (lens bo ro) (lens bn rn))).filter (·.1 != .insert)
        |>.map (sliceText bo bn)).flatten = bo ∧
      (((ops.flatMap iterSlices).map (toBytes (lens bo ro) (lens bn rn))).filter (·.1 != .delete)
        |>.map (sliceText bo bn)).flatten = bn) ∧
    -- (b)
    (∀ (b : Bytes) (l : List Nat) (s k : Nat),
      slice b (byteRange l s (s + k)) =
        ((List.range k).map fun t => slice b (byteRange l (s + t) (s + t + 1))).flatten) ∧
    -- (d) chars / words / unicode words / graphemes
    (∃ ops w' res, textDiffOps alg false (tokens bo ro) (tokens bn rn) w = .ok (ops, w') ∧
      utilsDiffRemap alg bo bn ro rn w = .ok res ∧
      res = ((ops.flatMap iterSlices).map (toBytes (lens bo ro) (lens bn rn))).map (outSlice bo bn) ∧
      (∀ x ∈ res, x.2 ≠ []) ∧
      ((res.filter (·.1 != .insert)).map (·.2)).flatten = bo ∧
      ((res.filter (·.1 != .delete)).map (·.2)).flatten = bn ∧
      res.map (·.1) = (ops.flatMap iterSlices).map (·.1)) ∧
    -- (d) lines
    (∃ ops w' res, textDiffOps alg false (tokens bo ro) (tokens bn rn) w = .ok (ops, w') ∧
      utilsDiffLines alg bo bn ro rn w = .ok res ∧
      (∀ x ∈ res, x.2 ≠ []) ∧
      ((res.filter (·.1 != .insert)).map (·.2)).flatten = bo ∧
      ((res.filter (·.1 != .delete)).map (·.2)).flatten = bn ∧
      res.map (·.1) = (allChanges ops).map (·.tag)) ∧
    -- (e) slices
    (∀ (E : Env) (n m : Nat), RangesInBounds E 0 n 0 m →
      ∃ ops w', captureDiff alg E false 0 n 0 m w = .ok (ops, w') ∧ Walk (eqB E) 0 0 ops n m ∧
        utilsDiffSlices alg E n m w = .ok (ops.flatMap iterSlices) ∧
        (∀ s ∈ ops.flatMap iterSlices, s.2.2.1 < s.2.2.2) ∧
        (ops.flatMap iterSlices).flatMap C13.sliceItems = (allChanges ops).map (fun c => (c.tag, c.fromNew, c.idx)) ∧
        (allChanges ops).filterMap (·.oldIndex) = List.range n ∧
        (allChanges ops).filterMap (·.newIndex) = List.range m) := by
  have hlo : (lens bo ro).length = ro.length := by simp [lens]
  have hln : (lens bn rn).length = rn.length := by simp [lens]
  refine ⟨?_, slice_tokens, ?_, ?_, fun E n m hr => SliceHelper.utilsDiffSlices_total alg E n m w hr⟩
  · intro repair
    obtain ⟨ops, w', h, hw⟩ := textDiffOps_total alg repair (tokens bo ro) (tokens bn rn) w
    have hw1 : Walk (eqB (Env.ofTokens (tokens bo ro) (tokens bn rn))) 0 0 ops ro.length rn.length := by
      simpa [tokens] using hw
    have hw' : Walk (eqB (Env.ofTokens (tokens bo ro) (tokens bn rn))) 0 0 ops (lens bo ro).length (lens bn rn).length := by
      rw [hlo, hln]; exact hw1
    have he := remapOps_eq (lens bo ro) (lens bn rn) ops hw'
    obtain ⟨sl, h1, h2⟩ := remapOps_old_text (lens bo ro) (lens bn rn) bo bn ops (lens_pos hto) (lens_sum hto).symm hw'
    obtain ⟨sl', h3, h4⟩ := remapOps_new_text (lens bo ro) (lens bn rn) bo bn ops (lens_sum htn).symm
      (tokEq_ofTokens hto htn) hw'
    rw [he] at h1 h3
    cases h1; cases h3
    exact ⟨ops, w', h, hw1, he, h2, h4⟩
  · obtain ⟨ops, w', res, h, hw, hr, h1, h2, h3, h4⟩ := utilsDiffRemap_spec alg bo bn ro rn w hto htn
    have hw2 : Walk (eqB (Env.ofTokens (tokens bo ro) (tokens bn rn))) 0 0 ops (tokens bo ro).size (tokens bn rn).size := by
      simpa [tokens] using hw
    have he := utilsDiffRemap_eq alg bo bn ro rn w ops w' h hw2
    rw [hr] at he
    exact ⟨ops, w', res, h, hr, Except.ok.inj he, h1, h2, h3, h4⟩
  · obtain ⟨ops, w', res, h, -, hr, h1, h2, h3, h4⟩ := utilsDiffLines_spec alg bo bn ro rn w hto htn
    exact ⟨ops, w', res, h, hr, h1, h2, h3, h4⟩

#print axioms C17_statement

/-- non-vacuity: `"ab c"` as tokens `ab`, ` `, `c` and `"ab d"` as `ab`, ` `, `d` are tilings … -/
example : Tiling [(0, 2), (2, 3), (3, 4)] [97, 98, 32, 99].length ∧
    Tiling [(0, 2), (2, 3), (3, 4)] [97, 98, 32, 100].length := by
  simp [Tiling, TilingFrom]

/-- … and the helpers return what the theorem says (all three algorithms) -/
example : ∀ alg : Alg, utilsDiffRemap alg [97, 98, 32, 99] [97, 98, 32, 100] [(0, 2), (2, 3), (3, 4)] [(0, 2), (2, 3), (3, 4)] {} =
    .ok [(.equal, [97, 98, 32]), (.delete, [99]), (.insert, [100])] := by
  intro alg; cases alg <;> rfl
example : ∀ alg : Alg, utilsDiffLines alg [97, 98, 32, 99] [97, 98, 32, 100] [(0, 2), (2, 3), (3, 4)] [(0, 2), (2, 3), (3, 4)] {} =
    .ok [(.equal, [97, 98]), (.equal, [32]), (.delete, [99]), (.insert, [100])] := by
  intro alg; cases alg <;> rfl

example : ∀ alg : Alg, utilsDiffSlices alg (Env.ofSeqs #[0, 1, 2, 3] #[0, 1, 4, 3]) 4 4 {} =
    .ok [(.equal, false, 0, 2), (.delete, false, 2, 3), (.insert, true, 2, 3), (.equal, false, 3, 4)] := by
  intro alg; cases alg <;> rfl

end SimilarVerif.Headline

import SimilarVerif.Props.C13
/-! # C13 — headline -/
namespace SimilarVerif.Headline
open SimilarVerif Spec

/-- **C13 — Expanding ops into changes and slices is faithful.**

`opChanges x` is `ChangesIter` of `src/iter.rs` for the op `x`, drained; `allChanges ops` is `AllChangesIter`
drained; `iterSlices x` is `DiffOp::iter_slices`.  A `Change` is `⟨tag, old_index, new_index, fromNew, idx⟩`: its
value is the item at index `idx` of the new (`fromNew = true`) or old sequence — the lookups themselves are
`old[idx]` / `new[idx]` of the caller's sequences, so "the value found at that index in the proper sequence" is the
statement that `(fromNew, idx)` is (old, reported old index) resp. (new, reported new index).

"For every op and the sequences it refers to, item-wise expansion yields one change per consumed item -
(a) Equal: len changes with both indices,
(b) Delete: old_len with only the old index,
(c) Insert: new_len with only the new index,
(d) Replace: all its deletes followed by all its inserts -
    each carrying the value found at that index in the proper sequence [Equal and Delete: `old[old_index]`, Insert:
    `new[new_index]`], with indices increasing by one [the `t`-th change has index `start + t`].
(e) Slice-wise expansion yields the same items as one slice (two for Replace) [`C13.sliceItems`: the items
    `(tag, side, start + t)` of a slice `(tag, side, start, end)`],
(f) whole-diff iteration equals the concatenation of per-op expansions,
(g) and re-applying an op to a capturing hook reproduces the op."

No hypotheses: every op, any offsets and lengths (empty ops included), every op list, every world.
Not covered by this theorem: nothing of the property text. -/
theorem C13_statement :
    -- (a)
    (∀ o n len, opChanges (.equal o n len) =
      (List.range len).map fun t => (⟨.equal, some (o + t), some (n + t), false, o + t⟩ : Change)) ∧
    -- (b)
    (∀ o len n, opChanges (.delete o len n) =
      (List.range len).map fun t => (⟨.delete, some (o + t), none, false, o + t⟩ : Change)) ∧
    -- (c)
    (∀ o n len, opChanges (.insert o n len) =
      (List.range len).map fun t => (⟨.insert, none, some (n + t), true, n + t⟩ : Change)) ∧
    -- (d)
    (∀ o ol n nl, opChanges (.replace o ol n nl) =
      ((List.range ol).map fun t => (⟨.delete, some (o + t), none, false, o + t⟩ : Change)) ++
      ((List.range nl).map fun t => (⟨.insert, none, some (n + t), true, n + t⟩ : Change))) ∧
    -- (e)
    (∀ x : Op, (iterSlices x).flatMap C13.sliceItems = (opChanges x).map (fun c => (c.tag, c.fromNew, c.idx)) ∧
      (iterSlices x).length = if x.tag = .replace then 2 else 1) ∧
    -- (f)
    (∀ ops : List Op, allChanges ops = ops.flatMap opChanges) ∧
    -- (g)
    (∀ (x : Op) (w : World), recHook.call (.op x) {} w = .ok ({ trace := [.op x] }, w)) :=
  ⟨fun o n len => C13.opChanges_eq_spec (.equal o n len),
   fun o len n => C13.opChanges_eq_spec (.delete o len n),
   fun o n len => C13.opChanges_eq_spec (.insert o n len),
   fun o ol n nl => C13.opChanges_eq_spec (.replace o ol n nl),
   fun x => ⟨C13.iterSlices_items x, C13.iterSlices_count x⟩,
   C13.allChanges_eq_flatMap,
   C13.applyToHook_capture⟩

#print axioms C13_statement

/-- non-vacuity: a concrete Replace op expands to its two deletes followed by its insert, in two slices -/
example : opChanges (.replace 2 2 3 1) =
    [⟨.delete, some 2, none, false, 2⟩, ⟨.delete, some 3, none, false, 3⟩, ⟨.insert, none, some 3, true, 3⟩] := by
  decide
example : iterSlices (.replace 2 2 3 1) = [(.delete, false, 2, 4), (.insert, true, 3, 4)] := by decide
example : allChanges [.equal 0 0 1, .replace 1 1 1 1] =
    [⟨.equal, some 0, some 0, false, 0⟩, ⟨.delete, some 1, none, false, 1⟩, ⟨.insert, none, some 1, true, 1⟩] := by
  decide

end SimilarVerif.Headline

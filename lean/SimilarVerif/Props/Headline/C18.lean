import SimilarVerif.Props.C18
/-! # C18 — headline -/
namespace SimilarVerif.Headline
open SimilarVerif Spec CloseP

/-- **C18 — get_close_matches equals exhaustive ranking by similarity ratio.**

Model: `getCloseMatches tok word cands n cutoff` with `tok` the tokenizer (`tokenize_chars` of the text type in the
crate; the theorem holds for every `tok`), `f32` values as IEEE-754 binary32 BIT PATTERNS computed by the soft-float
model `F32` (correctly rounded, nearest-even; `F32.lt`, `F32.ge` the IEEE comparisons on arbitrary patterns), `cutoff`
ANY bit pattern (negative, zero, subnormal, infinite, NaN).

"For every word, candidate list, n and cutoff,
(a) the result is exactly the first n entries of the list of all candidates whose character-level similarity ratio to
    the word is at least the cutoff [the call returns `full.take n`, `full` a permutation of
    `cands.filter (ratio ≥ cutoff)` — a specification that mentions no pre-filter —],
(b) ordered by decreasing ratio and, among equal ratios, lexicographically [`full` is sorted by `lexDesc F32.lt bytesLt
    ratio id`: `a` before `b` iff `ratio b < ratio a` (IEEE), or the ratios are equal and `a < b` in `bytesLt`, which is
    the lexicographic order on byte strings; this is a strict total order, so `full` is THE sorted arrangement].
(c) [what the ratio is] every candidate's ratio is the `f32` `2.0 * matches / (|word| + |p|)` of the Myers diff of the
    two token lists, which always returns a valid script; `qualifies` is `ratio >= cutoff`.
(d) In particular the cheap pre-filters never discard a candidate that meets the cutoff [a candidate passes the three
    tests of the implementation iff it qualifies; for a qualifying candidate neither `upper_seq_ratio < cutoff` nor
    `quick_ratio < cutoff` fires]."

No hypotheses.
Not covered by this theorem: that the hardware `f32` operations of the compiled crate agree with the soft-float model
`F32` (IEEE-754 binary32, round-to-nearest-even) — trusted, cross-checked bit for bit by `test-f32/`, by every
correspondence run and by the driver (`SOFTFLOAT-MISMATCH`); the heap key is `ratio.to_bits()` (the shipped code after
the `fix:` commit; the earlier key was not injective, DESIGN.md §6 D9). -/
theorem C18_statement (tok : Bytes → List Bytes) (word : Bytes) (cands : List Bytes) (n cutoff : Nat) :
    -- (a), (b)
    (∃ full : List Bytes, getCloseMatches tok word cands n cutoff = .ok (full.take n) ∧
      full.Perm (cands.filter (qualifies tok word cutoff)) ∧
      SortedBy (lexDesc F32.lt bytesLt (ratioOf tok word) id) full ∧
      (∀ l, l.Perm (cands.filter (qualifies tok word cutoff)) →
        SortedBy (lexDesc F32.lt bytesLt (ratioOf tok word) id) l → l = full)) ∧
    -- (b) the order
    (StrictTotal (lexDesc F32.lt bytesLt (ratioOf tok word) id) ∧
      (∀ a b : Bytes, lexDesc F32.lt bytesLt (ratioOf tok word) id a b =
        (F32.lt (ratioOf tok word b) (ratioOf tok word a) ||
          (decide (ratioOf tok word a = ratioOf tok word b) && bytesLt a b))) ∧
      (∀ a b : Bytes, bytesLt a b = true ↔
        (∃ c d, b = a ++ c :: d) ∨ (∃ p x y s t, a = p ++ x :: s ∧ b = p ++ y :: t ∧ x < y))) ∧
    -- (c)
    (∀ p : Bytes, ∃ r ops w', diffRatio (tok word) (tok p) = .ok r ∧
      ratioOf tok word p = r ∧ qualifies tok word cutoff p = F32.ge r cutoff ∧
      textDiffOps .myers false (tok word).toArray (tok p).toArray {} = .ok (ops, w') ∧
      Walk (tokEq (tok word) (tok p)) 0 0 ops (tok word).length (tok p).length ∧
      r = F32.ratio (nEq ops) ((tok word).length + (tok p).length)) ∧
    -- (d)
    (passes tok word cutoff = qualifies tok word cutoff ∧
      ∀ p : Bytes, qualifies tok word cutoff p = true →
        F32.lt (upperSeqRatio (tok word).length (tok p).length) cutoff = false ∧
        F32.lt (quickRatio (tok word) (tok p)) cutoff = false) := by
  have hc : ∀ p : Bytes, ∃ r ops w', diffRatio (tok word) (tok p) = .ok r ∧
      ratioOf tok word p = r ∧ qualifies tok word cutoff p = F32.ge r cutoff ∧
      textDiffOps .myers false (tok word).toArray (tok p).toArray {} = .ok (ops, w') ∧
      Walk (tokEq (tok word) (tok p)) 0 0 ops (tok word).length (tok p).length ∧
      r = F32.ratio (nEq ops) ((tok word).length + (tok p).length) := by
    intro p
    obtain ⟨r, hr⟩ := C18.diff_ratio_total (tok word) (tok p)
    obtain ⟨ops, w', h1, h2, h3⟩ := diffRatio_eq hr
    exact ⟨r, ops, w', hr, by simp [ratioOf, hr], by simp [qualifies, hr], h1, h2, h3⟩
  obtain ⟨hst, full, h1, h2, h3, h4⟩ := exhaustiveRanking_spec tok word cands n cutoff
  refine ⟨⟨full, ?_, h2, h3, h4⟩, ⟨hst, fun _ _ => rfl, bytesLt_iff_lex⟩, hc, passes_eq_qualifies tok word cutoff, ?_⟩
  · rw [C18.get_close_matches_is_exhaustive_ranking, h1]
  · intro p hq
    obtain ⟨r, ops, w', hr, -, hq', -, hw, rfl⟩ := hc p
    rw [hq'] at hq
    exact CloseP.filters_never_discard_f32 hw cutoff hq

#print axioms C18_statement

/-- non-vacuity: word "ab"; candidates "ac", "ab", "xy"; cutoff 0.5; one token per byte: the ranking is "ab", "ac" -/
example : getCloseMatches byteTok [97, 98] [[97, 99], [97, 98], [120, 121]] 5 F32.half = .ok [[97, 98], [97, 99]] := by
  rw [C18.get_close_matches_is_exhaustive_ranking]
  exact congrArg Except.ok (by decide +kernel)

example : ratioOf byteTok [97, 98] [97, 99] = F32.half ∧ ratioOf byteTok [97, 98] [97, 98] = F32.one ∧
    ratioOf byteTok [97, 98] [120, 121] = 0 := by decide +kernel

end SimilarVerif.Headline

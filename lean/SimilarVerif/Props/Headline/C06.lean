import SimilarVerif.Props.C06
/-! # C06 — headline -/
namespace SimilarVerif.Headline
open SimilarVerif TokP

/-- **C06 — Tokenizers are lossless partitions with the documented token shape.**

Vocabulary: a byte string is `b : Bytes`, a string is `s : List Char` (its scalar values; its bytes are
`utf8EncAll s`).  Every tokenizer returns the byte ranges `(start, end)` of its tokens; `slice b r` is the token.
`…B` are the `[u8]` implementations (lossy decoding step by step, any bytes), `…S` the `str` implementations.
`charIndicesB` / `charIndicesS` are `char_indices` as `(start, end, char)` resp. `(start, char)`.

"(a) For every string and byte string, each tokenizer returns non-empty tokens whose concatenation is the input, byte
    for byte [lines, words, chars, lines-and-newlines, `str` and `[u8]`: eight tokenizers; (a') unicode words and
    graphemes slice the input at the piece lengths an EXTERNAL segmenter reports: lossless under that segmenter's
    contract `Partition` (non-empty pieces covering the input) — hypothesis visible].
(b) Line tokens contain no line break except one terminator (LF, CRLF or lone CR) at their end and only the last may
    lack it [`LineTok tok next`: `tok = body ++ term`, `body` free of `\n`/`\r`, `term` is `\n`, `\r\n`, a lone `\r`
    only if the next token does not start with `\n`, or empty only if there is no next token];
(c) word tokens are maximal runs of all-whitespace or all-non-whitespace characters [`MaxRuns isWhitespace gs`: the
    `char_indices` list is cut into non-empty groups of constant class, adjacent groups of different class; the tokens
    are the spans of the groups];
(d) char tokens are single scalar values [`str`: the tokens are the UTF-8 encodings of the scalar values, one each;
    `[u8]`: each token is exactly one lossy decoding step, non-empty, inside the input];
(e) lines-and-newlines tokens alternate maximal newline and non-newline runs [`MaxRuns isNewline`].
(f) On valid UTF-8 the str and byte implementations of the line, word, char and lines-and-newlines tokenizers return
    identical tokens."

No hypotheses except `Partition` in (a').
Not covered by this theorem: the segmentation rules of the external Unicode word / grapheme segmenters themselves
(`unicode-segmentation`; their contract `Partition` is checked on every harness case). -/
theorem C06_statement :
    -- (a) bytes
    (∀ b : Bytes, ∀ rs ∈ [tokenizeLinesB b, tokenizeWordsB b, tokenizeCharsB b, tokenizeLinesAndNewlinesB b],
      (rs.map (slice b)).flatten = b ∧ ∀ r ∈ rs, slice b r ≠ []) ∧
    -- (a) str
    (∀ s : List Char, ∀ rs ∈ [tokenizeLinesS s, tokenizeWordsS s, tokenizeCharsS s, tokenizeLinesAndNewlinesS s],
      (rs.map (slice (utf8EncAll s))).flatten = utf8EncAll s ∧ ∀ r ∈ rs, slice (utf8EncAll s) r ≠ []) ∧
    -- (a') unicode words, graphemes
    (∀ (lens : List Nat) (b : Bytes), Partition lens b.length →
      ((rangesOfLens 0 lens).map (slice b)).flatten = b ∧ ∀ r ∈ rangesOfLens 0 lens, slice b r ≠ []) ∧
    -- (b)
    (∀ (b : Bytes) (i : Nat) (h : i < ((tokenizeLinesB b).map (slice b)).length),
      LineTok ((tokenizeLinesB b).map (slice b))[i] ((tokenizeLinesB b).map (slice b))[i + 1]?) ∧
    (∀ (s : List Char) (i : Nat) (h : i < ((tokenizeLinesS s).map (slice (utf8EncAll s))).length),
      LineTok ((tokenizeLinesS s).map (slice (utf8EncAll s)))[i]
        ((tokenizeLinesS s).map (slice (utf8EncAll s)))[i + 1]?) ∧
    -- (c)
    (∀ b : Bytes, ∃ gs, gs.flatten = charIndicesB b.length 0 b ∧ MaxRuns isWhitespace gs ∧
      tokenizeWordsB b = gs.map spanOf) ∧
    (∀ s : List Char, ∃ gs, gs.flatten = (charIndicesS 0 s).map triS ∧ MaxRuns isWhitespace gs ∧
      tokenizeWordsS s = gs.map spanOf) ∧
    -- (d)
    (∀ s : List Char, (tokenizeCharsS s).map (slice (utf8EncAll s)) = s.map utf8Enc) ∧
    (∀ b : Bytes, ∀ r ∈ tokenizeCharsB b, r.1 < r.2 ∧ r.2 ≤ b.length ∧ (decodeOne (b.drop r.1)).2 = r.2 - r.1) ∧
    -- (e)
    (∀ b : Bytes, ∃ gs, gs.flatten = charIndicesB b.length 0 b ∧ MaxRuns isNewline gs ∧
      tokenizeLinesAndNewlinesB b = gs.map spanOf) ∧
    (∀ s : List Char, ∃ gs, gs.flatten = (charIndicesS 0 s).map triS ∧ MaxRuns isNewline gs ∧
      tokenizeLinesAndNewlinesS s = gs.map spanOf) ∧
    -- (f)
    (∀ s : List Char,
      tokenizeLinesB (utf8EncAll s) = tokenizeLinesS s ∧ tokenizeWordsB (utf8EncAll s) = tokenizeWordsS s ∧
      tokenizeCharsB (utf8EncAll s) = tokenizeCharsS s ∧
      tokenizeLinesAndNewlinesB (utf8EncAll s) = tokenizeLinesAndNewlinesS s) :=
  ⟨C06.bytes_lossless, C06.str_lossless, fun _ _ h => C06.unicode_lossless h,
   C06.lines_shape_bytes, C06.lines_shape_str, C06.words_shape_bytes, C06.words_shape_str,
   C06.chars_shape_str, C06.chars_shape_bytes, C06.lnl_shape_bytes, C06.lnl_shape_str, C06.str_eq_bytes⟩

#print axioms C06_statement

/-- non-vacuity: mixed terminators and an invalid byte -/
example : (tokenizeLinesB [0x61, 0x0a, 0x62, 0x0d, 0x0a, 0x63, 0x0d, 0x64, 0xff]).map
    (slice [0x61, 0x0a, 0x62, 0x0d, 0x0a, 0x63, 0x0d, 0x64, 0xff]) =
    [[0x61, 0x0a], [0x62, 0x0d, 0x0a], [0x63, 0x0d], [0x64, 0xff]] := by decide
example : (tokenizeWordsS ['a', ' ', ' ', 'b']).map (slice (utf8EncAll ['a', ' ', ' ', 'b'])) =
    [[97], [32, 32], [98]] := by decide
example : Partition [2, 1] ([1, 2, 3] : Bytes).length := by simp [Partition]

end SimilarVerif.Headline

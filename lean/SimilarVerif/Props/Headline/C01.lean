import SimilarVerif.Props.C01
import SimilarVerif.Lemmas.HeadlineGlue
/-! # C01 — headline -/
namespace SimilarVerif.Headline
open SimilarVerif Spec

/-- **C01 — Every algorithm emits a sound, gap-free, index-exact edit script.**

"For every algorithm (Myers, Patience, LCS), every pair of indexable sequences and every pair of in-bounds index
ranges [`RangesInBounds`; the deadline clock `w` is arbitrary too],
(a) the equal/delete/insert/replace callbacks delivered to a diff hook arrive in order, the items each one
    consumes start exactly where the previous one stopped [`Walk`: every op's primary index is the current
    position], together they cover both requested ranges with nothing missing, repeated or empty [`Walk` from
    `(os,ns)` to `(oe,ne)` with all lengths positive; as counts: deleted+equal = N, inserted+equal = M],
    and every segment reported equal is element-wise equal [`Walk`, the `equal` case]; the stream is these ops
    followed by exactly one `finish`.
(b) All reported indices are absolute positions in the caller's sequences - the new-side position carried by a
    deletion and the old-side position carried by an insertion lie within the run of changes they belong to, and
    are exactly the current position when the deletion or insertion stands alone [`Carried`] -
(c) so diffing a sub-range equals diffing the extracted slices shifted by the range starts [the run on
    `E.shift os ns` (what the extracted slices answer) over `0..N`, `0..M`, every index moved by `os`/`ns`;
    same final world, same abort]
(d) and replaying the callbacks on the old range reproduces the new range [`produced`: the `k`-th item is
    `new[ns+k]` itself or an old item equal to it, `M` items in all].
(e) No input makes the call panic [the call returns `.ok`: neither `panic` nor fuel exhaustion]."

Hypothesis: `RangesInBounds` (ranges not reversed, all element tests on them defined); Myers and LCS need only its
first three fields (C01.myers_total_valid, C01.lcs_total_valid).
Not covered by this theorem: nothing of the property text.  (Out-of-bounds / reversed ranges are outside the
property; "indexable sequences" are seen through `Env`, i.e. through the answers of `==`.) -/
theorem C01_statement (alg : Alg) (E : Env) (os oe ns ne : Nat) (w : World)
    (hr : RangesInBounds E os oe ns ne) :
    -- (e) the call returns …
    (∃ r w' ops, rawTrace alg E os oe ns ne w = .ok (r, w') ∧
      r.trace = ops.map Call.op ++ [.finish] ∧
      -- (a)
      Walk (eqB E) os ns ops oe ne ∧
      (oe = os + nDel ops + nEq ops ∧ ne = ns + nIns ops + nEq ops) ∧
      -- (b)
      Carried os ns ops ∧
      -- (d)
      ((produced ops).length = ne - ns ∧
        ∀ k item, (produced ops)[k]? = some item →
          (item.1 = true → item.2 = ns + k) ∧ (item.1 = false → eqB E item.2 (ns + k) = true))) ∧
    -- (c)
    rawTrace alg E os oe ns ne w =
      (rawTrace alg (E.shift os ns) 0 (oe - os) 0 (ne - ns) w).map
        (fun (r, w') => ({ r with trace := r.trace.map (ShiftP.shiftCall os ns) }, w')) := by
  obtain ⟨r, w', h, ops, ht, hw, hc⟩ := rawTrace_total_valid alg E os oe ns ne w hr
  exact ⟨⟨r, w', ops, h, ht, hw, walk_counts ops os ns oe ne hw, hc, walk_replay ops os ns oe ne hw⟩,
    ShiftP.rawTrace_shift alg E os oe ns ne w hr.old_le hr.new_le⟩

#print axioms C01_statement

/-- non-vacuity: the hypothesis holds for `[1,0]` vs `[1,2,0,1]`, whole ranges … -/
example : RangesInBounds (Env.ofSeqs #[1,0] #[1,2,0,1]) 0 2 0 4 := by
  refine ⟨by decide, by decide, ?_, ?_, ?_⟩
  · intro i j _ hi _ hj
    have : i = 0 ∨ i = 1 := by omega
    have : j = 0 ∨ j = 1 ∨ j = 2 ∨ j = 3 := by omega
    rcases ‹i = 0 ∨ i = 1› with rfl | rfl <;> rcases ‹j = 0 ∨ j = 1 ∨ j = 2 ∨ j = 3› with rfl | rfl | rfl | rfl <;> decide
  · intro i j _ hi _ hj
    have : i = 0 ∨ i = 1 := by omega
    have : j = 0 ∨ j = 1 := by omega
    rcases ‹i = 0 ∨ i = 1› with rfl | rfl <;> rcases ‹j = 0 ∨ j = 1› with rfl | rfl <;> decide
  · intro i j _ hi _ hj
    have : i = 0 ∨ i = 1 ∨ i = 2 ∨ i = 3 := by omega
    have : j = 0 ∨ j = 1 ∨ j = 2 ∨ j = 3 := by omega
    rcases ‹i = 0 ∨ i = 1 ∨ i = 2 ∨ i = 3› with rfl | rfl | rfl | rfl <;>
      rcases ‹j = 0 ∨ j = 1 ∨ j = 2 ∨ j = 3› with rfl | rfl | rfl | rfl <;> decide

/-- … and the three algorithms return the stream shown -/
example : ∀ alg, (rawTrace alg (Env.ofSeqs #[1,0] #[1,2,0,1]) 0 2 0 4 {}).map (·.1.trace) =
    .ok [.op (.equal 0 0 1), .op (.insert 1 1 1), .op (.equal 1 2 1), .op (.insert 2 3 1), .finish] := by
  intro alg; cases alg <;> rfl

end SimilarVerif.Headline

import SimilarVerif.Props.C16
import SimilarVerif.Lemmas.HeadlineGlueC16
/-! # C16 — headline -/
namespace SimilarVerif.Headline
open SimilarVerif Spec InlineP InlineTotal TextP TokP

/-- **C16 — Inline changes re-split each line losslessly; only changed words emphasised.**

Vocabulary: `bo bn` the two texts (bytes), `ro rn` the byte ranges of their lines, `tokens b r` the line array of the
text diff (`old_slices` / `new_slices`); `textDiffOps` = `TextDiffConfig::diff` … `.ops()`.
`inlineChanges lnl repair old new x segO segN w` = `iter_inline_changes(diff, op, deadline)` (src/text/inline.rs)
drained, with `lnl` = `tokenize_lines_and_newlines` of the text type — here the model's `tokenizeLinesAndNewlinesB`
(the `str` implementation is the same function on the UTF-8 encoding: `TokP.tokenizeLinesAndNewlinesB_utf8`) — and
`segO segN` the word-segment lengths of each old / new line of the op, i.e. what `MultiLookup::new` gets from the word
segmenter: here `segsOf sg lines = lines.map sg` for the op's lines `old[x.oStart .. +x.oLen]`, `new[x.nStart .. +x.nLen]`.
An `InlineChange` is `⟨tag, oldIndex, newIndex, values⟩`, `values` the `(emphasized, segment)` pairs;
`segsConcat values` the concatenation of the segments; `missingNewline values` = `InlineChange::missing_newline`.
`inlinePlain old new x` = `diff.iter_changes(op).map(|x| x.into())`, the plain expansion.

"For every op of a line diff [`x ∈ ops`, `ops` what `textDiffOps` RETURNS for the two line arrays: every algorithm
`alg`, every world `w0`, both settings of the model's `repair` switch, `false` = shipped code], the inline expansion
[`inlineChanges … x … w = .ok (cs, w')`: it RETURNS, no panic, for every world `w` — the inline deadline: no clock, an
expired one, any other — whichever of the two `< 0.5` ratio gates fires or not]
(a) yields the same sequence of tags and old/new indices as the plain expansion [`inlinePlain … x = .ok plain`: it
    returns; `plain` is C13's `opChanges x` with, per change, the line `old[idx]` / `new[idx]` (the lookup succeeds)
    as its single unemphasised segment],
(b) and the segments of each inline change concatenate to exactly the line of the corresponding plain change
    [`segsConcat`, position by position].
(c) Emphasised segments [`seg.1 = true`] occur only in Delete/Insert changes that stem from a Replace op
    [`x.tag = .replace`, `c.tag = .delete ∨ c.tag = .insert`],
(d) never contain a line-break character [no byte `\n` = 10 or `\r` = 13],
(e) and the missing-newline flag agrees with the line [`missingNewline c.values` is "the line `segsConcat c.values`
    does not end in `\n` / `\r`"]."
Extra conclusions: (f) no segment is empty; (g) for an Equal / Delete / Insert op the result IS the plain expansion
and the world is untouched (no clock probe).

Hypotheses, all visible in the statement:
* `hto htn` — the line ranges tile the texts with non-empty lines (`Tiling`, the contract of the line tokenizer; C06
  proves it for the model's `tokenizeLinesB`, see the first example).  Non-emptiness is needed: see the last example.
* `hsg` — the word segmenter (`tokenize_unicode_words`, external crate `unicode-segmentation`) is not modelled: it
  is the parameter `sg` (line ↦ lengths of its words) with the contract "a non-empty line is partitioned into
  non-empty words" (`Partition`), checked on every harness case; the crate's own `tokenize_words` (used without the
  `unicode` feature) satisfies it: `segmenter_words`.
The second-level diff (Patience over the words) and the two `f32` ratio gates need no hypothesis: the former returns
a valid script (`C16.second_level_total`), and both outcomes of each gate are covered (`C16.gate_fires_iff` says
when they fire).  No clause of the property text is false of the model; Props/C16.lean records no counterexample.

Not covered by this theorem: nothing of the property text beyond the external word segmenter, which enters only
through the contract `hsg` (that `unicode-segmentation` obeys it is tested by the harness, not proved); WHICH Replace
ops are refined rather than expanded plainly (the gates) is not part of the property text and not stated here. -/
theorem C16_statement (alg : Alg) (repair : Bool) (sg : Bytes → List Nat)
    (hsg : ∀ line : Bytes, line ≠ [] → Partition (sg line) line.length)
    (bo bn : Bytes) (ro rn : List (Nat × Nat))
    (hto : Tiling ro bo.length) (htn : Tiling rn bn.length) (w0 : World) :
    ∃ ops w1, textDiffOps alg repair (tokens bo ro) (tokens bn rn) w0 = .ok (ops, w1) ∧
      ∀ x ∈ ops, ∀ w : World, ∃ cs w' plain,
        inlineChanges tokenizeLinesAndNewlinesB repair (tokens bo ro) (tokens bn rn) x
          (segsOf sg (((tokens bo ro).toList.drop x.oStart).take x.oLen))
          (segsOf sg (((tokens bn rn).toList.drop x.nStart).take x.nLen)) w = .ok (cs, w') ∧
        -- the plain expansion
        inlinePlain (tokens bo ro) (tokens bn rn) x = .ok plain ∧
        plain = (opChanges x).map (plainOf (tokens bo ro) (tokens bn rn)) ∧
        (∀ c ∈ opChanges x, ∃ line,
          (if c.fromNew then (tokens bn rn)[c.idx]? else (tokens bo ro)[c.idx]?) = some line ∧
          plainOf (tokens bo ro) (tokens bn rn) c = ⟨c.tag, c.oldIndex, c.newIndex, [(false, line)]⟩) ∧
        -- (a)
        cs.map (fun c => (c.tag, c.oldIndex, c.newIndex)) = plain.map (fun c => (c.tag, c.oldIndex, c.newIndex)) ∧
        -- (b)
        cs.map (fun c => segsConcat c.values) = plain.map (fun c => segsConcat c.values) ∧
        -- (c)
        (∀ c ∈ cs, ∀ seg ∈ c.values, seg.1 = true → x.tag = .replace ∧ (c.tag = .delete ∨ c.tag = .insert)) ∧
        -- (d)
        (∀ c ∈ cs, ∀ seg ∈ c.values, seg.1 = true → ∀ b ∈ seg.2, b ≠ 10 ∧ b ≠ 13) ∧
        -- (e)
        (∀ c ∈ cs, missingNewline c.values = !endsWithNewline (segsConcat c.values)) ∧
        -- (f)
        (∀ c ∈ cs, ∀ seg ∈ c.values, seg.2 ≠ []) ∧
        -- (g)
        (x.tag ≠ .replace → cs = plain ∧ w' = w) := by
  obtain ⟨ops, w1, h, hw⟩ := HelpersP.textDiffOps_total alg repair (tokens bo ro) (tokens bn rn) w0
  refine ⟨ops, w1, h, fun x hx w => ?_⟩
  refine inline_headline tokenizeLinesAndNewlinesB tokenizeLinesAndNewlinesB_tiling lnlNoNL_B sg hsg repair _ _ ops hw
    ?_ ?_ x hx w
  · intro t ht
    simp only [List.mem_map] at ht
    obtain ⟨r, hr, rfl⟩ := ht
    exact (tiling_concat hto).2 r hr
  · intro t ht
    simp only [List.mem_map] at ht
    obtain ⟨r, hr, rfl⟩ := ht
    exact (tiling_concat htn).2 r hr

#print axioms C16_statement

/-- non-vacuity: the hypotheses hold for EVERY pair of texts split by the model's line tokenizer (multi-byte
characters, mixed terminators, a missing final newline included) and the crate's own word tokenizer as segmenter -/
example (alg : Alg) (repair : Bool) (bo bn : Bytes) (w0 : World) :=
  C16_statement alg repair (fun l => HelpersP.lens l (tokenizeWordsB l)) segmenter_words bo bn
    (tokenizeLinesB bo) (tokenizeLinesB bn) (tokenizeLinesB_tiling bo) (tokenizeLinesB_tiling bn) w0

/-- … and for the one-word-per-line segmenter -/
example : ∀ line : Bytes, line ≠ [] → Partition ((fun l : Bytes => [l.length]) line) line.length := by
  intro line h
  have : 0 < line.length := List.length_pos_iff.2 h
  simp [Partition]
  omega

/-! What the model computes on `"hé wörld\r\nsame\nlast x\n"` vs `"hé there\r\nsame\nlast y"` (two-byte characters,
`\r\n` and `\n` terminators, no final newline in the new text), words split by `tokenize_words`. -/

private def exO : Bytes :=
  [104, 195, 169, 32, 119, 195, 182, 114, 108, 100, 13, 10, 115, 97, 109, 101, 10, 108, 97, 115, 116, 32, 120, 10]
private def exN : Bytes :=
  [104, 195, 169, 32, 116, 104, 101, 114, 101, 13, 10, 115, 97, 109, 101, 10, 108, 97, 115, 116, 32, 121]
private def exRun (x : Op) : Res (List InlineChange) :=
  (inlineChanges tokenizeLinesAndNewlinesB false (tokens exO (tokenizeLinesB exO)) (tokens exN (tokenizeLinesB exN)) x
    (segsOf (fun l => HelpersP.lens l (tokenizeWordsB l))
      (((tokens exO (tokenizeLinesB exO)).toList.drop x.oStart).take x.oLen))
    (segsOf (fun l => HelpersP.lens l (tokenizeWordsB l))
      (((tokens exN (tokenizeLinesB exN)).toList.drop x.nStart).take x.nLen)) {}).map (·.1)

/-- the line diff, every algorithm: two Replace ops around an Equal -/
example : ∀ alg, (textDiffOps alg false (tokens exO (tokenizeLinesB exO)) (tokens exN (tokenizeLinesB exN)) {}).map (·.1) =
    .ok [.replace 0 1 0 1, .equal 1 1 1, .replace 2 1 2 1] := by
  intro alg; cases alg <;> rfl

/-- first Replace: only `wörld` / `there` are emphasised, `hé ` and `\r\n` are not -/
example : exRun (.replace 0 1 0 1) = .ok
    [⟨.delete, some 0, none, [(false, [104, 195, 169, 32]), (true, [119, 195, 182, 114, 108, 100]), (false, [13, 10])]⟩,
     ⟨.insert, none, some 0, [(false, [104, 195, 169, 32]), (true, [116, 104, 101, 114, 101]), (false, [13, 10])]⟩] := by
  simp only [exRun, inlineChanges, List.map_toArray]
  rfl

/-- the Equal op: the plain change -/
example : exRun (.equal 1 1 1) = .ok [⟨.equal, some 1, some 1, [(false, [115, 97, 109, 101, 10])]⟩] := by rfl

/-- last Replace: the words `x`,`\n` are replaced by `y`; the emphasised push `x\n` is re-split and its newline
un-emphasised; the new line has no newline (`missing_newline`) -/
example : exRun (.replace 2 1 2 1) = .ok
    [⟨.delete, some 2, none, [(false, [108, 97, 115, 116, 32]), (true, [120]), (false, [10])]⟩,
     ⟨.insert, none, some 2, [(false, [108, 97, 115, 116, 32]), (true, [121])]⟩] := by
  simp only [exRun, inlineChanges, List.map_toArray]
  rfl
example : missingNewline [(false, [108, 97, 115, 116, 32]), (true, [121])] = true ∧
    missingNewline [(false, [108, 97, 115, 116, 32]), (true, [120]), (false, [10])] = false := by decide

/-- why the lines must be non-empty (outside C16's quantifier — the lines of a text are never empty, C06 — but
reachable with `TextDiff::from_slices`): for `old = ["a b\n", ""]`, `new = ["a c\n", "c"]` the refined expansion of
`Replace 0 2 0 2` loses the Delete of the empty old line 1, so clause (a) would fail -/
example : (inlineChanges tokenizeLinesAndNewlinesB false #[[97, 32, 98, 10], []] #[[97, 32, 99, 10], [99]]
      (.replace 0 2 0 2) [[1, 1, 1, 1], []] [[1, 1, 1, 1], [1]] {}).map
      (fun r => r.1.map (fun c => (c.tag, c.oldIndex, c.newIndex))) =
    .ok [(.delete, some 0, none), (.insert, none, some 0), (.insert, none, some 1)] := by
  simp only [inlineChanges, List.map_toArray]
  rfl

end SimilarVerif.Headline

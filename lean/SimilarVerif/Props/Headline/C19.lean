import SimilarVerif.Props.C19
import SimilarVerif.Lemmas.HeadlineGlue
/-! # C19 — headline -/
namespace SimilarVerif.Headline
open SimilarVerif Spec

/-- **C19 — Myers and Patience do work proportional to (N+M)*(D+1).**

Cost model: `World.cmps` counts the evaluations of `new[j] == old[i]` (the correspondence harness compares it with a
counting element type exactly, on every request).  `N = oe - os`, `M = ne - ns`, `L = lcsLen (eqB E) N M os ns`.

"Without a deadline [`w.clock = none`],
(a) the number of element comparisons performed by Myers is at most a small fixed multiple of (N+M+1)*(D+1), where D
    is the size of the shortest edit script [the run returns and makes at most `22·(N+M+1)·(D+1)` comparisons with
    `D = N + M - 2·L`, the cost of a shortest edit script (C03)],
(b) and likewise for Patience with D the size of the script it reports [the run returns a valid script `ops` and makes
    at most `57·(N+M+1)·(nDel ops + nIns ops + 1)` comparisons];
(c) in particular near-identical inputs are diffed in near-linear work regardless of their length [if the inputs
    differ by at most `d` items (`N + M ≤ 2·L + d`), Myers makes at most `22·(d+1)·(N+M+1)` comparisons]."

Hypotheses: `RangesInBounds` (the runs return); for (b) additionally `EqPattern` — the three element tests come from
one labelling of the items, which every pair of real sequences satisfies (`C14.pattern_ofSeqs`, `pattern_ofTokens`).
Without it (b) is FALSE for the model's abstract `Env`: an inconsistent same-side relation makes `unique` drop half
of the items (counterexample recorded at `C19.patience_work_bound`: N = M = 1000, identity reported after 136478
comparisons).
Not covered by this theorem: wall-clock time (comparisons are the proxy the property names); Patience's SAME-SIDE
comparisons inside `unique` (a `HashMap` in the Rust, not element comparisons; measured by the `cost` suite). -/
theorem C19_statement (E : Env) (os oe ns ne : Nat) (w : World)
    (hr : RangesInBounds E os oe ns ne) (hclk : w.clock = none) :
    -- (a), (c)
    (∃ r' w', rawTrace .myers E os oe ns ne w = .ok (r', w') ∧
      w'.cmps ≤ w.cmps + 22 * (((oe - os) + (ne - ns) + 1) *
        ((oe - os) + (ne - ns) - 2 * lcsLen (eqB E) (oe - os) (ne - ns) os ns + 1)) ∧
      ∀ d, (oe - os) + (ne - ns) ≤ 2 * lcsLen (eqB E) (oe - os) (ne - ns) os ns + d →
        w'.cmps ≤ w.cmps + 22 * (((oe - os) + (ne - ns) + 1) * (d + 1))) ∧
    -- (b)
    (IdentP.EqPattern E os oe ns ne →
      ∃ r' w' ops, rawTrace .patience E os oe ns ne w = .ok (r', w') ∧
        r'.trace = ops.map Call.op ++ [.finish] ∧ Walk (eqB E) os ns ops oe ne ∧
        w'.cmps ≤ w.cmps + 57 * (((oe - os) + (ne - ns) + 1) * (nDel ops + nIns ops + 1))) := by
  refine ⟨?_, ?_⟩
  · obtain ⟨r', w', h, -⟩ := rawTrace_total_valid .myers E os oe ns ne w hr
    have hm : myersDiff E recHook os oe ns ne {} w = .ok (r', w') := by simpa [rawTrace, diffWith] using h
    have hb := C19.myers_work_bound E os oe ns ne {} w r' w' hr.old_le hr.new_le hclk hm
    have hD := C19.D_is_shortest_script E os oe ns ne
    have hDe : MyersT.boxD E os oe ns ne =
        (oe - os) + (ne - ns) - 2 * lcsLen (eqB E) (oe - os) (ne - ns) os ns := by omega
    rw [hDe] at hb
    refine ⟨r', w', h, hb, ?_⟩
    intro d hd
    refine Nat.le_trans hb (Nat.add_le_add_left (Nat.mul_le_mul_left _ (Nat.mul_le_mul_left _ ?_)) _)
    omega
  · intro hp
    obtain ⟨r', w', h, -⟩ := rawTrace_total_valid .patience E os oe ns ne w hr
    have hm : patienceDiff E recHook os oe ns ne {} w = .ok (r', w') := by simpa [rawTrace, diffWith] using h
    obtain ⟨ops, h1, h2, -, h4⟩ := C19.patience_work_bound E os oe ns ne hp {} w r' w' hr.old_le hr.new_le hclk hm
    exact ⟨r', w', ops, h, by simpa using h1, h2, h4⟩

#print axioms C19_statement

/-- non-vacuity: `[1,2,3,4,5,6]` vs `[1,2,9,4,5,6]` (one item replaced, `D = 2`) satisfies the hypotheses … -/
example : RangesInBounds (Env.ofSeqs #[1,2,3,4,5,6] #[1,2,9,4,5,6]) 0 6 0 6 ∧
    IdentP.EqPattern (Env.ofSeqs #[1,2,3,4,5,6] #[1,2,9,4,5,6]) 0 6 0 6 ∧ ({} : World).clock = none :=
  have hp := IdentP.eqPattern_ofSeqs #[1,2,3,4,5,6] #[1,2,9,4,5,6] 0 0 0 6 0 6 (by decide) (by decide) (by decide) (by decide)
  ⟨RangesInBounds.of_eqPattern (by decide) (by decide) hp, hp, rfl⟩

/-- … and Myers / Patience make 9 / 19 comparisons (bounds: `22·13·3`, `57·13·3`) -/
example : (rawTrace .myers (Env.ofSeqs #[1,2,3,4,5,6] #[1,2,9,4,5,6]) 0 6 0 6 {}).map (·.2.cmps) = .ok 9 := by rfl
example : (rawTrace .patience (Env.ofSeqs #[1,2,3,4,5,6] #[1,2,9,4,5,6]) 0 6 0 6 {}).map (·.2.cmps) = .ok 19 := by rfl

end SimilarVerif.Headline

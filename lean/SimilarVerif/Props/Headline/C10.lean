import SimilarVerif.Props.C10
import SimilarVerif.Props.C09
import SimilarVerif.Lemmas.HeadlineGlue
import SimilarVerif.Lemmas.HeadlineGlueC09
import SimilarVerif.Props.Headline.C09
/-! # C10 — headline -/
namespace SimilarVerif.Headline
open SimilarVerif Spec

/-- **C10 — Compact and Replace preserve meaning and cost of any valid script.**

"Feeding any valid edit script (equal/delete/insert calls with positive lengths, in any order a valid script
allows) for sequences old/new [`ops` with `NoReplaceOp ops` and `Walk (eqB E) o n ops o' n'`; fed as
`deliver adapter (ops.map Call.op ++ [.finish])` into the adapter over the recording hook]
(R)  through the replace adapter,
(C)  the compaction adapter,
(CR) or both,
yields a valid edit script for the same sequences [`Walk` between the same end points] with exactly the same
number of deleted and of inserted items [`nDel`, `nIns`; `nEq` too], completed by the time finish returns [when
`deliver` returns, the recording hook holds the whole result followed by `finish`; the adapters return: no panic].
Through both adapters the result is in the normal form of C09 [the FULL normal form, for what the recording hook
holds, `out`: `CanonicalNormalForm E out`, the definition C09's headline theorem uses (Props/Headline/C09.lean), i.e.
(a) Equal / non-Equal strictly alternate (`Alternating`), (b) no op is empty, (c) a deletion adjacent to an insertion
has become one Replace (no two adjacent ops are both changes; every Replace has a deleted and an inserted part),
(d) within any run of changed items all deleted items precede all inserted items, (e) an Insert directly followed by
an Equal sits at its latest position: `new[first inserted] == old[first equal]`, `E.on eo cn`, is defined and `false`.
(a) and (b) are also stated on their own, and clause (e) also for the cleaned-up list `buf` that `Compact` hands to
`Replace`, as before]; through the replace adapter alone, carried indices stay exact [`Exact o n ops → Exact o n out`]."

Hypotheses, visible in the statement: for (C) and (CR) the carried indices of the input obey C01's rule
(`Carried`, what every algorithm delivers) and the ranges are in bounds (`InBounds`) — `Compact`'s clean-up
compares items and shifts carried indices with checked subtraction; without them it can panic.  (R) needs neither.
Not covered by this theorem: nothing of the property text.  (Outside the text: the normal form is not claimed for
(R) or (C) alone — `Replace` alone does not move insertions to their latest position, and `Compact` alone leaves a
Delete next to an Insert as two ops; "carried indices stay exact" through `Compact` is C11: true for the repaired
swap, false for the shipped one, known finding `KF-compact-swap`.) -/
theorem C10_statement (E : Env) (repair : Bool) (ops : List Op) (o n o' n' : Nat) (w : World)
    (hnr : NoReplaceOp ops) (hw : Walk (eqB E) o n ops o' n') :
    -- (R)
    (∃ (out : List Op) (rs : RState),
      deliver (replaceHook recHook) (ops.map Call.op ++ [.finish]) ({}, {}) w =
        .ok ((rs, { trace := out.map Call.op ++ [.finish] }), w) ∧
      Walk (eqB E) o n out o' n' ∧ nDel out = nDel ops ∧ nIns out = nIns ops ∧ nEq out = nEq ops ∧
      Alternating out ∧ (Exact o n ops → Exact o n out)) ∧
    (Carried o n ops → InBounds E o o' n n' →
      -- (C)
      (∃ (ops' : List Op) (w' : World),
        deliver (compactHook E repair recHook) (ops.map Call.op ++ [.finish]) ([], {}) w =
          .ok ((ops', { trace := ops'.map Call.op ++ [.finish] }), w') ∧
        Walk (eqB E) o n ops' o' n' ∧ nDel ops' = nDel ops ∧ nIns ops' = nIns ops ∧ nEq ops' = nEq ops ∧
        NoReplaceOp ops' ∧ w'.clock = w.clock ∧ w'.probes = w.probes) ∧
      -- (CR)
      (∃ (buf : List Op) (rs : RState) (out : List Op) (w' : World),
        deliver (compactHook E repair (replaceHook recHook)) (ops.map Call.op ++ [.finish]) ([], ({}, {})) w =
          .ok ((buf, (rs, { trace := out.map Call.op ++ [.finish] })), w') ∧
        Walk (eqB E) o n out o' n' ∧ nDel out = nDel ops ∧ nIns out = nIns ops ∧ nEq out = nEq ops ∧
        Alternating out ∧ (∀ x ∈ out, x.isEmpty = false) ∧
        (∀ pre co cn l eo en el post, buf = pre ++ .insert co cn l :: .equal eo en el :: post →
          eqB E eo cn = false) ∧
        -- the full normal form of C09, clauses (a) – (e), for what the recording hook holds
        CanonicalNormalForm E out)) := by
  refine ⟨?_, ?_⟩
  · obtain ⟨out, rs, h, r⟩ := C10.replace_preserves (eqB E) ops o n o' n' w hnr hw
    exact ⟨out, rs, h, r⟩
  · intro hcar hb
    obtain ⟨ops', w', hcl⟩ := CompactT.cleanup_total_carried E repair ops o n o' n' w hnr hw hcar hb
    obtain ⟨a1, a2, a3, a4, a5, a6, a7⟩ := C10.compact_preserves E repair ops o n o' n' w ops' w' hnr hw hcl
    refine ⟨⟨ops', w', ?_, a1, a2, a3, a4, a5, a6, a7⟩, ?_⟩
    · rw [compact_deliver E repair recHook {} w ops hnr, hcl]
      simp only [deliver_recHook, List.nil_append]
    · obtain ⟨out, rs, hro, b1, b2, b3, b4, b5, -⟩ := C10.replace_preserves (eqB E) ops' o n o' n' w' a5 a1
      have hi := CaptureNF.cleanup_insOK E repair ops o n o' n' w ops' w' hnr hw hcl
      obtain ⟨out2, ht, h4⟩ := CaptureNF.replace_latest E ops' w' a5 hi _ hro
      have he2 : out2 = out := by
        simp only at ht
        exact (C09G.map_op_inj _ _ (List.append_cancel_right ht)).symm
      subst he2
      refine ⟨ops', rs, out2, w', ?_, b1, by omega, by omega, by omega, b5,
        C09.walk_no_empty _ out2 _ _ _ _ b1,
        CompactT.cleanup_insert_latest E repair ops o n o' n' w ops' w' hnr hw hcl,
        canonicalNormalForm_of b1 b5 hb h4⟩
      rw [compact_deliver E repair (replaceHook recHook) ({}, {}) w ops hnr, hcl]
      unfold replaceOut at hro
      simp only [hro]

#print axioms C10_statement

/-- non-vacuity: split runs, an insert before a delete; `Replace` alone … -/
example : (deliver (replaceHook recHook)
    (([.equal 0 0 1, .equal 1 1 1, .insert 2 2 1, .delete 2 1 3, .insert 3 3 2, .equal 3 5 1] : List Op).map Call.op ++ [.finish])
    ({}, {}) {}).map (·.1.2.trace) =
    .ok [.op (.equal 0 0 2), .op (.replace 2 1 2 3), .op (.equal 3 5 1), .finish] := by rfl

/-- … and the hypotheses of (C)/(CR) on `old = [1,0]`, `new = [1,2,0,1]` with the script of C01's example -/
example : NoReplaceOp [.equal 0 0 1, .insert 1 1 1, .equal 1 2 1, .insert 2 3 1] ∧
    Carried 0 0 [.equal 0 0 1, .insert 1 1 1, .equal 1 2 1, .insert 2 3 1] := by
  simp [NoReplaceOp, Carried, CarriedGo, InRun]
example : Walk (eqB (Env.ofSeqs #[1,0] #[1,2,0,1])) 0 0 [.equal 0 0 1, .insert 1 1 1, .equal 1 2 1, .insert 2 3 1] 2 4 := by
  simp only [Walk, true_and, and_true, Nat.lt_one_iff]
  refine ⟨?_, ?_⟩ <;> (intro t ht; subst ht; decide)
example : (deliver (compactHook (Env.ofSeqs #[1,0] #[1,2,0,1]) false (replaceHook recHook))
    (([.equal 0 0 1, .insert 1 1 1, .equal 1 2 1, .insert 2 3 1] : List Op).map Call.op ++ [.finish])
    ([], ({}, {})) {}).map (·.1.2.2.trace) =
    .ok [.op (.equal 0 0 1), .op (.insert 1 1 1), .op (.equal 1 2 1), .op (.insert 2 3 1), .finish] := by rfl

/-- non-vacuity of the full normal form in (CR): `old = [1,2,3]`, `new = [1,1,2,4]`; a valid script with the insertion
of the second `1` at its EARLIEST position and an Insert before a Delete satisfies the hypotheses of (CR) … -/
example : NoReplaceOp [.insert 0 0 1, .equal 0 1 2, .insert 2 3 1, .delete 2 1 4] ∧
    Carried 0 0 [.insert 0 0 1, .equal 0 1 2, .insert 2 3 1, .delete 2 1 4] := by
  simp [NoReplaceOp, Carried, CarriedGo, InRun]
example : Walk (eqB (Env.ofSeqs #[1,2,3] #[1,1,2,4])) 0 0
    [.insert 0 0 1, .equal 0 1 2, .insert 2 3 1, .delete 2 1 4] 3 4 := by
  simp only [Walk, true_and, and_true]
  refine ⟨by decide, by decide, ?_, by decide, by decide⟩
  intro t ht
  have : t = 0 ∨ t = 1 := by omega
  rcases this with rfl | rfl <;> decide
example : InBounds (Env.ofSeqs #[1,2,3] #[1,1,2,4]) 0 3 0 4 :=
  (RangesInBounds.of_eqPattern (by decide) (by decide)
    (IdentP.eqPattern_ofSeqs #[1,2,3] #[1,1,2,4] 0 0 0 3 0 4 (by decide) (by decide) (by decide) (by decide))).cross

/-- … `Compact` over `Replace` moves the insertion to its latest position (clause (e) is exercised: the Insert is now
directly followed by the Equal of `2`, and `new[1] == old[1]`, i.e. `1 == 2`, is defined and false) and merges the
Insert / Delete pair into one Replace with the deletion first (clauses (c), (d)) -/
example : (deliver (compactHook (Env.ofSeqs #[1,2,3] #[1,1,2,4]) false (replaceHook recHook))
    (([.insert 0 0 1, .equal 0 1 2, .insert 2 3 1, .delete 2 1 4] : List Op).map Call.op ++ [.finish])
    ([], ({}, {})) {}).map (·.1.2.2.trace) =
    .ok [.op (.equal 0 0 1), .op (.insert 1 1 1), .op (.equal 1 2 1), .op (.replace 2 1 3 1), .finish] := by rfl
example : (Env.ofSeqs #[1,2,3] #[1,1,2,4]).on 1 1 = some false := by decide

end SimilarVerif.Headline

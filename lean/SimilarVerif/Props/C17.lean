import SimilarVerif.Lemmas.Remap
import SimilarVerif.Lemmas.Helpers
import SimilarVerif.Lemmas.SliceHelper
/-!
# C17 — remapped slices are the original substrings and reconstruct both texts

Model: `remapOps` (Model/Remap.lean) = `TextDiffRemapper::iter_slices` over all ops, on the cumulative
byte ranges of the tokens (`SliceRemapper`).  `lo ln` are the token byte lengths of the old / new text,
`ops` any valid script over the tokens (`Walk e 0 0 ops lo.length ln.length`; C02 says captured ops are
one).  Full statements are in Lemmas/Remap.lean; the theorems here are those statements (the `type_of%`
form keeps them in sync).  The one-call helpers `utils::diff_*` compose tokenizer, text diff and this
remapper; they are covered by the correspondence and the reconstruction validator of suite `remap`.
-/
namespace SimilarVerif.C17
open SimilarVerif Spec RemapP

/-- remapping never panics (no op of a valid script is empty, which is what excludes the
`range.end - 1` underflow) and returns exactly the byte ranges of the op's tokens, with the tags and
sides of slice-wise expansion -/
theorem remap_total_exact : type_of% @remapOps_eq := @remapOps_eq

/-- same tags (and sides) as `DiffOp::iter_slices` -/
theorem remap_same_tags : type_of% @remapOps_tags := @remapOps_tags

/-- a slice over `k` tokens is the concatenation of those tokens -/
theorem slice_is_token_concat : type_of% @slice_tokens := @slice_tokens

/-- no returned slice is empty -/
theorem remap_nonempty : type_of% @remapOps_nonempty := @remapOps_nonempty

/-- the non-Insert slices concatenate to the old text, byte for byte -/
theorem remap_reconstructs_old : type_of% @remapOps_old_text := @remapOps_old_text

/-- the non-Delete slices concatenate to the new text (equal tokens are byte-equal: `TokEq`) -/
theorem remap_reconstructs_new : type_of% @remapOps_new_text := @remapOps_new_text

/-- the underflow is real for an empty op: the model (like the Rust, `range.end - 1`) panics -/
example : remapOps (remapIndexes 0 [1, 1, 1]).toArray (remapIndexes 0 [1, 1, 1]).toArray [.equal 0 0 0] = .error .panic := by
  rfl

example : remapOps (remapIndexes 0 [3, 1, 2]).toArray (remapIndexes 0 [3, 4]).toArray [.equal 0 0 1, .replace 1 2 1 1] =
    .ok [(.equal, false, 0, 3), (.delete, false, 3, 6), (.insert, true, 3, 7)] := by rfl

end SimilarVerif.C17

/-! ## the one-call helpers `utils::diff_chars` / `diff_words` / `diff_unicode_words` / `diff_graphemes`
(`utilsDiffRemap`) and `utils::diff_lines` (`utilsDiffLines`), end to end

Hypotheses: the token ranges tile the two texts with non-empty tokens (`TokP.Tiling`, what C06 proves for
the tokenizers).  Every algorithm, every clock (in particular `w.clock = none`): totality of Patience needs
no extra hypothesis here because all comparisons between tokens of two arrays are defined. -/
namespace SimilarVerif.C17
open SimilarVerif Spec RemapP TextP TokP

/-- `TextDiffConfig::diff` never aborts and returns a valid script over the tokens -/
theorem text_diff_total : type_of% @HelpersP.textDiffOps_total := @HelpersP.textDiffOps_total

/-- everything about the remapping helpers in one statement -/
theorem remap_helpers_spec : type_of% @HelpersP.utilsDiffRemap_spec := @HelpersP.utilsDiffRemap_spec

/-- everything about `diff_lines` in one statement -/
theorem lines_helper_spec : type_of% @HelpersP.utilsDiffLines_spec := @HelpersP.utilsDiffLines_spec

/-- the helpers return `.ok _` (never panic / abort) -/
theorem helpers_total : type_of% @HelpersP.helpers_total := @HelpersP.helpers_total

/-- no returned slice is empty -/
theorem helpers_nonempty : type_of% @HelpersP.helpers_nonempty := @HelpersP.helpers_nonempty

/-- the slices whose tag is not Insert concatenate to the old text -/
theorem helpers_reconstruct_old : type_of% @HelpersP.helpers_reconstruct_old := @HelpersP.helpers_reconstruct_old

/-- the slices whose tag is not Delete concatenate to the new text -/
theorem helpers_reconstruct_new : type_of% @HelpersP.helpers_reconstruct_new := @HelpersP.helpers_reconstruct_new

/-- the tag sequence is that of the slice-wise expansion of the ops (`utilsDiffRemap`) resp. of
`iter_all_changes` (`utilsDiffLines`) -/
theorem helpers_tags : type_of% @HelpersP.helpers_tags := @HelpersP.helpers_tags

#print axioms text_diff_total
#print axioms remap_helpers_spec
#print axioms lines_helper_spec
#print axioms helpers_total
#print axioms helpers_nonempty
#print axioms helpers_reconstruct_old
#print axioms helpers_reconstruct_new
#print axioms helpers_tags

/-- non-vacuity: `"ab c"` as tokens `ab`, ` `, `c` and `"ab d"` as `ab`, ` `, `d` are tilings … -/
example : Tiling [(0, 2), (2, 3), (3, 4)] [97, 98, 32, 99].length ∧
    Tiling [(0, 2), (2, 3), (3, 4)] [97, 98, 32, 100].length := by
  simp [Tiling, TilingFrom]

/-- … and the helpers return what the theorems say (all three algorithms) -/
example : ∀ alg : Alg, utilsDiffRemap alg [97, 98, 32, 99] [97, 98, 32, 100] [(0, 2), (2, 3), (3, 4)] [(0, 2), (2, 3), (3, 4)] {} =
    .ok [(.equal, [97, 98, 32]), (.delete, [99]), (.insert, [100])] := by
  intro alg; cases alg <;> rfl

example : ∀ alg : Alg, utilsDiffLines alg [97, 98, 32, 99] [97, 98, 32, 100] [(0, 2), (2, 3), (3, 4)] [(0, 2), (2, 3), (3, 4)] {} =
    .ok [(.equal, [97, 98]), (.equal, [32]), (.delete, [99]), (.insert, [100])] := by
  intro alg; cases alg <;> rfl

end SimilarVerif.C17

namespace SimilarVerif.C17
open SimilarVerif Spec

/-- **the slice helper `diff_slices`** (`utilsDiffSlices` = `capture_diff_slices` then `iter_slices` of every op): it
returns for every algorithm and clock, no returned slice is empty, the slices expand to exactly the items of the
captured ops, and those items count both inputs consecutively (so the non-Insert slices are the old slice cut into
consecutive pieces, the non-Delete slices the new one) -/
theorem slices_helper_total : type_of% @SliceHelper.utilsDiffSlices_total := @SliceHelper.utilsDiffSlices_total

#print axioms slices_helper_total

/-- non-vacuity: `[0,1,2,3]` vs `[0,1,4,3]` -/
example : ∀ alg : Alg, utilsDiffSlices alg (Env.ofSeqs #[0, 1, 2, 3] #[0, 1, 4, 3]) 4 4 {} =
    .ok [(.equal, false, 0, 2), (.delete, false, 2, 3), (.insert, true, 2, 3), (.equal, false, 3, 4)] := by
  intro alg; cases alg <;> rfl

end SimilarVerif.C17

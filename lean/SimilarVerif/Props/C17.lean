import SimilarVerif.Lemmas.Remap
/-!
# C17 — remapped slices are the original substrings and reconstruct both texts

Model: `remapOps` (Model/Remap.lean) = `TextDiffRemapper::iter_slices` over all ops, on the cumulative
byte ranges of the tokens (`SliceRemapper`).  `lo ln` are the token byte lengths of the old / new text,
`ops` any valid script over the tokens (`Walk e 0 0 ops lo.length ln.length`; C02 says captured ops are
one).  Full statements are in Lemmas/Remap.lean; the theorems here are those statements (the `type_of%`
form keeps them in sync).  The one-call helpers `utils::diff_*` compose tokenizer, text diff and this
remapper; they are covered by the correspondence and the reconstruction validator of suite `remap`.
-/
namespace SimilarVerif.C17
open SimilarVerif Spec RemapP

/-- remapping never panics (no op of a valid script is empty, which is what excludes the
`range.end - 1` underflow) and returns exactly the byte ranges of the op's tokens, with the tags and
sides of slice-wise expansion -/
theorem remap_total_exact : type_of% @remapOps_eq := @remapOps_eq

/-- same tags (and sides) as `DiffOp::iter_slices` -/
theorem remap_same_tags : type_of% @remapOps_tags := @remapOps_tags

/-- a slice over `k` tokens is the concatenation of those tokens -/
theorem slice_is_token_concat : type_of% @slice_tokens := @slice_tokens

/-- no returned slice is empty -/
theorem remap_nonempty : type_of% @remapOps_nonempty := @remapOps_nonempty

/-- the non-Insert slices concatenate to the old text, byte for byte -/
theorem remap_reconstructs_old : type_of% @remapOps_old_text := @remapOps_old_text

/-- the non-Delete slices concatenate to the new text (equal tokens are byte-equal: `TokEq`) -/
theorem remap_reconstructs_new : type_of% @remapOps_new_text := @remapOps_new_text

/-- the underflow is real for an empty op: the model (like the Rust, `range.end - 1`) panics -/
example : remapOps (remapIndexes 0 [1, 1, 1]).toArray (remapIndexes 0 [1, 1, 1]).toArray [.equal 0 0 0] = .error .panic := by
  rfl

example : remapOps (remapIndexes 0 [3, 1, 2]).toArray (remapIndexes 0 [3, 4]).toArray [.equal 0 0 1, .replace 1 2 1 1] =
    .ok [(.equal, false, 0, 3), (.delete, false, 3, 6), (.insert, true, 3, 7)] := by rfl

end SimilarVerif.C17

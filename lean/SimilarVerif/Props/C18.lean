import SimilarVerif.Lemmas.Close
/-!
# C18 — get_close_matches equals exhaustive ranking by similarity ratio

Model: `getCloseMatches` (Model/Close.lean), heap key `ratio.to_bits()` (after the `fix:` commit; the
pinned key `(ratio * u32::MAX as f32) as u32` was not injective below 2^-9 — DESIGN.md §6 D9 — found by
trying to state this theorem).  `f32` is Lean's opaque `Float32`: nothing can be proved about it, so
the theorem is split into (1) the ORDER part, float-free: the result is the first `n` of the candidates
that passed the three tests, sorted by (key descending, candidate ascending), the unique such
arrangement; (2) the exact-arithmetic facts behind the two pre-filters (`matches ≤ min`, LCS ≤ multiset
intersection, denominator with the number of distinct word tokens is smaller); (3) under an explicit
monotone-rounding hypothesis `Rnd` (a definition, satisfiable: `exact_rnd`) the filters never discard a
candidate that meets the cutoff.  That `to_bits` is order preserving on non-negative floats and that
`ratioF` is monotone are IEEE-754 facts outside the kernel's reach: they are assumptions, exercised by
the correspondence (native `Float32` in the driver = the same IEEE operations).
-/
namespace SimilarVerif.C18
open SimilarVerif CloseP

/-- (1) result = first `n` of the passing candidates in (key desc, candidate asc) order, which is the
unique sorted permutation of the passing candidates -/
theorem result_is_sorted_prefix : type_of% @getCloseMatches_order := @getCloseMatches_order

theorem result_is_abstract_ranking : type_of% @getCloseMatches_eq_abstract := @getCloseMatches_eq_abstract

/-- which candidates pass: exactly those for which none of the three tests fails -/
theorem scored_are_the_passing : type_of% @closeScored_spec := @closeScored_spec

/-- ties are broken lexicographically: `bytesLt` is the lexicographic strict total order on byte strings -/
theorem tie_break_is_lexicographic : type_of% @bytesLt_iff_lex := @bytesLt_iff_lex
theorem bytesLt_is_strict_total : StrictTotal bytesLt := bytesLt_strictTotal

/-- (2) `upper_seq_ratio` bounds the real ratio (exact arithmetic, cross-multiplied) -/
theorem upper_bound_is_sound : type_of% @upper_bound_exact := @upper_bound_exact

/-- (2) `QuickSeqRatio::calc` bounds the real ratio: LCS ≤ multiset intersection, smaller denominator -/
theorem quick_bound_is_sound : type_of% @quick_bound_exact := @quick_bound_exact
theorem lcs_le_multiset_intersection : type_of% @lcsLen_le_quick := @lcsLen_le_quick

/-- (3) under monotone rounding the pre-filters never discard a candidate that meets the cutoff -/
theorem filters_never_discard_qualifying : type_of% @filters_never_discard := @filters_never_discard

/-- the rounding hypothesis is satisfiable (exact fractions) -/
theorem rounding_hypothesis_satisfiable : Rnd exactR exactLe := exact_rnd

end SimilarVerif.C18

import SimilarVerif.Lemmas.Close
import SimilarVerif.Lemmas.CloseF32
import SimilarVerif.Lemmas.Helpers
/-!
# C18 — get_close_matches equals exhaustive ranking by similarity ratio

Model: `getCloseMatches` (Model/Close.lean), heap key `ratio.to_bits()` (after the `fix:` commit; the
pinned key `(ratio * u32::MAX as f32) as u32` was not injective below 2^-9 — DESIGN.md §6 D9 — found by
trying to state this theorem).

`f32` values are BIT PATTERNS computed by the soft-float model `SimilarVerif.F32` (Model/F32.lean:
`n as f32`, `2.0 * x`, correctly rounded `x / y`, IEEE `<` / `>=` on arbitrary patterns — exact
natural-number arithmetic, transparent to the kernel).  Rounding monotonicity, the order of the bit
patterns and the behaviour of the comparisons for every cutoff (NaN, ±0, subnormal, ±inf, negative)
are THEOREMS (Lemmas/F32.lean); `Rnd` is no longer a hypothesis of the main statements:

* `filters_never_discard_f32` — the two pre-filters never discard a candidate whose ratio meets the cutoff;
* `key_order_is_ratio_order`  — heap keys order candidates exactly as their `f32` ratios do;
* `result_is_exhaustive_ranking` — whenever it returns, `get_close_matches` = first `n` of ALL candidates
  with ratio `>= cutoff`, by ratio descending then lexicographically (`exhaustiveRanking`: a
  specification that does not mention the pre-filters), and that ranking is well defined
  (`exhaustive_ranking_well_defined`).

The parametric statements (1)–(3) are kept: (1) the ORDER part: the result is the first `n` of the
candidates that passed the three tests, sorted by (key descending, candidate ascending), the unique
such arrangement; (2) the exact-arithmetic facts behind the two pre-filters (`matches ≤ min`, LCS ≤
multiset intersection, denominator with the number of distinct word tokens is smaller); (3) for every
monotone rounding `Rnd` (the soft floats: `soft_float_rounding_is_monotone`; exact fractions:
`exact_rnd`) the filters never discard a candidate that meets the cutoff.

What remains trusted: that the hardware `f32` operations of the compiled Rust agree with `F32` — i.e.
that Model/F32.lean is IEEE-754 binary32 with round-to-nearest-even.  This is cross-checked bit for bit
(a) by `test-f32/` (half a million reference values from `rustc`), (b) on every correspondence run
(the driver prints the soft bits, the Rust side the hardware bits), and (c) by the driver itself, which
recomputes every ratio and comparison with the native `Float32` and marks any disagreement
`SOFTFLOAT-MISMATCH`.
-/
namespace SimilarVerif.C18
open SimilarVerif CloseP

/-- (1) result = first `n` of the passing candidates in (key desc, candidate asc) order, which is the
unique sorted permutation of the passing candidates -/
theorem result_is_sorted_prefix : type_of% @getCloseMatches_order := @getCloseMatches_order

theorem result_is_abstract_ranking : type_of% @getCloseMatches_eq_abstract := @getCloseMatches_eq_abstract

/-- which candidates pass: exactly those for which none of the three tests fails -/
theorem scored_are_the_passing : type_of% @closeScored_spec := @closeScored_spec

/-- ties are broken lexicographically: `bytesLt` is the lexicographic strict total order on byte strings -/
theorem tie_break_is_lexicographic : type_of% @bytesLt_iff_lex := @bytesLt_iff_lex
theorem bytesLt_is_strict_total : StrictTotal bytesLt := bytesLt_strictTotal

/-- (2) `upper_seq_ratio` bounds the real ratio (exact arithmetic, cross-multiplied) -/
theorem upper_bound_is_sound : type_of% @upper_bound_exact := @upper_bound_exact

/-- (2) `QuickSeqRatio::calc` bounds the real ratio: LCS ≤ multiset intersection, smaller denominator -/
theorem quick_bound_is_sound : type_of% @quick_bound_exact := @quick_bound_exact
theorem lcs_le_multiset_intersection : type_of% @lcsLen_le_quick := @lcsLen_le_quick

/-- (3) under monotone rounding the pre-filters never discard a candidate that meets the cutoff -/
theorem filters_never_discard_qualifying : type_of% @filters_never_discard := @filters_never_discard

/-- the rounding hypothesis is satisfiable (exact fractions) -/
theorem rounding_hypothesis_satisfiable : Rnd exactR exactLe := exact_rnd

/-! ## hypothesis-free statements over the model's soft floats -/

/-- the model's `f32` ratio IS a monotone rounding (order of the bit patterns = IEEE order on ratios) -/
theorem soft_float_rounding_is_monotone : Rnd (fun a b => F32.ratio a b) (fun x y : Nat => x ≤ y) := ratio_rnd

/-- **the pre-filters never discard a qualifying candidate** — the model's actual filter values, every
cutoff bit pattern, token lists of any length: if the final test `ratio >= cutoff` passes for the ratio
`F32.ratio matches (|a|+|b|)` of a valid script of the two token lists, then neither
`upper_seq_ratio < cutoff` nor `quick_ratio < cutoff` fires -/
theorem filters_never_discard_f32 {a b : List Bytes} {ops : List Op}
    (hw : Spec.Walk (tokEq a b) 0 0 ops a.length b.length) (cutoff : Nat)
    (h : F32.ge (ratioF (Spec.nEq ops) (a.length + b.length)) cutoff = true) :
    F32.lt (upperSeqRatio a.length b.length) cutoff = false ∧ F32.lt (quickRatio a b) cutoff = false :=
  CloseP.filters_never_discard_f32 hw cutoff h

/-- the ratio of a candidate is `F32.ratio matches (|a|+|b|)` for the (valid) Myers script of the tokens -/
theorem candidate_ratio_is_myers_ratio : type_of% @diffRatio_eq := @diffRatio_eq

/-- a candidate passes the three tests of the implementation iff its ratio is `>= cutoff` -/
theorem prefilters_are_invisible : type_of% @passes_eq_qualifies := @passes_eq_qualifies

/-- **"ordered by decreasing ratio" is literally the `f32` order**: for two candidates, `key₁ < key₂`
(heap keys, `to_bits`) iff their ratios compare `<` in IEEE arithmetic; equal keys iff equal ratios -/
theorem key_order_is_ratio_order (tok : Bytes → List Bytes) (word p₁ p₂ : Bytes) :
    (keyOf tok word p₁ < keyOf tok word p₂ ↔ F32.lt (ratioOf tok word p₁) (ratioOf tok word p₂) = true) ∧
    (keyOf tok word p₁ = keyOf tok word p₂ ↔ ratioOf tok word p₁ = ratioOf tok word p₂) :=
  CloseP.key_order_is_ratio_order tok word p₁ p₂

/-- **C18**: whenever `get_close_matches` returns (no diff aborted), its result is
`exhaustiveRanking`: the first `n` of ALL candidates whose soft-float ratio is `>= cutoff`, sorted by
ratio descending (IEEE order) then lexicographically — a specification without pre-filters -/
theorem result_is_exhaustive_ranking {tok : Bytes → List Bytes} {word : Bytes} {cutoff : Nat}
    {cands : List Bytes} {scored : List (UInt32 × Bytes)}
    (h : closeScored tok word cutoff cands = .ok scored) (n : Nat) :
    getCloseMatches tok word cands n cutoff = .ok (exhaustiveRanking tok word cands n cutoff) :=
  getCloseMatches_eq_exhaustive h n

/-- the specification unfolded -/
theorem exhaustive_ranking_def (tok : Bytes → List Bytes) (word : Bytes) (cands : List Bytes) (n cutoff : Nat) :
    exhaustiveRanking tok word cands n cutoff =
      (sortBy (lexDesc F32.lt bytesLt (ratioOf tok word) id) (cands.filter (qualifies tok word cutoff))).take n := rfl

/-- the ranking is a strict total order on candidates and `exhaustiveRanking` is the cut at `n` of THE
sorted arrangement of the qualifying candidates -/
theorem exhaustive_ranking_well_defined : type_of% @exhaustiveRanking_spec := @exhaustiveRanking_spec

/-- scoring succeeds as soon as no candidate's diff aborts -/
theorem scoring_succeeds : type_of% @closeScored_ok := @closeScored_ok

/-- every candidate's Myers diff returns (`HelpersP.textDiffOps_total`: the capture pipeline is total on
token arrays), so scoring never aborts … -/
theorem diff_ratio_total (a b : List Bytes) : ∃ r, diffRatio a b = .ok r := by
  obtain ⟨ops, w', h, -⟩ := HelpersP.textDiffOps_total .myers false a.toArray b.toArray {}
  unfold diffRatio
  rw [h]
  exact ⟨_, rfl⟩

/-- … and **C18 unconditionally**: for every tokenizer, word, candidate list, `n` and cutoff bit pattern,
`get_close_matches` returns exactly the first `n` entries of the exhaustive ranking (all candidates whose
f32 ratio is `>= cutoff`, by ratio descending, then lexicographically) — no hypothesis left. -/
theorem get_close_matches_is_exhaustive_ranking (tok : Bytes → List Bytes) (word : Bytes) (cands : List Bytes)
    (n cutoff : Nat) :
    getCloseMatches tok word cands n cutoff = .ok (exhaustiveRanking tok word cands n cutoff) := by
  obtain ⟨scored, h⟩ := closeScored_ok tok word cutoff cands (fun p _ => diff_ratio_total _ _)
  exact getCloseMatches_eq_exhaustive h n

#print axioms get_close_matches_is_exhaustive_ranking

end SimilarVerif.C18

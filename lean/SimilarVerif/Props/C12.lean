import SimilarVerif.Lemmas.Group
import SimilarVerif.Lemmas.GroupCaptured
import SimilarVerif.Lemmas.GroupPairs
/-!
# C12 — grouping keeps every change once, in order, with exactly `n` items of context

`groupDiffOps` is the model of `group_diff_ops` (`src/common.rs`). All statements are for every op
list and every radius `n`; the clauses that need "valid alternating" input say so (`AltOps`: no empty
op and no two adjacent Equal ops — the form of every captured diff, C09). Two counterexamples found
while proving (adjacent Equal ops) are recorded below.
-/
namespace SimilarVerif.C12
open SimilarVerif Spec

/-- every non-Equal op appears exactly once, unchanged and in order -/
theorem keeps_changes (ops : List Op) (n : Nat) : changesOf (groupDiffOps ops n).flatten = changesOf ops :=
  group_keeps_changes ops n

/-- no group consists of Equal ops only -/
theorem has_change (ops : List Op) (n : Nat) (hv : AltOps ops) (g : List Op) (hg : g ∈ groupDiffOps ops n) :
    changesOf g ≠ [] := group_has_change ops n hv g hg

/-- no changes means no groups -/
theorem no_changes (ops : List Op) (n : Nat) (hv : AltOps ops) (h : changesOf ops = []) : groupDiffOps ops n = [] :=
  group_no_changes ops n hv h

/-- each group is a contiguous run of the input's ops whose first and last op may be a trimmed piece
of an Equal op; interior ops are kept whole -/
theorem contiguous (ops : List Op) (n : Nat) (g : List Op) (hg : g ∈ groupDiffOps ops n) :
    ∃ pre mid post, ops = pre ++ mid ++ post ∧ Trimmed mid g := group_contiguous ops n g hg

/-- interior Equal runs have at most `2n` items; a leading / trailing Equal op at most `n` -/
theorem equal_bounds (ops : List Op) (n : Nat) (g : List Op) (hg : g ∈ groupDiffOps ops n) :
    (∀ x ∈ g, x.tag = .equal → x.oLen ≤ 2 * n) ∧
    (∀ x, g.head? = some x → x.tag = .equal → x.oLen ≤ n) ∧
    (∀ x, g.getLast? = some x → x.tag = .equal → x.oLen ≤ n) := group_equal_bounds' ops n g hg

/-- a group starts with exactly `min n available` items of context taken from the END of the
adjacent equal run … -/
theorem leading_context (ops : List Op) (n o m len : Nat) (rest : List Op) (hv : AltOps ops)
    (hops : ops = .equal o m len :: rest) (hr : rest ≠ []) :
    ∃ s gs, groupDiffOps ops n =
      (.equal (o + (len - min n len)) (m + (len - min n len)) (min n len) :: s) :: gs :=
  group_leading_context_alt ops n o m len rest hv hops hr

/-- … and ends with exactly `min n available` items taken from the START of the adjacent equal run -/
theorem trailing_context (ops : List Op) (n o m len : Nat) (pre : List Op) (hv : AltOps ops)
    (hops : ops = pre ++ [.equal o m len]) (hp : pre ≠ []) :
    ∃ gs s, groupDiffOps ops n = gs ++ [s ++ [.equal o m (min n len)]] :=
  group_trailing_context_alt ops n o m len pre hv hops hp

/-- two consecutive changes fall into different groups exactly when more than `2n` equal items
separate them; in the same group the equal run between them is kept whole, otherwise the first group
ends with `n` items of it and the next begins with its last `n` items -/
theorem separation (ops : List Op) (n : Nat) (pre post : List Op) (c1 c2 : Op) (o m len : Nat)
    (hops : ops = pre ++ [c1, .equal o m len, c2] ++ post) (h1 : c1.tag ≠ .equal) (h2 : c2.tag ≠ .equal) :
    (len ≤ 2 * n → ∃ G1 s1 s2 G2,
      groupDiffOps ops n = G1 ++ [s1 ++ [c1, .equal o m len, c2] ++ s2] ++ G2 ∧
      changesOf (G1.flatten ++ s1) = changesOf pre) ∧
    (2 * n < len → ∃ G1 s1 s2 G2,
      groupDiffOps ops n =
        G1 ++ [s1 ++ [c1, .equal o m n], [.equal (o + (len - n)) (m + (len - n)) n, c2] ++ s2] ++ G2 ∧
      changesOf (G1.flatten ++ s1) = changesOf pre) :=
  group_separation ops n pre post c1 c2 o m len hops h1 h2

/-- adjacent changes (no equal run between them) stay in one group -/
theorem adjacent_changes (ops : List Op) (n : Nat) (pre post : List Op) (c1 c2 : Op)
    (hops : ops = pre ++ [c1, c2] ++ post) (h1 : c1.tag ≠ .equal) (h2 : c2.tag ≠ .equal) :
    ∃ G1 s1 s2 G2, groupDiffOps ops n = G1 ++ [s1 ++ [c1, c2] ++ s2] ++ G2 ∧
      changesOf (G1.flatten ++ s1) = changesOf pre :=
  group_adjacent_changes ops n pre post c1 c2 hops h1 h2

/-- two ARBITRARY changes `c1`, `c2` (any ops `mid` between them) are in the same group, which contains `c1`, the
whole of `mid` and `c2`, when every Equal op between them has at most `2n` items.  Every op list, every radius. -/
theorem arbitrary_pair_same_group (ops : List Op) (n : Nat) (pre mid post : List Op) (c1 c2 : Op)
    (hops : ops = pre ++ [c1] ++ mid ++ [c2] ++ post) (h1 : c1.tag ≠ .equal) (h2 : c2.tag ≠ .equal)
    (hmid : ∀ x ∈ mid, x.tag = .equal → x.oLen ≤ 2 * n) :
    ∃ G1 s1 s2 G2, groupDiffOps ops n = G1 ++ [s1 ++ [c1] ++ mid ++ [c2] ++ s2] ++ G2 ∧
      changesOf (G1.flatten ++ s1) = changesOf pre :=
  same_group_of_small_gaps ops n pre mid post c1 c2 hops h1 h2 hmid

#print axioms arbitrary_pair_same_group

/-- two ARBITRARY changes `c1`, `c2` are in different groups, `c1`'s group `g1` before `c2`'s group `g2`, when some
Equal op between them has more than `2n` items; the `changesOf` equations say that these are the given occurrences
of `c1` and `c2`; `g1` ends with the first `n` items of the first such Equal op.  Every op list, every radius. -/
theorem arbitrary_pair_different_groups (ops : List Op) (n : Nat) (pre mid post : List Op) (c1 c2 : Op)
    (hops : ops = pre ++ [c1] ++ mid ++ [c2] ++ post) (h1 : c1.tag ≠ .equal) (h2 : c2.tag ≠ .equal)
    (hmid : ∃ x ∈ mid, x.tag = .equal ∧ 2 * n < x.oLen) :
    ∃ G1 g1 Gm g2 G2 s1 t1 s2 t2,
      groupDiffOps ops n = G1 ++ [g1] ++ Gm ++ [g2] ++ G2 ∧
      g1 = s1 ++ [c1] ++ t1 ∧ changesOf (G1.flatten ++ s1) = changesOf pre ∧
      g2 = s2 ++ [c2] ++ t2 ∧
      changesOf ((G1 ++ [g1] ++ Gm).flatten ++ s2) = changesOf (pre ++ [c1] ++ mid) ∧
      (∃ m1 o m len m2, mid = m1 ++ .equal o m len :: m2 ∧ 2 * n < len ∧
        (∀ y ∈ m1, y.tag = .equal → y.oLen ≤ 2 * n) ∧ t1 = m1 ++ [.equal o m n]) :=
  different_groups_of_big_gap ops n pre mid post c1 c2 hops h1 h2 hmid

#print axioms arbitrary_pair_different_groups

/-- non-vacuity of `arbitrary_pair_different_groups`: three changes, the gap between the first two small, between the
last two big (`n = 1`): the first and the third change are in different groups -/
example : groupDiffOps [.delete 0 1 0, .equal 1 0 2, .insert 3 2 1, .equal 3 3 7, .delete 10 1 10] 1 =
    [[.delete 0 1 0, .equal 1 0 2, .insert 3 2 1, .equal 3 3 1], [.equal 9 9 1, .delete 10 1 10]] := by decide

/-- every group of a valid script is itself a valid script between its own end points (zero-length
context ops, which `n = 0` produces, aside) -/
theorem group_is_walk (e : Nat → Nat → Bool) (ops : List Op) (n : Nat) (o0 n0 o1 n1 : Nat)
    (hw : Walk e o0 n0 ops o1 n1) (g : List Op) (hg : g ∈ groupDiffOps ops n) :
    ∃ a b c d, Walk e a b (g.filter fun x => !x.isEmpty) c d ∧ o0 ≤ a ∧ c ≤ o1 ∧ n0 ≤ b ∧ d ≤ n1 :=
  group_walk e ops n o0 n0 o1 n1 hw g hg

/-- the hypothesis `AltOps` cannot be dropped from `has_change`: two adjacent Equal ops give an
all-Equal group (found while proving; such lists are not produced by the capture pipeline, C09) -/
example : groupDiffOps [.equal 0 0 5, .equal 5 5 5] 1 = [[.equal 4 4 1, .equal 5 5 1]] := by decide

/-- non-vacuity: a concrete alternating list with two changes 7 > 2·1 items apart splits in two -/
example : groupDiffOps [.equal 0 0 5, .delete 5 1 5, .equal 6 5 7, .insert 13 12 1, .equal 13 13 2] 1 =
    [[.equal 4 4 1, .delete 5 1 5, .equal 6 5 1], [.equal 12 11 1, .insert 13 12 1, .equal 13 13 1]] := by decide

end SimilarVerif.C12

namespace SimilarVerif.C12
open SimilarVerif Spec

/-- a valid script whose Equal / non-Equal ops alternate satisfies the `AltOps` hypothesis -/
theorem altOps_of_walk_alternating : type_of% @GroupCap.altOps_of_walk_alternating :=
  @GroupCap.altOps_of_walk_alternating

/-- the op list of every captured diff satisfies `AltOps` -/
theorem captured_altOps : type_of% @GroupCap.captured_altOps := @GroupCap.captured_altOps

/-- **C12 for every captured diff, no hypothesis on the op list**: for every algorithm, shipped and repaired
clean-up, in-bounds ranges and every world `capture_diff` returns ops for which — for every radius `n` — all
clauses hold: `keeps_changes`, `has_change`, `no_changes`, `contiguous`, `equal_bounds`,
`leading_context`, `trailing_context`, `separation`, `group_is_walk` (in this order) -/
theorem group_captured : type_of% @GroupCap.group_captured := @GroupCap.group_captured

/-- non-vacuity: the hypotheses of `group_captured` are satisfiable (`[0,1,2]` vs `[0,2,2]`, all algorithms) -/
example (alg : Alg) (w : World) :=
  group_captured alg (Env.ofSeqs #[0, 1, 2] #[0, 2, 2]) false 0 3 0 3 w (by omega) (by omega)
    (by
      intro i j _ hi _ hj
      have : i = 0 ∨ i = 1 ∨ i = 2 := by omega
      have : j = 0 ∨ j = 1 ∨ j = 2 := by omega
      rcases ‹i = 0 ∨ i = 1 ∨ i = 2› with rfl | rfl | rfl <;>
        rcases ‹j = 0 ∨ j = 1 ∨ j = 2› with rfl | rfl | rfl <;> decide)
    (fun _ => by
      constructor <;>
      · intro i j _ hi _ hj
        have : i = 0 ∨ i = 1 ∨ i = 2 := by omega
        have : j = 0 ∨ j = 1 ∨ j = 2 := by omega
        rcases ‹i = 0 ∨ i = 1 ∨ i = 2› with rfl | rfl | rfl <;>
          rcases ‹j = 0 ∨ j = 1 ∨ j = 2› with rfl | rfl | rfl <;> decide)

#print axioms altOps_of_walk_alternating
#print axioms captured_altOps
#print axioms group_captured

end SimilarVerif.C12

import SimilarVerif.Lemmas.Utils
import SimilarVerif.Lemmas.Myers
import SimilarVerif.Lemmas.MyersCost
import SimilarVerif.Lemmas.PatienceCost
/-!
# C19 — Myers and Patience do work proportional to (N+M)·(D+1)

Cost model: `World.cmps` counts evaluations of `new[j] == old[i]`; the correspondence compares it with
a counting element type EXACTLY on every request, so the cost model is validated like any other output.
Proved: each prefix/suffix scan makes at most `common length + 1` comparisons; **Myers makes at most
`22·(N+M+1)·(D+1)` comparisons** (`myers_work_bound`, Lemmas/MyersCost.lean on top of the middle-snake
theory), and **Patience makes at most `57·(N+M+1)·(D+1)` comparisons with `D` the size of the script
it reports** (`patience_work_bound`, Lemmas/PatienceCost*.lean): 22 for the outer Myers run over the
unique items, whose edit distance is at most the cost of ANY valid script of the whole input
(`outer_le_cost`), and at most 35 for the scans, gap runs and the tail run.  The Patience bound needs
the equality tests to come from two label sequences (`IdentP.EqPattern`, which `Env.ofSeqs`
satisfies): for an arbitrary, inconsistent same-side relation it is false
(`PatienceCostWIP`-counterexample recorded below).  The `cost` suite measures the same quantity on the
implementation (cross and same-side comparisons) on near-identical, block-move, periodic,
small/large-alphabet, unrelated and structured-key inputs, full ranges and sub-ranges.
A theorem cannot exhibit wall-clock time; comparisons are the proxy the property itself names.
-/
namespace SimilarVerif.C19
open SimilarVerif Spec

/-- `common_prefix_len` costs at most `p + 1 ≤ min(n, m) + 1` comparisons and no probe -/
theorem prefix_scan_cost {E : Env} {os oe ns ne : Nat} {w w' : World} {p : Nat}
    (h : commonPrefixLen E os oe ns ne w = .ok (p, w')) :
    w'.cmps ≤ w.cmps + p + 1 ∧ p ≤ min (oe - os) (ne - ns) ∧ w'.probes = w.probes ∧ w'.clock = w.clock := by
  obtain ⟨h1, h2, _, _, hc⟩ := commonPrefixLen_spec h
  obtain ⟨c1, c2, _, c4⟩ := hc
  exact ⟨by omega, by omega, c2, c1⟩

/-- `common_suffix_len` likewise -/
theorem suffix_scan_cost {E : Env} {os oe ns ne : Nat} {w w' : World} {p : Nat}
    (h : commonSuffixLen E os oe ns ne w = .ok (p, w')) :
    w'.cmps ≤ w.cmps + p + 1 ∧ p ≤ min (oe - os) (ne - ns) ∧ w'.probes = w.probes ∧ w'.clock = w.clock := by
  obtain ⟨h1, h2, _, _, hc⟩ := commonSuffixLen_spec h
  obtain ⟨c1, c2, _, c4⟩ := hc
  exact ⟨by omega, by omega, c2, c1⟩

/-- comparisons only ever grow: one `cmp` adds exactly one -/
theorem cmp_costs_one {E : Env} {i j : Nat} {w : World} {b : Bool} {w' : World} (h : cmp E i j w = .ok (b, w')) :
    w'.cmps = w.cmps + 1 ∧ w'.probes = w.probes ∧ w'.clock = w.clock := by
  obtain ⟨_, rfl⟩ := cmp_ok h; simp

end SimilarVerif.C19

namespace SimilarVerif.C19
open SimilarVerif Spec

/-- **Myers does work proportional to (N+M+1)·(D+1)**: without a deadline, for every input, the
number of element comparisons of `myers::diff` is at most `22·(N+M+1)·(D+1)`, where
`D = boxD E …` is the size of the shortest edit script (`D + 2·LCS = N + M`).  Holds for any hook that
does not itself compare items (`HookQuiet`), in particular the recording hook.  The constant 22 is
what the proof's potential argument gives (each cell of a diagonal is slid over at most once across
iterations; `⌈D/2⌉` iterations per split; `D(box) = D(left) + D(right)`); measured on the
implementation the ratio stays below 0.9. -/
theorem myers_work_bound (E : Env) (os oe ns ne : Nat) (r : Rec) (w : World) (r' : Rec) (w' : World)
    (ho : os ≤ oe) (hn : ns ≤ ne) (hc : w.clock = none)
    (hrun : myersDiff E recHook os oe ns ne r w = .ok (r', w')) :
    w'.cmps ≤ w.cmps + 22 * (((oe-os) + (ne-ns) + 1) * (MyersT.boxD E os oe ns ne + 1)) :=
  MyersC.myers_cmps_rec E os oe ns ne r w r' w' ho hn hc hrun

/-- `D` of the bound is the shortest-edit-script size: `D + 2·LCS = N + M` -/
theorem D_is_shortest_script (E : Env) (os oe ns ne : Nat) :
    MyersT.boxD E os oe ns ne + 2 * lcsLen (eqB E) (oe-os) (ne-ns) os ns = (oe-os) + (ne-ns) :=
  MyersT.boxD_lcs E os oe ns ne

/-- one `find_middle_snake` call, any clock, any stale array contents -/
theorem middle_snake_cost : type_of% @MyersC.findMiddleSnake_cost := @MyersC.findMiddleSnake_cost

/-- the same bound for `conquer` over any hook that makes no comparisons of its own -/
theorem conquer_work_bound : type_of% @MyersC.conquer_cmps := @MyersC.conquer_cmps

/-- **Patience does work proportional to (N+M+1)·(D+1)** with `D = nDel ops + nIns ops` the size of the
script it reports: without a deadline, for element tests that come from two label sequences
(`EqPattern`), the run reports a valid script `ops` and makes at most `57·(N+M+1)·(D+1)` comparisons.
Without `EqPattern` the statement is false: `on i j = (i==j)`, `oo = (i==j)`, `nn i j = (i==j || both odd)`
on N = M = 1000 items reports the identity (D = 0) after 136478 > 57·2001 comparisons (an `nn` that is not
an equivalence compatible with `on` makes `unique` drop half of the items, so the outer run is far apart). -/
theorem patience_work_bound : type_of% @PatienceC.patience_cmps := @PatienceC.patience_cmps

/-- the hypothesis of `patience_work_bound` is met by every pair of label sequences -/
theorem patience_work_bound_ofSeqs : type_of% @PatienceC.patience_cmps_ofSeqs := @PatienceC.patience_cmps_ofSeqs

/-- decomposition for ANY `Env` (only in-bounds tests needed): outer run + the rest -/
theorem patience_work_split : type_of% @PatienceC.patience_cmps_split := @PatienceC.patience_cmps_split

/-- the edit distance of the unique-item lists is at most the cost of any valid script of the whole ranges -/
theorem patience_outer_le_cost : type_of% @PatienceC.outer_le_cost := @PatienceC.outer_le_cost

end SimilarVerif.C19

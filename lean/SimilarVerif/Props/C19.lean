import SimilarVerif.Lemmas.Utils
import SimilarVerif.Lemmas.Myers
import SimilarVerif.Lemmas.MyersCost
/-!
# C19 — Myers and Patience do work proportional to (N+M)·(D+1)

Cost model: `World.cmps` counts evaluations of `new[j] == old[i]`; the correspondence compares it with
a counting element type EXACTLY on every request, so the cost model is validated like any other output.
Proved: each prefix/suffix scan makes at most `common length + 1` comparisons; **Myers makes at most
`22·(N+M+1)·(D+1)` comparisons** (`myers_work_bound`, Lemmas/MyersCost.lean on top of the middle-snake
theory).  Patience: the comparisons of its gap and tail runs are Myers runs and obey the same bound
each; the bound for the composite with `D` = its own script is not yet a theorem and is established by
the `cost` suite: measured comparisons (cross and same-side) on near-identical, block-move, periodic,
small/large-alphabet and unrelated inputs up to a few thousand items, full ranges and sub-ranges.
A theorem cannot exhibit wall-clock time; comparisons are the proxy the property itself names.
-/
namespace SimilarVerif.C19
open SimilarVerif Spec

/-- `common_prefix_len` costs at most `p + 1 ≤ min(n, m) + 1` comparisons and no probe -/
theorem prefix_scan_cost {E : Env} {os oe ns ne : Nat} {w w' : World} {p : Nat}
    (h : commonPrefixLen E os oe ns ne w = .ok (p, w')) :
    w'.cmps ≤ w.cmps + p + 1 ∧ p ≤ min (oe - os) (ne - ns) ∧ w'.probes = w.probes ∧ w'.clock = w.clock := by
  obtain ⟨h1, h2, _, _, hc⟩ := commonPrefixLen_spec h
  obtain ⟨c1, c2, _, c4⟩ := hc
  exact ⟨by omega, by omega, c2, c1⟩

/-- `common_suffix_len` likewise -/
theorem suffix_scan_cost {E : Env} {os oe ns ne : Nat} {w w' : World} {p : Nat}
    (h : commonSuffixLen E os oe ns ne w = .ok (p, w')) :
    w'.cmps ≤ w.cmps + p + 1 ∧ p ≤ min (oe - os) (ne - ns) ∧ w'.probes = w.probes ∧ w'.clock = w.clock := by
  obtain ⟨h1, h2, _, _, hc⟩ := commonSuffixLen_spec h
  obtain ⟨c1, c2, _, c4⟩ := hc
  exact ⟨by omega, by omega, c2, c1⟩

/-- comparisons only ever grow: one `cmp` adds exactly one -/
theorem cmp_costs_one {E : Env} {i j : Nat} {w : World} {b : Bool} {w' : World} (h : cmp E i j w = .ok (b, w')) :
    w'.cmps = w.cmps + 1 ∧ w'.probes = w.probes ∧ w'.clock = w.clock := by
  obtain ⟨_, rfl⟩ := cmp_ok h; simp

end SimilarVerif.C19

namespace SimilarVerif.C19
open SimilarVerif Spec

/-- **Myers does work proportional to (N+M+1)·(D+1)**: without a deadline, for every input, the
number of element comparisons of `myers::diff` is at most `22·(N+M+1)·(D+1)`, where
`D = boxD E …` is the size of the shortest edit script (`D + 2·LCS = N + M`).  Holds for any hook that
does not itself compare items (`HookQuiet`), in particular the recording hook.  The constant 22 is
what the proof's potential argument gives (each cell of a diagonal is slid over at most once across
iterations; `⌈D/2⌉` iterations per split; `D(box) = D(left) + D(right)`); measured on the
implementation the ratio stays below 0.9. -/
theorem myers_work_bound (E : Env) (os oe ns ne : Nat) (r : Rec) (w : World) (r' : Rec) (w' : World)
    (ho : os ≤ oe) (hn : ns ≤ ne) (hc : w.clock = none)
    (hrun : myersDiff E recHook os oe ns ne r w = .ok (r', w')) :
    w'.cmps ≤ w.cmps + 22 * (((oe-os) + (ne-ns) + 1) * (MyersT.boxD E os oe ns ne + 1)) :=
  MyersC.myers_cmps_rec E os oe ns ne r w r' w' ho hn hc hrun

/-- `D` of the bound is the shortest-edit-script size: `D + 2·LCS = N + M` -/
theorem D_is_shortest_script (E : Env) (os oe ns ne : Nat) :
    MyersT.boxD E os oe ns ne + 2 * lcsLen (eqB E) (oe-os) (ne-ns) os ns = (oe-os) + (ne-ns) :=
  MyersT.boxD_lcs E os oe ns ne

/-- one `find_middle_snake` call, any clock, any stale array contents -/
theorem middle_snake_cost : type_of% @MyersC.findMiddleSnake_cost := @MyersC.findMiddleSnake_cost

/-- the same bound for `conquer` over any hook that makes no comparisons of its own -/
theorem conquer_work_bound : type_of% @MyersC.conquer_cmps := @MyersC.conquer_cmps

end SimilarVerif.C19

import SimilarVerif.Lemmas.Utils
import SimilarVerif.Lemmas.Myers
/-!
# C19 — Myers and Patience do work proportional to (N+M)·(D+1)

Cost model: `World.cmps` counts evaluations of `new[j] == old[i]`; the correspondence compares it with
a counting element type EXACTLY on every request, so the cost model is validated like any other output.
Proved here (unconditional): each prefix/suffix scan makes at most `common length + 1` comparisons and
touches nothing else of the world. The D-dependent bound `cmps ≤ c·(N+M+1)(D+1)` needs the number of
middle-snake iterations (`⌈D/2⌉+1`: Myers' theory, Lemmas/MyersTheory.lean, in progress) and is until
then established by the `cost` suite only: measured comparisons on near-identical, block-move,
periodic, small/large-alphabet and unrelated inputs up to a few thousand items against the bound.
A theorem cannot exhibit wall-clock time; comparisons are the proxy the property itself names.
-/
namespace SimilarVerif.C19
open SimilarVerif Spec

/-- `common_prefix_len` costs at most `p + 1 ≤ min(n, m) + 1` comparisons and no probe -/
theorem prefix_scan_cost {E : Env} {os oe ns ne : Nat} {w w' : World} {p : Nat}
    (h : commonPrefixLen E os oe ns ne w = .ok (p, w')) :
    w'.cmps ≤ w.cmps + p + 1 ∧ p ≤ min (oe - os) (ne - ns) ∧ w'.probes = w.probes ∧ w'.clock = w.clock := by
  obtain ⟨h1, h2, _, _, hc⟩ := commonPrefixLen_spec h
  obtain ⟨c1, c2, _, c4⟩ := hc
  exact ⟨by omega, by omega, c2, c1⟩

/-- `common_suffix_len` likewise -/
theorem suffix_scan_cost {E : Env} {os oe ns ne : Nat} {w w' : World} {p : Nat}
    (h : commonSuffixLen E os oe ns ne w = .ok (p, w')) :
    w'.cmps ≤ w.cmps + p + 1 ∧ p ≤ min (oe - os) (ne - ns) ∧ w'.probes = w.probes ∧ w'.clock = w.clock := by
  obtain ⟨h1, h2, _, _, hc⟩ := commonSuffixLen_spec h
  obtain ⟨c1, c2, _, c4⟩ := hc
  exact ⟨by omega, by omega, c2, c1⟩

/-- comparisons only ever grow: one `cmp` adds exactly one -/
theorem cmp_costs_one {E : Env} {i j : Nat} {w : World} {b : Bool} {w' : World} (h : cmp E i j w = .ok (b, w')) :
    w'.cmps = w.cmps + 1 ∧ w'.probes = w.probes ∧ w'.clock = w.clock := by
  obtain ⟨_, rfl⟩ := cmp_ok h; simp

end SimilarVerif.C19

import SimilarVerif.Lemmas.Compact
import SimilarVerif.Props.C01
import SimilarVerif.Lemmas.Capture
import SimilarVerif.Lemmas.MyersTotal
import SimilarVerif.Lemmas.CaptureExact
import SimilarVerif.Lemmas.CaptureExactClock
import SimilarVerif.Lemmas.UdiffSub
/-!
# C11 — every captured op carries exact positions in both sequences

The unchanged code VIOLATES this property (known finding `KF-compact-swap`, DESIGN.md §6 D5): the
swap of an adjacent Delete/Insert pair in `shift_diff_ops_up/down` keeps the stale carried index.
Delivered: (a) the concrete counterexample on the shipped model (it is exactly what Myers emits for
`[0,1]` vs `[1,1]`); (b) with the `cfg(similar_verif)` repair of the swap site the clean-up keeps
every index exact, for all valid scripts; (c) the repair touches nothing but carried indices, which
is what makes the attribution of a failing case to the known finding sound; (d) the other stages are
exact: LCS raw streams, Myers raw streams without deadline (relative to the snake hypotheses),
`Replace`; (e) end to end with the repaired swap, `capture_diff` returns exact positions for ALL THREE algorithms and
EVERY clock (`capture_exact_repaired_every_clock`) — also when a deadline expires in the middle of Myers or
Patience.  The deadline case is no longer open: the raw fallback pair `delete; insert` of Myers is not `Exact`
(`expired_deadline_raw_not_exact`), only near-exact (the Insert carries the old position before its Delete), but
the repaired clean-up swaps every such pair at least once and recomputes both carried indices, so the CAPTURED ops
are exact (`CaptureClock.capture_exact_of_near`, `CompactL.cleanup_loose_exact`).  The statements restricted to
`w.clock = none` (`capture_exact_repaired_total`, …) are kept; they are instances.
-/
namespace SimilarVerif.C11
open SimilarVerif Spec

/-- (a) the shipped clean-up breaks exactness on a script that is exact before it -/
theorem shipped_counterexample :
    ∃ (E : Env) (ops : List Op) (o n o' n' : Nat) (w : World) (ops' : List Op) (w' : World),
      NoReplaceOp ops ∧ Walk (eqB E) o n ops o' n' ∧ Exact o n ops ∧
      cleanupDiffOps E false ops w = .ok (ops', w') ∧ ¬ Exact o n ops' :=
  CompactP.cleanup_exact_shipped_counterexample

/-- (b) with the swap repair on, the clean-up keeps all indices exact, for every valid script -/
theorem repaired_cleanup_exact (E : Env) (ops : List Op) (o n o' n' : Nat) (w : World) (ops' : List Op) (w' : World)
    (hnr : NoReplaceOp ops) (hw : Walk (eqB E) o n ops o' n') (hx : Exact o n ops)
    (h : cleanupDiffOps E true ops w = .ok (ops', w')) : Exact o n ops' :=
  CompactP.cleanup_exact E ops o n o' n' w ops' w' hnr hw hx h

/-- (c) shipped and repaired clean-up agree up to carried indices (and on the world), whenever both return -/
theorem repair_only_touches_carried (E : Env) (ops : List Op) (w : World) (a b : List Op) (wa wb : World)
    (h1 : cleanupDiffOps E true ops w = .ok (a, wa)) (h2 : cleanupDiffOps E false ops w = .ok (b, wb)) :
    a.map CompactP.eraseOp = b.map CompactP.eraseOp ∧ wa = wb :=
  CompactP.repair_only_touches_carried_ok E ops w a b wa wb h1 h2

/-- (d) `Replace` keeps exact indices exact -/
theorem replace_keeps_exact (e : Nat → Nat → Bool) (ops : List Op) (o n o' n' : Nat) (w : World)
    (hnr : NoReplaceOp ops) (hw : Walk e o n ops o' n') (hx : Exact o n ops) :
    ∃ out rs, replaceOut ops w = .ok ((rs, { trace := out.map Call.op ++ [.finish] }), w) ∧ Exact o n out := by
  obtain ⟨out, rs, h, _, _, _, _, _, hex⟩ := SimilarVerif.replace_preserves e ops o n o' n' w hnr hw
  exact ⟨out, rs, h, hex hx⟩

/-- (d) LCS raw streams are exact (every clock) -/
theorem lcs_raw_exact (E : Env) (os oe ns ne : Nat) (w : World) (ho : os ≤ oe) (hn : ns ≤ ne)
    (hb : InBounds E os oe ns ne) :
    ∃ ops w', rawTrace .lcs E os oe ns ne w = .ok ({ trace := ops.map Call.op ++ [.finish] }, w') ∧
      Walk (eqB E) os ns ops oe ne ∧ Exact os ns ops := C01.lcs_exact E os oe ns ne w ho hn hb

/-- (d) Myers raw streams are exact without a deadline (relative to the two snake hypotheses) -/
theorem myers_raw_exact (E : Env) (hbox : MyersP.SnakeInBox E) (hfound : MyersP.SnakeFound E) (os oe ns ne : Nat)
    (w : World) (r' : Rec) (w' : World) (ho : os ≤ oe) (hn : ns ≤ ne) (hb : InBounds E os oe ns ne)
    (hclock : w.clock = none) (h : rawTrace .myers E os oe ns ne w = .ok (r', w')) :
    ∃ ops, r'.trace = ops.map Call.op ++ [.finish] ∧ Walk (eqB E) os ns ops oe ne ∧ Exact os ns ops :=
  MyersP.myers_exact E hbox hfound os oe ns ne w r' w' ho hn hb hclock (by simpa [rawTrace, diffWith] using h)

end SimilarVerif.C11

namespace SimilarVerif.C11
open SimilarVerif Spec

/-- **end to end with the repaired swap**: exact raw streams give exact captured ops -/
theorem capture_exact_repaired : type_of% @CaptureP.capture_exact_repaired := @CaptureP.capture_exact_repaired

end SimilarVerif.C11

namespace SimilarVerif.C11
open SimilarVerif Spec

/-- (d) Myers raw streams are exact without a deadline — unconditional -/
theorem myers_raw_exact_uncond (E : Env) (os oe ns ne : Nat) (w : World) (r' : Rec) (w' : World)
    (ho : os ≤ oe) (hn : ns ≤ ne) (hb : InBounds E os oe ns ne) (hclock : w.clock = none)
    (h : rawTrace .myers E os oe ns ne w = .ok (r', w')) :
    ∃ ops, r'.trace = ops.map Call.op ++ [.finish] ∧ Walk (eqB E) os ns ops oe ne ∧ Exact os ns ops :=
  MyersT.myers_exact' E os oe ns ne w r' w' ho hn hb hclock (by simpa [rawTrace, diffWith] using h)

/-- **end to end, Myers with the repaired swap**: every captured op carries exact positions -/
theorem capture_myers_exact_repaired (E : Env) (os oe ns ne : Nat) (w : World)
    (ho : os ≤ oe) (hn : ns ≤ ne) (hb : InBounds E os oe ns ne) (hclock : w.clock = none)
    (ops : List Op) (w' : World) (hc : captureDiff .myers E true os oe ns ne w = .ok (ops, w')) :
    Walk (eqB E) os ns ops oe ne ∧ Exact os ns ops := by
  obtain ⟨raw, w1, hraw, hwr, _, hnr, hw, _, _, _, _, _, hex⟩ :=
    CaptureP.capture_myers_valid E (MyersT.snake_in_box E) true os oe ns ne w ho hn hb ops w' hc
  refine ⟨hw, hex rfl ?_⟩
  obtain ⟨ops2, ht, _, hx2⟩ := MyersT.myers_exact' E os oe ns ne w _ w1 ho hn hb hclock
    (by simpa [rawTrace, diffWith] using hraw)
  have hinj : ∀ (a b : List Op), a.map Call.op = b.map Call.op → a = b := by
    intro a
    induction a with
    | nil => intro b h; cases b <;> simp_all
    | cons x xs ih =>
      intro b h
      cases b with
      | nil => simp at h
      | cons y ys =>
        simp only [List.map_cons, List.cons.injEq, Call.op.injEq] at h
        rw [h.1, ih ys h.2]
  have : ops2 = raw := by
    have h2 : ops2.map Call.op ++ [Call.finish] = raw.map Call.op ++ [Call.finish] := ht.symm.trans rfl
    exact hinj _ _ (List.append_cancel_right h2)
  exact this ▸ hx2

end SimilarVerif.C11

namespace SimilarVerif.C11
open SimilarVerif Spec

/-- (d) LCS never calls `replace`; its raw stream is total, valid and exact for EVERY clock -/
theorem lcs_raw_exact_noReplace : type_of% @CaptureExact.lcs_raw_exact_noReplace :=
  @CaptureExact.lcs_raw_exact_noReplace

/-- **end to end, LCS with the repaired swap** — total, every clock (the LCS fallback after an expired
deadline, `delete` of the rest then `insert` of the rest, carries the position AFTER the delete): every
captured op carries exact positions -/
theorem capture_lcs_exact_repaired (E : Env) (os oe ns ne : Nat) (w : World)
    (ho : os ≤ oe) (hn : ns ≤ ne) (hb : InBounds E os oe ns ne) :
    ∃ ops w', captureDiff .lcs E true os oe ns ne w = .ok (ops, w') ∧
      Walk (eqB E) os ns ops oe ne ∧ Exact os ns ops ∧ Alternating ops :=
  CaptureExact.capture_lcs_exact_repaired E os oe ns ne w ho hn hb

/-- (d) Patience raw streams without a deadline are exact and contain no `replace` call: the delete / insert
calls come from the nested Myers runs (exact without deadline), the equal calls are its own (exact), and no
hook in the stack installs a deadline -/
theorem patience_raw_exact : type_of% @PatienceX.patience_exact := @PatienceX.patience_exact
theorem patience_raw_exact_total : type_of% @CaptureExact.patience_raw_exact_noReplace :=
  @CaptureExact.patience_raw_exact_noReplace

/-- **end to end, Patience with the repaired swap, no deadline** — total -/
theorem capture_patience_exact_repaired (E : Env) (os oe ns ne : Nat) (w : World)
    (ho : os ≤ oe) (hn : ns ≤ ne) (hb : InBounds E os oe ns ne) (hs : CaptureNF.SameSideBounds E os oe ns ne)
    (hclk : w.clock = none) :
    ∃ ops w', captureDiff .patience E true os oe ns ne w = .ok (ops, w') ∧
      Walk (eqB E) os ns ops oe ne ∧ Exact os ns ops ∧ Alternating ops :=
  CaptureExact.capture_patience_exact_repaired E os oe ns ne w ho hn hb hs hclk

/-- **all three algorithms at once**: repaired swap, no deadline, in-bounds ranges — `capture_diff` returns and
every captured op carries exact positions in both sequences -/
theorem capture_exact_repaired_total (alg : Alg) (E : Env) (os oe ns ne : Nat) (w : World)
    (ho : os ≤ oe) (hn : ns ≤ ne) (hb : InBounds E os oe ns ne)
    (hp : alg = .patience → CaptureNF.SameSideBounds E os oe ns ne) (hclk : w.clock = none) :
    ∃ ops w', captureDiff alg E true os oe ns ne w = .ok (ops, w') ∧
      Walk (eqB E) os ns ops oe ne ∧ Exact os ns ops ∧ Alternating ops :=
  CaptureExact.capture_exact_repaired_total alg E os oe ns ne w ho hn hb hp hclk

/-- **all three algorithms, EVERY clock** (strictly stronger than `capture_exact_repaired_total`: no `w.clock = none`):
repaired swap, in-bounds ranges — `capture_diff` returns a valid, alternating script in which every op carries exact
positions in both sequences, also when a deadline expires in the middle of Myers or Patience (the raw fallback pair
`delete; insert` is only near-exact, `expired_deadline_raw_not_exact`; the repaired clean-up swaps it and recomputes
both carried indices) -/
theorem capture_exact_repaired_every_clock' (alg : Alg) (E : Env) (os oe ns ne : Nat) (w : World)
    (ho : os ≤ oe) (hn : ns ≤ ne) (hb : InBounds E os oe ns ne)
    (hp : alg = .patience → CaptureNF.SameSideBounds E os oe ns ne) :
    ∃ ops w', captureDiff alg E true os oe ns ne w = .ok (ops, w') ∧
      Walk (eqB E) os ns ops oe ne ∧ Exact os ns ops ∧ Alternating ops :=
  CaptureClock.capture_exact_repaired_every_clock' alg E os oe ns ne w ho hn hb hp

/-- the same under the headline hypothesis `RangesInBounds`: every algorithm, every world — `capture_diff` with the
repaired swap returns, and every captured op carries exact positions -/
theorem capture_exact_repaired_every_clock (alg : Alg) (E : Env) (os oe ns ne : Nat) (w : World)
    (hr : Headline.RangesInBounds E os oe ns ne) :
    ∃ ops w', captureDiff alg E true os oe ns ne w = .ok (ops, w') ∧ Exact os ns ops :=
  CaptureClock.capture_exact_repaired_every_clock alg E os oe ns ne w hr

/-- **negative side, RAW stream only** (why the route "exact raw stream ⟹ exact captured ops" needs "no deadline" for
Myers and Patience, and `capture_exact_repaired_every_clock` goes through near-exactness instead): with an expired
deadline the raw Myers fallback is `delete; insert` with the insert carrying the old position BEFORE its delete —
allowed by C01's `Carried`, but not `Exact` -/
theorem expired_deadline_raw_not_exact :
    (rawTrace .myers (Env.ofSeqs #[0, 1] #[2, 3]) 0 2 0 2 { clock := some 0 }).map (·.1.trace) =
      .ok [.op (.delete 0 2 0), .op (.insert 0 0 2), .finish] ∧
    Carried 0 0 [.delete 0 2 0, .insert 0 0 2] ∧ ¬ Exact 0 0 [.delete 0 2 0, .insert 0 0 2] :=
  ⟨CaptureExact.expired_raw_myers, CaptureExact.expired_raw_carried, CaptureExact.expired_raw_not_exact⟩

/-- non-vacuity: the hypotheses of the total statements are satisfiable (`[0,1,2]` vs `[0,2,2]`, no deadline) -/
example (alg : Alg) :=
  capture_exact_repaired_total alg (Env.ofSeqs #[0, 1, 2] #[0, 2, 2]) 0 3 0 3 {} (by omega) (by omega)
    (by
      intro i j _ hi _ hj
      have : i = 0 ∨ i = 1 ∨ i = 2 := by omega
      have : j = 0 ∨ j = 1 ∨ j = 2 := by omega
      rcases ‹i = 0 ∨ i = 1 ∨ i = 2› with rfl | rfl | rfl <;>
        rcases ‹j = 0 ∨ j = 1 ∨ j = 2› with rfl | rfl | rfl <;> decide)
    (fun _ => by
      constructor <;>
      · intro i j _ hi _ hj
        have : i = 0 ∨ i = 1 ∨ i = 2 := by omega
        have : j = 0 ∨ j = 1 ∨ j = 2 := by omega
        rcases ‹i = 0 ∨ i = 1 ∨ i = 2› with rfl | rfl | rfl <;>
          rcases ‹j = 0 ∨ j = 1 ∨ j = 2› with rfl | rfl | rfl <;> decide)
    rfl

/-- non-vacuity under an EXPIRING deadline (`[1,0]` vs `[0,0,0]`, clock `some 0`, Myers and Patience): the raw stream
is the fallback pair and the common suffix, its Insert carries old index 0 (true 1): not exact; the repaired
`capture_diff` returns the exact list (the Insert survives `Replace` as a stand-alone op with the exact old index 2),
the shipped one `insert(1,1,2)`: inexact -/
example : ∀ alg : Alg, alg ≠ .lcs →
    (rawTrace alg (Env.ofSeqs #[1, 0] #[0, 0, 0]) 0 2 0 3 { clock := some 0 }).map (·.1.trace) =
      .ok [.op (.delete 0 1 0), .op (.insert 0 0 2), .op (.equal 1 2 1), .finish] ∧
    (captureDiff alg (Env.ofSeqs #[1, 0] #[0, 0, 0]) true 0 2 0 3 { clock := some 0 }).map (·.1) =
      .ok [.delete 0 1 0, .equal 1 0 1, .insert 2 1 2] ∧
    (captureDiff alg (Env.ofSeqs #[1, 0] #[0, 0, 0]) false 0 2 0 3 { clock := some 0 }).map (·.1) =
      .ok [.delete 0 1 0, .equal 1 0 1, .insert 1 1 2] := by
  intro alg h; cases alg
  · exact ⟨by rfl, by rfl, by rfl⟩
  · exact ⟨by rfl, by rfl, by rfl⟩
  · exact absurd rfl h
example : ¬ Exact 0 0 [.delete 0 1 0, .insert 0 0 2, .equal 1 2 1] ∧
    Exact 0 0 [.delete 0 1 0, .equal 1 0 1, .insert 2 1 2] ∧
    ¬ Exact 0 0 [.delete 0 1 0, .equal 1 0 1, .insert 1 1 2] := by
  simp only [Exact]; decide
/-- … and the hypotheses of `capture_exact_repaired_every_clock` hold on this input, in this world -/
example (alg : Alg) :=
  capture_exact_repaired_every_clock alg (Env.ofSeqs #[1, 0] #[0, 0, 0]) 0 2 0 3 { clock := some 0 }
    (Headline.RangesInBounds.of_eqPattern (by decide) (by decide)
      (IdentP.eqPattern_ofSeqs #[1, 0] #[0, 0, 0] 0 0 0 2 0 3 (by decide) (by decide) (by decide) (by decide)))

#print axioms capture_exact_repaired_every_clock'
#print axioms capture_exact_repaired_every_clock
#print axioms lcs_raw_exact_noReplace
#print axioms capture_lcs_exact_repaired
#print axioms patience_raw_exact
#print axioms capture_patience_exact_repaired
#print axioms capture_exact_repaired_total
#print axioms expired_deadline_raw_not_exact

end SimilarVerif.C11

namespace SimilarVerif.C11
open SimilarVerif Spec UdiffP

/-- **hunk extents for sub-range diffs** (every range start `os`, `ns`; `C05.header_counts_match` is the instance
`os = ns = 0`): for every non-empty group `g` of `group_diff_ops` of a valid script with exact positions over the
ranges `os..N`, `ns..M`, with `f` / `l` its first / last op, the extents `f.oStart..l.oEnd`, `f.nStart..l.nEnd` are
ordered and inside the ranges, their lengths are the numbers of old- and new-side lines of the group, and the old /
new indices of its changes are exactly `f.oStart, f.oStart+1, …` resp. `f.nStart, …` -/
theorem hunk_extents_subrange (e : Nat → Nat → Bool) (ops : List Op) (n os ns N M : Nat)
    (hw : Walk e os ns ops N M) (hx : Exact os ns ops) (g : List Op)
    (hg : g ∈ (groupDiffOps ops n).filter fun g => !g.isEmpty) :
    ∃ f l, g.head? = some f ∧ g.getLast? = some l ∧
      os ≤ f.oStart ∧ f.oStart ≤ l.oEnd ∧ l.oEnd ≤ N ∧ ns ≤ f.nStart ∧ f.nStart ≤ l.nEnd ∧ l.nEnd ≤ M ∧
      (allChanges g).countP isOld = l.oEnd - f.oStart ∧
      (allChanges g).countP isNew = l.nEnd - f.nStart ∧
      (allChanges g).filterMap (·.oldIndex) = List.range' f.oStart (l.oEnd - f.oStart) ∧
      (allChanges g).filterMap (·.newIndex) = List.range' f.nStart (l.nEnd - f.nStart) :=
  UdiffSub.header_counts_sub e ops n os ns N M hw hx g hg

#print axioms hunk_extents_subrange

end SimilarVerif.C11

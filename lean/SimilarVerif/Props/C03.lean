import SimilarVerif.Lemmas.LcsMinimal
import SimilarVerif.Lemmas.Compact
import SimilarVerif.Lemmas.Capture
import SimilarVerif.Lemmas.MyersOptimal
import SimilarVerif.Model.Common
/-!
# C03 — Myers and LCS report a shortest edit script; ratio = 2·LCS/(N+M)

`Spec.lcsLen` is the textbook LCS recursion, `Spec.cost = deleted + inserted`.
Status: the lower bound holds for every valid script of every algorithm; **LCS is minimal** (full,
all inputs and sub-ranges, no deadline); the clean-up and `Replace` keep the numbers of deleted,
inserted and equal items (C10), so minimal stays minimal through the capture pipeline. **Myers
is minimal** (full: Lemmas/MyersTheory.lean + MyersOptimal.lean — the split point of every
`find_middle_snake` lies on an optimal path, so the costs of the two halves add up to the optimum).
-/
namespace SimilarVerif.C03
open SimilarVerif Spec

/-- no valid script can do better than `N + M - 2·L` (algorithm independent) -/
theorem cost_lower_bound (e : Nat → Nat → Bool) (ops : List Op) (o n o' n' : Nat) (h : Walk e o n ops o' n') :
    (o' - o) + (n' - n) ≤ Spec.cost ops + 2 * lcsLen e (o' - o) (n' - n) o n :=
  LcsMin.walk_cost_lower h

/-- the equal items of any valid script form a common subsequence -/
theorem equal_items_le_lcs (e : Nat → Nat → Bool) (ops : List Op) (o n o' n' : Nat) (h : Walk e o n ops o' n') :
    nEq ops ≤ lcsLen e (o' - o) (n' - n) o n := LcsMin.walk_nEq_le ops o n o' n' h

/-- **LCS is minimal**: the raw callback stream deletes and inserts exactly `N + M - 2·L` items and
its Equal segments total `L`. -/
theorem lcs_minimal (E : Env) (os oe ns ne : Nat) (w : World) (ho : os ≤ oe) (hn : ns ≤ ne)
    (hb : InBounds E os oe ns ne) (hclk : w.clock = none) :
    ∃ ops w', rawTrace .lcs E os oe ns ne w = .ok ({ trace := ops.map Call.op ++ [.finish] }, w') ∧
      Walk (eqB E) os ns ops oe ne ∧
      nEq ops = lcsLen (eqB E) (oe - os) (ne - ns) os ns ∧
      Spec.cost ops = (oe - os) + (ne - ns) - 2 * lcsLen (eqB E) (oe - os) (ne - ns) os ns := by
  obtain ⟨ops, w', h, hw, _, h4, h5, _⟩ := LcsMin.lcs_minimal E os oe ns ne w ho hn hb hclk
  exact ⟨ops, w', by simpa [rawTrace, diffWith] using h, hw, h4, h5⟩

/-- … i.e. no other valid script for the same ranges is cheaper -/
theorem lcs_beats_every_script (E : Env) (os oe ns ne : Nat) (w : World) (ho : os ≤ oe) (hn : ns ≤ ne)
    (hb : InBounds E os oe ns ne) (hclk : w.clock = none) :
    ∃ ops w', rawTrace .lcs E os oe ns ne w = .ok ({ trace := ops.map Call.op ++ [.finish] }, w') ∧
      ∀ ops', Walk (eqB E) os ns ops' oe ne → Spec.cost ops ≤ Spec.cost ops' := by
  obtain ⟨ops, w', h, hmin⟩ := LcsMin.lcs_minimal_le E os oe ns ne w ho hn hb hclk
  exact ⟨ops, w', by simpa [rawTrace, diffWith] using h, hmin⟩

/-- the clean-up never adds edits: it keeps the numbers of deleted, inserted and equal items -/
theorem cleanup_keeps_cost (E : Env) (repair : Bool) (ops : List Op) (o n o' n' : Nat) (w : World)
    (ops' : List Op) (w' : World) (hnr : NoReplaceOp ops) (hw : Walk (eqB E) o n ops o' n')
    (h : cleanupDiffOps E repair ops w = .ok (ops', w')) :
    Spec.cost ops' = Spec.cost ops ∧ nEq ops' = nEq ops := by
  obtain ⟨_, h1, h2, h3, _⟩ := CompactP.cleanup_preserves E repair ops o n o' n' w ops' w' hnr hw h
  exact ⟨by simp [Spec.cost, h1, h2], h3⟩

/-- the ratio numerator of a script with `L` equal items is `2·L` -/
theorem ratio_is_2L (ops : List Op) (a b L : Nat) (h : nEq ops = L) : ratioPair ops a b = (2 * L, a + b) := by
  subst h
  unfold ratioPair
  have : sumEqual ops = nEq ops := by
    induction ops with
    | nil => rfl
    | cons x xs ih => cases x <;> simp [sumEqual, nEq, ih]
  rw [this]

end SimilarVerif.C03

namespace SimilarVerif.C03
open SimilarVerif Spec

/-- **LCS stays minimal after the capture pipeline's clean-up** -/
theorem capture_lcs_minimal : type_of% @CaptureP.capture_lcs_minimal := @CaptureP.capture_lcs_minimal

end SimilarVerif.C03

namespace SimilarVerif.C03
open SimilarVerif Spec

/-- **Myers is minimal** (no deadline): the raw callback stream is valid, exact, costs exactly
`N + M - 2·L`, and no valid script for the same ranges is cheaper -/
theorem myers_minimal (E : Env) (os oe ns ne : Nat) (w : World) (r' : Rec) (w' : World)
    (ho : os ≤ oe) (hn : ns ≤ ne) (hb : InBounds E os oe ns ne) (hc : w.clock = none)
    (h : rawTrace .myers E os oe ns ne w = .ok (r', w')) :
    ∃ ops, r'.trace = ops.map Call.op ++ [.finish] ∧ Walk (eqB E) os ns ops oe ne ∧ Exact os ns ops ∧
      Spec.cost ops + 2 * lcsLen (eqB E) (oe-os) (ne-ns) os ns = (oe-os) + (ne-ns) ∧
      ∀ ops', Walk (eqB E) os ns ops' oe ne → Spec.cost ops ≤ Spec.cost ops' :=
  MyersT.myers_optimal E os oe ns ne w r' w' ho hn hb hc (by simpa [rawTrace, diffWith] using h)

end SimilarVerif.C03

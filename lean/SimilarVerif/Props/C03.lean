import SimilarVerif.Lemmas.LcsMinimal
import SimilarVerif.Lemmas.Compact
import SimilarVerif.Lemmas.Capture
import SimilarVerif.Lemmas.MyersOptimal
import SimilarVerif.Lemmas.CaptureMinimal
import SimilarVerif.Model.Common
/-!
# C03 — Myers and LCS report a shortest edit script; ratio = 2·LCS/(N+M)

`Spec.lcsLen` is the textbook LCS recursion, `Spec.cost = deleted + inserted`.
Status: the lower bound holds for every valid script of every algorithm; **LCS is minimal** (full,
all inputs and sub-ranges, no deadline); the clean-up and `Replace` keep the numbers of deleted,
inserted and equal items (C10), so minimal stays minimal through the capture pipeline. **Myers
is minimal** (full: Lemmas/MyersTheory.lean + MyersOptimal.lean — the split point of every
`find_middle_snake` lies on an optimal path, so the costs of the two halves add up to the optimum).
-/
namespace SimilarVerif.C03
open SimilarVerif Spec

/-- no valid script can do better than `N + M - 2·L` (algorithm independent) -/
theorem cost_lower_bound (e : Nat → Nat → Bool) (ops : List Op) (o n o' n' : Nat) (h : Walk e o n ops o' n') :
    (o' - o) + (n' - n) ≤ Spec.cost ops + 2 * lcsLen e (o' - o) (n' - n) o n :=
  LcsMin.walk_cost_lower h

/-- the equal items of any valid script form a common subsequence -/
theorem equal_items_le_lcs (e : Nat → Nat → Bool) (ops : List Op) (o n o' n' : Nat) (h : Walk e o n ops o' n') :
    nEq ops ≤ lcsLen e (o' - o) (n' - n) o n := LcsMin.walk_nEq_le ops o n o' n' h

/-- **LCS is minimal**: the raw callback stream deletes and inserts exactly `N + M - 2·L` items and
its Equal segments total `L`. -/
theorem lcs_minimal (E : Env) (os oe ns ne : Nat) (w : World) (ho : os ≤ oe) (hn : ns ≤ ne)
    (hb : InBounds E os oe ns ne) (hclk : w.clock = none) :
    ∃ ops w', rawTrace .lcs E os oe ns ne w = .ok ({ trace := ops.map Call.op ++ [.finish] }, w') ∧
      Walk (eqB E) os ns ops oe ne ∧
      nEq ops = lcsLen (eqB E) (oe - os) (ne - ns) os ns ∧
      Spec.cost ops = (oe - os) + (ne - ns) - 2 * lcsLen (eqB E) (oe - os) (ne - ns) os ns := by
  obtain ⟨ops, w', h, hw, _, h4, h5, _⟩ := LcsMin.lcs_minimal E os oe ns ne w ho hn hb hclk
  exact ⟨ops, w', by simpa [rawTrace, diffWith] using h, hw, h4, h5⟩

/-- … i.e. no other valid script for the same ranges is cheaper -/
theorem lcs_beats_every_script (E : Env) (os oe ns ne : Nat) (w : World) (ho : os ≤ oe) (hn : ns ≤ ne)
    (hb : InBounds E os oe ns ne) (hclk : w.clock = none) :
    ∃ ops w', rawTrace .lcs E os oe ns ne w = .ok ({ trace := ops.map Call.op ++ [.finish] }, w') ∧
      ∀ ops', Walk (eqB E) os ns ops' oe ne → Spec.cost ops ≤ Spec.cost ops' := by
  obtain ⟨ops, w', h, hmin⟩ := LcsMin.lcs_minimal_le E os oe ns ne w ho hn hb hclk
  exact ⟨ops, w', by simpa [rawTrace, diffWith] using h, hmin⟩

/-- the clean-up never adds edits: it keeps the numbers of deleted, inserted and equal items -/
theorem cleanup_keeps_cost (E : Env) (repair : Bool) (ops : List Op) (o n o' n' : Nat) (w : World)
    (ops' : List Op) (w' : World) (hnr : NoReplaceOp ops) (hw : Walk (eqB E) o n ops o' n')
    (h : cleanupDiffOps E repair ops w = .ok (ops', w')) :
    Spec.cost ops' = Spec.cost ops ∧ nEq ops' = nEq ops := by
  obtain ⟨_, h1, h2, h3, _⟩ := CompactP.cleanup_preserves E repair ops o n o' n' w ops' w' hnr hw h
  exact ⟨by simp [Spec.cost, h1, h2], h3⟩

/-- the ratio numerator of a script with `L` equal items is `2·L` -/
theorem ratio_is_2L (ops : List Op) (a b L : Nat) (h : nEq ops = L) : ratioPair ops a b = (2 * L, a + b) := by
  subst h
  unfold ratioPair
  have : sumEqual ops = nEq ops := by
    induction ops with
    | nil => rfl
    | cons x xs ih => cases x <;> simp [sumEqual, nEq, ih]
  rw [this]

end SimilarVerif.C03

namespace SimilarVerif.C03
open SimilarVerif Spec

/-- **LCS stays minimal after the capture pipeline's clean-up** -/
theorem capture_lcs_minimal : type_of% @CaptureP.capture_lcs_minimal := @CaptureP.capture_lcs_minimal

end SimilarVerif.C03

namespace SimilarVerif.C03
open SimilarVerif Spec

/-- **Myers is minimal** (no deadline): the raw callback stream is valid, exact, costs exactly
`N + M - 2·L`, and no valid script for the same ranges is cheaper -/
theorem myers_minimal (E : Env) (os oe ns ne : Nat) (w : World) (r' : Rec) (w' : World)
    (ho : os ≤ oe) (hn : ns ≤ ne) (hb : InBounds E os oe ns ne) (hc : w.clock = none)
    (h : rawTrace .myers E os oe ns ne w = .ok (r', w')) :
    ∃ ops, r'.trace = ops.map Call.op ++ [.finish] ∧ Walk (eqB E) os ns ops oe ne ∧ Exact os ns ops ∧
      Spec.cost ops + 2 * lcsLen (eqB E) (oe-os) (ne-ns) os ns = (oe-os) + (ne-ns) ∧
      ∀ ops', Walk (eqB E) os ns ops' oe ne → Spec.cost ops ≤ Spec.cost ops' :=
  MyersT.myers_optimal E os oe ns ne w r' w' ho hn hb hc (by simpa [rawTrace, diffWith] using h)

end SimilarVerif.C03

namespace SimilarVerif.C03
open SimilarVerif Spec

/-- **the capture pipeline is total after a valid raw run** (any algorithm): if the raw stream is a valid
script with `Carried` indices for in-bounds ranges, `capture_diff` returns and keeps all counts -/
theorem capture_total_after_valid_raw : type_of% @CaptureMin.capture_total_gen := @CaptureMin.capture_total_gen

/-- **Captured Myers diffs are minimal** (no deadline; totality included): `capture_diff` with Myers returns
a valid script with `deleted + inserted = N + M - 2·LCS` and `LCS` equal items, so the ratio pair is
`(2·LCS, N + M)` -/
theorem capture_myers_minimal : type_of% @CaptureMin.capture_myers_minimal := @CaptureMin.capture_myers_minimal

/-- **Captured LCS diffs are minimal**, total form (strengthens `capture_lcs_minimal`) -/
theorem capture_lcs_minimal_total : type_of% @CaptureMin.capture_lcs_minimal_total :=
  @CaptureMin.capture_lcs_minimal_total

#print axioms capture_total_after_valid_raw
#print axioms capture_myers_minimal
#print axioms capture_lcs_minimal_total

/-- non-vacuity: the hypotheses hold for `[1,0]` vs `[1,2,0,1]` (whole ranges, no deadline) … -/
example : (0 ≤ 2) ∧ (0 ≤ 4) ∧ InBounds (Env.ofSeqs #[1,0] #[1,2,0,1]) 0 2 0 4 ∧ ({} : World).clock = none := by
  refine ⟨by decide, by decide, ?_, rfl⟩
  intro i j _ hi _ hj
  have : i = 0 ∨ i = 1 := by omega
  have : j = 0 ∨ j = 1 ∨ j = 2 ∨ j = 3 := by omega
  rcases ‹i = 0 ∨ i = 1› with rfl | rfl <;> rcases ‹j = 0 ∨ j = 1 ∨ j = 2 ∨ j = 3› with rfl | rfl | rfl | rfl <;> decide

/-- … and the captured Myers / LCS scripts are the ones shown: cost `2 = 2 + 4 - 2·2`, two equal items -/
example : (captureDiff .myers (Env.ofSeqs #[1,0] #[1,2,0,1]) false 0 2 0 4 {}).map (·.1) =
    .ok [.equal 0 0 1, .insert 1 1 1, .equal 1 2 1, .insert 2 3 1] := by rfl
example : (captureDiff .lcs (Env.ofSeqs #[1,0] #[1,2,0,1]) false 0 2 0 4 {}).map (·.1) =
    .ok [.equal 0 0 1, .insert 1 1 1, .equal 1 2 1, .insert 2 3 1] := by rfl
example : lcsLen (eqB (Env.ofSeqs #[1,0] #[1,2,0,1])) 2 4 0 0 = 2 := by simp [lcsLen]; decide

end SimilarVerif.C03

-- one headline theorem per property: `SimilarVerif.Headline.Cxx_statement`
import SimilarVerif.Props.Headline.C01
import SimilarVerif.Props.Headline.C02
import SimilarVerif.Props.Headline.C03
import SimilarVerif.Props.Headline.C05
import SimilarVerif.Props.Headline.C06
import SimilarVerif.Props.Headline.C07
import SimilarVerif.Props.Headline.C08
import SimilarVerif.Props.Headline.C10
import SimilarVerif.Props.Headline.C13
import SimilarVerif.Props.Headline.C14
import SimilarVerif.Props.Headline.C15
import SimilarVerif.Props.Headline.C17
import SimilarVerif.Props.Headline.C18
import SimilarVerif.Props.Headline.C19
import SimilarVerif.Props.Headline.C20

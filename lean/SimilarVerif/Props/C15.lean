import SimilarVerif.Props.C01
import SimilarVerif.Lemmas.PatienceTotal
import SimilarVerif.Lemmas.CapturePatience
/-!
# C15 — Patience keeps a maximum in-order set of unique common items

Proved here: (i) every Patience stream that returns is a valid script (C01), so an item reported
Equal is paired with an equal item — for an item occurring exactly once on each side that is its
unique counterpart, never another occurrence; (ii) `unique` returns exactly… (facts about `unique` used
by the soundness proof: indices in range, strictly ascending).  The size clause (the reported set is
as large as the longest common in-order subsequence of the unique items) is `reports_max_in_order_set`
(second half of this file): the outer Myers run over the two unique lists is optimal (hook-generic
Myers optimality), and every pair it reports becomes part of an Equal segment of the user's stream.
`lcsLen` over the two unique lists compared through the items IS that longest common in-order
subsequence: an item unique on one side only matches nothing on the other.
-/
namespace SimilarVerif.C15
open SimilarVerif Spec

/-- every pair of positions an Equal segment of a valid script covers holds equal items -/
theorem equal_segments_pair_equal_items (e : Nat → Nat → Bool) : ∀ (ops : List Op) (o n o' n' : Nat),
    Walk e o n ops o' n' → ∀ co cn len, Op.equal co cn len ∈ ops → ∀ t, t < len → e (co + t) (cn + t) = true := by
  intro ops
  induction ops with
  | nil => intro _ _ _ _ _ co cn len hm; simp at hm
  | cons x xs ih =>
    intro o n o' n' h co cn len hm t ht
    simp only [List.mem_cons] at hm
    cases x with
    | equal a b l =>
      simp only [Walk] at h
      obtain ⟨rfl, rfl, _, he, h5⟩ := h
      rcases hm with hm | hm
      · cases hm; exact he t ht
      · exact ih _ _ _ _ h5 co cn len hm t ht
    | delete a l b =>
      simp only [Walk] at h
      rcases hm with hm | hm
      · cases hm
      · exact ih _ _ _ _ h.2.2 co cn len hm t ht
    | insert a b l =>
      simp only [Walk] at h
      rcases hm with hm | hm
      · cases hm
      · exact ih _ _ _ _ h.2.2 co cn len hm t ht
    | replace a al b bl =>
      simp only [Walk] at h
      rcases hm with hm | hm
      · cases hm
      · exact ih _ _ _ _ h.2.2.2.2 co cn len hm t ht

/-- an anchored item is matched to its unique counterpart: if `old[i]` is reported Equal with `new[j]`
and `j'` is the only new position holding an item equal to `old[i]`, then `j = j'` -/
theorem anchor_matched_to_counterpart (e : Nat → Nat → Bool) (ops : List Op) (o n o' n' : Nat)
    (hw : Walk e o n ops o' n') (co cn len t : Nat) (hm : Op.equal co cn len ∈ ops) (ht : t < len)
    (j' : Nat) (huniq : ∀ j, e (co + t) j = true → j = j') : cn + t = j' :=
  huniq _ (equal_segments_pair_equal_items e ops o n o' n' hw co cn len hm t ht)

/-- Patience streams are valid scripts (relative to the snake hypotheses), so the above applies -/
theorem patience_valid (E : Env) (hboxE : MyersP.SnakeInBox E) (os oe ns ne : Nat)
    (hboxU : ∀ uo un, unique E.oo os oe = some uo → unique E.nn ns ne = some un →
      MyersP.SnakeInBox (E.sub uo.toArray un.toArray))
    (w : World) (r' : Rec) (w' : World) (ho : os ≤ oe) (hn : ns ≤ ne) (hb : InBounds E os oe ns ne)
    (h : rawTrace .patience E os oe ns ne w = .ok (r', w')) : ValidRaw E os oe ns ne r'.trace :=
  C01.patience_partial E hboxE os oe ns ne hboxU w r' w' ho hn hb h

/-- `unique` returns indices of the range in strictly ascending order (independent of any hash order) -/
theorem unique_ascending {eq : Nat → Nat → Option Bool} {s e : Nat} {l : List Nat}
    (h : unique eq s e = some l) : PatienceP.Asc l.toArray s e := PatienceP.unique_asc h

end SimilarVerif.C15

namespace SimilarVerif.C15
open SimilarVerif Spec

/-- Patience streams are valid scripts whenever the call returns — no hypotheses left -/
theorem patience_valid_uncond (E : Env) (os oe ns ne : Nat) (w : World) (r' : Rec) (w' : World)
    (ho : os ≤ oe) (hn : ns ≤ ne) (hb : InBounds E os oe ns ne)
    (h : rawTrace .patience E os oe ns ne w = .ok (r', w')) : ValidRaw E os oe ns ne r'.trace :=
  C01.patience_valid_if_returns E os oe ns ne w r' w' ho hn hb h

end SimilarVerif.C15

namespace SimilarVerif.C15
open SimilarVerif Spec

/-- **the size clause** (no deadline): there is a chain of `lcsLen(unique old, unique new)` anchor
pairs — strictly increasing on both sides — each consisting of equal items and each reported Equal
(covered by an `equal` op of the user's stream at exactly that pair of positions) -/
theorem reports_max_in_order_set : type_of% @PatienceT.patience_lis := @PatienceT.patience_lis

/-- … counted: at least `lcsLen` of the unique old items are reported Equal with their counterpart -/
theorem reported_count_ge_lcs : type_of% @PatienceT.patience_lis_count := @PatienceT.patience_lis_count

/-- every pair the outer run reports is an anchor of equal items and is reported to the user -/
theorem anchors_are_reported : type_of% @PatienceT.patience_anchors_reported := @PatienceT.patience_anchors_reported

end SimilarVerif.C15

namespace SimilarVerif.C15
open SimilarVerif Spec

/-- the raw Patience stream (no deadline) has at least `lcsLen(unique old, unique new)` equal items -/
theorem raw_count_ge_lis : type_of% @CaptureP.patience_raw_nEq_ge_lis := @CaptureP.patience_raw_nEq_ge_lis

/-- **the size clause for the CAPTURED diff** (no deadline, shipped and repaired clean-up): whenever
`capture_diff` with Patience returns, the op list is a valid script whose Equal segments hold at least as
many items as the longest common in-order subsequence of the items unique on each side (the clean-up and
`Replace` keep the number of equal items) -/
theorem captured_count_ge_lis : type_of% @CaptureP.captured_count_ge_lis := @CaptureP.captured_count_ge_lis

/-- … and it does return when the same-side comparisons of `unique` are defined -/
theorem captured_count_ge_lis_total : type_of% @CaptureP.captured_count_ge_lis_total :=
  @CaptureP.captured_count_ge_lis_total

/-- **the pairing clause for the captured diff**: an old item the captured Patience diff reports Equal is
paired with an equal new item; if `j'` is the only new position holding an item equal to it (the item is
unique on the new side), it is paired with exactly that position -/
theorem captured_anchor_matched_to_counterpart (E : Env) (repair : Bool) (os oe ns ne : Nat) (w : World)
    (ops : List Op) (w' : World) (ho : os ≤ oe) (hn : ns ≤ ne) (hb : InBounds E os oe ns ne)
    (hc : captureDiff .patience E repair os oe ns ne w = .ok (ops, w'))
    (co cn len t : Nat) (hm : Op.equal co cn len ∈ ops) (ht : t < len)
    (j' : Nat) (huniq : ∀ j, eqB E (co + t) j = true → j = j') :
    eqB E (co + t) (cn + t) = true ∧ cn + t = j' := by
  have hw := CaptureP.captured_patience_walk E repair os oe ns ne w ho hn hb ops w' hc
  exact ⟨equal_segments_pair_equal_items _ ops _ _ _ _ hw co cn len hm t ht,
    anchor_matched_to_counterpart _ ops _ _ _ _ hw co cn len t hm ht j' huniq⟩

#print axioms raw_count_ge_lis
#print axioms captured_count_ge_lis
#print axioms captured_count_ge_lis_total
#print axioms captured_anchor_matched_to_counterpart

/-! non-vacuity: `[7,1,8,2]` vs `[1,9,2,7]`; unique common items `7,1,2` / `1,2,7`, longest in-order set `1,2` -/

example : (captureDiff .patience (Env.ofSeqs #[7,1,8,2] #[1,9,2,7]) false 0 4 0 4 {}).map (·.1) =
    .ok [.delete 0 1 0, .equal 1 0 1, .replace 2 1 1 1, .equal 3 2 1, .insert 4 3 1] := by rfl

example : (0 ≤ 4) ∧ InBounds (Env.ofSeqs #[7,1,8,2] #[1,9,2,7]) 0 4 0 4 ∧
    (∀ i j, 0 ≤ i → i < 4 → 0 ≤ j → j < 4 → ((Env.ofSeqs #[7,1,8,2] #[1,9,2,7]).oo i j).isSome) ∧
    (∀ i j, 0 ≤ i → i < 4 → 0 ≤ j → j < 4 → ((Env.ofSeqs #[7,1,8,2] #[1,9,2,7]).nn i j).isSome) ∧
    ({} : World).clock = none := by
  have key : ∀ i, i < 4 → i = 0 ∨ i = 1 ∨ i = 2 ∨ i = 3 := by omega
  refine ⟨by decide, ?_, ?_, ?_, rfl⟩ <;>
  · intro i j _ hi _ hj
    rcases key i hi with rfl | rfl | rfl | rfl <;> rcases key j hj with rfl | rfl | rfl | rfl <;> decide

/-- the hypotheses of the pairing clause: `equal 1 0 1` is in the captured list, and new position `0` is
the only one holding an item equal to `old[1]` -/
example : Op.equal 1 0 1 ∈ [Op.delete 0 1 0, .equal 1 0 1, .replace 2 1 1 1, .equal 3 2 1, .insert 4 3 1] ∧
    (0 < 1) ∧ ∀ j, eqB (Env.ofSeqs #[7,1,8,2] #[1,9,2,7]) (1 + 0) j = true → j = 0 := by
  refine ⟨by decide, by decide, ?_⟩
  intro j hj
  by_cases h4 : j < 4
  · have : j = 0 ∨ j = 1 ∨ j = 2 ∨ j = 3 := by omega
    rcases this with rfl | rfl | rfl | rfl <;> first | rfl | (revert hj; decide)
  · exfalso
    have : ([1,9,2,7] : List Nat)[j]? = none := by simp; omega
    simp [eqB, Env.ofSeqs, this] at hj

end SimilarVerif.C15

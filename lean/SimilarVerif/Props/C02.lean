import SimilarVerif.Lemmas.Walk
import SimilarVerif.Lemmas.Replace
import SimilarVerif.Model.Common
import SimilarVerif.Lemmas.Capture
import SimilarVerif.Lemmas.MyersTotal
import SimilarVerif.Lemmas.Identical
import SimilarVerif.Lemmas.F32
/-!
# C02 — captured ops form a valid edit script old → new; ratio in [0,1], 1 iff equal

The capture pipeline is `Compact → Replace → Capture`. This file proves what follows from validity of
the op list (`Walk`) alone — application, coverage, ratio clauses — and the `Replace → Capture` stage
for any valid input script. That `Compact` hands `Replace` a valid script is C10's compaction half
(Lemmas/Compact.lean, in progress), and that the algorithms hand `Compact` a valid script is C01.
-/
namespace SimilarVerif.C02
open SimilarVerif Spec

/-- applying a valid op list to old yields new: it produces exactly the `n' - n` new items, in order -/
theorem apply_yields_new (e : Nat → Nat → Bool) (ops : List Op) (o n o' n' : Nat) (hw : Walk e o n ops o' n') :
    (produced ops).length = n' - n ∧
    ∀ k item, (produced ops)[k]? = some item →
      (item.1 = true → item.2 = n + k) ∧ (item.1 = false → e item.2 (n + k) = true) :=
  walk_replay ops o n o' n' hw

/-- the walk consumes old and new completely: deleted+equal = N, inserted+equal = M -/
theorem consumes_both (e : Nat → Nat → Bool) (ops : List Op) (o n o' n' : Nat) (hw : Walk e o n ops o' n') :
    o' - o = nDel ops + nEq ops ∧ n' - n = nIns ops + nEq ops := by
  have := walk_counts ops o n o' n' hw; omega

/-- `get_diff_ratio` as the exact fraction `2·matches / (N+M)`: the numerator the model computes is
twice the number of equal items -/
theorem ratioPair_eq (ops : List Op) (a b : Nat) : ratioPair ops a b = (2 * nEq ops, a + b) := by
  unfold ratioPair
  have : sumEqual ops = nEq ops := by
    induction ops with
    | nil => rfl
    | cons x xs ih => cases x <;> simp [sumEqual, nEq, ih]
  rw [this]

/-- **ratio ∈ [0,1]**: `2·matches ≤ N+M` for every valid op list -/
theorem ratio_le_one (e : Nat → Nat → Bool) (ops : List Op) (o n o' n' : Nat) (hw : Walk e o n ops o' n') :
    (ratioPair ops (o' - o) (n' - n)).1 ≤ (ratioPair ops (o' - o) (n' - n)).2 := by
  rw [ratioPair_eq]; have := consumes_both e ops o n o' n' hw; simp only; omega

/-- **ratio = 1 exactly when nothing is deleted or inserted** … -/
theorem ratio_eq_one_iff (e : Nat → Nat → Bool) (ops : List Op) (o n o' n' : Nat) (hw : Walk e o n ops o' n') :
    (ratioPair ops (o' - o) (n' - n)).1 = (ratioPair ops (o' - o) (n' - n)).2 ↔ nDel ops = 0 ∧ nIns ops = 0 := by
  rw [ratioPair_eq]; have := consumes_both e ops o n o' n' hw; simp only; omega

/-- … and a valid op list without deletions and insertions exists only for element-wise equal ranges -/
theorem no_changes_iff_equal (e : Nat → Nat → Bool) : ∀ (ops : List Op) (o n o' n' : Nat), Walk e o n ops o' n' →
    nDel ops = 0 → nIns ops = 0 → o' - o = n' - n ∧ ∀ t, t < o' - o → e (o + t) (n + t) = true := by
  intro ops
  induction ops with
  | nil => intro o n o' n' h _ _; obtain ⟨rfl, rfl⟩ := h; simp
  | cons x xs ih =>
    intro o n o' n' h hd hi
    cases x with
    | equal co cn len =>
      simp only [Walk] at h
      obtain ⟨rfl, rfl, hl, he, h5⟩ := h
      have hc := walk_counts _ _ _ _ _ h5
      obtain ⟨ih1, ih2⟩ := ih _ _ _ _ h5 (by simpa [nDel] using hd) (by simpa [nIns] using hi)
      refine ⟨by omega, ?_⟩
      intro t ht
      by_cases htl : t < len
      · exact he t htl
      · have := ih2 (t - len) (by omega)
        rwa [show co + len + (t - len) = co + t from by omega, show cn + len + (t - len) = cn + t from by omega] at this
    | delete co len cn => simp only [Walk] at h; simp [nDel] at hd; omega
    | insert co cn len => simp only [Walk] at h; simp [nIns] at hi; omega
    | replace co ol cn nl => simp only [Walk] at h; simp [nDel] at hd; omega

/-- the `Replace → Capture` stage: any valid script becomes a valid op list for the same sequences -/
theorem replace_capture_valid (e : Nat → Nat → Bool) (ops : List Op) (o n o' n' : Nat) (w : World)
    (hnr : NoReplaceOp ops) (hw : Walk e o n ops o' n') :
    ∃ out rs, replaceOut ops w = .ok ((rs, { trace := out.map Call.op ++ [.finish] }), w) ∧ Walk e o n out o' n' := by
  obtain ⟨out, rs, h, hw', _⟩ := SimilarVerif.replace_preserves e ops o n o' n' w hnr hw
  exact ⟨out, rs, h, hw'⟩

/-- non-vacuity -/
example : Walk (fun i j => i + (if 2 < j then 1 else 0) == j) 0 0 [.equal 0 0 2, .replace 2 1 2 2, .equal 3 4 1] 4 5 := by
  simp [Walk]; intro t ht; omega

/-! ### the `f32` value of `get_diff_ratio`

`get_diff_ratio` returns `2.0 * matches as f32 / len as f32` (`1.0` for `len = 0`); in the model that is the
soft-float bit pattern `F32.ratio matches len` (Model/F32.lean, compared bit for bit with the implementation
and with native `Float32` on every request). -/

/-- the `f32` ratio of a valid op list is never above `1.0` — for every size -/
theorem ratio_f32_le_one (e : Nat → Nat → Bool) (ops : List Op) (o n o' n' : Nat) (hw : Walk e o n ops o' n') :
    F32.ratio (nEq ops) ((o' - o) + (n' - n)) ≤ F32.one := by
  have h := ratio_le_one e ops o n o' n' hw
  rw [ratioPair_eq] at h
  exact F32.ratio_le_one h

/-- … and below 2^24 items overall it is exactly `1.0` iff nothing is deleted or inserted (C02's "1.0 exactly when
the inputs are equal"; with `no_changes_iff_equal`). The size bound is needed: see `ratio_f32_one_needs_bound`. -/
theorem ratio_f32_eq_one_iff (e : Nat → Nat → Bool) (ops : List Op) (o n o' n' : Nat) (hw : Walk e o n ops o' n')
    (hsz : (o' - o) + (n' - n) < 2 ^ 24) :
    F32.ratio (nEq ops) ((o' - o) + (n' - n)) = F32.one ↔ nDel ops = 0 ∧ nIns ops = 0 := by
  have h := ratio_le_one e ops o n o' n' hw
  have h2 := ratio_eq_one_iff e ops o n o' n' hw
  rw [ratioPair_eq] at h h2
  simp only at h h2
  rw [F32.ratio_eq_one_iff hsz h, ← h2]
  constructor
  · rintro (h0 | h0) <;> omega
  · intro h0; exact Or.inr h0

/-- beyond 2^24 items the `f32` ratio of a diff WITH a change can round to `1.0`: 2^23 equal items and one
inserted item (`len = 2^24 + 1` is not representable and rounds down) -/
theorem ratio_f32_one_needs_bound : F32.ratio (2 ^ 23) (2 ^ 24 + 1) = F32.one := by decide +kernel

#print axioms ratio_f32_le_one
#print axioms ratio_f32_eq_one_iff
#print axioms ratio_f32_one_needs_bound

end SimilarVerif.C02

namespace SimilarVerif.C02
open SimilarVerif Spec

/-- **the capture pipeline factorises** into raw stream → clean-up → Replace → Capture -/
theorem capture_is_pipeline : type_of% @CaptureP.capture_factor := @CaptureP.capture_factor

/-- **end to end, LCS** (unconditional in the inputs; every clock): whatever `capture_diff_deadline`
returns is a valid op list for the two ranges, with the item counts of the raw stream, alternating -/
theorem capture_lcs_valid : type_of% @CaptureP.capture_lcs_valid := @CaptureP.capture_lcs_valid

/-- end to end, Myers (relative to `SnakeInBox`) -/
theorem capture_myers_valid : type_of% @CaptureP.capture_myers_valid := @CaptureP.capture_myers_valid

/-- end to end, Patience (relative to `SnakeInBox` for the sequences and the unique lists) -/
theorem capture_patience_valid : type_of% @CaptureP.capture_patience_valid := @CaptureP.capture_patience_valid

end SimilarVerif.C02

namespace SimilarVerif.C02
open SimilarVerif Spec

/-- end to end, Myers — unconditional: whatever `capture_diff_deadline(Myers, …)` returns is a valid,
alternating op list for the two ranges with the item counts of the raw stream, for every clock -/
theorem capture_myers_valid_uncond (E : Env) (repair : Bool) (os oe ns ne : Nat) (w : World)
    (ho : os ≤ oe) (hn : ns ≤ ne) (hb : InBounds E os oe ns ne) (ops : List Op) (w' : World)
    (hc : captureDiff .myers E repair os oe ns ne w = .ok (ops, w')) :
    Walk (eqB E) os ns ops oe ne ∧ Alternating ops := by
  obtain ⟨_, _, _, _, _, _, hw, _, _, _, ha, _⟩ :=
    CaptureP.capture_myers_valid E (MyersT.snake_in_box E) repair os oe ns ne w ho hn hb ops w' hc
  exact ⟨hw, ha⟩

/-- end to end, Patience — unconditional -/
theorem capture_patience_valid_uncond (E : Env) (repair : Bool) (os oe ns ne : Nat) (w : World)
    (ho : os ≤ oe) (hn : ns ≤ ne) (hb : InBounds E os oe ns ne) (ops : List Op) (w' : World)
    (hc : captureDiff .patience E repair os oe ns ne w = .ok (ops, w')) :
    Walk (eqB E) os ns ops oe ne ∧ Alternating ops := by
  obtain ⟨_, _, _, _, _, hw, _, _, _, ha, _⟩ :=
    CaptureP.capture_patience_valid E (MyersT.snake_in_box E) repair os oe ns ne
      (fun _ _ _ _ => MyersT.snake_in_box _) w ho hn hb ops w' hc
  exact ⟨hw, ha⟩

/-- **Identical inputs give only Equal ops** — every algorithm, every clock, both settings of the repair
switch, reversed/empty ranges included: if the two ranges have the same length `n` and agree position by
position, `capture_diff_deadline` returns exactly `[Equal(os, ns, n)]` (nothing at all for `n = 0`), never
panics, and never consults the deadline.  For Patience the same-side tests must be consistent with the cross
tests (`EqPattern`: they come from two label sequences); without that an `Env` exists on which Patience
reports `[Equal 0 0 2, Replace 2 1 2 1]` for diagonal-equal ranges (recorded in Lemmas/Identical.lean). -/
theorem identical_inputs_only_equal : type_of% @IdentQ.captureDiff_identical := @IdentQ.captureDiff_identical

/-- Myers and LCS: no hypothesis on same-side tests, exact comparison count `n` -/
theorem identical_inputs_only_equal_myers_lcs : type_of% @IdentQ.captureDiff_ident := @IdentQ.captureDiff_ident

/-- the raw callback streams for identical inputs: one `equal` (Myers, LCS), a list of `equal`s (Patience) -/
theorem identical_inputs_raw : type_of% @IdentQ.rawTrace_ident := @IdentQ.rawTrace_ident
theorem identical_inputs_raw_patience : type_of% @IdentQ.rawTrace_patience_ident := @IdentQ.rawTrace_patience_ident

end SimilarVerif.C02

import SimilarVerif.Lemmas.Inline
import SimilarVerif.Lemmas.F32
/-!
# C16 — inline changes re-split each line losslessly; only changed words are emphasised

Model: `inlineChanges` (Model/Inline.lean) = `iter_inline_changes`.  The word segmentation of each
line (`tokenize_unicode_words`) is external: a parameter with the contract `SegsOK` (non-empty lines,
each partitioned into non-empty words) checked on every harness case.  The second-level diff (Patience
over the words) enters only through "its captured ops are a valid script" (C02), an explicit
hypothesis `Walk e2 …`.  The two `< 0.5` gates are soft-float comparisons `F32.lt · F32.half` on the ratio
bits (Model/F32.lean): BOTH outcomes are covered (gate taken → plain expansion; not taken → refined
expansion), so nothing depends on float behaviour; `gate_fires_iff` says when they fire.
Statements in Lemmas/Inline.lean; `type_of%` keeps them in sync.
Observation while proving (outside C16's quantifier, which is about line texts): for a line diff built
with `from_slices` that contains an EMPTY line slice the refined expansion drops that line's change
(no word → no value vector); tokenizer lines are never empty (C06), so line texts cannot trigger it.
-/
namespace SimilarVerif.C16
open SimilarVerif Spec InlineP

/-- Equal / Delete / Insert ops expand exactly like the plain expansion (one unemphasised segment) -/
theorem non_replace_is_plain : type_of% @inlineChanges_nonReplace := @inlineChanges_nonReplace

/-- first ratio gate taken: plain expansion -/
theorem gate1_is_plain : type_of% @inlineChanges_gate1 := @inlineChanges_gate1

/-- second ratio gate taken: plain expansion -/
theorem gate2_is_plain : type_of% @inlineChanges_gate2 := @inlineChanges_gate2

/-- when a gate fires, in exact arithmetic (below 2^24 items): `2·a/b < 0.5` in `f32` iff `4·a < b` -/
theorem gate_fires_iff {a b : Nat} (hb : b < 2^24) (hb0 : 0 < b) :
    F32.lt (ratioF a b) F32.half = true ↔ 4 * a < b := F32.ratio_lt_half_iff hb hb0

/-- the plain expansion has the tags, indices and values of `iter_changes` -/
theorem plain_matches_changes : type_of% @inlinePlain_ok := @inlinePlain_ok

/-- **refined expansion of a Replace op**: same tags and old/new indices as the plain expansion, the
segments of each change concatenate to exactly the line of the corresponding plain change, every
emphasised segment is a non-newline run of the lines-and-newlines tokenizer and is non-empty, and the
missing-newline flag agrees with the line -/
theorem replace_refined : type_of% @inlineChanges_replace := @inlineChanges_replace

/-- emphasised segments never contain a line-break character … -/
theorem emphasised_no_linebreak : type_of% @emphOK_noNL := @emphOK_noNL

/-- … because non-newline tokens of the byte lines-and-newlines tokenizer contain no `\n` / `\r` -/
theorem lnl_bytes_no_linebreak : type_of% @lnlNoNL_B := @lnlNoNL_B

end SimilarVerif.C16

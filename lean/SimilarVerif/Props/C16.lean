import SimilarVerif.Lemmas.Inline
import SimilarVerif.Lemmas.F32
import SimilarVerif.Lemmas.InlineTotal
/-!
# C16 — inline changes re-split each line losslessly; only changed words are emphasised

Model: `inlineChanges` (Model/Inline.lean) = `iter_inline_changes`.  The word segmentation of each
line (`tokenize_unicode_words`) is external: a parameter with the contract `SegsOK` (non-empty lines,
each partitioned into non-empty words) checked on every harness case.  The second-level diff (Patience
over the words) enters only through "its captured ops are a valid script" (C02), an explicit
hypothesis `Walk e2 …`.  The two `< 0.5` gates are soft-float comparisons `F32.lt · F32.half` on the ratio
bits (Model/F32.lean): BOTH outcomes are covered (gate taken → plain expansion; not taken → refined
expansion), so nothing depends on float behaviour; `gate_fires_iff` says when they fire.
Statements in Lemmas/Inline.lean; `type_of%` keeps them in sync.
Observation while proving (outside C16's quantifier, which is about line texts): for a line diff built
with `from_slices` that contains an EMPTY line slice the refined expansion drops that line's change
(no word → no value vector); tokenizer lines are never empty (C06), so line texts cannot trigger it.
-/
namespace SimilarVerif.C16
open SimilarVerif Spec InlineP

/-- Equal / Delete / Insert ops expand exactly like the plain expansion (one unemphasised segment) -/
theorem non_replace_is_plain : type_of% @inlineChanges_nonReplace := @inlineChanges_nonReplace

/-- first ratio gate taken: plain expansion -/
theorem gate1_is_plain : type_of% @inlineChanges_gate1 := @inlineChanges_gate1

/-- second ratio gate taken: plain expansion -/
theorem gate2_is_plain : type_of% @inlineChanges_gate2 := @inlineChanges_gate2

/-- when a gate fires, in exact arithmetic (below 2^24 items): `2·a/b < 0.5` in `f32` iff `4·a < b` -/
theorem gate_fires_iff {a b : Nat} (hb : b < 2^24) (hb0 : 0 < b) :
    F32.lt (ratioF a b) F32.half = true ↔ 4 * a < b := F32.ratio_lt_half_iff hb hb0

/-- the plain expansion has the tags, indices and values of `iter_changes` -/
theorem plain_matches_changes : type_of% @inlinePlain_ok := @inlinePlain_ok

/-- **refined expansion of a Replace op**: same tags and old/new indices as the plain expansion, the
segments of each change concatenate to exactly the line of the corresponding plain change, every
emphasised segment is a non-newline run of the lines-and-newlines tokenizer and is non-empty, and the
missing-newline flag agrees with the line -/
theorem replace_refined : type_of% @inlineChanges_replace := @inlineChanges_replace

/-- emphasised segments never contain a line-break character … -/
theorem emphasised_no_linebreak : type_of% @emphOK_noNL := @emphOK_noNL

/-- … because non-newline tokens of the byte lines-and-newlines tokenizer contain no `\n` / `\r` -/
theorem lnl_bytes_no_linebreak : type_of% @lnlNoNL_B := @lnlNoNL_B

end SimilarVerif.C16

namespace SimilarVerif.C16
open SimilarVerif Spec InlineP

/-- hypothesis (ii) discharged: the second-level diff (`capture_diff` over the word tokens, any algorithm, any
clock, both clean-up variants) returns, and what it returns is a valid script over the two word lists -/
theorem second_level_total : type_of% @InlineTotal.capture_tokens_total := @InlineTotal.capture_tokens_total
theorem second_level_valid : type_of% @InlineTotal.capture_tokens_walk := @InlineTotal.capture_tokens_walk

/-- **`replace_refined` without hypothesis (ii)**: only the segmenter's contract `SegsOK` is left -/
theorem replace_refined_uncond : type_of% @InlineTotal.replace_refined_uncond := @InlineTotal.replace_refined_uncond

/-- **`iter_inline_changes` never panics**: for every op of a valid line diff over non-empty line tokens and
segmentations satisfying `SegsOK`, it returns `.ok` with the properties of `non_replace_is_plain` /
`replace_refined` (whichever of the two gates fires or not) -/
theorem inline_changes_total : type_of% @InlineTotal.inline_changes_total := @InlineTotal.inline_changes_total

/-- the same for a word segmenter `sg` with the contract "every non-empty line is partitioned into non-empty words" -/
theorem inline_changes_total_segmenter : type_of% @InlineTotal.inline_changes_total_segmenter :=
  @InlineTotal.inline_changes_total_segmenter

/-- from the two texts: line tiling, any algorithm, any clock — the line diff returns and every op refines -/
theorem inline_text_diff_total : type_of% @InlineTotal.inline_text_diff_total := @InlineTotal.inline_text_diff_total

/-- non-vacuity of the segmenter contract: one word per line -/
example : ∀ line : Bytes, line ≠ [] → Partition ((fun l : Bytes => [l.length]) line) line.length := by
  intro line h
  have : 0 < line.length := List.length_pos_iff.2 h
  simp [Partition]
  omega

/-- … so the end-to-end theorem applies, e.g. to the byte line tokenizer, the byte lines-and-newlines tokenizer
and the one-word-per-line segmenter, for every algorithm and clock -/
example (alg : Alg) (bo bn : Bytes) (w0 : World) :=
  inline_text_diff_total tokenizeLinesAndNewlinesB TokP.tokenizeLinesAndNewlinesB_tiling (fun l => [l.length])
    (by intro line h; have : 0 < line.length := List.length_pos_iff.2 h; simp [Partition]; omega)
    alg false bo bn _ _ (TokP.tokenizeLinesB_tiling bo) (TokP.tokenizeLinesB_tiling bn) w0

#print axioms second_level_total
#print axioms replace_refined_uncond
#print axioms inline_changes_total
#print axioms inline_changes_total_segmenter
#print axioms inline_text_diff_total

end SimilarVerif.C16

import SimilarVerif.Lemmas.Udiff
import SimilarVerif.Lemmas.Compact
/-!
# C05 — rendered unified diffs are well-formed and apply exactly

Model: `renderUnified` (Model/Udiff.lean) = `UnifiedDiff` `Display` (lossy) / `to_writer` (raw bytes).
Spec: structured hunks and a STRICT applier on the old line array (Spec/Udiff.lean).
The renderer reads hunk positions from the first and last op of each group, so the theorems need
ops that carry exact positions (`Exact 0 0 ops`, C11).  The unchanged code violates C11 at one site
(known finding `KF-compact-swap`), and that is exactly how C05 fails on the unchanged tree
(`KF-compact-swap-udiff`): the theorems below are the property under `Exact`, i.e. for the repaired
swap; `unified_needs_exact` shows the hypothesis cannot be dropped.  Byte-level parsing of the
rendered text is not formalised (the harness validator parses and applies the real output strictly).
-/
namespace SimilarVerif.C05
open SimilarVerif Spec UdiffP

/-- **The renderer never fails and prints exactly the structured hunks that patch `old` into `new`**:
for every valid, exact, alternating op list over the two line arrays, every radius, header setting,
newline mode and both output paths. -/
theorem unified_applies (old new : Array Bytes) (e : Nat → Nat → Bool) (he : Sound old new e)
    (ops : List Op) (n : Nat) (header : Option (Bytes × Bytes)) (nlt hint isLossy : Bool)
    (hw : Walk e 0 0 ops old.size new.size) (hx : Exact 0 0 ops) (hv : AltOps ops) :
    ∃ hs, hunksOf old new ((groupDiffOps ops n).filter fun g => !g.isEmpty) = some hs ∧
      applyHunks old hs = some new.toList ∧
      renderUnified n header ops old new nlt hint isLossy =
        .ok (if hs = [] then [] else fileHeader header ++ hs.flatMap (renderSHunk nlt hint isLossy)) :=
  render_unified old new e he ops n header nlt hint isLossy hw hx hv

/-- header counts equal body counts and the start lines are the true positions -/
theorem header_counts_match (e : Nat → Nat → Bool) (ops : List Op) (n N M : Nat)
    (hw : Walk e 0 0 ops N M) (hx : Exact 0 0 ops) (g : List Op)
    (hg : g ∈ (groupDiffOps ops n).filter fun g => !g.isEmpty) :
    ∃ f l, g.head? = some f ∧ g.getLast? = some l ∧
      f.oStart ≤ l.oEnd ∧ l.oEnd ≤ N ∧ f.nStart ≤ l.nEnd ∧ l.nEnd ≤ M ∧
      (allChanges g).countP isOld = l.oEnd - f.oStart ∧
      (allChanges g).countP isNew = l.nEnd - f.nStart ∧
      (allChanges g).filterMap (·.oldIndex) = List.range' f.oStart (l.oEnd - f.oStart) ∧
      (allChanges g).filterMap (·.newIndex) = List.range' f.nStart (l.nEnd - f.nStart) :=
  header_counts e ops n N M hw hx g hg

/-- hunks come in strictly increasing, non-overlapping order on both sides and stay inside the texts -/
theorem hunks_increasing (old new : Array Bytes) (e : Nat → Nat → Bool) (ops : List Op) (n N M : Nat)
    (hw : Walk e 0 0 ops N M) (hx : Exact 0 0 ops) (hs : List SHunk)
    (hh : hunksOf old new ((groupDiffOps ops n).filter fun g => !g.isEmpty) = some hs) :
    hs.Pairwise Before ∧ ∀ h ∈ hs, InRange N M h := hunks_ordered old new e ops n N M hw hx hs hh

/-- equal inputs render as the empty string, with or without a configured header -/
theorem equal_inputs_render_empty (ops : List Op) (n : Nat) (header : Option (Bytes × Bytes)) (old new : Array Bytes)
    (nlt hint isLossy : Bool) (hv : AltOps ops) (h : changesOf ops = []) :
    renderUnified n header ops old new nlt hint isLossy = .ok [] :=
  render_no_changes ops n header old new nlt hint isLossy hv h

/-- every hunk contains a change, with at most `radius` context lines at each edge -/
theorem hunk_shape (ops : List Op) (n : Nat) (hv : AltOps ops) (g : List Op) (hg : g ∈ groupDiffOps ops n) :
    ∃ lead core trail, allChanges g = lead ++ core ++ trail ∧
      (∀ c ∈ lead, c.tag = .equal) ∧ lead.length ≤ n ∧ (∀ c ∈ trail, c.tag = .equal) ∧ trail.length ≤ n ∧
      (∃ c, core.head? = some c ∧ c.tag ≠ .equal) ∧ (∃ c, core.getLast? = some c ∧ c.tag ≠ .equal) :=
  hunk_context ops n hv g hg

/-- deletions before insertions inside every run of changes (for strictly alternating ops, C09) -/
theorem deletions_before_insertions (ops : List Op) (n : Nat) (hv : AltOps ops)
    (ha : SAltT (ops.map Op.tag)) (g : List Op) (hg : g ∈ groupDiffOps ops n) : NoID (allChanges g) :=
  hunk_no_insert_before_delete ops n hv ha g hg

/-- one body line: tag byte, the line's bytes (raw for the writer, lossily decoded for `Display`),
a newline iff the diff is not newline-terminated, and the marker exactly on lines lacking a terminator -/
theorem body_line_format (old new : Array Bytes) (nlt hint isLossy : Bool) (c : Change) (v : Bytes)
    (hv : changeValue old new c = .ok v) :
    renderChange old new nlt hint isLossy c = .ok (renderLine nlt hint isLossy (c.tag, v)) :=
  renderChange_eq old new nlt hint isLossy c v hv

/-- the `@@ -a,b +c,d @@` range format: `len = 1` prints the start alone, an empty range starts one
line earlier -/
theorem range_format (s e : Nat) :
    (e - s = 1 → hunkRange s e = natBytes (s + 1)) ∧
    (e - s = 0 → hunkRange s e = natBytes s ++ ascii "," ++ natBytes 0) ∧
    (2 ≤ e - s → hunkRange s e = natBytes (s + 1) ++ ascii "," ++ natBytes (e - s)) := hunkRange_format s e

/-- **the hypothesis `Exact` cannot be dropped, and the shipped clean-up does not provide it**: the
captured ops of `b,a → a,a` (token level `[0,1]` vs `[1,1]`) have header positions that are wrong. -/
theorem unified_needs_exact :
    ∃ (E : Env) (ops : List Op) (o n o' n' : Nat) (w : World) (ops' : List Op) (w' : World),
      NoReplaceOp ops ∧ Walk (eqB E) o n ops o' n' ∧ Exact o n ops ∧
      cleanupDiffOps E false ops w = .ok (ops', w') ∧ ¬ Exact o n ops' :=
  CompactP.cleanup_exact_shipped_counterexample

end SimilarVerif.C05

import SimilarVerif.Lemmas.Udiff
import SimilarVerif.Lemmas.Compact
import SimilarVerif.Lemmas.UdiffParse
import SimilarVerif.Lemmas.UdiffLossy
/-!
# C05 — rendered unified diffs are well-formed and apply exactly

Model: `renderUnified` (Model/Udiff.lean) = `UnifiedDiff` `Display` (lossy) / `to_writer` (raw bytes).
Spec: structured hunks and a STRICT applier on the old line array (Spec/Udiff.lean).
The renderer reads hunk positions from the first and last op of each group, so the theorems need
ops that carry exact positions (`Exact 0 0 ops`, C11).  The unchanged code violates C11 at one site
(known finding `KF-compact-swap`), and that is exactly how C05 fails on the unchanged tree
(`KF-compact-swap-udiff`): the theorems below are the property under `Exact`, i.e. for the repaired
swap; `unified_needs_exact` shows the hypothesis cannot be dropped.  Byte level: a strict parser of the
unified format (Spec/UdiffParse.lean: header lines, `@@ -a,b +c,d @@` with the one-number and `,0` forms,
bodies read by the header's counts, `\ No newline at end of file` markers, `\n` / `\r\n` / lone `\r`
terminators) is proved to read back exactly the structured hunks from the printed bytes
(`parse_of_rendered`), so "well-formed and applies exactly" is a theorem about the TEXT; the harness
validator parses and applies the real output of the implementation in the same strict way.
-/
namespace SimilarVerif.C05
open SimilarVerif Spec UdiffP

/-- **The renderer never fails and prints exactly the structured hunks that patch `old` into `new`**:
for every valid, exact, alternating op list over the two line arrays, every radius, header setting,
newline mode and both output paths. -/
theorem unified_applies (old new : Array Bytes) (e : Nat → Nat → Bool) (he : Sound old new e)
    (ops : List Op) (n : Nat) (header : Option (Bytes × Bytes)) (nlt hint isLossy : Bool)
    (hw : Walk e 0 0 ops old.size new.size) (hx : Exact 0 0 ops) (hv : AltOps ops) :
    ∃ hs, hunksOf old new ((groupDiffOps ops n).filter fun g => !g.isEmpty) = some hs ∧
      applyHunks old hs = some new.toList ∧
      renderUnified n header ops old new nlt hint isLossy =
        .ok (if hs = [] then [] else fileHeader header ++ hs.flatMap (renderSHunk nlt hint isLossy)) :=
  render_unified old new e he ops n header nlt hint isLossy hw hx hv

/-- header counts equal body counts and the start lines are the true positions -/
theorem header_counts_match (e : Nat → Nat → Bool) (ops : List Op) (n N M : Nat)
    (hw : Walk e 0 0 ops N M) (hx : Exact 0 0 ops) (g : List Op)
    (hg : g ∈ (groupDiffOps ops n).filter fun g => !g.isEmpty) :
    ∃ f l, g.head? = some f ∧ g.getLast? = some l ∧
      f.oStart ≤ l.oEnd ∧ l.oEnd ≤ N ∧ f.nStart ≤ l.nEnd ∧ l.nEnd ≤ M ∧
      (allChanges g).countP isOld = l.oEnd - f.oStart ∧
      (allChanges g).countP isNew = l.nEnd - f.nStart ∧
      (allChanges g).filterMap (·.oldIndex) = List.range' f.oStart (l.oEnd - f.oStart) ∧
      (allChanges g).filterMap (·.newIndex) = List.range' f.nStart (l.nEnd - f.nStart) :=
  header_counts e ops n N M hw hx g hg

/-- hunks come in strictly increasing, non-overlapping order on both sides and stay inside the texts -/
theorem hunks_increasing (old new : Array Bytes) (e : Nat → Nat → Bool) (ops : List Op) (n N M : Nat)
    (hw : Walk e 0 0 ops N M) (hx : Exact 0 0 ops) (hs : List SHunk)
    (hh : hunksOf old new ((groupDiffOps ops n).filter fun g => !g.isEmpty) = some hs) :
    hs.Pairwise Before ∧ ∀ h ∈ hs, InRange N M h := hunks_ordered old new e ops n N M hw hx hs hh

/-- equal inputs render as the empty string, with or without a configured header -/
theorem equal_inputs_render_empty (ops : List Op) (n : Nat) (header : Option (Bytes × Bytes)) (old new : Array Bytes)
    (nlt hint isLossy : Bool) (hv : AltOps ops) (h : changesOf ops = []) :
    renderUnified n header ops old new nlt hint isLossy = .ok [] :=
  render_no_changes ops n header old new nlt hint isLossy hv h

/-- every hunk contains a change, with at most `radius` context lines at each edge -/
theorem hunk_shape (ops : List Op) (n : Nat) (hv : AltOps ops) (g : List Op) (hg : g ∈ groupDiffOps ops n) :
    ∃ lead core trail, allChanges g = lead ++ core ++ trail ∧
      (∀ c ∈ lead, c.tag = .equal) ∧ lead.length ≤ n ∧ (∀ c ∈ trail, c.tag = .equal) ∧ trail.length ≤ n ∧
      (∃ c, core.head? = some c ∧ c.tag ≠ .equal) ∧ (∃ c, core.getLast? = some c ∧ c.tag ≠ .equal) :=
  hunk_context ops n hv g hg

/-- deletions before insertions inside every run of changes (for strictly alternating ops, C09) -/
theorem deletions_before_insertions (ops : List Op) (n : Nat) (hv : AltOps ops)
    (ha : SAltT (ops.map Op.tag)) (g : List Op) (hg : g ∈ groupDiffOps ops n) : NoID (allChanges g) :=
  hunk_no_insert_before_delete ops n hv ha g hg

/-- one body line: tag byte, the line's bytes (raw for the writer, lossily decoded for `Display`),
a newline iff the diff is not newline-terminated, and the marker exactly on lines lacking a terminator -/
theorem body_line_format (old new : Array Bytes) (nlt hint isLossy : Bool) (c : Change) (v : Bytes)
    (hv : changeValue old new c = .ok v) :
    renderChange old new nlt hint isLossy c = .ok (renderLine nlt hint isLossy (c.tag, v)) :=
  renderChange_eq old new nlt hint isLossy c v hv

/-- the `@@ -a,b +c,d @@` range format: `len = 1` prints the start alone, an empty range starts one
line earlier -/
theorem range_format (s e : Nat) :
    (e - s = 1 → hunkRange s e = natBytes (s + 1)) ∧
    (e - s = 0 → hunkRange s e = natBytes s ++ ascii "," ++ natBytes 0) ∧
    (2 ≤ e - s → hunkRange s e = natBytes (s + 1) ++ ascii "," ++ natBytes (e - s)) := hunkRange_format s e

/-- **the hypothesis `Exact` cannot be dropped, and the shipped clean-up does not provide it**: the
captured ops of `b,a → a,a` (token level `[0,1]` vs `[1,1]`) have header positions that are wrong. -/
theorem unified_needs_exact :
    ∃ (E : Env) (ops : List Op) (o n o' n' : Nat) (w : World) (ops' : List Op) (w' : World),
      NoReplaceOp ops ∧ Walk (eqB E) o n ops o' n' ∧ Exact o n ops ∧
      cleanupDiffOps E false ops w = .ok (ops', w') ∧ ¬ Exact o n ops' :=
  CompactP.cleanup_exact_shipped_counterexample

/-- **The printed text parses back to the hunks and patches old into new** (byte level, `to_writer` path with
missing-newline hints, the configuration whose text is unambiguous): for line tokens (`IsLine`: what
`tokenize_lines` produces, `lines_are_lines`) and header names without a line feed, the rendered bytes are read
by the strict parser as exactly the file header and the structured hunks, every header's counts equal its
body's, and applying the parsed hunks to `old` gives `new`.
Needed and recorded: names containing `\n` (the API accepts any string) or "lines" with inner line breaks
(possible only through `from_slices`) are not read back. -/
theorem parse_of_rendered : type_of% @UdiffParseP.parse_renderUnified := @UdiffParseP.parse_renderUnified

/-- the parser inverts the printer on arbitrary well-formed hunk lists, not only on rendered diffs -/
theorem parse_of_printed_hunks : type_of% @UdiffParseP.parse_render := @UdiffParseP.parse_render

/-- the tokens of `tokenize_lines` satisfy the line hypothesis of `parse_of_rendered` -/
theorem lines_are_lines : type_of% @UdiffParseP.isLine_tokens := @UdiffParseP.isLine_tokens

/-- `@@` header round trip: all three range forms -/
theorem hunk_header_roundtrip : type_of% @UdiffParseP.parseHunkHeader_render := @UdiffParseP.parseHunkHeader_render

end SimilarVerif.C05

/-! ## `Display` output = lossy decoding of the `to_writer` output -/
namespace SimilarVerif.C05
open SimilarVerif Spec UdiffP

/-- **(a)** an incomplete sequence at the end of `a` is cut by an ASCII byte exactly as by the end of
input: `lossy (a ++ b) = lossy a ++ lossy b` whenever `b` is empty or its first byte is `< 0x80` -/
theorem lossy_append_ascii : type_of% @LossyP.lossy_append_ascii := @LossyP.lossy_append_ascii

/-- an ASCII byte is decoded on its own, whatever follows -/
theorem lossy_cons_ascii : type_of% @LossyP.lossy_cons_ascii := @LossyP.lossy_cons_ascii

/-- **(b)** `lossy` is the identity on byte strings that are all `< 0x80` -/
theorem lossy_ascii : type_of% @LossyP.lossy_ascii := @LossyP.lossy_ascii

/-- **(c)** the `Display` output of a unified diff is the lossy decoding of its `to_writer` output (as
results: same error, decoded bytes on success) — for ALL ops, token arrays, radii, newline modes, with and
without the missing-newline hint; the header names are valid UTF-8 (`String`s in Rust) -/
theorem display_is_lossy_writer : type_of% @LossyP.display_is_lossy_writer := @LossyP.display_is_lossy_writer

/-- **(d)** if every token is valid UTF-8 (`lossy t = t`) the two outputs are identical -/
theorem display_eq_writer_on_utf8 : type_of% @LossyP.display_eq_writer_on_utf8 := @LossyP.display_eq_writer_on_utf8

#print axioms lossy_append_ascii
#print axioms lossy_cons_ascii
#print axioms lossy_ascii
#print axioms display_is_lossy_writer
#print axioms display_eq_writer_on_utf8

/-- non-vacuity of (a): `b` starting with an ASCII byte after a truncated two-byte sequence -/
example : (∀ x, ([10, 0xC3] : Bytes).head? = some x → x < 0x80) ∧
    lossy ([0xC3] ++ [10, 0xC3]) = [239, 191, 189, 10, 239, 191, 189] := by
  refine ⟨?_, by rfl⟩
  intro x hx; simp at hx; subst hx; decide

/-- (a) needs its hypothesis: a continuation byte completes the sequence -/
example : lossy ([0xC3] ++ [0xA9]) = [0xC3, 0xA9] ∧ lossy [0xC3] ++ lossy [0xA9] = [239, 191, 189, 239, 191, 189] := by
  constructor <;> rfl

/-- non-vacuity of (b) -/
example : ∀ x ∈ ascii "@@ -1 +1 @@", x < 0x80 := by decide

/-- non-vacuity of (c): ASCII header names satisfy the hypothesis … -/
example : ∀ a b, some (ascii "a", ascii "b") = some (a, b) → lossy a = a ∧ lossy b = b := by
  intro a b h; cases h; decide

/-- … and an instance with truncated sequences in both lines (newline-terminated mode, no hint): the
writer prints the raw bytes, `Display` one U+FFFD for each -/
example : renderUnified 3 none [.replace 0 1 0 1] #[[0xC3]] #[[0xE2, 0x82]] true false false =
    .ok [64, 64, 32, 45, 49, 32, 43, 49, 32, 64, 64, 10, 45, 195, 10, 43, 226, 130, 10] := by rfl
example : renderUnified 3 none [.replace 0 1 0 1] #[[0xC3]] #[[0xE2, 0x82]] true false true =
    .ok [64, 64, 32, 45, 49, 32, 43, 49, 32, 64, 64, 10, 45, 239, 191, 189, 10, 43, 239, 191, 189, 10] := by rfl

/-- non-vacuity of (d): tokens that are valid UTF-8 (`a\n`, `é\n`) -/
example : ∀ t, t ∈ (#[[97, 10]] : Array Bytes) ∨ t ∈ (#[[0xC3, 0xA9, 10]] : Array Bytes) → lossy t = t := by
  intro t h; simp at h; rcases h with rfl | rfl <;> rfl

end SimilarVerif.C05

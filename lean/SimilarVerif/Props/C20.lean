import SimilarVerif.Model.TextDiff
import SimilarVerif.Lemmas.Tokenize
/-!
# C20 — diffs are deterministic and depend only on the equality pattern of the items

(a) The whole model takes the two sequences only through the equality environment `Env`; an injective
relabelling of the items gives the SAME environment, hence the same result of every model function
(algorithms, adapters, capture, text diff) — proved here once, as an equation between environments.
(b) `unique` and `IdentifyDistinct` are specified without reference to hash order (Model/Utils.lean,
Model/TextDiff.lean): the result is a function of the equality pattern, so iteration order of the
Rust `HashMap` cannot matter provided the Rust code matches the model — which the correspondence
checks on every case, run repeatedly, in spawned threads (fresh `RandomState`s) and with a second
`Hash` implementation (suite `determinism`).
(c) `str` and `[u8]` text diffs of the same valid UTF-8 text have identical tokens (C06), hence
identical environments and ops.
What an executable model cannot exhibit: threads and hasher seeds themselves.
-/
namespace SimilarVerif.C20
open SimilarVerif

theorem getElem?_map_sub (f : Nat → Nat) (a : Array Nat) (i : Nat) : (a.map f)[i]? = (a[i]?).map f := by
  simp

/-- (a) an injective relabelling leaves the environment unchanged -/
theorem ofSeqs_relabel (f : Nat → Nat) (hf : ∀ a b, f a = f b → a = b) (old new : Array Nat) (oOff nOff : Nat) :
    Env.ofSeqs (old.map f) (new.map f) oOff nOff = Env.ofSeqs old new oOff nOff := by
  have key : ∀ a b : Nat, (f a == f b) = (a == b) := by
    intro a b
    rw [Bool.eq_iff_iff]
    simp only [beq_iff_eq]
    exact ⟨hf a b, fun h => h ▸ rfl⟩
  have get : ∀ (a : Array Nat) (off i : Nat),
      (if i < off then none else (a.map f)[i - off]?) = (if i < off then none else a[i - off]?).map f := by
    intro a off i; split <;> simp
  unfold Env.ofSeqs
  simp only [Env.mk.injEq]
  refine ⟨?_, ?_, ?_⟩ <;> funext i j <;> simp only [get]
  · cases (if i < oOff then none else old[i - oOff]?) <;> cases (if j < nOff then none else new[j - nOff]?) <;>
      simp [Option.bind, bind, pure, key]
  · cases (if i < oOff then none else old[i - oOff]?) <;> cases (if j < oOff then none else old[j - oOff]?) <;>
      simp [Option.bind, bind, pure, key]
  · cases (if i < nOff then none else new[i - nOff]?) <;> cases (if j < nOff then none else new[j - nOff]?) <;>
      simp [Option.bind, bind, pure, key]

/-- … hence every model function returns the same result on relabelled items; spelled out for the
capture pipeline and the raw streams -/
theorem capture_relabel (alg : Alg) (repair : Bool) (f : Nat → Nat) (hf : ∀ a b, f a = f b → a = b)
    (old new : Array Nat) (oOff nOff os oe ns ne : Nat) (w : World) :
    captureDiff alg (Env.ofSeqs (old.map f) (new.map f) oOff nOff) repair os oe ns ne w =
      captureDiff alg (Env.ofSeqs old new oOff nOff) repair os oe ns ne w := by
  rw [ofSeqs_relabel f hf]

theorem rawTrace_relabel (alg : Alg) (f : Nat → Nat) (hf : ∀ a b, f a = f b → a = b)
    (old new : Array Nat) (oOff nOff os oe ns ne : Nat) (w : World) (r : Rec) :
    rawTrace alg (Env.ofSeqs (old.map f) (new.map f) oOff nOff) os oe ns ne w r =
      rawTrace alg (Env.ofSeqs old new oOff nOff) os oe ns ne w r := by
  rw [ofSeqs_relabel f hf]

/-- (c) str vs bytes: on valid UTF-8 both implementations tokenize identically (lines, words, chars) -/
theorem str_bytes_same_tokens (s : List Char) :
    tokenizeLinesB (utf8EncAll s) = tokenizeLinesS s ∧ tokenizeWordsB (utf8EncAll s) = tokenizeWordsS s ∧
    tokenizeCharsB (utf8EncAll s) = tokenizeCharsS s := by
  obtain ⟨h1, h2, h3, _⟩ := TokP.str_eq_bytes s
  exact ⟨h1, h2, h3⟩

/-- the model is a function: the same request gives the same answer (stated for completeness) -/
theorem deterministic (alg : Alg) (E : Env) (repair : Bool) (os oe ns ne : Nat) (w : World) :
    captureDiff alg E repair os oe ns ne w = captureDiff alg E repair os oe ns ne w := rfl

end SimilarVerif.C20

import SimilarVerif.Props.C01
import SimilarVerif.Props.C08
import SimilarVerif.Lemmas.Deadline
import SimilarVerif.Lemmas.PatienceCost
import SimilarVerif.Lemmas.PatiencePost
/-!
# C07 — deadline expiry at any point still yields a valid diff, promptly; it is plumbed

The deadline is the virtual clock of `World` (`clock = some f`: the next `f` deadline checks answer
"not exceeded", all later ones "exceeded" — exactly the `cfg(similar_verif)` clock installed in
`/repo`), so "expiry at the k-th check" is an input of every theorem below: they quantify over ALL
worlds, hence over every expiry point.
Proved here: validity and finish-once for every expiry point (LCS unconditionally incl. totality;
Myers and Patience relative to the snake hypothesis). Second half of the file (Lemmas/Deadline.lean): "a deadline
that never expires = no deadline" for every algorithm and the capture pipeline; LCS does no work after
expiry; Myers makes at most 3·min(N,M) comparisons after the first expired probe; Patience entered with
an expired deadline makes at most 5·min(N,M) + 4 comparisons (`patience_expired_at_start`); Patience with the
deadline expiring at ANY probe — of the outer run, of a gap run inside a hook call, or of the tail run — makes
at most 7·min(N,M) comparisons after the first probe that answered "exceeded" (`patience_post_expiry_bound`,
last section; Lemmas/PatiencePost*.lean: a ghost-instrumented run records the world right after that probe).
What no executable model can exhibit: real time (the virtual clock replaces `Instant::now() > deadline`).
-/
namespace SimilarVerif.C07
open SimilarVerif Spec

/-- LCS: for every expiry point the call returns a valid stream finishing the hook exactly once -/
theorem lcs_every_expiry (E : Env) (os oe ns ne : Nat) (f : Option Nat) (p c : Nat) (ho : os ≤ oe) (hn : ns ≤ ne)
    (hb : InBounds E os oe ns ne) :
    ∃ r w', rawTrace .lcs E os oe ns ne { clock := f, probes := p, cmps := c } = .ok (r, w') ∧
      ValidRaw E os oe ns ne r.trace ∧ r.trace.getLast? = some .finish ∧
      (r.trace.filter (· == .finish)).length = 1 := by
  obtain ⟨r, w', h, hv⟩ := C01.lcs_total_valid E os oe ns ne { clock := f, probes := p, cmps := c } ho hn hb
  exact ⟨r, w', h, hv, C08.finish_once_last E os oe ns ne r.trace hv⟩

/-- Myers: for every expiry point, a returning call has produced a valid stream -/
theorem myers_every_expiry (E : Env) (hbox : MyersP.SnakeInBox E) (os oe ns ne : Nat) (f : Option Nat) (p c : Nat)
    (r' : Rec) (w' : World) (ho : os ≤ oe) (hn : ns ≤ ne) (hb : InBounds E os oe ns ne)
    (h : rawTrace .myers E os oe ns ne { clock := f, probes := p, cmps := c } = .ok (r', w')) :
    ValidRaw E os oe ns ne r'.trace ∧ r'.trace.getLast? = some .finish ∧
      (r'.trace.filter (· == .finish)).length = 1 := by
  have hv := C01.myers_partial E hbox os oe ns ne _ r' w' ho hn hb h
  exact ⟨hv, C08.finish_once_last E os oe ns ne r'.trace hv⟩

/-- Patience: likewise (outer run, gap runs and tail run share the clock) -/
theorem patience_every_expiry (E : Env) (hboxE : MyersP.SnakeInBox E) (os oe ns ne : Nat)
    (hboxU : ∀ uo un, unique E.oo os oe = some uo → unique E.nn ns ne = some un →
      MyersP.SnakeInBox (E.sub uo.toArray un.toArray))
    (f : Option Nat) (p c : Nat) (r' : Rec) (w' : World) (ho : os ≤ oe) (hn : ns ≤ ne) (hb : InBounds E os oe ns ne)
    (h : rawTrace .patience E os oe ns ne { clock := f, probes := p, cmps := c } = .ok (r', w')) :
    ValidRaw E os oe ns ne r'.trace ∧ r'.trace.getLast? = some .finish ∧
      (r'.trace.filter (· == .finish)).length = 1 := by
  have hv := C01.patience_partial E hboxE os oe ns ne hboxU _ r' w' ho hn hb h
  exact ⟨hv, C08.finish_once_last E os oe ns ne r'.trace hv⟩

/-- the probe answers of the clock are monotone: once "exceeded", always "exceeded" -/
theorem probe_expired_stays (w : World) (h : w.clock = some 0) :
    (probe w).1 = true ∧ (probe w).2.clock = some 0 := by
  simp [probe, h]

/-- without a deadline no probe is counted and the clock stays absent -/
theorem probe_no_deadline (w : World) (h : w.clock = none) : probe w = (false, w) := by
  simp [probe, h]

end SimilarVerif.C07

namespace SimilarVerif.C07
open SimilarVerif Spec

/-- **Myers, every expiry point, unconditional**: the call returns a valid stream finishing the hook
exactly once (Myers' theory discharges the snake hypothesis; totality included) -/
theorem myers_every_expiry_total (E : Env) (os oe ns ne : Nat) (f : Option Nat) (p c : Nat)
    (ho : os ≤ oe) (hn : ns ≤ ne) (hb : InBounds E os oe ns ne) :
    ∃ r w', rawTrace .myers E os oe ns ne { clock := f, probes := p, cmps := c } = .ok (r, w') ∧
      ValidRaw E os oe ns ne r.trace ∧ r.trace.getLast? = some .finish ∧
      (r.trace.filter (· == .finish)).length = 1 := by
  obtain ⟨r, w', h, hv⟩ := C01.myers_total_valid E os oe ns ne { clock := f, probes := p, cmps := c } ho hn hb
  exact ⟨r, w', h, hv, C08.finish_once_last E os oe ns ne r.trace hv⟩

/-- Patience, every expiry point, whenever it returns: valid, finish once -/
theorem patience_every_expiry_uncond (E : Env) (os oe ns ne : Nat) (f : Option Nat) (p c : Nat) (r' : Rec) (w' : World)
    (ho : os ≤ oe) (hn : ns ≤ ne) (hb : InBounds E os oe ns ne)
    (h : rawTrace .patience E os oe ns ne { clock := f, probes := p, cmps := c } = .ok (r', w')) :
    ValidRaw E os oe ns ne r'.trace ∧ r'.trace.getLast? = some .finish ∧
      (r'.trace.filter (· == .finish)).length = 1 := by
  have hv := C01.patience_valid_if_returns E os oe ns ne _ r' w' ho hn hb h
  exact ⟨hv, C08.finish_once_last E os oe ns ne r'.trace hv⟩

end SimilarVerif.C07

namespace SimilarVerif.C07
open SimilarVerif Spec DeadlineP

/-- **A deadline that never expires gives exactly the result of no deadline** — every algorithm, the
recording hook: if the run under a clock with fuel `f` made at most `f` probes (so no probe answered
"exceeded"), the run without deadline returns the same hook state and the same comparison count. -/
theorem never_expiring_is_no_deadline : type_of% @never_expires_rec := @never_expires_rec

/-- … and through the whole capture pipeline (`capture_diff_deadline`) -/
theorem never_expiring_capture : type_of% @never_expires_capture := @never_expires_capture

/-- **LCS after expiry**: once the table construction gave up, no further comparison and no further
probe happens — the final world is the world right after the probe that answered "exceeded" -/
theorem lcs_no_work_after_expiry : type_of% @lcsDiff_expired := @lcsDiff_expired

/-- **Myers started after expiry**: one probe, at most `min(N,M) + 2` comparisons, no recursion -/
theorem myers_expired_at_start : type_of% @myersDiff_expired := @myersDiff_expired
theorem conquer_expired_no_recursion : type_of% @conquer_expired_norec := @conquer_expired_norec

/-- **Myers, expiry at ANY later probe**: after the first probe that answered "exceeded" the run makes
at most `3·min(N,M)` further comparisons (`PostN`: the pending `conquer` frames own disjoint boxes,
each strips its prefix and suffix and falls back) -/
theorem myers_post_expiry_bound : type_of% @myersDiff_post_expiry := @myersDiff_post_expiry

/-- **Patience started after expiry** (`patience_post_expiry_partial`: the entry case of the post-expiry bound):
the whole run — outer Myers run over the unique items, gap runs and tail run inside the hook — makes at most
`5·min(N,M) + 4` comparisons and the clock stays expired. -/
theorem patience_expired_at_start : type_of% @PatienceC.patience_expired_entry := @PatienceC.patience_expired_entry

end SimilarVerif.C07

namespace SimilarVerif.C07
open SimilarVerif Spec DeadlineP PatiencePost

/-- **Patience, expiry at ANY probe** (the recording hook, every `Env`, in-bounds ranges, EVERY initial world):
the ghost-instrumented run `patienceDiffG … none w` (Lemmas/PatiencePostDefs.lean: the model run with a ghost
`Option World` in the hook state that `DeadlineP.mark` sets to the world right after the first probe that
answered "exceeded", wherever that probe happens: outer run, gap run inside a hook call, tail run) returns the
same result, and its ghost `g'` satisfies `PostP`:
`none` — no probe answered "exceeded" (`tm` unchanged);
`some we` — `JustExpired we`, `we.probes = tm w` (= `w.probes + k + 1` if the call was entered with
`clock = some k`: `we` is the world right after the `(k+1)`-th probe), `w.cmps ≤ we.cmps ≤ w'.cmps`,
`w'.cmps ≤ we.cmps + 7 * min N M`, and the clock is expired at the end. -/
theorem patience_post_expiry_bound : type_of% @PatiencePost.patience_post_expiry := @PatiencePost.patience_post_expiry

/-- … for every hook that does not touch the world -/
theorem patience_post_expiry_any_hook : type_of% @patience_post_expiry_gen := @patience_post_expiry_gen

/-- … as a disjunction, with the weaker bound `8 * (N + M) + 8` spelled out -/
theorem patience_post_expiry_disj : type_of% @patience_post_expiry_cases := @patience_post_expiry_cases

/-- … entered with `clock = some k`: either at most `k` probes were made (and the clock still shows the
rest), or at most `7 * min N M` comparisons are made after the `(k+1)`-th probe; `k = 0` is the situation of
`patience_expired_at_start` (there: `5 * min N M + 4` from the entry, here: `7 * min N M` from the first probe) -/
theorem patience_post_expiry_kth_probe : type_of% @patience_post_expiry_clock := @patience_post_expiry_clock

/-- the ghost run is the model run: forgetting the ghost gives back `patienceDiff`, and it exists whenever
`patienceDiff` returns (any hook, any initial ghost) -/
theorem patience_ghost_run_erase : type_of% @patienceDiffG_erase := @patienceDiffG_erase
theorem patience_ghost_run_total : type_of% @patienceDiffG_total := @patienceDiffG_total

#print axioms patience_post_expiry_bound
#print axioms patience_post_expiry_any_hook
#print axioms patience_post_expiry_disj
#print axioms patience_post_expiry_kth_probe
#print axioms patience_ghost_run_erase
#print axioms patience_ghost_run_total

/-- non-vacuity: `[1,2,3,4]` vs `[4,3,2,1]`, the deadline allows 2 probes.  The hypotheses are met … -/
example : InBounds (Env.ofSeqs #[1,2,3,4] #[4,3,2,1]) 0 4 0 4 := by
  intro i j _ hi _ hj
  have : i = 0 ∨ i = 1 ∨ i = 2 ∨ i = 3 := by omega
  have : j = 0 ∨ j = 1 ∨ j = 2 ∨ j = 3 := by omega
  rcases ‹i = 0 ∨ i = 1 ∨ i = 2 ∨ i = 3› with rfl | rfl | rfl | rfl <;>
    rcases ‹j = 0 ∨ j = 1 ∨ j = 2 ∨ j = 3› with rfl | rfl | rfl | rfl <;> decide

/-- … the model run returns after 4 probes and 10 comparisons … -/
example : patienceDiff (Env.ofSeqs #[1,2,3,4] #[4,3,2,1]) recHook 0 4 0 4 {} { clock := some 2 } =
    .ok (⟨[.op (.delete 0 4 0), .op (.insert 0 0 4), .finish], none, true⟩,
      { clock := some 0, probes := 4, cmps := 10 }) := by rfl

/-- … and the ghost run records the world right after the 3rd probe (the first that answered "exceeded"):
8 comparisons had been made, 2 more follow (`≤ 7 * min 4 4`) -/
example : patienceDiffG (Env.ofSeqs #[1,2,3,4] #[4,3,2,1]) recHook 0 4 0 4 {} none { clock := some 2 } =
    .ok ((⟨[.op (.delete 0 4 0), .op (.insert 0 0 4), .finish], none, true⟩,
      some { clock := some 0, probes := 3, cmps := 8 }), { clock := some 0, probes := 4, cmps := 10 }) := by rfl

/-- the theorem applied to this run: the `we` branch is taken and `we` is that world -/
example (hb : InBounds (Env.ofSeqs #[1,2,3,4] #[4,3,2,1]) 0 4 0 4) :
    ∃ we : World, we = { clock := some 0, probes := 3, cmps := 8 } ∧ JustExpired we ∧
      (10 : Nat) ≤ we.cmps + 7 * min (4 - 0) (4 - 0) := by
  have hrun : patienceDiff (Env.ofSeqs #[1,2,3,4] #[4,3,2,1]) recHook 0 4 0 4 {} { clock := some 2, probes := 0, cmps := 0 } =
      .ok (⟨[.op (.delete 0 4 0), .op (.insert 0 0 4), .finish], none, true⟩,
        { clock := some 0, probes := 4, cmps := 10 }) := by rfl
  have hg : patienceDiffG (Env.ofSeqs #[1,2,3,4] #[4,3,2,1]) recHook 0 4 0 4 {} none { clock := some 2, probes := 0, cmps := 0 } =
      .ok ((⟨[.op (.delete 0 4 0), .op (.insert 0 0 4), .finish], none, true⟩,
        some { clock := some 0, probes := 3, cmps := 8 }), { clock := some 0, probes := 4, cmps := 10 }) := by rfl
  rcases patience_post_expiry_kth_probe _ 0 4 0 4 {} 2 0 0 _ _ (by omega) (by omega) hb hrun with
    ⟨h, _⟩ | ⟨we, hg', h1, h2, h3, h4, h5, h6⟩
  · simp at h
  · rw [hg] at hg'
    simp only [Except.ok.injEq, Prod.mk.injEq, Option.some.injEq, and_true, true_and] at hg'
    subst hg'
    exact ⟨_, rfl, ⟨{ clock := some 0, probes := 2, cmps := 8 }, rfl, rfl⟩, h5⟩

end SimilarVerif.C07

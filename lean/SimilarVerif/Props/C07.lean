import SimilarVerif.Props.C01
import SimilarVerif.Props.C08
/-!
# C07 — deadline expiry at any point still yields a valid diff, promptly; it is plumbed

The deadline is the virtual clock of `World` (`clock = some f`: the next `f` deadline checks answer
"not exceeded", all later ones "exceeded" — exactly the `cfg(similar_verif)` clock installed in
`/repo`), so "expiry at the k-th check" is an input of every theorem below: they quantify over ALL
worlds, hence over every expiry point.
Proved here: validity and finish-once for every expiry point (LCS unconditionally incl. totality;
Myers and Patience relative to the snake hypothesis). In progress (Lemmas/Deadline.lean): "a deadline
that never expires = no deadline" and the bound on comparisons after expiry; until they are imported
these clauses are established by the `deadline` suite: every expiry point k = 0..#checks+1 of every
run, exact comparison and probe counts against the model, measured comparisons after expiry.
What no executable model can exhibit: real time (the virtual clock replaces `Instant::now() > deadline`).
-/
namespace SimilarVerif.C07
open SimilarVerif Spec

/-- LCS: for every expiry point the call returns a valid stream finishing the hook exactly once -/
theorem lcs_every_expiry (E : Env) (os oe ns ne : Nat) (f : Option Nat) (p c : Nat) (ho : os ≤ oe) (hn : ns ≤ ne)
    (hb : InBounds E os oe ns ne) :
    ∃ r w', rawTrace .lcs E os oe ns ne { clock := f, probes := p, cmps := c } = .ok (r, w') ∧
      ValidRaw E os oe ns ne r.trace ∧ r.trace.getLast? = some .finish ∧
      (r.trace.filter (· == .finish)).length = 1 := by
  obtain ⟨r, w', h, hv⟩ := C01.lcs_total_valid E os oe ns ne { clock := f, probes := p, cmps := c } ho hn hb
  exact ⟨r, w', h, hv, C08.finish_once_last E os oe ns ne r.trace hv⟩

/-- Myers: for every expiry point, a returning call has produced a valid stream -/
theorem myers_every_expiry (E : Env) (hbox : MyersP.SnakeInBox E) (os oe ns ne : Nat) (f : Option Nat) (p c : Nat)
    (r' : Rec) (w' : World) (ho : os ≤ oe) (hn : ns ≤ ne) (hb : InBounds E os oe ns ne)
    (h : rawTrace .myers E os oe ns ne { clock := f, probes := p, cmps := c } = .ok (r', w')) :
    ValidRaw E os oe ns ne r'.trace ∧ r'.trace.getLast? = some .finish ∧
      (r'.trace.filter (· == .finish)).length = 1 := by
  have hv := C01.myers_partial E hbox os oe ns ne _ r' w' ho hn hb h
  exact ⟨hv, C08.finish_once_last E os oe ns ne r'.trace hv⟩

/-- Patience: likewise (outer run, gap runs and tail run share the clock) -/
theorem patience_every_expiry (E : Env) (hboxE : MyersP.SnakeInBox E) (os oe ns ne : Nat)
    (hboxU : ∀ uo un, unique E.oo os oe = some uo → unique E.nn ns ne = some un →
      MyersP.SnakeInBox (E.sub uo.toArray un.toArray))
    (f : Option Nat) (p c : Nat) (r' : Rec) (w' : World) (ho : os ≤ oe) (hn : ns ≤ ne) (hb : InBounds E os oe ns ne)
    (h : rawTrace .patience E os oe ns ne { clock := f, probes := p, cmps := c } = .ok (r', w')) :
    ValidRaw E os oe ns ne r'.trace ∧ r'.trace.getLast? = some .finish ∧
      (r'.trace.filter (· == .finish)).length = 1 := by
  have hv := C01.patience_partial E hboxE os oe ns ne hboxU _ r' w' ho hn hb h
  exact ⟨hv, C08.finish_once_last E os oe ns ne r'.trace hv⟩

/-- the probe answers of the clock are monotone: once "exceeded", always "exceeded" -/
theorem probe_expired_stays (w : World) (h : w.clock = some 0) :
    (probe w).1 = true ∧ (probe w).2.clock = some 0 := by
  simp [probe, h]

/-- without a deadline no probe is counted and the clock stays absent -/
theorem probe_no_deadline (w : World) (h : w.clock = none) : probe w = (false, w) := by
  simp [probe, h]

end SimilarVerif.C07

namespace SimilarVerif.C07
open SimilarVerif Spec

/-- **Myers, every expiry point, unconditional**: the call returns a valid stream finishing the hook
exactly once (Myers' theory discharges the snake hypothesis; totality included) -/
theorem myers_every_expiry_total (E : Env) (os oe ns ne : Nat) (f : Option Nat) (p c : Nat)
    (ho : os ≤ oe) (hn : ns ≤ ne) (hb : InBounds E os oe ns ne) :
    ∃ r w', rawTrace .myers E os oe ns ne { clock := f, probes := p, cmps := c } = .ok (r, w') ∧
      ValidRaw E os oe ns ne r.trace ∧ r.trace.getLast? = some .finish ∧
      (r.trace.filter (· == .finish)).length = 1 := by
  obtain ⟨r, w', h, hv⟩ := C01.myers_total_valid E os oe ns ne { clock := f, probes := p, cmps := c } ho hn hb
  exact ⟨r, w', h, hv, C08.finish_once_last E os oe ns ne r.trace hv⟩

/-- Patience, every expiry point, whenever it returns: valid, finish once -/
theorem patience_every_expiry_uncond (E : Env) (os oe ns ne : Nat) (f : Option Nat) (p c : Nat) (r' : Rec) (w' : World)
    (ho : os ≤ oe) (hn : ns ≤ ne) (hb : InBounds E os oe ns ne)
    (h : rawTrace .patience E os oe ns ne { clock := f, probes := p, cmps := c } = .ok (r', w')) :
    ValidRaw E os oe ns ne r'.trace ∧ r'.trace.getLast? = some .finish ∧
      (r'.trace.filter (· == .finish)).length = 1 := by
  have hv := C01.patience_valid_if_returns E os oe ns ne _ r' w' ho hn hb h
  exact ⟨hv, C08.finish_once_last E os oe ns ne r'.trace hv⟩

end SimilarVerif.C07

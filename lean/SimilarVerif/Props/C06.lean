import SimilarVerif.Lemmas.Tokenize
/-!
# C06 — tokenizers are lossless partitions with the documented token shape

Status: **full** for the eight non-unicode tokenizers (lines, lines-and-newlines, words, chars; `str`
and `[u8]`), for every string and every byte string (valid UTF-8 or not); the Unicode word / grapheme
tokenizers slice the input by the indices an EXTERNAL segmenter reports and are lossless relative to
that segmenter's contract `Partition` (checked on every harness case).
-/
namespace SimilarVerif.C06
open SimilarVerif TokP

/-- byte tokenizers: non-empty tokens whose concatenation is the input, for every byte string -/
theorem bytes_lossless (b : Bytes) :
    ∀ rs ∈ [tokenizeLinesB b, tokenizeWordsB b, tokenizeCharsB b, tokenizeLinesAndNewlinesB b],
      (rs.map (slice b)).flatten = b ∧ ∀ r ∈ rs, slice b r ≠ [] := lossless_B b

/-- `str` tokenizers: the same for every string (given as its scalar values) -/
theorem str_lossless (s : List Char) :
    ∀ rs ∈ [tokenizeLinesS s, tokenizeWordsS s, tokenizeCharsS s, tokenizeLinesAndNewlinesS s],
      (rs.map (slice (utf8EncAll s))).flatten = utf8EncAll s ∧ ∀ r ∈ rs, slice (utf8EncAll s) r ≠ [] :=
  lossless_S s

/-- Unicode words / graphemes: lossless whenever the external segmenter returns non-empty pieces that
cover the input -/
theorem unicode_lossless {lens : List Nat} {b : Bytes} (h : Partition lens b.length) :
    ((rangesOfLens 0 lens).map (slice b)).flatten = b ∧ ∀ r ∈ rangesOfLens 0 lens, slice b r ≠ [] :=
  lossless_segmenter h

/-- on valid UTF-8 the `str` and `[u8]` implementations return identical tokens -/
theorem str_eq_bytes (s : List Char) :
    tokenizeLinesB (utf8EncAll s) = tokenizeLinesS s ∧ tokenizeWordsB (utf8EncAll s) = tokenizeWordsS s ∧
    tokenizeCharsB (utf8EncAll s) = tokenizeCharsS s ∧
    tokenizeLinesAndNewlinesB (utf8EncAll s) = tokenizeLinesAndNewlinesS s := TokP.str_eq_bytes s

/-- line tokens: no line break except one terminator (LF, CRLF, or a lone CR not followed by a token
starting with LF) at the end; only the last token may lack it -/
theorem lines_shape_bytes (b : Bytes) (i : Nat) (h : i < ((tokenizeLinesB b).map (slice b)).length) :
    LineTok ((tokenizeLinesB b).map (slice b))[i] ((tokenizeLinesB b).map (slice b))[i + 1]? :=
  tokenizeLinesB_tokens b i h

theorem lines_shape_str (s : List Char) (i : Nat) (h : i < ((tokenizeLinesS s).map (slice (utf8EncAll s))).length) :
    LineTok ((tokenizeLinesS s).map (slice (utf8EncAll s)))[i] ((tokenizeLinesS s).map (slice (utf8EncAll s)))[i + 1]? :=
  tokenizeLinesS_tokens s i h

/-- word tokens are the maximal runs of all-whitespace / all-non-whitespace characters -/
theorem words_shape_bytes (b : Bytes) : ∃ gs, gs.flatten = charIndicesB b.length 0 b ∧
    MaxRuns isWhitespace gs ∧ tokenizeWordsB b = gs.map spanOf := tokenizeWordsB_shape b

theorem words_shape_str (s : List Char) : ∃ gs, gs.flatten = (charIndicesS 0 s).map triS ∧
    MaxRuns isWhitespace gs ∧ tokenizeWordsS s = gs.map spanOf := tokenizeWordsS_shape s

/-- lines-and-newlines tokens alternate maximal newline and non-newline runs -/
theorem lnl_shape_bytes (b : Bytes) : ∃ gs, gs.flatten = charIndicesB b.length 0 b ∧
    MaxRuns isNewline gs ∧ tokenizeLinesAndNewlinesB b = gs.map spanOf := tokenizeLinesAndNewlinesB_shape b

theorem lnl_shape_str (s : List Char) : ∃ gs, gs.flatten = (charIndicesS 0 s).map triS ∧
    MaxRuns isNewline gs ∧ tokenizeLinesAndNewlinesS s = gs.map spanOf := tokenizeLinesAndNewlinesS_shape s

/-- char tokens are single scalar values (`str`) / single lossy decoding steps (`[u8]`) -/
theorem chars_shape_str (s : List Char) : (tokenizeCharsS s).map (slice (utf8EncAll s)) = s.map utf8Enc :=
  tokenizeCharsS_tokens s

theorem chars_shape_bytes (b : Bytes) : ∀ r ∈ tokenizeCharsB b,
    r.1 < r.2 ∧ r.2 ≤ b.length ∧ (decodeOne (b.drop r.1)).2 = r.2 - r.1 := tokenizeCharsB_shape b

/-- non-vacuity: mixed terminators and an invalid byte -/
example : (tokenizeLinesB [0x61, 0x0a, 0x62, 0x0d, 0x0a, 0x63, 0x0d, 0x64, 0xff]).map (slice [0x61, 0x0a, 0x62, 0x0d, 0x0a, 0x63, 0x0d, 0x64, 0xff]) =
    [[0x61, 0x0a], [0x62, 0x0d, 0x0a], [0x63, 0x0d], [0x64, 0xff]] := by decide

end SimilarVerif.C06

import SimilarVerif.Lemmas.Identify
/-!
# C14 — a text diff is the sequence diff of its tokens at every size and config

Model: `textDiffOps` (Model/TextDiff.lean) = the op computation of `TextDiffConfig::diff` with the
100-token switch to `IdentifyDistinct::<u32>`; `identifyDistinct` specifies the integer mapping
(first-seen ids) without reference to the Rust `HashMap`.  Out of scope as the property says: more
distinct items than the integer type holds.  Statements in Lemmas/Identify.lean.
-/
namespace SimilarVerif.C14
open SimilarVerif IdentP

/-- **the switch is invisible**: for every size (≤ 100 and > 100 tokens per side), algorithm and
deadline, the ops of a text diff are the ops of diffing the token slices directly -/
theorem text_diff_is_token_diff (alg : Alg) (repair : Bool) (old new : Array Bytes) (w : World) :
    textDiffOps alg repair old new w = captureDiff alg (Env.ofTokens old new) repair 0 old.size 0 new.size w :=
  textDiffOps_eq_capture alg repair old new w

/-- the id sequences induce exactly the token environment -/
theorem ids_give_same_env : type_of% @ofSeqs_identify_eq_ofTokens := @ofSeqs_identify_eq_ofTokens

/-- the integer mapping is total on in-bounds ranges and keeps the caller's range lengths -/
theorem identify_total : type_of% @identifyDistinct_total := @identifyDistinct_total

/-- equal numbers exactly for equal items: within old, within new, and across the two sides -/
theorem ids_equal_iff_items_equal : type_of% @identifyDistinct_ids_eq_iff := @identifyDistinct_ids_eq_iff

/-- ids are 0,1,2,… in first-seen order (old range first, then new) -/
theorem ids_first_seen : type_of% @identifyDistinct_firstSeen := @identifyDistinct_firstSeen

/-- `newline_terminated` is true exactly for line diffs unless overridden; the algorithm is the configured one -/
theorem newline_terminated_rule (o : Option Bool) (isLines : Bool) :
    newlineTerminated o isLines = (match o with | some b => b | none => isLines) := by
  cases o <;> rfl

/-- both instances of the equality-pattern hypothesis are provable: label arrays through offset lookups
and token arrays -/
theorem pattern_ofSeqs : type_of% @eqPattern_ofSeqs := @eqPattern_ofSeqs
theorem pattern_ofTokens : type_of% @eqPattern_ofTokens := @eqPattern_ofTokens

end SimilarVerif.C14

import SimilarVerif.Lemmas.Replace
import SimilarVerif.Lemmas.Compact
import SimilarVerif.Lemmas.CompactTotal
/-!
# C10 — Compact and Replace preserve meaning and cost of any valid script

Status: the `Replace` half is **full** (any valid script, any interleaving of delete/insert runs).
The `Compact` half is **full** as well: on every valid script whose carried indices obey C01's rule
the clean-up returns (no index underflow in the shift helpers, both `while let` loops and the outer
pointer loop terminate — the termination proof showed that the outer loop needs a QUADRATIC number of
rounds on a family of inputs, DESIGN.md §13), and the result is a valid script for the same sequences
with the same item counts, shipped and repaired variant.
-/
namespace SimilarVerif.C10
open SimilarVerif Spec

/-- **Replace alone**: feeding any valid script (no `replace` calls, positive lengths, any order a
valid script allows) followed by `finish` through `Replace::new(recording hook)` never fails, leaves
the world untouched, finishes the inner hook exactly once and last, and the inner hook has then seen
a valid script for the same sequences and end points with exactly the same numbers of deleted,
inserted and equal items, in which Equal and non-Equal ops strictly alternate (so a deletion adjacent
to an insertion has become one Replace); exact carried indices stay exact. -/
theorem replace_preserves (e : Nat → Nat → Bool) (ops : List Op) (o n o' n' : Nat) (w : World)
    (hnr : NoReplaceOp ops) (hw : Walk e o n ops o' n') :
    ∃ out rs, replaceOut ops w = .ok ((rs, { trace := out.map Call.op ++ [.finish] }), w) ∧
      Walk e o n out o' n' ∧ nDel out = nDel ops ∧ nIns out = nIns ops ∧ nEq out = nEq ops ∧
      Alternating out ∧ (Exact o n ops → Exact o n out) :=
  SimilarVerif.replace_preserves e ops o n o' n' w hnr hw

/-- **Compact** (the clean-up pass behind `Compact::finish`): whenever it returns, any valid script
without `replace` calls has become a valid script for the same sequences and end points with exactly
the same numbers of deleted, inserted and equal items; it touches neither the clock nor the probes. -/
theorem compact_preserves (E : Env) (repair : Bool) (ops : List Op) (o n o' n' : Nat) (w : World)
    (ops' : List Op) (w' : World) (hnr : NoReplaceOp ops) (hw : Walk (eqB E) o n ops o' n')
    (h : cleanupDiffOps E repair ops w = .ok (ops', w')) :
    Walk (eqB E) o n ops' o' n' ∧ nDel ops' = nDel ops ∧ nIns ops' = nIns ops ∧ nEq ops' = nEq ops ∧
      NoReplaceOp ops' ∧ w'.clock = w.clock ∧ w'.probes = w.probes :=
  CompactP.cleanup_preserves E repair ops o n o' n' w ops' w' hnr hw h

/-- **the clean-up is total on valid input** (exact or run-relative carried indices, in-bounds ranges):
it neither panics nor loops -/
theorem compact_total_exact : type_of% @CompactT.cleanup_total_exact := @CompactT.cleanup_total_exact
theorem compact_total_carried : type_of% @CompactT.cleanup_total_carried := @CompactT.cleanup_total_carried

/-- **Compact then Replace**: the composition is again valid, cost preserving and alternating -/
theorem compact_replace_preserves (E : Env) (repair : Bool) (ops : List Op) (o n o' n' : Nat) (w : World)
    (ops' : List Op) (w' : World) (hnr : NoReplaceOp ops) (hw : Walk (eqB E) o n ops o' n')
    (h : cleanupDiffOps E repair ops w = .ok (ops', w')) :
    ∃ out rs, replaceOut ops' w' = .ok ((rs, { trace := out.map Call.op ++ [.finish] }), w') ∧
      Walk (eqB E) o n out o' n' ∧ nDel out = nDel ops ∧ nIns out = nIns ops ∧ nEq out = nEq ops ∧
      Alternating out := by
  obtain ⟨hw', h1, h2, h3, hnr', _⟩ := CompactP.cleanup_preserves E repair ops o n o' n' w ops' w' hnr hw h
  obtain ⟨out, rs, hr, hwo, g1, g2, g3, ha, _⟩ := SimilarVerif.replace_preserves (eqB E) ops' o n o' n' w' hnr' hw'
  exact ⟨out, rs, hr, hwo, by omega, by omega, by omega, ha⟩

/-- non-vacuity: split runs, insert before delete -/
example : (replaceOut [.equal 0 0 1, .equal 1 1 1, .insert 2 2 1, .delete 2 1 3, .insert 3 3 2, .equal 3 5 1] {}).map (·.1.2.trace) =
    .ok [.op (.equal 0 0 2), .op (.replace 2 1 2 3), .op (.equal 3 5 1), .finish] := by rfl

end SimilarVerif.C10

namespace SimilarVerif.C10
open SimilarVerif Spec

/-- **Observation recorded as a theorem (DESIGN.md §6, "dead code in `compact.rs`"): deletions never slide.**
The two "shift deletions" arms of `shift_diff_ops_up` / `shift_diff_ops_down` measure the common suffix / prefix of
the neighbouring Equal op's OLD range against `this_op.new_range()` — which is empty for a Delete. So the length
they compute is 0 for EVERY environment and every op list, no comparison is made, and the bodies of those arms (and
the Equal op they would insert with `len: old_range.len() - suffix_len`) are unreachable. The model keeps the arms
as written in the Rust; this is why no validator and no mutant in those lines can ever be observed. -/
theorem delete_arm_never_slides (E : Env) (prev this : Op) (w : World) (h : this.tag = .delete) :
    commonSuffixLen E prev.oStart prev.oEnd this.nStart this.nEnd w = .ok (0, w) ∧
    commonPrefixLen E prev.oStart prev.oEnd this.nStart this.nEnd w = .ok (0, w) := by
  cases this <;> simp [Op.tag] at h
  simp [commonSuffixLen, commonPrefixLen, Op.nStart, Op.nEnd, Op.nLen]

#print axioms delete_arm_never_slides

end SimilarVerif.C10

import SimilarVerif.Lemmas.Replace
/-!
# C10 — Compact and Replace preserve meaning and cost of any valid script

Status: the `Replace` half is **full** (any valid script, any interleaving of delete/insert runs).
The `Compact` half (Lemmas/Compact.lean) is in progress; until it is imported here the compaction
clauses are covered by the correspondence (all valid scripts over small sequence pairs) only.
-/
namespace SimilarVerif.C10
open SimilarVerif Spec

/-- **Replace alone**: feeding any valid script (no `replace` calls, positive lengths, any order a
valid script allows) followed by `finish` through `Replace::new(recording hook)` never fails, leaves
the world untouched, finishes the inner hook exactly once and last, and the inner hook has then seen
a valid script for the same sequences and end points with exactly the same numbers of deleted,
inserted and equal items, in which Equal and non-Equal ops strictly alternate (so a deletion adjacent
to an insertion has become one Replace); exact carried indices stay exact. -/
theorem replace_preserves (e : Nat → Nat → Bool) (ops : List Op) (o n o' n' : Nat) (w : World)
    (hnr : NoReplaceOp ops) (hw : Walk e o n ops o' n') :
    ∃ out rs, replaceOut ops w = .ok ((rs, { trace := out.map Call.op ++ [.finish] }), w) ∧
      Walk e o n out o' n' ∧ nDel out = nDel ops ∧ nIns out = nIns ops ∧ nEq out = nEq ops ∧
      Alternating out ∧ (Exact o n ops → Exact o n out) :=
  SimilarVerif.replace_preserves e ops o n o' n' w hnr hw

/-- non-vacuity: split runs, insert before delete -/
example : (replaceOut [.equal 0 0 1, .equal 1 1 1, .insert 2 2 1, .delete 2 1 3, .insert 3 3 2, .equal 3 5 1] {}).map (·.1.2.trace) =
    .ok [.op (.equal 0 0 2), .op (.replace 2 1 2 3), .op (.equal 3 5 1), .finish] := by rfl

end SimilarVerif.C10

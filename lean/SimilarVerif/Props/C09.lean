import SimilarVerif.Lemmas.Replace
import SimilarVerif.Lemmas.CompactTotal
/-!
# C09 — captured diffs are in canonical normal form

Clauses 1–3 (Equal / non-Equal strictly alternate, so no Delete is adjacent to an Insert — they are one
Replace with the deletions first — and no op is empty) hold for the output of `Replace` on ANY valid
script, hence for every captured diff once `Compact` is known to deliver a valid script (C10's
compaction half). Clause 4 (a pure insertion followed by equal items sits at its latest position) is the
outer-loop invariant of the insert pass of `cleanup_diff_ops` (Lemmas/CompactTotal.lean), proved for
every valid script.
-/
namespace SimilarVerif.C09
open SimilarVerif Spec

/-- Equal and non-Equal ops strictly alternate in what `Replace` emits for any valid script -/
theorem replace_alternates (e : Nat → Nat → Bool) (ops : List Op) (o n o' n' : Nat) (w : World)
    (hnr : NoReplaceOp ops) (hw : Walk e o n ops o' n') :
    ∃ out rs, replaceOut ops w = .ok ((rs, { trace := out.map Call.op ++ [.finish] }), w) ∧ Alternating out := by
  obtain ⟨out, rs, h, _, _, _, _, ha, _⟩ := SimilarVerif.replace_preserves e ops o n o' n' w hnr hw
  exact ⟨out, rs, h, ha⟩

/-- alternation implies: two adjacent ops are never both changes -/
theorem alternating_no_adjacent_changes : ∀ (l : List Op), Alternating l →
    ∀ pre x y post, l = pre ++ x :: y :: post → ¬ (x.tag ≠ .equal ∧ y.tag ≠ .equal) := by
  intro l
  induction l with
  | nil => intro _ pre x y post h; cases pre <;> simp at h
  | cons a as ih =>
    intro ha pre x y post h
    cases pre with
    | nil =>
      simp at h
      obtain ⟨rfl, rfl⟩ := h
      simp only [Alternating] at ha
      intro ⟨h1, h2⟩
      exact ha.1 (by simp [h1, h2])
    | cons p ps =>
      simp at h
      obtain ⟨rfl, rfl⟩ := h
      cases ps with
      | nil => simp only [List.nil_append, Alternating] at ha; exact ih ha.2 [] x y post rfl
      | cons q qs => simp only [List.cons_append, Alternating] at ha; exact ih ha.2 (q :: qs) x y post rfl

/-- no op of a valid script is empty -/
theorem walk_no_empty (e : Nat → Nat → Bool) : ∀ (ops : List Op) (o n o' n' : Nat), Walk e o n ops o' n' →
    ∀ x ∈ ops, x.isEmpty = false := by
  intro ops
  induction ops with
  | nil => intro _ _ _ _ _ x hx; simp at hx
  | cons c cs ih =>
    intro o n o' n' h x hx
    cases c <;> simp only [Walk] at h <;> simp only [List.mem_cons] at hx <;> rcases hx with rfl | hx
    all_goals first
      | (simp [Op.isEmpty, Op.oLen, Op.nLen]; omega)
      | exact ih _ _ _ _ (by first | exact h.2.2.2.2 | exact h.2.2) x hx

end SimilarVerif.C09

namespace SimilarVerif.C09
open SimilarVerif Spec

/-- **clause 4**: after the clean-up a pure insertion that is followed by equal items sits at its
latest position — its first inserted item differs from the first equal item after it — for every
valid script, shipped and repaired variant, every loop bound -/
theorem insertion_at_latest_position : type_of% @CompactT.cleanup_insert_latest := @CompactT.cleanup_insert_latest

end SimilarVerif.C09

import SimilarVerif.Lemmas.Replace
import SimilarVerif.Lemmas.CompactTotal
import SimilarVerif.Lemmas.CaptureNormal
/-!
# C09 — captured diffs are in canonical normal form

Clauses 1–3 (Equal / non-Equal strictly alternate, so no Delete is adjacent to an Insert — they are one
Replace with the deletions first — and no op is empty) hold for the output of `Replace` on ANY valid
script, hence for every captured diff once `Compact` is known to deliver a valid script (C10's
compaction half). Clause 4 (a pure insertion followed by equal items sits at its latest position) is the
outer-loop invariant of the insert pass of `cleanup_diff_ops` (Lemmas/CompactTotal.lean), proved for
every valid script.
-/
namespace SimilarVerif.C09
open SimilarVerif Spec

/-- Equal and non-Equal ops strictly alternate in what `Replace` emits for any valid script -/
theorem replace_alternates (e : Nat → Nat → Bool) (ops : List Op) (o n o' n' : Nat) (w : World)
    (hnr : NoReplaceOp ops) (hw : Walk e o n ops o' n') :
    ∃ out rs, replaceOut ops w = .ok ((rs, { trace := out.map Call.op ++ [.finish] }), w) ∧ Alternating out := by
  obtain ⟨out, rs, h, _, _, _, _, ha, _⟩ := SimilarVerif.replace_preserves e ops o n o' n' w hnr hw
  exact ⟨out, rs, h, ha⟩

/-- alternation implies: two adjacent ops are never both changes -/
theorem alternating_no_adjacent_changes : ∀ (l : List Op), Alternating l →
    ∀ pre x y post, l = pre ++ x :: y :: post → ¬ (x.tag ≠ .equal ∧ y.tag ≠ .equal) := by
  intro l
  induction l with
  | nil => intro _ pre x y post h; cases pre <;> simp at h
  | cons a as ih =>
    intro ha pre x y post h
    cases pre with
    | nil =>
      simp at h
      obtain ⟨rfl, rfl⟩ := h
      simp only [Alternating] at ha
      intro ⟨h1, h2⟩
      exact ha.1 (by simp [h1, h2])
    | cons p ps =>
      simp at h
      obtain ⟨rfl, rfl⟩ := h
      cases ps with
      | nil => simp only [List.nil_append, Alternating] at ha; exact ih ha.2 [] x y post rfl
      | cons q qs => simp only [List.cons_append, Alternating] at ha; exact ih ha.2 (q :: qs) x y post rfl

/-- no op of a valid script is empty -/
theorem walk_no_empty (e : Nat → Nat → Bool) : ∀ (ops : List Op) (o n o' n' : Nat), Walk e o n ops o' n' →
    ∀ x ∈ ops, x.isEmpty = false := by
  intro ops
  induction ops with
  | nil => intro _ _ _ _ _ x hx; simp at hx
  | cons c cs ih =>
    intro o n o' n' h x hx
    cases c <;> simp only [Walk] at h <;> simp only [List.mem_cons] at hx <;> rcases hx with rfl | hx
    all_goals first
      | (simp [Op.isEmpty, Op.oLen, Op.nLen]; omega)
      | exact ih _ _ _ _ (by first | exact h.2.2.2.2 | exact h.2.2) x hx

end SimilarVerif.C09

namespace SimilarVerif.C09
open SimilarVerif Spec

/-- **clause 4**: after the clean-up a pure insertion that is followed by equal items sits at its
latest position — its first inserted item differs from the first equal item after it — for every
valid script, shipped and repaired variant, every loop bound -/
theorem insertion_at_latest_position : type_of% @CompactT.cleanup_insert_latest := @CompactT.cleanup_insert_latest

end SimilarVerif.C09

namespace SimilarVerif.C09
open SimilarVerif Spec

/-- in the cleaned list every Insert is followed by an Equal or by nothing (the second invariant of the
insert pass; with it `Replace` cannot merge a lone insertion that precedes an equal op) -/
theorem cleanup_insert_next_equal : type_of% @CaptureNF.cleanup_insert_next_equal :=
  @CaptureNF.cleanup_insert_next_equal

/-- `Replace` carries clause 4 from the cleaned list to its output -/
theorem replace_keeps_latest : type_of% @CaptureNF.replace_latest := @CaptureNF.replace_latest

/-- **C09 end to end — whatever `capture_diff` returns**: every algorithm, shipped and repaired clean-up,
in-bounds ranges (Patience: also the same-side comparisons of `unique`), EVERY world (any clock):
`capture_diff` returns, the ops are a valid script and
(1) Equal and non-Equal ops strictly alternate, (2) no op is empty, (3) no two adjacent ops are both
changes, (4) a pure insertion followed by an equal op has its first inserted item different from the first
item of the equal run (stated exactly as `insertion_at_latest_position`, for the captured ops). -/
theorem capture_normal_form (alg : Alg) (E : Env) (repair : Bool) (os oe ns ne : Nat) (w : World)
    (ho : os ≤ oe) (hn : ns ≤ ne) (hb : InBounds E os oe ns ne)
    (hp : alg = .patience → CaptureNF.SameSideBounds E os oe ns ne) :
    ∃ ops w', captureDiff alg E repair os oe ns ne w = .ok (ops, w') ∧
      Walk (eqB E) os ns ops oe ne ∧
      Alternating ops ∧
      (∀ x ∈ ops, x.isEmpty = false) ∧
      (∀ pre x y post, ops = pre ++ x :: y :: post → ¬ (x.tag ≠ .equal ∧ y.tag ≠ .equal)) ∧
      (∀ pre co cn l eo en el post, ops = pre ++ .insert co cn l :: .equal eo en el :: post →
        eqB E eo cn = false) :=
  CaptureNF.capture_normal_form alg E repair os oe ns ne w ho hn hb hp

/-- the same with the `Spec.NormalForm` predicate (Spec/Walk.lean) -/
theorem capture_normalForm (alg : Alg) (E : Env) (repair : Bool) (os oe ns ne : Nat) (w : World)
    (ho : os ≤ oe) (hn : ns ≤ ne) (hb : InBounds E os oe ns ne)
    (hp : alg = .patience → CaptureNF.SameSideBounds E os oe ns ne) :
    ∃ ops w', captureDiff alg E repair os oe ns ne w = .ok (ops, w') ∧ Walk (eqB E) os ns ops oe ne ∧
      NormalForm (eqB E) ops :=
  CaptureNF.capture_normalForm alg E repair os oe ns ne w ho hn hb hp

/-- clause 4 alone for whatever `capture_diff` returned after a valid raw run -/
theorem capture_insert_latest : type_of% @CaptureNF.capture_insert_latest := @CaptureNF.capture_insert_latest

/-- non-vacuity: in-bounds ranges with the same-side comparisons defined exist for every algorithm
(`[0,1,2]` vs `[0,2,2]`) … -/
example (alg : Alg) : InBounds (Env.ofSeqs #[0, 1, 2] #[0, 2, 2]) 0 3 0 3 ∧
    (alg = .patience → CaptureNF.SameSideBounds (Env.ofSeqs #[0, 1, 2] #[0, 2, 2]) 0 3 0 3) := by
  refine ⟨?_, fun _ => ⟨?_, ?_⟩⟩ <;>
  · intro i j _ hi _ hj
    have : i = 0 ∨ i = 1 ∨ i = 2 := by omega
    have : j = 0 ∨ j = 1 ∨ j = 2 := by omega
    rcases ‹i = 0 ∨ i = 1 ∨ i = 2› with rfl | rfl | rfl <;>
      rcases ‹j = 0 ∨ j = 1 ∨ j = 2› with rfl | rfl | rfl <;> decide

/-- … and clause 4 is exercised: old `[1,2]`, new `[1,1,2]` — the inserted `1` ends up AFTER the equal `1`
(latest position), directly before the equal `2` which differs from it -/
example : (captureDiff .myers (Env.ofSeqs #[1, 2] #[1, 1, 2]) false 0 2 0 3 {}).map (·.1) =
    .ok [.equal 0 0 1, .insert 1 1 1, .equal 1 2 1] := by rfl

#print axioms cleanup_insert_next_equal
#print axioms replace_keeps_latest
#print axioms capture_normal_form
#print axioms capture_normalForm
#print axioms capture_insert_latest

end SimilarVerif.C09

import SimilarVerif.Lemmas.TextDiff
import SimilarVerif.Lemmas.MyersTotal
/-!
# C04 — text diffs reconstruct both inputs byte-for-byte for every tokenizer

Composition of C06 (tokens tile the text), C02 (the ops walk both token lists completely) and C13
(expansion is faithful).  `value old new c` is the token a change carries (`old[idx]` or `new[idx]`).
"Every tokenizer" enters through the hypothesis `Tiling` that C06 proves for the eight non-unicode
tokenizers and, relative to the segmenter's contract, for the two unicode ones.  "Every algorithm":
LCS and Myers unconditionally, Patience whenever it returns (C01).
-/
namespace SimilarVerif.C04
open SimilarVerif Spec TextP

/-- index discipline and token-level reconstruction for ANY valid op list over the two token arrays -/
theorem reconstructs (old new : Array Bytes) (e : Nat → Nat → Bool) (ops : List Op) (he : UdiffP.Sound old new e)
    (hw : Walk e 0 0 ops old.size new.size) : Reconstructs old new ops :=
  reconstructs_of_walk old new e ops he hw

/-- old indices count 0,1,2,… and new indices count 0,1,2,… consecutively -/
theorem old_indices_consecutive : type_of% @old_indices := @old_indices
theorem new_indices_consecutive : type_of% @new_indices := @new_indices

/-- Equal changes carry both indices, Delete only the old, Insert only the new one -/
theorem index_shape : type_of% @change_shape := @change_shape

/-- **byte level**: concatenating the values of the non-Insert changes gives the old text, of the
non-Delete changes the new text, whenever the tokens tile the texts -/
theorem old_text_reconstructed : type_of% @old_bytes := @old_bytes
theorem new_text_reconstructed : type_of% @new_bytes := @new_bytes

/-- the model's text diff with LCS: unconditional -/
theorem text_diff_lcs : type_of% @textDiff_lcs_bytes := @textDiff_lcs_bytes

/-- the model's text diff with Myers (the default algorithm): unconditional -/
theorem text_diff_myers (repair : Bool) (old new : Array Bytes) (w w' : World) (ops : List Op)
    (h : textDiffOps .myers repair old new w = .ok (ops, w')) : Reconstructs old new ops :=
  textDiff_myers repair old new w w' ops (MyersT.snake_in_box _) h

/-- the model's text diff with Patience, whenever it returns -/
theorem text_diff_patience (repair : Bool) (old new : Array Bytes) (w w' : World) (ops : List Op)
    (h : textDiffOps .patience repair old new w = .ok (ops, w')) : Reconstructs old new ops :=
  textDiff_patience repair old new w w' ops (MyersT.snake_in_box _) (fun _ _ _ _ => MyersT.snake_in_box _) h

end SimilarVerif.C04

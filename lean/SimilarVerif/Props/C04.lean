import SimilarVerif.Lemmas.TextDiff
import SimilarVerif.Lemmas.MyersTotal
import SimilarVerif.Lemmas.TextTotal
/-!
# C04 — text diffs reconstruct both inputs byte-for-byte for every tokenizer

Composition of C06 (tokens tile the text), C02 (the ops walk both token lists completely) and C13
(expansion is faithful).  `value old new c` is the token a change carries (`old[idx]` or `new[idx]`).
"Every tokenizer" enters through the hypothesis `Tiling` that C06 proves for the eight non-unicode
tokenizers and, relative to the segmenter's contract, for the two unicode ones.  "Every algorithm":
LCS and Myers unconditionally, Patience whenever it returns (C01).
-/
namespace SimilarVerif.C04
open SimilarVerif Spec TextP

/-- index discipline and token-level reconstruction for ANY valid op list over the two token arrays -/
theorem reconstructs (old new : Array Bytes) (e : Nat → Nat → Bool) (ops : List Op) (he : UdiffP.Sound old new e)
    (hw : Walk e 0 0 ops old.size new.size) : Reconstructs old new ops :=
  reconstructs_of_walk old new e ops he hw

/-- old indices count 0,1,2,… and new indices count 0,1,2,… consecutively -/
theorem old_indices_consecutive : type_of% @old_indices := @old_indices
theorem new_indices_consecutive : type_of% @new_indices := @new_indices

/-- Equal changes carry both indices, Delete only the old, Insert only the new one -/
theorem index_shape : type_of% @change_shape := @change_shape

/-- **byte level**: concatenating the values of the non-Insert changes gives the old text, of the
non-Delete changes the new text, whenever the tokens tile the texts -/
theorem old_text_reconstructed : type_of% @old_bytes := @old_bytes
theorem new_text_reconstructed : type_of% @new_bytes := @new_bytes

/-- the model's text diff with LCS: unconditional -/
theorem text_diff_lcs : type_of% @textDiff_lcs_bytes := @textDiff_lcs_bytes

/-- the model's text diff with Myers (the default algorithm): unconditional -/
theorem text_diff_myers (repair : Bool) (old new : Array Bytes) (w w' : World) (ops : List Op)
    (h : textDiffOps .myers repair old new w = .ok (ops, w')) : Reconstructs old new ops :=
  textDiff_myers repair old new w w' ops (MyersT.snake_in_box _) h

/-- the model's text diff with Patience, whenever it returns -/
theorem text_diff_patience (repair : Bool) (old new : Array Bytes) (w w' : World) (ops : List Op)
    (h : textDiffOps .patience repair old new w = .ok (ops, w')) : Reconstructs old new ops :=
  textDiff_patience repair old new w w' ops (MyersT.snake_in_box _) (fun _ _ _ _ => MyersT.snake_in_box _) h

end SimilarVerif.C04

namespace SimilarVerif.C04
open SimilarVerif Spec TextP

/-- **C04 end to end — whatever the text diff returns, and it always returns**: for token ranges that tile
the two texts with non-empty tokens, every algorithm (Myers, Patience, LCS at once), shipped and repaired
clean-up, EVERY world (any clock), below and above the 100-token switch: `TextDiffConfig::diff` returns
ops; the changes of `iter_all_changes` have the C04 shape (old indices `0..#old`, new indices `0..#new`
consecutively; Equal: both indices, Delete: only old, Insert: only new), the values of the non-Insert
changes concatenate to the old text and those of the non-Delete changes to the new text, and no value is
empty.  This is `text_diff_{lcs,myers,patience}` + `old/new_text_reconstructed` without the "returns"
hypothesis. -/
theorem text_diff_total_reconstructs (alg : Alg) (repair : Bool) (bo bn : Bytes) (ro rn : List (Nat × Nat))
    (w : World) (hto : TokP.Tiling ro bo.length) (htn : TokP.Tiling rn bn.length) :
    ∃ ops w', textDiffOps alg repair (tokens bo ro) (tokens bn rn) w = .ok (ops, w') ∧
      Walk (eqB (Env.ofTokens (tokens bo ro) (tokens bn rn))) 0 0 ops ro.length rn.length ∧
      (allChanges ops).filterMap (·.oldIndex) = List.range ro.length ∧
      (allChanges ops).filterMap (·.newIndex) = List.range rn.length ∧
      (∀ c ∈ allChanges ops,
        (c.tag = .equal → c.oldIndex = some c.idx ∧ c.newIndex.isSome ∧ c.fromNew = false) ∧
        (c.tag = .delete → c.oldIndex = some c.idx ∧ c.newIndex = none ∧ c.fromNew = false) ∧
        (c.tag = .insert → c.oldIndex = none ∧ c.newIndex = some c.idx ∧ c.fromNew = true)) ∧
      Reconstructs (tokens bo ro) (tokens bn rn) ops ∧
      (((allChanges ops).filter (·.tag != .insert)).map (value (tokens bo ro) (tokens bn rn))).flatten = bo ∧
      (((allChanges ops).filter (·.tag != .delete)).map (value (tokens bo ro) (tokens bn rn))).flatten = bn ∧
      (∀ c ∈ allChanges ops, value (tokens bo ro) (tokens bn rn) c ≠ []) :=
  TextTotal.text_diff_total_reconstructs alg repair bo bn ro rn w hto htn

/-- token level, for ANY two token arrays (no tiling needed): the text diff returns and `Reconstructs` holds -/
theorem text_diff_total_tokens : type_of% @TextTotal.textDiff_total_tokens := @TextTotal.textDiff_total_tokens

/-- instance with no hypothesis left: the byte line tokenizer -/
theorem text_diff_total_linesB : type_of% @TextTotal.text_diff_total_linesB := @TextTotal.text_diff_total_linesB

/-- non-vacuity: tiling ranges exist (`"ab\nc"` as lines `[0,3) [3,4)`; `"ab\n"` as one line) -/
example : TokP.Tiling [(0, 3), (3, 4)] [97, 98, 10, 99].length ∧ TokP.Tiling [(0, 3)] [97, 98, 10].length := by
  simp [TokP.Tiling, TokP.TilingFrom]

/-- … and the theorem applies to them, for every algorithm and clock -/
example (alg : Alg) (w : World) :=
  text_diff_total_reconstructs alg false [97, 98, 10, 99] [97, 98, 10] [(0, 3), (3, 4)] [(0, 3)] w
    (by simp [TokP.Tiling, TokP.TilingFrom]) (by simp [TokP.Tiling, TokP.TilingFrom])

#print axioms text_diff_total_reconstructs
#print axioms text_diff_total_tokens
#print axioms text_diff_total_linesB

end SimilarVerif.C04

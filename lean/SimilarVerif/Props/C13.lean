import SimilarVerif.Model.Iter
import SimilarVerif.Spec.Changes
/-!
# C13 — expanding ops into changes and slices is faithful

`opChanges` / `allChanges` are the `ChangesIter` / `AllChangesIter` state machines of `src/iter.rs`
drained to exhaustion; `Spec.iterChanges` is the property text.  A `Change` records which index of
which sequence its value was read at (`fromNew`, `idx`), so "carrying the value found at that index
in the proper sequence" is the statement `idx = reported index`.
-/
namespace SimilarVerif.C13
open SimilarVerif

/-! ## helper lemmas about draining the per-op iterator -/

/-- draining an Equal iterator that still has `k` items -/
theorem drain_equal (k : Nat) : ∀ (fuel o n oEnd nEnd nI : Nat), k ≤ fuel → o + k = oEnd →
    ChIter.drain fuel { tag := .equal, oEnd := oEnd, nEnd := nEnd, oIndex := o, nIndex := n, oI := o, nI := nI } =
      (List.range k).map fun t => (⟨.equal, some (o+t), some (n+t), false, o+t⟩ : Change) := by
  induction k with
  | zero =>
    intro fuel o n oEnd nEnd nI _ h
    cases fuel with
    | zero => simp [ChIter.drain]
    | succ f => simp at h; subst h; simp [ChIter.drain, ChIter.next]
  | succ k ih =>
    intro fuel o n oEnd nEnd nI hf h
    cases fuel with
    | zero => omega
    | succ f =>
      have hlt : o < oEnd := by omega
      simp only [ChIter.drain, ChIter.next, hlt, if_true]
      rw [ih f (o+1) (n+1) oEnd nEnd nI (by omega) (by omega)]
      simp [List.range_succ_eq_map, Nat.add_assoc, Nat.add_comm 1]

theorem drain_delete (k : Nat) : ∀ (fuel o oEnd nEnd nIdx nI : Nat), k ≤ fuel → o + k = oEnd →
    ChIter.drain fuel { tag := .delete, oEnd := oEnd, nEnd := nEnd, oIndex := o, nIndex := nIdx, oI := o, nI := nI } =
      (List.range k).map fun t => (⟨.delete, some (o+t), none, false, o+t⟩ : Change) := by
  induction k with
  | zero =>
    intro fuel o oEnd nEnd nIdx nI _ h
    cases fuel with
    | zero => simp [ChIter.drain]
    | succ f => simp at h; subst h; simp [ChIter.drain, ChIter.next]
  | succ k ih =>
    intro fuel o oEnd nEnd nIdx nI hf h
    cases fuel with
    | zero => omega
    | succ f =>
      have hlt : o < oEnd := by omega
      simp only [ChIter.drain, ChIter.next, hlt, if_true]
      rw [ih f (o+1) oEnd nEnd nIdx nI (by omega) (by omega)]
      simp [List.range_succ_eq_map, Nat.add_assoc, Nat.add_comm 1]

theorem drain_insert (k : Nat) : ∀ (fuel n oEnd nEnd oIdx oI : Nat), k ≤ fuel → n + k = nEnd →
    ChIter.drain fuel { tag := .insert, oEnd := oEnd, nEnd := nEnd, oIndex := oIdx, nIndex := n, oI := oI, nI := n } =
      (List.range k).map fun t => (⟨.insert, none, some (n+t), true, n+t⟩ : Change) := by
  induction k with
  | zero =>
    intro fuel n oEnd nEnd oIdx oI _ h
    cases fuel with
    | zero => simp [ChIter.drain]
    | succ f => simp at h; subst h; simp [ChIter.drain, ChIter.next]
  | succ k ih =>
    intro fuel n oEnd nEnd oIdx oI hf h
    cases fuel with
    | zero => omega
    | succ f =>
      have hlt : n < nEnd := by omega
      simp only [ChIter.drain, ChIter.next, hlt, if_true]
      rw [ih f (n+1) oEnd nEnd oIdx oI (by omega) (by omega)]
      simp [List.range_succ_eq_map, Nat.add_assoc, Nat.add_comm 1]

/-- Replace iterator whose old side is exhausted: behaves like an Insert iterator -/
theorem drain_replace_new (k : Nat) : ∀ (fuel n oEnd nEnd oIdx : Nat), k ≤ fuel → n + k = nEnd →
    ChIter.drain fuel { tag := .replace, oEnd := oEnd, nEnd := nEnd, oIndex := oIdx, nIndex := n, oI := oEnd, nI := n } =
      (List.range k).map fun t => (⟨.insert, none, some (n+t), true, n+t⟩ : Change) := by
  induction k with
  | zero =>
    intro fuel n oEnd nEnd oIdx _ h
    cases fuel with
    | zero => simp [ChIter.drain]
    | succ f => simp at h; subst h; simp [ChIter.drain, ChIter.next]
  | succ k ih =>
    intro fuel n oEnd nEnd oIdx hf h
    cases fuel with
    | zero => omega
    | succ f =>
      have hlt : n < nEnd := by omega
      simp only [ChIter.drain, ChIter.next, Nat.lt_irrefl, if_false, hlt, if_true]
      rw [ih f (n+1) oEnd nEnd oIdx (by omega) (by omega)]
      simp [List.range_succ_eq_map, Nat.add_assoc, Nat.add_comm 1]

theorem drain_replace (k : Nat) : ∀ (fuel o n oEnd nEnd j : Nat), k + j ≤ fuel → o + k = oEnd → n + j = nEnd →
    ChIter.drain fuel { tag := .replace, oEnd := oEnd, nEnd := nEnd, oIndex := o, nIndex := n, oI := o, nI := n } =
      ((List.range k).map fun t => (⟨.delete, some (o+t), none, false, o+t⟩ : Change)) ++
      ((List.range j).map fun t => (⟨.insert, none, some (n+t), true, n+t⟩ : Change)) := by
  induction k with
  | zero =>
    intro fuel o n oEnd nEnd j hf h hn
    have : o = oEnd := by omega
    subst this
    simpa using drain_replace_new j fuel n o nEnd o (by omega) hn
  | succ k ih =>
    intro fuel o n oEnd nEnd j hf h hn
    cases fuel with
    | zero => omega
    | succ f =>
      have hlt : o < oEnd := by omega
      simp only [ChIter.drain, ChIter.next, hlt, if_true]
      rw [ih f (o+1) n oEnd nEnd j (by omega) (by omega) hn]
      simp [List.range_succ_eq_map, Nat.add_assoc, Nat.add_comm 1]

/-! ## the property -/

/-- **C13, per-op expansion.** Draining `ChangesIter` for any op of any kind, offsets and lengths
yields exactly the specified list: Equal `len` changes with both indices, Delete `old_len` with only
the old index, Insert `new_len` with only the new index, Replace all deletes then all inserts, every
value read at the reported index of the proper sequence, indices increasing by one. -/
theorem opChanges_eq_spec (x : Op) : opChanges x = Spec.iterChanges x := by
  cases x with
  | equal o n len =>
    simpa [opChanges, ChIter.new, Op.tag, Op.oEnd, Op.nEnd, Op.oStart, Op.nStart, Op.oLen, Op.nLen, Spec.iterChanges]
      using drain_equal len (len + len) o n (o + len) (n + len) n (by omega) rfl
  | delete o len n =>
    simpa [opChanges, ChIter.new, Op.tag, Op.oEnd, Op.nEnd, Op.oStart, Op.nStart, Op.oLen, Op.nLen, Spec.iterChanges]
      using drain_delete len (len + 0) o (o + len) (n + 0) n n (by omega) rfl
  | insert o n len =>
    simpa [opChanges, ChIter.new, Op.tag, Op.oEnd, Op.nEnd, Op.oStart, Op.nStart, Op.oLen, Op.nLen, Spec.iterChanges]
      using drain_insert len (0 + len) n (o + 0) (n + len) o o (by omega) rfl
  | replace o ol n nl =>
    simpa [opChanges, ChIter.new, Op.tag, Op.oEnd, Op.nEnd, Op.oStart, Op.nStart, Op.oLen, Op.nLen, Spec.iterChanges]
      using drain_replace ol (ol + nl) o n (o + ol) (n + nl) nl (by omega) rfl rfl

end SimilarVerif.C13

namespace SimilarVerif.C13
open SimilarVerif

/-! ## whole-diff iteration -/

/-- items an iterator still has to yield -/
def left (it : ChIter) : Nat :=
  match it.tag with
  | .equal | .delete => it.oEnd - it.oI
  | .insert => it.nEnd - it.nI
  | .replace => (it.oEnd - it.oI) + (it.nEnd - it.nI)

theorem next_none_iff (it : ChIter) : it.next = none ↔ left it = 0 := by
  unfold ChIter.next left
  cases it.tag
  · by_cases h : it.oI < it.oEnd <;> simp [h] <;> omega
  · by_cases h : it.oI < it.oEnd <;> simp [h] <;> omega
  · by_cases h : it.nI < it.nEnd <;> simp [h] <;> omega
  · by_cases h : it.oI < it.oEnd <;> by_cases h2 : it.nI < it.nEnd <;> simp [h, h2] <;> omega

theorem next_some_left {it it' : ChIter} {c : Change} (h : it.next = some (c, it')) : left it' + 1 = left it := by
  unfold ChIter.next at h
  unfold left
  cases ht : it.tag <;> simp only [ht] at h <;> (repeat' split at h) <;> simp at h <;>
    (obtain ⟨_, rfl⟩ := h) <;> simp [ht] <;> omega

/-- more fuel than items left changes nothing -/
theorem drain_fuel (f : Nat) : ∀ (it : ChIter) (g : Nat), left it ≤ f → left it ≤ g → ChIter.drain f it = ChIter.drain g it := by
  induction f with
  | zero =>
    intro it g h0 _
    have : it.next = none := (next_none_iff it).2 (by omega)
    cases g <;> simp [ChIter.drain, this]
  | succ f ih =>
    intro it g hf hg
    cases hn : it.next with
    | none => cases g <;> simp [ChIter.drain, hn]
    | some p =>
      obtain ⟨c, it'⟩ := p
      have hl := next_some_left hn
      cases g with
      | zero => omega
      | succ g =>
        simp only [ChIter.drain, hn]
        rw [ih it' g (by omega) (by omega)]

theorem left_new (x : Op) : left (ChIter.new x) ≤ x.oLen + x.nLen := by
  cases x <;> simp [left, ChIter.new, Op.tag, Op.oEnd, Op.nEnd, Op.oStart, Op.nStart, Op.oLen, Op.nLen]

/-- the items the whole-diff iterator still owes -/
def owed (a : AllIter) : List Change :=
  (match a.cur with | some it => ChIter.drain (left it) it | none => []) ++ a.ops.flatMap opChanges

def owedCount (a : AllIter) : Nat :=
  (match a.cur with | some it => left it | none => 0) + (a.ops.map fun x => x.oLen + x.nLen).sum

/-- what a correct answer of `AllChangesIter::next` in state `a` looks like -/
def NextOk (r : Option (Change × AllIter)) (a : AllIter) : Prop :=
  match r with
  | none => owed a = []
  | some (c, a') => owed a = c :: owed a' ∧ owedCount a' + 1 ≤ owedCount a ∧ a'.ops.length ≤ a.ops.length

theorem nextOk_mono {r : Option (Change × AllIter)} {a b : AllIter} (h : NextOk r a) (ho : owed b = owed a)
    (hc : owedCount a ≤ owedCount b) (hl : a.ops.length ≤ b.ops.length) : NextOk r b := by
  unfold NextOk at *
  cases r with
  | none => simpa [ho] using h
  | some p => obtain ⟨c, a'⟩ := p; exact ⟨by rw [ho]; exact h.1, by omega, by omega⟩

theorem all_next_some_of_none (ops : List Op)
    (hnone : ∀ fuel, 2 * ops.length + 1 ≤ fuel → NextOk (AllIter.next fuel { ops := ops, cur := none }) { ops := ops, cur := none })
    (it : ChIter) (fuel : Nat) (hf : 2 * ops.length + 2 ≤ fuel) :
    NextOk (AllIter.next fuel { ops := ops, cur := some it }) { ops := ops, cur := some it } := by
  match fuel, hf with
  | f+1, hf =>
  cases hn : it.next with
  | none =>
    have h0 := (next_none_iff it).1 hn
    simp only [AllIter.next, hn]
    exact nextOk_mono (hnone f (by omega)) (by simp [owed, h0, ChIter.drain]) (by simp [owedCount]) (Nat.le_refl _)
  | some p =>
    obtain ⟨c, it'⟩ := p
    have hl := next_some_left hn
    simp only [AllIter.next, hn, NextOk, owed, owedCount]
    refine ⟨?_, by omega, by simp⟩
    rw [← hl]; simp [ChIter.drain, hn]

theorem all_next_none (ops : List Op) : ∀ fuel, 2 * ops.length + 1 ≤ fuel →
    NextOk (AllIter.next fuel { ops := ops, cur := none }) { ops := ops, cur := none } := by
  induction ops with
  | nil =>
    intro fuel hf
    match fuel, hf with
    | f+1, _ => simp [AllIter.next, NextOk, owed]
  | cons x rest ih =>
    intro fuel hf
    match fuel, hf with
    | f+1, hf =>
    simp only [AllIter.next]
    have h := all_next_some_of_none rest ih (ChIter.new x) f (by simp at hf; omega)
    refine nextOk_mono h ?_ ?_ (by simp)
    · simp [owed, opChanges, drain_fuel _ _ _ (left_new x) (Nat.le_refl _)]
    · simp [owedCount]; have := left_new x; omega

theorem all_next (a : AllIter) : NextOk (AllIter.next (2 * a.ops.length + 2) a) a := by
  obtain ⟨ops, cur⟩ := a
  cases cur with
  | none => exact all_next_none ops _ (by simp)
  | some it => exact all_next_some_of_none ops (all_next_none ops) it _ (by simp)

theorem all_drain (F : Nat) : ∀ (a : AllIter), owedCount a ≤ F → AllIter.drain F a = owed a := by
  induction F with
  | zero =>
    intro a h
    have := all_next a
    simp only [AllIter.drain]
    cases hn : AllIter.next (2 * a.ops.length + 2) a with
    | none => rw [hn] at this; exact this.symm
    | some p => obtain ⟨c, a'⟩ := p; rw [hn] at this; have := this.2.1; omega
  | succ F ih =>
    intro a h
    have := all_next a
    simp only [AllIter.drain]
    cases hn : AllIter.next (2 * a.ops.length + 2) a with
    | none => rw [hn] at this; exact this.symm
    | some p =>
      obtain ⟨c, a'⟩ := p
      rw [hn] at this
      simp only
      rw [ih a' (by have := this.2.1; omega)]
      exact this.1.symm

theorem sum_fold (ops : List Op) (k : Nat) :
    ops.foldl (fun a x => a + x.oLen + x.nLen) k = k + (ops.map fun x => x.oLen + x.nLen).sum := by
  induction ops generalizing k with
  | nil => simp
  | cons x xs ih => simp [ih]; omega

/-- **C13, whole-diff iteration** equals the concatenation of the per-op expansions. -/
theorem allChanges_eq_flatMap (ops : List Op) : allChanges ops = ops.flatMap opChanges := by
  unfold allChanges
  rw [all_drain _ _ (by simp [owedCount, sum_fold])]
  simp [owed]

/-- … and therefore the concatenation of the specified per-op lists. -/
theorem allChanges_eq_spec (ops : List Op) : allChanges ops = Spec.iterAllChanges ops := by
  rw [allChanges_eq_flatMap]; unfold Spec.iterAllChanges
  congr 1; funext x; exact opChanges_eq_spec x

end SimilarVerif.C13

namespace SimilarVerif.C13
open SimilarVerif

/-- the items of one slice `(tag, side, start, end)` -/
def sliceItems (s : CTag × Bool × Nat × Nat) : List (CTag × Bool × Nat) :=
  (List.range (s.2.2.2 - s.2.2.1)).map fun t => (s.1, s.2.1, s.2.2.1 + t)

/-- **C13, slice-wise expansion** yields the same items as item-wise expansion, as one slice (two
for Replace). -/
theorem iterSlices_items (x : Op) :
    (iterSlices x).flatMap sliceItems = (opChanges x).map fun c => (c.tag, c.fromNew, c.idx) := by
  rw [opChanges_eq_spec]
  cases x <;> simp [iterSlices, sliceItems, Spec.iterChanges, Function.comp_def]

theorem iterSlices_count (x : Op) : (iterSlices x).length = if x.tag = .replace then 2 else 1 := by
  cases x <;> simp [iterSlices, Op.tag]

/-- **C13, re-applying an op to a capturing hook reproduces the op** (`apply_to_hook` delivers the
op's own callback; `Capture` records all four kinds natively). -/
theorem applyToHook_capture (x : Op) (w : World) :
    recHook.call (.op x) {} w = .ok ({ trace := [.op x] }, w) := by
  cases x <;> simp [recHook, Rec.push, Except.map]

/-- indices increase by one: the `i`-th change of an Equal op -/
theorem equal_nth (o n len i : Nat) (h : i < len) :
    (opChanges (.equal o n len))[i]? = some ⟨.equal, some (o+i), some (n+i), false, o+i⟩ := by
  rw [opChanges_eq_spec]; simp [Spec.iterChanges, h]

/-- non-vacuity: a concrete Replace op expands to its two deletes followed by its insert -/
example : opChanges (.replace 2 2 3 1) =
    [⟨.delete, some 2, none, false, 2⟩, ⟨.delete, some 3, none, false, 3⟩, ⟨.insert, none, some 3, true, 3⟩] := by
  decide

end SimilarVerif.C13

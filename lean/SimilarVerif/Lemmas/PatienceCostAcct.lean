import SimilarVerif.Lemmas.MyersCost
import SimilarVerif.Lemmas.Deadline
import SimilarVerif.Lemmas.PatienceTotal
/-! # Cost accounting for Myers runs over a hook that compares items itself

Patience drives its OUTER Myers run with a hook that scans and runs further Myers runs, all in the
same world.  To split `World.cmps` into "comparisons of the outer algorithm" and "comparisons made
inside hook calls" we wrap the hook into a ghost hook `gh h` whose state carries a counter of the
comparisons spent inside its calls (`gh_sim`: the wrapped run is the same run).  `conquer_cmps_acct`
/ `myers_cmps_acct` are `MyersC.conquer_cmps` / `myers_cmps` for any hook with such an account `γ`;
`conquer_expired_acct` / `myersDiff_expired_acct` are the entry-expired bounds of `DeadlineP`. -/
namespace SimilarVerif.PatienceC
open SimilarVerif Spec MyersP MyersT MyersC MyersG HookFail DeadlineP

/-- the ghost wrapper: the second component accumulates the comparisons made inside hook calls -/
def gh {σ} (h : Hook σ) : Hook (σ × Nat) where
  call c t w :=
    match h.call c t.1 w with
    | .error e => .error e
    | .ok (s', w') => .ok ((s', t.2 + (w'.cmps - w.cmps)), w')

theorem gh_ok {σ} {h : Hook σ} {c : Call} {t t' : σ × Nat} {w w' : World}
    (hc : (gh h).call c t w = .ok (t', w')) :
    h.call c t.1 w = .ok (t'.1, w') ∧ t'.2 = t.2 + (w'.cmps - w.cmps) := by
  simp only [gh] at hc
  split at hc
  · simp at hc
  · rename_i s1 w1 h1
    simp only [Except.ok.injEq, Prod.mk.injEq] at hc
    obtain ⟨rfl, rfl⟩ := hc
    exact ⟨h1, rfl⟩

/-- the wrapped hook simulates the hook (same results, same worlds) -/
theorem gh_sim {σ} (h : Hook σ) : Sim h (gh h) (fun s t => t.1 = s) (fun _ _ => False) := by
  refine ⟨fun _ _ _ _ _ _ _ hF => hF, ?_⟩
  intro c s t w s' w' hR hc
  obtain ⟨t1, g⟩ := t
  simp only at hR
  subst hR
  left
  refine ⟨(s', g + (w'.cmps - w.cmps)), ?_, rfl⟩
  simp only [gh, hc]

/-- a run of `myers::diff` over `h` is a run over `gh h` -/
theorem myersDiff_gh {σ} {h : Hook σ} {E : Env} {os oe ns ne : Nat} {s s' : σ} {w w' : World} (g : Nat)
    (hc : myersDiff E h os oe ns ne s w = .ok (s', w')) :
    ∃ g', myersDiff E (gh h) os oe ns ne (s, g) w = .ok ((s', g'), w') := by
  have := myersDiff_sim (gh_sim h) (t := (s, g)) rfl hc
  rcases this with ⟨t', h1, h2⟩ | ⟨e, _, hF⟩
  · obtain ⟨s1, g'⟩ := t'
    simp only at h2
    subst h2
    exact ⟨g', h1⟩
  · exact hF.elim

/-- `γ` accounts for the comparisons made inside the calls of `h` -/
def HookAcct {τ} (h : Hook τ) (γ : τ → Nat) : Prop :=
  ∀ c t w t' w', h.call c t w = .ok (t', w') → w'.cmps + γ t ≤ w.cmps + γ t'

theorem gh_acct {σ} (h : Hook σ) : HookAcct (gh h) (fun t => t.2) := by
  intro c t w t' w' hc
  obtain ⟨_, h2⟩ := gh_ok hc
  simp only [h2]
  omega

theorem gh_keeps {σ} {h : Hook σ} (hk : HookKeepsClock h) : HookKeepsClock (gh h) := by
  intro c t w t' w' hc hw
  exact hk _ _ _ _ _ (gh_ok hc).1 hw

/-- a hook that leaves an expired clock expired -/
def HookKeepsExpired {τ} (h : Hook τ) : Prop :=
  ∀ c t w t' w', h.call c t w = .ok (t', w') → w.clock = some 0 → w'.clock = some 0

theorem gh_keepsExpired {σ} {h : Hook σ} (hk : HookKeepsExpired h) : HookKeepsExpired (gh h) := by
  intro c t w t' w' hc hw
  exact hk _ _ _ _ _ (gh_ok hc).1 hw

/-- `Delivered` over the ghost hook projects to `Delivered` over the hook -/
theorem Delivered.of_gh {σ} {h : Hook σ} {ops : List Op} {t t' : σ × Nat} {w w' : World}
    (hd : Delivered (gh h) ops t w t' w') : Delivered h ops t.1 w t'.1 w' := by
  induction hd with
  | nil h0 => exact .nil h0
  | cons h0 hc _ ih => exact .cons h0 (gh_ok hc).1 ih

/-! ## `conquer` / `myers::diff` without a deadline, over a hook with an account -/

theorem emit_acct {τ} {h : Hook τ} {γ : τ → Nat} (hq : HookAcct h γ) (hk : HookKeepsClock h)
    {x : Op} {s s' : τ} {w w' : World} (hw : w.clock = none)
    (he : emit h x s w = .ok (s', w')) : w'.cmps + γ s ≤ w.cmps + γ s' ∧ w'.clock = none :=
  ⟨hq _ _ _ _ _ he, hk _ _ _ _ _ he hw⟩

/-- **C19 for `conquer` over any hook** that never installs a deadline: the comparisons that are not
accounted for by the hook's own account `γ` are at most `22·(N+M)·D + (N+M) + 2` -/
theorem conquer_cmps_acct {τ} (E : Env) (h : Hook τ) (γ : τ → Nat) (hq : HookAcct h γ)
    (hk : HookKeepsClock h) (off : Nat) :
    ∀ (fuel os oe ns ne : Nat) (vf vb : V) (s : τ) (w : World) (s' : τ) (vf' vb' : V) (w' : World),
      os ≤ oe → ns ≤ ne → w.clock = none →
      conquer E h off fuel os oe ns ne vf vb s w = .ok (s', vf', vb', w') →
      w'.cmps + γ s ≤ w.cmps + γ s' + 22 * (((oe-os) + (ne-ns)) * boxD E os oe ns ne)
          + ((oe-os) + (ne-ns)) + 2 ∧ w'.clock = none := by
  intro fuel
  induction fuel with
  | zero => intro os oe ns ne vf vb s w s' vf' vb' w' _ _ _ hc; simp [conquer] at hc
  | succ f ih =>
    intro os oe ns ne vf vb s w s' vf' vb' w' ho hn hc hrun
    simp only [conquer] at hrun
    split at hrun
    · simp at hrun
    · rename_i p w1 hp
      obtain ⟨hp1, hp2, hp3, hp4, hp5⟩ := commonPrefixLen_spec hp
      have hc1 : w1.clock = none := by rw [hp5.1]; exact hc
      split at hrun
      · simp at hrun
      · rename_i s1 w2 hpre
        have hpre' : w2.cmps + γ s ≤ w1.cmps + γ s1 ∧ w2.clock = none := by
          split at hpre
          · exact emit_acct hq hk hc1 hpre
          · simp only [Except.ok.injEq, Prod.mk.injEq] at hpre
            obtain ⟨rfl, rfl⟩ := hpre
            exact ⟨Nat.le_refl _, hc1⟩
        obtain ⟨hw2, hc2⟩ := hpre'
        have hD1 := boxD_strip_prefix (E := E) hp1 hp2 hp3
        split at hrun
        · simp at hrun
        · rename_i sl w3 hs
          obtain ⟨hs1, hs2, hs3, hs4, hs5⟩ := commonSuffixLen_spec hs
          have hc3 : w3.clock = none := by rw [hs5.1]; exact hc2
          have hD2 := boxD_strip_suffix (E := E) (os := os+p) (ns := ns+p) hs1 hs2 hs3
          split at hrun
          · simp at hrun
          · rename_i s2 vf2 vb2 w4 hmid
            have hmid' : w4.cmps + γ s1 ≤ w3.cmps + γ s2 + 22 * (((oe-os) + (ne-ns)) * boxD E os oe ns ne)
                + ((oe - sl - (os+p)) + (ne - sl - (ns+p))) ∧ w4.clock = none := by
              split at hmid
              · simp only [Except.ok.injEq, Prod.mk.injEq] at hmid
                obtain ⟨rfl, -, -, rfl⟩ := hmid
                exact ⟨by omega, hc3⟩
              · split at hmid
                · split at hmid
                  · simp at hmid
                  · rename_i sa wa hem
                    simp only [Except.ok.injEq, Prod.mk.injEq] at hmid
                    obtain ⟨rfl, -, -, rfl⟩ := hmid
                    obtain ⟨e1, e2⟩ := emit_acct hq hk hc3 hem
                    exact ⟨by omega, e2⟩
                · rename_i hne
                  split at hmid
                  · split at hmid
                    · simp at hmid
                    · rename_i sa wa hem
                      simp only [Except.ok.injEq, Prod.mk.injEq] at hmid
                      obtain ⟨rfl, -, -, rfl⟩ := hmid
                      obtain ⟨e1, e2⟩ := emit_acct hq hk hc3 hem
                      exact ⟨by omega, e2⟩
                  · rename_i hoe
                    have ho' : os + p < oe - sl := by omega
                    have hn' : ns + p < ne - sl := by omega
                    split at hmid
                    · simp at hmid
                    · rename_i vf5 vb5 x y w5 hfm
                      have hsp := findMiddleSnake_spec (Nat.le_of_lt ho') (Nat.le_of_lt hn') hfm
                      simp only [LoopPost] at hsp
                      obtain ⟨hx1, hx2, hy1, hy2, h5, h6, h7⟩ := id hsp
                      simp only at hx1 hx2 hy1 hy2 h5 h6 h7
                      have hc5 : w5.clock = none := findMiddleSnake_clock hfm hc3
                      have hcost := findMiddleSnake_cost hfm
                      split at hmid
                      · simp at hmid
                      · rename_i sa vfa vba wa hca
                        obtain ⟨ia, hca'⟩ := ih _ _ _ _ _ _ _ _ _ _ _ _ hx1 hy1 hc5 hca
                        obtain ⟨ib, hcb'⟩ := ih _ _ _ _ _ _ _ _ _ _ _ _ hx2 hy2 hca' hmid
                        refine ⟨?_, hcb'⟩
                        have hDD : boxD E os oe ns ne = boxD E (os+p) (oe-sl) (ns+p) (ne-sl) := by
                          rw [hD1, hD2]
                        have hsplit := boxD_split hsp
                        have hL := boxD_left (E := E) hx1 hx2 hy1 hy2
                        have hge : 2 ≤ boxD E (os+p) (oe-sl) (ns+p) (ne-sl) :=
                          dist_ge_two (f := fE E (os+p) (oe-sl) (ns+p) (ne-sl)) (by omega) (by omega)
                            (by rw [fE_first ho' hn']; exact hp4 (by omega) (by omega))
                            (by rw [fE_last ho' hn']
                                have := hs4 (by omega) (by omega)
                                rwa [show oe - sl - 1 = oe - 1 - sl from by omega,
                                  show ne - sl - 1 = ne - 1 - sl from by omega])
                        have hle : boxD E (os+p) (oe-sl) (ns+p) (ne-sl) ≤ _ :=
                          dist_le_add (fE E (os+p) (oe-sl) (ns+p) (ne-sl)) (oe-sl-(os+p)) (ne-sl-(ns+p))
                        rw [← hL] at h5 h6
                        change _ ≤ boxD E (os+p) (oe-sl) (ns+p) (ne-sl) + 1 at h6
                        change _ ≤ boxD E (os+p) (oe-sl) (ns+p) (ne-sl) at h7
                        change _ = boxD E (os+p) (oe-sl) (ns+p) (ne-sl) at h5
                        have hF := call_arith ((boxD E (os+p) (oe-sl) (ns+p) (ne-sl) + 1)/2)
                          (boxD E (os+p) (oe-sl) (ns+p) (ne-sl) / 2)
                          ((oe-sl-(os+p)) + (ne-sl-(ns+p))) (oe-sl-(os+p))
                          (min (oe-sl-(os+p)) (ne-sl-(ns+p))) (by omega) (by omega) (by omega) (by omega) (by omega)
                        have hR := conq_arith _ _ (boxD E (os+p) (oe-sl) (ns+p) (ne-sl))
                          (boxD E (os+p) x (ns+p) y) (boxD E x (oe-sl) y (ne-sl))
                          _ ((x-(os+p)) + (y-(ns+p))) ((oe-sl-x) + (ne-sl-y)) ((oe-os) + (ne-ns))
                          hF (by omega) (by omega) (by omega) (by omega) (by omega)
                        rw [hDD]
                        omega
                    · rename_i vf5 vb5 w5 hfm
                      have hsp := findMiddleSnake_spec (Nat.le_of_lt ho') (Nat.le_of_lt hn') hfm
                      simp only [LoopPost] at hsp
                      exact absurd hc3 hsp
            obtain ⟨hw4, hc4⟩ := hmid'
            have hpost : w'.cmps + γ s2 ≤ w4.cmps + γ s' ∧ w'.clock = none := by
              split at hrun
              · split at hrun
                · simp at hrun
                · rename_i sc wc hem
                  simp only [Except.ok.injEq, Prod.mk.injEq] at hrun
                  obtain ⟨rfl, -, -, rfl⟩ := hrun
                  exact emit_acct hq hk hc4 hem
              · simp only [Except.ok.injEq, Prod.mk.injEq] at hrun
                obtain ⟨rfl, -, -, rfl⟩ := hrun
                exact ⟨Nat.le_refl _, hc4⟩
            obtain ⟨hw', hc'⟩ := hpost
            refine ⟨?_, hc'⟩
            have := hp5.2.2.2
            have := hs5.2.2.2
            omega

/-- **C19 for `myers::diff` over any hook** with an account that never installs a deadline -/
theorem myers_cmps_acct {τ} (E : Env) (h : Hook τ) (γ : τ → Nat) (hq : HookAcct h γ)
    (hk : HookKeepsClock h) (os oe ns ne : Nat) (s : τ) (w : World)
    (s' : τ) (w' : World) (ho : os ≤ oe) (hn : ns ≤ ne) (hc : w.clock = none)
    (hrun : myersDiff E h os oe ns ne s w = .ok (s', w')) :
    w'.cmps + γ s ≤ w.cmps + γ s' + 22 * (((oe-os) + (ne-ns) + 1) * (boxD E os oe ns ne + 1)) ∧
      w'.clock = none := by
  unfold myersDiff at hrun
  simp only at hrun
  split at hrun
  · simp at hrun
  · rename_i s1 vf1 vb1 w1 hcq
    obtain ⟨h1, hc1⟩ := conquer_cmps_acct E h γ hq hk _ _ os oe ns ne _ _ s w s1 vf1 vb1 w1 ho hn hc hcq
    have h2 := hq _ _ _ _ _ hrun
    refine ⟨?_, hk _ _ _ _ _ hrun hc1⟩
    have e : ((oe-os) + (ne-ns) + 1) * (boxD E os oe ns ne + 1) =
        ((oe-os) + (ne-ns)) * boxD E os oe ns ne + ((oe-os) + (ne-ns)) + boxD E os oe ns ne + 1 := by
      rw [Nat.add_mul, Nat.mul_add, Nat.mul_one, Nat.one_mul]; omega
    rw [e]; omega

/-! ## `conquer` / `myers::diff` entered on an expired clock, over a hook with an account -/

theorem call_exp {τ} {h : Hook τ} {γ : τ → Nat} (hq : HookAcct h γ) (hk : HookKeepsExpired h)
    {c s w s' w'} (hc : h.call c s w = .ok (s', w')) :
    (ck w = 1 → ck w' = 1) ∧ w'.cmps + γ s ≤ w.cmps + γ s' :=
  ⟨fun h1 => ck_one.2 (hk _ _ _ _ _ hc (ck_one.1 h1)), hq _ _ _ _ _ hc⟩

theorem optEmit_exp {τ} {h : Hook τ} {γ : τ → Nat} (hq : HookAcct h γ) (hk : HookKeepsExpired h)
    {c : Prop} [Decidable c] {x s w s' w'}
    (hc : (if c then h.call x s w else .ok (s, w)) = .ok (s', w')) :
    (ck w = 1 → ck w' = 1) ∧ w'.cmps + γ s ≤ w.cmps + γ s' := by
  split at hc
  · exact call_exp hq hk hc
  · cases hc; exact ⟨id, Nat.le_refl _⟩

/-- a `conquer` call started on an expired clock: besides what the hook's account `γ` covers, at
most `min n m + 2` comparisons; the clock stays expired -/
theorem conquer_expired_acct {τ} {h : Hook τ} {γ : τ → Nat} (hq : HookAcct h γ) (hk : HookKeepsExpired h)
    {E : Env} {off fuel os oe ns ne : Nat}
    {vf vb vf' vb' : V} {s s' : τ} {w w' : World} (h0 : w.clock = some 0)
    (hc : conquer E h off (fuel + 1) os oe ns ne vf vb s w = .ok (s', vf', vb', w')) :
    w'.clock = some 0 ∧ w'.cmps + γ s ≤ w.cmps + γ s' + min (oe - os) (ne - ns) + 2 := by
  have h1 := ck_one.2 h0
  unfold conquer at hc
  destruct_run
  all_goals
    gather [optEmit_exp hq hk, call_exp hq hk, cpl_facts, csl_facts, fms_facts, fms_some]
    first | (exfalso; omega) | (refine ⟨ck_one.1 ?_, ?_⟩ <;> omega)

theorem myersDiff_expired_acct {τ} {h : Hook τ} {γ : τ → Nat} (hq : HookAcct h γ) (hk : HookKeepsExpired h)
    {E : Env} {os oe ns ne : Nat} {s s' : τ} {w w' : World} (h0 : w.clock = some 0)
    (hc : myersDiff E h os oe ns ne s w = .ok (s', w')) :
    w'.clock = some 0 ∧ w'.cmps + γ s ≤ w.cmps + γ s' + min (oe - os) (ne - ns) + 2 := by
  unfold myersDiff at hc
  rw [show oe - os + (ne - ns) + 2 = (oe - os + (ne - ns) + 1) + 1 from rfl] at hc
  destruct_run
  rename_i hq'
  obtain ⟨a1, a2⟩ := conquer_expired_acct hq hk h0 hq'
  have b := call_exp hq hk hc
  exact ⟨ck_one.1 (b.1 (ck_one.2 a1)), by omega⟩

end SimilarVerif.PatienceC

import SimilarVerif.Lemmas.Udiff
import SimilarVerif.Lemmas.UdiffParse
/-! # `Display` output of a unified diff = lossy decoding of the `to_writer` output (C05)

`lossy` (Model/Udiff.lean) is bstr-style maximal-subpart lossy decoding.  Two locality facts:
an ASCII byte is decoded on its own (`lossy_cons_ascii`), and an incomplete sequence at the end of `a` is cut
by a following ASCII byte exactly as by the end of input (`lossy_append_ascii`).  Every piece the renderer
prints around a line body is ASCII (tag bytes, `@@ -a,b +c,d @@`, `\n`, `\ No newline at end of file`,
`--- ` / `+++ `), so decoding the writer's bytes as a whole is decoding every line body separately.
-/
namespace SimilarVerif.LossyP
open SimilarVerif TokP UdiffP

/-! ## ASCII bytes -/

/-- every byte is ASCII -/
def AsciiAll (b : Bytes) : Prop := ∀ x ∈ b, x < 0x80

/-- empty, or the first byte is ASCII -/
def AsciiHd (b : Bytes) : Prop := ∀ x, b.head? = some x → x < 0x80

theorem AsciiAll.hd {b : Bytes} (h : AsciiAll b) : AsciiHd b := by
  intro x hx
  cases b with
  | nil => simp at hx
  | cons y ys => simp only [List.head?_cons, Option.some.injEq] at hx; subst hx; exact h _ (List.mem_cons_self ..)

theorem AsciiAll.append {a b : Bytes} (ha : AsciiAll a) (hb : AsciiAll b) : AsciiAll (a ++ b) := by
  intro x hx
  rcases List.mem_append.1 hx with h | h
  · exact ha x h
  · exact hb x h

theorem asciiHd_nil : AsciiHd [] := by intro x hx; simp at hx

theorem asciiHd_cons {x : UInt8} (hx : x < 0x80) (b : Bytes) : AsciiHd (x :: b) := by
  intro y hy; simp only [List.head?_cons, Option.some.injEq] at hy; subst hy; exact hx

theorem AsciiHd.append {a b : Bytes} (ha : AsciiHd a) (hb : AsciiHd b) : AsciiHd (a ++ b) := by
  cases a with
  | nil => exact hb
  | cons y ys => intro x hx; exact ha x (by simpa using hx)

/-! ## the decoder, without positions -/

/-- the bytes `lossy` produces, by the same recursion as `charIndicesB` -/
def decAll : Nat → Bytes → Bytes
  | 0, _ => []
  | _ + 1, [] => []
  | fuel + 1, b0 :: rest =>
    utf8Enc (decodeOne (b0 :: rest)).1 ++ decAll fuel ((b0 :: rest).drop (decodeOne (b0 :: rest)).2)

theorem charIndicesB_flatMap : ∀ (fuel pos : Nat) (bs : Bytes),
    ((charIndicesB fuel pos bs).flatMap fun (x : Nat × Nat × Char) => utf8Enc x.2.2) = decAll fuel bs := by
  intro fuel
  induction fuel with
  | zero => intro pos bs; simp [charIndicesB, decAll]
  | succ fuel ih =>
    intro pos bs
    cases bs with
    | nil => simp [charIndicesB, decAll]
    | cons b0 rest =>
      obtain ⟨k1, -⟩ := decodeOne_spec b0 rest
      have hk : (if ((decodeOne (b0 :: rest)).2 == 0) = true then 1 else (decodeOne (b0 :: rest)).2)
          = (decodeOne (b0 :: rest)).2 := by
        rw [if_neg]; simp only [beq_iff_eq]; omega
      simp only [charIndicesB, hk, List.flatMap_cons, ih, decAll]

theorem lossy_eq_decAll (b : Bytes) : lossy b = decAll b.length b := by
  unfold lossy
  exact charIndicesB_flatMap b.length 0 b

theorem decAll_nil (n : Nat) : decAll n [] = [] := by cases n <;> rfl

theorem decAll_fuel2 : ∀ (f1 f2 : Nat) (bs : Bytes), bs.length ≤ f1 → bs.length ≤ f2 → decAll f1 bs = decAll f2 bs := by
  intro f1
  induction f1 with
  | zero =>
    intro f2 bs h1 _
    have : bs = [] := List.eq_nil_of_length_eq_zero (by omega)
    subst this; rw [decAll_nil, decAll_nil]
  | succ f1 ih =>
    intro f2 bs h1 h2
    cases bs with
    | nil => rw [decAll_nil, decAll_nil]
    | cons b0 rest =>
      cases f2 with
      | zero => simp at h2
      | succ f2 =>
        obtain ⟨k1, -⟩ := decodeOne_spec b0 rest
        simp only [decAll]
        congr 1
        apply ih
        · simp only [List.length_drop, List.length_cons] at h1 ⊢; omega
        · simp only [List.length_drop, List.length_cons] at h2 ⊢; omega

theorem decAll_fuel {fuel : Nat} {bs : Bytes} (h : bs.length ≤ fuel) : decAll fuel bs = decAll bs.length bs :=
  decAll_fuel2 fuel bs.length bs h (Nat.le_refl _)

/-! ## locality of one decoding step -/

theorem isCont_ascii {x : UInt8} (hx : x < 0x80) : isCont x = false := by
  simp only [isCont, UInt8.lt_iff_toNat_lt, UInt8.le_iff_toNat_le, UInt8.toNat_ofNat, Nat.reducePow, Nat.reduceMod,
    Bool.and_eq_false_iff, decide_eq_false_iff_not] at *
  omega

theorem range_ascii {lo hi x : UInt8} (hlo : 0x80 ≤ lo) (hx : x < 0x80) :
    (decide (lo ≤ x) && decide (x ≤ hi)) = false := by
  simp only [UInt8.lt_iff_toNat_lt, UInt8.le_iff_toNat_le, UInt8.toNat_ofNat, Nat.reducePow, Nat.reduceMod,
    Bool.and_eq_false_iff, decide_eq_false_iff_not] at *
  omega

theorem lo3 (b0 : UInt8) : (0x80 : UInt8) ≤ (if b0 == 0xE0 then 0xA0 else 0x80) := by split <;> decide
theorem lo4 (b0 : UInt8) : (0x80 : UInt8) ≤ (if b0 == 0xF0 then 0x90 else 0x80) := by split <;> decide

/-- an ASCII byte after a (possibly incomplete) sequence ends it exactly as the end of input does -/
theorem decodeOne_append_ascii1 (a0 : UInt8) (ar : Bytes) (x : UInt8) (br : Bytes) (hx : x < 0x80) :
    decodeOne (a0 :: ar ++ x :: br) = decodeOne (a0 :: ar) := by
  have hc := isCont_ascii hx
  have h3 := fun hi => range_ascii (hi := hi) (lo3 a0) hx
  have h4 := fun hi => range_ascii (hi := hi) (lo4 a0) hx
  rcases ar with _ | ⟨a1, _ | ⟨a2, _ | ⟨a3, ar⟩⟩⟩ <;>
    simp only [decodeOne, List.cons_append, List.nil_append, hc, h3, h4, Bool.false_eq_true, if_false]

theorem decodeOne_append_ascii (a0 : UInt8) (ar : Bytes) (b : Bytes) (hb : AsciiHd b) :
    decodeOne (a0 :: ar ++ b) = decodeOne (a0 :: ar) := by
  cases b with
  | nil => simp
  | cons x br => exact decodeOne_append_ascii1 a0 ar x br (hb x rfl)

theorem decAll_append (b : Bytes) (hb : AsciiHd b) : ∀ (n : Nat) (a : Bytes) (F : Nat), a.length ≤ n →
    (a ++ b).length ≤ F → decAll F (a ++ b) = decAll n a ++ decAll b.length b := by
  intro n
  induction n with
  | zero =>
    intro a F h1 h2
    have : a = [] := List.eq_nil_of_length_eq_zero (by omega)
    subst this
    simp only [List.nil_append, decAll_nil] at h2 ⊢
    exact decAll_fuel h2
  | succ n ih =>
    intro a F h1 h2
    cases a with
    | nil =>
      simp only [List.nil_append, decAll_nil] at h2 ⊢
      exact decAll_fuel h2
    | cons a0 ar =>
      cases F with
      | zero => simp at h2
      | succ F =>
        obtain ⟨k1, -, k3, -⟩ := decodeOne_spec a0 ar
        have hd := decodeOne_append_ascii a0 ar b hb
        simp only [List.cons_append] at hd h2 ⊢
        simp only [decAll, hd, List.append_assoc]
        congr 1
        rw [← List.cons_append, List.drop_append_of_le_length k3]
        apply ih
        · simp only [List.length_drop, List.length_cons] at h1 ⊢; omega
        · simp only [List.length_append, List.length_drop, List.length_cons] at h2 ⊢; omega

/-! ## (a), (b): `lossy` and ASCII -/

/-- **(a)** an incomplete sequence at the end of `a` is cut by an ASCII byte exactly as by the end of input:
`lossy` distributes over `a ++ b` whenever `b` is empty or starts with an ASCII byte -/
theorem lossy_append_ascii (a b : Bytes) (hb : ∀ x, b.head? = some x → x < 0x80) :
    lossy (a ++ b) = lossy a ++ lossy b := by
  rw [lossy_eq_decAll, lossy_eq_decAll, lossy_eq_decAll]
  exact decAll_append b hb a.length a (a ++ b).length (Nat.le_refl _) (Nat.le_refl _)

theorem utf8Enc_ascii (x : UInt8) (hx : x.toNat < 0x80) : utf8Enc (Char.ofNat x.toNat) = [x] := by
  have hv : (Char.ofNat x.toNat).val.toNat = x.toNat := by
    have : x.toNat.isValidChar := by simp [Nat.isValidChar]; omega
    simp [Char.ofNat, this, Char.ofNatAux]
  simp only [utf8Enc, hv, hx, if_true]
  simp

/-- an ASCII byte is decoded on its own -/
theorem lossy_cons_ascii (x : UInt8) (b : Bytes) (hx : x < 0x80) : lossy (x :: b) = x :: lossy b := by
  have hx' : x.toNat < 0x80 := by simpa [UInt8.lt_iff_toNat_lt] using hx
  rw [lossy_eq_decAll, lossy_eq_decAll]
  simp only [List.length_cons, decAll, decodeOne_1 x b hx', utf8Enc_ascii x hx', List.drop_succ_cons, List.drop_zero,
    List.singleton_append]

theorem lossy_nil : lossy [] = [] := rfl

/-- ASCII bytes in front are copied -/
theorem lossy_asciiAll_append : ∀ (a : Bytes), AsciiAll a → ∀ b, lossy (a ++ b) = a ++ lossy b
  | [], _, _ => rfl
  | x :: xs, h, b => by
    rw [List.cons_append, lossy_cons_ascii x _ (h x (List.mem_cons_self ..)),
      lossy_asciiAll_append xs (fun y hy => h y (List.mem_cons_of_mem _ hy)) b, List.cons_append]

/-- **(b)** `lossy` is the identity on ASCII byte strings -/
theorem lossy_ascii (b : Bytes) (h : ∀ x ∈ b, x < 0x80) : lossy b = b := by
  have := lossy_asciiAll_append b h []
  simpa [lossy_nil] using this

/-! ## the pieces the renderer prints -/

theorem natBytes_ascii (n : Nat) : AsciiAll (natBytes n) := by
  intro x hx
  have := (UdiffParseP.natBytes_digits n).1 x hx
  simp only [Spec.isDigit, Bool.and_eq_true, decide_eq_true_eq, UInt8.le_iff_toNat_le] at this
  rw [UInt8.lt_iff_toNat_lt]
  have h57 : (57 : UInt8).toNat = 57 := rfl
  have h128 : (0x80 : UInt8).toNat = 128 := rfl
  omega

theorem hunkRange_ascii (s e : Nat) : AsciiAll (hunkRange s e) := by
  have hc : AsciiAll (ascii ",") := by unfold AsciiAll; decide
  unfold hunkRange
  simp only []
  split
  · exact natBytes_ascii _
  · exact ((natBytes_ascii _).append hc).append (natBytes_ascii _)

theorem hunkHeader_ascii {ops : List Op} {h : Bytes} (hh : hunkHeader ops = .ok h) : AsciiAll h := by
  unfold hunkHeader at hh
  split at hh
  · simp only [Except.ok.injEq] at hh
    subst hh
    have h1 : AsciiAll (ascii "@@ -") := by unfold AsciiAll; decide
    have h2 : AsciiAll (ascii " +") := by unfold AsciiAll; decide
    have h3 : AsciiAll (ascii " @@") := by unfold AsciiAll; decide
    exact ((((h1.append (hunkRange_ascii _ _)).append h2).append (hunkRange_ascii _ _)).append h3)
  · cases hh

theorem tagByte_ascii (t : CTag) : tagByte t < 0x80 := by cases t <;> decide

/-- what follows the text of a body line -/
def lineTail (nlt hint : Bool) (v : Bytes) : Bytes :=
  (if nlt then [] else [10]) ++
  (if nlt && !endsWithNewline v then
    (if hint then ascii "\n\\ No newline at end of file" else []) ++ [10] else [])

theorem lineTail_ascii (nlt hint : Bool) (v : Bytes) : AsciiAll (lineTail nlt hint v) := by
  have h1 : AsciiAll (ascii "\n\\ No newline at end of file" ++ [10]) := by unfold AsciiAll; decide
  have h2 : AsciiAll [10] := by unfold AsciiAll; decide
  have h0 : AsciiAll [] := by intro x hx; simp at hx
  unfold lineTail
  cases nlt <;> cases hint <;> cases endsWithNewline v <;> simp <;> first | exact h0 | exact h1 | exact h2

theorem renderLine_eq (nlt hint isLossy : Bool) (l : CTag × Bytes) :
    renderLine nlt hint isLossy l = tagByte l.1 :: ((if isLossy then lossy l.2 else l.2) ++ lineTail nlt hint l.2) := by
  simp [renderLine, lineTail]

/-- one body line: decoding the printed line is decoding its text -/
theorem lossy_renderLine (nlt hint : Bool) (l : CTag × Bytes) :
    lossy (renderLine nlt hint false l) = renderLine nlt hint true l := by
  rw [renderLine_eq, renderLine_eq]
  simp only [Bool.false_eq_true, if_false, if_true]
  rw [lossy_cons_ascii _ _ (tagByte_ascii _), lossy_append_ascii _ _ (lineTail_ascii nlt hint l.2).hd,
    lossy_ascii _ (lineTail_ascii nlt hint l.2)]

theorem renderLine_hd (nlt hint isLossy : Bool) (l : CTag × Bytes) : AsciiHd (renderLine nlt hint isLossy l) := by
  rw [renderLine_eq]; exact asciiHd_cons (tagByte_ascii _) _

/-! ## (c) the renderer, piece by piece -/

/-- `y` (the `Display` result) is the lossy decoding of `x` (the writer's result): same error, or decoded
bytes; and what the writer printed is empty or starts with an ASCII byte -/
def Rel (x y : Res Bytes) : Prop := y = x.map lossy ∧ ∀ r, x = .ok r → AsciiHd r

/-- how the renderer joins two results -/
def comb2 (x x' : Res Bytes) : Res Bytes :=
  match x, x' with
  | .ok a, .ok b => .ok (a ++ b)
  | .error e, _ => .error e
  | _, .error e => .error e

theorem Rel.comb {x y x' y' : Res Bytes} (h : Rel x y) (h' : Rel x' y') : Rel (comb2 x x') (comb2 y y') := by
  obtain ⟨rfl, g⟩ := h
  obtain ⟨rfl, g'⟩ := h'
  cases x with
  | error e => exact ⟨rfl, fun r hr => by cases hr⟩
  | ok a =>
    cases x' with
    | error e => exact ⟨rfl, fun r hr => by cases hr⟩
    | ok b =>
      refine ⟨?_, fun r hr => ?_⟩
      · simp only [Except.map, comb2]
        rw [lossy_append_ascii a b (g' b rfl)]
      · cases hr
        exact (g a rfl).append (g' b rfl)

theorem rel_renderChange (old new : Array Bytes) (nlt hint : Bool) (c : Change) :
    Rel (renderChange old new nlt hint false c) (renderChange old new nlt hint true c) := by
  cases hv : changeValue old new c with
  | error e =>
    have : ∀ isL, renderChange old new nlt hint isL c = .error e := by intro isL; simp only [renderChange, hv]
    rw [this, this]
    exact ⟨rfl, fun r hr => by cases hr⟩
  | ok v =>
    rw [renderChange_eq old new nlt hint false c v hv, renderChange_eq old new nlt hint true c v hv]
    refine ⟨?_, fun r hr => ?_⟩
    · simp only [Except.map]; rw [lossy_renderLine]
    · cases hr; exact renderLine_hd _ _ _ _

theorem rel_renderChanges (old new : Array Bytes) (nlt hint : Bool) : ∀ (cs : List Change),
    Rel (renderChanges old new nlt hint false cs) (renderChanges old new nlt hint true cs)
  | [] => ⟨rfl, fun r hr => by cases hr; exact asciiHd_nil⟩
  | c :: cs => by
    have := Rel.comb (rel_renderChange old new nlt hint c) (rel_renderChanges old new nlt hint cs)
    exact this

theorem rel_renderHunk (ops : List Op) (old new : Array Bytes) (nlt hint : Bool) :
    Rel (renderHunk ops old new nlt hint false) (renderHunk ops old new nlt hint true) := by
  unfold renderHunk
  split
  · exact ⟨rfl, fun r hr => by cases hr; exact asciiHd_nil⟩
  · obtain ⟨h1, h2⟩ := rel_renderChanges old new nlt hint (allChanges ops)
    rw [h1]
    cases hh : hunkHeader ops with
    | error e => exact ⟨rfl, fun r hr => by cases hr⟩
    | ok h =>
      have hA : AsciiAll (h ++ [10]) := (hunkHeader_ascii hh).append (by unfold AsciiAll; decide)
      cases hb : renderChanges old new nlt hint false (allChanges ops) with
      | error e => exact ⟨rfl, fun r hr => by cases hr⟩
      | ok b =>
        refine ⟨?_, fun r hr => ?_⟩
        · simp only [Except.map]
          rw [lossy_asciiAll_append _ hA]
        · cases hr
          exact hA.hd.append (h2 b hb)

theorem rel_renderHunks (old new : Array Bytes) (nlt hint : Bool) : ∀ (groups : List (List Op)),
    Rel (renderHunks groups old new nlt hint false) (renderHunks groups old new nlt hint true)
  | [] => ⟨rfl, fun r hr => by cases hr; exact asciiHd_nil⟩
  | g :: gs => by
    have := Rel.comb (rel_renderHunk g old new nlt hint) (rel_renderHunks old new nlt hint gs)
    exact this

/-- **(c)** the `Display` output of a unified diff is the lossy decoding of its `to_writer` output — as
results: the same error, or on success the decoded bytes — for ALL inputs (any ops, any token arrays,
every radius and newline mode, with and without the missing-newline hint); the two header names are
valid UTF-8 (they are `String`s in Rust) -/
theorem display_is_lossy_writer (radius : Nat) (header : Option (Bytes × Bytes)) (ops : List Op)
    (old new : Array Bytes) (nlt hint : Bool)
    (hh : ∀ a b, header = some (a, b) → lossy a = a ∧ lossy b = b) :
    renderUnified radius header ops old new nlt hint true =
      (renderUnified radius header ops old new nlt hint false).map lossy := by
  unfold renderUnified
  simp only []
  split
  · rfl
  · obtain ⟨h1, h2⟩ := rel_renderHunks old new nlt hint
      (List.filter (fun g => !g.isEmpty) (groupDiffOps ops radius))
    rw [h1]
    cases hb : renderHunks (List.filter (fun g => !g.isEmpty) (groupDiffOps ops radius)) old new nlt hint false with
    | error e => rfl
    | ok body =>
      cases header with
      | none => rfl
      | some ab =>
        obtain ⟨a, b⟩ := ab
        obtain ⟨ha, hb'⟩ := hh a b rfl
        have hm : AsciiAll (ascii "--- ") := by unfold AsciiAll; decide
        have hp : AsciiAll (ascii "+++ ") := by unfold AsciiAll; decide
        have h10 : (10 : UInt8) < 0x80 := by decide
        simp only [Except.map]
        have e1 : ascii "--- " ++ a ++ [10] ++ ascii "+++ " ++ b ++ [10] ++ body =
            ascii "--- " ++ (a ++ (10 :: (ascii "+++ " ++ (b ++ (10 :: body))))) := by
          simp only [List.append_assoc, List.cons_append, List.nil_append]
        rw [e1, lossy_asciiAll_append _ hm, lossy_append_ascii a _ (asciiHd_cons h10 _), lossy_cons_ascii _ _ h10,
          lossy_asciiAll_append _ hp, lossy_append_ascii b _ (asciiHd_cons h10 _), lossy_cons_ascii _ _ h10, ha, hb']
        simp only [List.append_assoc, List.cons_append, List.nil_append]

/-! ## (d) valid UTF-8 tokens: the two outputs are identical -/

theorem changeValue_mem {old new : Array Bytes} {c : Change} {v : Bytes} (h : changeValue old new c = .ok v) :
    v ∈ old ∨ v ∈ new := by
  unfold changeValue at h
  split at h
  · rename_i v' hv
    cases h
    cases hf : c.fromNew
    · rw [hf] at hv; exact .inl (Array.mem_of_getElem? hv)
    · rw [hf] at hv; exact .inr (Array.mem_of_getElem? hv)
  · cases h

section utf8
variable (old new : Array Bytes) (hu : ∀ t, t ∈ old ∨ t ∈ new → lossy t = t)
include hu

theorem renderChange_utf8 (nlt hint : Bool) (c : Change) :
    renderChange old new nlt hint true c = renderChange old new nlt hint false c := by
  cases hv : changeValue old new c with
  | error e => simp only [renderChange, hv]
  | ok v =>
    rw [renderChange_eq old new nlt hint false c v hv, renderChange_eq old new nlt hint true c v hv]
    simp only [renderLine, hu v (changeValue_mem hv), Bool.false_eq_true, if_false, if_true]

theorem renderChanges_utf8 (nlt hint : Bool) : ∀ (cs : List Change),
    renderChanges old new nlt hint true cs = renderChanges old new nlt hint false cs
  | [] => rfl
  | c :: cs => by
    simp only [renderChanges, renderChange_utf8 old new hu nlt hint c, renderChanges_utf8 nlt hint cs]

theorem renderHunk_utf8 (nlt hint : Bool) (ops : List Op) :
    renderHunk ops old new nlt hint true = renderHunk ops old new nlt hint false := by
  simp only [renderHunk, renderChanges_utf8 old new hu nlt hint]

theorem renderHunks_utf8 (nlt hint : Bool) : ∀ (groups : List (List Op)),
    renderHunks groups old new nlt hint true = renderHunks groups old new nlt hint false
  | [] => rfl
  | g :: gs => by
    simp only [renderHunks, renderHunk_utf8 old new hu nlt hint g, renderHunks_utf8 nlt hint gs]

/-- **(d)** if every token is valid UTF-8 (`lossy t = t`) `Display` and `to_writer` print the same bytes -/
theorem display_eq_writer_on_utf8 (radius : Nat) (header : Option (Bytes × Bytes)) (ops : List Op)
    (nlt hint : Bool) :
    renderUnified radius header ops old new nlt hint true = renderUnified radius header ops old new nlt hint false := by
  simp only [renderUnified, renderHunks_utf8 old new hu nlt hint]

end utf8

end SimilarVerif.LossyP

import Lean.Elab.Tactic
import SimilarVerif.Model.Common
/-! # C08: a failing hook call aborts the diff with exactly that error

Simulation between a run against a never-failing hook `h` and a run against a hook `g` that may fail
(`Sim h g R F`): as long as `g` does not fail the states stay `R`-related and the worlds equal; when
`g` fails with `e`, `F e s` holds of the state `s` of the first run after the same call, and `F e` is
preserved by every later call of `h` (`Pres`). Every hook-generic function of the model maps related
inputs to `Out`-related results (`*_sim`) and preserves `F e` (`*_pres`); the adapters lift `Sim`
(`Sim.noFinish`, `Sim.replace`, `Sim.patience`, `Sim.compact`). For the recording hook (`rec_sim`):
`R` = "same record with `failAt := some k`, fewer than `k+1` calls so far", `F e r` = "`e` is
`hookErr P` with `P` the first `k+1` calls of `r.trace`".

The proofs are scripted: `destruct_run` splits the hypothesis describing the successful first run
into its linear path(s), `sim_run` then steps the second run along the same path.
(`import Lean.Elab.Tactic` is needed only for the three small `elab` tactics below.) -/
namespace SimilarVerif.HookFail
open SimilarVerif

/-! ## small tactics -/
section Tactics
open Lean Elab Tactic Meta

/-- `if c then emit h x s w else .ok (s, w)`: an optional hook call, kept as one step -/
def isOptCall (e : Expr) : Bool :=
  let e := e.consumeMData
  e.isAppOfArity ``ite 5 &&
    (let t := (e.getArg! 3).consumeMData
     let f := (e.getArg! 4).consumeMData
     (t.isAppOf ``SimilarVerif.emit || t.isAppOf ``SimilarVerif.Hook.call) && f.isAppOf ``Except.ok)

/-- `split` the first hypothesis of the form `_ = _` that can be split (optional hook calls are
not split) -/
elab "split_any" : tactic => liftMetaTactic fun g => g.withContext do
  for ldecl in ← getLCtx do
    if ldecl.isImplementationDetail then continue
    let ty ← instantiateMVars ldecl.type
    unless ty.isAppOfArity ``Eq 3 do continue
    if isOptCall ty.appFn!.appArg! then continue
    let r ← (try splitLocalDecl? g ldecl.fvarId catch _ => pure none)
    if let some gs := r then return gs
  throwError "split_any: nothing to split"

/-- `cases` the first hypothesis of the form `Except.ok _ = Except.ok _`, `Except.error _ = Except.ok _` -/
elab "inj_any" : tactic => liftMetaTactic fun g => g.withContext do
  for ldecl in ← getLCtx do
    if ldecl.isImplementationDetail then continue
    let ty ← instantiateMVars ldecl.type
    unless ty.isAppOfArity ``Eq 3 do continue
    let lhs := ty.appFn!.appArg!.consumeMData
    let rhs := ty.appArg!.consumeMData
    unless rhs.isAppOf ``Except.ok do continue
    unless lhs.isAppOf ``Except.ok || lhs.isAppOf ``Except.error do continue
    let r ← g.cases ldecl.fvarId
    return r.toList.map (·.mvarId)
  throwError "inj_any: nothing to do"

/-- rewrite the goal with every hypothesis `lhs = Except.ok _` and decide every `if c` whose
condition (or its negation) is a hypothesis; conditions themselves are not rewritten -/
elab "sim_simp" : tactic => withMainContext do
  let mut lemmas : Array (TSyntax `Lean.Parser.Tactic.simpLemma) := #[]
  for ldecl in ← getLCtx do
    if ldecl.isImplementationDetail then continue
    let ty ← instantiateMVars ldecl.type
    unless ← isProp ty do continue
    let t ← Term.exprToSyntax ldecl.toExpr
    let env ← getEnv
    let rhsCtor : Bool :=
      ty.isAppOfArity ``Eq 3 &&
        (match ty.appArg!.consumeMData.getAppFn with
         | .const n _ => (env.find? n matches some (.ctorInfo _)) && n != ``Bool.true && n != ``Bool.false
         | _ => false) && !ty.appFn!.appArg!.consumeMData.isFVar
    if rhsCtor then
      lemmas := lemmas.push (← `(Lean.Parser.Tactic.simpLemma| $t:term))
    else if ty.isForall && !ty.isArrow then continue
    else
      let (c, neg) := match ty.not? with | some c => (c, true) | none => (ty, false)
      let dec ← (try let _ ← synthInstance (← mkAppM ``Decidable #[c]); pure true catch _ => pure false)
      unless dec do continue
      if neg then lemmas := lemmas.push (← `(Lean.Parser.Tactic.simpLemma| if_neg $t))
      else lemmas := lemmas.push (← `(Lean.Parser.Tactic.simpLemma| if_pos $t))
  evalTactic (← `(tactic| simp only [$lemmas,*, ↓reduceIte]))

end Tactics

/-- fully destructure the hypotheses describing a successful run -/
macro "destruct_run" : tactic =>
  `(tactic| repeat' (first | inj_any | split_any | dsimp only [emit] at *))

/-- lift a state relation to states paired with an adapter state that must be equal -/
def RP {α σ τ} (R : σ → τ → Prop) (a : α × σ) (b : α × τ) : Prop := a.1 = b.1 ∧ R a.2 b.2
/-- lift an error predicate to states paired with an adapter state -/
def FP {α σ} (F : Abort → σ → Prop) (e : Abort) (a : α × σ) : Prop := F e a.2

/-- `F` is preserved by every successful call of `h` -/
def Pres {σ} (h : Hook σ) (F : σ → Prop) : Prop :=
  ∀ c s w s' w', h.call c s w = .ok (s', w') → F s → F s'

/-- outcome of the second run (`y`), given that the first run ended in state `s'` and the rest of its
result is described by `pack`: either the same result with a related state, or an error `e`
accepted by `F e s'` -/
def Out {σ τ γ} (R : σ → τ → Prop) (F : Abort → σ → Prop) (s' : σ) (pack : τ → γ) (y : Res γ) : Prop :=
  (∃ t', y = .ok (pack t') ∧ R s' t') ∨ (∃ e, y = .error e ∧ F e s')

/-- hook `g` simulates hook `h` -/
structure Sim {σ τ} (h : Hook σ) (g : Hook τ) (R : σ → τ → Prop) (F : Abort → σ → Prop) : Prop where
  pres : ∀ e, Pres h (F e)
  step : ∀ c s t w s' w', R s t → h.call c s w = .ok (s', w') →
    Out R F s' (fun t' => (t', w')) (g.call c t w)

/-- discharge a `Pres _ _` side goal -/
syntax "pres_hyp" : tactic
macro_rules | `(tactic| pres_hyp) => `(tactic| first | assumption | exact Sim.pres (by with_reducible assumption) _)

/-- one backward step along the run -/
syntax "pres_step" : tactic
macro_rules | `(tactic| pres_step) => `(tactic| fail "pres_step: no rule")

macro "pres_chain" : tactic => `(tactic| repeat (first | assumption | pres_step))

section Pres
variable {σ : Type} {h : Hook σ} {F : σ → Prop}

theorem call_pres (hp : Pres h F) {c s w s' w'} (hc : h.call c s w = .ok (s', w')) : F s → F s' :=
  hp c s w s' w' hc
macro_rules | `(tactic| pres_step) => `(tactic| (refine call_pres (hc := by with_reducible assumption) ?_ ?_; pres_hyp))

theorem emit_pres (hp : Pres h F) {x s w s' w'} (hc : emit h x s w = .ok (s', w')) : F s → F s' :=
  hp _ s w s' w' hc

theorem optCall_pres (hp : Pres h F) {c : Prop} [Decidable c] {x s w s' w'}
    (hc : (if c then h.call x s w else .ok (s, w)) = .ok (s', w')) : F s → F s' := by
  intro hF
  split at hc
  · exact hp _ _ _ _ _ hc hF
  · cases hc; exact hF
macro_rules | `(tactic| pres_step) => `(tactic| (refine optCall_pres (hc := by with_reducible assumption) ?_ ?_; pres_hyp))

theorem conquer_pres (hp : Pres h F) {E : Env} {off : Nat} : ∀ {fuel os oe ns ne vf vb s w s' vf' vb' w'},
    conquer E h off fuel os oe ns ne vf vb s w = .ok (s', vf', vb', w') → F s → F s' := by
  intro fuel
  induction fuel with
  | zero => intro os oe ns ne vf vb s w s' vf' vb' w' hc; simp [conquer] at hc
  | succ fuel ih =>
    intro os oe ns ne vf vb s w s' vf' vb' w' hc hF
    unfold conquer at hc
    destruct_run
    all_goals (repeat (first | assumption | pres_step | (refine ih (by with_reducible assumption) ?_)))
macro_rules | `(tactic| pres_step) => `(tactic| (refine conquer_pres ?_ (by with_reducible assumption) ?_; pres_hyp))

theorem myersDiff_pres (hp : Pres h F) {E : Env} {os oe ns ne s w s' w'}
    (hc : myersDiff E h os oe ns ne s w = .ok (s', w')) : F s → F s' := by
  intro hF
  unfold myersDiff at hc
  destruct_run
  all_goals pres_chain
macro_rules | `(tactic| pres_step) => `(tactic| (refine myersDiff_pres ?_ (by with_reducible assumption) ?_; pres_hyp))

theorem noFinish_pres (hp : Pres h F) : Pres (noFinishHook h) F := by
  intro c s w s' w' hc hF
  cases c with
  | finish => simp only [noFinishHook] at hc; cases hc; exact hF
  | op x => exact hp _ _ _ _ _ hc hF
macro_rules | `(tactic| pres_hyp) => `(tactic| (refine noFinish_pres ?_; pres_hyp))

/-! ### LCS -/

theorem lcsWalk_pres (hp : Pres h F) {E : Env} {tb : Table} {o0 n0 ol nl : Nat} :
    ∀ {fuel oi ni s w oi' ni' s' w'},
    lcsWalk E h tb o0 n0 ol nl fuel oi ni s w = .ok (oi', ni', s', w') → F s → F s' := by
  intro fuel
  induction fuel with
  | zero =>
    intro oi ni s w oi' ni' s' w' hc hF
    unfold lcsWalk at hc
    destruct_run
    all_goals pres_chain
  | succ fuel ih =>
    intro oi ni s w oi' ni' s' w' hc hF
    unfold lcsWalk at hc
    destruct_run
    all_goals (repeat (first | assumption | pres_step | (refine ih (by with_reducible assumption) ?_)))
macro_rules | `(tactic| pres_step) => `(tactic| (refine lcsWalk_pres ?_ (by with_reducible assumption) ?_; pres_hyp))

/-! ### Replace -/

theorem rFlushEq_pres (hp : Pres h F) {r s w r' s' w'}
    (hc : rFlushEq h r s w = .ok (r', s', w')) : F s → F s' := by
  intro hF
  unfold rFlushEq at hc
  destruct_run
  all_goals pres_chain
macro_rules | `(tactic| pres_step) => `(tactic| (refine rFlushEq_pres ?_ (by with_reducible assumption) ?_; pres_hyp))

theorem rFlushDelIns_pres (hp : Pres h F) {r s w r' s' w'}
    (hc : rFlushDelIns h r s w = .ok (r', s', w')) : F s → F s' := by
  intro hF
  unfold rFlushDelIns at hc
  destruct_run
  all_goals pres_chain
macro_rules | `(tactic| pres_step) => `(tactic| (refine rFlushDelIns_pres ?_ (by with_reducible assumption) ?_; pres_hyp))

theorem replace_pres (hp : Pres h F) : Pres (replaceHook h) (fun a => F a.2) := by
  intro c a w a' w' hc hF
  obtain ⟨r, s⟩ := a
  obtain ⟨r', s'⟩ := a'
  dsimp only at hF ⊢
  cases c with
  | finish => simp only [replaceHook] at hc; destruct_run; all_goals pres_chain
  | op x => cases x <;> simp only [replaceHook] at hc <;> destruct_run <;> pres_chain
macro_rules | `(tactic| pres_hyp) => `(tactic| (refine replace_pres ?_; pres_hyp))

/-! ### Patience -/

theorem patAnchor_pres (hp : Pres h F) {E : Env} {uo un : Array Nat} {i j p s w p' s' w'}
    (hc : patAnchor E h uo un i j p s w = .ok (p', s', w')) : F s → F s' := by
  intro hF
  unfold patAnchor at hc
  destruct_run
  all_goals pres_chain
macro_rules | `(tactic| pres_step) => `(tactic| (refine patAnchor_pres ?_ (by with_reducible assumption) ?_; pres_hyp))

theorem patEqual_pres (hp : Pres h F) {E : Env} {uo un : Array Nat} : ∀ {len i j p s w p' s' w'},
    patEqual E h uo un len i j p s w = .ok (p', s', w') → F s → F s' := by
  intro len
  induction len with
  | zero => intro i j p s w p' s' w' hc hF; unfold patEqual at hc; cases hc; exact hF
  | succ len ih =>
    intro i j p s w p' s' w' hc hF
    unfold patEqual at hc
    destruct_run
    all_goals (repeat (first | assumption | pres_step | (refine ih (by with_reducible assumption) ?_)))
macro_rules | `(tactic| pres_step) => `(tactic| (refine patEqual_pres ?_ (by with_reducible assumption) ?_; pres_hyp))

theorem patience_pres (hp : Pres h F) {E : Env} {uo un : Array Nat} {oe ne : Nat} :
    Pres (patienceHook E h uo un oe ne) (fun a => F a.2) := by
  intro c a w a' w' hc hF
  obtain ⟨p, s⟩ := a
  obtain ⟨p', s'⟩ := a'
  dsimp only at hF ⊢
  cases c with
  | finish => simp only [patienceHook] at hc; destruct_run; all_goals pres_chain
  | op x => cases x <;> simp only [patienceHook] at hc <;> destruct_run <;> pres_chain
macro_rules | `(tactic| pres_hyp) => `(tactic| (refine patience_pres ?_; pres_hyp))

/-! ### Compact -/

theorem deliver_pres (hp : Pres h F) : ∀ {cs s w s' w'},
    deliver h cs s w = .ok (s', w') → F s → F s' := by
  intro cs
  induction cs with
  | nil => intro s w s' w' hc hF; unfold deliver at hc; cases hc; exact hF
  | cons c cs ih =>
    intro s w s' w' hc hF
    unfold deliver at hc
    destruct_run
    all_goals (repeat (first | assumption | pres_step | (refine ih (by with_reducible assumption) ?_)))
macro_rules | `(tactic| pres_step) => `(tactic| (refine deliver_pres ?_ (by with_reducible assumption) ?_; pres_hyp))

theorem compact_pres (hp : Pres h F) {E : Env} {repair : Bool} :
    Pres (compactHook E repair h) (fun a => F a.2) := by
  intro c a w a' w' hc hF
  obtain ⟨b, s⟩ := a
  obtain ⟨b', s'⟩ := a'
  dsimp only at hF ⊢
  cases c with
  | finish => simp only [compactHook] at hc; destruct_run; all_goals pres_chain
  | op x => cases x <;> simp only [compactHook] at hc <;> destruct_run <;> pres_chain
macro_rules | `(tactic| pres_hyp) => `(tactic| (refine compact_pres ?_; pres_hyp))

end Pres

/-! ## simulation lemmas -/

theorem Out.ok {σ τ γ} {R : σ → τ → Prop} {F : Abort → σ → Prop} {s' : σ} {pack : τ → γ} {t' : τ}
    (hR : R s' t') : Out R F s' pack (.ok (pack t')) := Or.inl ⟨t', rfl, hR⟩

theorem Out.err {σ τ γ} {R : σ → τ → Prop} {F : Abort → σ → Prop} {s' : σ} {pack : τ → γ} {e : Abort}
    (hF : F e s') : Out R F s' pack (.error e) := Or.inr ⟨e, rfl, hF⟩

/-- produce `hO : Out R F _ _ (next hook-generic call of the second run)` -/
syntax "sim_call " term : tactic
macro_rules | `(tactic| sim_call $_H) => `(tactic| fail "sim_call: no rule")

/-- use `hO` -/
macro "sim_use" : tactic =>
  `(tactic| (rcases ‹Out _ _ _ _ _› with ⟨_, hk, hR⟩ | ⟨_, hk, hF⟩ <;> simp only [hk] <;>
             try (exact Out.err (by (try dsimp only [FP]); pres_chain))))

macro "sim_run " H:term " with " ih:term : tactic =>
  `(tactic| repeat (first
      | (exact Out.ok (by with_reducible assumption))
      | (exact Out.ok ⟨rfl, by assumption⟩)
      | sim_simp
      | (sim_call $H; sim_use)
      | (have hO := $ih (by with_reducible assumption) (by with_reducible assumption); sim_use)))

macro "sim_run " H:term : tactic =>
  `(tactic| repeat (first
      | (exact Out.ok (by with_reducible assumption))
      | (exact Out.ok ⟨rfl, by assumption⟩)
      | sim_simp
      | (sim_call $H; sim_use)))

section Sim
variable {σ τ : Type} {h : Hook σ} {g : Hook τ} {R : σ → τ → Prop} {F : Abort → σ → Prop}

theorem call_sim (H : Sim h g R F) {c s t w s' w'} (hR : R s t) (hc : h.call c s w = .ok (s', w')) :
    Out R F s' (fun t' => (t', w')) (g.call c t w) := H.step c s t w s' w' hR hc
macro_rules | `(tactic| sim_call $H) => `(tactic| have hO := call_sim $H (by with_reducible assumption) (by with_reducible assumption))

theorem emit_sim (H : Sim h g R F) {x s t w s' w'} (hR : R s t) (hc : emit h x s w = .ok (s', w')) :
    Out R F s' (fun t' => (t', w')) (emit g x t w) := H.step _ s t w s' w' hR hc

theorem optCall_sim (H : Sim h g R F) {c : Prop} [Decidable c] {x s t w s' w'} (hR : R s t)
    (hc : (if c then h.call x s w else .ok (s, w)) = .ok (s', w')) :
    Out R F s' (fun t' => (t', w')) (if c then g.call x t w else .ok (t, w)) := by
  split at hc
  · rw [if_pos ‹_›]; exact H.step _ _ _ _ _ _ hR hc
  · rw [if_neg ‹_›]; cases hc; exact Out.ok hR
macro_rules | `(tactic| sim_call $H) => `(tactic| have hO := optCall_sim $H (by with_reducible assumption) (by with_reducible assumption))

theorem conquer_sim (H : Sim h g R F) {E : Env} {off : Nat} : ∀ {fuel os oe ns ne vf vb s t w s' vf' vb' w'},
    R s t → conquer E h off fuel os oe ns ne vf vb s w = .ok (s', vf', vb', w') →
    Out R F s' (fun t' => (t', vf', vb', w')) (conquer E g off fuel os oe ns ne vf vb t w) := by
  intro fuel
  induction fuel with
  | zero => intro os oe ns ne vf vb s t w s' vf' vb' w' _ hc; simp [conquer] at hc
  | succ fuel ih =>
    intro os oe ns ne vf vb s t w s' vf' vb' w' hR hc
    unfold conquer at hc ⊢
    destruct_run
    all_goals sim_run H with ih
macro_rules | `(tactic| sim_call $H) => `(tactic| have hO := conquer_sim $H (by with_reducible assumption) (by with_reducible assumption))

theorem myersDiff_sim (H : Sim h g R F) {E : Env} {os oe ns ne s t w s' w'} (hR : R s t)
    (hc : myersDiff E h os oe ns ne s w = .ok (s', w')) :
    Out R F s' (fun t' => (t', w')) (myersDiff E g os oe ns ne t w) := by
  unfold myersDiff at hc ⊢
  destruct_run
  all_goals sim_run H
macro_rules | `(tactic| sim_call $H) => `(tactic| have hO := myersDiff_sim $H (by with_reducible assumption) (by with_reducible assumption))

theorem Sim.noFinish (H : Sim h g R F) : Sim (noFinishHook h) (noFinishHook g) R F := by
  refine ⟨fun e => noFinish_pres (H.pres e), ?_⟩
  intro c s t w s' w' hR hc
  cases c with
  | finish => simp only [noFinishHook] at hc ⊢; cases hc; exact Out.ok hR
  | op x => exact H.step _ _ _ _ _ _ hR hc
macro_rules
  | `(tactic| sim_call $H) =>
    `(tactic| have hO := myersDiff_sim (Sim.noFinish $H) (by with_reducible assumption) (by with_reducible assumption))

/-! ### LCS -/

theorem lcsWalk_sim (H : Sim h g R F) {E : Env} {tb : Table} {o0 n0 ol nl : Nat} :
    ∀ {fuel oi ni s t w oi' ni' s' w'}, R s t →
    lcsWalk E h tb o0 n0 ol nl fuel oi ni s w = .ok (oi', ni', s', w') →
    Out R F s' (fun t' => (oi', ni', t', w')) (lcsWalk E g tb o0 n0 ol nl fuel oi ni t w) := by
  intro fuel
  induction fuel with
  | zero =>
    intro oi ni s t w oi' ni' s' w' hR hc
    unfold lcsWalk at hc ⊢
    destruct_run
    all_goals sim_run H
  | succ fuel ih =>
    intro oi ni s t w oi' ni' s' w' hR hc
    unfold lcsWalk at hc ⊢
    destruct_run
    all_goals sim_run H with ih
macro_rules | `(tactic| sim_call $H) => `(tactic| have hO := lcsWalk_sim $H (by with_reducible assumption) (by with_reducible assumption))

theorem lcsDiff_sim (H : Sim h g R F) {E : Env} {os oe ns ne s t w s' w'} (hR : R s t)
    (hc : lcsDiff E h os oe ns ne s w = .ok (s', w')) :
    Out R F s' (fun t' => (t', w')) (lcsDiff E g os oe ns ne t w) := by
  unfold lcsDiff at hc ⊢
  destruct_run
  all_goals sim_run H

/-! ### Replace -/

theorem rFlushEq_sim (H : Sim h g R F) {r s t w r' s' w'} (hR : R s t)
    (hc : rFlushEq h r s w = .ok (r', s', w')) :
    Out R F s' (fun t' => (r', t', w')) (rFlushEq g r t w) := by
  unfold rFlushEq at hc ⊢
  destruct_run
  all_goals sim_run H
macro_rules | `(tactic| sim_call $H) => `(tactic| have hO := rFlushEq_sim $H (by with_reducible assumption) (by with_reducible assumption))

theorem rFlushDelIns_sim (H : Sim h g R F) {r s t w r' s' w'} (hR : R s t)
    (hc : rFlushDelIns h r s w = .ok (r', s', w')) :
    Out R F s' (fun t' => (r', t', w')) (rFlushDelIns g r t w) := by
  unfold rFlushDelIns at hc ⊢
  destruct_run
  all_goals sim_run H
macro_rules | `(tactic| sim_call $H) => `(tactic| have hO := rFlushDelIns_sim $H (by with_reducible assumption) (by with_reducible assumption))

theorem Sim.replace (H : Sim h g R F) : Sim (replaceHook h) (replaceHook g) (RP R) (FP F) := by
  refine ⟨fun e => replace_pres (H.pres e), ?_⟩
  intro c a b w a' w' hR hc
  obtain ⟨r, s⟩ := a
  obtain ⟨r0, t⟩ := b
  obtain ⟨r', s'⟩ := a'
  obtain ⟨hr, hR⟩ := hR
  dsimp only at hr hR
  subst hr
  cases c with
  | finish => simp only [replaceHook] at hc ⊢; destruct_run; all_goals sim_run H
  | op x => cases x <;> simp only [replaceHook] at hc ⊢ <;> destruct_run <;> sim_run H

/-! ### Patience -/

theorem patAnchor_sim (H : Sim h g R F) {E : Env} {uo un : Array Nat} {i j p s t w p' s' w'} (hR : R s t)
    (hc : patAnchor E h uo un i j p s w = .ok (p', s', w')) :
    Out R F s' (fun t' => (p', t', w')) (patAnchor E g uo un i j p t w) := by
  unfold patAnchor at hc ⊢
  destruct_run
  all_goals sim_run H
macro_rules | `(tactic| sim_call $H) => `(tactic| have hO := patAnchor_sim $H (by with_reducible assumption) (by with_reducible assumption))

theorem patEqual_sim (H : Sim h g R F) {E : Env} {uo un : Array Nat} : ∀ {len i j p s t w p' s' w'},
    R s t → patEqual E h uo un len i j p s w = .ok (p', s', w') →
    Out R F s' (fun t' => (p', t', w')) (patEqual E g uo un len i j p t w) := by
  intro len
  induction len with
  | zero =>
    intro i j p s t w p' s' w' hR hc
    unfold patEqual at hc ⊢
    cases hc
    exact Out.ok hR
  | succ len ih =>
    intro i j p s t w p' s' w' hR hc
    unfold patEqual at hc ⊢
    destruct_run
    all_goals sim_run H with ih
macro_rules | `(tactic| sim_call $H) => `(tactic| have hO := patEqual_sim $H (by with_reducible assumption) (by with_reducible assumption))

theorem Sim.patience (H : Sim h g R F) {E : Env} {uo un : Array Nat} {oe ne : Nat} :
    Sim (patienceHook E h uo un oe ne) (patienceHook E g uo un oe ne) (RP R) (FP F) := by
  refine ⟨fun e => patience_pres (H.pres e), ?_⟩
  intro c a b w a' w' hR hc
  obtain ⟨p, s⟩ := a
  obtain ⟨p0, t⟩ := b
  obtain ⟨p', s'⟩ := a'
  obtain ⟨hr, hR⟩ := hR
  dsimp only at hr hR
  subst hr
  cases c with
  | finish => simp only [patienceHook] at hc ⊢; destruct_run; all_goals sim_run H
  | op x => cases x <;> simp only [patienceHook] at hc ⊢ <;> destruct_run <;> sim_run H

theorem patienceDiff_sim (H : Sim h g R F) {E : Env} {os oe ns ne s t w s' w'} (hR : R s t)
    (hc : patienceDiff E h os oe ns ne s w = .ok (s', w')) :
    Out R F s' (fun t' => (t', w')) (patienceDiff E g os oe ns ne t w) := by
  unfold patienceDiff at hc ⊢
  destruct_run
  rename_i _ _ uo un _ _ _ r' p' hm
  have hO := myersDiff_sim (Sim.replace (Sim.patience (E := E) (uo := uo.toArray) (un := un.toArray)
    (oe := oe) (ne := ne) H)) (s := ({}, ({ oc := os, nc := ns }, s))) (t := ({}, ({ oc := os, nc := ns }, t)))
    ⟨rfl, rfl, hR⟩ hm
  rcases hO with ⟨⟨r1, p1, t1⟩, hk, hr, hp, hR1⟩ | ⟨e, hk, hF⟩
  · simp only [hk]
    exact Out.ok hR1
  · simp only [hk]
    exact Out.err hF

/-! ### Compact -/

theorem deliver_sim (H : Sim h g R F) : ∀ {cs s t w s' w'}, R s t →
    deliver h cs s w = .ok (s', w') → Out R F s' (fun t' => (t', w')) (deliver g cs t w) := by
  intro cs
  induction cs with
  | nil =>
    intro s t w s' w' hR hc
    unfold deliver at hc ⊢
    cases hc
    exact Out.ok hR
  | cons c cs ih =>
    intro s t w s' w' hR hc
    unfold deliver at hc ⊢
    destruct_run
    all_goals sim_run H with ih
macro_rules | `(tactic| sim_call $H) => `(tactic| have hO := deliver_sim $H (by with_reducible assumption) (by with_reducible assumption))

theorem Sim.compact (H : Sim h g R F) {E : Env} {repair : Bool} :
    Sim (compactHook E repair h) (compactHook E repair g) (RP R) (FP F) := by
  refine ⟨fun e => compact_pres (H.pres e), ?_⟩
  intro c a b w a' w' hR hc
  obtain ⟨p, s⟩ := a
  obtain ⟨p0, t⟩ := b
  obtain ⟨p', s'⟩ := a'
  obtain ⟨hr, hR⟩ := hR
  dsimp only at hr hR
  subst hr
  cases c with
  | finish => simp only [compactHook] at hc ⊢; destruct_run; all_goals sim_run H
  | op x => cases x <;> simp only [compactHook] at hc ⊢ <;> destruct_run <;> sim_run H

/-! ### dispatch -/

theorem diffWith_sim (H : Sim h g R F) {alg : Alg} {E : Env} {os oe ns ne s t w s' w'} (hR : R s t)
    (hc : diffWith alg E h os oe ns ne s w = .ok (s', w')) :
    Out R F s' (fun t' => (t', w')) (diffWith alg E g os oe ns ne t w) := by
  cases alg with
  | myers => exact myersDiff_sim H hR hc
  | patience => exact patienceDiff_sim H hR hc
  | lcs => exact lcsDiff_sim H hR hc

end Sim

/-! ## the recording hook failing at call `k` simulates the never-failing recording hook -/

/-- `rk` is `r` with `failAt := some k`, `r` never fails and has not yet reached call `k` -/
def RecSim (k : Nat) (r rk : Rec) : Prop :=
  rk = { r with failAt := some k } ∧ r.failAt = none ∧ r.trace.length ≤ k

/-- `e` is the hook error carrying the first `k+1` calls of the trace of `r` -/
def RecFail (k : Nat) (e : Abort) (r : Rec) : Prop :=
  ∃ P, e = .hookErr P ∧ P.length = k + 1 ∧ P <+: r.trace

theorem push_ok {r r' : Rec} {c : Call} (hc : r.push c = .ok r') : r' = { r with trace := r.trace ++ [c] } := by
  unfold Rec.push at hc
  split at hc
  · cases hc
  · cases hc; rfl

theorem push_map_ok {r r' : Rec} {c : Call} {w w' : World} (hc : (r.push c).map (·, w) = .ok (r', w')) :
    r.push c = .ok r' ∧ w' = w := by
  cases hp : r.push c with
  | error e => rw [hp] at hc; cases hc
  | ok r1 => rw [hp] at hc; cases hc; exact ⟨rfl, rfl⟩

theorem push_fail {k : Nat} {e : Abort} {r r' : Rec} {c : Call} (hc : r.push c = .ok r') :
    RecFail k e r → RecFail k e r' := by
  rintro ⟨P, rfl, hl, hp⟩
  rw [push_ok hc]
  exact ⟨P, rfl, hl, hp.trans (List.prefix_append _ _)⟩

theorem push_sim {k : Nat} {r rk r' : Rec} {c : Call} (hR : RecSim k r rk) (hc : r.push c = .ok r') :
    (∃ rk', rk.push c = .ok rk' ∧ RecSim k r' rk') ∨ (∃ e, rk.push c = .error e ∧ RecFail k e r') := by
  obtain ⟨rfl, h0, hl⟩ := hR
  have hr' := push_ok hc
  subst hr'
  unfold Rec.push
  dsimp only
  by_cases hk : k = r.trace.length
  · right
    refine ⟨_, if_pos (by rw [hk]), r.trace ++ [c], rfl, ?_, List.prefix_refl _⟩
    simp [hk]
  · left
    refine ⟨_, if_neg (by simpa using hk), rfl, h0, ?_⟩
    simp only [List.length_append, List.length_cons, List.length_nil]
    omega

theorem rec_pres (k : Nat) (e : Abort) : Pres recHook (RecFail k e) := by
  intro c r w r' w' hc hF
  unfold recHook at hc
  dsimp only at hc
  split at hc
  · split at hc
    · exact push_fail (push_map_ok hc).1 hF
    · split at hc
      · cases hc
      · exact push_fail (push_map_ok hc).1 (push_fail ‹_› hF)
  · exact push_fail (push_map_ok hc).1 hF

theorem rec_sim (k : Nat) : Sim recHook recHook (RecSim k) (RecFail k) := by
  refine ⟨rec_pres k, ?_⟩
  intro c r rk w r' w' hR hc
  have hn : rk.nativeReplace = r.nativeReplace := by rw [hR.1]
  -- a single push
  have single : ∀ {c : Call} {r rk r' : Rec} {w w' : World}, RecSim k r rk → (r.push c).map (·, w) = .ok (r', w') →
      Out (RecSim k) (RecFail k) r' (fun t' => (t', w')) ((rk.push c).map (·, w)) := by
    intro c r rk r' w w' hR hc
    obtain ⟨hp, rfl⟩ := push_map_ok hc
    rcases push_sim hR hp with ⟨rk', hk, hR'⟩ | ⟨e, hk, hF⟩
    · rw [hk]; exact Out.ok hR'
    · rw [hk]; exact Out.err hF
  unfold recHook at hc ⊢
  dsimp only at hc ⊢
  split at hc
  · rw [hn]
    split at hc
    · rw [if_pos ‹_›]; exact single hR hc
    · rw [if_neg ‹_›]
      split at hc
      · cases hc
      · rename_i r1 hp1
        rcases push_sim hR hp1 with ⟨rk1, hk, hR1⟩ | ⟨e, hk, hF⟩
        · rw [hk]; exact single hR1 hc
        · rw [hk]; exact Out.err (push_fail (push_map_ok hc).1 hF)
  · exact single hR hc

/-! ## C08 -/

/-- reading of `Out` for the recording hook -/
theorem out_rec {γ : Type} {k : Nat} {rInf : Rec} {pack : Rec → γ} {y : Res γ}
    (hO : Out (RecSim k) (RecFail k) rInf pack y) :
    (k < rInf.trace.length → y = .error (.hookErr (rInf.trace.take (k + 1)))) ∧
    (rInf.trace.length ≤ k → y = .ok (pack { rInf with failAt := some k })) := by
  rcases hO with ⟨rk, rfl, rfl, _, hl⟩ | ⟨e, rfl, P, rfl, hl, hp⟩
  · exact ⟨fun h => absurd hl (by omega), fun _ => rfl⟩
  · have hle := hp.length_le
    refine ⟨fun _ => ?_, fun h => absurd hle (by omega)⟩
    have := List.prefix_iff_eq_take.1 hp
    rw [hl] at this
    rw [this]

/-- A program run against an arbitrary hook that respects hook simulations: every function of the
model that is written against an arbitrary `Hook σ`. -/
def HookGeneric (P : ∀ {σ : Type}, Hook σ → σ → World → Res (σ × World)) : Prop :=
  ∀ {σ τ : Type} {h : Hook σ} {g : Hook τ} {R : σ → τ → Prop} {F : Abort → σ → Prop}, Sim h g R F →
    ∀ {s t w s' w'}, R s t → P h s w = .ok (s', w') → Out R F s' (fun t' => (t', w')) (P g t w)

theorem diffWith_generic (alg : Alg) (E : Env) (os oe ns ne : Nat) :
    HookGeneric (fun h => diffWith alg E h os oe ns ne) :=
  fun H _ _ _ _ _ hR hc => diffWith_sim H hR hc

theorem deliver_generic (calls : List Call) : HookGeneric (fun h => deliver h calls) :=
  fun H _ _ _ _ _ hR hc => deliver_sim H hR hc

section Main
variable {P : ∀ {σ : Type}, Hook σ → σ → World → Res (σ × World)} (hP : HookGeneric P)
  {k : Nat} {r rInf : Rec} {w wInf : World} (h0 : r.failAt = none) (hl : r.trace.length ≤ k)
include hP h0 hl

/-- no adapter -/
theorem fail_plain (hInf : P recHook r w = .ok (rInf, wInf)) :
    (k < rInf.trace.length →
      P recHook { r with failAt := some k } w = .error (.hookErr (rInf.trace.take (k + 1)))) ∧
    (rInf.trace.length ≤ k →
      P recHook { r with failAt := some k } w = .ok ({ rInf with failAt := some k }, wInf)) :=
  out_rec (hP (rec_sim k) ⟨rfl, h0, hl⟩ hInf)

/-- `NoFinishHook` -/
theorem fail_noFinish (hInf : P (noFinishHook recHook) r w = .ok (rInf, wInf)) :
    (k < rInf.trace.length →
      P (noFinishHook recHook) { r with failAt := some k } w = .error (.hookErr (rInf.trace.take (k + 1)))) ∧
    (rInf.trace.length ≤ k →
      P (noFinishHook recHook) { r with failAt := some k } w = .ok ({ rInf with failAt := some k }, wInf)) :=
  out_rec (hP (rec_sim k).noFinish ⟨rfl, h0, hl⟩ hInf)

/-- `Replace` -/
theorem fail_replace {a aInf : RState} (hInf : P (replaceHook recHook) (a, r) w = .ok ((aInf, rInf), wInf)) :
    (k < rInf.trace.length →
      P (replaceHook recHook) (a, { r with failAt := some k }) w = .error (.hookErr (rInf.trace.take (k + 1)))) ∧
    (rInf.trace.length ≤ k →
      P (replaceHook recHook) (a, { r with failAt := some k }) w = .ok ((aInf, { rInf with failAt := some k }), wInf)) := by
  have hO := hP (rec_sim k).replace (s := (a, r)) (t := (a, { r with failAt := some k })) ⟨rfl, rfl, h0, hl⟩ hInf
  apply out_rec (pack := fun t' => ((aInf, t'), wInf))
  rcases hO with ⟨⟨a1, t1⟩, hk, ha, hR⟩ | ⟨e, hk, hF⟩
  · dsimp only at ha hk hR; subst ha; rw [hk]; exact Out.ok hR
  · dsimp only at hk; rw [hk]; exact Out.err hF

/-- `Compact` -/
theorem fail_compact {E : Env} {repair : Bool} {b bInf : List Op}
    (hInf : P (compactHook E repair recHook) (b, r) w = .ok ((bInf, rInf), wInf)) :
    (k < rInf.trace.length →
      P (compactHook E repair recHook) (b, { r with failAt := some k }) w =
        .error (.hookErr (rInf.trace.take (k + 1)))) ∧
    (rInf.trace.length ≤ k →
      P (compactHook E repair recHook) (b, { r with failAt := some k }) w =
        .ok ((bInf, { rInf with failAt := some k }), wInf)) := by
  have hO := hP ((rec_sim k).compact (E := E) (repair := repair))
    (s := (b, r)) (t := (b, { r with failAt := some k })) ⟨rfl, rfl, h0, hl⟩ hInf
  apply out_rec (pack := fun t' => ((bInf, t'), wInf))
  rcases hO with ⟨⟨b1, t1⟩, hk, hb, hR⟩ | ⟨e, hk, hF⟩
  · dsimp only at hb hk hR; subst hb; rw [hk]; exact Out.ok hR
  · dsimp only at hk; rw [hk]; exact Out.err hF

/-- `Compact` over `Replace` (the stack of `capture_diff`) -/
theorem fail_compact_replace {E : Env} {repair : Bool} {b bInf : List Op} {a aInf : RState}
    (hInf : P (compactHook E repair (replaceHook recHook)) (b, (a, r)) w = .ok ((bInf, (aInf, rInf)), wInf)) :
    (k < rInf.trace.length →
      P (compactHook E repair (replaceHook recHook)) (b, (a, { r with failAt := some k })) w =
        .error (.hookErr (rInf.trace.take (k + 1)))) ∧
    (rInf.trace.length ≤ k →
      P (compactHook E repair (replaceHook recHook)) (b, (a, { r with failAt := some k })) w =
        .ok ((bInf, (aInf, { rInf with failAt := some k })), wInf)) := by
  have hO := hP ((rec_sim k).replace.compact (E := E) (repair := repair))
    (s := (b, (a, r))) (t := (b, (a, { r with failAt := some k }))) ⟨rfl, rfl, rfl, h0, hl⟩ hInf
  apply out_rec (pack := fun t' => ((bInf, (aInf, t')), wInf))
  rcases hO with ⟨⟨b1, a1, t1⟩, hk, hb, ha, hR⟩ | ⟨e, hk, hF⟩
  · dsimp only at hb ha hk hR; subst hb; subst ha; rw [hk]; exact Out.ok hR
  · dsimp only at hk; rw [hk]; exact Out.err hF

end Main

/-! ### the entry points, in the form of the property statement -/

theorem diff_plain (alg : Alg) (E : Env) (os oe ns ne : Nat) (w : World) (native : Bool) (k : Nat)
    {rInf : Rec} {wInf : World}
    (hInf : diffWith alg E recHook os oe ns ne { failAt := none, nativeReplace := native } w = .ok (rInf, wInf)) :
    (k < rInf.trace.length →
      diffWith alg E recHook os oe ns ne { failAt := some k, nativeReplace := native } w = .error (.hookErr (rInf.trace.take (k + 1)))) ∧
    (rInf.trace.length ≤ k →
      diffWith alg E recHook os oe ns ne { failAt := some k, nativeReplace := native } w = .ok ({ rInf with failAt := some k }, wInf)) :=
  fail_plain (diffWith_generic alg E os oe ns ne) (r := { failAt := none, nativeReplace := native }) rfl (Nat.zero_le k) hInf

theorem deliver_plain (calls : List Call) (w : World) (native : Bool) (k : Nat)
    {rInf : Rec} {wInf : World}
    (hInf : deliver recHook calls { failAt := none, nativeReplace := native } w = .ok (rInf, wInf)) :
    (k < rInf.trace.length →
      deliver recHook calls { failAt := some k, nativeReplace := native } w = .error (.hookErr (rInf.trace.take (k + 1)))) ∧
    (rInf.trace.length ≤ k →
      deliver recHook calls { failAt := some k, nativeReplace := native } w = .ok ({ rInf with failAt := some k }, wInf)) :=
  fail_plain (deliver_generic calls) (r := { failAt := none, nativeReplace := native }) rfl (Nat.zero_le k) hInf

theorem diff_noFinish (alg : Alg) (E : Env) (os oe ns ne : Nat) (w : World) (native : Bool) (k : Nat)
    {rInf : Rec} {wInf : World}
    (hInf : diffWith alg E (noFinishHook recHook) os oe ns ne { failAt := none, nativeReplace := native } w = .ok (rInf, wInf)) :
    (k < rInf.trace.length →
      diffWith alg E (noFinishHook recHook) os oe ns ne { failAt := some k, nativeReplace := native } w = .error (.hookErr (rInf.trace.take (k + 1)))) ∧
    (rInf.trace.length ≤ k →
      diffWith alg E (noFinishHook recHook) os oe ns ne { failAt := some k, nativeReplace := native } w = .ok ({ rInf with failAt := some k }, wInf)) :=
  fail_noFinish (diffWith_generic alg E os oe ns ne) (r := { failAt := none, nativeReplace := native }) rfl (Nat.zero_le k) hInf

theorem deliver_noFinish (calls : List Call) (w : World) (native : Bool) (k : Nat)
    {rInf : Rec} {wInf : World}
    (hInf : deliver (noFinishHook recHook) calls { failAt := none, nativeReplace := native } w = .ok (rInf, wInf)) :
    (k < rInf.trace.length →
      deliver (noFinishHook recHook) calls { failAt := some k, nativeReplace := native } w = .error (.hookErr (rInf.trace.take (k + 1)))) ∧
    (rInf.trace.length ≤ k →
      deliver (noFinishHook recHook) calls { failAt := some k, nativeReplace := native } w = .ok ({ rInf with failAt := some k }, wInf)) :=
  fail_noFinish (deliver_generic calls) (r := { failAt := none, nativeReplace := native }) rfl (Nat.zero_le k) hInf

theorem diff_replace (alg : Alg) (E : Env) (os oe ns ne : Nat) (w : World) (native : Bool) (k : Nat)
    {rInf : Rec} {wInf : World} {aInf : RState}
    (hInf : diffWith alg E (replaceHook recHook) os oe ns ne ({}, { failAt := none, nativeReplace := native }) w = .ok ((aInf, rInf), wInf)) :
    (k < rInf.trace.length →
      diffWith alg E (replaceHook recHook) os oe ns ne ({}, { failAt := some k, nativeReplace := native }) w = .error (.hookErr (rInf.trace.take (k + 1)))) ∧
    (rInf.trace.length ≤ k →
      diffWith alg E (replaceHook recHook) os oe ns ne ({}, { failAt := some k, nativeReplace := native }) w = .ok ((aInf, { rInf with failAt := some k }), wInf)) :=
  fail_replace (diffWith_generic alg E os oe ns ne) (r := { failAt := none, nativeReplace := native }) rfl (Nat.zero_le k) hInf

theorem deliver_replace (calls : List Call) (w : World) (native : Bool) (k : Nat)
    {rInf : Rec} {wInf : World} {aInf : RState}
    (hInf : deliver (replaceHook recHook) calls ({}, { failAt := none, nativeReplace := native }) w = .ok ((aInf, rInf), wInf)) :
    (k < rInf.trace.length →
      deliver (replaceHook recHook) calls ({}, { failAt := some k, nativeReplace := native }) w = .error (.hookErr (rInf.trace.take (k + 1)))) ∧
    (rInf.trace.length ≤ k →
      deliver (replaceHook recHook) calls ({}, { failAt := some k, nativeReplace := native }) w = .ok ((aInf, { rInf with failAt := some k }), wInf)) :=
  fail_replace (deliver_generic calls) (r := { failAt := none, nativeReplace := native }) rfl (Nat.zero_le k) hInf

theorem diff_compact (alg : Alg) (E : Env) (repair : Bool) (os oe ns ne : Nat) (w : World) (native : Bool) (k : Nat)
    {rInf : Rec} {wInf : World} {bInf : List Op}
    (hInf : diffWith alg E (compactHook E repair recHook) os oe ns ne ([], { failAt := none, nativeReplace := native }) w = .ok ((bInf, rInf), wInf)) :
    (k < rInf.trace.length →
      diffWith alg E (compactHook E repair recHook) os oe ns ne ([], { failAt := some k, nativeReplace := native }) w = .error (.hookErr (rInf.trace.take (k + 1)))) ∧
    (rInf.trace.length ≤ k →
      diffWith alg E (compactHook E repair recHook) os oe ns ne ([], { failAt := some k, nativeReplace := native }) w = .ok ((bInf, { rInf with failAt := some k }), wInf)) :=
  fail_compact (diffWith_generic alg E os oe ns ne) (r := { failAt := none, nativeReplace := native }) rfl (Nat.zero_le k) hInf

theorem deliver_compact (E : Env) (repair : Bool) (calls : List Call) (w : World) (native : Bool) (k : Nat)
    {rInf : Rec} {wInf : World} {bInf : List Op}
    (hInf : deliver (compactHook E repair recHook) calls ([], { failAt := none, nativeReplace := native }) w = .ok ((bInf, rInf), wInf)) :
    (k < rInf.trace.length →
      deliver (compactHook E repair recHook) calls ([], { failAt := some k, nativeReplace := native }) w = .error (.hookErr (rInf.trace.take (k + 1)))) ∧
    (rInf.trace.length ≤ k →
      deliver (compactHook E repair recHook) calls ([], { failAt := some k, nativeReplace := native }) w = .ok ((bInf, { rInf with failAt := some k }), wInf)) :=
  fail_compact (deliver_generic calls) (r := { failAt := none, nativeReplace := native }) rfl (Nat.zero_le k) hInf

theorem diff_compact_replace (alg : Alg) (E : Env) (repair : Bool) (os oe ns ne : Nat) (w : World) (native : Bool) (k : Nat)
    {rInf : Rec} {wInf : World} {bInf : List Op} {aInf : RState}
    (hInf : diffWith alg E (compactHook E repair (replaceHook recHook)) os oe ns ne ([], ({}, { failAt := none, nativeReplace := native })) w = .ok ((bInf, (aInf, rInf)), wInf)) :
    (k < rInf.trace.length →
      diffWith alg E (compactHook E repair (replaceHook recHook)) os oe ns ne ([], ({}, { failAt := some k, nativeReplace := native })) w = .error (.hookErr (rInf.trace.take (k + 1)))) ∧
    (rInf.trace.length ≤ k →
      diffWith alg E (compactHook E repair (replaceHook recHook)) os oe ns ne ([], ({}, { failAt := some k, nativeReplace := native })) w = .ok ((bInf, (aInf, { rInf with failAt := some k })), wInf)) :=
  fail_compact_replace (diffWith_generic alg E os oe ns ne) (r := { failAt := none, nativeReplace := native }) rfl (Nat.zero_le k) hInf

theorem deliver_compact_replace (E : Env) (repair : Bool) (calls : List Call) (w : World) (native : Bool) (k : Nat)
    {rInf : Rec} {wInf : World} {bInf : List Op} {aInf : RState}
    (hInf : deliver (compactHook E repair (replaceHook recHook)) calls ([], ({}, { failAt := none, nativeReplace := native })) w = .ok ((bInf, (aInf, rInf)), wInf)) :
    (k < rInf.trace.length →
      deliver (compactHook E repair (replaceHook recHook)) calls ([], ({}, { failAt := some k, nativeReplace := native })) w = .error (.hookErr (rInf.trace.take (k + 1)))) ∧
    (rInf.trace.length ≤ k →
      deliver (compactHook E repair (replaceHook recHook)) calls ([], ({}, { failAt := some k, nativeReplace := native })) w = .ok ((bInf, (aInf, { rInf with failAt := some k })), wInf)) :=
  fail_compact_replace (deliver_generic calls) (r := { failAt := none, nativeReplace := native }) rfl (Nat.zero_le k) hInf

end SimilarVerif.HookFail

import SimilarVerif.Model.Lcs
import SimilarVerif.Lemmas.Utils
/-! Soundness and totality of the LCS diff (`lcsDiff` over the recording hook), for every clock. -/
namespace SimilarVerif
open Spec

/-- exact carried indices satisfy C01's run-relative rule -/
theorem exact_carried (e : Nat → Nat → Bool) (ops : List Op) (o n o' n' : Nat)
    (hw : Walk e o n ops o' n') (hx : Exact o n ops) : Carried o n ops := by
  sorry

/-- **LCS is total and sound**: for in-bounds ranges and any clock the call returns, and what the
recording hook was told is a valid script with exact indices followed by exactly one `finish`. -/
theorem lcs_valid (E : Env) (os oe ns ne : Nat) (w : World) (ho : os ≤ oe) (hn : ns ≤ ne)
    (hb : InBounds E os oe ns ne) :
    ∃ ops w', lcsDiff E recHook os oe ns ne {} w = .ok ({ trace := ops.map Call.op ++ [.finish] }, w') ∧
      Walk (eqB E) os ns ops oe ne ∧ Exact os ns ops := by
  sorry

end SimilarVerif

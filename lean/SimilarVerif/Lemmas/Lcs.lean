import SimilarVerif.Model.Lcs
import SimilarVerif.Lemmas.Utils
/-! Soundness and totality of the LCS diff (`lcsDiff` over the recording hook), for every clock. -/
namespace SimilarVerif.LcsP
open Spec

/-! ## `Exact` implies `Carried` -/

/-- `InRun` is monotone in the end of the run -/
theorem InRun_mono {o0 n0 o n o' n' : Nat} {x : Op} (h : InRun o0 n0 o n x) (ho : o ≤ o')
    (hn : n ≤ n') : InRun o0 n0 o' n' x := by
  cases x <;> simp only [InRun] at * <;> omega

/-- generalisation of `exact_carried` over the accumulator of `CarriedGo`; needs `Exact` only -/
theorem exact_carriedGo : ∀ (ops : List Op) (o0 n0 o n : Nat) (pend : List Op),
    Exact o n ops → o0 ≤ o → n0 ≤ n → (∀ x ∈ pend, InRun o0 n0 o n x) →
    CarriedGo o0 n0 o n pend ops := by
  intro ops
  induction ops with
  | nil =>
    intro o0 n0 o n pend _ _ _ hp
    simpa only [CarriedGo] using hp
  | cons c cs ih =>
    intro o0 n0 o n pend hx ho hn hp
    cases c with
    | equal co cn len =>
      simp only [Exact, Op.oStart, Op.nStart, Op.oLen, Op.nLen] at hx
      simp only [CarriedGo]
      refine ⟨hp, ih _ _ _ _ [] hx.2.2 (Nat.le_refl _) (Nat.le_refl _) ?_⟩
      intro x hxm; simp at hxm
    | delete co l cn =>
      simp only [Exact, Op.oStart, Op.nStart, Op.oLen, Op.nLen, Nat.add_zero] at hx
      simp only [CarriedGo]
      apply ih _ _ _ _ _ hx.2.2 (by omega) hn
      intro x hxm
      simp only [List.mem_cons] at hxm
      rcases hxm with rfl | hxm
      · simp only [InRun]; omega
      · exact InRun_mono (hp x hxm) (by omega) (Nat.le_refl _)
    | insert co cn l =>
      simp only [Exact, Op.oStart, Op.nStart, Op.oLen, Op.nLen, Nat.add_zero] at hx
      simp only [CarriedGo]
      apply ih _ _ _ _ _ hx.2.2 ho (by omega)
      intro x hxm
      simp only [List.mem_cons] at hxm
      rcases hxm with rfl | hxm
      · simp only [InRun]; omega
      · exact InRun_mono (hp x hxm) (Nat.le_refl _) (by omega)
    | replace co ol cn nl =>
      simp only [Exact, Op.oStart, Op.nStart, Op.oLen, Op.nLen] at hx
      simp only [CarriedGo]
      apply ih _ _ _ _ _ hx.2.2 (by omega) (by omega)
      intro x hxm
      simp only [List.mem_cons] at hxm
      rcases hxm with rfl | hxm
      · simp only [InRun]
      · exact InRun_mono (hp x hxm) (by omega) (by omega)

/-- stronger form of `exact_carried`: the `Walk` hypothesis is not needed -/
theorem exact_carried' (ops : List Op) (o n : Nat) (hx : Exact o n ops) : Carried o n ops := by
  unfold Carried
  apply exact_carriedGo ops o n o n [] hx (Nat.le_refl _) (Nat.le_refl _)
  intro x hxm; simp at hxm

set_option linter.unusedVariables false in
/-- exact carried indices satisfy C01's run-relative rule -/
theorem exact_carried (e : Nat → Nat → Bool) (ops : List Op) (o n o' n' : Nat)
    (hw : Walk e o n ops o' n') (hx : Exact o n ops) : Carried o n ops :=
  exact_carried' ops o n hx

/-! ## `Walk` and `Exact` together, with an append lemma -/

/-- a valid walk with exact indices -/
def WX (e : Nat → Nat → Bool) (o n : Nat) (ops : List Op) (o' n' : Nat) : Prop :=
  Walk e o n ops o' n' ∧ Exact o n ops

theorem WX_nil (e : Nat → Nat → Bool) (o n : Nat) : WX e o n [] o n := by
  simp [WX, Walk, Exact]

theorem WX_nil' {e : Nat → Nat → Bool} {o n o' n' : Nat} (h1 : o' = o) (h2 : n' = n) :
    WX e o n [] o' n' := by
  subst h1 h2; exact WX_nil e _ _

theorem WX_append {e : Nat → Nat → Bool} : ∀ (a : List Op) {b : List Op} {o n o1 n1 o2 n2 : Nat},
    WX e o n a o1 n1 → WX e o1 n1 b o2 n2 → WX e o n (a ++ b) o2 n2 := by
  intro a
  induction a with
  | nil =>
    intro b o n o1 n1 o2 n2 h1 h2
    simp only [WX, Walk, Exact] at h1
    obtain ⟨⟨rfl, rfl⟩, _⟩ := h1
    simpa using h2
  | cons c cs ih =>
    intro b o n o1 n1 o2 n2 h1 h2
    cases c with
    | equal co cn len =>
      simp only [WX, Walk, Exact, List.cons_append, Op.oStart, Op.nStart, Op.oLen, Op.nLen] at h1 ⊢
      obtain ⟨⟨a1, a2, a3, a4, a5⟩, b1, b2, b3⟩ := h1
      obtain ⟨r1, r2⟩ := ih ⟨a5, b3⟩ h2
      exact ⟨⟨a1, a2, a3, a4, r1⟩, b1, b2, r2⟩
    | delete co l cn =>
      simp only [WX, Walk, Exact, List.cons_append, Op.oStart, Op.nStart, Op.oLen, Op.nLen,
        Nat.add_zero] at h1 ⊢
      obtain ⟨⟨a1, a2, a3⟩, b1, b2, b3⟩ := h1
      obtain ⟨r1, r2⟩ := ih ⟨a3, b3⟩ h2
      exact ⟨⟨a1, a2, r1⟩, b1, b2, r2⟩
    | insert co cn l =>
      simp only [WX, Walk, Exact, List.cons_append, Op.oStart, Op.nStart, Op.oLen, Op.nLen,
        Nat.add_zero] at h1 ⊢
      obtain ⟨⟨a1, a2, a3⟩, b1, b2, b3⟩ := h1
      obtain ⟨r1, r2⟩ := ih ⟨a3, b3⟩ h2
      exact ⟨⟨a1, a2, r1⟩, b1, b2, r2⟩
    | replace co ol cn nl =>
      simp only [WX, Walk, Exact, List.cons_append, Op.oStart, Op.nStart, Op.oLen, Op.nLen] at h1 ⊢
      obtain ⟨⟨a1, a2, a3, a4, a5⟩, b1, b2, b3⟩ := h1
      obtain ⟨r1, r2⟩ := ih ⟨a5, b3⟩ h2
      exact ⟨⟨a1, a2, a3, a4, r1⟩, b1, b2, r2⟩

theorem WX_equal {e : Nat → Nat → Bool} {o n co cn len o' n' : Nat} (h1 : co = o) (h2 : cn = n)
    (h3 : 0 < len) (h4 : ∀ t, t < len → e (o+t) (n+t) = true) (h5 : o' = o + len)
    (h6 : n' = n + len) : WX e o n [.equal co cn len] o' n' := by
  subst h1 h2 h5 h6
  simp only [WX, Walk, Exact, Op.oStart, Op.nStart, and_self, and_true, true_and]
  exact ⟨h3, h4⟩

theorem WX_delete {e : Nat → Nat → Bool} {o n co cn len o' n' : Nat} (h1 : co = o) (h2 : cn = n)
    (h3 : 0 < len) (h5 : o' = o + len) (h6 : n' = n) : WX e o n [.delete co len cn] o' n' := by
  subst h1 h2 h5 h6
  simp only [WX, Walk, Exact, Op.oStart, Op.nStart, and_self, and_true, true_and]
  exact h3

theorem WX_insert {e : Nat → Nat → Bool} {o n co cn len o' n' : Nat} (h1 : co = o) (h2 : cn = n)
    (h3 : 0 < len) (h5 : o' = o) (h6 : n' = n + len) : WX e o n [.insert co cn len] o' n' := by
  subst h1 h2 h5 h6
  simp only [WX, Walk, Exact, Op.oStart, Op.nStart, and_self, and_true, true_and]
  exact h3

/-- an optionally emitted op: emitted iff `c`; if not emitted the position does not move -/
theorem WX_opt {e : Nat → Nat → Bool} {o n o' n' : Nat} {c : Prop} [Decidable c] {x : Op}
    (h1 : c → WX e o n [x] o' n') (h2 : ¬ c → o' = o ∧ n' = n) :
    WX e o n (if c then [x] else []) o' n' := by
  by_cases hc : c
  · simp only [hc, if_true]; exact h1 hc
  · simp only [hc, if_false]; exact WX_nil' (h2 hc).1 (h2 hc).2

/-! ## The recording hook that never fails -/

@[simp] theorem emit_rec (x : Op) (T : List Call) (w : World) :
    emit recHook x (Rec.mk T none true) w = .ok (Rec.mk (T ++ [.op x]) none true, w) := by
  cases x <;> simp [emit, recHook, Rec.push, Except.map]

@[simp] theorem finish_rec (T : List Call) (w : World) :
    recHook.call .finish (Rec.mk T none true) w = .ok (Rec.mk (T ++ [.finish]) none true, w) := by
  simp [recHook, Rec.push, Except.map]

theorem optEmit_rec (c : Prop) [Decidable c] (x : Op) (T : List Call) (w : World) :
    (if c then emit recHook x (Rec.mk T none true) w else .ok (Rec.mk T none true, w)) =
      .ok (Rec.mk (T ++ (if c then [x] else []).map Call.op) none true, w) := by
  by_cases hc : c <;> simp [hc]

theorem optEmit_rec' (c : Prop) [Decidable c] (x : Op) (T : List Call) (w : World) :
    (if c then (Except.ok (Rec.mk (T ++ [.op x]) none true, w) : Res (Rec × World))
      else .ok (Rec.mk T none true, w)) =
      .ok (Rec.mk (T ++ (if c then [x] else []).map Call.op) none true, w) := by
  by_cases hc : c <;> simp [hc]

theorem optDel_rec' (c : Prop) [Decidable c] (x : Op) (T : List Call) (w : World) (a b : Nat) :
    (if c then (Except.ok (a, Rec.mk (T ++ [.op x]) none true, w) : Res (Nat × Rec × World))
      else .ok (b, Rec.mk T none true, w)) =
      .ok (if c then a else b, Rec.mk (T ++ (if c then [x] else []).map Call.op) none true, w) := by
  by_cases hc : c <;> simp [hc]

/-! ## Totality of the table construction -/

theorem tableRow_total (E : Env) (os ns i : Nat) : ∀ (cnt : Nat) (t : Table) (w : World),
    (∀ j, j < cnt → (E.on (os + j) (ns + i)).isSome) →
    ∃ t' w', tableRow E os ns i cnt t w = .ok (t', w') := by
  intro cnt
  induction cnt with
  | zero => intro t w _; exact ⟨t, w, rfl⟩
  | succ j ih =>
    intro t w hb
    obtain ⟨b, hc, _⟩ := cmp_total (E := E) w (hb j (Nat.lt_succ_self _))
    simp only [tableRow, hc]
    exact ih _ _ (fun j' hj' => hb j' (by omega))

theorem tableRows_total (E : Env) (os ns ol : Nat) : ∀ (cnt : Nat) (t : Table) (w : World),
    (∀ i j, i < cnt → j < ol → (E.on (os + j) (ns + i)).isSome) →
    ∃ mt w', tableRows E os ns ol cnt t w = .ok (mt, w') := by
  intro cnt
  induction cnt with
  | zero => intro t w _; exact ⟨some t, w, rfl⟩
  | succ i ih =>
    intro t w hb
    simp only [tableRows]
    cases hp : probe w with
    | mk b w1 =>
      cases b with
      | true => exact ⟨none, w1, rfl⟩
      | false =>
        obtain ⟨t', w', hr⟩ := tableRow_total E os ns i ol t w1 (fun j hj => hb i j (Nat.lt_succ_self _) hj)
        simp only [hr]
        exact ih _ _ (fun i' j hi' hj => hb i' j (by omega) hj)

theorem makeTable_total (E : Env) (os oe ns ne : Nat) (w : World) (hb : InBounds E os oe ns ne) :
    ∃ mt w', makeTable E os oe ns ne w = .ok (mt, w') := by
  unfold makeTable
  apply tableRows_total
  intro i j hi hj
  exact hb (os + j) (ns + i) (by omega) (by omega) (by omega) (by omega)

/-! ## The walk over the table -/

theorem lcsWalk_rec (E : Env) (t : Table) (o0 n0 ol nl : Nat)
    (hb : ∀ i j, i < ol → j < nl → (E.on (o0 + i) (n0 + j)).isSome) :
    ∀ (fuel oi ni : Nat) (T : List Call) (w : World), oi ≤ ol → ni ≤ nl →
      (ol - oi) + (nl - ni) ≤ fuel →
      ∃ oi' ni' ops w',
        lcsWalk E recHook t o0 n0 ol nl fuel oi ni (Rec.mk T none true) w =
          .ok (oi', ni', Rec.mk (T ++ ops.map Call.op) none true, w') ∧
        WX (eqB E) (o0 + oi) (n0 + ni) ops (o0 + oi') (n0 + ni') ∧
        oi' ≤ ol ∧ ni' ≤ nl ∧ (oi' = ol ∨ ni' = nl) := by
  intro fuel
  induction fuel with
  | zero =>
    intro oi ni T w ho hn hf
    have hc : ¬ (ni < nl ∧ oi < ol) := by omega
    refine ⟨oi, ni, [], w, ?_, WX_nil _ _ _, ho, hn, by omega⟩
    simp [lcsWalk, hc]
  | succ f ih =>
    intro oi ni T w ho hn hf
    by_cases hc : ni < nl ∧ oi < ol
    · obtain ⟨b, hcmp, hE⟩ := cmp_total (E := E) w (hb oi ni hc.2 hc.1)
      cases b with
      | true =>
        obtain ⟨oi', ni', ops, w', h1, h2, h3, h4, h5⟩ :=
          ih (oi+1) (ni+1) (T ++ [.op (.equal (o0 + oi) (n0 + ni) 1)]) { w with cmps := w.cmps + 1 } (by omega) (by omega) (by omega)
        refine ⟨oi', ni', .equal (o0 + oi) (n0 + ni) 1 :: ops, w', ?_, ?_, h3, h4, h5⟩
        · simp only [lcsWalk, hc, hcmp, decide_true, Bool.and_self, if_true, emit_rec, h1]; simp
        · have hs : WX (eqB E) (o0 + oi) (n0 + ni) [.equal (o0 + oi) (n0 + ni) 1] (o0 + (oi+1)) (n0 + (ni+1)) := by
            apply WX_equal rfl rfl (by omega) _ (by omega) (by omega)
            intro t ht
            have : t = 0 := by omega
            subst this
            simp [eqB, hE]
          exact WX_append [_] hs h2
      | false =>
        by_cases htab : t.get ni (oi+1) ≥ t.get (ni+1) oi
        · obtain ⟨oi', ni', ops, w', h1, h2, h3, h4, h5⟩ :=
            ih (oi+1) ni (T ++ [.op (.delete (o0 + oi) 1 (n0 + ni))]) { w with cmps := w.cmps + 1 } (by omega) (by omega) (by omega)
          refine ⟨oi', ni', .delete (o0 + oi) 1 (n0 + ni) :: ops, w', ?_, ?_, h3, h4, h5⟩
          · simp only [lcsWalk, hc, hcmp, htab, decide_true, Bool.and_self, if_true, emit_rec, h1]; simp
          · have hs : WX (eqB E) (o0 + oi) (n0 + ni) [.delete (o0 + oi) 1 (n0 + ni)] (o0 + (oi+1)) (n0 + ni) :=
              WX_delete rfl rfl (by omega) (by omega) rfl
            exact WX_append [_] hs h2
        · obtain ⟨oi', ni', ops, w', h1, h2, h3, h4, h5⟩ :=
            ih oi (ni+1) (T ++ [.op (.insert (o0 + oi) (n0 + ni) 1)]) { w with cmps := w.cmps + 1 } (by omega) (by omega) (by omega)
          refine ⟨oi', ni', .insert (o0 + oi) (n0 + ni) 1 :: ops, w', ?_, ?_, h3, h4, h5⟩
          · simp only [lcsWalk, hc, hcmp, htab, decide_true, Bool.and_self, if_true, if_false, emit_rec, h1]; simp
          · have hs : WX (eqB E) (o0 + oi) (n0 + ni) [.insert (o0 + oi) (n0 + ni) 1] (o0 + oi) (n0 + (ni+1)) :=
              WX_insert rfl rfl (by omega) rfl (by omega)
            exact WX_append [_] hs h2
    · refine ⟨oi, ni, [], w, ?_, WX_nil _ _ _, ho, hn, by omega⟩
      simp [lcsWalk, hc]

/-! ## The whole call -/

theorem InBounds_sub {E : Env} {os oe ns ne os' oe' ns' ne' : Nat} (hb : InBounds E os oe ns ne)
    (h1 : os ≤ os') (h2 : oe' ≤ oe) (h3 : ns ≤ ns') (h4 : ne' ≤ ne) : InBounds E os' oe' ns' ne' :=
  fun i j a b c d => hb i j (by omega) (by omega) (by omega) (by omega)

/-- the two flushes after the walk and the common suffix, as a script -/
theorem WX_flush {E : Env} {os oe ns ne p sl ol nl ni x : Nat} (hx : x = ol) (hni : ni ≤ nl)
    (ho : os ≤ oe) (hn : ns ≤ ne) (hol : oe - os - p - sl = ol) (hnl : ne - ns - p - sl = nl)
    (p1 : p ≤ oe - os) (p2 : p ≤ ne - ns) (s1 : sl ≤ oe - (os + p)) (s2 : sl ≤ ne - (ns + p))
    (s3 : ∀ t, t < sl → eqB E (oe - 1 - t) (ne - 1 - t) = true) :
    WX (eqB E) (os + p + x) (ns + p + ni)
      ((if ni < nl then [Op.insert (os + p + x) (ns + p + ni) (nl - ni)] else []) ++
       (if 0 < sl then [Op.equal (os + ol + p) (ns + nl + p) sl] else [])) oe ne := by
  subst hx
  apply WX_append (o1 := os + p + x) (n1 := ns + p + nl)
  · apply WX_opt
    · intro h; exact WX_insert rfl rfl (by omega) rfl (by omega)
    · intro h; exact ⟨rfl, by omega⟩
  · apply WX_opt
    · intro h
      apply WX_equal (by omega) (by omega) h _ (by omega) (by omega)
      intro t ht
      have h3 := s3 (sl - 1 - t) (by omega)
      have e1 : oe - 1 - (sl - 1 - t) = os + p + x + t := by omega
      have e2 : ne - 1 - (sl - 1 - t) = ns + p + nl + t := by omega
      rw [e1, e2] at h3; exact h3
    · intro h; exact ⟨by omega, by omega⟩

/-- everything after the table walk as a script: delete flush, insert flush, suffix -/
theorem WX_tail {E : Env} {os oe ns ne p sl ol nl oi ni : Nat} {P : List Op}
    (hP : WX (eqB E) os ns P (os + p + oi) (ns + p + ni))
    (hoi : oi ≤ ol) (hni : ni ≤ nl)
    (ho : os ≤ oe) (hn : ns ≤ ne) (hol : oe - os - p - sl = ol) (hnl : ne - ns - p - sl = nl)
    (p1 : p ≤ oe - os) (p2 : p ≤ ne - ns) (s1 : sl ≤ oe - (os + p)) (s2 : sl ≤ ne - (ns + p))
    (s3 : ∀ t, t < sl → eqB E (oe - 1 - t) (ne - 1 - t) = true) :
    WX (eqB E) os ns
      (P ++ ((if oi < ol then [Op.delete (os + p + oi) (ol - oi) (ns + p + ni)] else []) ++
        ((if ni < nl then
            [Op.insert (os + p + (if oi < ol then ol else oi)) (ns + p + ni) (nl - ni)] else []) ++
         (if 0 < sl then [Op.equal (os + ol + p) (ns + nl + p) sl] else [])))) oe ne := by
  apply WX_append P hP
  apply WX_append (o1 := os + p + (if oi < ol then ol else oi)) (n1 := ns + p + ni)
  · apply WX_opt
    · intro h; simp only [h, if_true]; exact WX_delete rfl rfl (by omega) (by omega) rfl
    · intro h; exact ⟨by simp only [h, if_false], rfl⟩
  · exact WX_flush (by split <;> omega) hni ho hn hol hnl p1 p2 s1 s2 s3

/-- `lcs_valid` for an arbitrary trace already recorded -/
theorem lcs_valid_gen (E : Env) (os oe ns ne : Nat) (T : List Call) (w : World) (ho : os ≤ oe)
    (hn : ns ≤ ne) (hb : InBounds E os oe ns ne) :
    ∃ ops w', lcsDiff E recHook os oe ns ne (Rec.mk T none true) w =
        .ok (Rec.mk (T ++ ops.map Call.op ++ [.finish]) none true, w') ∧
      WX (eqB E) os ns ops oe ne := by
  unfold lcsDiff
  by_cases h1 : ne ≤ ns
  · by_cases h2 : oe ≤ os
    · refine ⟨[], w, by simp [h1, h2], WX_nil' (by omega) (by omega)⟩
    · refine ⟨[.delete os (oe - os) ns], w, by simp [h1, h2],
        WX_delete rfl rfl (by omega) (by omega) (by omega)⟩
  · by_cases h2 : oe ≤ os
    · refine ⟨[.insert os ns (ne - ns)], w, by simp [h1, h2],
        WX_insert rfl rfl (by omega) (by omega) (by omega)⟩
    · simp only [h1, h2, if_false]
      obtain ⟨p, w1, hp⟩ := commonPrefixLen_total (E := E) w hb
      obtain ⟨p1, p2, p3, -, -⟩ := commonPrefixLen_spec hp
      obtain ⟨sl, w2, hs⟩ := commonSuffixLen_total (E := E) (os := os + p) (oe := oe) (ns := ns + p)
        (ne := ne) w1 (InBounds_sub hb (by omega) (by omega) (by omega) (by omega))
      obtain ⟨s1, s2, s3, -, -⟩ := commonSuffixLen_spec hs
      simp only [hp, hs]
      by_cases h3 : (p == oe - os && oe - os == ne - ns) = true
      · simp only [h3, if_true, emit_rec, finish_rec]
        simp only [Bool.and_eq_true, beq_iff_eq] at h3
        refine ⟨[.equal os ns (oe - os)], w2, by simp, ?_⟩
        apply WX_equal rfl rfl (by omega) _ (by omega) (by omega)
        intro t ht; exact p3 t (by omega)
      · simp only [h3, Bool.false_eq_true, if_false]
        obtain ⟨mt, w3, hm⟩ := makeTable_total E (os + p) (oe - sl) (ns + p) (ne - sl) w2
          (InBounds_sub hb (by omega) (by omega) (by omega) (by omega))
        simp only [hm, optEmit_rec]
        generalize hol : oe - os - p - sl = ol
        generalize hnl : ne - ns - p - sl = nl
        generalize hT1 : T ++ List.map Call.op (if 0 < p then [Op.equal os ns p] else []) = T1
        have hA : WX (eqB E) os ns (if 0 < p then [Op.equal os ns p] else []) (os + p) (ns + p) := by
          apply WX_opt
          · intro h; exact WX_equal rfl rfl h p3 rfl rfl
          · intro h; exact ⟨by omega, by omega⟩
        cases mt with
        | none =>
          simp only [emit_rec, optDel_rec', optEmit_rec', finish_rec]
          refine ⟨_, w3, ?_, WX_tail (oi := 0) (ni := 0) (ol := ol) (nl := nl)
            (P := if 0 < p then [Op.equal os ns p] else []) hA
            (Nat.zero_le _) (Nat.zero_le _) ho hn hol hnl p1 p2 s1 s2 s3⟩
          simp [← hT1]
        | some t =>
          obtain ⟨oi, ni, W, w4, e1, e2, e3, e4, -⟩ := lcsWalk_rec E t (os + p) (ns + p) ol nl
            (fun i j hi hj => hb (os + p + i) (ns + p + j) (by omega) (by omega) (by omega) (by omega))
            (ol + nl) 0 0 T1 w3 (by omega) (by omega) (by omega)
          simp only [e1, emit_rec, optDel_rec', optEmit_rec', finish_rec]
          refine ⟨_, w4, ?_, WX_tail (ol := ol) (nl := nl)
            (P := (if 0 < p then [Op.equal os ns p] else []) ++ W) (WX_append _ hA e2)
            e3 e4 ho hn hol hnl p1 p2 s1 s2 s3⟩
          simp [← hT1]

/-- **LCS is total and sound**: for in-bounds ranges and any clock the call returns, and what the
recording hook was told is a valid script with exact indices followed by exactly one `finish`. -/
theorem lcs_valid (E : Env) (os oe ns ne : Nat) (w : World) (ho : os ≤ oe) (hn : ns ≤ ne)
    (hb : InBounds E os oe ns ne) :
    ∃ ops w', lcsDiff E recHook os oe ns ne {} w = .ok ({ trace := ops.map Call.op ++ [.finish] }, w') ∧
      Walk (eqB E) os ns ops oe ne ∧ Exact os ns ops := by
  obtain ⟨ops, w', h1, h2, h3⟩ := lcs_valid_gen E os oe ns ne [] w ho hn hb
  exact ⟨ops, w', by simpa using h1, h2, h3⟩

/-- corollary: the recorded stream is `ValidRaw` -/
theorem lcs_validRaw (E : Env) (os oe ns ne : Nat) (w : World) (ho : os ≤ oe) (hn : ns ≤ ne)
    (hb : InBounds E os oe ns ne) :
    ∃ r w', lcsDiff E recHook os oe ns ne {} w = .ok (r, w') ∧ ValidRaw E os oe ns ne r.trace := by
  obtain ⟨ops, w', h1, h2, h3⟩ := lcs_valid E os oe ns ne w ho hn hb
  exact ⟨_, w', h1, ops, rfl, h2, exact_carried _ ops os ns oe ne h2 h3⟩

end SimilarVerif.LcsP

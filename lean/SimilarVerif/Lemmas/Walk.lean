import SimilarVerif.Spec.Walk
/-! General facts about `Walk` / `Exact` shared by the property files. -/
namespace SimilarVerif
open Spec

theorem walk_append {e : Nat → Nat → Bool} : ∀ (a b : List Op) (o n o1 n1 o2 n2 : Nat),
    Walk e o n a o1 n1 → Walk e o1 n1 b o2 n2 → Walk e o n (a ++ b) o2 n2 := by
  intro a
  induction a with
  | nil => intro b o n o1 n1 o2 n2 h1 h2; obtain ⟨rfl, rfl⟩ := h1; simpa using h2
  | cons c cs ih =>
    intro b o n o1 n1 o2 n2 h1 h2
    cases c <;> simp only [Walk, List.cons_append] at h1 ⊢ <;> grind

theorem walk_split {e : Nat → Nat → Bool} : ∀ (a b : List Op) (o n o2 n2 : Nat),
    Walk e o n (a ++ b) o2 n2 → ∃ o1 n1, Walk e o n a o1 n1 ∧ Walk e o1 n1 b o2 n2 := by
  intro a
  induction a with
  | nil => intro b o n o2 n2 h; exact ⟨o, n, ⟨rfl, rfl⟩, by simpa using h⟩
  | cons c cs ih =>
    intro b o n o2 n2 h
    cases c <;> simp only [Walk, List.cons_append] at h ⊢
    · obtain ⟨h1, h2, h3, h4, h5⟩ := h
      obtain ⟨o1, n1, ha, hb⟩ := ih b _ _ _ _ h5
      exact ⟨o1, n1, ⟨h1, h2, h3, h4, ha⟩, hb⟩
    · obtain ⟨h1, h2, h5⟩ := h
      obtain ⟨o1, n1, ha, hb⟩ := ih b _ _ _ _ h5
      exact ⟨o1, n1, ⟨h1, h2, ha⟩, hb⟩
    · obtain ⟨h1, h2, h5⟩ := h
      obtain ⟨o1, n1, ha, hb⟩ := ih b _ _ _ _ h5
      exact ⟨o1, n1, ⟨h1, h2, ha⟩, hb⟩
    · obtain ⟨h1, h2, h3, h4, h5⟩ := h
      obtain ⟨o1, n1, ha, hb⟩ := ih b _ _ _ _ h5
      exact ⟨o1, n1, ⟨h1, h2, h3, h4, ha⟩, hb⟩

/-- a walk never moves backwards and consumes exactly the deleted+equal old items and the
inserted+equal new items -/
theorem walk_counts {e : Nat → Nat → Bool} : ∀ (ops : List Op) (o n o' n' : Nat), Walk e o n ops o' n' →
    o' = o + nDel ops + nEq ops ∧ n' = n + nIns ops + nEq ops := by
  intro ops
  induction ops with
  | nil => intro o n o' n' h; obtain ⟨rfl, rfl⟩ := h; simp [nDel, nEq, nIns]
  | cons c cs ih =>
    intro o n o' n' h
    cases c <;> simp only [Walk] at h
    · obtain ⟨_, _, _, _, h5⟩ := h; have := ih _ _ _ _ h5; simp only [nDel, nEq, nIns]; omega
    · obtain ⟨_, _, h5⟩ := h; have := ih _ _ _ _ h5; simp only [nDel, nEq, nIns]; omega
    · obtain ⟨_, _, h5⟩ := h; have := ih _ _ _ _ h5; simp only [nDel, nEq, nIns]; omega
    · obtain ⟨_, _, _, _, h5⟩ := h; have := ih _ _ _ _ h5; simp only [nDel, nEq, nIns]; omega

/-- **Replaying the callbacks on `old` reproduces the new range**: the `k`-th item produced by the
script is `new[n+k]` itself (inserted) or an old item equal to `new[n+k]` (kept). -/
theorem walk_replay {e : Nat → Nat → Bool} : ∀ (ops : List Op) (o n o' n' : Nat), Walk e o n ops o' n' →
    (produced ops).length = n' - n ∧
    ∀ k item, (produced ops)[k]? = some item →
      (item.1 = true → item.2 = n + k) ∧ (item.1 = false → e item.2 (n + k) = true) := by
  intro ops
  induction ops with
  | nil => intro o n o' n' h; obtain ⟨rfl, rfl⟩ := h; simp [produced]
  | cons c cs ih =>
    intro o n o' n' h
    have hc := walk_counts _ _ _ _ _ h
    cases c with
    | equal co cn len =>
      simp only [Walk] at h
      obtain ⟨rfl, rfl, hl, he, h5⟩ := h
      obtain ⟨ih1, ih2⟩ := ih _ _ _ _ h5
      have hc2 := walk_counts _ _ _ _ _ h5
      refine ⟨by simp [produced, ih1]; omega, ?_⟩
      intro k item hk
      simp only [produced] at hk
      by_cases hkl : k < len
      · rw [List.getElem?_append_left (by simpa using hkl)] at hk
        simp [hkl] at hk
        subst hk
        exact ⟨by simp, fun _ => he k hkl⟩
      · rw [List.getElem?_append_right (by simpa using Nat.le_of_not_lt hkl)] at hk
        simp at hk
        have := ih2 (k - len) item hk
        constructor
        · intro h1; have := this.1 h1; omega
        · intro h1; have := this.2 h1; rwa [show cn + len + (k - len) = cn + k from by omega] at this
    | delete co len cn =>
      simp only [Walk] at h
      obtain ⟨rfl, hl, h5⟩ := h
      simpa [produced] using ih _ _ _ _ h5
    | insert co cn len =>
      simp only [Walk] at h
      obtain ⟨rfl, hl, h5⟩ := h
      obtain ⟨ih1, ih2⟩ := ih _ _ _ _ h5
      have hc2 := walk_counts _ _ _ _ _ h5
      refine ⟨by simp [produced, ih1]; omega, ?_⟩
      intro k item hk
      simp only [produced] at hk
      by_cases hkl : k < len
      · rw [List.getElem?_append_left (by simpa using hkl)] at hk
        simp [hkl] at hk
        subst hk
        exact ⟨fun _ => rfl, by simp⟩
      · rw [List.getElem?_append_right (by simpa using Nat.le_of_not_lt hkl)] at hk
        simp at hk
        have := ih2 (k - len) item hk
        constructor
        · intro h1; have := this.1 h1; omega
        · intro h1; have := this.2 h1; rwa [show cn + len + (k - len) = cn + k from by omega] at this
    | replace co ol cn nl =>
      simp only [Walk] at h
      obtain ⟨rfl, rfl, hl, hl2, h5⟩ := h
      obtain ⟨ih1, ih2⟩ := ih _ _ _ _ h5
      have hc2 := walk_counts _ _ _ _ _ h5
      refine ⟨by simp [produced, ih1]; omega, ?_⟩
      intro k item hk
      simp only [produced] at hk
      by_cases hkl : k < nl
      · rw [List.getElem?_append_left (by simpa using hkl)] at hk
        simp [hkl] at hk
        subst hk
        exact ⟨fun _ => rfl, by simp⟩
      · rw [List.getElem?_append_right (by simpa using Nat.le_of_not_lt hkl)] at hk
        simp at hk
        have := ih2 (k - nl) item hk
        constructor
        · intro h1; have := this.1 h1; omega
        · intro h1; have := this.2 h1; rwa [show cn + nl + (k - nl) = cn + k from by omega] at this

end SimilarVerif

import SimilarVerif.Lemmas.Close
import SimilarVerif.Lemmas.TextDiff
import SimilarVerif.Lemmas.MyersTheory
/-! `get_close_matches` (C18), end to end over the soft floats: the result is the exhaustive ranking of
ALL candidates by their `f32` similarity ratio — the two pre-filters are invisible.
Uses: the Myers script of a text diff is a valid walk (C02/C04, unconditional), the filter bounds and
`ratio_rnd` (Lemmas/Close.lean), the order facts of Lemmas/F32.lean. -/
namespace SimilarVerif.CloseP
open SimilarVerif Spec

/-- the model's token comparison on two token lists is `tokEq` -/
theorem eqB_ofTokens (a b : List Bytes) : eqB (Env.ofTokens a.toArray b.toArray) = tokEq a b := by
  funext i j
  simp only [eqB, Env.ofTokens, tokEq, List.getElem?_toArray]
  cases a[i]? <;> cases b[j]? <;> simp

theorem sumEqual_eq_nEq (ops : List Op) : sumEqual ops = nEq ops := by
  induction ops with
  | nil => rfl
  | cons x xs ih => cases x <;> simp [sumEqual, nEq, ih]

/-- **what the ratio of a candidate is**: `diffRatio` returns the `f32` bits of `2·matches/(|a|+|b|)`
(`F32.ratio matches len`) for a VALID script `ops` of the two token lists — the one Myers computes -/
theorem diffRatio_eq {a b : List Bytes} {r : Nat} (h : diffRatio a b = .ok r) :
    ∃ ops w', textDiffOps .myers false a.toArray b.toArray {} = .ok (ops, w') ∧
      Walk (tokEq a b) 0 0 ops a.length b.length ∧ r = F32.ratio (nEq ops) (a.length + b.length) := by
  unfold diffRatio at h
  cases hd : textDiffOps .myers false a.toArray b.toArray {} with
  | error e => simp [hd] at h
  | ok res =>
    obtain ⟨ops, w'⟩ := res
    simp only [hd] at h
    have hw := TextP.textDiff_myers_walk false a.toArray b.toArray {} w' ops (MyersT.snake_in_box _) hd
    rw [eqB_ofTokens] at hw
    simp only [List.size_toArray] at hw
    refine ⟨ops, w', rfl, hw, ?_⟩
    simp only [ratioPair, sumEqual_eq_nEq] at h
    have : 2 * nEq ops / 2 = nEq ops := by omega
    rw [this] at h
    cases h; rfl

/-- every candidate ratio is a non-negative non-NaN pattern -/
theorem diffRatio_le_inf {a b : List Bytes} {r : Nat} (h : diffRatio a b = .ok r) : r ≤ F32.inf := by
  obtain ⟨_, _, _, _, rfl⟩ := diffRatio_eq h
  exact F32.ratio_le_inf _ _

/-- … and it never exceeds `1.0` -/
theorem diffRatio_le_one {a b : List Bytes} {r : Nat} (h : diffRatio a b = .ok r) : r ≤ F32.one := by
  obtain ⟨ops, _, _, hw, rfl⟩ := diffRatio_eq h
  have := matches_le_min hw
  exact F32.ratio_le_one (by omega)

/-! ## the specification: exhaustive ranking, no pre-filters -/

/-- the similarity ratio of candidate `p` (bits of the `f32`): that of the Myers diff of the tokens of
`word` and `p`; `0` if the diff aborts (it never does without a deadline; `qualifies` excludes the case) -/
def ratioOf (tok : Bytes → List Bytes) (word p : Bytes) : Nat :=
  match diffRatio (tok word) (tok p) with
  | .error _ => 0
  | .ok r => r

/-- candidate `p` qualifies: its ratio is `>= cutoff` (IEEE comparison on the bit patterns) -/
def qualifies (tok : Bytes → List Bytes) (word : Bytes) (cutoff : Nat) (p : Bytes) : Bool :=
  match diffRatio (tok word) (tok p) with
  | .error _ => false
  | .ok r => F32.ge r cutoff

/-- **the specification of `get_close_matches`**: of ALL candidates keep those whose ratio is `>= cutoff`,
sort them by ratio descending in the IEEE `f32` order (`F32.lt`), ties by the candidate ascending in
lexicographic byte order, and take the first `n`.  No pre-filter is mentioned. -/
def exhaustiveRanking (tok : Bytes → List Bytes) (word : Bytes) (cands : List Bytes) (n : Nat) (cutoff : Nat) :
    List Bytes :=
  closeAbstract (ratioOf tok word) (qualifies tok word cutoff) F32.lt cands n

theorem ratioOf_le_inf (tok : Bytes → List Bytes) (word p : Bytes) : ratioOf tok word p ≤ F32.inf := by
  unfold ratioOf
  cases h : diffRatio (tok word) (tok p) with
  | error e => exact Nat.zero_le _
  | ok r => exact diffRatio_le_inf h

theorem keyOf_eq (tok : Bytes → List Bytes) (word p : Bytes) : keyOf tok word p = (ratioOf tok word p).toUInt32 := by
  unfold keyOf ratioOf
  cases diffRatio (tok word) (tok p) <;> rfl

/-- **the pre-filters are invisible**: a candidate passes all three tests of the implementation exactly
when its ratio meets the cutoff -/
theorem passes_eq_qualifies (tok : Bytes → List Bytes) (word : Bytes) (cutoff : Nat) :
    passes tok word cutoff = qualifies tok word cutoff := by
  funext p
  unfold passes qualifies
  cases h : diffRatio (tok word) (tok p) with
  | error e => simp
  | ok r =>
    simp only
    by_cases hg : F32.ge r cutoff = true
    · obtain ⟨ops, _, _, hw, hr⟩ := diffRatio_eq h
      obtain ⟨h1, h2⟩ := filters_never_discard_f32 hw cutoff (by rw [hr] at hg; exact hg)
      rw [h1, h2, hg]; rfl
    · have : F32.ge r cutoff = false := by simpa using hg
      rw [this]; simp

/-- **heap keys order the candidates exactly as their `f32` ratios do** (`to_bits` is monotone and
injective on the values a ratio can take): `key₁ < key₂ ↔ ratio₁ < ratio₂` in the IEEE order, and equal
keys mean equal ratios -/
theorem key_order_is_ratio_order (tok : Bytes → List Bytes) (word p₁ p₂ : Bytes) :
    (keyOf tok word p₁ < keyOf tok word p₂ ↔ F32.lt (ratioOf tok word p₁) (ratioOf tok word p₂) = true) ∧
    (keyOf tok word p₁ = keyOf tok word p₂ ↔ ratioOf tok word p₁ = ratioOf tok word p₂) := by
  rw [keyOf_eq, keyOf_eq]
  exact ⟨key_lt_iff (ratioOf_le_inf _ _ _) (ratioOf_le_inf _ _ _),
    key_eq_iff (ratioOf_le_inf _ _ _) (ratioOf_le_inf _ _ _)⟩

/-- the implementation's order on candidates (heap keys) is the specification's (ratios, IEEE `<`) -/
theorem rank_key_eq_ratio (tok : Bytes → List Bytes) (word : Bytes) :
    lexDesc u32Lt bytesLt (keyOf tok word) id = lexDesc F32.lt bytesLt (ratioOf tok word) id := by
  funext a b
  obtain ⟨h1, _⟩ := key_order_is_ratio_order tok word b a
  obtain ⟨_, h2⟩ := key_order_is_ratio_order tok word a b
  simp only [lexDesc, u32Lt]
  congr 1
  · rw [Bool.eq_iff_iff]; simpa using h1
  · congr 1
    rw [Bool.eq_iff_iff]; simpa using h2

/-- **C18, end to end**: whenever `get_close_matches` returns, the result is the exhaustive ranking:
the first `n` of ALL candidates whose `f32` ratio is `>= cutoff`, by ratio descending, then
lexicographically — for every cutoff bit pattern.  (The hypothesis only says that no diff aborted.) -/
theorem getCloseMatches_eq_exhaustive {tok : Bytes → List Bytes} {word : Bytes} {cutoff : Nat}
    {cands : List Bytes} {scored : List (UInt32 × Bytes)}
    (h : closeScored tok word cutoff cands = .ok scored) (n : Nat) :
    getCloseMatches tok word cands n cutoff = .ok (exhaustiveRanking tok word cands n cutoff) := by
  rw [getCloseMatches_eq_abstract h n]
  unfold exhaustiveRanking closeAbstract
  rw [passes_eq_qualifies, rank_key_eq_ratio]

/-- `<` on bit patterns as a Boolean strict total order -/
def natLt (a b : Nat) : Bool := decide (a < b)

theorem natLt_strictTotal : StrictTotal natLt := by
  refine ⟨?_, ?_, ?_⟩
  · intro a; simp [natLt]
  · intro a b c h1 h2; simp only [natLt, decide_eq_true_eq] at *; omega
  · intro a b; simp only [natLt, decide_eq_true_eq]; omega

/-- on ratios the IEEE order is the order of the bit patterns -/
theorem rank_ratio_eq_nat (tok : Bytes → List Bytes) (word : Bytes) :
    lexDesc F32.lt bytesLt (ratioOf tok word) id = lexDesc natLt bytesLt (ratioOf tok word) id := by
  funext a b
  simp only [lexDesc, natLt]
  congr 1
  rw [Bool.eq_iff_iff, F32.lt_iff (ratioOf_le_inf _ _ _) (ratioOf_le_inf _ _ _)]
  simp

/-- the specification is well defined: the ranking is a strict total order on candidates, so
`exhaustiveRanking` is the cut at `n` of THE sorted arrangement of the qualifying candidates -/
theorem exhaustiveRanking_spec (tok : Bytes → List Bytes) (word : Bytes) (cands : List Bytes) (n : Nat)
    (cutoff : Nat) :
    StrictTotal (lexDesc F32.lt bytesLt (ratioOf tok word) id) ∧
    ∃ full, exhaustiveRanking tok word cands n cutoff = full.take n ∧
      full.Perm (cands.filter (qualifies tok word cutoff)) ∧
      SortedBy (lexDesc F32.lt bytesLt (ratioOf tok word) id) full ∧
      ∀ l, l.Perm (cands.filter (qualifies tok word cutoff)) →
        SortedBy (lexDesc F32.lt bytesLt (ratioOf tok word) id) l → l = full := by
  unfold exhaustiveRanking closeAbstract
  rw [rank_ratio_eq_nat]
  exact ⟨rank_strictTotal natLt_strictTotal _,
    closeAbstract_spec natLt_strictTotal (ratioOf tok word) (qualifies tok word cutoff) cands n⟩

/-- if no diff aborts, scoring succeeds (so the hypothesis of `getCloseMatches_eq_exhaustive` holds) -/
theorem closeScored_ok (tok : Bytes → List Bytes) (word : Bytes) (cutoff : Nat) :
    ∀ cands : List Bytes, (∀ p ∈ cands, ∃ r, diffRatio (tok word) (tok p) = .ok r) →
      ∃ scored, closeScored tok word cutoff cands = .ok scored := by
  intro cands
  induction cands with
  | nil => intro _; exact ⟨[], rfl⟩
  | cons p ps ih =>
    intro hall
    obtain ⟨rest, hr⟩ := ih (fun q hq => hall q (List.mem_cons_of_mem _ hq))
    obtain ⟨r, hd⟩ := hall p List.mem_cons_self
    unfold closeScored
    simp only [hr, hd]
    split
    · exact ⟨_, rfl⟩
    · split <;> exact ⟨_, rfl⟩

/-! ## non-vacuity: a concrete run (word "ab"; candidates "ac", "ab", "xy"; cutoff 0.5; one token per byte) -/

def byteTok (b : Bytes) : List Bytes := b.map (fun c => [c])

theorem ok_of_toOption {ε α : Type} {x : Except ε α} {a : α} (h : x.toOption = some a) : x = .ok a := by
  cases x with
  | error e => cases h
  | ok v => cases h; rfl

/-- scoring succeeds: "ac" scores `0.5`, "ab" scores `1.0`, "xy" is dropped … -/
example : closeScored byteTok [97, 98] F32.half [[97, 99], [97, 98], [120, 121]] =
    .ok [(F32.half.toUInt32, [97, 99]), (F32.one.toUInt32, [97, 98])] := ok_of_toOption (by decide +kernel)

/-- … so the hypothesis of `getCloseMatches_eq_exhaustive` holds and the result is the ranking "ab", "ac" -/
example : getCloseMatches byteTok [97, 98] [[97, 99], [97, 98], [120, 121]] 5 F32.half = .ok [[97, 98], [97, 99]] := by
  rw [getCloseMatches_eq_exhaustive (scored := [(F32.half.toUInt32, [97, 99]), (F32.one.toUInt32, [97, 98])])
    (ok_of_toOption (by decide +kernel)) 5]
  exact congrArg Except.ok (by decide +kernel)

/-- the ratios behind it, and a NaN cutoff: nothing qualifies -/
example : ratioOf byteTok [97, 98] [97, 99] = F32.half ∧ ratioOf byteTok [97, 98] [97, 98] = F32.one ∧
    ratioOf byteTok [97, 98] [120, 121] = 0 ∧
    exhaustiveRanking byteTok [97, 98] [[97, 99], [97, 98], [120, 121]] 5 0x7FC00000 = [] := by decide +kernel

example : keyOf byteTok [97, 98] [97, 99] < keyOf byteTok [97, 98] [97, 98] :=
  (key_order_is_ratio_order byteTok [97, 98] [97, 99] [97, 98]).1.2 (by decide +kernel)

end SimilarVerif.CloseP

import SimilarVerif.Spec.UdiffParse
import SimilarVerif.Lemmas.Udiff
import SimilarVerif.Lemmas.Tokenize
/-!
# C05, first sentence: the printed unified diff parses back to the structured hunks

`Spec/UdiffParse.lean` is a strict reader of unified-diff bytes, written from the format.  Here: what
`renderSHunk true true false` (newline-terminated line diff with the missing-newline hint, raw bytes – the
`to_writer` path of a default line diff) prints for well-formed hunks is read back as exactly these hunks
(`parse_render`), hence so is the output of `renderUnified` (`parse_renderUnified`).

Steps: (i) `parseNat_natBytes`, (ii) `parseRange_hunkRange`, (iii) `parseHunkHeader_render`,
(iv) `parseLineText_render`, (v) `parseHunk_render`, (vi) `parseHunks_render`, `parse_render`.
-/
namespace SimilarVerif.UdiffParseP
open SimilarVerif Spec UdiffP

/-! ## prefixes -/

theorem lit_eq_ascii (s : String) : lit s = ascii s := rfl

theorem expect_append : ∀ (p r : Bytes), expect p (p ++ r) = some r
  | [], r => by cases r <;> rfl
  | x :: p, r => by simp only [List.cons_append, expect, if_true]; exact expect_append p r

/-- a first byte that differs is enough to reject -/
theorem expect_head_ne (x : UInt8) (p r : Bytes) (h : r.head? ≠ some x) : expect (x :: p) r = none := by
  cases r with
  | nil => rfl
  | cons y r =>
    have : x ≠ y := by rintro rfl; exact h rfl
    simp only [expect, if_neg this]

/-! ## (i) numbers -/

/-- the value of a digit string, continuing from `acc` -/
def digitsVal (acc : Nat) (xs : Bytes) : Nat := xs.foldl (fun a x => a * 10 + (x.toNat - 48)) acc

theorem digitChar_byte : ∀ k, k < 10 →
    isDigit (Nat.digitChar k).toNat.toUInt8 = true ∧ ((Nat.digitChar k).toNat.toUInt8).toNat - 48 = k := by
  decide

theorem natBytes_eq_if (n : Nat) :
    natBytes n = if n < 10 then [(Nat.digitChar n).toNat.toUInt8]
      else natBytes (n / 10) ++ [(Nat.digitChar (n % 10)).toNat.toUInt8] := by
  unfold natBytes
  rw [Nat.toDigits_eq_if (by omega)]
  split <;> simp

/-- `natBytes n` consists of digits and its value is `n` -/
theorem natBytes_digits (n : Nat) : (∀ x ∈ natBytes n, isDigit x = true) ∧ digitsVal 0 (natBytes n) = n := by
  induction n using Nat.strongRecOn with
  | _ n ih =>
    rw [natBytes_eq_if]
    split
    · rename_i h
      have := digitChar_byte n h
      refine ⟨by simpa using this.1, ?_⟩
      simp only [digitsVal, List.foldl_cons, List.foldl_nil, Nat.zero_mul, Nat.zero_add]
      exact this.2
    · rename_i h
      have ⟨i1, i2⟩ := ih (n / 10) (by omega)
      have := digitChar_byte (n % 10) (Nat.mod_lt _ (by omega))
      refine ⟨?_, ?_⟩
      · intro x hx
        rcases List.mem_append.mp hx with hx | hx
        · exact i1 x hx
        · simp only [List.mem_singleton] at hx; subst hx; exact this.1
      · simp only [digitsVal] at i2 ⊢
        rw [List.foldl_append, i2]
        simp only [List.foldl_cons, List.foldl_nil, this.2]
        omega

theorem natBytes_ne_nil (n : Nat) : natBytes n ≠ [] := by
  simp [natBytes, Nat.toDigits_ne_nil]

theorem digitsGo_append : ∀ (xs rest : Bytes) (acc : Nat), (∀ x ∈ xs, isDigit x = true) →
    digitsGo acc (xs ++ rest) = digitsGo (digitsVal acc xs) rest
  | [], _, _, _ => rfl
  | x :: xs, rest, acc, h => by
    simp only [List.cons_append, digitsGo, h x (by simp), if_true]
    exact digitsGo_append xs rest _ (fun y hy => h y (by simp [hy]))

/-- what may follow a number: the end of the input or a non-digit -/
def NoDigit (rest : Bytes) : Prop := ∀ x, rest.head? = some x → isDigit x = false

theorem digitsGo_stop (acc : Nat) (rest : Bytes) (h : NoDigit rest) : digitsGo acc rest = (acc, rest) := by
  cases rest with
  | nil => rfl
  | cons x xs => simp only [digitsGo, h x rfl]; rfl

/-- **(i)** a printed number, followed by something that is not a digit, is read back -/
theorem parseNat_natBytes (n : Nat) (rest : Bytes) (h : NoDigit rest) :
    parseNat (natBytes n ++ rest) = some (n, rest) := by
  obtain ⟨h1, h2⟩ := natBytes_digits n
  cases hb : natBytes n with
  | nil => exact absurd hb (natBytes_ne_nil n)
  | cons x xs =>
    rw [hb] at h1
    simp only [List.cons_append, parseNat, h1 x (by simp), if_true]
    rw [← List.cons_append, digitsGo_append _ _ _ h1, ← hb, h2, digitsGo_stop _ _ h]

/-! ## (ii) ranges -/

theorem noDigit_cons (x : UInt8) (r : Bytes) (h : isDigit x = false) : NoDigit (x :: r) := by
  intro y hy; simp only [List.head?_cons, Option.some.injEq] at hy; subst hy; exact h

/-- the three printed forms, as a reader sees them -/
theorem hunkRange_cases (s e : Nat) (h : s ≤ e) :
    (e = s + 1 ∧ hunkRange s e = natBytes (s + 1)) ∨
    (e = s ∧ hunkRange s e = natBytes s ++ 44 :: natBytes 0) ∨
    (2 ≤ e - s ∧ hunkRange s e = natBytes (s + 1) ++ 44 :: natBytes (e - s)) := by
  obtain ⟨f1, f0, f2⟩ := hunkRange_format s e
  have hc : ascii "," = [44] := by decide
  by_cases h1 : e - s = 1
  · exact Or.inl ⟨by omega, f1 h1⟩
  · by_cases h0 : e - s = 0
    · exact Or.inr (Or.inl ⟨by omega, by rw [f0 h0, hc]; simp⟩)
    · exact Or.inr (Or.inr ⟨by omega, by rw [f2 (by omega), hc]; simp⟩)

/-- **(ii)** a printed range `[s, e)`, `s ≤ e`, followed by neither a digit nor a comma, is read back -/
theorem parseRange_hunkRange (s e : Nat) (rest : Bytes) (hse : s ≤ e) (hd : NoDigit rest)
    (hc : rest.head? ≠ some 44) : parseRange (hunkRange s e ++ rest) = some ((s, e), rest) := by
  have hl : lit "," = [44] := by decide
  have h44 : ∀ r, NoDigit (44 :: r) := fun r => noDigit_cons 44 r (by decide)
  unfold parseRange
  rcases hunkRange_cases s e hse with ⟨he, hr⟩ | ⟨he, hr⟩ | ⟨he, hr⟩
  · rw [hr, parseNat_natBytes _ _ hd]
    simp only [hl, expect_head_ne 44 [] rest hc]
    subst he; simp
  · simp only [hr, List.append_assoc, List.cons_append]
    rw [parseNat_natBytes _ _ (h44 _)]
    simp only [hl, expect, if_true, parseNat_natBytes 0 rest hd]
    subst he; simp
  · simp only [hr, List.append_assoc, List.cons_append]
    rw [parseNat_natBytes _ _ (h44 _)]
    simp only [hl, expect, if_true, parseNat_natBytes (e - s) rest hd]
    rw [if_neg (by omega), if_neg (by omega)]
    congr 3; omega

/-! ## (iii) the header line -/

/-- the header line of a hunk as printed -/
def headerLine (h : SHunk) : Bytes :=
  ascii "@@ -" ++ hunkRange h.oS h.oE ++ ascii " +" ++ hunkRange h.nS h.nE ++ ascii " @@" ++ [10]

/-- **(iii)** the printed header line is read back as the two ranges -/
theorem parseHunkHeader_render (h : SHunk) (rest : Bytes) (ho : h.oS ≤ h.oE) (hn : h.nS ≤ h.nE) :
    parseHunkHeader (headerLine h ++ rest) = some ((h.oS, h.oE), (h.nS, h.nE), rest) := by
  have e1 : headerLine h ++ rest = lit "@@ -" ++ (hunkRange h.oS h.oE ++ (lit " +" ++
      (hunkRange h.nS h.nE ++ (lit " @@\n" ++ rest)))) := by
    have : ascii " @@\n" = ascii " @@" ++ [10] := by decide
    simp only [headerLine, lit_eq_ascii, this, List.append_assoc]
  have hsp : ∀ (p : String) (r : Bytes), (lit p).head? = some 32 →
      NoDigit (lit p ++ r) ∧ (lit p ++ r).head? ≠ some 44 := by
    intro p r hp
    cases hlp : lit p with
    | nil => rw [hlp] at hp; simp at hp
    | cons x xs =>
      rw [hlp] at hp; simp only [List.head?_cons, Option.some.injEq] at hp; subst hp
      exact ⟨noDigit_cons _ _ (by decide), by simp⟩
  obtain ⟨a1, a2⟩ := hsp " +" (hunkRange h.nS h.nE ++ (lit " @@\n" ++ rest)) (by decide)
  obtain ⟨b1, b2⟩ := hsp " @@\n" rest (by decide)
  rw [e1]
  unfold parseHunkHeader
  simp only [expect_append, parseRange_hunkRange _ _ _ ho a1 a2, parseRange_hunkRange _ _ _ hn b1 b2]

/-! ## (iv) one body line -/

/-- a line: no line break inside, at most one terminator `⏎`, `\r⏎`, `\r` at the end.  This is the shape
of the tokens of a line diff (`TokP.LineTok`, without the clause about the next token). -/
def IsLine (v : Bytes) : Prop :=
  ∃ body term, v = body ++ term ∧ (∀ x ∈ body, x ≠ 10 ∧ x ≠ 13) ∧
    (term = [10] ∨ term = [13, 10] ∨ term = [13] ∨ term = [])

theorem isLine_of_lineTok {v : Bytes} {next : Option Bytes} (h : TokP.LineTok v next) : IsLine v := by
  obtain ⟨body, term, h1, h2, h3⟩ := h
  refine ⟨body, term, h1, h2, ?_⟩
  rcases h3 with h | h | ⟨h, _⟩ | ⟨h, _⟩
  · exact Or.inl h
  · exact Or.inr (Or.inl h)
  · exact Or.inr (Or.inr (Or.inl h))
  · exact Or.inr (Or.inr (Or.inr h))

/-- what may follow a body line: the end of the input, or a byte that is neither `⏎` (it would join a
final `\r`) nor `\` (it would start the marker) -/
def GoodRest (r : Bytes) : Prop := r.head? ≠ some 10 ∧ r.head? ≠ some 92

theorem scanLine_body : ∀ (body r l r' : Bytes), (∀ x ∈ body, x ≠ 10 ∧ x ≠ 13) →
    scanLine r = some (l, r') → scanLine (body ++ r) = some (body ++ l, r')
  | [], _, _, _, _, h => h
  | x :: body, r, l, r', hb, h => by
    have hx := hb x (by simp)
    simp only [List.cons_append, scanLine, if_neg hx.1, if_neg hx.2,
      scanLine_body body r l r' (fun y hy => hb y (by simp [hy])) h]

theorem scanLine_lf (r : Bytes) : scanLine (10 :: r) = some ([10], r) := by simp [scanLine]

theorem scanLine_crlf (r : Bytes) : scanLine (13 :: 10 :: r) = some ([13, 10], r) := by simp [scanLine]

theorem scanLine_cr (r : Bytes) (h : r.head? ≠ some 10) : scanLine (13 :: r) = some ([13], r) := by
  cases r with
  | nil => simp [scanLine]
  | cons y ys =>
    have : y ≠ 10 := by rintro rfl; exact h rfl
    simp [scanLine, this]

/-- what follows the text of a line: nothing, or – when the text has no newline of its own – `⏎` and the
marker line -/
def lineSuffix (v : Bytes) : Bytes := if endsWithNewline v then [] else 10 :: noNewlineMarker

theorem renderLine_eq (l : CTag × Bytes) :
    renderLine true true false l = tagByte l.1 :: (l.2 ++ lineSuffix l.2) := by
  have : ascii "\n\\ No newline at end of file" ++ [10] = 10 :: noNewlineMarker := by decide
  simp only [renderLine, lineSuffix]
  cases endsWithNewline l.2 <;> simp [this]

theorem marker_absent (r : Bytes) (h : r.head? ≠ some 92) : expect noNewlineMarker r = none := by
  have : noNewlineMarker = 92 :: lit " No newline at end of file\n" := by decide
  rw [this]; exact expect_head_ne 92 _ r h

theorem endsWithNewline_body (body : Bytes) (h : ∀ x ∈ body, x ≠ 10 ∧ x ≠ 13) : endsWithNewline body = false := by
  unfold endsWithNewline
  cases hl : body.getLast? with
  | none => rfl
  | some x =>
    have := h x (List.mem_of_getLast? hl)
    simp [this.1, this.2]

/-- **(iv)** the text of a printed body line, followed by something that cannot be confused with its
end, is read back -/
theorem parseLineText_render (v r : Bytes) (hv : IsLine v) (hr : GoodRest r) :
    parseLineText (v ++ lineSuffix v ++ r) = some (v, r) := by
  obtain ⟨body, term, rfl, hb, ht⟩ := hv
  unfold parseLineText
  rcases ht with rfl | rfl | rfl | rfl
  · have : lineSuffix (body ++ [10]) = [] := by simp [lineSuffix, endsWithNewline]
    simp only [this, List.append_nil, List.append_assoc, List.cons_append, List.nil_append]
    rw [scanLine_body body _ _ _ hb (scanLine_lf r)]
    simp [marker_absent r hr.2]
  · have : lineSuffix (body ++ [13, 10]) = [] := by simp [lineSuffix, endsWithNewline]
    simp only [this, List.append_nil, List.append_assoc, List.cons_append, List.nil_append]
    rw [scanLine_body body _ _ _ hb (scanLine_crlf r)]
    simp [marker_absent r hr.2]
  · have : lineSuffix (body ++ [13]) = [] := by simp [lineSuffix, endsWithNewline]
    simp only [this, List.append_nil, List.append_assoc, List.cons_append, List.nil_append]
    rw [scanLine_body body _ _ _ hb (scanLine_cr r hr.1)]
    simp
  · have : lineSuffix body = 10 :: noNewlineMarker := by
      simp [lineSuffix, endsWithNewline_body body hb]
    simp only [this, List.append_nil, List.append_assoc, List.cons_append]
    rw [scanLine_body body _ _ _ hb (scanLine_lf _)]
    simp [expect_append]

/-! ## (v) a hunk -/

/-- numbers of old-side (` `/`-`) and new-side (` `/`+`) lines of a body -/
def oldCount (ls : List (CTag × Bytes)) : Nat := ls.countP fun l => l.1 != .insert
def newCount (ls : List (CTag × Bytes)) : Nat := ls.countP fun l => l.1 != .delete

theorem parseTag_tagByte (t : CTag) : parseTag (tagByte t) = some t := by cases t <;> decide

theorem goodRest_tag (t : CTag) (r : Bytes) : GoodRest (tagByte t :: r) := by
  cases t <;> simp [GoodRest, tagByte]

theorem goodRest_lines (ls : List (CTag × Bytes)) (r : Bytes) (hr : GoodRest r) :
    GoodRest (ls.flatMap (renderLine true true false) ++ r) := by
  cases ls with
  | nil => exact hr
  | cons l ls => rw [List.flatMap_cons, renderLine_eq]; exact goodRest_tag _ _

/-- the body lines as printed, read with the counts of the body, give the body back -/
theorem parseBody_render : ∀ (ls : List (CTag × Bytes)) (r : Bytes), (∀ l ∈ ls, IsLine l.2) → GoodRest r →
    parseBody (oldCount ls) (newCount ls) (ls.flatMap (renderLine true true false) ++ r) = some (ls, r)
  | [], r, _, _ => by rw [parseBody.eq_def]; simp [oldCount, newCount]
  | (t, v) :: ls, r, hl, hr => by
    have ih := parseBody_render ls r (fun l h => hl l (by simp [h])) hr
    have hp := parseLineText_render v _ (hl (t, v) (by simp)) (goodRest_lines ls r hr)
    rw [parseBody.eq_def, List.flatMap_cons, renderLine_eq]
    simp only [List.cons_append, List.append_assoc, parseTag_tagByte]
    rw [← List.append_assoc, hp]
    cases t
    · simp only [oldCount, newCount, List.countP_cons, ctag_bne] at ih ⊢
      simp [ih]
    · simp only [oldCount, newCount, List.countP_cons, ctag_bne] at ih ⊢
      simp [ih]
    · simp only [oldCount, newCount, List.countP_cons, ctag_bne] at ih ⊢
      simp [ih]

/-- the side conditions under which the printed form determines the hunk: ordered ranges, header counts
equal to the body counts (`UdiffP.header_counts`), body texts that are lines -/
structure WFHunk (h : SHunk) : Prop where
  old_le : h.oS ≤ h.oE
  new_le : h.nS ≤ h.nE
  old_count : oldCount h.body = h.oE - h.oS
  new_count : newCount h.body = h.nE - h.nS
  lines : ∀ l ∈ h.body, IsLine l.2

theorem renderSHunk_eq (h : SHunk) :
    renderSHunk true true false h = headerLine h ++ h.body.flatMap (renderLine true true false) := rfl

/-- **(v)** a printed hunk is read back -/
theorem parseHunk_render (h : SHunk) (r : Bytes) (hw : WFHunk h) (hr : GoodRest r) :
    parseHunk (renderSHunk true true false h ++ r) = some (h, r) := by
  unfold parseHunk
  rw [renderSHunk_eq, List.append_assoc, parseHunkHeader_render h _ hw.old_le hw.new_le]
  simp only [← hw.old_count, ← hw.new_count, parseBody_render h.body r hw.lines hr]

/-! ## (vi) the whole diff -/

theorem renderSHunk_head (h : SHunk) : ∃ t, renderSHunk true true false h = 64 :: t := by
  have : ascii "@@ -" = [64, 64, 32, 45] := by decide
  refine ⟨[64, 32, 45] ++ hunkRange h.oS h.oE ++ ascii " +" ++ hunkRange h.nS h.nE ++ ascii " @@" ++ [10] ++
    h.body.flatMap (renderLine true true false), ?_⟩
  simp only [renderSHunk, this, List.cons_append, List.append_assoc, List.nil_append]

theorem goodRest_hunks (hs : List SHunk) : GoodRest (hs.flatMap (renderSHunk true true false)) := by
  cases hs with
  | nil => simp [GoodRest]
  | cons h hs =>
    obtain ⟨t, ht⟩ := renderSHunk_head h
    simp [GoodRest, ht]

theorem parseHunks_render : ∀ (hs : List SHunk) (fuel : Nat), hs.length ≤ fuel → (∀ h ∈ hs, WFHunk h) →
    parseHunks fuel (hs.flatMap (renderSHunk true true false)) = some hs
  | [], fuel, _, _ => by cases fuel <;> rfl
  | h :: hs, 0, hf, _ => by simp at hf
  | h :: hs, fuel + 1, hf, hw => by
    have ih := parseHunks_render hs fuel (by simpa using hf) (fun x hx => hw x (by simp [hx]))
    obtain ⟨t, ht⟩ := renderSHunk_head h
    have e : (h :: hs).flatMap (renderSHunk true true false) =
        64 :: (t ++ hs.flatMap (renderSHunk true true false)) := by simp [ht]
    rw [e, parseHunks, ← List.cons_append, ← ht,
      parseHunk_render h _ (hw h (by simp)) (goodRest_hunks hs)]
    simp only [ih]

theorem hunks_length (hs : List SHunk) : hs.length ≤ (hs.flatMap (renderSHunk true true false)).length := by
  induction hs with
  | nil => simp
  | cons h hs ih =>
    obtain ⟨t, ht⟩ := renderSHunk_head h
    simp only [List.flatMap_cons, List.length_append, List.length_cons, ht]; omega

theorem untilNewline_line : ∀ (a r : Bytes), (∀ x ∈ a, x ≠ 10) → untilNewline (a ++ 10 :: r) = some (a, r)
  | [], r, _ => by simp [untilNewline]
  | x :: a, r, h => by
    simp only [List.cons_append, untilNewline, if_neg (h x (by simp)),
      untilNewline_line a r (fun y hy => h y (by simp [hy]))]

/-- file names that do not contain a newline -/
def GoodNames : Option (Bytes × Bytes) → Prop
  | some (a, b) => (∀ x ∈ a, x ≠ 10) ∧ (∀ x ∈ b, x ≠ 10)
  | none => True

theorem parseFileHeader_render (header : Option (Bytes × Bytes)) (hs : List SHunk) (hn : GoodNames header) :
    parseFileHeader (fileHeader header ++ hs.flatMap (renderSHunk true true false)) =
      some (header, hs.flatMap (renderSHunk true true false)) := by
  unfold parseFileHeader
  cases header with
  | none =>
    have : lit "--- " = 45 :: lit "-- " := by decide
    have hne : (hs.flatMap (renderSHunk true true false)).head? ≠ some 45 := by
      cases hs with
      | nil => simp
      | cons h hs => obtain ⟨t, ht⟩ := renderSHunk_head h; simp [ht]
    simp only [fileHeader, List.nil_append, this, expect_head_ne 45 _ _ hne]
  | some ab =>
    obtain ⟨a, b⟩ := ab
    obtain ⟨ha, hb⟩ := hn
    have e : fileHeader (some (a, b)) ++ hs.flatMap (renderSHunk true true false) =
        lit "--- " ++ (a ++ 10 :: (lit "+++ " ++ (b ++ 10 :: hs.flatMap (renderSHunk true true false)))) := by
      simp [fileHeader, lit_eq_ascii]
    rw [e]
    simp only [expect_append, untilNewline_line _ _ ha, untilNewline_line _ _ hb]

/-- **(vi) The printed diff parses back.**  What the `to_writer` path of a newline-terminated diff with
the missing-newline hint prints for well-formed hunks – the file header, if any, and the hunks – is read by
the strict reader as exactly this header and these hunks: same ranges, same body lines (tag and bytes). -/
theorem parse_render (header : Option (Bytes × Bytes)) (hs : List SHunk) (hn : GoodNames header)
    (hw : ∀ h ∈ hs, WFHunk h) :
    parseUnified (fileHeader header ++ hs.flatMap (renderSHunk true true false)) = some (header, hs) := by
  unfold parseUnified
  rw [parseFileHeader_render header hs hn]
  simp only [parseHunks_render hs _ (hunks_length hs) hw]

/-! ## the renderer's output parses back -/

theorem lineOf_spec {old new : Array Bytes} {c : Change} {l : CTag × Bytes} (h : lineOf old new c = some l) :
    l.1 = c.tag ∧ (l.2 ∈ old ∨ l.2 ∈ new) := by
  unfold lineOf at h
  split at h
  · rename_i v hv
    simp only [Option.some.injEq] at h; subst h
    refine ⟨rfl, ?_⟩
    split at hv
    · exact Or.inr (Array.mem_of_getElem? hv)
    · exact Or.inl (Array.mem_of_getElem? hv)
  · simp at h

theorem bodyOf_spec {old new : Array Bytes} : ∀ (cs : List Change) (body : List (CTag × Bytes)),
    bodyOf old new cs = some body →
    body.map (·.1) = cs.map (·.tag) ∧ ∀ l ∈ body, l.2 ∈ old ∨ l.2 ∈ new := by
  intro cs
  induction cs with
  | nil => intro body h; simp only [bodyOf, Option.some.injEq] at h; subst h; simp
  | cons c cs ih =>
    intro body h
    simp only [bodyOf] at h
    split at h
    · rename_i l ls h1 h2
      simp only [Option.some.injEq] at h; subst h
      obtain ⟨i1, i2⟩ := ih ls h2
      obtain ⟨j1, j2⟩ := lineOf_spec h1
      refine ⟨by simp [i1, j1], ?_⟩
      intro x hx
      rcases List.mem_cons.mp hx with rfl | hx
      · exact j2
      · exact i2 x hx
    · simp at h

theorem body_counts {old new : Array Bytes} {cs : List Change} {body : List (CTag × Bytes)}
    (h : bodyOf old new cs = some body) :
    oldCount body = cs.countP isOld ∧ newCount body = cs.countP isNew := by
  have hm := (bodyOf_spec cs body h).1
  have e1 : oldCount body = (body.map (·.1)).countP (· != .insert) := by
    simp only [oldCount, List.countP_map]; rfl
  have e2 : newCount body = (body.map (·.1)).countP (· != .delete) := by
    simp only [newCount, List.countP_map]; rfl
  rw [e1, e2, hm]
  simp only [List.countP_map]
  exact ⟨rfl, rfl⟩

theorem hunksOf_mem {old new : Array Bytes} : ∀ (gs : List (List Op)) (hs : List SHunk),
    hunksOf old new gs = some hs → ∀ h ∈ hs, ∃ g ∈ gs, hunkOf old new g = some h := by
  intro gs
  induction gs with
  | nil => intro hs hh h hm; simp only [hunksOf, Option.some.injEq] at hh; subst hh; simp at hm
  | cons g gs ih =>
    intro hs hh h hm
    obtain ⟨h0, hs', h1, h2, rfl⟩ := hunksOf_cons hh
    rcases List.mem_cons.mp hm with rfl | hm
    · exact ⟨g, by simp, h1⟩
    · obtain ⟨g', hg', hh'⟩ := ih hs' h2 h hm
      exact ⟨g', by simp [hg'], hh'⟩

/-- the hunks of an exact valid script over lines are well-formed -/
theorem wf_hunks (old new : Array Bytes) (e : Nat → Nat → Bool) (ops : List Op) (n : Nat)
    (hw : Walk e 0 0 ops old.size new.size) (hx : Exact 0 0 ops)
    (hlo : ∀ v ∈ old, IsLine v) (hln : ∀ v ∈ new, IsLine v) (hs : List SHunk)
    (hh : hunksOf old new ((groupDiffOps ops n).filter fun g => !g.isEmpty) = some hs) :
    ∀ h ∈ hs, WFHunk h := by
  intro h hm
  obtain ⟨g, hg, hgh⟩ := hunksOf_mem _ hs hh h hm
  obtain ⟨f, l, hf, hl, c1, _, c2, _, c3, c4, _, _⟩ := header_counts e ops n _ _ hw hx g hg
  obtain ⟨f', l', body, hf', hl', hb, rfl⟩ := hunkOf_some hgh
  rw [hf] at hf'; rw [hl] at hl'
  simp only [Option.some.injEq] at hf' hl'; subst hf' hl'
  obtain ⟨b1, b2⟩ := body_counts hb
  exact ⟨c1, c2, by rw [b1, c3], by rw [b2, c4], fun x hx =>
    (bodyOf_spec _ _ hb).2 x hx |>.elim (hlo _) (hln _)⟩

/-- the tokens of the line tokenizer are lines -/
theorem isLine_tokens (b : Bytes) : ∀ v ∈ ((tokenizeLinesB b).map (slice b)).toArray, IsLine v := by
  intro v hv
  obtain ⟨i, hi, rfl⟩ := List.getElem_of_mem (List.mem_toArray.mp hv)
  exact isLine_of_lineTok (TokP.tokenizeLinesB_tokens b i hi)

/-- **C05, first sentence.**  For an exact valid alternating script over lines (`IsLine`: the tokens of a
line diff) and file names without newline, the raw (`to_writer`) output of the newline-terminated renderer
with hint PARSES – with the strict reader of `Spec/UdiffParse.lean` – as the file header (present iff there
is a hunk) and exactly the structured hunks of the script: same ranges, same body lines.  The counts of
each header are the numbers of old-side and new-side lines of its body, and (from `render_unified`)
strictly applying the parsed hunks to the old lines yields the new lines. -/
theorem parse_renderUnified (old new : Array Bytes) (e : Nat → Nat → Bool) (he : Sound old new e)
    (ops : List Op) (n : Nat) (header : Option (Bytes × Bytes))
    (hw : Walk e 0 0 ops old.size new.size) (hx : Exact 0 0 ops) (hv : AltOps ops)
    (hn : GoodNames header) (hlo : ∀ v ∈ old, IsLine v) (hln : ∀ v ∈ new, IsLine v) :
    ∃ hs out, hunksOf old new ((groupDiffOps ops n).filter fun g => !g.isEmpty) = some hs ∧
      renderUnified n header ops old new true true false = .ok out ∧
      parseUnified out = some (if hs = [] then none else header, hs) ∧
      (∀ h ∈ hs, oldCount h.body = h.oE - h.oS ∧ newCount h.body = h.nE - h.nS) ∧
      applyHunks old hs = some new.toList := by
  obtain ⟨hs, h1, h2, h3⟩ := render_unified old new e he ops n header true true false hw hx hv
  have hwf := wf_hunks old new e ops n hw hx hlo hln hs h1
  refine ⟨hs, _, h1, h3, ?_, fun h hm => ⟨(hwf h hm).old_count, (hwf h hm).new_count⟩, h2⟩
  by_cases hnil : hs = []
  · subst hnil
    simpa [fileHeader] using parse_render none [] trivial (by simp)
  · simp only [if_neg hnil]
    exact parse_render header hs hn hwf

end SimilarVerif.UdiffParseP

import SimilarVerif.Props.Headline.C09
import SimilarVerif.Props.C13
import SimilarVerif.Lemmas.TextDiff
import SimilarVerif.Model.Helpers
/-! `similar::utils::diff_slices` (`Model/Helpers.lean`, `utilsDiffSlices`): the one-call helper on caller-provided
slices is `capture_diff_slices` followed by `DiffOp::iter_slices` of every op.  It returns for every algorithm and
clock, no returned slice is empty, and the slices cover both inputs consecutively. -/
namespace SimilarVerif.SliceHelper
open SimilarVerif Spec

/-- slice-wise expansion of a whole op list = item-wise expansion of the list -/
theorem flatMap_iterSlices_items (ops : List Op) :
    (ops.flatMap iterSlices).flatMap C13.sliceItems = (allChanges ops).map fun c => (c.tag, c.fromNew, c.idx) := by
  rw [C13.allChanges_eq_flatMap]
  induction ops with
  | nil => simp
  | cons x xs ih =>
    simp only [List.flatMap_cons, List.flatMap_append, List.map_append]
    rw [ih, C13.iterSlices_items]

/-- the slices of an op that is not empty and, if a Replace, has a deleted and an inserted part, are not empty -/
theorem iterSlices_nonempty (x : Op) (hx : x.isEmpty = false)
    (hr : ∀ o ol n nl, x = .replace o ol n nl → 0 < ol ∧ 0 < nl) :
    ∀ s ∈ iterSlices x, s.2.2.1 < s.2.2.2 := by
  intro s hs
  cases x with
  | equal o n l => simp [iterSlices] at hs; subst hs; simp [Op.isEmpty, Op.oLen, Op.nLen] at hx ⊢; omega
  | delete o l n => simp [iterSlices] at hs; subst hs; simp [Op.isEmpty, Op.oLen, Op.nLen] at hx ⊢; omega
  | insert o n l => simp [iterSlices] at hs; subst hs; simp [Op.isEmpty, Op.oLen, Op.nLen] at hx ⊢; omega
  | replace o ol n nl =>
    obtain ⟨h1, h2⟩ := hr o ol n nl rfl
    simp [iterSlices] at hs
    rcases hs with rfl | rfl <;> simp <;> omega

/-- **`diff_slices` returns, no slice is empty, and the slices expand to exactly the items of the captured ops,
whose old / new indices count both inputs consecutively** (every algorithm, every clock) -/
theorem utilsDiffSlices_total (alg : Alg) (E : Env) (n m : Nat) (w : World) (hr : Headline.RangesInBounds E 0 n 0 m) :
    ∃ ops w', captureDiff alg E false 0 n 0 m w = .ok (ops, w') ∧ Walk (eqB E) 0 0 ops n m ∧
      utilsDiffSlices alg E n m w = .ok (ops.flatMap iterSlices) ∧
      (∀ s ∈ ops.flatMap iterSlices, s.2.2.1 < s.2.2.2) ∧
      (ops.flatMap iterSlices).flatMap C13.sliceItems = (allChanges ops).map (fun c => (c.tag, c.fromNew, c.idx)) ∧
      (allChanges ops).filterMap (·.oldIndex) = List.range n ∧
      (allChanges ops).filterMap (·.newIndex) = List.range m := by
  obtain ⟨ops, w', hc, hw, -, hne, ⟨-, hrep⟩, -, -⟩ :=
    (Headline.C09_statement alg E false 0 n 0 m w).1 hr.old_le hr.new_le hr.cross (fun _ => ⟨hr.oldSide, hr.newSide⟩)
  refine ⟨ops, w', hc, hw, ?_, ?_, flatMap_iterSlices_items ops, ?_, ?_⟩
  · simp only [utilsDiffSlices, hc]
  · intro s hs
    obtain ⟨x, hx, hsx⟩ := List.mem_flatMap.1 hs
    exact iterSlices_nonempty x (hne x hx) (fun o ol n' nl h => hrep o ol n' nl (h ▸ hx)) s hsx
  · simpa [List.range_eq_range'] using (TextP.walk_indices _ ops 0 0 _ _ hw).1
  · simpa [List.range_eq_range'] using (TextP.walk_indices _ ops 0 0 _ _ hw).2

#print axioms utilsDiffSlices_total

end SimilarVerif.SliceHelper

import SimilarVerif.Lemmas.CaptureMinimal
import SimilarVerif.Lemmas.PatienceTotal
/-! # The captured Patience diff keeps a maximum in-order set of unique common items

`PatienceT.patience_lis`: without a deadline the raw Patience stream reports Equal a chain of
`lcsLen(unique old, unique new)` pairs of unique items.  Distinct old positions reported Equal are
distinct items of Equal segments, so the raw stream has at least that many equal items
(`covered_count_le_nEq`); the clean-up and `Replace` keep the number of equal items, hence so does the
captured op list.
-/
namespace SimilarVerif.CaptureP
open SimilarVerif Spec PatienceT PatienceP

theorem len_filter_split {α} (p : α → Bool) : ∀ (l : List α),
    l.length = (l.filter p).length + (l.filter (fun x => !p x)).length := by
  intro l
  induction l with
  | nil => rfl
  | cons x xs ih =>
    simp only [List.filter_cons]
    cases p x <;> simp <;> omega

theorem filter_const_true {α} : ∀ (l : List α), l.filter (fun _ => true) = l := by
  intro l
  induction l with
  | nil => rfl
  | cons x xs ih => simp

/-- strictly increasing numbers inside `[s, s+n)` are at most `n` many -/
theorem sorted_in_range_length {α} (f : α → Nat) (n s : Nat) (l : List α)
    (hp : l.Pairwise (fun x y => f x < f y)) (hl : ∀ x ∈ l, s ≤ f x ∧ f x < s + n) : l.length ≤ n := by
  have := sorted_filter_count (fun _ => true) n s (l.map f) (by rw [List.pairwise_map]; exact hp)
    (by
      intro y hy
      simp only [List.mem_map] at hy
      obtain ⟨x, hx, rfl⟩ := hy
      exact ⟨(hl x hx).1, (hl x hx).2, rfl⟩)
  rw [filter_const_true] at this
  simpa using this

theorem covered_cons_nonequal {x : Op} {cs : List Op} {a b : Nat} (hx : ∀ o n l, x ≠ .equal o n l)
    (h : covered (x :: cs) a b) : covered cs a b := by
  obtain ⟨co, cn, len, hm, h1⟩ := h
  simp only [List.mem_cons] at hm
  rcases hm with hm | hm
  · exact (hx _ _ _ hm.symm).elim
  · exact ⟨co, cn, len, hm, h1⟩

/-- **distinct old positions reported Equal are distinct equal items**: a strictly increasing family of
old positions each lying on the diagonal of an `equal` op of a valid script has at most `nEq` members -/
theorem covered_count_le_nEq {α} (f : α → Nat) (e : Nat → Nat → Bool) : ∀ (ops : List Op) (o n o' n' : Nat),
    Walk e o n ops o' n' → ∀ (l : List α), l.Pairwise (fun x y => f x < f y) →
    (∀ x ∈ l, ∃ b, covered ops (f x) b) → l.length ≤ nEq ops := by
  intro ops
  induction ops with
  | nil =>
    intro o n o' n' _ l _ hl
    cases l with
    | nil => simp [nEq]
    | cons x xs =>
      obtain ⟨b, co, cn, len, hm, _⟩ := hl x (by simp)
      simp at hm
  | cons c cs ih =>
    intro o n o' n' hw l hp hl
    cases c with
    | equal xo xn xl =>
      have hw0 := hw
      simp only [Walk] at hw
      obtain ⟨rfl, rfl, hpos, he, hw'⟩ := hw
      have hsplit := len_filter_split (fun x => decide (f x < xo + xl)) l
      have h1 : (l.filter (fun x => decide (f x < xo + xl))).length ≤ xl := by
        apply sorted_in_range_length f xl xo _ (hp.filter _)
        intro x hx
        simp only [List.mem_filter, decide_eq_true_eq] at hx
        obtain ⟨b, hcv⟩ := hl x hx.1
        have := walk_covered _ _ _ _ _ _ _ hw0 hcv
        exact ⟨this.1, hx.2⟩
      have h2 : (l.filter (fun x => !decide (f x < xo + xl))).length ≤ nEq cs := by
        apply ih _ _ _ _ hw' _ (hp.filter _)
        intro x hx
        simp only [List.mem_filter, Bool.not_eq_eq_eq_not, Bool.not_true, decide_eq_false_iff_not] at hx
        obtain ⟨b, co, cn, len, hm, q1, q2, q3⟩ := hl x hx.1
        simp only [List.mem_cons] at hm
        rcases hm with hm | hm
        · simp only [Op.equal.injEq] at hm
          obtain ⟨rfl, rfl, rfl⟩ := hm
          omega
        · exact ⟨b, co, cn, len, hm, q1, q2, q3⟩
      simp only [nEq]
      omega
    | delete xo xl xn =>
      simp only [Walk] at hw
      simp only [nEq]
      exact ih _ _ _ _ hw.2.2 l hp (fun x hx => by
        obtain ⟨b, hb⟩ := hl x hx
        exact ⟨b, covered_cons_nonequal (by intro _ _ _ h; cases h) hb⟩)
    | insert xo xn xl =>
      simp only [Walk] at hw
      simp only [nEq]
      exact ih _ _ _ _ hw.2.2 l hp (fun x hx => by
        obtain ⟨b, hb⟩ := hl x hx
        exact ⟨b, covered_cons_nonequal (by intro _ _ _ h; cases h) hb⟩)
    | replace xo xl xn xnl =>
      simp only [Walk] at hw
      simp only [nEq]
      exact ih _ _ _ _ hw.2.2.2.2 l hp (fun x hx => by
        obtain ⟨b, hb⟩ := hl x hx
        exact ⟨b, covered_cons_nonequal (by intro _ _ _ h; cases h) hb⟩)

/-- **raw Patience stream, as a number of equal items**: without a deadline the raw stream has at least
`lcsLen(unique old, unique new)` equal items -/
theorem patience_raw_nEq_ge_lis (E : Env) (os oe ns ne : Nat) (w : World) (r' : Rec) (w' : World)
    (ho : os ≤ oe) (hn : ns ≤ ne) (hb : InBounds E os oe ns ne) (hw : w.clock = none)
    (h : patienceDiff E recHook os oe ns ne {} w = .ok (r', w')) :
    ∃ (uo un : List Nat) (raw : List Op),
      unique E.oo os oe = some uo ∧ unique E.nn ns ne = some un ∧
      r'.trace = raw.map Call.op ++ [.finish] ∧ Walk (eqB E) os ns raw oe ne ∧
      lcsLen (eqB (E.sub uo.toArray un.toArray)) uo.length un.length 0 0 ≤ nEq raw := by
  obtain ⟨uo, un, raw, pairs, h1, h2, h3, h4, h5, h6, h7⟩ := patience_lis E os oe ns ne w r' w' ho hn hb hw h
  refine ⟨uo, un, raw, h1, h2, h3, h4, ?_⟩
  rw [← h5]
  have hao := unique_asc h1
  apply covered_count_le_nEq (fun x : Nat × Nat => (uo[x.1]?).getD 0) (eqB E) raw os ns oe ne h4 pairs
  · unfold Chain at h6
    refine List.Pairwise.imp_of_mem ?_ h6
    intro x y hx hy hxy
    obtain ⟨a, _, q1, -⟩ := h7 x hx
    obtain ⟨a', _, q1', -⟩ := h7 y hy
    simp only [q1, q1', Option.getD_some]
    exact hao.mono x.1 y.1 a a' hxy.1 (by simpa using q1) (by simpa using q1')
  · intro x hx
    obtain ⟨a, b, q1, -, -, q4⟩ := h7 x hx
    exact ⟨b, by simpa [q1] using q4⟩

/-- whenever `capture_diff` with Patience returns, its result is a valid script (no hypotheses left) -/
theorem captured_patience_walk (E : Env) (repair : Bool) (os oe ns ne : Nat) (w : World)
    (ho : os ≤ oe) (hn : ns ≤ ne) (hb : InBounds E os oe ns ne) (ops : List Op) (w' : World)
    (hc : captureDiff .patience E repair os oe ns ne w = .ok (ops, w')) : Walk (eqB E) os ns ops oe ne := by
  obtain ⟨raw, w1, -, -, -, h, -⟩ := capture_patience_valid E (MyersT.snake_in_box E) repair os oe ns ne
    (fun _ _ _ _ => MyersT.snake_in_box _) w ho hn hb ops w' hc
  exact h

/-- **C15 for the captured diff, size clause** (no deadline; shipped and repaired clean-up): whenever
`capture_diff` with Patience returns, the op list is a valid script and its Equal segments hold at least
as many items as the longest common in-order subsequence of the items unique on each side. -/
theorem captured_count_ge_lis (E : Env) (repair : Bool) (os oe ns ne : Nat) (w : World)
    (ops : List Op) (w' : World)
    (ho : os ≤ oe) (hn : ns ≤ ne) (hb : InBounds E os oe ns ne) (hw : w.clock = none)
    (hc : captureDiff .patience E repair os oe ns ne w = .ok (ops, w')) :
    ∃ (uo un : List Nat),
      unique E.oo os oe = some uo ∧ unique E.nn ns ne = some un ∧
      Walk (eqB E) os ns ops oe ne ∧
      lcsLen (eqB (E.sub uo.toArray un.toArray)) uo.length un.length 0 0 ≤ nEq ops := by
  obtain ⟨r, w1, hraw⟩ := capture_ok_raw .patience E repair os oe ns ne w ops w' hc
  have hp : patienceDiff E recHook os oe ns ne {} w = .ok (r, w1) := by
    simpa [rawTrace, diffWith] using hraw
  obtain ⟨uo, un, raw, h1, h2, h3, h4, h5⟩ := patience_raw_nEq_ge_lis E os oe ns ne w r w1 ho hn hb hw hp
  obtain ⟨g1, -, -, g4, -⟩ := capture_valid_gen .patience E repair os oe ns ne w r w1 raw ops w' hraw h3 h4 hc
  exact ⟨uo, un, h1, h2, g1, by omega⟩

/-- … with totality: if moreover the same-side comparisons `unique` makes are defined, `capture_diff`
with Patience returns -/
theorem captured_count_ge_lis_total (E : Env) (repair : Bool) (os oe ns ne : Nat) (w : World)
    (ho : os ≤ oe) (hn : ns ≤ ne) (hb : InBounds E os oe ns ne)
    (hbo : ∀ i j, os ≤ i → i < oe → os ≤ j → j < oe → (E.oo i j).isSome)
    (hbn : ∀ i j, ns ≤ i → i < ne → ns ≤ j → j < ne → (E.nn i j).isSome)
    (hw : w.clock = none) :
    ∃ (ops : List Op) (w' : World) (uo un : List Nat),
      captureDiff .patience E repair os oe ns ne w = .ok (ops, w') ∧
      unique E.oo os oe = some uo ∧ unique E.nn ns ne = some un ∧
      Walk (eqB E) os ns ops oe ne ∧
      lcsLen (eqB (E.sub uo.toArray un.toArray)) uo.length un.length 0 0 ≤ nEq ops := by
  obtain ⟨r, w1, hp, hv⟩ := patience_total E os oe ns ne w ho hn hb hbo hbn
  have hraw : rawTrace .patience E os oe ns ne w = .ok (r, w1) := by simpa [rawTrace, diffWith] using hp
  obtain ⟨raw, ops, w', -, -, -, hc, -⟩ :=
    CaptureMin.capture_total_of_validRaw .patience E repair os oe ns ne w r w1 hraw hv hb
  obtain ⟨uo, un, h1, h2, h3, h4⟩ := captured_count_ge_lis E repair os oe ns ne w ops w' ho hn hb hw hc
  exact ⟨ops, w', uo, un, hc, h1, h2, h3, h4⟩

end SimilarVerif.CaptureP

import SimilarVerif.Model.Close
import SimilarVerif.Lemmas.LcsMinimal
import SimilarVerif.Lemmas.F32
/-! `get_close_matches` (C18):
(1) the ranking is "first `n` of the scored candidates in (key descending, candidate ascending) order",
(2) the two cheap filters are upper bounds of the real ratio in exact arithmetic,
(3) for ANY monotone rounding of the ratio (`Rnd`) the filters never discard a candidate that meets the
    cutoff,
(4) the model's soft-float ratio `F32.ratio` IS such a rounding (`ratio_rnd`, proved in Lemmas/F32.lean),
    so the filters never discard a qualifying candidate — for every cutoff bit pattern, no hypothesis.
The end-to-end statements that also need the validity of the Myers script are in Lemmas/CloseF32.lean. -/
namespace SimilarVerif.CloseP
open SimilarVerif Spec

/-! ## (1a) strict total orders, insertion sort -/

/-- a Boolean strict total order -/
structure StrictTotal {α : Type} (lt : α → α → Bool) : Prop where
  irrefl : ∀ a, lt a a = false
  trans : ∀ a b c, lt a b = true → lt b c = true → lt a c = true
  tri : ∀ a b, a = b ∨ lt a b = true ∨ lt b a = true

theorem StrictTotal.asymm {α : Type} {lt : α → α → Bool} (h : StrictTotal lt) {a b : α}
    (hab : lt a b = true) : lt b a = false := by
  cases hba : lt b a with
  | false => rfl
  | true => have := h.trans a b a hab hba; rw [h.irrefl] at this; exact this.symm

/-- sorted w.r.t. `before` (weakly: repeated entries allowed) -/
def SortedBy {α : Type} (before : α → α → Bool) (l : List α) : Prop :=
  l.Pairwise (fun a b => before a b = true ∨ a = b)

def insertBy {α : Type} (before : α → α → Bool) (x : α) : List α → List α
  | [] => [x]
  | y :: ys => if before y x then y :: insertBy before x ys else x :: y :: ys

def sortBy {α : Type} (before : α → α → Bool) (l : List α) : List α := l.foldr (insertBy before) []

theorem insertBy_perm {α : Type} (before : α → α → Bool) (x : α) :
    ∀ l : List α, (insertBy before x l).Perm (x :: l) := by
  intro l
  induction l with
  | nil => exact List.Perm.refl _
  | cons y ys ih =>
    unfold insertBy
    split
    · exact ((List.Perm.cons y ih).trans (List.Perm.swap x y ys))
    · exact List.Perm.refl _

theorem sortBy_perm {α : Type} (before : α → α → Bool) : ∀ l : List α, (sortBy before l).Perm l := by
  intro l
  induction l with
  | nil => exact List.Perm.refl _
  | cons y ys ih =>
    show (insertBy before y (sortBy before ys)).Perm (y :: ys)
    exact (insertBy_perm before y _).trans (List.Perm.cons y ih)

theorem insertBy_sorted {α : Type} {before : α → α → Bool} (st : StrictTotal before) (x : α) :
    ∀ l : List α, SortedBy before l → SortedBy before (insertBy before x l) := by
  intro l
  induction l with
  | nil => intro _; simp [insertBy, SortedBy]
  | cons y ys ih =>
    intro hs
    unfold SortedBy at hs
    rw [List.pairwise_cons] at hs
    unfold insertBy
    split
    · next hyx =>
      unfold SortedBy
      rw [List.pairwise_cons]
      refine ⟨?_, ih hs.2⟩
      intro z hz
      have := (insertBy_perm before x ys).mem_iff.mp hz
      rcases List.mem_cons.mp this with rfl | hz'
      · exact Or.inl hyx
      · exact hs.1 z hz'
    · next hyx =>
      have hxy : before x y = true ∨ x = y := by
        rcases st.tri x y with h | h | h
        · exact Or.inr h
        · exact Or.inl h
        · exact absurd h hyx
      unfold SortedBy
      rw [List.pairwise_cons, List.pairwise_cons]
      refine ⟨?_, hs.1, hs.2⟩
      intro z hz
      rcases List.mem_cons.mp hz with rfl | hz'
      · exact hxy
      · rcases hxy with hxy | rfl
        · rcases hs.1 z hz' with h | rfl
          · exact Or.inl (st.trans _ _ _ hxy h)
          · exact Or.inl hxy
        · exact hs.1 z hz'

theorem sortBy_sorted {α : Type} {before : α → α → Bool} (st : StrictTotal before) :
    ∀ l : List α, SortedBy before (sortBy before l) := by
  intro l
  induction l with
  | nil => simp [sortBy, SortedBy]
  | cons y ys ih => exact insertBy_sorted st y _ ih

/-- a list has at most one sorted arrangement -/
theorem sorted_perm_unique {α : Type} {before : α → α → Bool} (st : StrictTotal before) :
    ∀ l₁ l₂ : List α, l₁.Perm l₂ → SortedBy before l₁ → SortedBy before l₂ → l₁ = l₂ := by
  intro l₁
  induction l₁ with
  | nil => intro l₂ hp _ _; exact (List.Perm.nil_eq hp)
  | cons x xs ih =>
    intro l₂ hp h1 h2
    cases l₂ with
    | nil => exact absurd (List.Perm.nil_eq hp.symm) (by intro h; cases h)
    | cons y ys =>
      unfold SortedBy at h1 h2
      rw [List.pairwise_cons] at h1 h2
      have hxy : x = y := by
        by_cases hxy : x = y
        · exact hxy
        · exfalso
          have hx : x ∈ ys := by
            have := hp.mem_iff.mp (List.mem_cons_self)
            rcases List.mem_cons.mp this with h | h
            · exact absurd h hxy
            · exact h
          have hy : y ∈ xs := by
            have := hp.mem_iff.mpr (List.mem_cons_self)
            rcases List.mem_cons.mp this with h | h
            · exact absurd h.symm hxy
            · exact h
          rcases h1.1 y hy with a | a
          · rcases h2.1 x hx with b | b
            · have := st.asymm a; rw [b] at this; cases this
            · exact hxy b.symm
          · exact hxy a
      subst hxy
      rw [ih ys (List.Perm.cons_inv hp) h1.2 h2.2]

/-! ## (1b) `bytesLt` is the lexicographic strict total order; so is `heapBefore` -/

theorem u8_lt_irrefl (a : UInt8) : ¬ a < a := by
  rw [UInt8.lt_iff_toNat_lt]; omega
theorem u8_lt_trans {a b c : UInt8} (h1 : a < b) (h2 : b < c) : a < c := by
  rw [UInt8.lt_iff_toNat_lt] at *; omega
theorem u8_tri (a b : UInt8) : a = b ∨ a < b ∨ b < a := by
  rw [UInt8.lt_iff_toNat_lt, UInt8.lt_iff_toNat_lt, ← UInt8.toNat_inj]; omega
theorem u32_lt_irrefl (a : UInt32) : ¬ a < a := by
  rw [UInt32.lt_iff_toNat_lt]; omega
theorem u32_lt_trans {a b c : UInt32} (h1 : a < b) (h2 : b < c) : a < c := by
  rw [UInt32.lt_iff_toNat_lt] at *; omega
theorem u32_tri (a b : UInt32) : a = b ∨ a < b ∨ b < a := by
  rw [UInt32.lt_iff_toNat_lt, UInt32.lt_iff_toNat_lt, ← UInt32.toNat_inj]; omega

theorem bytesLt_cons (a b : UInt8) (as bs : Bytes) :
    bytesLt (a :: as) (b :: bs) = true ↔ a < b ∨ (a = b ∧ bytesLt as bs = true) := by
  simp [bytesLt]

theorem bytesLt_irrefl : ∀ a : Bytes, bytesLt a a = false := by
  intro a
  induction a with
  | nil => rfl
  | cons x xs ih =>
    cases h : bytesLt (x :: xs) (x :: xs) with
    | false => rfl
    | true =>
      rcases (bytesLt_cons _ _ _ _).mp h with h | ⟨_, h⟩
      · exact absurd h (u8_lt_irrefl x)
      · rw [ih] at h; cases h

theorem bytesLt_trans : ∀ a b c : Bytes, bytesLt a b = true → bytesLt b c = true → bytesLt a c = true := by
  intro a
  induction a with
  | nil =>
    intro b c h1 h2
    cases b with
    | nil => simp [bytesLt] at h1
    | cons y ys => cases c with
      | nil => simp [bytesLt] at h2
      | cons z zs => rfl
  | cons x xs ih =>
    intro b c h1 h2
    cases b with
    | nil => simp [bytesLt] at h1
    | cons y ys => cases c with
      | nil => simp [bytesLt] at h2
      | cons z zs =>
        rw [bytesLt_cons] at *
        rcases h1 with h1 | ⟨rfl, h1⟩
        · rcases h2 with h2 | ⟨rfl, h2⟩
          · exact Or.inl (u8_lt_trans h1 h2)
          · exact Or.inl h1
        · rcases h2 with h2 | ⟨rfl, h2⟩
          · exact Or.inl h2
          · exact Or.inr ⟨rfl, ih _ _ h1 h2⟩

theorem bytesLt_tri : ∀ a b : Bytes, a = b ∨ bytesLt a b = true ∨ bytesLt b a = true := by
  intro a
  induction a with
  | nil => intro b; cases b with
    | nil => exact Or.inl rfl
    | cons y ys => exact Or.inr (Or.inl rfl)
  | cons x xs ih =>
    intro b
    cases b with
    | nil => exact Or.inr (Or.inr rfl)
    | cons y ys =>
      rw [bytesLt_cons, bytesLt_cons]
      rcases u8_tri x y with rfl | h | h
      · rcases ih ys with rfl | h | h
        · exact Or.inl rfl
        · exact Or.inr (Or.inl (Or.inr ⟨rfl, h⟩))
        · exact Or.inr (Or.inr (Or.inr ⟨rfl, h⟩))
      · exact Or.inr (Or.inl (Or.inl h))
      · exact Or.inr (Or.inr (Or.inl h))

/-- `bytesLt` is a strict total order on byte strings -/
theorem bytesLt_strictTotal : StrictTotal bytesLt := ⟨bytesLt_irrefl, bytesLt_trans, bytesLt_tri⟩

/-- `bytesLt` is the lexicographic order: `a < b` iff `a` is a proper prefix of `b`, or they first differ
at a position where `a` has the smaller byte -/
theorem bytesLt_iff_lex (a b : Bytes) : bytesLt a b = true ↔
    (∃ c d, b = a ++ c :: d) ∨ (∃ p x y s t, a = p ++ x :: s ∧ b = p ++ y :: t ∧ x < y) := by
  induction a generalizing b with
  | nil => cases b with
    | nil => simp [bytesLt]
    | cons y ys => simp [bytesLt]
  | cons x xs ih =>
    cases b with
    | nil => simp [bytesLt]
    | cons y ys =>
      rw [bytesLt_cons, ih]
      constructor
      · rintro (h | ⟨rfl, ⟨c, d, rfl⟩ | ⟨p, u, v, s, t, rfl, rfl, h⟩⟩)
        · exact Or.inr ⟨[], x, y, xs, ys, rfl, rfl, h⟩
        · exact Or.inl ⟨c, d, rfl⟩
        · exact Or.inr ⟨x :: p, u, v, s, t, rfl, rfl, h⟩
      · rintro (⟨c, d, h⟩ | ⟨p, u, v, s, t, h1, h2, h⟩)
        · simp only [List.cons_append, List.cons.injEq] at h
          exact Or.inr ⟨h.1.symm, Or.inl ⟨c, d, h.2⟩⟩
        · cases p with
          | nil =>
            simp only [List.nil_append, List.cons.injEq] at h1 h2
            rw [h1.1, h2.1]; exact Or.inl h
          | cons q p =>
            simp only [List.cons_append, List.cons.injEq] at h1 h2
            exact Or.inr ⟨h1.1.trans h2.1.symm, Or.inr ⟨p, u, v, s, t, h1.2, h2.2, h⟩⟩

/-- key descending (w.r.t. `lt`), then `ltB` ascending on a secondary component -/
def lexDesc {α κ β : Type} [DecidableEq κ] (lt : κ → κ → Bool) (ltB : β → β → Bool) (f : α → κ) (g : α → β)
    (a b : α) : Bool := lt (f b) (f a) || (decide (f a = f b) && ltB (g a) (g b))

theorem lexDesc_strictTotal {α κ β : Type} [DecidableEq κ] {lt : κ → κ → Bool} {ltB : β → β → Bool}
    (hk : StrictTotal lt) (hb : StrictTotal ltB) (f : α → κ) (g : α → β)
    (inj : ∀ a b, f a = f b → g a = g b → a = b) : StrictTotal (lexDesc lt ltB f g) := by
  refine ⟨?_, ?_, ?_⟩
  · intro a; simp [lexDesc, hk.irrefl, hb.irrefl]
  · intro a b c h1 h2
    simp only [lexDesc, Bool.or_eq_true, Bool.and_eq_true, decide_eq_true_eq] at *
    rcases h1 with h1 | ⟨e1, h1⟩
    · rcases h2 with h2 | ⟨e2, h2⟩
      · exact Or.inl (hk.trans _ _ _ h2 h1)
      · rw [← e2]; exact Or.inl h1
    · rcases h2 with h2 | ⟨e2, h2⟩
      · rw [e1]; exact Or.inl h2
      · exact Or.inr ⟨e1.trans e2, hb.trans _ _ _ h1 h2⟩
  · intro a b
    simp only [lexDesc, Bool.or_eq_true, Bool.and_eq_true, decide_eq_true_eq]
    rcases hk.tri (f a) (f b) with e | h | h
    · rcases hb.tri (g a) (g b) with e' | h | h
      · exact Or.inl (inj a b e e')
      · exact Or.inr (Or.inl (Or.inr ⟨e, h⟩))
      · exact Or.inr (Or.inr (Or.inr ⟨e.symm, h⟩))
    · exact Or.inr (Or.inr (Or.inl h))
    · exact Or.inr (Or.inl (Or.inl h))

/-- `<` on heap keys as a Boolean strict total order -/
def u32Lt (a b : UInt32) : Bool := decide (a < b)

theorem u32Lt_strictTotal : StrictTotal u32Lt := by
  refine ⟨?_, ?_, ?_⟩
  · intro a; simp [u32Lt]
  · intro a b c h1 h2; simp only [u32Lt, decide_eq_true_eq] at *; exact u32_lt_trans h1 h2
  · intro a b; simp only [u32Lt, decide_eq_true_eq]; exact u32_tri a b

theorem heapBefore_eq_lexDesc : heapBefore = lexDesc u32Lt bytesLt (·.1) (·.2) := by
  funext a b
  simp only [heapBefore, lexDesc, u32Lt, GT.gt]
  cases h : (a.1 == b.1) <;> simp_all

/-- the pop order of the heap is a strict total order on `(key, candidate)` pairs:
larger key first, equal keys by `bytesLt` -/
theorem heapBefore_strictTotal : StrictTotal heapBefore := by
  rw [heapBefore_eq_lexDesc]
  exact lexDesc_strictTotal u32Lt_strictTotal bytesLt_strictTotal _ _
    (fun a b h1 h2 => Prod.ext h1 h2)

theorem heapBefore_iff (a b : UInt32 × Bytes) :
    heapBefore a b = true ↔ b.1 < a.1 ∨ (a.1 = b.1 ∧ bytesLt a.2 b.2 = true) := by
  simp [heapBefore]

theorem insertSorted_eq : ∀ (x : UInt32 × Bytes) (l : List (UInt32 × Bytes)),
    insertSorted x l = insertBy heapBefore x l := by
  intro x l
  induction l with
  | nil => rfl
  | cons y ys ih => simp only [insertSorted, insertBy, ih]

theorem sortHeap_eq (l : List (UInt32 × Bytes)) : sortHeap l = sortBy heapBefore l := by
  unfold sortHeap sortBy
  congr 1
  funext x l
  exact insertSorted_eq x l

/-- sorted in heap pop order -/
abbrev Sorted (l : List (UInt32 × Bytes)) : Prop := SortedBy heapBefore l

theorem sortHeap_perm (l : List (UInt32 × Bytes)) : (sortHeap l).Perm l := by
  rw [sortHeap_eq]; exact sortBy_perm _ l

theorem sortHeap_sorted (l : List (UInt32 × Bytes)) : Sorted (sortHeap l) := by
  rw [sortHeap_eq]; exact sortBy_sorted heapBefore_strictTotal l

/-- `sortHeap l` is THE sorted arrangement of `l` -/
theorem sortHeap_unique (l l' : List (UInt32 × Bytes)) (hp : l'.Perm l) (hs : Sorted l') : l' = sortHeap l :=
  sorted_perm_unique heapBefore_strictTotal _ _ (hp.trans (sortHeap_perm l).symm) hs (sortHeap_sorted l)

/-! ## (1c) `get_close_matches` as an abstract ranking -/

/-- the abstract ranking: keep the candidates satisfying `keep`, order them by decreasing score
(w.r.t. the strict total order `lt` on scores) and, among equal scores, lexicographically; take `n` -/
def closeAbstract {κ : Type} [DecidableEq κ] (score : Bytes → κ) (keep : Bytes → Bool) (lt : κ → κ → Bool)
    (cands : List Bytes) (n : Nat) : List Bytes :=
  (sortBy (lexDesc lt bytesLt score id) (cands.filter keep)).take n

theorem rank_strictTotal {κ : Type} [DecidableEq κ] {lt : κ → κ → Bool} (hk : StrictTotal lt)
    (score : Bytes → κ) : StrictTotal (lexDesc lt bytesLt score id) :=
  lexDesc_strictTotal hk bytesLt_strictTotal score id (fun _ _ _ h => h)

/-- the order part of `closeAbstract`: a sorted permutation of the kept candidates, cut at `n` -/
theorem closeAbstract_spec {κ : Type} [DecidableEq κ] {lt : κ → κ → Bool} (hk : StrictTotal lt)
    (score : Bytes → κ) (keep : Bytes → Bool) (cands : List Bytes) (n : Nat) :
    ∃ full, closeAbstract score keep lt cands n = full.take n ∧ full.Perm (cands.filter keep) ∧
      SortedBy (lexDesc lt bytesLt score id) full ∧
      ∀ l, l.Perm (cands.filter keep) → SortedBy (lexDesc lt bytesLt score id) l → l = full :=
  ⟨_, rfl, sortBy_perm _ _, sortBy_sorted (rank_strictTotal hk score) _,
    fun _ hp hs => sorted_perm_unique (rank_strictTotal hk score) _ _ (hp.trans (sortBy_perm _ _).symm) hs
      (sortBy_sorted (rank_strictTotal hk score) _)⟩

theorem insertBy_map {α β : Type} (before : α → α → Bool) (before' : β → β → Bool) (f : α → β)
    (hf : ∀ a b, before' (f a) (f b) = before a b) (x : α) :
    ∀ l : List α, insertBy before' (f x) (l.map f) = (insertBy before x l).map f := by
  intro l
  induction l with
  | nil => rfl
  | cons y ys ih =>
    simp only [List.map_cons, insertBy, hf, ih]
    split <;> simp

theorem sortBy_map {α β : Type} (before : α → α → Bool) (before' : β → β → Bool) (f : α → β)
    (hf : ∀ a b, before' (f a) (f b) = before a b) :
    ∀ l : List α, sortBy before' (l.map f) = (sortBy before l).map f := by
  intro l
  induction l with
  | nil => rfl
  | cons y ys ih =>
    show insertBy before' (f y) (sortBy before' (ys.map f)) = (insertBy before y (sortBy before ys)).map f
    rw [ih, insertBy_map before before' f hf]

/-- does candidate `p` reach the heap? (both pre-filters pass, the diff succeeds, its ratio meets the cutoff) -/
def passes (tok : Bytes → List Bytes) (word : Bytes) (cutoff : Nat) (p : Bytes) : Bool :=
  if F32.lt (upperSeqRatio (tok word).length (tok p).length) cutoff || F32.lt (quickRatio (tok word) (tok p)) cutoff then false
  else match diffRatio (tok word) (tok p) with
    | .error _ => false
    | .ok r => F32.ge r cutoff

/-- heap key of candidate `p` -/
def keyOf (tok : Bytes → List Bytes) (word : Bytes) (p : Bytes) : UInt32 :=
  match diffRatio (tok word) (tok p) with
  | .error _ => 0
  | .ok r => r.toUInt32

theorem closeScored_spec (tok : Bytes → List Bytes) (word : Bytes) (cutoff : Nat) :
    ∀ (cands : List Bytes) (scored : List (UInt32 × Bytes)), closeScored tok word cutoff cands = .ok scored →
      scored = (cands.filter (passes tok word cutoff)).map (fun p => (keyOf tok word p, p)) := by
  intro cands
  induction cands with
  | nil => intro scored h; simp [closeScored] at h; simp [h]
  | cons p ps ih =>
    intro scored h
    unfold closeScored at h
    cases hr : closeScored tok word cutoff ps with
    | error e => simp [hr] at h
    | ok rest =>
      have ih := ih rest hr
      simp only [hr] at h
      rw [List.filter_cons]
      by_cases hf : (F32.lt (upperSeqRatio (tok word).length (tok p).length) cutoff || F32.lt (quickRatio (tok word) (tok p)) cutoff) = true
      · rw [if_pos hf] at h
        have : passes tok word cutoff p = false := by unfold passes; rw [if_pos hf]
        rw [this]; simp only [Bool.false_eq_true, if_false]
        cases h; exact ih
      · rw [if_neg hf] at h
        cases hd : diffRatio (tok word) (tok p) with
        | error e => simp [hd] at h
        | ok r =>
          simp only [hd] at h
          have hp : passes tok word cutoff p = F32.ge r cutoff := by
            unfold passes; rw [if_neg hf]; simp only [hd]
          have hk : keyOf tok word p = r.toUInt32 := by unfold keyOf; simp only [hd]
          rw [hp]
          by_cases hc : F32.ge r cutoff = true
          · rw [if_pos hc] at h
            simp only [hc, if_true, List.map_cons, hk]
            cases h; rw [ih]
          · rw [if_neg hc] at h
            simp only [hc, Bool.false_eq_true, if_false]
            cases h; exact ih

/-- **C18, order part.** If scoring succeeds, `get_close_matches` returns the candidates of the first `n`
entries of `sorted`, where `sorted` is the unique arrangement of the scored candidates in heap pop order
(key descending, then candidate ascending in lexicographic order). -/
theorem getCloseMatches_order {tok : Bytes → List Bytes} {word : Bytes} {cutoff : Nat} {cands : List Bytes}
    {scored : List (UInt32 × Bytes)} (h : closeScored tok word cutoff cands = .ok scored) (n : Nat) :
    getCloseMatches tok word cands n cutoff = .ok (((sortHeap scored).take n).map (·.2)) ∧
    (sortHeap scored).Perm scored ∧ Sorted (sortHeap scored) ∧
    (∀ l, l.Perm scored → Sorted l → l = sortHeap scored) := by
  refine ⟨?_, sortHeap_perm _, sortHeap_sorted _, fun l hp hs => sortHeap_unique _ l hp hs⟩
  unfold getCloseMatches; rw [h]

theorem getCloseMatches_error {tok : Bytes → List Bytes} {word : Bytes} {cutoff : Nat} {cands : List Bytes}
    {e : Abort} (h : closeScored tok word cutoff cands = .error e) (n : Nat) :
    getCloseMatches tok word cands n cutoff = .error e := by
  unfold getCloseMatches; rw [h]

/-- **C18, order part, abstract form.** If scoring succeeds, the result is the abstract ranking of the
candidates that pass, scored by their heap key. -/
theorem getCloseMatches_eq_abstract {tok : Bytes → List Bytes} {word : Bytes} {cutoff : Nat}
    {cands : List Bytes} {scored : List (UInt32 × Bytes)}
    (h : closeScored tok word cutoff cands = .ok scored) (n : Nat) :
    getCloseMatches tok word cands n cutoff =
      .ok (closeAbstract (keyOf tok word) (passes tok word cutoff) u32Lt cands n) := by
  rw [(getCloseMatches_order h n).1, closeScored_spec tok word cutoff cands scored h, sortHeap_eq,
    sortBy_map (lexDesc u32Lt bytesLt (keyOf tok word) id) heapBefore (fun p => (keyOf tok word p, p))]
  · unfold closeAbstract
    rw [← List.map_take, List.map_map]
    congr 1
    exact List.map_id _
  · intro a b; rw [heapBefore_eq_lexDesc]; rfl

/-! ## (2) the pre-filters bound the real ratio from above, in exact arithmetic -/

/-- `new[j] == old[i]` for the token lists `a` (word, old side) and `b` (candidate, new side) -/
def tokEq (a b : List Bytes) (i j : Nat) : Bool :=
  match a[i]?, b[j]? with
  | some x, some y => y == x
  | _, _ => false

/-- (i) the equal items of any valid script number at most `min |a| |b|` -/
theorem matches_le_min {e : Nat → Nat → Bool} {ops : List Op} {la lb : Nat} (hw : Walk e 0 0 ops la lb) :
    nEq ops ≤ min la lb := by
  have h := LcsMin.walk_nEq_le ops 0 0 la lb hw
  have h1 := LcsMin.lcsLen_le_left e (la - 0) (lb - 0) 0 0
  have h2 := LcsMin.lcsLen_le_right e (la - 0) (lb - 0) 0 0
  omega

/-- (i) cross-multiplied: `2*matches/(|a|+|b|) ≤ 2*min(|a|,|b|)/(|a|+|b|)` -/
theorem upper_bound_exact {e : Nat → Nat → Bool} {ops : List Op} {la lb : Nat} (hw : Walk e 0 0 ops la lb) :
    2 * nEq ops * (la + lb) ≤ 2 * min la lb * (la + lb) :=
  Nat.mul_le_mul_right _ (Nat.mul_le_mul_left _ (matches_le_min hw))

theorem Counts.get_set (c : Counts) (x y : Bytes) (v : Int) :
    (c.set x v).get y = if x = y then some v else c.get y := by
  induction c with
  | nil => simp [Counts.set, Counts.get]
  | cons kv rest ih =>
    obtain ⟨k, v'⟩ := kv
    unfold Counts.set
    by_cases hk : k = x
    · subst hk
      simp only [beq_self_eq_true, if_true]
      unfold Counts.get
      simp only [beq_iff_eq]
      split <;> rfl
    · have : (k == x) = false := by simpa using hk
      simp only [this, Bool.false_eq_true, if_false]
      rw [Counts.get, ih, Counts.get]
      simp only [beq_iff_eq]
      by_cases hy : k = y
      · subst hy; simp; intro h; exact absurd h.symm hk
      · simp [hy]

theorem Counts.set_length_le (c : Counts) (x : Bytes) (v : Int) : (c.set x v).length ≤ c.length + 1 := by
  induction c with
  | nil => simp [Counts.set]
  | cons kv rest ih =>
    obtain ⟨k, v'⟩ := kv
    unfold Counts.set
    split
    · simp
    · simp only [List.length_cons]; omega

theorem Counts.set_length_pos (c : Counts) (x : Bytes) (v : Int) : 0 < (c.set x v).length := by
  cases c with
  | nil => simp [Counts.set]
  | cons kv rest =>
    obtain ⟨k, v'⟩ := kv
    unfold Counts.set
    split <;> simp

/-- (ii) the word contributes its number of DISTINCT tokens to the quick ratio's denominator: at most its length -/
theorem countsOf_length_le : ∀ a : List Bytes, (countsOf a).length ≤ a.length := by
  intro a
  induction a with
  | nil => simp [countsOf]
  | cons x xs ih =>
    have := Counts.set_length_le (countsOf xs) x (((countsOf xs).get x).getD 0 + 1)
    simp only [countsOf, List.length_cons]; omega

theorem quick_den_le (a b : List Bytes) : (countsOf a).length + b.length ≤ a.length + b.length :=
  Nat.add_le_add_right (countsOf_length_le a) _

theorem countsOf_length_pos (x : Bytes) (xs : List Bytes) : 0 < (countsOf (x :: xs)).length := by
  simp only [countsOf]; exact Counts.set_length_pos _ _ _

/-- the quick denominator vanishes only together with the real one -/
theorem quick_den_zero {a b : List Bytes} (h : (countsOf a).length + b.length = 0) : a.length + b.length = 0 := by
  cases a with
  | nil => simpa [countsOf] using h
  | cons x xs => have := countsOf_length_pos x xs; omega

theorem countsOf_get (a : List Bytes) (x : Bytes) : ((countsOf a).get x).getD 0 = (a.count x : Int) := by
  induction a with
  | nil => simp [countsOf, Counts.get]
  | cons y ys ih =>
    simp only [countsOf, Counts.get_set, List.count_cons, beq_iff_eq]
    by_cases hy : y = x
    · subst hy; simp only [if_true, Option.getD_some, ih]; omega
    · simp only [hy, if_false, ih]; omega

/-- the remaining count `quickLoop` reads for token `x` -/
def remOf (word av : Counts) (x : Bytes) : Int :=
  match av.get x with
  | some c => c
  | none => (word.get x).getD 0

def upd (rem : Bytes → Int) (x : Bytes) (v : Int) : Bytes → Int := fun y => if x = y then v else rem y

/-- `quickLoop` over an abstract remaining-count function -/
def ql (rem : Bytes → Int) : List Bytes → Nat
  | [] => 0
  | x :: xs => (if 0 < rem x then 1 else 0) + ql (upd rem x (rem x - 1)) xs

theorem remOf_set (word av : Counts) (x : Bytes) (v : Int) : remOf word (av.set x v) = upd (remOf word av) x v := by
  funext y
  simp only [remOf, upd, Counts.get_set]
  by_cases h : x = y
  · simp only [h, if_true]
  · simp only [h, if_false]

theorem quickLoop_eq_ql (word : Counts) : ∀ (l : List Bytes) (av : Counts),
    quickLoop word av l = ql (remOf word av) l := by
  intro l
  induction l with
  | nil => intro av; rfl
  | cons x xs ih =>
    intro av
    simp only [quickLoop, ql, ih, remOf_set]
    rfl

theorem upd_upd_same (rem : Bytes → Int) (x : Bytes) (v w : Int) : upd (upd rem x v) x w = upd rem x w := by
  funext y; unfold upd; split <;> rfl

theorem upd_comm (rem : Bytes → Int) {x y : Bytes} (h : x ≠ y) (v w : Int) :
    upd (upd rem x v) y w = upd (upd rem y w) x v := by
  funext z; unfold upd
  by_cases h1 : y = z
  · subst h1; simp [h]
  · simp [h1]

/-- lowering one remaining count by one loses at most one match (none if it was not positive) -/
theorem ql_dec : ∀ (l : List Bytes) (rem : Bytes → Int) (y : Bytes),
    ql rem l ≤ (if 0 < rem y then 1 else 0) + ql (upd rem y (rem y - 1)) l := by
  intro l
  induction l with
  | nil => intro rem y; simp [ql]
  | cons z zs ih =>
    intro rem y
    by_cases hzy : y = z
    · subst hzy
      have h := ih (upd rem y (rem y - 1)) y
      have e1 : upd rem y (rem y - 1) y = rem y - 1 := by simp [upd]
      rw [e1, upd_upd_same] at h
      simp only [ql, e1, upd_upd_same]
      omega
    · have h := ih (upd rem z (rem z - 1)) y
      have e1 : upd rem z (rem z - 1) y = rem y := by
        simp only [upd]; rw [if_neg (fun h => hzy h.symm)]
      have e2 : upd rem y (rem y - 1) z = rem z := by
        simp only [upd]; rw [if_neg hzy]
      rw [e1, upd_comm rem (fun h => hzy h.symm)] at h
      simp only [ql, e2]
      omega

/-- LCS length of two lists, the textbook recursion -/
def lcsL : List Bytes → List Bytes → Nat
  | [], _ => 0
  | _ :: _, [] => 0
  | x :: xs, y :: ys => if y = x then lcsL xs ys + 1 else max (lcsL xs (y :: ys)) (lcsL (x :: xs) ys)
termination_by a b => a.length + b.length

/-- every common subsequence is a sub-multiset of both lists -/
theorem lcsL_le_ql : ∀ (s : Nat) (a b : List Bytes) (rem : Bytes → Int), a.length + b.length < s →
    (∀ x, (a.count x : Int) ≤ rem x) → lcsL a b ≤ ql rem b := by
  intro s
  induction s with
  | zero => intro a b rem h; omega
  | succ s ih =>
    intro a b rem hs hc
    cases a with
    | nil => simp [lcsL]
    | cons x xs =>
      cases b with
      | nil => simp [lcsL]
      | cons y ys =>
        simp only [List.length_cons] at hs
        unfold lcsL
        split
        · next hyx =>
          subst hyx
          have hy := hc y
          simp only [List.count_cons_self] at hy
          have := ih xs ys (upd rem y (rem y - 1)) (by omega) (by
            intro z
            have hz := hc z
            simp only [List.count_cons, beq_iff_eq] at hz
            unfold upd
            split
            · next h => subst h; simp only [if_true] at hz; omega
            · next h => simp only [h, if_false] at hz; omega)
          simp only [ql]
          have : 0 < rem y := by omega
          simp only [this, if_true]; omega
        · have h1 := ih xs (y :: ys) rem (by simp only [List.length_cons]; omega) (by
            intro z
            have hz := hc z
            simp only [List.count_cons] at hz
            omega)
          have h2 := ih (x :: xs) ys rem (by simp only [List.length_cons]; omega) hc
          have h3 := ql_dec ys rem y
          simp only [ql] at h1 ⊢
          omega

/-- `Spec.lcsLen` on index ranges whose equality is that of two token lists is `lcsL` of the lists -/
theorem lcsLen_eq_lcsL (e : Nat → Nat → Bool) : ∀ (s : Nat) (as bs : List Bytes) (i j : Nat),
    as.length + bs.length < s →
    (∀ u t, as[u]? ≠ none → bs[t]? ≠ none → e (i+u) (j+t) = decide (bs[t]? = as[u]?)) →
    lcsLen e as.length bs.length i j = lcsL as bs := by
  intro s
  induction s with
  | zero => intro as bs i j h; omega
  | succ s ih =>
    intro as bs i j hs he
    cases as with
    | nil => simp [lcsL]
    | cons x xs =>
      cases bs with
      | nil => simp [lcsL]
      | cons y ys =>
        simp only [List.length_cons] at hs
        have h00 := he 0 0 (by simp) (by simp)
        simp only [Nat.add_zero, List.getElem?_cons_zero, Option.some.injEq] at h00
        have hA : lcsLen e xs.length ys.length (i+1) (j+1) = lcsL xs ys :=
          ih xs ys (i+1) (j+1) (by omega) (by
            intro u t hu ht
            have := he (u+1) (t+1) (by simpa using hu) (by simpa using ht)
            simp only [List.getElem?_cons_succ] at this
            rw [← this]; congr 1 <;> omega)
        have hB : lcsLen e xs.length (ys.length+1) (i+1) j = lcsL xs (y :: ys) :=
          ih xs (y :: ys) (i+1) j (by simp only [List.length_cons]; omega) (by
            intro u t hu ht
            have := he (u+1) t (by simpa using hu) ht
            simp only [List.getElem?_cons_succ] at this
            rw [← this]; congr 1; omega)
        have hC : lcsLen e (xs.length+1) ys.length i (j+1) = lcsL (x :: xs) ys :=
          ih (x :: xs) ys i (j+1) (by simp only [List.length_cons]; omega) (by
            intro u t hu ht
            have := he u (t+1) hu (by simpa using ht)
            simp only [List.getElem?_cons_succ] at this
            rw [← this]; congr 1; omega)
        simp only [List.length_cons]
        rw [LcsMin.lcsLen_succ, lcsL, hA, hB, hC, h00]
        by_cases hyx : y = x <;> simp [hyx]

theorem tokEq_spec (a b : List Bytes) (u t : Nat) (hu : a[u]? ≠ none) (ht : b[t]? ≠ none) :
    tokEq a b u t = decide (b[t]? = a[u]?) := by
  unfold tokEq
  cases h1 : a[u]? with
  | none => exact absurd h1 hu
  | some x => cases h2 : b[t]? with
    | none => exact absurd h2 ht
    | some y =>
      simp only [Option.some.injEq]
      by_cases h : y = x <;> simp [h]

theorem lcsLen_tokEq (a b : List Bytes) : lcsLen (tokEq a b) a.length b.length 0 0 = lcsL a b :=
  lcsLen_eq_lcsL _ _ a b 0 0 (Nat.lt_succ_self _) (by
    intro u t hu ht
    simp only [Nat.zero_add]; exact tokEq_spec a b u t hu ht)

/-- (ii) the multiset-intersection count of `QuickSeqRatio::calc` is at least the LCS length -/
theorem lcsLen_le_quick (a b : List Bytes) :
    lcsLen (tokEq a b) a.length b.length 0 0 ≤ quickLoop (countsOf a) [] b := by
  rw [lcsLen_tokEq, quickLoop_eq_ql]
  refine lcsL_le_ql _ a b _ (Nat.lt_succ_self _) ?_
  intro x
  have : remOf (countsOf a) [] x = ((countsOf a).get x).getD 0 := rfl
  rw [this, countsOf_get]
  exact Int.le_refl _

/-- (ii) for any valid script: `matches ≤ quick matches` -/
theorem matches_le_quick {a b : List Bytes} {ops : List Op}
    (hw : Walk (tokEq a b) 0 0 ops a.length b.length) : nEq ops ≤ quickLoop (countsOf a) [] b :=
  Nat.le_trans (LcsMin.walk_nEq_le ops 0 0 _ _ hw) (lcsLen_le_quick a b)

/-- (ii) cross-multiplied: `2*matches/(|a|+|b|) ≤ 2*quick/(distinct(a)+|b|)` -/
theorem quick_bound_exact {a b : List Bytes} {ops : List Op}
    (hw : Walk (tokEq a b) 0 0 ops a.length b.length) :
    2 * nEq ops * ((countsOf a).length + b.length) ≤
      2 * quickLoop (countsOf a) [] b * (a.length + b.length) :=
  Nat.mul_le_mul (Nat.mul_le_mul_left _ (matches_le_quick hw)) (quick_den_le a b)

/-! ## (3) monotone rounding: the filters never discard a candidate that meets the cutoff -/

/-- What the filter argument needs of a rounded ratio `r a b` (the `f32` value of `2a/b`, a constant when
`b = 0`) and of `≤` on its values: `r` is monotone in the numerator and, for positive denominators,
antitone in the denominator.  The theorems of this section hold for every such rounding; the model's
`ratioF` = `F32.ratio` is one (`ratio_rnd` in section (4), proved from the definitions: `as f32`,
`2.0 * ·` and `· / ·` round monotonically), as are the exact fractions (`exact_rnd`). -/
structure Rnd {κ : Type} (r : Nat → Nat → κ) (le : κ → κ → Prop) : Prop where
  trans : ∀ x y z, le x y → le y z → le x z
  mono_num : ∀ a a' b, a ≤ a' → le (r a b) (r a' b)
  anti_den : ∀ a b b', 0 < b → b ≤ b' → le (r a b') (r a b)

/-- exact fractions: `a/b ≤ a'/b'` with the numerators and denominators ordered the right way round -/
theorem Rnd.le_of_le {κ : Type} {r : Nat → Nat → κ} {le : κ → κ → Prop} (R : Rnd r le)
    {a a' b b' : Nat} (ha : a ≤ a') (hb : b' ≤ b) (h0 : b' = 0 → b = 0) : le (r a b) (r a' b') := by
  by_cases hz : b' = 0
  · have : b = 0 := h0 hz
    subst hz; subst this; exact R.mono_num _ _ _ ha
  · exact R.trans _ _ _ (R.mono_num a a' b ha) (R.anti_den a' b' b (by omega) hb)

/-- **C18, filter part.** If the (rounded) real ratio `r matches (|a|+|b|)` of a valid script meets the
cutoff `c`, so do both filter values: `upper_seq_ratio` = `r (min |a| |b|) (|a|+|b|)` and
`QuickSeqRatio::calc` = `r quickMatches (distinct(a)+|b|)`. -/
theorem filters_keep {κ : Type} {r : Nat → Nat → κ} {le : κ → κ → Prop} (R : Rnd r le)
    {a b : List Bytes} {ops : List Op} (hw : Walk (tokEq a b) 0 0 ops a.length b.length) (c : κ)
    (h : le c (r (nEq ops) (a.length + b.length))) :
    le c (r (min a.length b.length) (a.length + b.length)) ∧
    le c (r (quickLoop (countsOf a) [] b) ((countsOf a).length + b.length)) := by
  refine ⟨R.trans _ _ _ h (R.mono_num _ _ _ (matches_le_min hw)), R.trans _ _ _ h ?_⟩
  exact R.le_of_le (matches_le_quick hw) (quick_den_le a b) (fun h0 => quick_den_zero h0)

/-- the same with the discarding test `value < cutoff` spelled out: given that `c ≤ v` excludes `v < c` -/
theorem filters_never_discard {κ : Type} {r : Nat → Nat → κ} {le : κ → κ → Prop} (lt : κ → κ → Prop)
    (R : Rnd r le) (hlt : ∀ c v, le c v → ¬ lt v c)
    {a b : List Bytes} {ops : List Op} (hw : Walk (tokEq a b) 0 0 ops a.length b.length) (c : κ)
    (h : le c (r (nEq ops) (a.length + b.length))) :
    ¬ (lt (r (min a.length b.length) (a.length + b.length)) c ∨
       lt (r (quickLoop (countsOf a) [] b) ((countsOf a).length + b.length)) c) := by
  have := filters_keep R hw c h
  intro h'
  rcases h' with h' | h'
  · exact hlt _ _ this.1 h'
  · exact hlt _ _ this.2 h'

/-- the model's filter values are `r` at exactly these arguments, for `r = ratioF` -/
theorem filter_values (a b : List Bytes) :
    upperSeqRatio a.length b.length = ratioF (min a.length b.length) (a.length + b.length) ∧
    quickRatio a b = ratioF (quickLoop (countsOf a) [] b) ((countsOf a).length + b.length) := ⟨rfl, rfl⟩

/-- exact rationals satisfy `Rnd` (the hypothesis is satisfiable): `r a b = 2a/b` as a pair compared by
cross-multiplication, `1/1` when `b = 0` -/
def exactR (a b : Nat) : Nat × Nat := if b = 0 then (1, 1) else (2 * a, b)
def exactLe (x y : Nat × Nat) : Prop := 0 < x.2 ∧ 0 < y.2 ∧ x.1 * y.2 ≤ y.1 * x.2

theorem exactR_pos (a b : Nat) : 0 < (exactR a b).2 := by
  unfold exactR; split <;> simp <;> omega

theorem exact_rnd : Rnd exactR exactLe := by
  refine ⟨?_, ?_, ?_⟩
  · rintro ⟨a, b⟩ ⟨c, d⟩ ⟨e, f⟩ ⟨hb, hd, h1⟩ ⟨_, hf, h2⟩
    refine ⟨hb, hf, ?_⟩
    simp only at *
    apply Nat.le_of_mul_le_mul_right _ hd
    calc a * f * d = a * d * f := by rw [Nat.mul_right_comm]
      _ ≤ c * b * f := Nat.mul_le_mul_right _ h1
      _ = c * f * b := by rw [Nat.mul_right_comm]
      _ ≤ e * d * b := Nat.mul_le_mul_right _ h2
      _ = e * b * d := by rw [Nat.mul_right_comm]
  · intro a a' b h
    refine ⟨exactR_pos _ _, exactR_pos _ _, ?_⟩
    unfold exactR
    split
    · exact Nat.le_refl _
    · exact Nat.mul_le_mul_right _ (Nat.mul_le_mul_left _ h)
  · intro a b b' h0 h
    refine ⟨exactR_pos _ _, exactR_pos _ _, ?_⟩
    unfold exactR
    rw [if_neg (by omega), if_neg (by omega)]
    exact Nat.mul_le_mul_left _ h
/-! ## (4) the soft-float ratio is a monotone rounding: no hypothesis left -/

/-- **the model's `f32` ratio satisfies `Rnd`**, with the order of the bit patterns (which is the IEEE
order on the values a ratio can take, `F32.lt_iff` / `F32.ge_iff`); no size bound is needed because
`F32.rnd` is monotone on all non-negative rationals -/
theorem ratio_rnd : Rnd (fun a b => F32.ratio a b) (fun x y : Nat => x ≤ y) :=
  ⟨fun _ _ _ => Nat.le_trans, fun _ _ b h => F32.ratio_mono_num b h, fun a _ _ h0 h => F32.ratio_anti_den a h0 h⟩

/-- both filter values are at least the real (rounded) ratio of any valid script, as bit patterns -/
theorem filters_ge_ratio {a b : List Bytes} {ops : List Op} (hw : Walk (tokEq a b) 0 0 ops a.length b.length) :
    ratioF (nEq ops) (a.length + b.length) ≤ upperSeqRatio a.length b.length ∧
    ratioF (nEq ops) (a.length + b.length) ≤ quickRatio a b :=
  filters_keep ratio_rnd hw _ (Nat.le_refl _)

/-- **C18, filter part, for the model's actual `f32` values, hypothesis-free**: if the final test
`ratio >= cutoff` passes for the ratio of a valid script `ops` of the two token lists, then neither
pre-filter test `upper_seq_ratio < cutoff`, `quick_ratio < cutoff` fires — for EVERY cutoff bit pattern
(negative, zero, subnormal, infinite, NaN) and token lists of any length. -/
theorem filters_never_discard_f32 {a b : List Bytes} {ops : List Op}
    (hw : Walk (tokEq a b) 0 0 ops a.length b.length) (cutoff : Nat)
    (h : F32.ge (ratioF (nEq ops) (a.length + b.length)) cutoff = true) :
    F32.lt (upperSeqRatio a.length b.length) cutoff = false ∧ F32.lt (quickRatio a b) cutoff = false := by
  obtain ⟨h1, h2⟩ := filters_ge_ratio hw
  exact ⟨F32.not_lt_of_ge (F32.ge_mono cutoff h1 (F32.ratio_le_inf _ _) h),
    F32.not_lt_of_ge (F32.ge_mono cutoff h2 (F32.ratio_le_inf _ _) h)⟩

/-- non-vacuity: word "ab", candidate "ac" (tokens `a b` / `a c`), script Equal·Replace, cutoff `0.5` -/
example : F32.lt (upperSeqRatio 2 2) F32.half = false ∧ F32.lt (quickRatio [[97], [98]] [[97], [99]]) F32.half = false :=
  filters_never_discard_f32 (a := [[97], [98]]) (b := [[97], [99]]) (ops := [.equal 0 0 1, .replace 1 1 1 1])
    (by
      refine ⟨rfl, rfl, by decide, ?_, rfl, rfl, by decide, by decide, rfl, rfl⟩
      intro t ht
      have : t = 0 := by omega
      subst this; decide) F32.half (by decide)

/-! ### heap keys: `to_bits` is order preserving and injective on ratios -/

theorem toUInt32_lt_iff {x y : Nat} (hx : x < 2^32) (hy : y < 2^32) : x.toUInt32 < y.toUInt32 ↔ x < y := by
  rw [UInt32.lt_iff_toNat_lt, Nat.toUInt32_eq, Nat.toUInt32_eq, UInt32.toNat_ofNat', UInt32.toNat_ofNat',
    Nat.mod_eq_of_lt hx, Nat.mod_eq_of_lt hy]

theorem toUInt32_inj {x y : Nat} (hx : x < 2^32) (hy : y < 2^32) : x.toUInt32 = y.toUInt32 ↔ x = y := by
  rw [← UInt32.toNat_inj, Nat.toUInt32_eq, Nat.toUInt32_eq, UInt32.toNat_ofNat', UInt32.toNat_ofNat',
    Nat.mod_eq_of_lt hx, Nat.mod_eq_of_lt hy]

theorem inf_lt : F32.inf < 2^32 := by decide

/-- on non-negative non-NaN patterns (all ratios): key order = IEEE order of the floats -/
theorem key_lt_iff {x y : Nat} (hx : x ≤ F32.inf) (hy : y ≤ F32.inf) :
    x.toUInt32 < y.toUInt32 ↔ F32.lt x y = true := by
  have := inf_lt
  rw [toUInt32_lt_iff (by omega) (by omega), F32.lt_iff hx hy]

theorem key_eq_iff {x y : Nat} (hx : x ≤ F32.inf) (hy : y ≤ F32.inf) : x.toUInt32 = y.toUInt32 ↔ x = y := by
  have := inf_lt
  exact toUInt32_inj (by omega) (by omega)

end SimilarVerif.CloseP

import SimilarVerif.Lemmas.Patience
import SimilarVerif.Lemmas.MyersGenericOpt
/-! Patience: (P1) totality over the recording hook for every clock, (P2) the size clause of C15 —
without a deadline every anchor of a longest common in-order subsequence of the unique items is
reported inside an `equal`. -/
namespace SimilarVerif.PatienceT
open Spec MyersP MyersG MyersT MyersGO PatienceP

/-! ## `unique` returns when the same-side comparisons are in bounds -/

theorem countEq_total (eq : Nat → Nat → Option Bool) (i s : Nat) : ∀ (len : Nat),
    (∀ k, k < len → (eq i (s + k)).isSome) → ∃ c, countEq eq i s len = some c := by
  intro len
  induction len with
  | zero => intro _; exact ⟨0, rfl⟩
  | succ l ih =>
    intro h
    obtain ⟨c, hc⟩ := ih (fun k hk => h k (by omega))
    have h1 := h l (by omega)
    cases hb : eq i (s + l) with
    | none => rw [hb] at h1; simp at h1
    | some b => exact ⟨if b then c + 1 else c, by simp [countEq, hb, hc]⟩

theorem uniqueGo_total (eq : Nat → Nat → Option Bool) (s e : Nat)
    (hb : ∀ i j, s ≤ i → i < e → s ≤ j → j < e → (eq i j).isSome) : ∀ (cnt i : Nat),
    s ≤ i → i + cnt ≤ e → ∃ l, uniqueGo eq s e cnt i = some l := by
  intro cnt
  induction cnt with
  | zero => intro i _ _; exact ⟨[], rfl⟩
  | succ c ih =>
    intro i h1 h2
    obtain ⟨rest, hr⟩ := ih (i+1) (by omega) (by omega)
    obtain ⟨cn, hc⟩ := countEq_total eq i s (e - s) (fun k hk => hb i (s+k) h1 (by omega) (by omega) (by omega))
    exact ⟨if cn == 1 then i :: rest else rest, by simp [uniqueGo, hr, hc]⟩

/-- **`unique` is total** on a range whose same-side comparisons are defined -/
theorem unique_total (eq : Nat → Nat → Option Bool) (s e : Nat)
    (hb : ∀ i j, s ≤ i → i < e → s ≤ j → j < e → (eq i j).isSome) : ∃ l, unique eq s e = some l := by
  unfold unique
  by_cases h : s ≤ e
  · exact uniqueGo_total eq s e hb (e - s) s (Nat.le_refl _) (by omega)
  · have : e - s = 0 := by omega
    rw [this]; exact ⟨[], rfl⟩

/-! ## Myers over the (un)finished recording hook started in any non-failing state returns -/

theorem noFinish_recHook_inv (e : Nat → Nat → Bool) (P : Prop) (os ns oe ne : Nat) :
    HookInv (noFinishHook recHook) e P os ns oe ne (fun _ r => r.failAt = none) :=
  fun ops x o n s0 w0 hp ho hn hi => recHook_inv e P os ns oe ne ops x o n s0 w0 hp ho hn hi

theorem myers_rec_total (E : Env) (os oe ns ne : Nat) (r : Rec) (w : World) (hf : r.failAt = none)
    (ho : os ≤ oe) (hn : ns ≤ ne) (hb : InBounds E os oe ns ne) :
    ∃ r' w', myersDiff E recHook os oe ns ne r w = .ok (r', w') := by
  obtain ⟨s', w', _, _, _, h, _⟩ := myersDiff_generic_total E recHook False (fun hp => hp.elim)
    (fun _ r => r.failAt = none) (fun _ => True) os oe ns ne r w (recHook_inv _ _ _ _ _ _)
    (fun ops s1 w1 _ hf => by simp [recHook, Rec.push, hf, Except.map]) ho hn hb (fun hp => hp.elim) hf
  exact ⟨s', w', h⟩

theorem myers_noFinish_total (E : Env) (os oe ns ne : Nat) (r : Rec) (w : World) (hf : r.failAt = none)
    (ho : os ≤ oe) (hn : ns ≤ ne) (hb : InBounds E os oe ns ne) :
    ∃ r' w', myersDiff E (noFinishHook recHook) os oe ns ne r w = .ok (r', w') := by
  obtain ⟨s', w', _, _, _, h, _⟩ := myersDiff_generic_total E (noFinishHook recHook) False (fun hp => hp.elim)
    (fun _ r => r.failAt = none) (fun _ => True) os oe ns ne r w (noFinish_recHook_inv _ _ _ _ _ _)
    (fun ops s1 w1 _ hf => by simp [noFinishHook]) ho hn hb (fun hp => hp.elim) hf
  exact ⟨s', w', h⟩

/-! ## `patScan`, `patAnchor`, `patEqual` return -/

theorem patScan_total (E : Env) (a b : Nat) : ∀ (fuel oc nc : Nat) (w : World),
    min (a - oc) (b - nc) ≤ fuel →
    (∀ i j, oc ≤ i → i < a → nc ≤ j → j < b → (E.on i j).isSome) →
    ∃ res, patScan E a b fuel oc nc w = .ok res := by
  intro fuel
  induction fuel with
  | zero =>
    intro oc nc w hf _
    have : ¬ (oc < a ∧ nc < b) := by omega
    simp [patScan, this]
  | succ f ih =>
    intro oc nc w hf hb
    simp only [patScan]
    split
    · rename_i hcond
      simp only [Bool.and_eq_true, decide_eq_true_eq] at hcond
      obtain ⟨bv, hc, _⟩ := cmp_total (E := E) w (hb oc nc (Nat.le_refl _) hcond.1 (Nat.le_refl _) hcond.2)
      rw [hc]
      cases bv with
      | true => exact ih _ _ _ (by omega) (fun i j h1 h2 h3 h4 => hb i j (by omega) h2 (by omega) h4)
      | false => exact ⟨_, rfl⟩
    · exact ⟨_, rfl⟩

theorem emit_rec_total {x : Op} {r : Rec} (w : World) (hf : r.failAt = none)
    (hx : ∀ o ol n nl, x ≠ .replace o ol n nl) : ∃ r', emit recHook x r w = .ok (r', w) := by
  cases x with
  | replace o ol n nl => exact absurd rfl (hx o ol n nl)
  | _ => simp [emit, recHook, Rec.push, hf, Except.map]

section
variable (E : Env) (os oe ns ne : Nat) (hb : InBounds E os oe ns ne)
  (uo un : Array Nat) (hao : Asc uo os oe) (han : Asc un ns ne)
include hb hao han

theorem patAnchor_total (i j a b : Nat) (p : PState) (r : Rec) (w : World)
    (hinv : UserInv E os oe ns ne p r) (hcb : CB uo un p i j)
    (hua : uo[i]? = some a) (hub : un[j]? = some b) :
    ∃ res, patAnchor E recHook uo un i j p r w = .ok res := by
  have hoa : p.oc ≤ a := hcb.1 i a (Nat.le_refl _) hua
  have hnb : p.nc ≤ b := hcb.2 j b (Nat.le_refl _) hub
  have hra := hao.range i a hua
  have hrb := han.range j b hub
  obtain ⟨h1, h2, h3, h4, out, sg⟩ := hinv
  have hf : r.failAt = none := sg.failAt rfl
  unfold patAnchor
  simp only [hua, hub]
  obtain ⟨⟨oc, nc, w1⟩, hscan⟩ := patScan_total E a b (min (a - p.oc) (b - p.nc)) p.oc p.nc w (Nat.le_refl _)
    (fun i j q1 q2 q3 q4 => hb i j (by omega) (by omega) (by omega) (by omega))
  obtain ⟨k, rfl, rfl, -, hk4, hk5⟩ := patScan_spec E a b _ _ _ _ _ _ _ hscan
  rw [hscan]
  simp only
  have hem : ∃ r1 w2, (if p.oc < p.oc + k then emit recHook (.equal p.oc p.nc (p.oc + k - p.oc)) r w1
      else .ok (r, w1)) = .ok (r1, w2) ∧ r1.failAt = none := by
    split
    · obtain ⟨r1, hr1⟩ := emit_rec_total (x := .equal p.oc p.nc (p.oc + k - p.oc)) w1 hf (by intros; simp)
      exact ⟨r1, w1, hr1, by rw [(emit_rec hf (by intros; simp) hr1).1.failAt]; exact hf⟩
    · exact ⟨r, w1, rfl, hf⟩
  obtain ⟨r1, w2, hem, hf1⟩ := hem
  rw [hem]
  simp only
  obtain ⟨r2, w3, hmy⟩ := myers_noFinish_total E (p.oc + k) a (p.nc + k) b r1 w2 hf1 (hk4 hoa) (hk5 hnb)
    (InBounds_sub hb (by omega) (by omega) (by omega) (by omega))
  rw [hmy]
  exact ⟨_, rfl⟩

theorem patEqual_total : ∀ (len i j : Nat) (p : PState) (r : Rec) (w : World),
    UserInv E os oe ns ne p r → CB uo un p i j → i + len ≤ uo.size → j + len ≤ un.size →
    ∃ res, patEqual E recHook uo un len i j p r w = .ok res := by
  intro len
  induction len with
  | zero => intro i j p r w _ _ _ _; exact ⟨_, rfl⟩
  | succ l ih =>
    intro i j p r w hinv hcb hi hj
    have hua : uo[i]? = some uo[i] := by simp [show i < uo.size by omega]
    have hub : un[j]? = some un[j] := by simp [show j < un.size by omega]
    obtain ⟨⟨p1, r1, w1⟩, han1⟩ := patAnchor_total E os oe ns ne hb uo un hao han i j _ _ p r w hinv hcb hua hub
    obtain ⟨hinv1, hu1, hu2⟩ := patAnchor_sound E (snake_in_box E) os oe ns ne hb uo un hao han i j p r w p1 r1 w1 hinv hcb han1
    have hcb1 : CB uo un p1 (i+1) (j+1) :=
      ⟨fun k a hk hka => Nat.le_of_lt (hao.mono i k _ a (by omega) hu1 hka),
       fun k b hk hkb => Nat.le_of_lt (han.mono j k _ b (by omega) hu2 hkb)⟩
    simp only [patEqual, han1]
    exact ih (i+1) (j+1) p1 r1 w1 hinv1 hcb1 (by omega) (by omega)

end

/-! ## `Replace`: what the flushes do to its own state, and the contiguity its assertions need -/

theorem rFlushEq_fields {σ} {h : Hook σ} {r r' : RState} {s s' : σ} {w w' : World}
    (hc : rFlushEq h r s w = .ok (r', s', w')) : r'.del = r.del ∧ r'.ins = r.ins ∧ r'.eq = none := by
  unfold rFlushEq at hc
  split at hc
  · split at hc
    · simp at hc
    · simp only [Except.ok.injEq, Prod.mk.injEq] at hc
      obtain ⟨rfl, -, -⟩ := hc
      exact ⟨rfl, rfl, rfl⟩
  · rename_i heq
    simp only [Except.ok.injEq, Prod.mk.injEq] at hc
    obtain ⟨rfl, -, -⟩ := hc
    exact ⟨rfl, rfl, heq⟩

theorem rFlushDelIns_fields {σ} {h : Hook σ} {r r' : RState} {s s' : σ} {w w' : World}
    (hc : rFlushDelIns h r s w = .ok (r', s', w')) : r'.del = none ∧ r'.ins = none ∧ r'.eq = r.eq := by
  unfold rFlushDelIns at hc
  split at hc
  · split at hc
    · simp at hc
    · simp only [Except.ok.injEq, Prod.mk.injEq] at hc
      obtain ⟨rfl, -, -⟩ := hc
      exact ⟨rfl, rfl, rfl⟩
  · rename_i h1 h2
    split at hc
    · simp at hc
    · simp only [Except.ok.injEq, Prod.mk.injEq] at hc
      obtain ⟨rfl, -, -⟩ := hc
      exact ⟨rfl, h2, rfl⟩
  · rename_i h1 h2
    split at hc
    · simp at hc
    · simp only [Except.ok.injEq, Prod.mk.injEq] at hc
      obtain ⟨rfl, -, -⟩ := hc
      exact ⟨h1, rfl, rfl⟩
  · rename_i h1 h2
    simp only [Except.ok.injEq, Prod.mk.injEq] at hc
    obtain ⟨rfl, -, -⟩ := hc
    exact ⟨h1, h2, rfl⟩

/-- the pending delete ends at the current old position, the pending insert at the current new one:
what `Replace`'s two `debug_assert_eq!` check -/
def Contig (i j : Nat) (rs : RState) : Prop :=
  (∀ d_o dl dn, rs.del = some (d_o, dl, dn) → d_o + dl = i) ∧
  (∀ io i_n il, rs.ins = some (io, i_n, il) → i_n + il = j)

theorem contig_equal {σ} {h : Hook σ} {i j l : Nat} {co cn : Nat} {rs rs' : RState} {s s' : σ} {w w' : World}
    (hc : (replaceHook h).call (.op (.equal co cn l)) (rs, s) w = .ok ((rs', s'), w')) :
    Contig (i + l) (j + l) rs' := by
  simp only [replaceHook] at hc
  split at hc
  · simp at hc
  · rename_i rs1 s1 w1 hfl
    obtain ⟨h1, h2, -⟩ := rFlushDelIns_fields hfl
    split at hc <;>
    · simp only [Except.ok.injEq, Prod.mk.injEq] at hc
      obtain ⟨⟨rfl, -⟩, -⟩ := hc
      exact ⟨fun _ _ _ hd => by simp [h1] at hd, fun _ _ _ hd => by simp [h2] at hd⟩

theorem contig_delete {σ} {h : Hook σ} {i j l cn : Nat} {rs rs' : RState} {s s' : σ} {w w' : World}
    (hg : Contig i j rs)
    (hc : (replaceHook h).call (.op (.delete i l cn)) (rs, s) w = .ok ((rs', s'), w')) :
    Contig (i + l) j rs' := by
  simp only [replaceHook] at hc
  split at hc
  · simp at hc
  · rename_i rs1 s1 w1 hfl
    obtain ⟨h1, h2, -⟩ := rFlushEq_fields hfl
    split at hc
    · rename_i d_o dl dn hdel
      split at hc
      · simp only [Except.ok.injEq, Prod.mk.injEq] at hc
        obtain ⟨⟨rfl, -⟩, -⟩ := hc
        refine ⟨fun a b c hd => ?_, fun a b c hd => hg.2 a b c (by rw [← h2]; exact hd)⟩
        simp only [Option.some.injEq, Prod.mk.injEq] at hd
        have := hg.1 d_o dl dn (by rw [← h1]; exact hdel)
        omega
      · simp at hc
    · simp only [Except.ok.injEq, Prod.mk.injEq] at hc
      obtain ⟨⟨rfl, -⟩, -⟩ := hc
      refine ⟨fun a b c hd => ?_, fun a b c hd => hg.2 a b c (by rw [← h2]; exact hd)⟩
      simp only [Option.some.injEq, Prod.mk.injEq] at hd
      omega

theorem contig_insert {σ} {h : Hook σ} {i j l co : Nat} {rs rs' : RState} {s s' : σ} {w w' : World}
    (hg : Contig i j rs)
    (hc : (replaceHook h).call (.op (.insert co j l)) (rs, s) w = .ok ((rs', s'), w')) :
    Contig i (j + l) rs' := by
  simp only [replaceHook] at hc
  split at hc
  · simp at hc
  · rename_i rs1 s1 w1 hfl
    obtain ⟨h1, h2, -⟩ := rFlushEq_fields hfl
    split at hc
    · rename_i io i_n il hins
      split at hc
      · simp only [Except.ok.injEq, Prod.mk.injEq] at hc
        obtain ⟨⟨rfl, -⟩, -⟩ := hc
        refine ⟨fun a b c hd => hg.1 a b c (by rw [← h1]; exact hd), fun a b c hd => ?_⟩
        simp only [Option.some.injEq, Prod.mk.injEq] at hd
        have := hg.2 io i_n il (by rw [← h2]; exact hins)
        omega
      · simp at hc
    · simp only [Except.ok.injEq, Prod.mk.injEq] at hc
      obtain ⟨⟨rfl, -⟩, -⟩ := hc
      refine ⟨fun a b c hd => hg.1 a b c (by rw [← h1]; exact hd), fun a b c hd => ?_⟩
      simp only [Option.some.injEq, Prod.mk.injEq] at hd
      omega

/-! ## Every call of `Replace(Patience(recording hook))` made by the outer run returns -/

section
variable (E : Env) (os oe ns ne : Nat) (hb : InBounds E os oe ns ne)
  (uo un : Array Nat) (hao : Asc uo os oe) (han : Asc un ns ne)

theorem flushDelIns_pat_total (rs : RState) (p : PState) (r : Rec) (w : World) :
    ∃ res, rFlushDelIns (patienceHook E recHook uo un oe ne) rs (p, r) w = .ok res := by
  unfold rFlushDelIns
  split <;> simp [patienceHook]

theorem step_equal_total (i j l : Nat) (st : RState × PState × Rec) (w : World) :
    ∃ res, (replaceHook (patienceHook E recHook uo un oe ne)).call (.op (.equal i j l)) st w = .ok res := by
  obtain ⟨rs, p, r⟩ := st
  simp only [replaceHook]
  obtain ⟨⟨rs1, st1, w1⟩, hfl⟩ := flushDelIns_pat_total E oe ne uo un rs p r w
  rw [hfl]
  simp only
  split <;> exact ⟨_, rfl⟩

include hb hao han

theorem flushEq_pat_total (i j : Nat) (rs : RState) (p : PState) (r : Rec) (w : World)
    (hinv : UserInv E os oe ns ne p r) (hp : Pend uo un rs p i j) (hi : i ≤ uo.size) (hj : j ≤ un.size) :
    ∃ res, rFlushEq (patienceHook E recHook uo un oe ne) rs (p, r) w = .ok res := by
  unfold rFlushEq
  unfold Pend at hp
  split
  · rename_i o n l heq
    rw [heq] at hp
    obtain ⟨rfl, rfl, hcb⟩ := hp
    obtain ⟨⟨p1, r1, w1⟩, hpe⟩ := patEqual_total E os oe ns ne hb uo un hao han l o n p r w hinv hcb hi hj
    simp [patienceHook, hpe]
  · exact ⟨_, rfl⟩

theorem step_delete_total (i j l cn : Nat) (st : RState × PState × Rec) (w : World)
    (hinv : HInv E os oe ns ne uo un i j st) (hg : Contig i j st.1) (hi : i ≤ uo.size) (hj : j ≤ un.size) :
    ∃ res, (replaceHook (patienceHook E recHook uo un oe ne)).call (.op (.delete i l cn)) st w = .ok res := by
  obtain ⟨rs, p, r⟩ := st
  obtain ⟨hu, hp⟩ := hinv
  simp only at hu hp hg
  simp only [replaceHook]
  obtain ⟨⟨rs1, st1, w1⟩, hfl⟩ := flushEq_pat_total E os oe ns ne hb uo un hao han i j rs p r w hu hp hi hj
  obtain ⟨h1, -, -⟩ := rFlushEq_fields hfl
  rw [hfl]
  simp only
  split
  · rename_i d_o dl dn hdel
    have := hg.1 d_o dl dn (by rw [← h1]; exact hdel)
    simp [this]
  · exact ⟨_, rfl⟩

theorem step_insert_total (i j l co : Nat) (st : RState × PState × Rec) (w : World)
    (hinv : HInv E os oe ns ne uo un i j st) (hg : Contig i j st.1) (hi : i ≤ uo.size) (hj : j ≤ un.size) :
    ∃ res, (replaceHook (patienceHook E recHook uo un oe ne)).call (.op (.insert co j l)) st w = .ok res := by
  obtain ⟨rs, p, r⟩ := st
  obtain ⟨hu, hp⟩ := hinv
  simp only at hu hp hg
  simp only [replaceHook]
  obtain ⟨⟨rs1, st1, w1⟩, hfl⟩ := flushEq_pat_total E os oe ns ne hb uo un hao han i j rs p r w hu hp hi hj
  obtain ⟨-, h2, -⟩ := rFlushEq_fields hfl
  rw [hfl]
  simp only
  split
  · rename_i io i_n il hins
    have := hg.2 io i_n il (by rw [← h2]; exact hins)
    simp [this]
  · exact ⟨_, rfl⟩

theorem step_finish_total (i j : Nat) (st : RState × PState × Rec) (w : World)
    (hinv : HInv E os oe ns ne uo un i j st) (hi : i ≤ uo.size) (hj : j ≤ un.size) :
    ∃ res, (replaceHook (patienceHook E recHook uo un oe ne)).call .finish st w = .ok res := by
  obtain ⟨rs, p, r⟩ := st
  obtain ⟨hu, hp⟩ := hinv
  simp only at hu hp
  simp only [replaceHook]
  obtain ⟨⟨rs1, ⟨p1, r1⟩, w1⟩, hfl⟩ := flushEq_pat_total E os oe ns ne hb uo un hao han i j rs p r w hu hp hi hj
  obtain ⟨hu1, -, -⟩ := flushEq_pat E (snake_in_box E) os oe ns ne hb uo un hao han i j rs p r w rs1 p1 r1 w1 hu hp hfl
  rw [hfl]
  simp only
  obtain ⟨⟨rs2, st2, w2⟩, hfl2⟩ := flushDelIns_pat_total E oe ne uo un rs1 p1 r1 w1
  obtain ⟨rfl, -⟩ := flushDelIns_pat E oe ne uo un rs1 p1 r1 w1 rs2 st2 w2 hfl2
  rw [hfl2]
  simp only
  obtain ⟨h1, h2, h3, h4, out, sg⟩ := hu1
  obtain ⟨r3, w3, hmy⟩ := myers_rec_total E p1.oc oe p1.nc ne r1 w2 (sg.failAt rfl) h2 h4
    (InBounds_sub hb h1 (Nat.le_refl _) h3 (Nat.le_refl _))
  simp [patienceHook, hmy]

end

/-! ## P1: totality -/

/-- the invariant of the outer run at outer position `(i, j)`, including `Replace`'s contiguity -/
def OInv (E : Env) (os oe ns ne : Nat) (uo un : Array Nat) (i j : Nat) (st : RState × PState × Rec) : Prop :=
  HInv E os oe ns ne uo un i j st ∧ Contig i j st.1

/-- … indexed by the outer ops delivered so far (their end position is determined by the counts) -/
def OInvAt (E : Env) (os oe ns ne : Nat) (uo un : Array Nat) (ops : List Op) (st : RState × PState × Rec) : Prop :=
  OInv E os oe ns ne uo un (nDel ops + nEq ops) (nIns ops + nEq ops) st

theorem oinv_init (E : Env) (os oe ns ne : Nat) (ho : os ≤ oe) (hn : ns ≤ ne) (uo un : Array Nat)
    (hao : Asc uo os oe) (han : Asc un ns ne) :
    OInv E os oe ns ne uo un 0 0 (({} : RState), ({ oc := os, nc := ns } : PState), ({} : Rec)) := by
  refine ⟨⟨⟨Nat.le_refl _, ho, Nat.le_refl _, hn, [], Seg.nil⟩, ?_⟩, ?_⟩
  · simp only [Pend]
    exact ⟨fun k a _ hk => (hao.range k a hk).1, fun k b _ hk => (han.range k b hk).1⟩
  · exact ⟨fun _ _ _ hd => by simp at hd, fun _ _ _ hd => by simp at hd⟩

section
variable (E : Env) (os oe ns ne : Nat) (hb : InBounds E os oe ns ne)
  (uo un : Array Nat) (hao : Asc uo os oe) (han : Asc un ns ne)
include hb hao han

theorem outer_hookInv (e' : Nat → Nat → Bool) :
    HookInv (replaceHook (patienceHook E recHook uo un oe ne)) e' False 0 0 uo.size un.size
      (OInvAt E os oe ns ne uo un) := by
  intro ops x o n s0 w0 hp ho hn hi
  obtain ⟨i, j, hw1, hw2⟩ := (Walk_append ops [x] 0 0 o n).1 hp.1
  have c1 := walk_counts _ _ _ _ _ hw1
  have c2 := walk_counts _ _ _ _ _ hp.1
  have c3 := walk_counts _ _ _ _ _ hw2
  have hx := noReplaceOp_last ops x hp.2.2.1
  unfold OInvAt at hi ⊢
  have ei : nDel ops + nEq ops = i := by omega
  have ej : nIns ops + nEq ops = j := by omega
  have eo : nDel (ops ++ [x]) + nEq (ops ++ [x]) = o := by omega
  have en : nIns (ops ++ [x]) + nEq (ops ++ [x]) = n := by omega
  rw [ei, ej] at hi
  rw [eo, en]
  obtain ⟨hinv, hg⟩ := hi
  have hi' : i ≤ uo.size := by omega
  have hj' : j ≤ un.size := by omega
  cases x with
  | replace a b c d => exact absurd rfl (hx a b c d)
  | equal co cn l =>
    simp only [Walk] at hw2
    obtain ⟨rfl, rfl, _, _, rfl, rfl⟩ := hw2
    obtain ⟨⟨st1, w1⟩, hc⟩ := step_equal_total E oe ne uo un co cn l s0 w0
    exact ⟨st1, w1, hc, step_equal E os oe ns ne uo un _ _ l s0 w0 st1 w1 hinv hc, contig_equal hc⟩
  | delete co l cn =>
    simp only [Walk] at hw2
    obtain ⟨rfl, _, rfl, rfl⟩ := hw2
    obtain ⟨⟨st1, w1⟩, hc⟩ := step_delete_total E os oe ns ne hb uo un hao han co j l cn s0 w0 hinv hg hi' hj'
    exact ⟨st1, w1, hc, step_delete E (snake_in_box E) os oe ns ne hb uo un hao han _ _ l cn s0 w0 st1 w1 hinv hc,
      contig_delete hg hc⟩
  | insert co cn l =>
    simp only [Walk] at hw2
    obtain ⟨rfl, _, rfl, rfl⟩ := hw2
    obtain ⟨⟨st1, w1⟩, hc⟩ := step_insert_total E os oe ns ne hb uo un hao han i cn l co s0 w0 hinv hg hi' hj'
    exact ⟨st1, w1, hc, step_insert E (snake_in_box E) os oe ns ne hb uo un hao han _ _ l co s0 w0 st1 w1 hinv hc,
      contig_insert hg hc⟩

theorem outer_finish (e' : Nat → Nat → Bool) (ops : List Op) (s1 : RState × PState × Rec) (w1 : World)
    (hp : PrefAt e' False 0 0 ops uo.size un.size) (hi : OInvAt E os oe ns ne uo un ops s1) :
    ∃ s2 w2, (replaceHook (patienceHook E recHook uo un oe ne)).call .finish s1 w1 = .ok (s2, w2) ∧
      ValidRaw E os oe ns ne s2.2.2.trace := by
  have c1 := walk_counts _ _ _ _ _ hp.1
  unfold OInvAt at hi
  obtain ⟨⟨s2, w2⟩, hc⟩ := step_finish_total E os oe ns ne hb uo un hao han _ _ s1 w1 hi.1 (by omega) (by omega)
  exact ⟨s2, w2, hc, step_finish E (snake_in_box E) os oe ns ne hb uo un hao han _ _ s1 w1 s2 w2 hi.1 hc⟩

end

/-- **P1, Patience never aborts** over the recording hook, for every clock: in-bounds ranges (cross
comparisons and the same-side comparisons `unique` makes) ⇒ the call returns, and what it recorded is
a valid script followed by one `finish`. -/
theorem patience_total (E : Env) (os oe ns ne : Nat) (w : World) (ho : os ≤ oe) (hn : ns ≤ ne)
    (hb : InBounds E os oe ns ne)
    (hbo : ∀ i j, os ≤ i → i < oe → os ≤ j → j < oe → (E.oo i j).isSome)
    (hbn : ∀ i j, ns ≤ i → i < ne → ns ≤ j → j < ne → (E.nn i j).isSome) :
    ∃ r' w', patienceDiff E recHook os oe ns ne {} w = .ok (r', w') ∧ ValidRaw E os oe ns ne r'.trace := by
  obtain ⟨uo, hu1⟩ := unique_total E.oo os oe hbo
  obtain ⟨un, hu2⟩ := unique_total E.nn ns ne hbn
  have hao := unique_asc hu1
  have han := unique_asc hu2
  obtain ⟨s', w', _, _, _, hc, _, _, _, _, _, _, hj, _⟩ :=
    myersDiff_generic_total (E.sub uo.toArray un.toArray) (replaceHook (patienceHook E recHook uo.toArray un.toArray oe ne))
      False (fun hp => hp.elim) (OInvAt E os oe ns ne uo.toArray un.toArray)
      (fun st => ValidRaw E os oe ns ne st.2.2.trace) 0 uo.toArray.size 0 un.toArray.size
      (({} : RState), ({ oc := os, nc := ns } : PState), ({} : Rec)) w
      (outer_hookInv E os oe ns ne hb _ _ hao han _)
      (fun ops s1 w1 hp hi => outer_finish E os oe ns ne hb _ _ hao han _ ops s1 w1 hp hi)
      (Nat.zero_le _) (Nat.zero_le _) (sub_inBounds hb hao han) (fun hp => hp.elim)
      (oinv_init E os oe ns ne ho hn _ _ hao han)
  obtain ⟨rs, p, r'⟩ := s'
  refine ⟨r', w', ?_, hj⟩
  unfold patienceDiff
  simp only [hu1, hu2, hc]

/-! ## P2, preparations.  `conquer` drives the hook with some ops — no hypotheses at all -/

theorem midPart_delivered {σ} (E : Env) (h : Hook σ) (off : Nat)
    (rec : Nat → Nat → Nat → Nat → V → V → σ → World → Res (σ × V × V × World))
    (hrec : ∀ os oe ns ne vf vb s w s' vf' vb' w', rec os oe ns ne vf vb s w = .ok (s', vf', vb', w') →
      ∃ ops, Delivered h ops s w s' w')
    (os oe ns ne : Nat) (vf vb : V) (s : σ) (w : World) (s' : σ) (vf' vb' : V) (w' : World)
    (hc : midPart E h off rec os oe ns ne vf vb s w = .ok (s', vf', vb', w')) :
    ∃ ops, Delivered h ops s w s' w' := by
  unfold midPart at hc
  split at hc
  · simp only [Except.ok.injEq, Prod.mk.injEq] at hc
    obtain ⟨rfl, -, -, rfl⟩ := hc
    exact ⟨[], .nil (ClockKeep.refl _)⟩
  · split at hc
    · split at hc
      · simp at hc
      · rename_i s1 w1 hem
        simp only [Except.ok.injEq, Prod.mk.injEq] at hc
        obtain ⟨rfl, -, -, rfl⟩ := hc
        exact ⟨_, .single hem⟩
    · split at hc
      · split at hc
        · simp at hc
        · rename_i s1 w1 hem
          simp only [Except.ok.injEq, Prod.mk.injEq] at hc
          obtain ⟨rfl, -, -, rfl⟩ := hc
          exact ⟨_, .single hem⟩
      · split at hc
        · simp at hc
        · rename_i vf5 vb5 x y w5 hfm
          have hk5 : ClockKeep w w5 := findMiddleSnake_clock hfm
          split at hc
          · simp at hc
          · rename_i sa vfa vba wa hca
            obtain ⟨opsa, da⟩ := hrec _ _ _ _ _ _ _ _ _ _ _ _ hca
            obtain ⟨opsb, db⟩ := hrec _ _ _ _ _ _ _ _ _ _ _ _ hc
            exact ⟨_, (da.append db).pre hk5⟩
        · rename_i vf5 vb5 w5 hfm
          have hk5 : ClockKeep w w5 := findMiddleSnake_clock hfm
          split at hc
          · simp at hc
          · rename_i sa wa hem1
            split at hc
            · simp at hc
            · rename_i sb wb hem2
              simp only [Except.ok.injEq, Prod.mk.injEq] at hc
              obtain ⟨rfl, -, -, rfl⟩ := hc
              exact ⟨_, ((Delivered.single hem1).append (.single hem2)).pre hk5⟩

/-- what follows the prefix emission in one `conquer` step -/
def restPart {σ} (E : Env) (h : Hook σ) (off : Nat)
    (rec : Nat → Nat → Nat → Nat → V → V → σ → World → Res (σ × V × V × World))
    (os oe ns ne : Nat) (vf vb : V) (s : σ) (w : World) : Res (σ × V × V × World) :=
  match commonSuffixLen E os oe ns ne w with
  | .error e => .error e
  | .ok (sl, w) =>
  match midPart E h off rec os (oe - sl) ns (ne - sl) vf vb s w with
  | .error e => .error e
  | .ok (s, vf, vb, w) =>
  if 0 < sl then
    match emit h (.equal (oe - sl) (ne - sl) sl) s w with
    | .error e => .error e
    | .ok (s, w) => .ok (s, vf, vb, w)
  else .ok (s, vf, vb, w)

theorem conquer_succ_rest {σ} (E : Env) (h : Hook σ) (off f os oe ns ne : Nat) (vf vb : V) (s : σ) (w : World) :
    conquer E h off (f+1) os oe ns ne vf vb s w =
    match commonPrefixLen E os oe ns ne w with
    | .error e => .error e
    | .ok (p, w) =>
    match (if 0 < p then emit h (.equal os ns p) s w else .ok (s, w)) with
    | .error e => .error e
    | .ok (s, w) => restPart E h off (conquer E h off f) (os + p) oe (ns + p) ne vf vb s w := by
  rfl

theorem conquer_rest_delivered {σ} (E : Env) (h : Hook σ) (off : Nat)
    (rec : Nat → Nat → Nat → Nat → V → V → σ → World → Res (σ × V × V × World))
    (hrec : ∀ os oe ns ne vf vb s w s' vf' vb' w', rec os oe ns ne vf vb s w = .ok (s', vf', vb', w') →
      ∃ ops, Delivered h ops s w s' w')
    (os oe ns ne : Nat) (vf vb : V) (s : σ) (w : World) (s' : σ) (vf' vb' : V) (w' : World)
    (hc : restPart E h off rec os oe ns ne vf vb s w = .ok (s', vf', vb', w')) :
    ∃ ops, Delivered h ops s w s' w' := by
  unfold restPart at hc
  split at hc
  · simp at hc
  · rename_i sl w1 hs
    have hk1 : ClockKeep w w1 := ClockKeep.of_eq (commonSuffixLen_clock hs)
    split at hc
    · simp at hc
    · rename_i s2 vf2 vb2 w2 hmid
      obtain ⟨mid, dm⟩ := midPart_delivered E h off rec hrec _ _ _ _ _ _ _ _ _ _ _ _ hmid
      split at hc
      · split at hc
        · simp at hc
        · rename_i s3 w3 hem
          simp only [Except.ok.injEq, Prod.mk.injEq] at hc
          obtain ⟨rfl, -, -, rfl⟩ := hc
          exact ⟨_, ((dm.append (.single hem))).pre hk1⟩
      · simp only [Except.ok.injEq, Prod.mk.injEq] at hc
        obtain ⟨rfl, -, -, rfl⟩ := hc
        exact ⟨_, dm.pre hk1⟩

theorem conquer_delivered {σ} (E : Env) (h : Hook σ) (off : Nat) :
    ∀ (fuel os oe ns ne : Nat) (vf vb : V) (s : σ) (w : World) (s' : σ) (vf' vb' : V) (w' : World),
      conquer E h off fuel os oe ns ne vf vb s w = .ok (s', vf', vb', w') →
      ∃ ops, Delivered h ops s w s' w' := by
  intro fuel
  induction fuel with
  | zero => intro os oe ns ne vf vb s w s' vf' vb' w' hc; simp [conquer] at hc
  | succ f ih =>
    intro os oe ns ne vf vb s w s' vf' vb' w' hc
    rw [conquer_succ_rest] at hc
    split at hc
    · simp at hc
    · rename_i p w1 hp
      have hk1 : ClockKeep w w1 := ClockKeep.of_eq (commonPrefixLen_clock hp)
      split at hc
      · simp at hc
      · rename_i s1 w2 hpre
        obtain ⟨rest, dr⟩ := conquer_rest_delivered E h off (conquer E h off f) ih _ _ _ _ _ _ _ _ _ _ _ _ hc
        split at hpre
        · exact ⟨_, ((Delivered.single hpre).append dr).pre hk1⟩
        · simp only [Except.ok.injEq, Prod.mk.injEq] at hpre
          obtain ⟨rfl, rfl⟩ := hpre
          exact ⟨_, dr.pre hk1⟩

/-- `myers::diff_deadline` over a hook that never installs a deadline never installs one -/
theorem myersDiff_keeps_clock {σ} (E : Env) (h : Hook σ) (hk : HookKeepsClock h) (os oe ns ne : Nat)
    (s : σ) (w : World) (s' : σ) (w' : World) (hc : myersDiff E h os oe ns ne s w = .ok (s', w'))
    (hw : w.clock = none) : w'.clock = none := by
  unfold myersDiff at hc
  simp only at hc
  split at hc
  · simp at hc
  · rename_i s1 vf1 vb1 w1 hcq
    obtain ⟨ops, d⟩ := conquer_delivered E h _ _ _ _ _ _ _ _ _ _ _ _ _ _ hcq
    exact hk _ _ _ _ _ hc (d.clock hk hw)

/-! ## None of the hooks involved installs a deadline -/

theorem recHook_world {c : Call} {r r' : Rec} {w w' : World} (h : recHook.call c r w = .ok (r', w')) : w' = w := by
  unfold recHook at h
  simp only at h
  split at h
  · split at h
    · simp only [Rec.push, Except.map] at h
      split at h <;> simp at h
      exact h.2.symm
    · split at h
      · simp at h
      · simp only [Rec.push, Except.map] at h
        split at h <;> simp at h
        exact h.2.symm
  · simp only [Rec.push, Except.map] at h
    split at h <;> simp at h
    exact h.2.symm

theorem recHook_keeps : HookKeepsClock recHook := fun _ _ _ _ _ h hw => by rw [recHook_world h]; exact hw

theorem noFinish_keeps {σ} {h : Hook σ} (hk : HookKeepsClock h) : HookKeepsClock (noFinishHook h) := by
  intro c s w s' w' hc hw
  cases c with
  | finish => simp [noFinishHook] at hc; rw [← hc.2]; exact hw
  | op x => exact hk _ _ _ _ _ hc hw

theorem patScan_clock (E : Env) (a b : Nat) : ∀ (fuel oc nc : Nat) (w : World) (oc' nc' : Nat) (w' : World),
    patScan E a b fuel oc nc w = .ok (oc', nc', w') → w'.clock = w.clock := by
  intro fuel
  induction fuel with
  | zero =>
    intro oc nc w oc' nc' w' h
    simp only [patScan] at h
    split at h
    · simp at h
    · simp at h; rw [h.2.2]
  | succ f ih =>
    intro oc nc w oc' nc' w' h
    simp only [patScan] at h
    split at h
    · split at h
      · simp at h
      · rename_i w1 hc
        obtain ⟨-, rfl⟩ := cmp_ok hc
        rw [ih _ _ _ _ _ _ h]
      · rename_i w1 hc
        obtain ⟨-, rfl⟩ := cmp_ok hc
        simp at h; rw [← h.2.2]
    · simp at h; rw [h.2.2]

section
variable {σ : Type} (E : Env) (h : Hook σ) (hk : HookKeepsClock h) (uo un : Array Nat)
include hk

theorem patAnchor_keeps (i j : Nat) (p : PState) (s : σ) (w : World) (p' : PState) (s' : σ) (w' : World)
    (hc : patAnchor E h uo un i j p s w = .ok (p', s', w')) (hw : w.clock = none) : w'.clock = none := by
  unfold patAnchor at hc
  split at hc
  · simp only at hc
    split at hc
    · simp at hc
    · rename_i oc nc w1 hscan
      have h1 : w1.clock = none := by rw [patScan_clock E _ _ _ _ _ _ _ _ _ hscan]; exact hw
      split at hc
      · simp at hc
      · rename_i s1 w2 hem
        have h2 : w2.clock = none := by
          split at hem
          · exact hk _ _ _ _ _ hem h1
          · simp at hem; rw [← hem.2]; exact h1
        split at hc
        · simp at hc
        · rename_i s2 w3 hmy
          simp only [Except.ok.injEq, Prod.mk.injEq] at hc
          obtain ⟨-, -, rfl⟩ := hc
          exact myersDiff_keeps_clock E (noFinishHook h) (noFinish_keeps hk) _ _ _ _ _ _ _ _ hmy h2
  · simp at hc

theorem patEqual_keeps : ∀ (len i j : Nat) (p : PState) (s : σ) (w : World) (p' : PState) (s' : σ) (w' : World),
    patEqual E h uo un len i j p s w = .ok (p', s', w') → w.clock = none → w'.clock = none := by
  intro len
  induction len with
  | zero => intro i j p s w p' s' w' hc hw; simp [patEqual] at hc; rw [← hc.2.2]; exact hw
  | succ l ih =>
    intro i j p s w p' s' w' hc hw
    simp only [patEqual] at hc
    split at hc
    · simp at hc
    · rename_i p1 s1 w1 ha
      exact ih _ _ _ _ _ _ _ _ hc (patAnchor_keeps E h hk uo un _ _ _ _ _ _ _ _ ha hw)

theorem patienceHook_keeps (oe ne : Nat) : HookKeepsClock (patienceHook E h uo un oe ne) := by
  intro c st w st' w' hc hw
  obtain ⟨p, s⟩ := st
  simp only [patienceHook] at hc
  split at hc
  · split at hc
    · simp at hc
    · rename_i p1 s1 w1 hpe
      simp at hc; rw [← hc.2]
      exact patEqual_keeps E h hk uo un _ _ _ _ _ _ _ _ _ hpe hw
  · simp at hc; rw [← hc.2]; exact hw
  · split at hc
    · simp at hc
    · rename_i s1 w1 hmy
      simp at hc; rw [← hc.2]
      exact myersDiff_keeps_clock E h hk _ _ _ _ _ _ _ _ hmy hw

end

theorem rFlushEq_keeps {σ} {h : Hook σ} (hk : HookKeepsClock h) {r r' : RState} {s s' : σ} {w w' : World}
    (hc : rFlushEq h r s w = .ok (r', s', w')) (hw : w.clock = none) : w'.clock = none := by
  unfold rFlushEq at hc
  split at hc
  · split at hc
    · simp at hc
    · rename_i s1 w1 hcall
      simp at hc; rw [← hc.2.2]; exact hk _ _ _ _ _ hcall hw
  · simp at hc; rw [← hc.2.2]; exact hw

theorem rFlushDelIns_keeps {σ} {h : Hook σ} (hk : HookKeepsClock h) {r r' : RState} {s s' : σ} {w w' : World}
    (hc : rFlushDelIns h r s w = .ok (r', s', w')) (hw : w.clock = none) : w'.clock = none := by
  unfold rFlushDelIns at hc
  split at hc
  · split at hc
    · simp at hc
    · rename_i s1 w1 hcall
      simp at hc; rw [← hc.2.2]; exact hk _ _ _ _ _ hcall hw
  · split at hc
    · simp at hc
    · rename_i s1 w1 hcall
      simp at hc; rw [← hc.2.2]; exact hk _ _ _ _ _ hcall hw
  · split at hc
    · simp at hc
    · rename_i s1 w1 hcall
      simp at hc; rw [← hc.2.2]; exact hk _ _ _ _ _ hcall hw
  · simp at hc; rw [← hc.2.2]; exact hw

theorem replaceHook_keeps {σ} {h : Hook σ} (hk : HookKeepsClock h) : HookKeepsClock (replaceHook h) := by
  intro c st w st' w' hc hw
  obtain ⟨r, s⟩ := st
  simp only [replaceHook] at hc
  split at hc
  · -- equal
    split at hc
    · simp at hc
    · rename_i r1 s1 w1 hfl
      have := rFlushDelIns_keeps hk hfl hw
      split at hc <;> (simp at hc; rw [← hc.2]; exact this)
  · -- delete
    split at hc
    · simp at hc
    · rename_i r1 s1 w1 hfl
      have := rFlushEq_keeps hk hfl hw
      split at hc
      · split at hc
        · simp at hc; rw [← hc.2]; exact this
        · simp at hc
      · simp at hc; rw [← hc.2]; exact this
  · -- insert
    split at hc
    · simp at hc
    · rename_i r1 s1 w1 hfl
      have := rFlushEq_keeps hk hfl hw
      split at hc
      · split at hc
        · simp at hc; rw [← hc.2]; exact this
        · simp at hc
      · simp at hc; rw [← hc.2]; exact this
  · -- replace
    split at hc
    · simp at hc
    · rename_i r1 s1 w1 hfl
      have := rFlushEq_keeps hk hfl hw
      split at hc
      · simp at hc
      · rename_i s2 w2 hcall
        simp at hc; rw [← hc.2]; exact hk _ _ _ _ _ hcall this
  · -- finish
    split at hc
    · simp at hc
    · rename_i r1 s1 w1 hfl
      have h1 := rFlushEq_keeps hk hfl hw
      split at hc
      · simp at hc
      · rename_i r2 s2 w2 hfl2
        have h2 := rFlushDelIns_keeps hk hfl2 h1
        split at hc
        · simp at hc
        · rename_i s3 w3 hcall
          simp at hc; rw [← hc.2]; exact hk _ _ _ _ _ hcall h2

/-! ## The recording hook only ever appends; a Myers run on a box whose first pair is equal starts
with an `equal` at that pair -/

theorem recHook_push {c : Call} {r r' : Rec} (h : r.push c = .ok r') : r'.trace = r.trace ++ [c] := by
  unfold Rec.push at h
  split at h <;> simp at h
  rw [← h]

theorem push_map {c : Call} {r r' : Rec} {w w' : World} (h : (r.push c).map (·, w) = .ok (r', w')) :
    r'.trace = r.trace ++ [c] := by
  unfold Rec.push at h
  split at h <;> simp [Except.map] at h
  rw [← h.1]

theorem recHook_trace {c : Call} {r r' : Rec} {w w' : World} (h : recHook.call c r w = .ok (r', w')) :
    ∃ t, r'.trace = r.trace ++ t := by
  unfold recHook at h
  simp only at h
  split at h
  · split at h
    · exact ⟨_, push_map h⟩
    · split at h
      · simp at h
      · rename_i r1 hp1
        exact ⟨_, by rw [push_map h, recHook_push hp1, List.append_assoc]⟩
  · exact ⟨_, push_map h⟩

theorem emit_rec_equal_trace {o n l : Nat} {r r' : Rec} {w w' : World}
    (h : emit recHook (.equal o n l) r w = .ok (r', w')) : r'.trace = r.trace ++ [.op (.equal o n l)] := by
  simp only [emit, recHook] at h
  exact push_map h

theorem delivered_rec_prefix {ops : List Op} {r r' : Rec} {w w' : World}
    (hd : Delivered recHook ops r w r' w') : ∃ t, r'.trace = r.trace ++ t := by
  induction hd with
  | nil _ => exact ⟨[], by simp⟩
  | cons _ hc _ ih =>
    obtain ⟨t1, h1⟩ := recHook_trace hc
    obtain ⟨t2, h2⟩ := ih
    exact ⟨t1 ++ t2, by rw [h2, h1, List.append_assoc]⟩

/-- the tail run of Patience starts on the last anchor: its first callback is an `equal` there -/
theorem myers_first_equal (E : Env) (os oe ns ne : Nat) (r : Rec) (w : World) (r' : Rec) (w' : World)
    (ho : os < oe) (hn : ns < ne) (he : eqB E os ns = true)
    (hc : myersDiff E recHook os oe ns ne r w = .ok (r', w')) :
    ∃ p t, 0 < p ∧ r'.trace = r.trace ++ Call.op (.equal os ns p) :: t := by
  unfold myersDiff at hc
  simp only at hc
  split at hc
  · simp at hc
  · rename_i r1 vf1 vb1 w1 hcq
    obtain ⟨t3, h3⟩ := recHook_trace hc
    rw [conquer_succ_rest] at hcq
    split at hcq
    · simp at hcq
    · rename_i p w2 hp
      obtain ⟨-, -, -, hp4, -⟩ := commonPrefixLen_spec hp
      have hpos : 0 < p := by
        rcases Nat.eq_zero_or_pos p with h0 | h0
        · subst h0
          have := hp4 (by omega) (by omega)
          simp only [Nat.add_zero] at this
          rw [he] at this; simp at this
        · exact h0
      split at hcq
      · simp at hcq
      · rename_i r2 w3 hpre
        simp only [hpos, if_true] at hpre
        have h1 := emit_rec_equal_trace hpre
        obtain ⟨rest, dr⟩ := conquer_rest_delivered E recHook _ _ (conquer_delivered E recHook _ _) _ _ _ _ _ _ _ _ _ _ _ _ hcq
        obtain ⟨t2, h2⟩ := delivered_rec_prefix dr
        exact ⟨p, t2 ++ t3, hpos, by rw [h3, h2, h1]; simp⟩

/-! ## P2: anchors are reported -/

/-- `(a, b)` is reported Equal by the script: it lies on the diagonal of one of its `equal` ops -/
def covered (ops : List Op) (a b : Nat) : Prop :=
  ∃ co cn len, Op.equal co cn len ∈ ops ∧ co ≤ a ∧ a < co + len ∧ b = cn + (a - co)

/-- the same for a raw callback stream -/
def coveredT (t : List Call) (a b : Nat) : Prop :=
  ∃ co cn len, Call.op (.equal co cn len) ∈ t ∧ co ≤ a ∧ a < co + len ∧ b = cn + (a - co)

theorem coveredT_append_left {t u : List Call} {a b : Nat} (h : coveredT t a b) : coveredT (t ++ u) a b := by
  obtain ⟨co, cn, len, hm, h1⟩ := h
  exact ⟨co, cn, len, List.mem_append_left _ hm, h1⟩

theorem coveredT_ops {ops : List Op} {a b : Nat} (h : coveredT (ops.map Call.op ++ [.finish]) a b) :
    covered ops a b := by
  obtain ⟨co, cn, len, hm, h1⟩ := h
  refine ⟨co, cn, len, ?_, h1⟩
  simp only [List.mem_append, List.mem_map, List.mem_singleton] at hm
  rcases hm with ⟨x, hx, he⟩ | hm
  · simp only [Call.op.injEq] at he; subst he; exact hx
  · simp at hm

theorem covered_append {ops ops' : List Op} {a b : Nat} (h : covered (ops ++ ops') a b) :
    covered ops a b ∨ covered ops' a b := by
  obtain ⟨co, cn, len, hm, h1⟩ := h
  rcases List.mem_append.1 hm with hm | hm
  · exact .inl ⟨co, cn, len, hm, h1⟩
  · exact .inr ⟨co, cn, len, hm, h1⟩

/-- a walk reports only equal pairs inside its box -/
theorem walk_covered {e : Nat → Nat → Bool} : ∀ (ops : List Op) (o n o' n' a b : Nat),
    Walk e o n ops o' n' → covered ops a b → o ≤ a ∧ a < o' ∧ n ≤ b ∧ b < n' ∧ e a b = true := by
  intro ops
  induction ops with
  | nil => intro o n o' n' a b _ h; obtain ⟨_, _, _, hm, _⟩ := h; simp at hm
  | cons c cs ih =>
    intro o n o' n' a b hw h
    have hc := walk_counts _ _ _ _ _ hw
    obtain ⟨co, cn, len, hm, h1, h2, h3⟩ := h
    simp only [List.mem_cons] at hm
    cases c with
    | equal xo xn xl =>
      simp only [Walk] at hw
      obtain ⟨rfl, rfl, hl, he, hw'⟩ := hw
      have hc' := walk_counts _ _ _ _ _ hw'
      rcases hm with hm | hm
      · simp only [Op.equal.injEq] at hm
        obtain ⟨rfl, rfl, rfl⟩ := hm
        have := he (a - co) (by omega)
        have e1 : co + (a - co) = a := by omega
        rw [e1, ← h3] at this
        exact ⟨by omega, by omega, by omega, by omega, this⟩
      · have := ih _ _ _ _ a b hw' ⟨co, cn, len, hm, h1, h2, h3⟩
        exact ⟨by omega, this.2.1, by omega, this.2.2.2.1, this.2.2.2.2⟩
    | delete xo xl xn =>
      simp only [Walk] at hw
      rcases hm with hm | hm
      · simp at hm
      · have := ih _ _ _ _ a b hw.2.2 ⟨co, cn, len, hm, h1, h2, h3⟩
        exact ⟨by omega, this.2.1, by omega, this.2.2.2.1, this.2.2.2.2⟩
    | insert xo xn xl =>
      simp only [Walk] at hw
      rcases hm with hm | hm
      · simp at hm
      · have := ih _ _ _ _ a b hw.2.2 ⟨co, cn, len, hm, h1, h2, h3⟩
        exact ⟨by omega, this.2.1, by omega, this.2.2.2.1, this.2.2.2.2⟩
    | replace xo xl xn xnl =>
      simp only [Walk] at hw
      rcases hm with hm | hm
      · simp at hm
      · have := ih _ _ _ _ a b hw.2.2.2.2 ⟨co, cn, len, hm, h1, h2, h3⟩
        exact ⟨by omega, this.2.1, by omega, this.2.2.2.1, this.2.2.2.2⟩

/-! ### the anchor invariant of the Patience hook -/

/-- anchor `(a, b)` is where the cursor stands, and the next run will start by reporting it -/
def Pending (E : Env) (oe ne : Nat) (p : PState) (a b : Nat) : Prop :=
  p.oc = a ∧ p.nc = b ∧ a < oe ∧ b < ne ∧ eqB E a b = true

/-- every processed anchor (unique-list positions in `D`) is already reported Equal in the user
trace, or is the cursor and still pending -/
def AnchOK (E : Env) (oe ne : Nat) (uo un : Array Nat) (D : Nat → Nat → Prop) (p : PState) (r : Rec) : Prop :=
  ∀ (i0 j0 a b : Nat), D i0 j0 → uo[i0]? = some a → un[j0]? = some b →
    coveredT r.trace a b ∨ Pending E oe ne p a b

theorem AnchOK.mono {E : Env} {oe ne : Nat} {uo un : Array Nat} {D D' : Nat → Nat → Prop} {p : PState} {r : Rec}
    (h : AnchOK E oe ne uo un D' p r) (hd : ∀ i j, D i j → D' i j) : AnchOK E oe ne uo un D p r :=
  fun i0 j0 a b hD => h i0 j0 a b (hd _ _ hD)

theorem sub_eqB {E : Env} {uo un : Array Nat} {i j a b : Nat} (h : eqB (E.sub uo un) i j = true)
    (ha : uo[i]? = some a) (hb : un[j]? = some b) : eqB E a b = true := by
  simpa [eqB, Env.sub, ha, hb] using h

theorem patScan_pos (E : Env) (a b : Nat) (fuel oc nc : Nat) (w : World) (oc' nc' : Nat) (w' : World)
    (hf : 0 < fuel) (ho : oc < a) (hn : nc < b) (he : eqB E oc nc = true)
    (h : patScan E a b fuel oc nc w = .ok (oc', nc', w')) : oc < oc' := by
  cases fuel with
  | zero => omega
  | succ f =>
    simp only [patScan, ho, hn, decide_true, Bool.and_self, if_true] at h
    split at h
    · simp at h
    · rename_i w1 hc
      obtain ⟨k, rfl, -, -⟩ := patScan_spec E a b _ _ _ _ _ _ _ h
      omega
    · rename_i w1 hc
      obtain ⟨hE, -⟩ := cmp_ok hc
      simp [eqB, hE] at he

section
variable (E : Env) (os oe ns ne : Nat) (hb : InBounds E os oe ns ne)
  (uo un : Array Nat) (hao : Asc uo os oe) (han : Asc un ns ne)
include hb hao han

/-- what one anchor step does to the cursor and to the user trace -/
theorem patAnchor_char (i j : Nat) (p : PState) (r : Rec) (w : World) (p' : PState) (r' : Rec) (w' : World)
    (hinv : UserInv E os oe ns ne p r) (hcb : CB uo un p i j)
    (h : patAnchor E recHook uo un i j p r w = .ok (p', r', w')) :
    ∃ a' b' k t, uo[i]? = some a' ∧ un[j]? = some b' ∧ p'.oc = a' ∧ p'.nc = b' ∧
      r'.trace = r.trace ++ (if 0 < k then [Call.op (.equal p.oc p.nc k)] else []) ++ t ∧
      (p.oc < a' → p.nc < b' → eqB E p.oc p.nc = true → 0 < k) := by
  unfold patAnchor at h
  split at h
  · rename_i a b hua hub
    have hoa : p.oc ≤ a := hcb.1 i a (Nat.le_refl _) hua
    have hnb : p.nc ≤ b := hcb.2 j b (Nat.le_refl _) hub
    have hra := hao.range i a hua
    have hrb := han.range j b hub
    obtain ⟨h1, h2, h3, h4, out, sg⟩ := hinv
    simp only at h
    split at h
    · simp at h
    · rename_i oc nc w1 hscan
      obtain ⟨k, rfl, rfl, -, hk4, hk5⟩ := patScan_spec E a b _ _ _ _ _ _ _ hscan
      have hf : r.failAt = none := sg.failAt rfl
      split at h
      · simp at h
      · rename_i r1 w2 hem
        have htr1 : r1.trace = r.trace ++ (if 0 < k then [Call.op (.equal p.oc p.nc k)] else []) ∧
            r1.failAt = none := by
          split at hem
          · rename_i hpos
            have e1 : p.oc + k - p.oc = k := by omega
            rw [e1] at hem
            have htr := emit_rec_equal_trace hem
            obtain ⟨hx, _⟩ := emit_rec hf (by intros; simp) hem
            have kp : 0 < k := by omega
            simp only [kp, if_true]
            exact ⟨htr, by rw [hx.failAt]; exact hf⟩
          · rename_i hpos
            simp only [Except.ok.injEq, Prod.mk.injEq] at hem
            obtain ⟨rfl, rfl⟩ := hem
            have : ¬ 0 < k := by omega
            simp only [this, if_false, List.append_nil]
            exact ⟨trivial, hf⟩
        split at h
        · simp at h
        · rename_i r2 w3 hmy
          simp only [Except.ok.injEq, Prod.mk.injEq] at h
          obtain ⟨rfl, rfl, rfl⟩ := h
          obtain ⟨ops, he, -, -⟩ := myersDiff_rec_noFinish E (snake_in_box E) (p.oc + k) a (p.nc + k) b r1 w2 _ _
            htr1.2 (hk4 hoa) (hk5 hnb) (InBounds_sub hb (by omega) (by omega) (by omega) (by omega)) hmy
          refine ⟨a, b, k, ops.map Call.op, hua, hub, rfl, rfl, ?_, ?_⟩
          · rw [he]; simp only; rw [htr1.1]
          · intro q1 q2 q3
            have := patScan_pos E a b _ _ _ _ _ _ _ (by omega) q1 q2 q3 hscan
            omega
  · simp at h

end

section
variable (E : Env) (os oe ns ne : Nat) (hb : InBounds E os oe ns ne)
  (uo un : Array Nat) (hao : Asc uo os oe) (han : Asc un ns ne)
include hb hao han

theorem patAnchor_anch (D : Nat → Nat → Prop) (i j : Nat) (p : PState) (r : Rec) (w : World)
    (p' : PState) (r' : Rec) (w' : World)
    (hinv : UserInv E os oe ns ne p r) (hcb : CB uo un p i j)
    (ha : AnchOK E oe ne uo un D p r) (hD : ∀ i0 j0, D i0 j0 → i0 < i ∧ j0 < j)
    (heq : eqB (E.sub uo un) i j = true)
    (h : patAnchor E recHook uo un i j p r w = .ok (p', r', w')) :
    AnchOK E oe ne uo un (fun i0 j0 => D i0 j0 ∨ (i0 = i ∧ j0 = j)) p' r' := by
  obtain ⟨a', b', k, t, hua, hub, hp1, hp2, htr, hk⟩ :=
    patAnchor_char E os oe ns ne hb uo un hao han i j p r w p' r' w' hinv hcb h
  intro i0 j0 a b hd hua0 hub0
  rcases hd with hd | ⟨e1, e2⟩
  · rcases ha i0 j0 a b hd hua0 hub0 with hc | ⟨q1, q2, q3, q4, q5⟩
    · left; rw [htr, List.append_assoc]; exact coveredT_append_left hc
    · left
      obtain ⟨d1, d2⟩ := hD i0 j0 hd
      have l1 := hao.mono i0 i a a' d1 hua0 hua
      have l2 := han.mono j0 j b b' d2 hub0 hub
      have kp := hk (by omega) (by omega) (by rw [q1, q2]; exact q5)
      rw [htr]
      simp only [kp, if_true]
      refine ⟨p.oc, p.nc, k, by simp, by omega, by omega, by omega⟩
  · right
    rw [e1, hua] at hua0; rw [e2, hub] at hub0
    simp only [Option.some.injEq] at hua0 hub0
    subst hua0 hub0
    exact ⟨hp1, hp2, (hao.range i a' hua).2, (han.range j b' hub).2, sub_eqB heq hua hub⟩

theorem patEqual_anch : ∀ (len : Nat) (D : Nat → Nat → Prop) (i j : Nat) (p : PState) (r : Rec) (w : World)
    (p' : PState) (r' : Rec) (w' : World),
    UserInv E os oe ns ne p r → CB uo un p i j → AnchOK E oe ne uo un D p r →
    (∀ i0 j0, D i0 j0 → i0 < i ∧ j0 < j) →
    (∀ t, t < len → eqB (E.sub uo un) (i+t) (j+t) = true) →
    patEqual E recHook uo un len i j p r w = .ok (p', r', w') →
    AnchOK E oe ne uo un (fun i0 j0 => D i0 j0 ∨ ∃ t, t < len ∧ i0 = i + t ∧ j0 = j + t) p' r' := by
  intro len
  induction len with
  | zero =>
    intro D i j p r w p' r' w' _ _ ha _ _ h
    simp only [patEqual, Except.ok.injEq, Prod.mk.injEq] at h
    obtain ⟨rfl, rfl, rfl⟩ := h
    exact ha.mono (fun i0 j0 hd => by
      rcases hd with hd | ⟨t, ht, _⟩
      · exact hd
      · omega)
  | succ l ih =>
    intro D i j p r w p' r' w' hinv hcb ha hD heq h
    simp only [patEqual] at h
    split at h
    · simp at h
    · rename_i p1 r1 w1 han1
      obtain ⟨hinv1, hu1, hu2⟩ := patAnchor_sound E (snake_in_box E) os oe ns ne hb uo un hao han i j p r w p1 r1 w1 hinv hcb han1
      have hcb1 : CB uo un p1 (i+1) (j+1) :=
        ⟨fun k a hk hka => Nat.le_of_lt (hao.mono i k _ a (by omega) hu1 hka),
         fun k b hk hkb => Nat.le_of_lt (han.mono j k _ b (by omega) hu2 hkb)⟩
      have ha1 := patAnchor_anch E os oe ns ne hb uo un hao han D i j p r w p1 r1 w1 hinv hcb ha hD
        (by simpa using heq 0 (by omega)) han1
      have := ih _ (i+1) (j+1) p1 r1 w1 p' r' w' hinv1 hcb1 ha1
        (fun i0 j0 hd => by
          rcases hd with hd | ⟨rfl, rfl⟩
          · have := hD i0 j0 hd; omega
          · omega)
        (fun t ht => by
          have := heq (t+1) (by omega)
          have e1 : i + 1 + t = i + (t + 1) := by omega
          have e2 : j + 1 + t = j + (t + 1) := by omega
          rw [e1, e2]; exact this) h
      exact this.mono (fun i0 j0 hd => by
        rcases hd with hd | ⟨t, ht, rfl, rfl⟩
        · exact .inl (.inl hd)
        · cases t with
          | zero => exact .inl (.inr ⟨rfl, rfl⟩)
          | succ t => exact .inr ⟨t, by omega, by omega, by omega⟩)

end

/-! ### the anchor invariant of the outer run -/

/-- `done` = outer ops delivered so far, ending at outer position `(i, j)`: every pair they report
Equal has been processed as an anchor (`D`) or sits in the `equal` that `Replace` still holds back -/
def AH (E : Env) (oe ne : Nat) (uo un : Array Nat) (done : List Op) (i j : Nat)
    (st : RState × PState × Rec) : Prop :=
  ∃ D : Nat → Nat → Prop, AnchOK E oe ne uo un D st.2.1 st.2.2 ∧
    match st.1.eq with
    | some (eo, en, el) =>
      (∀ i0 j0, D i0 j0 → i0 < eo ∧ j0 < en) ∧
      (∀ t, t < el → eqB (E.sub uo un) (eo + t) (en + t) = true) ∧
      (∀ i0 j0, covered done i0 j0 → D i0 j0 ∨ ∃ t, t < el ∧ i0 = eo + t ∧ j0 = en + t)
    | none => (∀ i0 j0, D i0 j0 → i0 < i ∧ j0 < j) ∧ (∀ i0 j0, covered done i0 j0 → D i0 j0)

theorem covered_snoc_nonequal {done : List Op} {x : Op} {a b : Nat} (hx : ∀ o n l, x ≠ .equal o n l)
    (h : covered (done ++ [x]) a b) : covered done a b := by
  rcases covered_append h with h | ⟨co, cn, len, hm, _⟩
  · exact h
  · simp only [List.mem_singleton] at hm
    exact absurd hm.symm (hx co cn len)

section
variable (E : Env) (os oe ns ne : Nat) (hb : InBounds E os oe ns ne)
  (uo un : Array Nat) (hao : Asc uo os oe) (han : Asc un ns ne)

theorem anch_equal (done : List Op) (i j l : Nat) (st : RState × PState × Rec) (w : World)
    (st' : RState × PState × Rec) (w' : World)
    (hinv : HInv E os oe ns ne uo un i j st) (ha : AH E oe ne uo un done i j st)
    (heq : ∀ t, t < l → eqB (E.sub uo un) (i + t) (j + t) = true)
    (h : (replaceHook (patienceHook E recHook uo un oe ne)).call (.op (.equal i j l)) st w = .ok (st', w')) :
    AH E oe ne uo un (done ++ [.equal i j l]) (i + l) (j + l) st' := by
  obtain ⟨rs, p, r⟩ := st
  obtain ⟨hu, hp⟩ := hinv
  obtain ⟨D, hok, hm⟩ := ha
  simp only at hu hp hok hm
  simp only [replaceHook] at h
  split at h
  · simp at h
  · rename_i rs1 st1 w1 hfl
    obtain ⟨rfl, heq1⟩ := flushDelIns_pat E oe ne uo un rs p r w rs1 st1 w1 hfl
    unfold Pend at hp
    rw [← heq1] at hp hm
    split at h
    · rename_i eo en el heq2
      rw [heq2] at hp hm
      simp only [Except.ok.injEq, Prod.mk.injEq] at h
      obtain ⟨rfl, rfl⟩ := h
      obtain ⟨p1, p2, -⟩ := hp
      obtain ⟨m1, m2, m3⟩ := hm
      refine ⟨D, hok, ?_⟩
      simp only
      refine ⟨m1, ?_, ?_⟩
      · intro t ht
        by_cases hlt : t < el
        · exact m2 t hlt
        · have := heq (t - el) (by omega)
          have e1 : i + (t - el) = eo + t := by omega
          have e2 : j + (t - el) = en + t := by omega
          rw [e1, e2] at this; exact this
      · intro i0 j0 hc
        rcases covered_append hc with hc | ⟨co, cn, len, hmem, c1, c2, c3⟩
        · rcases m3 i0 j0 hc with hd | ⟨t, ht, rfl, rfl⟩
          · exact .inl hd
          · exact .inr ⟨t, by omega, rfl, rfl⟩
        · simp only [List.mem_singleton, Op.equal.injEq] at hmem
          obtain ⟨rfl, rfl, rfl⟩ := hmem
          exact .inr ⟨el + (i0 - co), by omega, by omega, by omega⟩
    · rename_i heq2
      rw [heq2] at hp hm
      simp only [Except.ok.injEq, Prod.mk.injEq] at h
      obtain ⟨rfl, rfl⟩ := h
      obtain ⟨m1, m3⟩ := hm
      refine ⟨D, hok, ?_⟩
      simp only
      refine ⟨m1, heq, ?_⟩
      intro i0 j0 hc
      rcases covered_append hc with hc | ⟨co, cn, len, hmem, c1, c2, c3⟩
      · exact .inl (m3 i0 j0 hc)
      · simp only [List.mem_singleton, Op.equal.injEq] at hmem
        obtain ⟨rfl, rfl, rfl⟩ := hmem
        exact .inr ⟨i0 - co, by omega, by omega, by omega⟩

include hb hao han

/-- flushing the pending `equal`: afterwards everything reported by `done` is a processed anchor -/
theorem flushEq_anch (done : List Op) (i j : Nat) (rs : RState) (p : PState) (r : Rec) (w : World)
    (rs' : RState) (p' : PState) (r' : Rec) (w' : World)
    (hu : UserInv E os oe ns ne p r) (hp : Pend uo un rs p i j)
    (ha : AH E oe ne uo un done i j (rs, p, r))
    (h : rFlushEq (patienceHook E recHook uo un oe ne) rs (p, r) w = .ok (rs', (p', r'), w')) :
    ∃ D : Nat → Nat → Prop, AnchOK E oe ne uo un D p' r' ∧ (∀ i0 j0, D i0 j0 → i0 < i ∧ j0 < j) ∧
      (∀ i0 j0, covered done i0 j0 → D i0 j0) := by
  obtain ⟨D, hok, hm⟩ := ha
  simp only at hok hm
  unfold rFlushEq at h
  unfold Pend at hp
  split at h
  · rename_i o n l heq
    rw [heq] at hp hm
    obtain ⟨rfl, rfl, hcb⟩ := hp
    obtain ⟨m1, m2, m3⟩ := hm
    simp only [patienceHook] at h
    split at h
    · simp at h
    · rename_i st1 w1 hcall
      split at hcall
      · simp at hcall
      · rename_i p1 r1 w2 hpe
        simp only [Except.ok.injEq, Prod.mk.injEq] at hcall h
        obtain ⟨rfl, rfl⟩ := hcall
        obtain ⟨rfl, ⟨rfl, rfl⟩, rfl⟩ := h
        have := patEqual_anch E os oe ns ne hb uo un hao han l D o n p r w _ _ _ hu hcb hok m1 m2 hpe
        refine ⟨_, this, ?_, m3⟩
        intro i0 j0 hd
        rcases hd with hd | ⟨t, ht, rfl, rfl⟩
        · have := m1 i0 j0 hd; omega
        · omega
  · rename_i heq
    rw [heq] at hp hm
    simp only [Except.ok.injEq, Prod.mk.injEq] at h
    obtain ⟨rfl, ⟨rfl, rfl⟩, rfl⟩ := h
    exact ⟨D, hok, hm.1, hm.2⟩

theorem anch_delete (done : List Op) (i j l cn : Nat) (st : RState × PState × Rec) (w : World)
    (st' : RState × PState × Rec) (w' : World)
    (hinv : HInv E os oe ns ne uo un i j st) (ha : AH E oe ne uo un done i j st)
    (h : (replaceHook (patienceHook E recHook uo un oe ne)).call (.op (.delete i l cn)) st w = .ok (st', w')) :
    AH E oe ne uo un (done ++ [.delete i l cn]) (i + l) j st' := by
  obtain ⟨rs, p, r⟩ := st
  obtain ⟨hu, hp⟩ := hinv
  simp only at hu hp
  simp only [replaceHook] at h
  split at h
  · simp at h
  · rename_i rs1 st1 w1 hfl
    obtain ⟨p1, r1⟩ := st1
    obtain ⟨D, hok, d1, d2⟩ := flushEq_anch E os oe ns ne hb uo un hao han done i j rs p r w rs1 p1 r1 w1 hu hp ha hfl
    obtain ⟨-, -, heq1⟩ := rFlushEq_fields hfl
    have key : ∀ rs2 : RState, rs2.eq = none →
        AH E oe ne uo un (done ++ [.delete i l cn]) (i + l) j (rs2, p1, r1) := by
      intro rs2 h2
      refine ⟨D, hok, ?_⟩
      simp only [h2]
      exact ⟨fun i0 j0 hd => by have := d1 i0 j0 hd; omega,
        fun i0 j0 hc => d2 i0 j0 (covered_snoc_nonequal (by intros; simp) hc)⟩
    split at h
    · split at h
      · simp only [Except.ok.injEq, Prod.mk.injEq] at h
        obtain ⟨rfl, rfl⟩ := h
        exact key _ heq1
      · simp at h
    · simp only [Except.ok.injEq, Prod.mk.injEq] at h
      obtain ⟨rfl, rfl⟩ := h
      exact key _ heq1

theorem anch_insert (done : List Op) (i j l co : Nat) (st : RState × PState × Rec) (w : World)
    (st' : RState × PState × Rec) (w' : World)
    (hinv : HInv E os oe ns ne uo un i j st) (ha : AH E oe ne uo un done i j st)
    (h : (replaceHook (patienceHook E recHook uo un oe ne)).call (.op (.insert co j l)) st w = .ok (st', w')) :
    AH E oe ne uo un (done ++ [.insert co j l]) i (j + l) st' := by
  obtain ⟨rs, p, r⟩ := st
  obtain ⟨hu, hp⟩ := hinv
  simp only at hu hp
  simp only [replaceHook] at h
  split at h
  · simp at h
  · rename_i rs1 st1 w1 hfl
    obtain ⟨p1, r1⟩ := st1
    obtain ⟨D, hok, d1, d2⟩ := flushEq_anch E os oe ns ne hb uo un hao han done i j rs p r w rs1 p1 r1 w1 hu hp ha hfl
    obtain ⟨-, -, heq1⟩ := rFlushEq_fields hfl
    have key : ∀ rs2 : RState, rs2.eq = none →
        AH E oe ne uo un (done ++ [.insert co j l]) i (j + l) (rs2, p1, r1) := by
      intro rs2 h2
      refine ⟨D, hok, ?_⟩
      simp only [h2]
      exact ⟨fun i0 j0 hd => by have := d1 i0 j0 hd; omega,
        fun i0 j0 hc => d2 i0 j0 (covered_snoc_nonequal (by intros; simp) hc)⟩
    split at h
    · split at h
      · simp only [Except.ok.injEq, Prod.mk.injEq] at h
        obtain ⟨rfl, rfl⟩ := h
        exact key _ heq1
      · simp at h
    · simp only [Except.ok.injEq, Prod.mk.injEq] at h
      obtain ⟨rfl, rfl⟩ := h
      exact key _ heq1

/-- the outer run preserves both invariants -/
theorem outer_run_anch : ∀ (ops done : List Op) (i j i2 j2 : Nat)
    (st : RState × PState × Rec) (w : World) (st' : RState × PState × Rec) (w' : World),
    Delivered (replaceHook (patienceHook E recHook uo un oe ne)) ops st w st' w' →
    Walk (eqB (E.sub uo un)) i j ops i2 j2 → NoReplaceOp ops →
    HInv E os oe ns ne uo un i j st → AH E oe ne uo un done i j st →
    HInv E os oe ns ne uo un i2 j2 st' ∧ AH E oe ne uo un (done ++ ops) i2 j2 st' := by
  intro ops done i j i2 j2 st w st' w' hd
  induction hd generalizing i j done with
  | nil _ => intro hw _ hinv ha; obtain ⟨rfl, rfl⟩ := hw; exact ⟨hinv, by simpa using ha⟩
  | @cons x xs s s2 s' w w1 w2 w' _ hc _ ih =>
    intro hw hnr hinv ha
    have e1 : done ++ x :: xs = (done ++ [x]) ++ xs := by simp
    rw [e1]
    cases x with
    | equal co cn l =>
      simp only [Walk] at hw
      obtain ⟨rfl, rfl, _, he, hw'⟩ := hw
      exact ih _ _ _ hw' hnr (step_equal E os oe ns ne uo un _ _ l s w1 s2 w2 hinv hc)
        (anch_equal E os oe ns ne uo un done _ _ l s w1 s2 w2 hinv ha he hc)
    | delete co l cn =>
      simp only [Walk] at hw
      obtain ⟨rfl, _, hw'⟩ := hw
      exact ih _ _ _ hw' hnr
        (step_delete E (snake_in_box E) os oe ns ne hb uo un hao han _ _ l cn s w1 s2 w2 hinv hc)
        (anch_delete E os oe ns ne hb uo un hao han done _ _ l cn s w1 s2 w2 hinv ha hc)
    | insert co cn l =>
      simp only [Walk] at hw
      obtain ⟨rfl, _, hw'⟩ := hw
      exact ih _ _ _ hw' hnr
        (step_insert E (snake_in_box E) os oe ns ne hb uo un hao han _ _ l co s w1 s2 w2 hinv hc)
        (anch_insert E os oe ns ne hb uo un hao han done _ _ l co s w1 s2 w2 hinv ha hc)
    | replace co ol cn nl => exact hnr.elim

/-- `finish`: after the tail run every anchor reported by the outer script is reported in the user trace -/
theorem anch_finish (done : List Op) (i j : Nat) (st : RState × PState × Rec) (w : World)
    (st' : RState × PState × Rec) (w' : World)
    (hinv : HInv E os oe ns ne uo un i j st) (ha : AH E oe ne uo un done i j st)
    (h : (replaceHook (patienceHook E recHook uo un oe ne)).call .finish st w = .ok (st', w')) :
    ∀ i0 j0 a b, covered done i0 j0 → uo[i0]? = some a → un[j0]? = some b → coveredT st'.2.2.trace a b := by
  obtain ⟨rs, p, r⟩ := st
  obtain ⟨hu, hp⟩ := hinv
  simp only at hu hp
  simp only [replaceHook] at h
  split at h
  · simp at h
  · rename_i rs1 st1 w1 hfl
    obtain ⟨p1, r1⟩ := st1
    obtain ⟨D, hok, -, d2⟩ := flushEq_anch E os oe ns ne hb uo un hao han done i j rs p r w rs1 p1 r1 w1 hu hp ha hfl
    obtain ⟨hu1, -, -⟩ := flushEq_pat E (snake_in_box E) os oe ns ne hb uo un hao han i j rs p r w rs1 p1 r1 w1 hu hp hfl
    split at h
    · simp at h
    · rename_i rs2 st2 w2 hfl2
      obtain ⟨rfl, -⟩ := flushDelIns_pat E oe ne uo un rs1 p1 r1 w1 rs2 st2 w2 hfl2
      split at h
      · simp at h
      · rename_i st3 w3 hfin
        simp only [Except.ok.injEq, Prod.mk.injEq] at h
        obtain ⟨rfl, rfl⟩ := h
        simp only [patienceHook] at hfin
        split at hfin
        · simp at hfin
        · rename_i r3 w4 hmy
          simp only [Except.ok.injEq, Prod.mk.injEq] at hfin
          obtain ⟨rfl, rfl⟩ := hfin
          intro i0 j0 a b hc hua hub
          obtain ⟨h1, h2, h3, h4, out, sg⟩ := hu1
          rcases hok i0 j0 a b (d2 i0 j0 hc) hua hub with hcov | ⟨q1, q2, q3, q4, q5⟩
          · obtain ⟨ops, he, -, -⟩ := myersDiff_rec E (snake_in_box E) p1.oc oe p1.nc ne r1 w2 r3 w4 (sg.failAt rfl) h2 h4
              (InBounds_sub hb h1 (Nat.le_refl _) h3 (Nat.le_refl _)) hmy
            simp only
            rw [he]
            simp only [List.append_assoc]
            exact coveredT_append_left hcov
          · obtain ⟨pl, t, hpl, htr⟩ := myers_first_equal E p1.oc oe p1.nc ne r1 w2 r3 w4 (by omega) (by omega)
              (by rw [q1, q2]; exact q5) hmy
            simp only
            rw [htr]
            exact ⟨p1.oc, p1.nc, pl, by simp, by omega, by omega, by omega⟩

end

/-! ### the pairs a walk reports Equal, as a chain -/

/-- strictly increasing in both coordinates: same relative order on both sides -/
def Chain (l : List (Nat × Nat)) : Prop := l.Pairwise (fun x y => x.1 < y.1 ∧ x.2 < y.2)

theorem diag_chain (o n : Nat) : ∀ (len : Nat),
    Chain ((List.range' 0 len).map fun t => (o + t, n + t)) := by
  intro len
  unfold Chain
  rw [List.pairwise_map]
  exact List.Pairwise.imp (fun {a b} (h : a < b) => ⟨by omega, by omega⟩) (List.pairwise_lt_range')

/-- a walk reports `nEq` pairs, forming a chain inside its box, each covered by one of its `equal`s -/
theorem walk_pairs {e : Nat → Nat → Bool} : ∀ (ops : List Op) (o n o' n' : Nat), Walk e o n ops o' n' →
    ∃ l : List (Nat × Nat), l.length = nEq ops ∧ Chain l ∧
      ∀ x ∈ l, covered ops x.1 x.2 ∧ o ≤ x.1 ∧ n ≤ x.2 := by
  intro ops
  induction ops with
  | nil => intro o n o' n' _; exact ⟨[], rfl, List.Pairwise.nil, fun x hx => by simp at hx⟩
  | cons c cs ih =>
    intro o n o' n' hw
    have lift : ∀ {a b : Nat}, covered cs a b → covered (c :: cs) a b := by
      rintro a b ⟨co, cn, len, hm, h1⟩
      exact ⟨co, cn, len, List.mem_cons_of_mem _ hm, h1⟩
    cases c with
    | equal xo xn xl =>
      simp only [Walk] at hw
      obtain ⟨rfl, rfl, hl, he, hw'⟩ := hw
      obtain ⟨l, h1, h2, h3⟩ := ih _ _ _ _ hw'
      refine ⟨((List.range' 0 xl).map fun t => (xo + t, xn + t)) ++ l, by simp [nEq, h1], ?_, ?_⟩
      · unfold Chain
        rw [List.pairwise_append]
        refine ⟨diag_chain xo xn xl, h2, ?_⟩
        intro x hx y hy
        simp only [List.mem_map, List.mem_range'_1] at hx
        obtain ⟨t, ht, rfl⟩ := hx
        have := h3 y hy
        simp only
        omega
      · intro x hx
        rcases List.mem_append.1 hx with hx | hx
        · simp only [List.mem_map, List.mem_range'_1] at hx
          obtain ⟨t, ht, rfl⟩ := hx
          exact ⟨⟨xo, xn, xl, by simp, by simp only; omega, by simp only; omega, by simp only; omega⟩,
            by simp only; omega, by simp only; omega⟩
        · have := h3 x hx
          exact ⟨lift this.1, by omega, by omega⟩
    | delete xo xl xn =>
      simp only [Walk] at hw
      obtain ⟨l, h1, h2, h3⟩ := ih _ _ _ _ hw.2.2
      exact ⟨l, by simp [nEq, h1], h2, fun x hx => by have := h3 x hx; exact ⟨lift this.1, by omega, by omega⟩⟩
    | insert xo xn xl =>
      simp only [Walk] at hw
      obtain ⟨l, h1, h2, h3⟩ := ih _ _ _ _ hw.2.2
      exact ⟨l, by simp [nEq, h1], h2, fun x hx => by have := h3 x hx; exact ⟨lift this.1, by omega, by omega⟩⟩
    | replace xo xl xn xnl =>
      simp only [Walk] at hw
      obtain ⟨l, h1, h2, h3⟩ := ih _ _ _ _ hw.2.2.2.2
      exact ⟨l, by simp [nEq, h1], h2, fun x hx => by have := h3 x hx; exact ⟨lift this.1, by omega, by omega⟩⟩

/-! ### P2, the theorems -/

/-- **Anchors are reported.**  Without a deadline, let `uo`, `un` be the unique-item index lists and
`outer` the script of the outer Myers run over them.  `outer` is a cheapest script for the two lists:
it reports `lcsLen` pairs Equal.  Every pair `(i, j)` it reports is an anchor — `old[uo[i]]` equals
`new[un[j]]` — and the final user script `ops` reports that anchor Equal: `(uo[i], un[j])` lies on the
diagonal of one of its `equal` ops (`covered`). -/
theorem patience_anchors_reported (E : Env) (os oe ns ne : Nat) (w : World) (r' : Rec) (w' : World)
    (ho : os ≤ oe) (hn : ns ≤ ne) (hb : InBounds E os oe ns ne) (hw : w.clock = none)
    (h : patienceDiff E recHook os oe ns ne {} w = .ok (r', w')) :
    ∃ (uo un : List Nat) (outer ops : List Op),
      unique E.oo os oe = some uo ∧ unique E.nn ns ne = some un ∧
      r'.trace = ops.map Call.op ++ [.finish] ∧ Walk (eqB E) os ns ops oe ne ∧
      Walk (eqB (E.sub uo.toArray un.toArray)) 0 0 outer uo.length un.length ∧
      nEq outer = lcsLen (eqB (E.sub uo.toArray un.toArray)) uo.length un.length 0 0 ∧
      ∀ i j, covered outer i j → ∀ a b, uo[i]? = some a → un[j]? = some b →
        eqB E a b = true ∧ covered ops a b := by
  unfold patienceDiff at h
  split at h
  · rename_i uo un hu1 hu2
    have hao := unique_asc hu1
    have han := unique_asc hu2
    simp only at h
    split at h
    · simp at h
    · rename_i rs p r1 w1 hmy
      simp only [Except.ok.injEq, Prod.mk.injEq] at h
      obtain ⟨rfl, rfl⟩ := h
      obtain ⟨outer, s1, w2, hd, hfin, hwk, -, hnr, -, hcnt, -, -⟩ :=
        myersDiff_generic_optimal (E.sub uo.toArray un.toArray)
          (replaceHook (patienceHook E recHook uo.toArray un.toArray oe ne))
          (replaceHook_keeps (patienceHook_keeps E recHook recHook_keeps _ _ oe ne))
          0 uo.toArray.size 0 un.toArray.size _ w _ _ (Nat.zero_le _) (Nat.zero_le _)
          (sub_inBounds hb hao han) hw hmy
      have hi0 := oinv_init E os oe ns ne ho hn _ _ hao han
      have ha0 : AH E oe ne uo.toArray un.toArray [] 0 0
          (({} : RState), ({ oc := os, nc := ns } : PState), ({} : Rec)) := by
        refine ⟨fun _ _ => False, fun _ _ _ _ hD => hD.elim, ?_⟩
        simp only
        exact ⟨fun _ _ hD => hD.elim, fun i0 j0 hc => by obtain ⟨_, _, _, hm, _⟩ := hc; simp at hm⟩
      obtain ⟨hinv1, ha1⟩ := outer_run_anch E os oe ns ne hb _ _ hao han outer [] 0 0 _ _ _ w s1 w2 hd hwk hnr hi0.1 ha0
      simp only [List.nil_append] at ha1
      obtain ⟨ops, htr, hwu, -⟩ := step_finish E (snake_in_box E) os oe ns ne hb _ _ hao han _ _ s1 w2 _ _ hinv1 hfin
      have hcov := anch_finish E os oe ns ne hb _ _ hao han outer _ _ s1 w2 _ _ hinv1 ha1 hfin
      simp only at htr hcov
      have hc := walk_counts _ _ _ _ _ hwk
      simp only [List.size_toArray, Nat.sub_zero] at hwk hcnt hc
      refine ⟨uo, un, outer, ops, hu1, hu2, htr, hwu, hwk, by omega, ?_⟩
      intro i j hcij a b hua hub
      have hua' : uo.toArray[i]? = some a := by simpa using hua
      have hub' : un.toArray[j]? = some b := by simpa using hub
      have hq := walk_covered _ _ _ _ _ _ _ hwk hcij
      refine ⟨sub_eqB hq.2.2.2.2 hua' hub', ?_⟩
      have := hcov i j a b hcij hua' hub'
      rw [htr] at this
      exact coveredT_ops this
  · simp at h

/-- **The size clause of C15.**  Without a deadline Patience reports Equal a set of unique-item pairs
that is as large as the longest common in-order subsequence of the unique items: there is a chain
(strictly increasing on both sides) of `lcsLen` pairs of unique-list positions `(i, j)` whose items
are equal and which the final script reports Equal.  (`lcsLen` over the two unique lists, compared
through the items, is the length of the longest common subsequence of the two lists; an item unique
on one side only matches nothing unique on the other side, so this is the longest subsequence of the
items unique on both sides that appears in the same relative order.) -/
theorem patience_lis (E : Env) (os oe ns ne : Nat) (w : World) (r' : Rec) (w' : World)
    (ho : os ≤ oe) (hn : ns ≤ ne) (hb : InBounds E os oe ns ne) (hw : w.clock = none)
    (h : patienceDiff E recHook os oe ns ne {} w = .ok (r', w')) :
    ∃ (uo un : List Nat) (ops : List Op) (pairs : List (Nat × Nat)),
      unique E.oo os oe = some uo ∧ unique E.nn ns ne = some un ∧
      r'.trace = ops.map Call.op ++ [.finish] ∧ Walk (eqB E) os ns ops oe ne ∧
      pairs.length = lcsLen (eqB (E.sub uo.toArray un.toArray)) uo.length un.length 0 0 ∧
      Chain pairs ∧
      ∀ x ∈ pairs, ∃ a b, uo[x.1]? = some a ∧ un[x.2]? = some b ∧ eqB E a b = true ∧ covered ops a b := by
  obtain ⟨uo, un, outer, ops, h1, h2, h3, h4, h5, h6, h7⟩ :=
    patience_anchors_reported E os oe ns ne w r' w' ho hn hb hw h
  obtain ⟨pairs, p1, p2, p3⟩ := walk_pairs outer 0 0 _ _ h5
  refine ⟨uo, un, ops, pairs, h1, h2, h3, h4, by rw [p1, h6], p2, ?_⟩
  intro x hx
  obtain ⟨hc, -, -⟩ := p3 x hx
  have hq := walk_covered _ _ _ _ _ _ _ h5 hc
  have hi : x.1 < uo.length := hq.2.1
  have hj : x.2 < un.length := hq.2.2.2.1
  have hua : uo[x.1]? = some uo[x.1] := by simp [hi]
  have hub : un[x.2]? = some un[x.2] := by simp [hj]
  obtain ⟨q1, q2⟩ := h7 x.1 x.2 hc _ _ hua hub
  exact ⟨_, _, hua, hub, q1, q2⟩

/-! ### the same as a count of old-side unique positions -/

theorem sorted_filter_count (p : Nat → Bool) : ∀ (n s : Nat) (l : List Nat), l.Pairwise (· < ·) →
    (∀ x ∈ l, s ≤ x ∧ x < s + n ∧ p x = true) → l.length ≤ ((List.range' s n).filter p).length := by
  intro n
  induction n with
  | zero =>
    intro s l _ hl
    cases l with
    | nil => simp
    | cons x xs => have := hl x (by simp); omega
  | succ n ih =>
    intro s l hp hl
    cases l with
    | nil => simp
    | cons x xs =>
      simp only [List.pairwise_cons] at hp
      have hx := hl x (by simp)
      rw [List.range'_succ]
      by_cases hxs : x = s
      · subst hxs
        have := ih (x+1) xs hp.2 (fun y hy => by
          have h1 := hp.1 y hy
          have h2 := hl y (List.mem_cons_of_mem _ hy)
          exact ⟨by omega, by omega, h2.2.2⟩)
        simp only [List.filter_cons, hx.2.2, if_true, List.length_cons]
        omega
      · have := ih (s+1) (x :: xs) (List.pairwise_cons.2 hp) (fun y hy => by
          have h2 := hl y hy
          simp only [List.mem_cons] at hy
          rcases hy with rfl | hy
          · exact ⟨by omega, by omega, h2.2.2⟩
          · have h1 := hp.1 y hy
            exact ⟨by omega, by omega, h2.2.2⟩)
        simp only [List.filter_cons]
        split
        · simp only [List.length_cons] at this ⊢; omega
        · exact this

open Classical in
/-- **C15, size clause, as a count**: the number of positions `i` of the old unique list whose item is
reported Equal with an equal item of the new unique list is at least the length of the longest common
in-order subsequence of the two unique lists. -/
theorem patience_lis_count (E : Env) (os oe ns ne : Nat) (w : World) (r' : Rec) (w' : World)
    (ho : os ≤ oe) (hn : ns ≤ ne) (hb : InBounds E os oe ns ne) (hw : w.clock = none)
    (h : patienceDiff E recHook os oe ns ne {} w = .ok (r', w')) :
    ∃ (uo un : List Nat) (ops : List Op),
      unique E.oo os oe = some uo ∧ unique E.nn ns ne = some un ∧
      r'.trace = ops.map Call.op ++ [.finish] ∧
      lcsLen (eqB (E.sub uo.toArray un.toArray)) uo.length un.length 0 0 ≤
        ((List.range uo.length).filter fun (i : Nat) => decide (∃ (j a b : Nat), uo[i]? = some a ∧ un[j]? = some b ∧
          eqB E a b = true ∧ covered ops a b)).length := by
  obtain ⟨uo, un, ops, pairs, h1, h2, h3, -, h5, h6, h7⟩ := patience_lis E os oe ns ne w r' w' ho hn hb hw h
  refine ⟨uo, un, ops, h1, h2, h3, ?_⟩
  rw [← h5, List.range_eq_range']
  have := sorted_filter_count (fun (i : Nat) => decide (∃ (j a b : Nat), uo[i]? = some a ∧ un[j]? = some b ∧
      eqB E a b = true ∧ covered ops a b)) uo.length 0 (pairs.map Prod.fst)
    (by
      rw [List.pairwise_map]
      exact List.Pairwise.imp (fun hxy => hxy.1) h6)
    (by
      intro i hi
      simp only [List.mem_map] at hi
      obtain ⟨x, hx, rfl⟩ := hi
      obtain ⟨a, b, q1, q2, q3, q4⟩ := h7 x hx
      refine ⟨Nat.zero_le _, ?_, ?_⟩
      · have : x.1 < uo.length := by
          rcases Nat.lt_or_ge x.1 uo.length with hlt | hge
          · exact hlt
          · rw [List.getElem?_eq_none hge] at q1; simp at q1
        omega
      · simp only [decide_eq_true_eq]
        exact ⟨x.2, a, b, q1, q2, q3, q4⟩)
  simpa using this

end SimilarVerif.PatienceT

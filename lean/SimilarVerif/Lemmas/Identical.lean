import SimilarVerif.Lemmas.Capture
import SimilarVerif.Lemmas.CompactTotal
import SimilarVerif.Lemmas.PatienceTotal
import SimilarVerif.Lemmas.Identify
/-! # Identical inputs (C02, first clause)

Ranges of equal length `n` that are element-wise equal on the diagonal: Myers and LCS tell the hook one
`equal os ns n` (nothing for `n = 0`) and `finish`, for EVERY clock and every hook; Patience tells the
recording hook a run of adjacent `equal`s; `capture_diff` returns `[Equal os ns n]` (`[]` for `n = 0`)
for all three. -/
namespace SimilarVerif.IdentQ
open SimilarVerif Spec

/-- `k` more comparisons -/
def addC (w : World) (k : Nat) : World := { w with cmps := w.cmps + k }

@[simp] theorem addC_zero (w : World) : addC w 0 = w := rfl
theorem addC_addC (w : World) (a b : Nat) : addC (addC w a) b = addC w (a + b) := by
  simp [addC, Nat.add_assoc]
@[simp] theorem addC_clock (w : World) (k : Nat) : (addC w k).clock = w.clock := rfl
@[simp] theorem addC_probes (w : World) (k : Nat) : (addC w k).probes = w.probes := rfl
@[simp] theorem addC_cmps (w : World) (k : Nat) : (addC w k).cmps = w.cmps + k := rfl

theorem eqB_on {E : Env} {i j : Nat} (h : eqB E i j = true) : E.on i j = some true := by
  simpa [eqB] using h

theorem cmp_true {E : Env} {i j : Nat} (w : World) (h : E.on i j = some true) :
    cmp E i j w = .ok (true, addC w 1) := by
  simp [cmp, h, addC]

/-! ## the scans on an all-equal diagonal -/

theorem cplGo_all (E : Env) (os ns : Nat) : ∀ (fuel i : Nat) (w : World),
    (∀ t, i ≤ t → t < i + fuel → eqB E (os+t) (ns+t) = true) →
    cplGo E os ns fuel i w = .ok (i + fuel, addC w fuel) := by
  intro fuel
  induction fuel with
  | zero => intro i w _; rfl
  | succ f ih =>
    intro i w hd
    simp only [cplGo, cmp_true w (eqB_on (hd i (Nat.le_refl _) (by omega)))]
    rw [ih (i+1) _ (fun t h1 h2 => hd t (by omega) (by omega)), addC_addC]
    congr 2
    · omega
    · rw [Nat.add_comm]

/-- the prefix scan covers the whole box -/
theorem commonPrefixLen_all {E : Env} {os oe ns ne n : Nat} (w : World) (h1 : oe - os = n) (h2 : ne - ns = n)
    (hd : ∀ t, t < n → eqB E (os+t) (ns+t) = true) :
    commonPrefixLen E os oe ns ne w = .ok (n, addC w n) := by
  unfold commonPrefixLen
  split
  · have : n = 0 := by omega
    subst this; rfl
  · rw [h1, h2, Nat.min_self, cplGo_all E os ns n 0 w (fun t _ ht => hd t (by omega)), Nat.zero_add]

theorem commonSuffixLen_empty {E : Env} {os oe ns ne : Nat} (w : World) (h : oe ≤ os) :
    commonSuffixLen E os oe ns ne w = .ok (0, w) := by
  simp [commonSuffixLen, h]

/-! ## Myers, any hook -/

/-- what an all-equal box tells the hook before `finish` -/
def tellEqual {σ} (h : Hook σ) (os ns n : Nat) (s : σ) (w : World) : Res (σ × World) :=
  if 0 < n then h.call (.op (.equal os ns n)) s (addC w n) else .ok (s, w)

/-- `conquer` on an all-equal box: one `equal` (none for an empty box), nothing else, `n` comparisons,
no clock probe -/
theorem conquer_ident {σ} (E : Env) (h : Hook σ) (off fuel os oe ns ne n : Nat) (vf vb : V) (s : σ) (w : World)
    (h1 : oe - os = n) (h2 : ne - ns = n) (hd : ∀ t, t < n → eqB E (os+t) (ns+t) = true) :
    conquer E h off (fuel+1) os oe ns ne vf vb s w =
      (match tellEqual h os ns n s w with
       | .error e => .error e
       | .ok (s, w) => .ok (s, vf, vb, w)) := by
  simp only [conquer, commonPrefixLen_all w h1 h2 hd, tellEqual, emit]
  have hz : n = 0 → addC w n = w := fun h => by subst h; rfl
  by_cases hn : 0 < n
  · simp only [hn, if_true]
    cases h.call (.op (.equal os ns n)) s (addC w n) with
    | error e => rfl
    | ok v =>
      obtain ⟨s', w'⟩ := v
      simp only [commonSuffixLen_empty w' (show oe ≤ os + n by omega)]
      simp [show oe ≤ os + n by omega, show ne ≤ ns + n by omega]
  · simp only [hn, if_false]
    simp only [commonSuffixLen_empty _ (show oe ≤ os + n by omega), hz (by omega)]
    simp [show oe ≤ os + n by omega, show ne ≤ ns + n by omega]

/-- **Myers on identical ranges, any hook, any clock**: one `equal os ns n` (none for `n = 0`), then `finish` -/
theorem myersDiff_ident {σ} (E : Env) (h : Hook σ) (os oe ns ne n : Nat) (s : σ) (w : World)
    (h1 : oe - os = n) (h2 : ne - ns = n) (hd : ∀ t, t < n → eqB E (os+t) (ns+t) = true) :
    myersDiff E h os oe ns ne s w =
      (match tellEqual h os ns n s w with
       | .error e => .error e
       | .ok (s, w) => h.call .finish s w) := by
  unfold myersDiff
  simp only [show oe - os + (ne - ns) + 2 = (oe - os + (ne - ns) + 1) + 1 from rfl,
    conquer_ident E h _ _ os oe ns ne n _ _ s w h1 h2 hd]
  cases tellEqual h os ns n s w with
  | error e => rfl
  | ok v => rfl

/-! ## LCS, any hook -/

/-- **LCS on identical ranges, any hook, any clock**: the early `equal` branch (the empty branch for `n = 0`) -/
theorem lcsDiff_ident {σ} (E : Env) (h : Hook σ) (os oe ns ne n : Nat) (s : σ) (w : World)
    (h1 : oe - os = n) (h2 : ne - ns = n) (hd : ∀ t, t < n → eqB E (os+t) (ns+t) = true) :
    lcsDiff E h os oe ns ne s w =
      (match tellEqual h os ns n s w with
       | .error e => .error e
       | .ok (s, w) => h.call .finish s w) := by
  unfold lcsDiff
  by_cases hn : 0 < n
  · simp only [show ¬ ne ≤ ns by omega, show ¬ oe ≤ os by omega, if_false,
      commonPrefixLen_all w h1 h2 hd, commonSuffixLen_empty (addC w n) (show oe ≤ os + n by omega),
      h1, h2, beq_self_eq_true, Bool.and_self, if_true, tellEqual, hn, emit]
    cases h.call (.op (.equal os ns n)) s (addC w n) with
    | error e => rfl
    | ok v => rfl
  · simp only [show ne ≤ ns by omega, show oe ≤ os by omega, if_true, tellEqual, hn, if_false]

/-! ## the raw streams of Myers and LCS -/

/-- the raw stream of an identical pair: one `equal` (none for empty ranges) -/
def identOps (os ns n : Nat) : List Op := if n = 0 then [] else [.equal os ns n]

theorem tellEqual_recT (os ns n : Nat) (T : List Call) (w : World) :
    tellEqual recHook os ns n { trace := T } w =
      .ok ({ trace := T ++ (identOps os ns n).map Call.op }, addC w n) := by
  unfold tellEqual identOps
  by_cases hn : 0 < n
  · rw [if_pos hn, if_neg (by omega)]
    exact Replace.recHook_call _ T _
  · have : n = 0 := by omega
    subst this; simp

theorem tellEqual_rec (os ns n : Nat) (w : World) :
    tellEqual recHook os ns n {} w = .ok ({ trace := (identOps os ns n).map Call.op }, addC w n) :=
  tellEqual_recT os ns n [] w

/-- **(1) raw stream, Myers and LCS**, every clock: `n` comparisons, no probe, one `equal`, `finish` -/
theorem rawTrace_ident (alg : Alg) (halg : alg ≠ .patience) (E : Env) (os oe ns ne n : Nat) (w : World)
    (h1 : oe - os = n) (h2 : ne - ns = n) (hd : ∀ t, t < n → eqB E (os+t) (ns+t) = true) :
    rawTrace alg E os oe ns ne w =
      .ok ({ trace := (if n = 0 then [] else [.op (.equal os ns n)]) ++ [.finish] }, addC w n) := by
  cases alg with
  | patience => exact absurd rfl halg
  | myers =>
    simp only [rawTrace, diffWith, myersDiff_ident E recHook os oe ns ne n {} w h1 h2 hd, tellEqual_rec,
      Replace.recHook_call, identOps]
    split <;> rfl
  | lcs =>
    simp only [rawTrace, diffWith, lcsDiff_ident E recHook os oe ns ne n {} w h1 h2 hd, tellEqual_rec,
      Replace.recHook_call, identOps]
    split <;> rfl

/-! ## scripts made of `equal` ops only -/

/-- every op is an `equal` -/
def AllEq (ops : List Op) : Prop := ∀ x ∈ ops, x.tag = .equal

theorem AllEq.tail {x : Op} {xs : List Op} (h : AllEq (x :: xs)) : AllEq xs :=
  fun y hy => h y (List.mem_cons_of_mem _ hy)

theorem allEq_counts : ∀ (ops : List Op), AllEq ops → NoReplaceOp ops ∧ nDel ops = 0 ∧ nIns ops = 0 := by
  intro ops
  induction ops with
  | nil => intro _; exact ⟨trivial, rfl, rfl⟩
  | cons x xs ih =>
    intro h
    have hx := h x List.mem_cons_self
    obtain ⟨a, b, c⟩ := ih h.tail
    cases x <;> simp [Op.tag] at hx
    exact ⟨a, b, c⟩

/-- a valid script without deleted or inserted items consists of `equal`s -/
theorem allEq_of_counts {e : Nat → Nat → Bool} : ∀ (ops : List Op) (o n o' n' : Nat), Walk e o n ops o' n' →
    nDel ops = 0 → nIns ops = 0 → AllEq ops := by
  intro ops
  induction ops with
  | nil => intro _ _ _ _ _ _ _ x hx; cases hx
  | cons c cs ih =>
    intro o n o' n' hw hdel hins
    cases c with
    | equal a b l =>
      simp only [Walk] at hw; simp only [nDel, nIns] at hdel hins
      intro x hx
      rcases List.mem_cons.1 hx with rfl | hx
      · rfl
      · exact ih _ _ _ _ hw.2.2.2.2 hdel hins x hx
    | delete a l b => simp only [Walk] at hw; simp only [nDel] at hdel; omega
    | insert a b l => simp only [Walk] at hw; simp only [nIns] at hins; omega
    | replace a al b bl => simp only [Walk] at hw; simp only [nDel] at hdel; omega

/-- an alternating valid script of `equal`s only is empty or the single full-range `equal` -/
theorem alt_allEq_single {e : Nat → Nat → Bool} {ops : List Op} {o n o' n' : Nat}
    (hw : Walk e o n ops o' n') (ha : AllEq ops) (halt : Alternating ops) :
    ops = identOps o n (o' - o) := by
  unfold identOps
  match ops, hw, ha, halt with
  | [], hw, _, _ =>
    simp only [Walk] at hw
    rw [if_pos (by omega)]
  | [x], hw, ha, _ =>
    have hx := ha x List.mem_cons_self
    cases x <;> simp [Op.tag] at hx
    simp only [Walk] at hw
    obtain ⟨rfl, rfl, hl, _, rfl, _⟩ := hw
    rw [if_neg (by omega), Nat.add_sub_cancel_left]
  | x :: y :: cs, _, ha, halt =>
    have hx := ha x List.mem_cons_self
    have hy := ha y (List.mem_cons_of_mem _ List.mem_cons_self)
    simp only [Alternating, hx, hy] at halt
    exact absurd rfl halt.1

/-! ## `cleanup_diff_ops` on `equal`s only: both passes find nothing to shift -/

theorem cleanupPass_skip (E : Env) (repair : Bool) (which : Tag) (inner : Nat) (ops : List Op)
    (hno : ∀ x ∈ ops, x.tag ≠ which) : ∀ (fuel p : Nat) (w : World), p ≤ ops.length → ops.length < p + fuel →
    cleanupPass E repair which inner fuel ops p w = .ok (ops, w) := by
  intro fuel
  induction fuel with
  | zero => intro p w h1 h2; omega
  | succ f ih =>
    intro p w h1 h2
    simp only [cleanupPass]
    cases hop : ops[p]? with
    | none => rfl
    | some op =>
      have hp : p < ops.length := (List.getElem?_eq_some_iff.1 hop).1
      have hm : op ∈ ops := List.mem_of_getElem? hop
      simp only [hno op hm, if_false]
      exact ih (p+1) w (by omega) (by omega)

theorem length_le_weight (ops : List Op) : ops.length ≤ opsWeight ops := by
  unfold opsWeight
  rw [CompactT.foldl_weight, Nat.zero_add]
  induction ops with
  | nil => simp [CompactT.wsum]
  | cons c cs ih => simp only [CompactT.wsum, List.length_cons]; omega

/-- `cleanup_diff_ops` is the identity on a list of `equal`s -/
theorem cleanup_allEq (E : Env) (repair : Bool) (ops : List Op) (w : World) (h : AllEq ops) :
    cleanupDiffOps E repair ops w = .ok (ops, w) := by
  have hl := length_le_weight ops
  have hf : ops.length < 0 + (opsWeight ops + 2) * (opsWeight ops + 2) := by
    have : opsWeight ops + 2 ≤ (opsWeight ops + 2) * (opsWeight ops + 2) := Nat.le_mul_of_pos_right _ (by omega)
    omega
  unfold cleanupDiffOps
  simp only [cleanupPass_skip E repair .delete _ ops (fun x hx => by rw [h x hx]; decide) _ 0 w (Nat.zero_le _) hf,
    cleanupPass_skip E repair .insert _ ops (fun x hx => by rw [h x hx]; decide) _ 0 w (Nat.zero_le _) hf]

/-! ## (2) the captured ops -/

/-- `capture_diff` of a run whose raw stream is a valid script of `equal`s only -/
theorem capture_of_allEq (alg : Alg) (E : Env) (repair : Bool) (os oe ns ne : Nat) (w : World)
    (raw : List Op) (w1 : World)
    (hraw : rawTrace alg E os oe ns ne w = .ok ({ trace := raw.map Call.op ++ [.finish] }, w1))
    (hall : AllEq raw) (hw : Walk (eqB E) os ns raw oe ne) :
    captureDiff alg E repair os oe ns ne w = .ok (identOps os ns (oe - os), w1) := by
  obtain ⟨hnr, hdel, hins⟩ := allEq_counts raw hall
  rw [CaptureP.capture_factor alg E repair os oe ns ne w raw w1 hnr hraw, cleanup_allEq E repair raw w1 hall]
  obtain ⟨out, rs, hro, b1, b2, b3, -, b5, -⟩ := replace_preserves (eqB E) raw os ns oe ne w1 hnr hw
  simp only [hro, CaptureP.traceOps_eq_opsOf, CaptureP.opsOf_raw]
  rw [alt_allEq_single b1 (allEq_of_counts out _ _ _ _ b1 (by omega) (by omega)) b5]

theorem replaceOut_nil (w : World) : replaceOut [] w = .ok (({}, { trace := [.finish] }), w) := by
  simp [replaceOut, deliver, replaceHook, rFlushEq, rFlushDelIns, recHook, Rec.push, Except.map]

/-- nothing but `finish` was told: no ops (no assumption on the ranges, reversed ones included) -/
theorem capture_of_nil (alg : Alg) (E : Env) (repair : Bool) (os oe ns ne : Nat) (w w1 : World)
    (hraw : rawTrace alg E os oe ns ne w = .ok ({ trace := [.finish] }, w1)) :
    captureDiff alg E repair os oe ns ne w = .ok ([], w1) := by
  rw [CaptureP.capture_factor alg E repair os oe ns ne w [] w1 trivial hraw,
    cleanup_allEq E repair [] w1 (fun x hx => by cases hx)]
  simp only [replaceOut_nil]
  rfl

/-- **(2) captured ops, Myers and LCS**, every clock, both settings of the repair switch -/
theorem captureDiff_ident (alg : Alg) (halg : alg ≠ .patience) (E : Env) (repair : Bool) (os oe ns ne n : Nat)
    (w : World) (h1 : oe - os = n) (h2 : ne - ns = n) (hd : ∀ t, t < n → eqB E (os+t) (ns+t) = true) :
    captureDiff alg E repair os oe ns ne w = .ok (if n = 0 then [] else [.equal os ns n], addC w n) := by
  have hraw := rawTrace_ident alg halg E os oe ns ne n w h1 h2 hd
  by_cases hn : n = 0
  · simp only [hn, if_true, List.nil_append] at hraw ⊢
    exact capture_of_nil alg E repair os oe ns ne w _ hraw
  · simp only [hn, if_false] at hraw ⊢
    have := capture_of_allEq alg E repair os oe ns ne w [.equal os ns n] _ hraw
      (fun x hx => by rw [List.mem_singleton.1 hx]; rfl)
      (by unfold Walk; exact ⟨rfl, rfl, by omega, hd, by unfold Walk; omega⟩)
    rw [this, h1, identOps, if_neg hn]

/-! ## Patience: the two `unique` lists are the same positions relative to the starts -/

/-- ascending positions below `n`, none before the cursor -/
def AscN (n : Nat) : Nat → List Nat → Prop
  | _, [] => True
  | c, a :: Q => c ≤ a ∧ a < n ∧ AscN n a Q

theorem AscN.mono {n c c' : Nat} {Q : List Nat} (h : AscN n c Q) (hc : c' ≤ c) : AscN n c' Q := by
  cases Q with
  | nil => trivial
  | cons a Q => exact ⟨Nat.le_trans hc h.1, h.2⟩

theorem countEq_same (E : Env) (os ns i : Nat) : ∀ (len : Nat),
    (∀ k, k < len → E.nn (ns+i) (ns+k) = E.oo (os+i) (os+k)) →
    countEq E.nn (ns+i) ns len = countEq E.oo (os+i) os len := by
  intro len
  induction len with
  | zero => intro _; rfl
  | succ l ih =>
    intro h
    simp only [countEq, h l (by omega), ih (fun k hk => h k (by omega))]

section Uniq
variable (E : Env) (os oe ns ne n : Nat) (h1 : oe - os = n) (h2 : ne - ns = n)
  (hbo : ∀ i j, i < n → j < n → (E.oo (os+i) (os+j)).isSome)
  (hsame : ∀ i j, i < n → j < n → E.nn (ns+i) (ns+j) = E.oo (os+i) (os+j))
include h1 h2 hbo hsame

theorem uniqueGo_rel : ∀ (cnt i : Nat), i + cnt ≤ n →
    ∃ P : List Nat, uniqueGo E.oo os oe cnt (os+i) = some (P.map (os + ·)) ∧
      uniqueGo E.nn ns ne cnt (ns+i) = some (P.map (ns + ·)) ∧ AscN n i P := by
  intro cnt
  induction cnt with
  | zero => intro i _; exact ⟨[], rfl, rfl, trivial⟩
  | succ c ih =>
    intro i hi
    obtain ⟨P, e1, e2, hp⟩ := ih (i+1) (by omega)
    obtain ⟨k, hk⟩ := PatienceT.countEq_total E.oo (os+i) os (oe - os)
      (fun k hk => hbo i k (by omega) (by omega))
    have hk2 : countEq E.nn (ns+i) ns (ne - ns) = some k := by
      rw [h2, ← h1, countEq_same E os ns i (oe - os) (fun j hj => hsame i j (by omega) (by omega)), hk]
    simp only [uniqueGo, Nat.add_assoc, hk, hk2, e1, e2]
    by_cases hk1 : (k == 1) = true
    · exact ⟨i :: P, by simp [hk1], by simp [hk1], Nat.le_refl _, by omega, hp.mono (by omega)⟩
    · exact ⟨P, by simp [hk1], by simp [hk1], hp.mono (by omega)⟩

theorem unique_rel : ∃ P : List Nat, unique E.oo os oe = some (P.map (os + ·)) ∧
    unique E.nn ns ne = some (P.map (ns + ·)) ∧ AscN n 0 P := by
  have := uniqueGo_rel E os oe ns ne n h1 h2 hbo hsame n 0 (by omega)
  simpa only [unique, h1, h2, Nat.add_zero] using this

end Uniq

/-! ## Patience: the anchor scans -/

/-- the `equal`s told while walking the anchors `Q` from cursor `c` (relative positions) -/
def segs (os ns : Nat) : Nat → List Nat → List Op
  | _, [] => []
  | c, a :: Q => identOps (os + c) (ns + c) (a - c) ++ segs os ns a Q

/-- the cursor after the anchors -/
def cursorEnd : Nat → List Nat → Nat
  | c, [] => c
  | _, a :: Q => cursorEnd a Q

theorem cursorEnd_bounds {n : Nat} : ∀ (Q : List Nat) (c : Nat), AscN n c Q → c ≤ n →
    c ≤ cursorEnd c Q ∧ cursorEnd c Q ≤ n := by
  intro Q
  induction Q with
  | nil => intro c _ hc; exact ⟨Nat.le_refl _, hc⟩
  | cons a Q ih =>
    intro c h hc
    obtain ⟨q1, q2⟩ := ih a h.2.2 (by have := h.2.1; omega)
    exact ⟨Nat.le_trans h.1 q1, q2⟩

theorem patScan_all (E : Env) : ∀ (fuel oc nc : Nat) (w : World),
    (∀ t, t < fuel → eqB E (oc+t) (nc+t) = true) →
    patScan E (oc + fuel) (nc + fuel) fuel oc nc w = .ok (oc + fuel, nc + fuel, addC w fuel) := by
  intro fuel
  induction fuel with
  | zero => intro oc nc w _; simp [patScan]
  | succ f ih =>
    intro oc nc w hd
    have h0 := cmp_true w (eqB_on (hd 0 (by omega)))
    simp only [Nat.add_zero] at h0
    simp only [patScan, show oc < oc + (f+1) by omega, show nc < nc + (f+1) by omega, decide_true,
      Bool.and_self, if_true, h0]
    have e1 : oc + (f+1) = (oc+1) + f := by omega
    have e2 : nc + (f+1) = (nc+1) + f := by omega
    rw [e1, e2, ih (oc+1) (nc+1) _ (fun t ht => by have := hd (1+t) (by omega); rwa [← Nat.add_assoc, ← Nat.add_assoc] at this),
      addC_addC, Nat.add_comm 1 f]

theorem patAnchor_ident (E : Env) (uo un : Array Nat) (os ns k c d : Nat) (T : List Call) (w : World)
    (hu : uo[k]? = some (os + (c + d))) (hv : un[k]? = some (ns + (c + d)))
    (hd : ∀ t, t < d → eqB E (os+c+t) (ns+c+t) = true) :
    patAnchor E recHook uo un k k { oc := os + c, nc := ns + c } { trace := T } w =
      .ok ({ oc := os + (c + d), nc := ns + (c + d) },
           { trace := T ++ (identOps (os + c) (ns + c) d).map Call.op }, addC w d) := by
  unfold patAnchor
  simp only [hu, hv]
  have e1 : min (os + (c + d) - (os + c)) (ns + (c + d) - (ns + c)) = d := by omega
  rw [e1, ← Nat.add_assoc, ← Nat.add_assoc, patScan_all E d (os+c) (ns+c) w hd]
  simp only
  have hem : (if os + c < os + c + d then emit recHook (.equal (os+c) (ns+c) (os + c + d - (os + c))) { trace := T } (addC w d)
      else .ok ({ trace := T }, addC w d)) =
      .ok ({ trace := T ++ (identOps (os + c) (ns + c) d).map Call.op }, addC w d) := by
    unfold identOps
    by_cases hd0 : d = 0
    · subst hd0; simp
    · rw [if_pos (by omega), if_neg hd0, Nat.add_sub_cancel_left]
      exact Replace.recHook_call _ T _
  rw [hem]
  simp only
  rw [myersDiff_ident E (noFinishHook recHook) _ _ _ _ 0 _ _ (Nat.sub_self _) (Nat.sub_self _) (fun t ht => by omega)]
  rfl

theorem patEqual_ident (E : Env) (uo un : Array Nat) (os ns n : Nat)
    (hd : ∀ t, t < n → eqB E (os+t) (ns+t) = true) : ∀ (Q : List Nat) (k c : Nat) (T : List Call) (w : World),
    AscN n c Q → (∀ j a, Q[j]? = some a → uo[k+j]? = some (os + a)) →
    (∀ j a, Q[j]? = some a → un[k+j]? = some (ns + a)) →
    patEqual E recHook uo un Q.length k k { oc := os + c, nc := ns + c } { trace := T } w =
      .ok ({ oc := os + cursorEnd c Q, nc := ns + cursorEnd c Q },
           { trace := T ++ (segs os ns c Q).map Call.op }, addC w (cursorEnd c Q - c)) := by
  intro Q
  induction Q with
  | nil => intro k c T w _ _ _; simp [patEqual, segs, cursorEnd]
  | cons a Q ih =>
    intro k c T w h hu hv
    obtain ⟨d, rfl⟩ : ∃ d, a = c + d := ⟨a - c, by have := h.1; omega⟩
    have hb := cursorEnd_bounds Q (c + d) h.2.2 (by have := h.2.1; omega)
    have hu0 := hu 0 (c + d) rfl
    have hv0 := hv 0 (c + d) rfl
    simp only [Nat.add_zero] at hu0 hv0
    simp only [List.length_cons, patEqual,
      patAnchor_ident E uo un os ns k c d T w hu0 hv0
        (fun t ht => by have := hd (c + t) (by have := h.2.1; omega); rwa [← Nat.add_assoc, ← Nat.add_assoc] at this)]
    rw [ih (k+1) (c+d) _ _ h.2.2
      (fun j a hj => by have := hu (j+1) a (by simpa using hj); rwa [Nat.add_assoc, Nat.add_comm 1 j])
      (fun j a hj => by have := hv (j+1) a (by simpa using hj); rwa [Nat.add_assoc, Nat.add_comm 1 j])]
    simp only [segs, cursorEnd, Nat.add_sub_cancel_left, List.map_append, List.append_assoc, addC_addC]
    rw [show d + (cursorEnd (c + d) Q - (c + d)) = cursorEnd (c + d) Q - c by omega]

/-! ## Patience: the raw stream is a valid script of `equal`s -/

theorem allEq_identOps (o n d : Nat) : AllEq (identOps o n d) := by
  unfold identOps
  split
  · intro x hx; cases hx
  · intro x hx; rw [List.mem_singleton.1 hx]; rfl

theorem AllEq.append {a b : List Op} (ha : AllEq a) (hb : AllEq b) : AllEq (a ++ b) := by
  intro x hx
  rcases List.mem_append.1 hx with h | h
  · exact ha x h
  · exact hb x h

theorem allEq_segs (os ns : Nat) : ∀ (Q : List Nat) (c : Nat), AllEq (segs os ns c Q) := by
  intro Q
  induction Q with
  | nil => intro c x hx; cases hx
  | cons a Q ih => intro c; exact (allEq_identOps _ _ _).append (ih a)

theorem walk_identOps {e : Nat → Nat → Bool} (o n d : Nat) (h : ∀ t, t < d → e (o+t) (n+t) = true) :
    Walk e o n (identOps o n d) (o + d) (n + d) := by
  unfold identOps
  split
  · rename_i h0; subst h0; exact ⟨rfl, rfl⟩
  · unfold Walk; exact ⟨rfl, rfl, by omega, h, by unfold Walk; exact ⟨rfl, rfl⟩⟩

theorem walk_segs (E : Env) (os ns n : Nat) (hd : ∀ t, t < n → eqB E (os+t) (ns+t) = true) :
    ∀ (Q : List Nat) (c : Nat), AscN n c Q → c ≤ n →
    Walk (eqB E) (os + c) (ns + c) (segs os ns c Q) (os + cursorEnd c Q) (ns + cursorEnd c Q) := by
  intro Q
  induction Q with
  | nil => intro c _ _; exact ⟨rfl, rfl⟩
  | cons a Q ih =>
    intro c h hc
    obtain ⟨d, rfl⟩ : ∃ d, a = c + d := ⟨a - c, by have := h.1; omega⟩
    have hlt := h.2.1
    simp only [segs, cursorEnd, Nat.add_sub_cancel_left]
    rw [Replace.walk_append]
    refine ⟨os + c + d, ns + c + d, walk_identOps _ _ _ (fun t ht => ?_), ?_⟩
    · have := hd (c + t) (by omega); rwa [← Nat.add_assoc, ← Nat.add_assoc] at this
    · have := ih (c + d) h.2.2 (by omega)
      rwa [← Nat.add_assoc, ← Nat.add_assoc] at this

theorem ascN_mem {n : Nat} : ∀ (Q : List Nat) (c : Nat), AscN n c Q → ∀ a ∈ Q, a < n := by
  intro Q
  induction Q with
  | nil => intro c _ a ha; cases ha
  | cons b Q ih =>
    intro c h a ha
    rcases List.mem_cons.1 ha with rfl | ha
    · exact h.2.1
    · exact ih b h.2.2 a ha

/-- the raw ops of Patience on an identical pair whose unique items sit at the relative positions `P` -/
def patOps (os ns n : Nat) (P : List Nat) : List Op :=
  segs os ns 0 P ++ identOps (os + cursorEnd 0 P) (ns + cursorEnd 0 P) (n - cursorEnd 0 P)

theorem patOps_valid (E : Env) (os ns n : Nat) (hd : ∀ t, t < n → eqB E (os+t) (ns+t) = true)
    (P : List Nat) (hP : AscN n 0 P) :
    AllEq (patOps os ns n P) ∧ Walk (eqB E) os ns (patOps os ns n P) (os + n) (ns + n) := by
  have hb := cursorEnd_bounds P 0 hP (Nat.zero_le _)
  refine ⟨(allEq_segs os ns P 0).append (allEq_identOps _ _ _), ?_⟩
  unfold patOps
  rw [Replace.walk_append]
  refine ⟨_, _, walk_segs E os ns n hd P 0 hP (Nat.zero_le _), ?_⟩
  have := walk_identOps (e := eqB E) (os + cursorEnd 0 P) (ns + cursorEnd 0 P) (n - cursorEnd 0 P)
    (fun t ht => by have := hd (cursorEnd 0 P + t) (by omega); rwa [← Nat.add_assoc, ← Nat.add_assoc] at this)
  rwa [Nat.add_assoc, Nat.add_assoc, Nat.add_sub_cancel' hb.2] at this

/-- Patience over the recording hook, given the relative positions `P` of the unique items -/
theorem patienceDiff_ident (E : Env) (os oe ns ne n : Nat) (w : World) (h1 : oe - os = n) (h2 : ne - ns = n)
    (hd : ∀ t, t < n → eqB E (os+t) (ns+t) = true) (P : List Nat) (hP : AscN n 0 P)
    (hu1 : unique E.oo os oe = some (P.map (os + ·))) (hu2 : unique E.nn ns ne = some (P.map (ns + ·))) :
    patienceDiff E recHook os oe ns ne {} w =
      .ok ({ trace := (patOps os ns n P).map Call.op ++ [.finish] }, addC w (P.length + n)) := by
  have hb := cursorEnd_bounds P 0 hP (Nat.zero_le _)
  have hsub : ∀ t, t < P.length →
      eqB (E.sub (P.map (os + ·)).toArray (P.map (ns + ·)).toArray) (0 + t) (0 + t) = true := by
    intro t ht
    have := hd P[t] (ascN_mem P 0 hP _ (List.getElem_mem ht))
    simpa [eqB, Env.sub, ht] using this
  have hpe := patEqual_ident E (P.map (os + ·)).toArray (P.map (ns + ·)).toArray os ns n hd P 0 0 []
    (addC w P.length) hP (fun j a hj => by simp [hj]) (fun j a hj => by simp [hj])
  have hmy := myersDiff_ident E recHook (os + cursorEnd 0 P) oe (ns + cursorEnd 0 P) ne (n - cursorEnd 0 P)
    { trace := [] ++ (segs os ns 0 P).map Call.op } (addC (addC w P.length) (cursorEnd 0 P - 0))
    (by omega) (by omega)
    (fun t ht => by have := hd (cursorEnd 0 P + t) (by omega); rwa [← Nat.add_assoc, ← Nat.add_assoc] at this)
  simp only [tellEqual_recT, Replace.recHook_call] at hmy
  simp only [Nat.add_zero] at hpe
  unfold patienceDiff
  simp only [hu1, hu2]
  rw [myersDiff_ident _ _ 0 _ 0 _ P.length _ w (by simp) (by simp) hsub]
  have hfin : addC (addC (addC w P.length) (cursorEnd 0 P - 0)) (n - cursorEnd 0 P) = addC w (P.length + n) := by
    rw [addC_addC, addC_addC]; congr 1; omega
  by_cases hm : 0 < P.length
  · simp only [tellEqual, hm, if_true, replaceHook, rFlushEq, rFlushDelIns, patienceHook, hpe, hmy, hfin]
    simp [patOps]
  · have : P = [] := List.eq_nil_of_length_eq_zero (by omega)
    subst this
    simp only [cursorEnd, segs, List.map_nil, List.append_nil, Nat.add_zero, List.length_nil, Nat.sub_self,
      Nat.sub_zero, addC_zero, List.nil_append] at hmy
    simp only [tellEqual, List.length_nil, Nat.lt_irrefl, if_false, replaceHook, rFlushEq, rFlushDelIns,
      patienceHook, hmy]
    simp [patOps, segs, cursorEnd]

section PatienceMain
variable (E : Env) (os oe ns ne n : Nat) (w : World) (h1 : oe - os = n) (h2 : ne - ns = n)
  (hd : ∀ t, t < n → eqB E (os+t) (ns+t) = true)
  (hbo : ∀ i j, i < n → j < n → (E.oo (os+i) (os+j)).isSome)
  (hsame : ∀ i j, i < n → j < n → E.nn (ns+i) (ns+j) = E.oo (os+i) (os+j))
include h1 h2 hd hbo hsame

/-- **(1) raw stream, Patience**, every clock: a valid script of `equal`s only (one per anchor gap and
one for the tail), then `finish`; `n` plus one comparison per unique item; no probe -/
theorem rawTrace_patience_ident :
    ∃ raw uo, unique E.oo os oe = some uo ∧
      rawTrace .patience E os oe ns ne w =
        .ok ({ trace := raw.map Call.op ++ [.finish] }, addC w (uo.length + n)) ∧
      AllEq raw ∧ nDel raw = 0 ∧ nIns raw = 0 ∧ Walk (eqB E) os ns raw (os + n) (ns + n) := by
  obtain ⟨P, hu1, hu2, hP⟩ := unique_rel E os oe ns ne n h1 h2 hbo hsame
  obtain ⟨ha, hw⟩ := patOps_valid E os ns n hd P hP
  obtain ⟨-, hdel, hins⟩ := allEq_counts _ ha
  refine ⟨patOps os ns n P, _, hu1, ?_, ha, hdel, hins, hw⟩
  have := patienceDiff_ident E os oe ns ne n w h1 h2 hd P hP hu1 hu2
  simpa [rawTrace, diffWith] using this

/-- **(2) captured ops, Patience**, every clock, both settings of the repair switch -/
theorem captureDiff_patience_ident (repair : Bool) :
    ∃ uo, unique E.oo os oe = some uo ∧
      captureDiff .patience E repair os oe ns ne w =
        .ok (if n = 0 then [] else [.equal os ns n], addC w (uo.length + n)) := by
  obtain ⟨raw, uo, hu, hraw, ha, -, -, hw⟩ := rawTrace_patience_ident E os oe ns ne n w h1 h2 hd hbo hsame
  refine ⟨uo, hu, ?_⟩
  by_cases hn : n = 0
  · subst hn
    have hnil : raw = [] := by
      cases raw with
      | nil => rfl
      | cons x xs =>
        have hx := ha x List.mem_cons_self
        cases x <;> simp [Op.tag] at hx
        simp only [Walk] at hw
        have hm := CompactT.walk_mono hw.2.2.2.2
        omega
    subst hnil
    simp only [if_true]
    exact capture_of_nil .patience E repair os oe ns ne w _ hraw
  · have e1 : os + n = oe := by omega
    have e2 : ns + n = ne := by omega
    rw [e1, e2] at hw
    rw [capture_of_allEq .patience E repair os oe ns ne w raw _ hraw ha hw, h1, identOps]

end PatienceMain

/-! ## the hypotheses of the Patience part from an equality pattern (real sequences) -/

/-- for an `Env` that is an equality pattern (C14: the three relations come from labels), element-wise
equal ranges give the two Patience hypotheses: same-side comparisons in bounds and identical on both sides -/
theorem eqPattern_same {E : Env} {os oe ns ne n : Nat} (hp : IdentP.EqPattern E os oe ns ne)
    (h1 : oe - os = n) (h2 : ne - ns = n) (hd : ∀ t, t < n → eqB E (os+t) (ns+t) = true) :
    (∀ i j, i < n → j < n → (E.oo (os+i) (os+j)).isSome) ∧
    (∀ i j, i < n → j < n → E.nn (ns+i) (ns+j) = E.oo (os+i) (os+j)) := by
  obtain ⟨lo, ln, hoo, hnn, hon⟩ := hp
  have hl : ∀ t, t < n → ln (ns + t) = lo (os + t) := by
    intro t ht
    have := eqB_on (hd t ht)
    rw [hon (os+t) (ns+t) (by omega) (by omega) (by omega) (by omega)] at this
    simpa using this
  constructor
  · intro i j hi hj
    rw [hoo (os+i) (os+j) (by omega) (by omega) (by omega) (by omega)]; rfl
  · intro i j hi hj
    rw [hoo (os+i) (os+j) (by omega) (by omega) (by omega) (by omega),
      hnn (ns+i) (ns+j) (by omega) (by omega) (by omega) (by omega), hl i hi, hl j hj]

/-- **C02, first clause, all three algorithms**: for an equality pattern and element-wise equal ranges of
length `n`, `capture_diff` returns `[Equal os ns n]` (`[]` for `n = 0`) for every clock and both settings
of the repair switch, without probing the clock -/
theorem captureDiff_identical (alg : Alg) (E : Env) (repair : Bool) (os oe ns ne n : Nat) (w : World)
    (hp : IdentP.EqPattern E os oe ns ne) (h1 : oe - os = n) (h2 : ne - ns = n)
    (hd : ∀ t, t < n → eqB E (os+t) (ns+t) = true) :
    ∃ k, captureDiff alg E repair os oe ns ne w = .ok (if n = 0 then [] else [.equal os ns n], addC w k) := by
  by_cases halg : alg = .patience
  · subst halg
    obtain ⟨hbo, hsame⟩ := eqPattern_same hp h1 h2 hd
    obtain ⟨uo, -, hc⟩ := captureDiff_patience_ident E os oe ns ne n w h1 h2 hd hbo hsame repair
    exact ⟨_, hc⟩
  · exact ⟨_, captureDiff_ident alg halg E repair os oe ns ne n w h1 h2 hd⟩

end SimilarVerif.IdentQ

section Axioms
open SimilarVerif.IdentQ
#print axioms conquer_ident
#print axioms myersDiff_ident
#print axioms lcsDiff_ident
#print axioms rawTrace_ident
#print axioms captureDiff_ident
#print axioms rawTrace_patience_ident
#print axioms captureDiff_patience_ident
#print axioms captureDiff_identical
end Axioms

import SimilarVerif.Lemmas.Identify
import SimilarVerif.Lemmas.PatienceTotal
/-! # The unique lists are at least as close as the sequences

A purely combinatorial fact used by C19 for Patience (`PatienceCost.lean`): when the three relations
of `E` are an equality pattern (`Identify.EqPatternWith`: they come from two label sequences), the
edit distance of the two `unique` index lists (compared through the items, `Env.sub`) is at most the
cost of ANY valid script for the two ranges (`outer_le_cost`).

Proof: let `Mt` be the pairs a script reports Equal (a chain).  (P1) the pairs of `Mt` whose two
items are unique on their side form a common subsequence of the unique lists, so there are at most
`lcsLen` of them (`chain_le_lcsLen`).  (P2) counting label by label (`per_label`): every other pair
of `Mt` is paid for by two non-unique items, `|uo| + |un| + 2·|Mt| ≤ N + M + 2·|Mt_uu|`. -/
namespace SimilarVerif.PatienceC
open SimilarVerif Spec MyersT LcsMin PatienceP PatienceT IdentP

/-! ## sums over an initial segment of the labels -/

def sumTo : Nat → (Nat → Nat) → Nat
  | 0, _ => 0
  | K+1, f => sumTo K f + f K

theorem sumTo_add (f g : Nat → Nat) : ∀ K, sumTo K (fun v => f v + g v) = sumTo K f + sumTo K g := by
  intro K
  induction K with
  | zero => rfl
  | succ K ih => simp only [sumTo, ih]; omega

theorem sumTo_le {f g : Nat → Nat} : ∀ K, (∀ v, v < K → f v ≤ g v) → sumTo K f ≤ sumTo K g := by
  intro K
  induction K with
  | zero => intro _; exact Nat.le_refl _
  | succ K ih =>
    intro h
    have := ih (fun v hv => h v (by omega))
    have := h K (Nat.lt_succ_self _)
    simp only [sumTo]; omega

theorem sumTo_congr {f g : Nat → Nat} (K : Nat) (h : ∀ v, v < K → f v = g v) : sumTo K f = sumTo K g :=
  Nat.le_antisymm (sumTo_le K fun v hv => Nat.le_of_eq (h v hv))
    (sumTo_le K fun v hv => Nat.le_of_eq (h v hv).symm)

theorem sumTo_mul (c : Nat) (f : Nat → Nat) : ∀ K, sumTo K (fun v => c * f v) = c * sumTo K f := by
  intro K
  induction K with
  | zero => rfl
  | succ K ih => simp only [sumTo, ih, Nat.mul_add]

theorem sumTo_zero : ∀ K, sumTo K (fun _ => 0) = 0 := by
  intro K
  induction K with
  | zero => rfl
  | succ K ih => simp only [sumTo, ih]

/-- the indicator of one label sums to `c` if the label is below the bound -/
theorem sumTo_ind (a c : Nat) : ∀ K, sumTo K (fun v => if a = v then c else 0) = if a < K then c else 0 := by
  intro K
  induction K with
  | zero => rfl
  | succ K ih =>
    simp only [sumTo, ih]
    by_cases h1 : a < K
    · have : a ≠ K := by omega
      simp [h1, this, Nat.lt_succ_of_lt h1]
    · by_cases h2 : a = K
      · subst h2; simp
      · have : ¬ a < K + 1 := by omega
        simp [h1, h2, this]

/-- counting label by label -/
theorem countP_sum {α : Type} (lab : α → Nat) (P : α → Bool) (K : Nat) : ∀ (l : List α),
    (∀ x ∈ l, lab x < K) → l.countP P = sumTo K (fun v => l.countP (fun x => P x && lab x == v)) := by
  intro l
  induction l with
  | nil => intro _; simp only [List.countP_nil]; exact (sumTo_zero K).symm
  | cons x xs ih =>
    intro h
    have hx := h x (by simp)
    have := ih (fun y hy => h y (List.mem_cons_of_mem _ hy))
    have e : ∀ v, (x :: xs).countP (fun x => P x && lab x == v)
        = xs.countP (fun x => P x && lab x == v) + (if lab x = v then (if P x then 1 else 0) else 0) := by
      intro v
      rw [List.countP_cons]
      by_cases h1 : lab x = v <;> by_cases h2 : P x = true <;> simp [h1, h2]
    rw [sumTo_congr K (fun v _ => e v), sumTo_add, sumTo_ind, ← this, List.countP_cons]
    simp [hx]

/-! ## P1: a chain of equal pairs inside a box is a common subsequence -/

theorem chain_le_lcsLen (e : Nat → Nat → Bool) : ∀ (l : List (Nat × Nat)), Chain l → ∀ (a b i j : Nat),
    (∀ q ∈ l, i ≤ q.1 ∧ q.1 < i + a ∧ j ≤ q.2 ∧ q.2 < j + b ∧ e q.1 q.2 = true) →
    l.length ≤ lcsLen e a b i j := by
  intro l
  induction l with
  | nil => intro _ a b i j _; simp
  | cons q rest ih =>
    intro hch a b i j h
    unfold Chain at hch
    rw [List.pairwise_cons] at hch
    obtain ⟨q1, q2, q3, q4, q5⟩ := h q (by simp)
    have hrest := ih hch.2 (i + a - (q.1 + 1)) (j + b - (q.2 + 1)) (q.1 + 1) (q.2 + 1) (by
      intro y hy
      have hy' := h y (List.mem_cons_of_mem _ hy)
      have := hch.1 y hy
      exact ⟨by omega, by omega, by omega, by omega, hy'.2.2.2.2⟩)
    have s1 := lcsLen_succ_eq q5 (i + a - (q.1 + 1)) (j + b - (q.2 + 1))
    have s2 := lcsLen_drop_old e (q.1 - i) (i + a - (q.1 + 1) + 1) (j + b - (q.2 + 1) + 1) i q.2
    have s3 := lcsLen_drop_new e (q.2 - j) (i + a - (q.1 + 1) + 1 + (q.1 - i)) (j + b - (q.2 + 1) + 1) i j
    rw [show i + (q.1 - i) = q.1 from by omega,
      show i + a - (q.1 + 1) + 1 + (q.1 - i) = a from by omega] at s2
    rw [show j + (q.2 - j) = q.2 from by omega] at s3
    rw [show i + a - (q.1 + 1) + 1 + (q.1 - i) = a from by omega,
      show j + b - (q.2 + 1) + 1 + (q.2 - j) = b from by omega] at s3
    simp only [List.length_cons]
    omega

/-! ## `unique` as a filter by label counts -/

/-- number of positions of `[s, s+len)` carrying label `v` -/
def cntL (lab : Nat → Nat) (s len v : Nat) : Nat := (List.range' s len).countP (fun i => lab i == v)

theorem cntL_succ (lab : Nat → Nat) (s len v : Nat) :
    cntL lab s (len+1) v = cntL lab s len v + (if lab (s+len) = v then 1 else 0) := by
  unfold cntL
  rw [List.range'_concat, List.countP_append]
  by_cases h : lab (s+len) = v <;> simp [h]

section Uniq
variable {eq : Nat → Nat → Option Bool} {lab : Nat → Nat} {s0 e0 : Nat}
  (heq : ∀ i j, s0 ≤ i → i < e0 → s0 ≤ j → j < e0 → eq i j = some (lab i == lab j))
include heq

theorem countEq_cntL (i : Nat) (hi1 : s0 ≤ i) (hi2 : i < e0) : ∀ (len : Nat), s0 + len ≤ e0 →
    countEq eq i s0 len = some (cntL lab s0 len (lab i)) := by
  intro len
  induction len with
  | zero => intro _; rfl
  | succ len ih =>
    intro h
    rw [countEq, heq i (s0+len) hi1 hi2 (by omega) (by omega), ih (by omega), cntL_succ]
    by_cases h1 : lab (s0+len) = lab i
    · simp [h1]
    · have : ¬ lab i = lab (s0+len) := fun h => h1 h.symm
      simp [h1, this]

theorem uniqueGo_filter : ∀ (cnt i : Nat), s0 ≤ i → i + cnt ≤ e0 →
    uniqueGo eq s0 e0 cnt i =
      some ((List.range' i cnt).filter (fun x => cntL lab s0 (e0 - s0) (lab x) == 1)) := by
  intro cnt
  induction cnt with
  | zero => intro i _ _; rfl
  | succ c ih =>
    intro i h1 h2
    rw [uniqueGo, countEq_cntL heq i h1 (by omega) (e0 - s0) (by omega), ih (i+1) (by omega) (by omega)]
    simp only [List.range'_succ, List.filter_cons]

theorem unique_filter {l : List Nat} (h : unique eq s0 e0 = some l) :
    l = (List.range' s0 (e0 - s0)).filter (fun x => cntL lab s0 (e0 - s0) (lab x) == 1) := by
  unfold unique at h
  by_cases hle : s0 ≤ e0
  · rw [uniqueGo_filter heq (e0 - s0) s0 (Nat.le_refl _) (by omega)] at h
    simp only [Option.some.injEq] at h
    exact h.symm
  · have : e0 - s0 = 0 := by omega
    rw [this] at h ⊢
    simp only [uniqueGo, Option.some.injEq] at h
    simp [← h]

end Uniq

/-! ## P2: counting label by label -/

/-- `x` carries a label that occurs exactly once in `[s, s+len)` -/
def uniqB (lab : Nat → Nat) (s len x : Nat) : Bool := cntL lab s len (lab x) == 1

theorem labels_bounded (f : Nat → Nat) (s : Nat) : ∀ len, ∃ K, ∀ i, s ≤ i → i < s + len → f i < K := by
  intro len
  induction len with
  | zero => exact ⟨0, fun i h1 h2 => by omega⟩
  | succ len ih =>
    obtain ⟨K, hK⟩ := ih
    refine ⟨max K (f (s+len) + 1), fun i h1 h2 => ?_⟩
    by_cases h : i = s + len
    · subst h; omega
    · have := hK i h1 (by omega); omega

theorem len_eq_sum (lab : Nat → Nat) (s len K : Nat) (hK : ∀ i, s ≤ i → i < s + len → lab i < K) :
    len = sumTo K (cntL lab s len) := by
  have := countP_sum lab (fun _ => true) K (List.range' s len)
    (fun x hx => by rw [List.mem_range'_1] at hx; exact hK x hx.1 hx.2)
  simp only [Bool.true_and] at this
  rw [List.countP_true, List.length_range'] at this
  exact this

theorem uniq_len_eq_sum (lab : Nat → Nat) (s len K : Nat) (hK : ∀ i, s ≤ i → i < s + len → lab i < K) :
    ((List.range' s len).filter (uniqB lab s len)).length
      = sumTo K (fun v => if cntL lab s len v = 1 then 1 else 0) := by
  rw [← List.countP_eq_length_filter, countP_sum lab (uniqB lab s len) K (List.range' s len)
    (fun x hx => by rw [List.mem_range'_1] at hx; exact hK x hx.1 hx.2)]
  apply sumTo_congr
  intro v _
  by_cases h1 : cntL lab s len v = 1
  · rw [if_pos h1]
    have : (List.range' s len).countP (fun x => uniqB lab s len x && lab x == v)
        = (List.range' s len).countP (fun x => lab x == v) := by
      apply List.countP_congr
      intro x _
      by_cases h2 : lab x = v
      · simp [uniqB, h2, h1]
      · simp [h2]
    rw [this]; exact h1
  · rw [if_neg h1]
    rw [List.countP_eq_zero]
    intro x _
    by_cases h2 : lab x = v
    · simp [uniqB, h2, h1]
    · simp [h2]

/-- the per-label inequality -/
theorem per_label (o n m muu : Nat) (h1 : m ≤ o) (h2 : m ≤ n) (h3 : o = 1 → n = 1 → muu = m) :
    (if o = 1 then 1 else 0) + (if n = 1 then 1 else 0) + 2 * m ≤ o + n + 2 * muu := by
  by_cases ho : o = 1 <;> by_cases hn : n = 1 <;> simp only [ho, hn, if_true, if_false]
  · have := h3 ho hn; omega
  · omega
  · omega
  · omega

section Matching
variable {lo ln : Nat → Nat} {os N ns M : Nat} {Mt : List (Nat × Nat)} (hch : Chain Mt)
  (hq : ∀ q ∈ Mt, os ≤ q.1 ∧ q.1 < os + N ∧ ns ≤ q.2 ∧ q.2 < ns + M ∧ lo q.1 = ln q.2)
include hch hq

theorem m_le_old (v : Nat) : Mt.countP (fun q => lo q.1 == v) ≤ cntL lo os N v := by
  have := sorted_filter_count (fun i => lo i == v) N os ((Mt.filter (fun q => lo q.1 == v)).map Prod.fst)
    (by
      rw [List.pairwise_map]
      exact List.Pairwise.imp (fun hxy => hxy.1) (List.Pairwise.filter _ hch))
    (by
      intro x hx
      simp only [List.mem_map, List.mem_filter] at hx
      obtain ⟨q, ⟨hm, hv⟩, rfl⟩ := hx
      have := hq q hm
      exact ⟨this.1, this.2.1, hv⟩)
  rw [List.length_map, ← List.countP_eq_length_filter, ← List.countP_eq_length_filter] at this
  exact this

theorem m_le_new (v : Nat) : Mt.countP (fun q => lo q.1 == v) ≤ cntL ln ns M v := by
  have e : Mt.countP (fun q => lo q.1 == v) = Mt.countP (fun q => ln q.2 == v) := by
    apply List.countP_congr
    intro q hm
    rw [(hq q hm).2.2.2.2]
  rw [e]
  have := sorted_filter_count (fun i => ln i == v) M ns ((Mt.filter (fun q => ln q.2 == v)).map Prod.snd)
    (by
      rw [List.pairwise_map]
      exact List.Pairwise.imp (fun hxy => hxy.2) (List.Pairwise.filter _ hch))
    (by
      intro x hx
      simp only [List.mem_map, List.mem_filter] at hx
      obtain ⟨q, ⟨hm, hv⟩, rfl⟩ := hx
      have := hq q hm
      exact ⟨this.2.2.1, this.2.2.2.1, hv⟩)
  rw [List.length_map, ← List.countP_eq_length_filter, ← List.countP_eq_length_filter] at this
  exact this

omit hch in
theorem muu_eq (v : Nat) (h1 : cntL lo os N v = 1) (h2 : cntL ln ns M v = 1) :
    Mt.countP (fun q => (uniqB lo os N q.1 && uniqB ln ns M q.2) && lo q.1 == v)
      = Mt.countP (fun q => lo q.1 == v) := by
  apply List.countP_congr
  intro q hm
  have hl := (hq q hm).2.2.2.2
  by_cases h : lo q.1 = v
  · have h' : ln q.2 = v := by rw [← hl]; exact h
    simp [uniqB, h, h', h1, h2]
  · simp [h]

/-- **P2**: every reported pair that is not a pair of unique items is paid for by two non-unique items -/
theorem count_ineq (K : Nat) (hKo : ∀ i, os ≤ i → i < os + N → lo i < K)
    (hKn : ∀ j, ns ≤ j → j < ns + M → ln j < K) :
    ((List.range' os N).filter (uniqB lo os N)).length + ((List.range' ns M).filter (uniqB ln ns M)).length
      + 2 * Mt.length
    ≤ N + M + 2 * (Mt.filter (fun q => uniqB lo os N q.1 && uniqB ln ns M q.2)).length := by
  have hlab : ∀ q ∈ Mt, lo q.1 < K := fun q hm => hKo _ (hq q hm).1 (hq q hm).2.1
  have e1 := uniq_len_eq_sum lo os N K hKo
  have e2 := uniq_len_eq_sum ln ns M K hKn
  have e3 : Mt.length = sumTo K (fun v => Mt.countP (fun q => lo q.1 == v)) := by
    have := countP_sum (fun q : Nat × Nat => lo q.1) (fun _ => true) K Mt hlab
    simp only [Bool.true_and, List.countP_true] at this
    exact this
  have e4 := len_eq_sum lo os N K hKo
  have e5 := len_eq_sum ln ns M K hKn
  have e6 : (Mt.filter (fun q => uniqB lo os N q.1 && uniqB ln ns M q.2)).length
      = sumTo K (fun v => Mt.countP (fun q => (uniqB lo os N q.1 && uniqB ln ns M q.2) && lo q.1 == v)) := by
    rw [← List.countP_eq_length_filter]
    exact countP_sum (fun q : Nat × Nat => lo q.1) _ K Mt hlab
  have key := sumTo_le (f := fun v => (if cntL lo os N v = 1 then 1 else 0)
      + (if cntL ln ns M v = 1 then 1 else 0) + 2 * Mt.countP (fun q => lo q.1 == v))
    (g := fun v => cntL lo os N v + cntL ln ns M v
      + 2 * Mt.countP (fun q => (uniqB lo os N q.1 && uniqB ln ns M q.2) && lo q.1 == v)) K
    (fun v _ => per_label _ _ _ _ (m_le_old hch hq v) (m_le_new hch hq v)
      (fun h1 h2 => muu_eq hq v h1 h2))
  rw [sumTo_add, sumTo_add, sumTo_mul, sumTo_add, sumTo_add, sumTo_mul] at key
  omega

end Matching

/-! ## the theorem -/

theorem getElem?_idxOf_mem {l : List Nat} {x : Nat} (h : x ∈ l) : l[l.idxOf x]? = some x := by
  have := List.idxOf_lt_length_of_mem h
  simp [this]

/-- in a strictly ascending list the position is monotone in the entry -/
theorem idxOf_lt_of_lt {l : List Nat} (hs : l.Pairwise (· < ·)) {x y : Nat} (hx : x ∈ l) (hy : y ∈ l)
    (hxy : x < y) : l.idxOf x < l.idxOf y := by
  rcases Nat.lt_trichotomy (l.idxOf x) (l.idxOf y) with h | h | h
  · exact h
  · have h1 := getElem?_idxOf_mem hx
    have h2 := getElem?_idxOf_mem hy
    rw [h, h2] at h1
    simp only [Option.some.injEq] at h1
    omega
  · have := pairwise_getElem? l hs _ _ _ _ h (getElem?_idxOf_mem hy) (getElem?_idxOf_mem hx)
    omega

theorem filter_range_sorted (p : Nat → Bool) (s len : Nat) :
    ((List.range' s len).filter p).Pairwise (· < ·) :=
  List.Pairwise.filter _ List.pairwise_lt_range'

/-- **the edit distance of the unique lists is at most the cost of any valid script** -/
theorem outer_le_cost {E : Env} {os oe ns ne : Nat} {lo ln : Nat → Nat}
    (hE : EqPatternWith E os oe ns ne lo ln) {uo un : List Nat}
    (hu1 : unique E.oo os oe = some uo) (hu2 : unique E.nn ns ne = some un)
    {ops : List Op} (hw : Walk (eqB E) os ns ops oe ne) (ho : os ≤ oe) (hn : ns ≤ ne) :
    boxD (E.sub uo.toArray un.toArray) 0 uo.length 0 un.length ≤ Spec.cost ops := by
  have fo := unique_filter hE.oo hu1
  have fn := unique_filter hE.nn hu2
  change uo = (List.range' os (oe - os)).filter (uniqB lo os (oe - os)) at fo
  change un = (List.range' ns (ne - ns)).filter (uniqB ln ns (ne - ns)) at fn
  obtain ⟨Mt, m1, m2, m3⟩ := walk_pairs ops os ns oe ne hw
  have hq : ∀ q ∈ Mt, os ≤ q.1 ∧ q.1 < os + (oe - os) ∧ ns ≤ q.2 ∧ q.2 < ns + (ne - ns) ∧ lo q.1 = ln q.2 := by
    intro q hm
    obtain ⟨c1, c2, c3, c4, c5⟩ := walk_covered _ _ _ _ _ _ _ hw (m3 q hm).1
    refine ⟨c1, by omega, c3, by omega, ?_⟩
    simp only [eqB, hE.on _ _ c1 c2 c3 c4, beq_iff_eq, Option.some.injEq] at c5
    exact c5.symm
  obtain ⟨Ko, hKo⟩ := labels_bounded lo os (oe - os)
  obtain ⟨Kn, hKn⟩ := labels_bounded ln ns (ne - ns)
  have hcount := count_ineq m2 hq (max Ko Kn)
    (fun i h1 h2 => by have := hKo i h1 h2; omega) (fun j h1 h2 => by have := hKn j h1 h2; omega)
  rw [← fo, ← fn] at hcount
  -- P1
  have hso : uo.Pairwise (· < ·) := by rw [fo]; exact filter_range_sorted _ _ _
  have hsn : un.Pairwise (· < ·) := by rw [fn]; exact filter_range_sorted _ _ _
  have hmem : ∀ q ∈ Mt.filter (fun q => uniqB lo os (oe - os) q.1 && uniqB ln ns (ne - ns) q.2),
      q ∈ Mt ∧ q.1 ∈ uo ∧ q.2 ∈ un := by
    intro q hm
    simp only [List.mem_filter, Bool.and_eq_true] at hm
    obtain ⟨hm, u1, u2⟩ := hm
    obtain ⟨c1, c2, c3, c4, -⟩ := hq q hm
    refine ⟨hm, ?_, ?_⟩
    · rw [fo, List.mem_filter, List.mem_range'_1]; exact ⟨⟨c1, c2⟩, u1⟩
    · rw [fn, List.mem_filter, List.mem_range'_1]; exact ⟨⟨c3, c4⟩, u2⟩
  have hP1 := chain_le_lcsLen (eqB (E.sub uo.toArray un.toArray))
    ((Mt.filter (fun q => uniqB lo os (oe - os) q.1 && uniqB ln ns (ne - ns) q.2)).map
      (fun q => (uo.idxOf q.1, un.idxOf q.2)))
    (by
      unfold Chain
      rw [List.pairwise_map]
      refine List.Pairwise.imp_of_mem ?_ (List.Pairwise.filter _ m2)
      intro a b ha hb hab
      obtain ⟨-, a1, a2⟩ := hmem a ha
      obtain ⟨-, b1, b2⟩ := hmem b hb
      exact ⟨idxOf_lt_of_lt hso a1 b1 hab.1, idxOf_lt_of_lt hsn a2 b2 hab.2⟩)
    uo.length un.length 0 0
    (by
      intro q' hq'
      simp only [List.mem_map] at hq'
      obtain ⟨q, hm, rfl⟩ := hq'
      obtain ⟨hm', a1, a2⟩ := hmem q hm
      obtain ⟨c1, c2, c3, c4, c5⟩ := hq q hm'
      refine ⟨Nat.zero_le _, by have := List.idxOf_lt_length_of_mem a1; omega, Nat.zero_le _,
        by have := List.idxOf_lt_length_of_mem a2; omega, ?_⟩
      simp only [eqB, Env.sub, List.getElem?_toArray, getElem?_idxOf_mem a1, getElem?_idxOf_mem a2,
        hE.on _ _ c1 (by omega) c3 (by omega), c5]
      simp)
  rw [List.length_map] at hP1
  have hb := boxD_lcs (E.sub uo.toArray un.toArray) 0 uo.length 0 un.length
  have hc := walk_cost_eq hw
  simp only [Nat.sub_zero] at hb
  omega

#print axioms outer_le_cost

end SimilarVerif.PatienceC

import SimilarVerif.Lemmas.ReplaceTotal
/-! # Re-use of one `Replace` adapter for a second diff (C08)

`Replace::finish` flushes the pending equal run and the pending delete/insert runs, so it leaves the adapter in
its initial state (`replace_finish_resets`, any inner hook). Hence the adapter state returned by a run is `{}`
(`replace_run_final_state`), and a second diff through the same adapter value behaves like a diff through a fresh
one: what the recording hook already holds is only a prefix of what it holds afterwards (`replace_prefix`, a
simulation between `Replace` over a recording hook with trace `T` and with trace `P ++ T`; `replace_reuse`). -/
namespace SimilarVerif.ReplaceReuse
open SimilarVerif Spec HookFail Headline ReplaceTotal

/-! ### `finish` resets the adapter -/

theorem rFlushEq_eq {σ} {h : Hook σ} {r r' : RState} {s s' : σ} {w w' : World}
    (hc : rFlushEq h r s w = .ok (r', s', w')) : r' = { r with eq := none } := by
  unfold rFlushEq at hc
  obtain ⟨d, i, q⟩ := r
  rcases q with _ | ⟨q1, q2, q3⟩
  · simp only at hc; cases hc; rfl
  · simp only at hc
    split at hc
    · cases hc
    · cases hc; rfl

theorem rFlushDelIns_eq {σ} {h : Hook σ} {r r' : RState} {s s' : σ} {w w' : World}
    (hc : rFlushDelIns h r s w = .ok (r', s', w')) : r' = { r with del := none, ins := none } := by
  unfold rFlushDelIns at hc
  obtain ⟨d, i, q⟩ := r
  rcases d with _ | ⟨d1, d2, d3⟩ <;> rcases i with _ | ⟨i1, i2, i3⟩ <;> simp only at hc
  · cases hc; rfl
  all_goals
    split at hc
    · cases hc
    · cases hc; rfl

/-- **`finish` leaves the adapter in its initial state**, whatever the inner hook and the pending runs -/
theorem replace_finish_resets {σ} (h : Hook σ) (rs rs' : RState) (s s' : σ) (w w' : World)
    (hc : (replaceHook h).call .finish (rs, s) w = .ok ((rs', s'), w')) : rs' = {} := by
  simp only [replaceHook] at hc
  cases h1 : rFlushEq h rs s w with
  | error e => simp [h1] at hc
  | ok v1 =>
    obtain ⟨r1, s1, w1⟩ := v1
    simp only [h1] at hc
    cases h2 : rFlushDelIns h r1 s1 w1 with
    | error e => simp [h2] at hc
    | ok v2 =>
      obtain ⟨r2, s2, w2⟩ := v2
      simp only [h2] at hc
      cases h3 : h.call .finish s2 w2 with
      | error e => simp [h3] at hc
      | ok v3 =>
        obtain ⟨s3, w3⟩ := v3
        simp only [h3] at hc
        have e1 := rFlushEq_eq h1
        have e2 := rFlushDelIns_eq h2
        cases hc
        rw [e2, e1]

/-- feeding a stream that ends with `finish` to `Replace` leaves the adapter in its initial state -/
theorem deliver_finish_resets {σ} (h : Hook σ) (cs : List Call) (st : RState × σ) (w : World)
    (rs' : RState) (s' : σ) (w' : World)
    (hd : deliver (replaceHook h) (cs ++ [.finish]) st w = .ok ((rs', s'), w')) : rs' = {} := by
  rw [CaptureP.deliver_snoc] at hd
  cases h1 : deliver (replaceHook h) cs st w with
  | error e => simp [h1] at hd
  | ok v =>
    obtain ⟨⟨a, s⟩, w1⟩ := v
    simp only [h1] at hd
    exact replace_finish_resets h a rs' s s' w1 w' hd

/-- what `Replace` makes of a raw stream (`replaceOut`) ends in the initial adapter state -/
theorem replaceOut_final_state (raw : List Op) (w : World) (rs : RState) (r : Rec) (w' : World)
    (h : replaceOut raw w = .ok ((rs, r), w')) : rs = {} :=
  deliver_finish_resets recHook _ _ w rs r w' h

/-- **the adapter state returned by the run behind `Replace` is the initial one** (`replace_stack_total` with the
final `RState` pinned to `{}`) -/
theorem replace_run_final_state (alg : Alg) (E : Env) (os oe ns ne : Nat) (w : World)
    (hr : RangesInBounds E os oe ns ne) :
    ∃ (raw out : List Op) (w' : World),
      rawTrace alg E os oe ns ne w = .ok ({ trace := raw.map Call.op ++ [.finish] }, w') ∧
      NoReplaceOp raw ∧
      diffWith alg E (replaceHook recHook) os oe ns ne ({}, {}) w =
        .ok ((({} : RState), { trace := out.map Call.op ++ [.finish] }), w') ∧
      (∀ w0, replaceOut raw w0 = .ok ((({} : RState), { trace := out.map Call.op ++ [.finish] }), w0)) ∧
      Walk (eqB E) os ns out oe ne ∧ Alternating out := by
  obtain ⟨raw, out, rs, w', h1, h2, h3, h4, h5, h6⟩ := replace_stack_total alg E os oe ns ne w hr
  have : rs = {} := replaceOut_final_state raw w rs _ w (h4 w)
  subst this
  exact ⟨raw, out, w', h1, h2, h3, h4, h5, h6⟩

/-! ### a recording hook that already holds a trace -/

/-- one call to `Replace` over the recording hook only appends to the trace already recorded -/
theorem pureCall_prefix (c : Call) (a : RState) (P T : List Call) :
    pureCall c a (P ++ T) =
      (match pureCall c a T with
       | .ok (a', T') => .ok (a', P ++ T')
       | .error e => .error e) := by
  unfold pureCall
  obtain ⟨d, i, q⟩ := a
  rcases d with _ | ⟨d1, d2, d3⟩ <;> rcases i with _ | ⟨i1, i2, i3⟩ <;> rcases q with _ | ⟨q1, q2, q3⟩ <;>
    cases c with
    | finish => simp [replaceHook, rFlushEq, rFlushDelIns, Replace.recHook_call]
    | op x =>
      cases x <;> simp [replaceHook, rFlushEq, rFlushDelIns, Replace.recHook_call] <;>
        (rename_i x1 x2 x3
         first
           | (by_cases hh : x1 = d1 + d2 <;> simp [hh]; done)
           | (by_cases hh : i2 + i3 = x2 <;> simp [hh]; done))

/-- the second run has the same adapter state and the trace of the first one after the prefix `P` -/
def RelP (P : List Call) (s t : RState × Rec) : Prop :=
  s.2 = { trace := s.2.trace } ∧ t = (s.1, { trace := P ++ s.2.trace })

theorem prefix_sim (P : List Call) :
    Sim (replaceHook recHook) (replaceHook recHook) (RelP P) (fun _ _ => False) := by
  refine ⟨?_, ?_⟩
  · intro e c s w s' w' _ hF
    exact hF
  · intro c s t w s' w' hR hc
    obtain ⟨a, r⟩ := s
    obtain ⟨h0, ht⟩ := hR
    dsimp only at h0 ht
    subst ht
    rw [h0, replace_call_pure] at hc
    rw [replace_call_pure, pureCall_prefix]
    cases hp : pureCall c a r.trace with
    | error e => simp [hp] at hc
    | ok v =>
      obtain ⟨a', T'⟩ := v
      simp only [hp] at hc
      cases hc
      exact Out.ok ⟨rfl, rfl⟩

/-- **a trace already held by the recording hook is only a prefix**: if the run behind `Replace` from adapter state
`a` and recorded trace `T` returns, the same run from recorded trace `P ++ T` returns the same adapter state and
clock, and the trace of the first prefixed by `P` -/
theorem replace_prefix (alg : Alg) (E : Env) (os oe ns ne : Nat) (a a' : RState) (P T : List Call) (r' : Rec)
    (w w' : World)
    (h : diffWith alg E (replaceHook recHook) os oe ns ne (a, { trace := T }) w = .ok ((a', r'), w')) :
    r' = { trace := r'.trace } ∧
    diffWith alg E (replaceHook recHook) os oe ns ne (a, { trace := P ++ T }) w =
      .ok ((a', { trace := P ++ r'.trace }), w') := by
  have hO := diffWith_sim (prefix_sim P) (s := (a, ({ trace := T } : Rec)))
    (t := (a, ({ trace := P ++ T } : Rec))) ⟨rfl, rfl⟩ h
  rcases hO with ⟨t', hk, h0, ht⟩ | ⟨e, -, hF⟩
  · dsimp only at h0 ht
    subst ht
    exact ⟨h0, hk⟩
  · exact hF.elim

/-! ### re-use -/

/-- **one `Replace` adapter can be used for a second diff**: after a first diff (algorithm `alg`, sequences `E`)
the adapter state is the initial one; a second diff (algorithm `alg2`, sequences `E2`, any in-bounds ranges) run
from the very state `(rs, {trace := t1})` and clock the first one returned returns, ends again in the initial
adapter state, with the clock `w''` of the same second diff through a fresh adapter, and the recording hook holds
`t1` followed by exactly the trace `out2 ++ [finish]` of the second diff through a fresh adapter -/
theorem replace_reuse (alg alg2 : Alg) (E E2 : Env) (os oe ns ne os2 oe2 ns2 ne2 : Nat) (w : World)
    (hr : RangesInBounds E os oe ns ne) (hr2 : RangesInBounds E2 os2 oe2 ns2 ne2) :
    ∃ (out out2 : List Op) (rs : RState) (w' w'' : World),
      diffWith alg E (replaceHook recHook) os oe ns ne ({}, {}) w =
        .ok ((rs, { trace := out.map Call.op ++ [.finish] }), w') ∧
      rs = {} ∧
      diffWith alg2 E2 (replaceHook recHook) os2 oe2 ns2 ne2 ({}, {}) w' =
        .ok ((({} : RState), { trace := out2.map Call.op ++ [.finish] }), w'') ∧
      diffWith alg2 E2 (replaceHook recHook) os2 oe2 ns2 ne2 (rs, { trace := out.map Call.op ++ [.finish] }) w' =
        .ok ((({} : RState), { trace := (out.map Call.op ++ [.finish]) ++ (out2.map Call.op ++ [.finish]) }), w'') ∧
      Walk (eqB E) os ns out oe ne ∧ Alternating out ∧
      Walk (eqB E2) os2 ns2 out2 oe2 ne2 ∧ Alternating out2 := by
  obtain ⟨raw, out, w', -, -, h3, -, h5, h6⟩ := replace_run_final_state alg E os oe ns ne w hr
  obtain ⟨raw2, out2, w'', -, -, k3, -, k5, k6⟩ := replace_run_final_state alg2 E2 os2 oe2 ns2 ne2 w' hr2
  obtain ⟨-, hp⟩ := replace_prefix alg2 E2 os2 oe2 ns2 ne2 {} {} (out.map Call.op ++ [.finish]) [] _ w' w'' k3
  refine ⟨out, out2, {}, w', w'', h3, rfl, k3, ?_, h5, h6, k5, k6⟩
  rw [List.append_nil] at hp
  exact hp

end SimilarVerif.ReplaceReuse

#print axioms SimilarVerif.ReplaceReuse.replace_finish_resets
#print axioms SimilarVerif.ReplaceReuse.replace_run_final_state
#print axioms SimilarVerif.ReplaceReuse.replace_prefix
#print axioms SimilarVerif.ReplaceReuse.replace_reuse

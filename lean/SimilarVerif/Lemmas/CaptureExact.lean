import SimilarVerif.Lemmas.Lcs
import SimilarVerif.Lemmas.CaptureMinimal
import SimilarVerif.Lemmas.CaptureNormal
import SimilarVerif.Lemmas.PatienceExact
/-! # C11 end to end: captured LCS (and Patience) ops carry exact positions under the repaired swap

`capture_exact_repaired` needs the raw stream to be `Exact` AND free of `replace` calls.  For LCS exactness is
`LcsP.lcs_valid` (every clock); that LCS never calls `replace` is proved here by re-running the proof of
`LcsP.lcs_valid_gen` with the invariant `WXN` = `WX` ∧ `NoReplaceOp`. -/
set_option linter.unusedSimpArgs false
namespace SimilarVerif.CaptureExact
open SimilarVerif Spec LcsP

/-- a valid walk with exact indices and no `replace` op -/
def WXN (e : Nat → Nat → Bool) (o n : Nat) (ops : List Op) (o' n' : Nat) : Prop :=
  WX e o n ops o' n' ∧ NoReplaceOp ops

theorem WXN_nil (e : Nat → Nat → Bool) (o n : Nat) : WXN e o n [] o n := ⟨WX_nil e o n, trivial⟩

theorem WXN_nil' {e : Nat → Nat → Bool} {o n o' n' : Nat} (h1 : o' = o) (h2 : n' = n) :
    WXN e o n [] o' n' := ⟨WX_nil' h1 h2, trivial⟩

theorem WXN_append {e : Nat → Nat → Bool} (a : List Op) {b : List Op} {o n o1 n1 o2 n2 : Nat}
    (h1 : WXN e o n a o1 n1) (h2 : WXN e o1 n1 b o2 n2) : WXN e o n (a ++ b) o2 n2 :=
  ⟨WX_append a h1.1 h2.1, (CompactP.noReplace_append a b).2 ⟨h1.2, h2.2⟩⟩

theorem WXN_equal {e : Nat → Nat → Bool} {o n co cn len o' n' : Nat} (h1 : co = o) (h2 : cn = n)
    (h3 : 0 < len) (h4 : ∀ t, t < len → e (o+t) (n+t) = true) (h5 : o' = o + len)
    (h6 : n' = n + len) : WXN e o n [.equal co cn len] o' n' := ⟨WX_equal h1 h2 h3 h4 h5 h6, trivial⟩

theorem WXN_delete {e : Nat → Nat → Bool} {o n co cn len o' n' : Nat} (h1 : co = o) (h2 : cn = n)
    (h3 : 0 < len) (h5 : o' = o + len) (h6 : n' = n) : WXN e o n [.delete co len cn] o' n' :=
  ⟨WX_delete h1 h2 h3 h5 h6, trivial⟩

theorem WXN_insert {e : Nat → Nat → Bool} {o n co cn len o' n' : Nat} (h1 : co = o) (h2 : cn = n)
    (h3 : 0 < len) (h5 : o' = o) (h6 : n' = n + len) : WXN e o n [.insert co cn len] o' n' :=
  ⟨WX_insert h1 h2 h3 h5 h6, trivial⟩

theorem WXN_opt {e : Nat → Nat → Bool} {o n o' n' : Nat} {c : Prop} [Decidable c] {x : Op}
    (h1 : c → WXN e o n [x] o' n') (h2 : ¬ c → o' = o ∧ n' = n) :
    WXN e o n (if c then [x] else []) o' n' := by
  by_cases hc : c
  · simp only [hc, if_true]; exact h1 hc
  · simp only [hc, if_false]; exact WXN_nil' (h2 hc).1 (h2 hc).2

theorem lcsWalk_recN (E : Env) (t : Table) (o0 n0 ol nl : Nat)
    (hb : ∀ i j, i < ol → j < nl → (E.on (o0 + i) (n0 + j)).isSome) :
    ∀ (fuel oi ni : Nat) (T : List Call) (w : World), oi ≤ ol → ni ≤ nl →
      (ol - oi) + (nl - ni) ≤ fuel →
      ∃ oi' ni' ops w',
        lcsWalk E recHook t o0 n0 ol nl fuel oi ni (Rec.mk T none true) w =
          .ok (oi', ni', Rec.mk (T ++ ops.map Call.op) none true, w') ∧
        WXN (eqB E) (o0 + oi) (n0 + ni) ops (o0 + oi') (n0 + ni') ∧
        oi' ≤ ol ∧ ni' ≤ nl ∧ (oi' = ol ∨ ni' = nl) := by
  intro fuel
  induction fuel with
  | zero =>
    intro oi ni T w ho hn hf
    have hc : ¬ (ni < nl ∧ oi < ol) := by omega
    refine ⟨oi, ni, [], w, ?_, WXN_nil _ _ _, ho, hn, by omega⟩
    simp [lcsWalk, hc]
  | succ f ih =>
    intro oi ni T w ho hn hf
    by_cases hc : ni < nl ∧ oi < ol
    · obtain ⟨b, hcmp, hE⟩ := cmp_total (E := E) w (hb oi ni hc.2 hc.1)
      cases b with
      | true =>
        obtain ⟨oi', ni', ops, w', h1, h2, h3, h4, h5⟩ :=
          ih (oi+1) (ni+1) (T ++ [.op (.equal (o0 + oi) (n0 + ni) 1)]) { w with cmps := w.cmps + 1 } (by omega) (by omega) (by omega)
        refine ⟨oi', ni', .equal (o0 + oi) (n0 + ni) 1 :: ops, w', ?_, ?_, h3, h4, h5⟩
        · simp only [lcsWalk, hc, hcmp, decide_true, Bool.and_self, if_true, emit_rec, h1]; simp
        · have hs : WXN (eqB E) (o0 + oi) (n0 + ni) [.equal (o0 + oi) (n0 + ni) 1] (o0 + (oi+1)) (n0 + (ni+1)) := by
            apply WXN_equal rfl rfl (by omega) _ (by omega) (by omega)
            intro t ht
            have : t = 0 := by omega
            subst this
            simp [eqB, hE]
          exact WXN_append [_] hs h2
      | false =>
        by_cases htab : t.get ni (oi+1) ≥ t.get (ni+1) oi
        · obtain ⟨oi', ni', ops, w', h1, h2, h3, h4, h5⟩ :=
            ih (oi+1) ni (T ++ [.op (.delete (o0 + oi) 1 (n0 + ni))]) { w with cmps := w.cmps + 1 } (by omega) (by omega) (by omega)
          refine ⟨oi', ni', .delete (o0 + oi) 1 (n0 + ni) :: ops, w', ?_, ?_, h3, h4, h5⟩
          · simp only [lcsWalk, hc, hcmp, htab, decide_true, Bool.and_self, if_true, emit_rec, h1]; simp
          · have hs : WXN (eqB E) (o0 + oi) (n0 + ni) [.delete (o0 + oi) 1 (n0 + ni)] (o0 + (oi+1)) (n0 + ni) :=
              WXN_delete rfl rfl (by omega) (by omega) rfl
            exact WXN_append [_] hs h2
        · obtain ⟨oi', ni', ops, w', h1, h2, h3, h4, h5⟩ :=
            ih oi (ni+1) (T ++ [.op (.insert (o0 + oi) (n0 + ni) 1)]) { w with cmps := w.cmps + 1 } (by omega) (by omega) (by omega)
          refine ⟨oi', ni', .insert (o0 + oi) (n0 + ni) 1 :: ops, w', ?_, ?_, h3, h4, h5⟩
          · simp only [lcsWalk, hc, hcmp, htab, decide_true, Bool.and_self, if_true, if_false, emit_rec, h1]; simp
          · have hs : WXN (eqB E) (o0 + oi) (n0 + ni) [.insert (o0 + oi) (n0 + ni) 1] (o0 + oi) (n0 + (ni+1)) :=
              WXN_insert rfl rfl (by omega) rfl (by omega)
            exact WXN_append [_] hs h2
    · refine ⟨oi, ni, [], w, ?_, WXN_nil _ _ _, ho, hn, by omega⟩
      simp [lcsWalk, hc]

/-! ## The whole call -/

/-- the two flushes after the walk and the common suffix, as a script -/
theorem WXN_flush {E : Env} {os oe ns ne p sl ol nl ni x : Nat} (hx : x = ol) (hni : ni ≤ nl)
    (ho : os ≤ oe) (hn : ns ≤ ne) (hol : oe - os - p - sl = ol) (hnl : ne - ns - p - sl = nl)
    (p1 : p ≤ oe - os) (p2 : p ≤ ne - ns) (s1 : sl ≤ oe - (os + p)) (s2 : sl ≤ ne - (ns + p))
    (s3 : ∀ t, t < sl → eqB E (oe - 1 - t) (ne - 1 - t) = true) :
    WXN (eqB E) (os + p + x) (ns + p + ni)
      ((if ni < nl then [Op.insert (os + p + x) (ns + p + ni) (nl - ni)] else []) ++
       (if 0 < sl then [Op.equal (os + ol + p) (ns + nl + p) sl] else [])) oe ne := by
  subst hx
  apply WXN_append (o1 := os + p + x) (n1 := ns + p + nl)
  · apply WXN_opt
    · intro h; exact WXN_insert rfl rfl (by omega) rfl (by omega)
    · intro h; exact ⟨rfl, by omega⟩
  · apply WXN_opt
    · intro h
      apply WXN_equal (by omega) (by omega) h _ (by omega) (by omega)
      intro t ht
      have h3 := s3 (sl - 1 - t) (by omega)
      have e1 : oe - 1 - (sl - 1 - t) = os + p + x + t := by omega
      have e2 : ne - 1 - (sl - 1 - t) = ns + p + nl + t := by omega
      rw [e1, e2] at h3; exact h3
    · intro h; exact ⟨by omega, by omega⟩

/-- everything after the table walk as a script: delete flush, insert flush, suffix -/
theorem WXN_tail {E : Env} {os oe ns ne p sl ol nl oi ni : Nat} {P : List Op}
    (hP : WXN (eqB E) os ns P (os + p + oi) (ns + p + ni))
    (hoi : oi ≤ ol) (hni : ni ≤ nl)
    (ho : os ≤ oe) (hn : ns ≤ ne) (hol : oe - os - p - sl = ol) (hnl : ne - ns - p - sl = nl)
    (p1 : p ≤ oe - os) (p2 : p ≤ ne - ns) (s1 : sl ≤ oe - (os + p)) (s2 : sl ≤ ne - (ns + p))
    (s3 : ∀ t, t < sl → eqB E (oe - 1 - t) (ne - 1 - t) = true) :
    WXN (eqB E) os ns
      (P ++ ((if oi < ol then [Op.delete (os + p + oi) (ol - oi) (ns + p + ni)] else []) ++
        ((if ni < nl then
            [Op.insert (os + p + (if oi < ol then ol else oi)) (ns + p + ni) (nl - ni)] else []) ++
         (if 0 < sl then [Op.equal (os + ol + p) (ns + nl + p) sl] else [])))) oe ne := by
  apply WXN_append P hP
  apply WXN_append (o1 := os + p + (if oi < ol then ol else oi)) (n1 := ns + p + ni)
  · apply WXN_opt
    · intro h; simp only [h, if_true]; exact WXN_delete rfl rfl (by omega) (by omega) rfl
    · intro h; exact ⟨by simp only [h, if_false], rfl⟩
  · exact WXN_flush (by split <;> omega) hni ho hn hol hnl p1 p2 s1 s2 s3

/-- `lcs_valid` for an arbitrary trace already recorded -/
theorem lcs_valid_genN (E : Env) (os oe ns ne : Nat) (T : List Call) (w : World) (ho : os ≤ oe)
    (hn : ns ≤ ne) (hb : InBounds E os oe ns ne) :
    ∃ ops w', lcsDiff E recHook os oe ns ne (Rec.mk T none true) w =
        .ok (Rec.mk (T ++ ops.map Call.op ++ [.finish]) none true, w') ∧
      WXN (eqB E) os ns ops oe ne := by
  unfold lcsDiff
  by_cases h1 : ne ≤ ns
  · by_cases h2 : oe ≤ os
    · refine ⟨[], w, by simp [h1, h2], WXN_nil' (by omega) (by omega)⟩
    · refine ⟨[.delete os (oe - os) ns], w, by simp [h1, h2],
        WXN_delete rfl rfl (by omega) (by omega) (by omega)⟩
  · by_cases h2 : oe ≤ os
    · refine ⟨[.insert os ns (ne - ns)], w, by simp [h1, h2],
        WXN_insert rfl rfl (by omega) (by omega) (by omega)⟩
    · simp only [h1, h2, if_false]
      obtain ⟨p, w1, hp⟩ := commonPrefixLen_total (E := E) w hb
      obtain ⟨p1, p2, p3, -, -⟩ := commonPrefixLen_spec hp
      obtain ⟨sl, w2, hs⟩ := commonSuffixLen_total (E := E) (os := os + p) (oe := oe) (ns := ns + p)
        (ne := ne) w1 (InBounds_sub hb (by omega) (by omega) (by omega) (by omega))
      obtain ⟨s1, s2, s3, -, -⟩ := commonSuffixLen_spec hs
      simp only [hp, hs]
      by_cases h3 : (p == oe - os && oe - os == ne - ns) = true
      · simp only [h3, if_true, emit_rec, finish_rec]
        simp only [Bool.and_eq_true, beq_iff_eq] at h3
        refine ⟨[.equal os ns (oe - os)], w2, by simp, ?_⟩
        apply WXN_equal rfl rfl (by omega) _ (by omega) (by omega)
        intro t ht; exact p3 t (by omega)
      · simp only [h3, Bool.false_eq_true, if_false]
        obtain ⟨mt, w3, hm⟩ := makeTable_total E (os + p) (oe - sl) (ns + p) (ne - sl) w2
          (InBounds_sub hb (by omega) (by omega) (by omega) (by omega))
        simp only [hm, optEmit_rec]
        generalize hol : oe - os - p - sl = ol
        generalize hnl : ne - ns - p - sl = nl
        generalize hT1 : T ++ List.map Call.op (if 0 < p then [Op.equal os ns p] else []) = T1
        have hA : WXN (eqB E) os ns (if 0 < p then [Op.equal os ns p] else []) (os + p) (ns + p) := by
          apply WXN_opt
          · intro h; exact WXN_equal rfl rfl h p3 rfl rfl
          · intro h; exact ⟨by omega, by omega⟩
        cases mt with
        | none =>
          simp only [emit_rec, optDel_rec', optEmit_rec', finish_rec]
          refine ⟨_, w3, ?_, WXN_tail (oi := 0) (ni := 0) (ol := ol) (nl := nl)
            (P := if 0 < p then [Op.equal os ns p] else []) hA
            (Nat.zero_le _) (Nat.zero_le _) ho hn hol hnl p1 p2 s1 s2 s3⟩
          simp [← hT1]
        | some t =>
          obtain ⟨oi, ni, W, w4, e1, e2, e3, e4, -⟩ := lcsWalk_recN E t (os + p) (ns + p) ol nl
            (fun i j hi hj => hb (os + p + i) (ns + p + j) (by omega) (by omega) (by omega) (by omega))
            (ol + nl) 0 0 T1 w3 (by omega) (by omega) (by omega)
          simp only [e1, emit_rec, optDel_rec', optEmit_rec', finish_rec]
          refine ⟨_, w4, ?_, WXN_tail (ol := ol) (nl := nl)
            (P := (if 0 < p then [Op.equal os ns p] else []) ++ W) (WXN_append _ hA e2)
            e3 e4 ho hn hol hnl p1 p2 s1 s2 s3⟩
          simp [← hT1]

/-- **LCS raw streams**: total, valid, exact and without `replace` calls (every clock) -/
theorem lcs_raw_exact_noReplace (E : Env) (os oe ns ne : Nat) (w : World) (ho : os ≤ oe) (hn : ns ≤ ne)
    (hb : InBounds E os oe ns ne) :
    ∃ ops w', rawTrace .lcs E os oe ns ne w = .ok ({ trace := ops.map Call.op ++ [.finish] }, w') ∧
      Walk (eqB E) os ns ops oe ne ∧ Exact os ns ops ∧ NoReplaceOp ops := by
  obtain ⟨ops, w', h1, ⟨h2, h3⟩, h4⟩ := lcs_valid_genN E os oe ns ne [] w ho hn hb
  exact ⟨ops, w', by simpa [rawTrace, diffWith] using h1, h2, h3, h4⟩

/-- **end to end, LCS with the repaired swap** (total, EVERY clock — the LCS fallback after an expired
deadline is exact too): `capture_diff` returns, and every captured op carries exact positions -/
theorem capture_lcs_exact_repaired (E : Env) (os oe ns ne : Nat) (w : World)
    (ho : os ≤ oe) (hn : ns ≤ ne) (hb : InBounds E os oe ns ne) :
    ∃ ops w', captureDiff .lcs E true os oe ns ne w = .ok (ops, w') ∧
      Walk (eqB E) os ns ops oe ne ∧ Exact os ns ops ∧ Alternating ops := by
  obtain ⟨raw, w1, hraw, hwr, hx, hnr⟩ := lcs_raw_exact_noReplace E os oe ns ne w ho hn hb
  obtain ⟨ops, w', hc, h1, -, -, -, h5, -, h7⟩ :=
    CaptureMin.capture_total_gen .lcs E true os oe ns ne w raw w1 hraw hwr
      (LcsP.exact_carried _ raw os ns oe ne hwr hx) hb
  exact ⟨ops, w', hc, h1, h7 rfl hnr hx, h5⟩

/-- **Patience raw streams without a deadline**: total, valid, exact and without `replace` calls -/
theorem patience_raw_exact_noReplace (E : Env) (os oe ns ne : Nat) (w : World) (ho : os ≤ oe) (hn : ns ≤ ne)
    (hb : InBounds E os oe ns ne) (hs : CaptureNF.SameSideBounds E os oe ns ne) (hclk : w.clock = none) :
    ∃ ops w', rawTrace .patience E os oe ns ne w = .ok ({ trace := ops.map Call.op ++ [.finish] }, w') ∧
      Walk (eqB E) os ns ops oe ne ∧ Exact os ns ops ∧ NoReplaceOp ops := by
  obtain ⟨r, w', h, -⟩ := PatienceT.patience_total E os oe ns ne w ho hn hb hs.1 hs.2
  obtain ⟨ops, ht, hw, hx, hnr⟩ := PatienceX.patience_exact E os oe ns ne w r w' ho hn hb hclk h
  have hraw : rawTrace .patience E os oe ns ne w = .ok (r, w') := by simpa [rawTrace, diffWith] using h
  have hr := CaptureP.raw_rec_eta .patience E os oe ns ne w r w' hraw
  rw [ht] at hr
  exact ⟨ops, w', by rw [← hr]; exact hraw, hw, hx, hnr⟩

/-- **end to end, Patience with the repaired swap, no deadline**: `capture_diff` returns, and every captured op
carries exact positions -/
theorem capture_patience_exact_repaired (E : Env) (os oe ns ne : Nat) (w : World)
    (ho : os ≤ oe) (hn : ns ≤ ne) (hb : InBounds E os oe ns ne) (hs : CaptureNF.SameSideBounds E os oe ns ne)
    (hclk : w.clock = none) :
    ∃ ops w', captureDiff .patience E true os oe ns ne w = .ok (ops, w') ∧
      Walk (eqB E) os ns ops oe ne ∧ Exact os ns ops ∧ Alternating ops := by
  obtain ⟨raw, w1, hraw, hwr, hx, hnr⟩ := patience_raw_exact_noReplace E os oe ns ne w ho hn hb hs hclk
  obtain ⟨ops, w', hc, h1, -, -, -, h5, -, h7⟩ :=
    CaptureMin.capture_total_gen .patience E true os oe ns ne w raw w1 hraw hwr
      (LcsP.exact_carried _ raw os ns oe ne hwr hx) hb
  exact ⟨ops, w', hc, h1, h7 rfl hnr hx, h5⟩

/-- the total form for Myers (no deadline), for symmetry: `capture_diff` returns exact ops -/
theorem capture_myers_exact_repaired_total (E : Env) (os oe ns ne : Nat) (w : World)
    (ho : os ≤ oe) (hn : ns ≤ ne) (hb : InBounds E os oe ns ne) (hclk : w.clock = none) :
    ∃ ops w', captureDiff .myers E true os oe ns ne w = .ok (ops, w') ∧
      Walk (eqB E) os ns ops oe ne ∧ Exact os ns ops ∧ Alternating ops := by
  obtain ⟨ops, w', hc, hw, -, -, -, -, ha, hx⟩ := CaptureMin.capture_myers_minimal E true os oe ns ne w ho hn hb hclk
  exact ⟨ops, w', hc, hw, hx rfl, ha⟩

/-- **all three algorithms, repaired swap, no deadline**: total and exact -/
theorem capture_exact_repaired_total (alg : Alg) (E : Env) (os oe ns ne : Nat) (w : World)
    (ho : os ≤ oe) (hn : ns ≤ ne) (hb : InBounds E os oe ns ne)
    (hp : alg = .patience → CaptureNF.SameSideBounds E os oe ns ne) (hclk : w.clock = none) :
    ∃ ops w', captureDiff alg E true os oe ns ne w = .ok (ops, w') ∧
      Walk (eqB E) os ns ops oe ne ∧ Exact os ns ops ∧ Alternating ops := by
  cases alg with
  | myers => exact capture_myers_exact_repaired_total E os oe ns ne w ho hn hb hclk
  | lcs => exact capture_lcs_exact_repaired E os oe ns ne w ho hn hb
  | patience => exact capture_patience_exact_repaired E os oe ns ne w ho hn hb (hp rfl) hclk

/-! ## the negative side: an expired deadline

With the deadline already expired Myers' `find_middle_snake` gives up at once and `conquer` falls back to
`delete` then `insert`; the insert carries the old position BEFORE its delete (`MyersG.GSeg.fallback`).
The stream is `Carried` (C01's rule for a run of changes) but not `Exact`. -/

/-- `[0,1]` vs `[2,3]`, clock expired: the raw Myers stream is `delete(0,2,0); insert(0,0,2)` -/
theorem expired_raw_myers :
    (rawTrace .myers (Env.ofSeqs #[0, 1] #[2, 3]) 0 2 0 2 { clock := some 0 }).map (·.1.trace) =
      .ok [.op (.delete 0 2 0), .op (.insert 0 0 2), .finish] := by rfl

theorem expired_raw_carried : Carried 0 0 [.delete 0 2 0, .insert 0 0 2] := by
  simp [Carried, CarriedGo, InRun]

theorem expired_raw_not_exact : ¬ Exact 0 0 [.delete 0 2 0, .insert 0 0 2] := by
  simp [Exact, Op.oStart, Op.nStart, Op.oLen, Op.nLen]

/-- … and the inexact index survives the whole pipeline even with the repaired swap: nothing is swapped here,
`Replace` merges the pair into one `Replace` op, which drops the carried index — so the captured op IS exact;
the deviation is visible in the raw stream (and to hooks placed before `Replace`) only -/
theorem expired_captured :
    (captureDiff .myers (Env.ofSeqs #[0, 1] #[2, 3]) true 0 2 0 2 { clock := some 0 }).map (·.1) =
      .ok [.replace 0 2 0 2] := by rfl

end SimilarVerif.CaptureExact

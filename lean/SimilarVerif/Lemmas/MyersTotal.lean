import SimilarVerif.Lemmas.MyersTheory
/-! Totality of Myers' `conquer` (T2, second half): with arrays of the size `myersDiff` allocates, in-bounds
ranges and enough fuel, nothing panics and the fuel does not run out. -/
namespace SimilarVerif.MyersT
open Spec MyersP

/-! ## Sizes are preserved -/

theorem fwdPass_size (E : Env) (os oe ns ne off : Nat) (d delta : Int) (odd : Bool) (vb : V) :
    ∀ (cnt : Nat) (k : Int) (vf : V) (w : World) (vf' : V) (res : Option (Nat × Nat)) (w' : World),
      fwdPass E os oe ns ne off d delta odd vb cnt k vf w = .ok (vf', res, w') → vf'.size = vf.size := by
  intro cnt
  induction cnt with
  | zero => intro k vf w vf' res w' h; simp [fwdPass] at h; rw [h.1]
  | succ c ih =>
    intro k vf w vf' res w' h
    simp only [fwdPass] at h
    split at h
    · simp at h
    · split at h
      · simp at h
      · split at h
        · simp at h
        · rename_i vf1 hset
          have hs := (vset_ok hset).2.2
          split at h
          · split at h
            · simp at h
            · split at h
              · split at h
                · simp at h
                · simp at h; rw [← h.1]; exact hs
              · rw [ih _ _ _ _ _ _ h, hs]
          · rw [ih _ _ _ _ _ _ h, hs]

theorem bwdPass_size (E : Env) (os oe ns ne off : Nat) (d delta : Int) (odd : Bool) (vf : V) :
    ∀ (cnt : Nat) (k : Int) (vb : V) (w : World) (vb' : V) (res : Option (Nat × Nat)) (w' : World),
      bwdPass E os oe ns ne off d delta odd vf cnt k vb w = .ok (vb', res, w') → vb'.size = vb.size := by
  intro cnt
  induction cnt with
  | zero => intro k vb w vb' res w' h; simp [bwdPass] at h; rw [h.1]
  | succ c ih =>
    intro k vb w vb' res w' h
    simp only [bwdPass] at h
    split at h
    · simp at h
    · split at h
      · simp at h
      · split at h
        · simp at h
        · rename_i vb1 hset
          have hs := (vset_ok hset).2.2
          split at h
          · split at h
            · simp at h
            · split at h
              · split at h
                · simp at h
                · simp at h; rw [← h.1]; exact hs
              · rw [ih _ _ _ _ _ _ h, hs]
          · rw [ih _ _ _ _ _ _ h, hs]

theorem snakeLoop_size (E : Env) (os oe ns ne off : Nat) (delta : Int) (odd : Bool) :
    ∀ (cnt d : Nat) (vf vb : V) (w : World) (vf' vb' : V) (res : Option (Nat × Nat)) (w' : World),
      snakeLoop E os oe ns ne off delta odd cnt d vf vb w = .ok (vf', vb', res, w') →
      vf'.size = vf.size ∧ vb'.size = vb.size := by
  intro cnt
  induction cnt with
  | zero => intro d vf vb w vf' vb' res w' h; simp [snakeLoop] at h; rw [h.1, h.2.1]; exact ⟨rfl, rfl⟩
  | succ c ih =>
    intro d vf vb w vf' vb' res w' h
    simp only [snakeLoop] at h
    split at h
    · simp at h; rw [h.1, h.2.1]; exact ⟨rfl, rfl⟩
    · split at h
      · simp at h
      · rename_i hf
        simp at h; rw [← h.1, ← h.2.1]; exact ⟨fwdPass_size _ _ _ _ _ _ _ _ _ _ _ _ _ _ _ _ _ hf, rfl⟩
      · rename_i hf
        have h1 := fwdPass_size _ _ _ _ _ _ _ _ _ _ _ _ _ _ _ _ _ hf
        split at h
        · simp at h
        · rename_i hb
          simp at h; rw [← h.1, ← h.2.1]; exact ⟨h1, bwdPass_size _ _ _ _ _ _ _ _ _ _ _ _ _ _ _ _ _ hb⟩
        · rename_i hb
          have h2 := bwdPass_size _ _ _ _ _ _ _ _ _ _ _ _ _ _ _ _ _ hb
          obtain ⟨i1, i2⟩ := ih _ _ _ _ _ _ _ _ h
          exact ⟨by rw [i1, h1], by rw [i2, h2]⟩

theorem findMiddleSnake_size {E : Env} {os oe ns ne off : Nat} {vf vb : V} {w : World}
    {vf' vb' : V} {res : Option (Nat × Nat)} {w' : World}
    (h : findMiddleSnake E os oe ns ne off vf vb w = .ok (vf', vb', res, w')) :
    vf'.size = vf.size ∧ vb'.size = vb.size := by
  unfold findMiddleSnake at h
  simp only at h
  split at h
  · simp at h
  · rename_i vf1 hs1
    split at h
    · simp at h
    · rename_i vb1 hs2
      split at h
      · simp at h
      · obtain ⟨i1, i2⟩ := snakeLoop_size _ _ _ _ _ _ _ _ _ _ _ _ _ _ _ _ _ h
        exact ⟨by rw [i1, (vset_ok hs1).2.2], by rw [i2, (vset_ok hs2).2.2]⟩


/-! ## The primitive operations do not fail -/

theorem vget_total {v : V} {off : Nat} {k : Int} (h1 : 0 ≤ k + off) (h2 : (k + off).toNat < v.size) :
    ∃ a, vget v off k = .ok a := by
  unfold vget
  simp only
  rw [if_neg (by omega)]
  rw [Array.getElem?_eq_getElem h2]
  exact ⟨_, rfl⟩

theorem vset_total {v : V} {off : Nat} {k : Int} (x : Nat) (h1 : 0 ≤ k + off) (h2 : (k + off).toNat < v.size) :
    ∃ v', vset v off k x = .ok v' := by
  unfold vset
  simp only
  rw [if_neg (by omega), if_pos h2]
  exact ⟨_, rfl⟩

/-- every read of `startX` in iteration `d` is in bounds -/
theorem startX_total {v : V} {off d : Nat} {k : Int} (hoff : 2 ≤ off) (hd : d < off) (hsz : v.size = 2 * off)
    (hk1 : -(d:Int) ≤ k) (hk2 : k ≤ d) : ∃ x0, startX v off (d:Int) k = .ok x0 := by
  unfold startX
  split
  · rename_i heq
    have heq' : k = -(d:Int) := by simpa using heq
    exact vget_total (by omega) (by omega)
  · rename_i hne
    have hne' : k ≠ -(d:Int) := by simpa using hne
    obtain ⟨a, ha⟩ := vget_total (v := v) (off := off) (k := k - 1) (by omega) (by omega)
    split
    · rename_i hne2
      have hne2' : k ≠ (d:Int) := by simpa using hne2
      obtain ⟨b, hb⟩ := vget_total (v := v) (off := off) (k := k + 1) (by omega) (by omega)
      rw [ha, hb]
      exact ⟨_, rfl⟩
    · rw [ha]
      exact ⟨_, rfl⟩


/-! ## The passes do not fail -/

theorem fwdPass_total (E : Env) (os oe ns ne off d : Nat) (delta : Int) (odd : Bool) (vb : V)
    (hb : InBounds E os oe ns ne) (hoff : 2 ≤ off) (hd : d < off) (hvb : vb.size = 2 * off) :
    ∀ (cnt : Nat) (k : Int) (vf : V) (w : World),
      VPrev (fE E os oe ns ne) off vf d → vf.size = 2 * off → k ≤ d → -(d:Int) - 2 ≤ k - 2*cnt →
      (k - d) % 2 = 0 → ∀ e, fwdPass E os oe ns ne off d delta odd vb cnt k vf w ≠ .error e := by
  intro cnt
  induction cnt with
  | zero => intro k vf w _ _ _ _ _ e h; simp [fwdPass] at h
  | succ c ih =>
    intro k vf w hv hsz hk1 hk2 hpar e h
    simp only [fwdPass] at h
    split at h
    · rename_i e' hsx
      obtain ⟨x0, hx0⟩ := startX_total (v := vf) (k := k) hoff hd hsz (by omega) hk1
      rw [hx0] at hsx; simp at hsx
    · rename_i x0 hsx
      have hst := startX_spec hv (by omega) hk1 hpar hsx
      obtain ⟨y0, hy0, hd0, hnb⟩ := id hst
      have hyn : ¬ ((x0:Int) - k < 0) := by omega
      have hyt : ((x0:Int) - k).toNat = y0 := by omega
      split at h
      · rename_i e' hadv
        rw [hyt] at hadv
        split at hadv
        · rename_i hcond
          simp only [Bool.and_eq_true, decide_eq_true_eq] at hcond
          split at hadv
          · simp at hadv
          · rename_i e'' hc
            obtain ⟨p, w', hp⟩ := commonPrefixLen_total (E := E) (os := os + x0) (oe := oe) (ns := ns + y0) (ne := ne) w
              (InBounds_sub hb (by omega) (Nat.le_refl _) (by omega) (Nat.le_refl _))
            rw [hp] at hc; simp at hc
        · simp at hadv
      · rename_i x w1 hadv
        split at h
        · rename_i e' hset
          obtain ⟨v', hv'⟩ := vset_total (v := vf) (off := off) (k := k) x (by omega) (by omega)
          rw [hv'] at hset; simp at hset
        · rename_i vf1 hset
          obtain ⟨hg1, hg2, hg3⟩ := vset_ok hset
          have hv1 : VPrev (fE E os oe ns ne) off vf1 d := VPrev_frame (fun j hj => hg2 j (by omega)) hv
          have hrec := ih (k-2) vf1 w1 hv1 (by omega) (by omega) (by omega) (by omega) e
          split at h
          · rename_i htest
            simp only [Bool.and_eq_true, decide_eq_true_eq] at htest
            split at h
            · rename_i e' hget
              obtain ⟨b, hb'⟩ := vget_total (v := vb) (off := off) (k := -(k - delta)) (by omega) (by omega)
              rw [hb'] at hget; simp at hget
            · split at h
              · split at h
                · rename_i hy
                  simp only [decide_eq_true_eq] at hy
                  exact hyn hy
                · simp at h
              · exact hrec h
          · exact hrec h


theorem bwdPass_total (E : Env) (os oe ns ne off d : Nat) (delta : Int) (odd : Bool) (vf : V)
    (hb : InBounds E os oe ns ne) (hoff : 2 ≤ off) (hd : d < off) (hvfs : vf.size = 2 * off)
    (hdelta : delta = ((oe-os : Nat) : Int) - ((ne-ns : Nat) : Int)) (hodd : odd = (delta % 2 != 0))
    (hvf : VInv (fE E os oe ns ne) off vf d)
    (hD : 2 * d ≤ dist (fE E os oe ns ne) (oe-os) (ne-ns) + 1) (hdm : d < maxD (oe-os) (ne-ns)) :
    ∀ (cnt : Nat) (k : Int) (vb : V) (w : World),
      VPrev (rE E os oe ns ne) off vb d → vb.size = 2 * off → k ≤ d → -(d:Int) - 2 ≤ k - 2*cnt →
      (k - d) % 2 = 0 → ∀ e, bwdPass E os oe ns ne off d delta odd vf cnt k vb w ≠ .error e := by
  have hdual := dual_E E os oe ns ne
  have hpar' := dist_par (fE E os oe ns ne) (oe-os) (ne-ns)
  have heq := hdual.dist_eq
  intro cnt
  induction cnt with
  | zero => intro k vb w _ _ _ _ _ e h; simp [bwdPass] at h
  | succ c ih =>
    intro k vb w hv hsz hk1 hk2 hpar e h
    simp only [bwdPass] at h
    split at h
    · rename_i e' hsx
      obtain ⟨x0, hx0⟩ := startX_total (v := vb) (k := k) hoff hd hsz (by omega) hk1
      rw [hx0] at hsx; simp at hsx
    · rename_i x0 hsx
      have hst := startX_spec hv (by omega) hk1 hpar hsx
      obtain ⟨y0, hy0, hd0, hnb⟩ := id hst
      have hyn : ¬ ((x0:Int) - k < 0) := by omega
      have hyt : ((x0:Int) - k).toNat = y0 := by omega
      split at h
      · rename_i e' hadv
        rw [hyt] at hadv
        split at hadv
        · rename_i hcond
          simp only [Bool.and_eq_true, decide_eq_true_eq] at hcond
          split at hadv
          · simp at hadv
          · rename_i e'' hc
            obtain ⟨p, w', hp⟩ := commonSuffixLen_total (E := E) (os := os) (oe := os + (oe - os) - x0)
              (ns := ns) (ne := ns + (ne - ns) - y0) w
              (InBounds_sub hb (Nat.le_refl _) (by omega) (Nat.le_refl _) (by omega))
            rw [hp] at hc; simp at hc
        · simp at hadv
      · rename_i x y w1 hadv
        rw [hyt] at hadv
        have hsl : ∃ adv, x = x0 + adv ∧ y = y0 + adv ∧
            (∀ t, t < adv → rE E os oe ns ne (x0+t) (y0+t) = true) ∧
            rE E os oe ns ne (x0+adv) (y0+adv) = false := by
          split at hadv
          · rename_i hcond
            simp only [Bool.and_eq_true, decide_eq_true_eq] at hcond
            split at hadv
            · rename_i adv w2 hc
              simp only [Except.ok.injEq, Prod.mk.injEq] at hadv
              obtain ⟨rfl, rfl, rfl⟩ := hadv
              exact ⟨adv, rfl, rfl, csl_slide hc hcond.1.2 hcond.2⟩
            · simp at hadv
          · rename_i hcond
            simp only [Bool.and_eq_true, decide_eq_true_eq, Bool.not_eq_true', decide_eq_false_iff_not] at hcond
            simp only [Except.ok.injEq, Prod.mk.injEq] at hadv
            obtain ⟨rfl, rfl, rfl⟩ := hadv
            exact ⟨0, rfl, rfl, fun t ht => by omega, rE_out (by omega)⟩
        obtain ⟨adv, rfl, rfl, hm, hstop⟩ := hsl
        have hfur := hst.slide adv hy0 hm hstop
        split at h
        · rename_i e' hset
          obtain ⟨v', hv'⟩ := vset_total (v := vb) (off := off) (k := k) (x0+adv) (by omega) (by omega)
          rw [hv'] at hset; simp at hset
        · rename_i vb1 hset
          obtain ⟨hg1, hg2, hg3⟩ := vset_ok hset
          have hv1 : VPrev (rE E os oe ns ne) off vb1 d := VPrev_frame (fun j hj => hg2 j (by omega)) hv
          have hrec := ih (k-2) vb1 w1 hv1 (by omega) (by omega) (by omega) (by omega) e
          split at h
          · rename_i htest
            simp only [Bool.and_eq_true, decide_eq_true_eq] at htest
            split at h
            · rename_i e' hget
              obtain ⟨b, hb'⟩ := vget_total (v := vf) (off := off) (k := -(k - delta)) (by omega) (by omega)
              rw [hb'] at hget; simp at hget
            · rename_i b hb'
              split at h
              · rename_i hov
                split at h
                · rename_i hpanic
                  have hep : (((oe-os : Nat) : Int) - ((ne-ns : Nat) : Int)) % 2 = 0 := by
                    have := htest.1
                    rw [hodd, hdelta] at this; simpa using this
                  subst hdelta
                  have hF : Fired (rE E os oe ns ne) off (oe-os) d (((oe-os : Nat) : Int) - ((ne-ns : Nat) : Int))
                      (d:Int) vf k x0 y0 adv :=
                    ⟨by omega, hk1, hpar, hst, hy0, hm, hfur, htest.2, b, hb', hov⟩
                  unfold maxD at hdm
                  obtain ⟨t1, t2, -⟩ := fire_tight hdual.symm hF hvf (by omega) (by omega) (by omega)
                  simp only [Bool.or_eq_true, decide_eq_true_eq] at hpanic
                  omega
                · simp at h
              · exact hrec h
          · exact hrec h


/-! ## The loop does not fail -/

theorem fwd_none_inv {E : Env} {os oe ns ne off d : Nat} {odd : Bool} {vf vb vf1 : V} {w1 w2 : World}
    (hodd : odd = ((((oe-os : Nat) : Int) - ((ne-ns : Nat) : Int)) % 2 != 0))
    (hvf : VPrev (fE E os oe ns ne) off vf d) (hvb : VPrev (rE E os oe ns ne) off vb d)
    (hD : 2 * d ≤ dist (fE E os oe ns ne) (oe-os) (ne-ns) + 1)
    (hfw : fwdPass E os oe ns ne off d (((oe-os : Nat) : Int) - ((ne-ns : Nat) : Int)) odd vb (d+1) d vf w1
      = .ok (vf1, none, w2)) :
    VInv (fE E os oe ns ne) off vf1 d ∧ (odd = true → 2 * d + 1 ≤ dist (fE E os oe ns ne) (oe-os) (ne-ns)) := by
  have hdual := dual_E E os oe ns ne
  have hpar := dist_par (fE E os oe ns ne) (oe-os) (ne-ns)
  obtain ⟨-, -, hpost⟩ := fwdPass_spec E os oe ns ne off d _ odd vb (d+1) d vf w1 vf1 none w2 hvf
    (Int.le_refl _) (by omega) (by omega) hfw
  refine ⟨VInv_of_post hpost, ?_⟩
  intro hoddt
  have hop : (((oe-os : Nat) : Int) - ((ne-ns : Nat) : Int)) % 2 ≠ 0 := by
    rw [hodd] at hoddt; simpa using hoddt
  cases d with
  | zero => omega
  | succ d' =>
    simp only [VPrev] at hvb
    simp only [PassPost] at hpost
    subst hoddt
    have hne := nofire_ne hdual (d := d'+1) (d' := d') (v' := vf1) (vo := vb) (off := off) (by
      intro j h1 h2 h3
      have := hpost j h1 (by omega) h3
      rwa [show (((d'+1 : Nat) : Int) - 1) = (d':Int) from by omega] at this) hvb
    omega

theorem bwd_none_inv {E : Env} {os oe ns ne off d : Nat} {odd : Bool} {vf1 vb vb1 : V} {w2 w3 : World}
    (hodd : odd = ((((oe-os : Nat) : Int) - ((ne-ns : Nat) : Int)) % 2 != 0))
    (hvf1 : VInv (fE E os oe ns ne) off vf1 d) (hvb : VPrev (rE E os oe ns ne) off vb d)
    (hD : 2 * d ≤ dist (fE E os oe ns ne) (oe-os) (ne-ns) + 1)
    (hbw : bwdPass E os oe ns ne off d (((oe-os : Nat) : Int) - ((ne-ns : Nat) : Int)) odd vf1 (d+1) d vb w2
      = .ok (vb1, none, w3)) :
    VInv (rE E os oe ns ne) off vb1 d ∧ (odd = false → 2 * d + 1 ≤ dist (fE E os oe ns ne) (oe-os) (ne-ns)) := by
  have hdual := dual_E E os oe ns ne
  have hpar := dist_par (fE E os oe ns ne) (oe-os) (ne-ns)
  obtain ⟨-, -, hpost⟩ := bwdPass_spec E os oe ns ne off d _ odd vf1 (d+1) d vb w2 vb1 none w3 hvb
    (Int.le_refl _) (by omega) (by omega) hbw
  refine ⟨VInv_of_post hpost, ?_⟩
  intro hev
  have hep : (((oe-os : Nat) : Int) - ((ne-ns : Nat) : Int)) % 2 = 0 := by
    rw [hodd] at hev; simpa using hev
  simp only [PassPost] at hpost
  subst hev
  have hne := nofire_ne hdual.symm (d := d) (d' := d) (v' := vb1) (vo := vf1) (off := off) (by
    intro j h1 h2 h3
    exact hpost j h1 (by omega) h3) hvf1
  rw [← hdual.dist_eq] at hne
  omega

theorem snakeLoop_total (E : Env) (os oe ns ne off : Nat) (odd : Bool)
    (hodd : odd = ((((oe-os : Nat) : Int) - ((ne-ns : Nat) : Int)) % 2 != 0))
    (hb : InBounds E os oe ns ne) (hoff : 2 ≤ off) (hmd : maxD (oe-os) (ne-ns) ≤ off) :
    ∀ (cnt d : Nat) (vf vb : V) (w : World),
      VPrev (fE E os oe ns ne) off vf d → VPrev (rE E os oe ns ne) off vb d →
      2 * d ≤ dist (fE E os oe ns ne) (oe-os) (ne-ns) + 1 → cnt + d = maxD (oe-os) (ne-ns) →
      vf.size = 2 * off → vb.size = 2 * off →
      ∀ e, snakeLoop E os oe ns ne off (((oe-os : Nat) : Int) - ((ne-ns : Nat) : Int)) odd cnt d vf vb w ≠ .error e := by
  intro cnt
  induction cnt with
  | zero => intro d vf vb w _ _ _ _ _ _ e h; simp [snakeLoop] at h
  | succ c ih =>
    intro d vf vb w hvf hvb hD hcnt hsf hsb e h
    simp only [snakeLoop] at h
    split at h
    · simp at h
    · split at h
      · rename_i e' hfw
        exact fwdPass_total E os oe ns ne off d _ odd vb hb hoff (by omega) hsb (d+1) d vf _ hvf hsf
          (Int.le_refl _) (by omega) (by omega) e' hfw
      · simp at h
      · rename_i vf1 w2 hfw
        obtain ⟨hvf1, hD1⟩ := fwd_none_inv hodd hvf hvb hD hfw
        have hsf1 := fwdPass_size _ _ _ _ _ _ _ _ _ _ _ _ _ _ _ _ _ hfw
        split at h
        · rename_i e' hbw
          exact bwdPass_total E os oe ns ne off d _ odd vf1 hb hoff (by omega) (by omega) rfl hodd hvf1 hD
            (by omega) (d+1) d vb _ hvb hsb (Int.le_refl _) (by omega) (by omega) e' hbw
        · simp at h
        · rename_i vb1 w3 hbw
          obtain ⟨hvb1, hD2⟩ := bwd_none_inv hodd hvf1 hvb hD hbw
          have hsb1 := bwdPass_size _ _ _ _ _ _ _ _ _ _ _ _ _ _ _ _ _ hbw
          have hD3 : 2 * (d+1) ≤ dist (fE E os oe ns ne) (oe-os) (ne-ns) + 1 := by
            cases hbo : odd with
            | true => have := hD1 hbo; omega
            | false => have := hD2 hbo; omega
          exact ih (d+1) vf1 vb1 _ hvf1 hvb1 hD3 (by omega) (by omega) (by omega) e h

theorem findMiddleSnake_total {E : Env} {os oe ns ne off : Nat} {vf vb : V} (w : World)
    (ho : os < oe) (hn : ns < ne) (hb : InBounds E os oe ns ne) (hmd : maxD (oe-os) (ne-ns) ≤ off)
    (hsf : vf.size = 2 * off) (hsb : vb.size = 2 * off) :
    ∀ e, findMiddleSnake E os oe ns ne off vf vb w ≠ .error e := by
  intro e h
  have hoff : 2 ≤ off := by have := ho; unfold maxD at hmd; omega
  unfold findMiddleSnake at h
  simp only at h
  split at h
  · rename_i e' hs1
    obtain ⟨v', hv'⟩ := vset_total (v := vf) (off := off) (k := 1) 0 (by omega) (by omega)
    rw [hv'] at hs1; simp at hs1
  · rename_i vf1 hs1
    split at h
    · rename_i e' hs2
      obtain ⟨v', hv'⟩ := vset_total (v := vb) (off := off) (k := 1) 0 (by omega) (by omega)
      rw [hv'] at hs2; simp at hs2
    · rename_i vb1 hs2
      have z1 := (vset_ok hs1).2.2
      have z2 := (vset_ok hs2).2.2
      split at h
      · rename_i hc
        simp only [Bool.or_eq_true, decide_eq_true_eq] at hc
        omega
      · refine snakeLoop_total E os oe ns ne off _ rfl hb hoff hmd _ 0 vf1 vb1 w ?_ ?_
          (Nat.zero_le _) rfl (by omega) (by omega) e h
        · intro a ha
          rw [(vset_ok hs1).1] at ha
          simp only [Except.ok.injEq] at ha
          exact ha.symm
        · intro a ha
          rw [(vset_ok hs2).1] at ha
          simp only [Except.ok.injEq] at ha
          exact ha.symm


/-! ## `conquer` -/

theorem conquer_size {σ} (E : Env) (hk : Hook σ) (off : Nat) :
    ∀ (fuel os oe ns ne : Nat) (vf vb : V) (s : σ) (w : World) (s' : σ) (vf' vb' : V) (w' : World),
      conquer E hk off fuel os oe ns ne vf vb s w = .ok (s', vf', vb', w') →
      vf'.size = vf.size ∧ vb'.size = vb.size := by
  intro fuel
  induction fuel with
  | zero => intro os oe ns ne vf vb s w s' vf' vb' w' h; simp [conquer] at h
  | succ f ih =>
    intro os oe ns ne vf vb s w s' vf' vb' w' h
    simp only [conquer] at h
    split at h
    · simp at h
    · split at h
      · simp at h
      · split at h
        · simp at h
        · split at h
          · simp at h
          · rename_i s2 vf2 vb2 w4 hmid
            have hmid' : vf2.size = vf.size ∧ vb2.size = vb.size := by
              split at hmid
              · simp at hmid; rw [hmid.2.1, hmid.2.2.1]; exact ⟨rfl, rfl⟩
              · split at hmid
                · split at hmid
                  · simp at hmid
                  · simp at hmid; rw [hmid.2.1, hmid.2.2.1]; exact ⟨rfl, rfl⟩
                · split at hmid
                  · split at hmid
                    · simp at hmid
                    · simp at hmid; rw [hmid.2.1, hmid.2.2.1]; exact ⟨rfl, rfl⟩
                  · split at hmid
                    · simp at hmid
                    · rename_i hfm
                      obtain ⟨a1, a2⟩ := findMiddleSnake_size hfm
                      split at hmid
                      · simp at hmid
                      · rename_i hca
                        obtain ⟨b1, b2⟩ := ih _ _ _ _ _ _ _ _ _ _ _ _ hca
                        obtain ⟨c1, c2⟩ := ih _ _ _ _ _ _ _ _ _ _ _ _ hmid
                        exact ⟨by rw [c1, b1, a1], by rw [c2, b2, a2]⟩
                    · rename_i hfm
                      obtain ⟨a1, a2⟩ := findMiddleSnake_size hfm
                      split at hmid
                      · simp at hmid
                      · split at hmid
                        · simp at hmid
                        · simp at hmid; rw [← hmid.2.1, ← hmid.2.2.1]; exact ⟨a1, a2⟩
            split at h
            · split at h
              · simp at h
              · simp at h; rw [← h.2.1, ← h.2.2.1]; exact hmid'
            · simp at h; rw [← h.2.1, ← h.2.2.1]; exact hmid'


theorem emit_rec_ne_error {x : Op} {r : Rec} {w : World} (hf : r.failAt = none)
    (hx : ∀ o ol n nl, x ≠ .replace o ol n nl) : ∀ e, emit recHook x r w ≠ .error e := by
  intro e h
  cases x with
  | replace o ol n nl => exact absurd rfl (hx o ol n nl)
  | _ => simp [emit, recHook, Rec.push, hf, Except.map] at h

theorem emit_rec_failAt {x : Op} {r r' : Rec} {w w' : World} (hf : r.failAt = none)
    (hx : ∀ o ol n nl, x ≠ .replace o ol n nl) (h : emit recHook x r w = .ok (r', w')) :
    r'.failAt = none := by
  rw [(emit_rec hf hx h).1.failAt]; exact hf

theorem conquer_failAt (E : Env) (off : Nat) {fuel os oe ns ne : Nat} {vf vb : V} {r : Rec} {w : World}
    {r' : Rec} {vf' vb' : V} {w' : World} (hf : r.failAt = none) (ho : os ≤ oe) (hn : ns ≤ ne)
    (hb : InBounds E os oe ns ne)
    (h : conquer E recHook off fuel os oe ns ne vf vb r w = .ok (r', vf', vb', w')) : r'.failAt = none := by
  obtain ⟨ops, h1, -⟩ := conquer_sound_near E (snake_in_box E) off fuel os oe ns ne vf vb r w r' vf' vb' w' hf ho hn hb h
  rw [h1]; exact hf


theorem maxD_mono {a b a' b' : Nat} (h : a + b ≤ a' + b') : maxD a b ≤ maxD a' b' := by
  unfold maxD; omega

/-- **T2 (second half)**: `conquer` over the recording hook never aborts (no panic, no exhausted fuel)
when the ranges are in bounds, the fuel exceeds the size of the box and the arrays have the size
`myersDiff` allocates for a box at least as large. -/
theorem conquer_ne_error (E : Env) (off : Nat) :
    ∀ (fuel os oe ns ne : Nat) (vf vb : V) (r : Rec) (w : World),
      (oe - os) + (ne - ns) < fuel → os ≤ oe → ns ≤ ne → InBounds E os oe ns ne →
      maxD (oe-os) (ne-ns) ≤ off → vf.size = 2 * off → vb.size = 2 * off → r.failAt = none →
      ∀ e, conquer E recHook off fuel os oe ns ne vf vb r w ≠ .error e := by
  intro fuel
  induction fuel with
  | zero => intro os oe ns ne vf vb r w hfu; omega
  | succ f ih =>
    intro os oe ns ne vf vb r w hfu ho hn hb hmd hsf hsb hf e h
    simp only [conquer] at h
    split at h
    · rename_i e' hp
      obtain ⟨p, w', hp'⟩ := commonPrefixLen_total (E := E) w hb
      rw [hp'] at hp; simp at hp
    · rename_i p w1 hp
      obtain ⟨hp1, hp2, hp3, hp4, -⟩ := commonPrefixLen_spec hp
      split at h
      · rename_i e' hpre
        split at hpre
        · exact emit_rec_ne_error hf (by intros; simp) _ hpre
        · simp at hpre
      · rename_i r1 w2 hpre
        have hf1 : r1.failAt = none := by
          split at hpre
          · exact emit_rec_failAt hf (by intros; simp) hpre
          · simp at hpre; rw [← hpre.1]; exact hf
        have hb1 : InBounds E (os+p) oe (ns+p) ne :=
          InBounds_sub hb (by omega) (Nat.le_refl _) (by omega) (Nat.le_refl _)
        split at h
        · rename_i e' hs
          obtain ⟨sl, w', hs'⟩ := commonSuffixLen_total (E := E) w2 hb1
          rw [hs'] at hs; simp at hs
        · rename_i sl w3 hs
          obtain ⟨hs1, hs2, hs3, hs4, -⟩ := commonSuffixLen_spec hs
          have hb' : InBounds E (os+p) (oe-sl) (ns+p) (ne-sl) :=
            InBounds_sub hb (by omega) (by omega) (by omega) (by omega)
          split at h
          · rename_i e' hmid
            -- the middle part fails: impossible
            split at hmid
            · simp at hmid
            · split at hmid
              · split at hmid
                · rename_i e'' hem; exact emit_rec_ne_error hf1 (by intros; simp) _ hem
                · simp at hmid
              · split at hmid
                · split at hmid
                  · rename_i e'' hem; exact emit_rec_ne_error hf1 (by intros; simp) _ hem
                  · simp at hmid
                · rename_i hc1 hc2 hc3
                  simp only [Bool.and_eq_true, decide_eq_true_eq] at hc1
                  have ho' : os + p < oe - sl := by omega
                  have hn' : ns + p < ne - sl := by omega
                  have hmd' : maxD (oe - sl - (os+p)) (ne - sl - (ns+p)) ≤ off :=
                    Nat.le_trans (maxD_mono (by omega)) hmd
                  split at hmid
                  · rename_i e'' hfm
                    exact findMiddleSnake_total w3 ho' hn' hb' hmd' hsf hsb e'' hfm
                  · rename_i vf5 vb5 x y w5 hfm
                    obtain ⟨z1, z2⟩ := findMiddleSnake_size hfm
                    have hsp := findMiddleSnake_spec (Nat.le_of_lt ho') (Nat.le_of_lt hn') hfm
                    simp only [LoopPost] at hsp
                    obtain ⟨hx1, hx2, hy1, hy2, -⟩ := id hsp
                    obtain ⟨nc1, nc2⟩ := hsp.not_corner ho' hn' (hp4 (by omega) (by omega))
                      (by have := hs4 (by omega) (by omega)
                          rwa [show oe - 1 - sl = oe - sl - 1 from by omega,
                            show ne - 1 - sl = ne - sl - 1 from by omega] at this)
                    have nc1' : ¬ (x = os + p ∧ y = ns + p) := fun hh => nc1 (by rw [hh.1, hh.2])
                    have nc2' : ¬ (x = oe - sl ∧ y = ne - sl) := fun hh => nc2 (by rw [hh.1, hh.2])
                    have hba : InBounds E (os+p) x (ns+p) y :=
                      InBounds_sub hb' (Nat.le_refl _) hx2 (Nat.le_refl _) hy2
                    have hbb : InBounds E x (oe-sl) y (ne-sl) :=
                      InBounds_sub hb' hx1 (Nat.le_refl _) hy1 (Nat.le_refl _)
                    split at hmid
                    · rename_i e'' hca
                      exact ih (os+p) x (ns+p) y vf5 vb5 r1 w5 (by omega) hx1 hy1 hba
                        (Nat.le_trans (maxD_mono (by omega)) hmd) (by omega) (by omega) hf1 e'' hca
                    · rename_i ra vfa vba wa hca
                      obtain ⟨q1, q2⟩ := conquer_size _ _ _ _ _ _ _ _ _ _ _ _ _ _ _ _ hca
                      have hfa := conquer_failAt E off hf1 hx1 hy1 hba hca
                      exact ih x (oe-sl) y (ne-sl) vfa vba ra wa (by omega) hx2 hy2 hbb
                        (Nat.le_trans (maxD_mono (by omega)) hmd) (by omega) (by omega) hfa e' hmid
                  · split at hmid
                    · rename_i e'' hem; exact emit_rec_ne_error hf1 (by intros; simp) _ hem
                    · rename_i ra wa hem
                      have hfa := emit_rec_failAt hf1 (by intros; simp) hem
                      split at hmid
                      · rename_i e'' hem2; exact emit_rec_ne_error hfa (by intros; simp) _ hem2
                      · simp at hmid
          · rename_i r2 vf2 vb2 w4 hmid
            have hf2 : r2.failAt = none := by
              split at hmid
              · simp at hmid; rw [← hmid.1]; exact hf1
              · split at hmid
                · split at hmid
                  · simp at hmid
                  · rename_i ra wa hem
                    simp at hmid; rw [← hmid.1]; exact emit_rec_failAt hf1 (by intros; simp) hem
                · split at hmid
                  · split at hmid
                    · simp at hmid
                    · rename_i ra wa hem
                      simp at hmid; rw [← hmid.1]; exact emit_rec_failAt hf1 (by intros; simp) hem
                  · rename_i hc1 hc2 hc3
                    simp only [Bool.and_eq_true, decide_eq_true_eq] at hc1
                    have ho' : os + p < oe - sl := by omega
                    have hn' : ns + p < ne - sl := by omega
                    split at hmid
                    · simp at hmid
                    · rename_i vf5 vb5 x y w5 hfm
                      obtain ⟨hx1, hx2, hy1, hy2⟩ := snake_in_box E _ _ _ _ _ _ _ _ _ _ _ _ _ ho' hn' hb' hfm
                      split at hmid
                      · simp at hmid
                      · rename_i ra vfa vba wa hca
                        have hfa := conquer_failAt E off hf1 hx1 hy1
                          (InBounds_sub hb' (Nat.le_refl _) hx2 (Nat.le_refl _) hy2) hca
                        exact conquer_failAt E off hfa hx2 hy2
                          (InBounds_sub hb' hx1 (Nat.le_refl _) hy1 (Nat.le_refl _)) hmid
                    · split at hmid
                      · simp at hmid
                      · rename_i ra wa hem
                        have hfa := emit_rec_failAt hf1 (by intros; simp) hem
                        split at hmid
                        · simp at hmid
                        · rename_i rb wb hem2
                          simp at hmid; rw [← hmid.1]; exact emit_rec_failAt hfa (by intros; simp) hem2
            split at h
            · split at h
              · rename_i e' hem
                exact emit_rec_ne_error hf2 (by intros; simp) _ hem
              · simp at h
            · simp at h

/-- existence form, with what the caller needs to go on -/
theorem conquer_total (E : Env) (off : Nat) (fuel os oe ns ne : Nat) (vf vb : V) (r : Rec) (w : World)
    (hfu : (oe - os) + (ne - ns) < fuel) (ho : os ≤ oe) (hn : ns ≤ ne) (hb : InBounds E os oe ns ne)
    (hmd : maxD (oe-os) (ne-ns) ≤ off) (hsf : vf.size = 2 * off) (hsb : vb.size = 2 * off)
    (hf : r.failAt = none) :
    ∃ r' vf' vb' w', conquer E recHook off fuel os oe ns ne vf vb r w = .ok (r', vf', vb', w') ∧
      vf'.size = 2 * off ∧ vb'.size = 2 * off ∧ r'.failAt = none := by
  cases hc : conquer E recHook off fuel os oe ns ne vf vb r w with
  | error e => exact absurd hc (conquer_ne_error E off fuel os oe ns ne vf vb r w hfu ho hn hb hmd hsf hsb hf e)
  | ok res =>
    obtain ⟨r', vf', vb', w'⟩ := res
    obtain ⟨q1, q2⟩ := conquer_size _ _ _ _ _ _ _ _ _ _ _ _ _ _ _ _ hc
    exact ⟨r', vf', vb', w', rfl, by omega, by omega, conquer_failAt E off hf ho hn hb hc⟩

/-- **Myers never aborts**: `myers::diff_deadline` over a recording hook that does not fail returns -/
theorem myersDiff_total (E : Env) (os oe ns ne : Nat) (w : World) (ho : os ≤ oe) (hn : ns ≤ ne)
    (hb : InBounds E os oe ns ne) : ∃ r' w', myersDiff E recHook os oe ns ne {} w = .ok (r', w') := by
  unfold myersDiff
  simp only
  obtain ⟨r', vf', vb', w', hc, -, -, hf⟩ := conquer_total E (maxD (oe-os) (ne-ns)) ((oe-os)+(ne-ns)+2)
    os oe ns ne (Array.replicate (2 * maxD (oe-os) (ne-ns)) 0) (Array.replicate (2 * maxD (oe-os) (ne-ns)) 0)
    {} w (by omega) ho hn hb (Nat.le_refl _) (by simp) (by simp) rfl
  rw [hc]
  simp [recHook, Rec.push, hf, Except.map]


/-! ## Unconditional versions of the theorems of `Lemmas/Myers.lean` -/

/-- **Myers, total correctness**: for in-bounds ranges `myers::diff_deadline` over the recording hook
returns (whatever the deadline), and the recorded calls are a valid script followed by one `finish`. -/
theorem myers_valid (E : Env) (os oe ns ne : Nat) (w : World) (ho : os ≤ oe) (hn : ns ≤ ne)
    (hb : InBounds E os oe ns ne) :
    ∃ r' w', myersDiff E recHook os oe ns ne {} w = .ok (r', w') ∧ ValidRaw E os oe ns ne r'.trace := by
  obtain ⟨r', w', h⟩ := myersDiff_total E os oe ns ne w ho hn hb
  exact ⟨r', w', h, myers_sound E (snake_in_box E) os oe ns ne w r' w' ho hn hb h⟩

/-- partial-correctness form of the above (no totality needed) -/
theorem myers_sound' (E : Env) (os oe ns ne : Nat) (w : World) (r' : Rec) (w' : World)
    (ho : os ≤ oe) (hn : ns ≤ ne) (hb : InBounds E os oe ns ne)
    (h : myersDiff E recHook os oe ns ne {} w = .ok (r', w')) : ValidRaw E os oe ns ne r'.trace :=
  myers_sound E (snake_in_box E) os oe ns ne w r' w' ho hn hb h

/-- without a deadline every index of every op is exact -/
theorem myers_exact' (E : Env) (os oe ns ne : Nat) (w : World) (r' : Rec) (w' : World)
    (ho : os ≤ oe) (hn : ns ≤ ne) (hb : InBounds E os oe ns ne) (hclock : w.clock = none)
    (h : myersDiff E recHook os oe ns ne {} w = .ok (r', w')) :
    ∃ ops, r'.trace = ops.map Call.op ++ [.finish] ∧ Walk (eqB E) os ns ops oe ne ∧ Exact os ns ops :=
  myers_exact E (snake_in_box E) (snake_found E) os oe ns ne w r' w' ho hn hb hclock h

end SimilarVerif.MyersT

import SimilarVerif.Model.Common
import SimilarVerif.Spec.Walk
/-! `group_diff_ops` (C12). -/
namespace SimilarVerif
open Spec

/-- the non-Equal ops of a list, in order -/
def changesOf : List Op → List Op
  | [] => []
  | .equal .. :: cs => changesOf cs
  | x :: cs => x :: changesOf cs

/-- ops of an alternating valid list: no two adjacent Equal ops, no empty op -/
def AltOps : List Op → Prop
  | [] => True
  | [x] => ¬ x.isEmpty = true
  | x :: y :: cs => ¬ x.isEmpty = true ∧ ¬ (x.tag = .equal ∧ y.tag = .equal) ∧ AltOps (y :: cs)

/-- `y` is the op `x`, or `x` is an Equal op and `y` a sub-range of it -/
def Piece (x y : Op) : Prop :=
  y = x ∨ ∃ o m len d k, x = .equal o m len ∧ y = .equal (o + d) (m + d) k ∧ d + k ≤ len

/-- `g` is the run `mid` with its first and its last op possibly trimmed (when they are Equal ops);
all interior ops are unchanged -/
def Trimmed (mid g : List Op) : Prop :=
  (∃ x y, mid = [x] ∧ g = [y] ∧ Piece x y) ∨
  (∃ x y inner x' y', mid = x :: (inner ++ [x']) ∧ g = y :: (inner ++ [y']) ∧ Piece x y ∧ Piece x' y')

namespace Group

theorem getLast?_append_cons {α} (l : List α) (y : α) (r : List α) :
    (l ++ y :: r).getLast? = (y :: r).getLast? := by
  induction l with
  | nil => rfl
  | cons a l ih => rw [List.cons_append, List.getLast?_cons_of_ne_nil (by simp), ih]

theorem eq_nil_or_snoc {α} (l : List α) : l = [] ∨ ∃ t a, l = t ++ [a] := by
  rcases List.eq_nil_or_concat l with h | ⟨t, a, h⟩
  · exact Or.inl h
  · exact Or.inr ⟨t, a, by simpa using h⟩

/-! ### `changesOf` -/

theorem changesOf_eq_filter (l : List Op) : changesOf l = l.filter (fun x => !(x.tag == .equal)) := by
  induction l with
  | nil => rfl
  | cons x l ih => cases x <;> simp [changesOf, ih, Op.tag]

theorem changesOf_append (a b : List Op) : changesOf (a ++ b) = changesOf a ++ changesOf b := by
  simp [changesOf_eq_filter]

theorem changesOf_cons (x : Op) (l : List Op) : changesOf (x :: l) = changesOf [x] ++ changesOf l :=
  changesOf_append [x] l

theorem changesOf_flatten (L : List (List Op)) : changesOf L.flatten = (L.map changesOf).flatten := by
  induction L with
  | nil => rfl
  | cons g L ih => simp [changesOf_append, ih]

theorem changesOf_ne_nil {l : List Op} : changesOf l ≠ [] ↔ ∃ x ∈ l, x.tag ≠ .equal := by
  simp [changesOf_eq_filter, List.filter_eq_nil_iff]

theorem changesOf_single_ne {x : Op} (h : x.tag ≠ .equal) : changesOf [x] = [x] := by
  cases x <;> simp_all [changesOf, Op.tag]

theorem changesOf_single_eq (o m l : Nat) : changesOf [.equal o m l] = [] := rfl

/-! ### the loop without its accumulator -/

/-- an Equal op longer than `2n`, at which the loop closes a group -/
def isBig (n : Nat) : Op → Bool
  | .equal _ _ len => decide (n * 2 < len)
  | _ => false

theorem groupLoop_acc (n : Nat) (ops p : List Op) (rv : List (List Op)) :
    groupLoop n ops p rv = rv ++ groupLoop n ops p [] := by
  induction ops generalizing p rv with
  | nil => simp only [groupLoop]; split <;> simp
  | cons x rest ih =>
    cases x with
    | equal o m len =>
      simp only [groupLoop]
      split
      · rw [ih, ih _ ([] ++ _)]; simp
      · exact ih _ _
    | delete o l m => simp only [groupLoop]; exact ih _ _
    | insert o m l => simp only [groupLoop]; exact ih _ _
    | replace o ol m nl => simp only [groupLoop]; exact ih _ _

/-- `groupLoop` with empty accumulator -/
def G (n : Nat) (ops p : List Op) : List (List Op) := groupLoop n ops p []

theorem G_nil (n : Nat) (p : List Op) :
    G n [] p = (match p with | [] => [] | [.equal ..] => [] | _ => [p]) := by
  simp only [G, groupLoop]; split <;> simp

theorem G_big (n o m len : Nat) (rest p : List Op) (h : n * 2 < len) :
    G n (.equal o m len :: rest) p =
      (p ++ [.equal o m n]) :: G n rest [.equal (o + (len - n)) (m + (len - n)) (len - (len - n))] := by
  simp only [G, groupLoop, if_pos h]; rw [groupLoop_acc]; simp

theorem G_small (n : Nat) (x : Op) (rest p : List Op) (h : isBig n x = false) :
    G n (x :: rest) p = G n rest (p ++ [x]) := by
  cases x with
  | equal o m len =>
    have : ¬ n * 2 < len := by simpa [isBig] using h
    simp only [G, groupLoop, if_neg this]
  | _ => simp only [G, groupLoop]

theorem groupDiffOps_eq (ops : List Op) (n : Nat) :
    groupDiffOps ops n = G n (trimLast n (trimFirst n ops)) [] := by
  cases ops with
  | nil => simp [groupDiffOps, trimFirst, trimLast, G, groupLoop]
  | cons x l => simp [groupDiffOps, G]

theorem isBig_true {n : Nat} {x : Op} (h : isBig n x = true) :
    ∃ o m len, x = .equal o m len ∧ n * 2 < len := by
  cases x with
  | equal o m len => exact ⟨o, m, len, rfl, by simpa [isBig] using h⟩
  | _ => simp [isBig] at h

theorem isBig_false_of_ne {n : Nat} {x : Op} (h : x.tag ≠ .equal) : isBig n x = false := by
  cases x <;> simp_all [isBig, Op.tag]

/-! ### trimming -/

theorem changesOf_trimFirst (n : Nat) (l : List Op) : changesOf (trimFirst n l) = changesOf l := by
  unfold trimFirst; split <;> simp [changesOf]

theorem changesOf_trimLast (n : Nat) (l : List Op) : changesOf (trimLast n l) = changesOf l := by
  fun_induction trimLast n l with
  | case1 => rfl
  | case2 => rfl
  | case3 => rfl
  | case4 x y rest ih =>
    rw [changesOf_cons x (trimLast n (y :: rest)), ih, ← changesOf_cons]

/-! ### C12, clause "every change exactly once, unchanged, in order" -/

theorem G_changes (n : Nat) (ops p : List Op) :
    changesOf (G n ops p).flatten = changesOf p ++ changesOf ops := by
  induction ops generalizing p with
  | nil =>
    rw [G_nil]; split <;> simp [changesOf]
  | cons x rest ih =>
    by_cases hb : isBig n x = true
    · obtain ⟨o, m, len, rfl, hlen⟩ := isBig_true hb
      rw [G_big _ _ _ _ _ _ hlen]
      simp [changesOf_append, ih, changesOf]
    · rw [G_small _ _ _ _ (by simpa using hb), ih]
      rw [changesOf_append, changesOf_cons x rest, List.append_assoc]

/-! ### heads and lasts of the trimmed list -/

theorem isBig_false_of_small {n : Nat} {x : Op} (h : x.tag = .equal → x.oLen ≤ n) : isBig n x = false := by
  cases x with
  | equal o m len => simp [Op.tag, Op.oLen] at h; simp [isBig]; omega
  | _ => rfl

theorem trimFirst_head_small (n : Nat) (l : List Op) (x : Op) (hx : (trimFirst n l).head? = some x)
    (he : x.tag = .equal) : x.oLen ≤ n := by
  unfold trimFirst at hx
  split at hx
  · simp at hx; subst hx; simp [Op.oLen]; omega
  · rename_i hne
    cases l with
    | nil => simp at hx
    | cons y l =>
      simp at hx; subst hx
      cases y with
      | equal o m len => exact absurd rfl (hne o m len l)
      | _ => simp [Op.tag] at he

theorem trimLast_head (n : Nat) (l : List Op) (x : Op) (hx : (trimLast n l).head? = some x) :
    l.head? = some x ∨ (x.tag = .equal ∧ x.oLen ≤ n) := by
  match l with
  | [] => simp [trimLast] at hx
  | [y] =>
    cases y with
    | equal o m len =>
      simp [trimLast] at hx; subst hx; right; simp [Op.tag, Op.oLen]; omega
    | _ => left; simpa [trimLast] using hx
  | y :: z :: rest => left; simpa [trimLast] using hx

theorem trim_head_small (n : Nat) (l : List Op) (x : Op)
    (hx : (trimLast n (trimFirst n l)).head? = some x) (he : x.tag = .equal) : x.oLen ≤ n := by
  rcases trimLast_head n _ x hx with h | h
  · exact trimFirst_head_small n l x h he
  · exact h.2

theorem trimLast_last_small (n : Nat) (l : List Op) (x : Op) (hx : (trimLast n l).getLast? = some x)
    (he : x.tag = .equal) : x.oLen ≤ n := by
  fun_induction trimLast n l with
  | case1 => simp at hx
  | case2 o m len => simp at hx; subst hx; simp [Op.oLen]; omega
  | case3 y hne =>
    simp at hx; subst hx
    cases y with
    | equal o m len => exact absurd rfl (hne o m len)
    | _ => simp [Op.tag] at he
  | case4 y z rest ih =>
    apply ih
    have : trimLast n (z :: rest) ≠ [] := by
      cases rest with
      | nil => cases z <;> simp [trimLast]
      | cons w r => simp [trimLast]
    rwa [List.getLast?_cons_of_ne_nil this] at hx

/-! ### no two adjacent Equal ops -/

def NAEt : List Tag → Prop
  | [] => True
  | [_] => True
  | a :: b :: cs => ¬ (a = .equal ∧ b = .equal) ∧ NAEt (b :: cs)

/-- no two adjacent Equal ops (the part of `AltOps` grouping depends on) -/
def NAE (l : List Op) : Prop := NAEt (l.map Op.tag)

theorem NAE_of_AltOps {l : List Op} (h : AltOps l) : NAE l := by
  induction l with
  | nil => trivial
  | cons x l ih =>
    cases l with
    | nil => trivial
    | cons y cs =>
      simp only [AltOps] at h
      exact ⟨h.2.1, ih h.2.2⟩

theorem NAE_tail {x : Op} {l : List Op} (h : NAE (x :: l)) : NAE l := by
  cases l with
  | nil => trivial
  | cons y cs => exact h.2

theorem NAE_head {x : Op} {l : List Op} (h : NAE (x :: l)) (hx : x.tag = .equal) :
    ∀ y, l.head? = some y → y.tag ≠ .equal := by
  intro y hy
  cases l with
  | nil => simp at hy
  | cons z cs => simp at hy; subst hy; intro hz; exact h.1 ⟨hx, hz⟩

theorem trimFirst_tags (n : Nat) (l : List Op) : (trimFirst n l).map Op.tag = l.map Op.tag := by
  unfold trimFirst; split <;> simp [Op.tag]

theorem trimLast_tags (n : Nat) (l : List Op) : (trimLast n l).map Op.tag = l.map Op.tag := by
  fun_induction trimLast n l <;> simp_all [Op.tag]

theorem NAE_trim {n : Nat} {l : List Op} (h : NAE l) : NAE (trimLast n (trimFirst n l)) := by
  unfold NAE at *; rwa [trimLast_tags, trimFirst_tags]

theorem NAE_no_changes {l : List Op} (h : NAE l) (hc : changesOf l = []) :
    l = [] ∨ ∃ o m len, l = [.equal o m len] := by
  match l with
  | [] => left; rfl
  | [x] =>
    cases x with
    | equal o m len => right; exact ⟨o, m, len, rfl⟩
    | _ => simp [changesOf] at hc
  | x :: y :: cs =>
    exfalso
    cases x with
    | equal o m len =>
      cases y with
      | equal o' m' len' => exact h.1 ⟨rfl, rfl⟩
      | _ => simp [changesOf] at hc
    | _ => simp [changesOf] at hc

/-! ### C12, clause "no group of Equal ops only" -/

theorem G_has_change (n : Nat) (ops p : List Op) (h1 : NAE ops)
    (h2 : changesOf p ≠ [] ∨ (p = [] ∧ ∀ x, ops.head? = some x → isBig n x = false) ∨
      (∃ o m l, p = [.equal o m l] ∧ ∀ x, ops.head? = some x → x.tag ≠ .equal)) :
    ∀ g ∈ G n ops p, changesOf g ≠ [] := by
  induction ops generalizing p with
  | nil =>
    intro g hg
    rw [G_nil] at hg
    split at hg
    · simp at hg
    · simp at hg
    · rename_i hp1 hp2
      simp at hg; subst hg
      rcases h2 with h | ⟨h, _⟩ | ⟨o, m, l, h, _⟩
      · exact h
      · exact absurd h hp1
      · exact absurd h (hp2 o m l)
  | cons x rest ih =>
    by_cases hb : isBig n x = true
    · obtain ⟨o, m, len, rfl, hlen⟩ := isBig_true hb
      rw [G_big _ _ _ _ _ _ hlen]
      intro g hg
      rcases List.mem_cons.1 hg with rfl | hg
      · rcases h2 with h | ⟨_, h⟩ | ⟨_, _, _, _, h⟩
        · rw [changesOf_append]; simp [h]
        · have := h _ rfl; simp [hb] at this
        · exact absurd rfl (h _ rfl)
      · exact ih _ (NAE_tail h1) (Or.inr (Or.inr ⟨_, _, _, rfl, NAE_head h1 rfl⟩)) g hg
    · have hb : isBig n x = false := by simpa using hb
      rw [G_small _ _ _ _ hb]
      apply ih _ (NAE_tail h1)
      by_cases hx : x.tag = .equal
      · rcases h2 with h | ⟨rfl, _⟩ | ⟨_, _, _, _, h⟩
        · left; rw [changesOf_append]; simp [h]
        · right; right
          cases x with
          | equal o m len => exact ⟨o, m, len, rfl, NAE_head h1 rfl⟩
          | _ => simp [Op.tag] at hx
        · exact absurd hx (h _ rfl)
      · left; rw [changesOf_append, changesOf_single_ne hx]; simp

/-! ### C12, clause "interior Equal runs are at most `2n` long, border ones at most `n`" -/

/-- an Equal op has at most `k` items -/
def Small (k : Nat) (x : Op) : Prop := x.tag = .equal → x.oLen ≤ k

theorem small_of_not_big {n : Nat} {x : Op} (h : isBig n x = false) : Small (2 * n) x := by
  cases x with
  | equal o m len => intro _; simp [isBig] at h; simp [Op.oLen]; omega
  | _ => intro h; simp [Op.tag] at h

theorem G_bounds (n : Nat) (ops p : List Op)
    (I1 : ∀ x ∈ p, Small (2 * n) x)
    (I2 : ∀ x, (p ++ ops).head? = some x → Small n x)
    (I3 : ∀ x, (p ++ ops).getLast? = some x → Small n x) :
    ∀ g ∈ G n ops p, (∀ x ∈ g, Small (2 * n) x) ∧ (∀ x, g.head? = some x → Small n x) ∧
      (∀ x, g.getLast? = some x → Small n x) := by
  induction ops generalizing p with
  | nil =>
    intro g hg
    rw [G_nil] at hg
    split at hg
    · simp at hg
    · simp at hg
    · simp at hg; subst hg
      simp only [List.append_nil] at I2 I3
      exact ⟨I1, I2, I3⟩
  | cons x rest ih =>
    by_cases hb : isBig n x = true
    · obtain ⟨o, m, len, rfl, hlen⟩ := isBig_true hb
      rw [G_big _ _ _ _ _ _ hlen]
      have hs : Small n (.equal o m n) := fun _ => Nat.le_refl _
      have hs' : Small n (.equal (o + (len - n)) (m + (len - n)) (len - (len - n))) := by
        intro _; simp [Op.oLen]; omega
      intro g hg
      rcases List.mem_cons.1 hg with rfl | hg
      · refine ⟨?_, ?_, ?_⟩
        · intro x hx
          rcases List.mem_append.1 hx with hx | hx
          · exact I1 x hx
          · simp at hx; subst hx; intro _; simp [Op.oLen]; omega
        · intro x hx
          cases p with
          | nil => simp at hx; subst hx; exact hs
          | cons y p => exact I2 x (by simpa using hx)
        · intro x hx
          simp at hx; subst hx; exact hs
      · refine ih _ ?_ ?_ ?_ g hg
        · intro x hx; simp at hx; subst hx; intro _; simp [Op.oLen]; omega
        · intro x hx; simp at hx; subst hx; exact hs'
        · intro x hx
          cases rest with
          | nil => simp at hx; subst hx; exact hs'
          | cons y r =>
            apply I3 x
            rw [show Op.equal o m len :: y :: r = [Op.equal o m len] ++ y :: r from rfl,
              ← List.append_assoc, getLast?_append_cons]
            rwa [getLast?_append_cons] at hx
    · have hb : isBig n x = false := by simpa using hb
      rw [G_small _ _ _ _ hb]
      refine ih _ ?_ ?_ ?_
      · intro y hy
        rcases List.mem_append.1 hy with hy | hy
        · exact I1 y hy
        · simp at hy; subst hy; exact small_of_not_big hb
      · intro y hy; exact I2 y (by simpa using hy)
      · intro y hy; exact I3 y (by simpa using hy)

/-! ### walks -/

theorem walk_append (e : Nat → Nat → Bool) (l1 l2 : List Op) (a b c d : Nat) :
    Walk e a b (l1 ++ l2) c d ↔ ∃ m1 m2, Walk e a b l1 m1 m2 ∧ Walk e m1 m2 l2 c d := by
  induction l1 generalizing a b with
  | nil =>
    constructor
    · intro h; exact ⟨a, b, ⟨rfl, rfl⟩, h⟩
    · rintro ⟨m1, m2, ⟨rfl, rfl⟩, h⟩; exact h
  | cons x l ih =>
    cases x with
    | equal o m len =>
      simp only [List.cons_append, Walk, ih]
      constructor
      · rintro ⟨h1, h2, h3, h4, m1, m2, h5, h6⟩; exact ⟨m1, m2, ⟨h1, h2, h3, h4, h5⟩, h6⟩
      · rintro ⟨m1, m2, ⟨h1, h2, h3, h4, h5⟩, h6⟩; exact ⟨h1, h2, h3, h4, m1, m2, h5, h6⟩
    | delete o len m =>
      simp only [List.cons_append, Walk, ih]
      constructor
      · rintro ⟨h1, h2, m1, m2, h5, h6⟩; exact ⟨m1, m2, ⟨h1, h2, h5⟩, h6⟩
      · rintro ⟨m1, m2, ⟨h1, h2, h5⟩, h6⟩; exact ⟨h1, h2, m1, m2, h5, h6⟩
    | insert o m len =>
      simp only [List.cons_append, Walk, ih]
      constructor
      · rintro ⟨h1, h2, m1, m2, h5, h6⟩; exact ⟨m1, m2, ⟨h1, h2, h5⟩, h6⟩
      · rintro ⟨m1, m2, ⟨h1, h2, h5⟩, h6⟩; exact ⟨h1, h2, m1, m2, h5, h6⟩
    | replace o ol m nl =>
      simp only [List.cons_append, Walk, ih]
      constructor
      · rintro ⟨h1, h2, h3, h4, m1, m2, h5, h6⟩; exact ⟨m1, m2, ⟨h1, h2, h3, h4, h5⟩, h6⟩
      · rintro ⟨m1, m2, ⟨h1, h2, h3, h4, h5⟩, h6⟩; exact ⟨h1, h2, h3, h4, m1, m2, h5, h6⟩

theorem walk_cons (e : Nat → Nat → Bool) (x : Op) (l : List Op) (a b c d : Nat) :
    Walk e a b (x :: l) c d ↔ ∃ m1 m2, Walk e a b [x] m1 m2 ∧ Walk e m1 m2 l c d :=
  walk_append e [x] l a b c d

theorem walk_mono (e : Nat → Nat → Bool) (l : List Op) (a b c d : Nat) (h : Walk e a b l c d) :
    a ≤ c ∧ b ≤ d := by
  induction l generalizing a b with
  | nil => obtain ⟨rfl, rfl⟩ := h; exact ⟨Nat.le_refl _, Nat.le_refl _⟩
  | cons x l ih =>
    cases x with
    | equal o m len => have := ih _ _ h.2.2.2.2; omega
    | delete o len m => have := ih _ _ h.2.2; omega
    | insert o m len => have := ih _ _ h.2.2; omega
    | replace o ol m nl => have := ih _ _ h.2.2.2.2; omega

/-- the filter of `group_walk`: drop empty ops -/
abbrev nz : Op → Bool := fun x => !x.isEmpty

theorem walk_filter_id (e : Nat → Nat → Bool) (l : List Op) (a b c d : Nat) (h : Walk e a b l c d) :
    l.filter nz = l := by
  induction l generalizing a b with
  | nil => rfl
  | cons x l ih =>
    cases x with
    | equal o m len =>
      have h3 := h.2.2.1
      rw [List.filter_cons_of_pos (by simp [Op.isEmpty, Op.oLen]; omega), ih _ _ h.2.2.2.2]
    | delete o len m =>
      have h3 := h.2.1
      rw [List.filter_cons_of_pos (by simp [Op.isEmpty, Op.oLen]; omega), ih _ _ h.2.2]
    | insert o m len =>
      have h3 := h.2.1
      rw [List.filter_cons_of_pos (by simp [Op.isEmpty, Op.oLen, Op.nLen]; omega), ih _ _ h.2.2]
    | replace o ol m nl =>
      have h3 := h.2.2.1
      rw [List.filter_cons_of_pos (by simp [Op.isEmpty, Op.oLen]; omega), ih _ _ h.2.2.2.2]

/-- a (possibly empty) piece of an Equal run is a walk once empty ops are dropped -/
theorem walk_filter_equal (e : Nat → Nat → Bool) (c d k : Nat) (h : ∀ t, t < k → e (c + t) (d + t) = true) :
    Walk e c d ([Op.equal c d k].filter nz) (c + k) (d + k) := by
  by_cases hk : k = 0
  · subst hk; simp [Op.isEmpty, Op.oLen, Op.nLen, Walk]
  · rw [List.filter_cons_of_pos (by simp [Op.isEmpty, Op.oLen]; omega)]
    exact ⟨rfl, rfl, by omega, h, rfl, rfl⟩

theorem filter_snoc (p : List Op) (x : Op) : (p ++ [x]).filter nz = p.filter nz ++ [x].filter nz := by
  simp

theorem G_walk (e : Nat → Nat → Bool) (n o0 n0 o1 n1 : Nat) (ops p : List Op) (a b c d c' d' : Nat)
    (hp : Walk e a b (p.filter nz) c d) (ho : Walk e c d (ops.filter nz) c' d')
    (ha : o0 ≤ a) (hb : n0 ≤ b) (hc : c' ≤ o1) (hd : d' ≤ n1) :
    ∀ g ∈ G n ops p, ∃ a b c d, Walk e a b (g.filter nz) c d ∧ o0 ≤ a ∧ c ≤ o1 ∧ n0 ≤ b ∧ d ≤ n1 := by
  induction ops generalizing p a b c d with
  | nil =>
    intro g hg
    rw [G_nil] at hg
    obtain ⟨rfl, rfl⟩ := ho
    split at hg
    · simp at hg
    · simp at hg
    · simp at hg; subst hg
      exact ⟨a, b, c, d, hp, ha, hc, hb, hd⟩
  | cons x rest ih =>
    by_cases hbig : isBig n x = true
    · obtain ⟨o, m, len, rfl, hlen⟩ := isBig_true hbig
      rw [G_big _ _ _ _ _ _ hlen]
      rw [List.filter_cons_of_pos (by simp [Op.isEmpty, Op.oLen]; omega)] at ho
      obtain ⟨rfl, rfl, hpos, heq, hrest⟩ := ho
      have hm := walk_mono _ _ _ _ _ _ hrest
      have hm2 := walk_mono _ _ _ _ _ _ hp
      intro g hg
      rcases List.mem_cons.1 hg with rfl | hg
      · refine ⟨a, b, o + n, m + n, ?_, ha, by omega, hb, by omega⟩
        rw [filter_snoc, walk_append]
        exact ⟨o, m, hp, walk_filter_equal e o m n (fun t ht => heq t (by omega))⟩
      · refine ih [_] (o + (len - n)) (m + (len - n)) (o + len) (m + len) ?_ hrest
          (by omega) (by omega) g hg
        have h1 : o + len = o + (len - n) + (len - (len - n)) := by omega
        have h2 : m + len = m + (len - n) + (len - (len - n)) := by omega
        rw [h1, h2]
        apply walk_filter_equal
        intro t ht
        have := heq (len - n + t) (by omega)
        rwa [← Nat.add_assoc, ← Nat.add_assoc] at this
    · have hbig : isBig n x = false := by simpa using hbig
      rw [G_small _ _ _ _ hbig]
      by_cases hx : nz x = true
      · rw [List.filter_cons_of_pos hx, walk_cons] at ho
        obtain ⟨m1, m2, hx1, hrest⟩ := ho
        refine ih (p ++ [x]) a b m1 m2 ?_ hrest ha hb
        rw [filter_snoc, walk_append, List.filter_cons_of_pos hx]
        exact ⟨c, d, hp, hx1⟩
      · rw [List.filter_cons_of_neg hx] at ho
        refine ih (p ++ [x]) a b c d ?_ ho ha hb
        rw [filter_snoc, List.filter_cons_of_neg hx]
        simpa using hp

theorem trimFirst_walk (e : Nat → Nat → Bool) (n : Nat) (l : List Op) (o0 n0 o1 n1 : Nat)
    (h : Walk e o0 n0 l o1 n1) :
    ∃ a b, o0 ≤ a ∧ n0 ≤ b ∧ Walk e a b ((trimFirst n l).filter nz) o1 n1 := by
  unfold trimFirst
  split
  · rename_i o m len rest
    obtain ⟨rfl, rfl, hpos, heq, hrest⟩ := h
    refine ⟨o + (len - n), m + (len - n), by omega, by omega, ?_⟩
    rw [show ∀ x : Op, x :: rest = [x] ++ rest from fun _ => rfl, List.filter_append, walk_append,
      walk_filter_id _ _ _ _ _ _ hrest]
    refine ⟨o + len, m + len, ?_, hrest⟩
    have h1 : o + len = o + (len - n) + (len - (len - n)) := by omega
    have h2 : m + len = m + (len - n) + (len - (len - n)) := by omega
    rw [h1, h2]
    apply walk_filter_equal
    intro t ht
    have := heq (len - n + t) (by omega)
    rwa [← Nat.add_assoc, ← Nat.add_assoc] at this
  · exact ⟨o0, n0, Nat.le_refl _, Nat.le_refl _, by rwa [walk_filter_id _ _ _ _ _ _ h]⟩

theorem trimLast_walk (e : Nat → Nat → Bool) (n : Nat) (l : List Op) (a b o1 n1 : Nat)
    (h : Walk e a b (l.filter nz) o1 n1) :
    ∃ c d, c ≤ o1 ∧ d ≤ n1 ∧ Walk e a b ((trimLast n l).filter nz) c d := by
  fun_induction trimLast n l generalizing a b with
  | case1 => exact ⟨o1, n1, Nat.le_refl _, Nat.le_refl _, h⟩
  | case2 o m len =>
    by_cases hl : len = 0
    · subst hl; exact ⟨o1, n1, Nat.le_refl _, Nat.le_refl _, by simpa using h⟩
    · rw [List.filter_cons_of_pos (by simp [Op.isEmpty, Op.oLen]; omega)] at h
      obtain ⟨rfl, rfl, hpos, heq, rfl, rfl⟩ := h
      exact ⟨o + (len - (len - n)), m + (len - (len - n)), by omega, by omega,
        walk_filter_equal e o m _ (fun t ht => heq t (by omega))⟩
  | case3 x hne => exact ⟨o1, n1, Nat.le_refl _, Nat.le_refl _, h⟩
  | case4 x y rest ih =>
    by_cases hx : nz x = true
    · rw [List.filter_cons_of_pos hx, walk_cons] at h
      obtain ⟨m1, m2, hx1, hrest⟩ := h
      obtain ⟨c, d, hc, hd, hw⟩ := ih _ _ hrest
      refine ⟨c, d, hc, hd, ?_⟩
      rw [List.filter_cons_of_pos hx, walk_cons]
      exact ⟨m1, m2, hx1, hw⟩
    · rw [List.filter_cons_of_neg hx] at h
      obtain ⟨c, d, hc, hd, hw⟩ := ih _ _ h
      exact ⟨c, d, hc, hd, by rwa [List.filter_cons_of_neg hx]⟩

/-! ### structure of the result: prefixes, groups in progress, trimming of `pre ++ c :: post` -/

/-- processing a prefix closes some groups and leaves a pending group, independently of what follows;
the closed groups and the pending one hold exactly the changes seen so far -/
theorem G_prefix (n : Nat) (pre p : List Op) :
    ∃ done p', (∀ rest, G n (pre ++ rest) p = done ++ G n rest p') ∧
      changesOf (done.flatten ++ p') = changesOf p ++ changesOf pre := by
  induction pre generalizing p with
  | nil => exact ⟨[], p, fun _ => rfl, by simp [changesOf]⟩
  | cons x pre ih =>
    by_cases hb : isBig n x = true
    · obtain ⟨o, m, len, rfl, hlen⟩ := isBig_true hb
      obtain ⟨done, p', h, hch⟩ := ih [.equal (o + (len - n)) (m + (len - n)) (len - (len - n))]
      refine ⟨(p ++ [.equal o m n]) :: done, p', fun rest => ?_, ?_⟩
      · rw [List.cons_append, G_big _ _ _ _ _ _ hlen, h]; rfl
      · rw [List.flatten_cons, List.append_assoc, changesOf_append, hch]
        simp [changesOf_append, changesOf]
    · have hb : isBig n x = false := by simpa using hb
      obtain ⟨done, p', h, hch⟩ := ih (p ++ [x])
      refine ⟨done, p', fun rest => by rw [List.cons_append, G_small _ _ _ _ hb, h], ?_⟩
      rw [hch, changesOf_append, changesOf_cons x pre, List.append_assoc]

/-- a pending group that already has a change is the beginning of the next group of the result -/
theorem G_of_change (n : Nat) (ops p : List Op) (hp : changesOf p ≠ []) :
    ∃ s t, G n ops p = (p ++ s) :: t := by
  induction ops generalizing p with
  | nil =>
    refine ⟨[], [], ?_⟩
    rw [G_nil]
    split
    · simp [changesOf] at hp
    · simp [changesOf] at hp
    · simp
  | cons x rest ih =>
    by_cases hb : isBig n x = true
    · obtain ⟨o, m, len, rfl, hlen⟩ := isBig_true hb
      exact ⟨_, _, G_big _ _ _ _ _ _ hlen⟩
    · have hb : isBig n x = false := by simpa using hb
      obtain ⟨s, t, h⟩ := ih (p ++ [x]) (by rw [changesOf_append]; simp [hp])
      exact ⟨[x] ++ s, t, by rw [G_small _ _ _ _ hb, h, List.append_assoc]⟩

theorem G_nil_of_change (n : Nat) (p : List Op) (hp : changesOf p ≠ []) : G n [] p = [p] := by
  rw [G_nil]
  split
  · simp [changesOf] at hp
  · simp [changesOf] at hp
  · rfl

theorem NAE_append_right {l r : List Op} (h : NAE (l ++ r)) : NAE r := by
  induction l with
  | nil => exact h
  | cons x l ih => exact ih (NAE_tail h)

theorem trimFirst_append_ne (n : Nat) (pre : List Op) (c : Op) (r : List Op) (hc : c.tag ≠ .equal) :
    trimFirst n (pre ++ c :: r) = trimFirst n pre ++ c :: r := by
  cases pre with
  | nil => cases c <;> simp_all [trimFirst, Op.tag]
  | cons x pre => cases x <;> simp [trimFirst]

theorem trimLast_cons_ne (n : Nat) (c : Op) (r : List Op) (hc : c.tag ≠ .equal) :
    trimLast n (c :: r) = c :: trimLast n r := by
  cases r with
  | nil => cases c <;> simp_all [trimLast, Op.tag]
  | cons y r => simp [trimLast]

theorem trimLast_append (n : Nat) (l r : List Op) (hr : r ≠ []) :
    trimLast n (l ++ r) = l ++ trimLast n r := by
  induction l with
  | nil => rfl
  | cons x l ih =>
    cases hlr : l ++ r with
    | nil => simp [hr] at hlr
    | cons y t => rw [List.cons_append, hlr, trimLast, ← hlr, ih]; rfl

/-- the trimmed input when the list is split around a change -/
theorem trim_split (n : Nat) (pre : List Op) (c : Op) (post : List Op) (hc : c.tag ≠ .equal) :
    trimLast n (trimFirst n (pre ++ c :: post)) = trimFirst n pre ++ c :: trimLast n post := by
  rw [trimFirst_append_ne n pre c post hc, trimLast_append _ _ _ (by simp), trimLast_cons_ne n c post hc]

/-! ### C12, clause "each group is a contiguous run of ops" -/

theorem Piece.refl (x : Op) : Piece x x := Or.inl rfl

/-- pending group vs. the run of the input it came from: only the first op may be trimmed -/
def RelH (P p : List Op) : Prop := ∃ X x t, P = X :: t ∧ p = x :: t ∧ Piece X x

/-- remaining ops vs. the remaining input: only the last op may be trimmed -/
def RelT (O ops : List Op) : Prop :=
  (O = [] ∧ ops = []) ∨ ∃ t Z z, O = t ++ [Z] ∧ ops = t ++ [z] ∧ Piece Z z

theorem relH_snoc {P p : List Op} {Z z : Op} (h : RelH P p) (hz : Piece Z z) :
    Trimmed (P ++ [Z]) (p ++ [z]) := by
  obtain ⟨X, x, t, rfl, rfl, hx⟩ := h
  exact Or.inr ⟨X, x, t, Z, z, rfl, rfl, hx, hz⟩

theorem relH_snoc_same {P p : List Op} (x : Op) (h : RelH P p) : RelH (P ++ [x]) (p ++ [x]) := by
  obtain ⟨X, x0, t, rfl, rfl, hx⟩ := h
  exact ⟨X, x0, t ++ [x], rfl, rfl, hx⟩

theorem relH_trimmed {P p : List Op} (h : RelH P p) : Trimmed P p := by
  obtain ⟨X, x, t, rfl, rfl, hx⟩ := h
  rcases eq_nil_or_snoc t with rfl | ⟨t', w, rfl⟩
  · exact Or.inl ⟨X, x, rfl, rfl, hx⟩
  · exact Or.inr ⟨X, x, t', w, w, rfl, rfl, hx, Piece.refl w⟩

theorem relT_cons {O ops : List Op} {x : Op} (h : RelT O (x :: ops)) :
    (ops = [] ∧ ∃ Z, O = [Z] ∧ Piece Z x) ∨ (ops ≠ [] ∧ ∃ O', O = x :: O' ∧ RelT O' ops) := by
  rcases h with ⟨_, h⟩ | ⟨t, Z, z, rfl, h, hz⟩
  · simp at h
  · cases t with
    | nil =>
      simp at h; obtain ⟨rfl, rfl⟩ := h
      exact Or.inl ⟨rfl, Z, rfl, hz⟩
    | cons y t =>
      simp at h; obtain ⟨rfl, rfl⟩ := h
      exact Or.inr ⟨by simp, t ++ [Z], rfl, Or.inr ⟨t, Z, z, rfl, rfl, hz⟩⟩

theorem G_contig (n : Nat) (S : List Op) (ops p A P O : List Op) (hS : S = A ++ P ++ O)
    (hP : RelH P p) (hO : RelT O ops) (hlast : ∀ z, ops.getLast? = some z → isBig n z = false) :
    ∀ g ∈ G n ops p, ∃ pre mid post, S = pre ++ mid ++ post ∧ Trimmed mid g := by
  induction ops generalizing p A P O with
  | nil =>
    intro g hg
    rw [G_nil] at hg
    have hg : g = p := by split at hg <;> simp_all
    subst hg
    exact ⟨A, P, O, hS, relH_trimmed hP⟩
  | cons x rest ih =>
    rcases relT_cons hO with ⟨rfl, Z, rfl, hZ⟩ | ⟨hne, O', rfl, hO'⟩
    · have hb : isBig n x = false := hlast x rfl
      rw [G_small _ _ _ _ hb]
      intro g hg
      rw [G_nil] at hg
      have hg : g = p ++ [x] := by split at hg <;> simp_all
      subst hg
      exact ⟨A, P ++ [Z], [], by simp [hS], relH_snoc hP hZ⟩
    · have hlast' : ∀ z, rest.getLast? = some z → isBig n z = false := by
        intro z hz; apply hlast z
        rwa [List.getLast?_cons_of_ne_nil hne]
      by_cases hb : isBig n x = true
      · obtain ⟨o, m, len, rfl, hlen⟩ := isBig_true hb
        rw [G_big _ _ _ _ _ _ hlen]
        intro g hg
        rcases List.mem_cons.1 hg with rfl | hg
        · refine ⟨A, P ++ [.equal o m len], O', by simp [hS], relH_snoc hP ?_⟩
          exact Or.inr ⟨o, m, len, 0, n, rfl, rfl, by omega⟩
        · refine ih _ (A ++ P) [.equal o m len] O' (by simp [hS]) ?_ hO' hlast' g hg
          exact ⟨_, _, [], rfl, rfl, Or.inr ⟨o, m, len, len - n, len - (len - n), rfl, rfl, by omega⟩⟩
      · have hb : isBig n x = false := by simpa using hb
        rw [G_small _ _ _ _ hb]
        exact ih _ A (P ++ [x]) O' (by simp [hS]) (relH_snoc_same x hP) hO' hlast'

theorem trimLast_single_piece (n : Nat) (Z : Op) : ∃ z, trimLast n [Z] = [z] ∧ Piece Z z := by
  cases Z with
  | equal o m len =>
    exact ⟨_, rfl, Or.inr ⟨o, m, len, 0, len - (len - n), rfl, rfl, by omega⟩⟩
  | _ => exact ⟨_, rfl, Piece.refl _⟩

theorem trimLast_relT (n : Nat) (l : List Op) : RelT l (trimLast n l) := by
  rcases eq_nil_or_snoc l with rfl | ⟨t, Z, rfl⟩
  · exact Or.inl ⟨rfl, rfl⟩
  · obtain ⟨z, hz, hp⟩ := trimLast_single_piece n Z
    exact Or.inr ⟨t, Z, z, rfl, by rw [trimLast_append _ _ _ (by simp), hz], hp⟩

theorem trimFirst_single_piece (n : Nat) (X : Op) : ∃ x, trimFirst n [X] = [x] ∧ Piece X x := by
  cases X with
  | equal o m len =>
    exact ⟨_, rfl, Or.inr ⟨o, m, len, len - n, len - (len - n), rfl, rfl, by omega⟩⟩
  | _ => exact ⟨_, rfl, Piece.refl _⟩

theorem Piece.trans {x y z : Op} (h1 : Piece x y) (h2 : Piece y z) : Piece x z := by
  rcases h1 with rfl | ⟨o, m, len, d, k, rfl, rfl, h⟩
  · exact h2
  · rcases h2 with rfl | ⟨o', m', len', d', k', h3, rfl, h'⟩
    · exact Or.inr ⟨o, m, len, d, k, rfl, rfl, h⟩
    · simp at h3; obtain ⟨rfl, rfl, rfl⟩ := h3
      exact Or.inr ⟨o, m, len, d + d', k', rfl, by simp [Nat.add_assoc], by omega⟩

end Group

open Group

/-- every change is kept exactly once, unchanged and in order -/
theorem group_keeps_changes (ops : List Op) (n : Nat) :
    changesOf (groupDiffOps ops n).flatten = changesOf ops := by
  rw [groupDiffOps_eq, G_changes, changesOf_trimLast, changesOf_trimFirst]; rfl

/-- no group consists of Equal ops only -/
theorem group_has_change (ops : List Op) (n : Nat) (hv : AltOps ops) (g : List Op)
    (hg : g ∈ groupDiffOps ops n) : changesOf g ≠ [] := by
  rw [groupDiffOps_eq] at hg
  refine G_has_change n _ [] (NAE_trim (NAE_of_AltOps hv)) (Or.inr (Or.inl ⟨rfl, ?_⟩)) g hg
  intro x hx
  exact isBig_false_of_small (trim_head_small n ops x hx)

/-- no changes means no groups -/
theorem group_no_changes (ops : List Op) (n : Nat) (hv : AltOps ops) (h : changesOf ops = []) :
    groupDiffOps ops n = [] := by
  rcases NAE_no_changes (NAE_of_AltOps hv) h with rfl | ⟨o, m, len, rfl⟩
  · rfl
  · have hb : isBig n (.equal (o + (len - n)) (m + (len - n)) (len - (len - n) - (len - (len - n) - n))) = false := by
      simp [isBig]; omega
    rw [groupDiffOps_eq]
    simp only [trimFirst, trimLast]
    rw [G_small _ _ _ _ hb, G_nil]
    rfl

/-- every Equal op inside a group has at most `2n` items, and the first and last op of a group, when
Equal, have at most `n` items -/
theorem group_equal_bounds' (ops : List Op) (n : Nat) (g : List Op) (hg : g ∈ groupDiffOps ops n) :
    (∀ x ∈ g, x.tag = .equal → x.oLen ≤ 2 * n) ∧
    (∀ x, g.head? = some x → x.tag = .equal → x.oLen ≤ n) ∧
    (∀ x, g.getLast? = some x → x.tag = .equal → x.oLen ≤ n) := by
  rw [groupDiffOps_eq] at hg
  refine G_bounds n _ [] (by simp) ?_ ?_ g hg
  · intro x hx; exact trim_head_small n ops x (by simpa using hx)
  · intro x hx; exact trimLast_last_small n _ x (by simpa using hx)

/-- the statement as given in the skeleton (the hypothesis `AltOps ops` is not needed) -/
theorem group_equal_bounds (ops : List Op) (n : Nat) (hv : AltOps ops) (g : List Op)
    (hg : g ∈ groupDiffOps ops n) :
    (∀ x ∈ g, x.tag = .equal → x.oLen ≤ 2 * n) ∧
    (∀ x, g.head? = some x → x.tag = .equal → x.oLen ≤ n) ∧
    (∀ x, g.getLast? = some x → x.tag = .equal → x.oLen ≤ n) := by
  have _ := hv
  exact group_equal_bounds' ops n g hg

/-- grouping only trims Equal ops: walking the flattened groups' ops consumes, for every group, a
contiguous stretch of both sequences — each group is a valid walk between its own end points -/
theorem group_walk (e : Nat → Nat → Bool) (ops : List Op) (n : Nat) (o0 n0 o1 n1 : Nat)
    (hw : Walk e o0 n0 ops o1 n1) (g : List Op) (hg : g ∈ groupDiffOps ops n) :
    ∃ a b c d, Walk e a b (g.filter fun x => !x.isEmpty) c d ∧ o0 ≤ a ∧ c ≤ o1 ∧ n0 ≤ b ∧ d ≤ n1 := by
  rw [groupDiffOps_eq] at hg
  obtain ⟨a, b, ha, hb, h1⟩ := trimFirst_walk e n ops o0 n0 o1 n1 hw
  obtain ⟨c, d, hc, hd, h2⟩ := trimLast_walk e n _ a b o1 n1 h1
  exact G_walk e n o0 n0 o1 n1 _ [] a b a b c d ⟨rfl, rfl⟩ h2 ha hb hc hd g hg

/-! ### C12: separation of changes -/

/-- **Separation.** Two changes `c1`, `c2` separated by one Equal op of `len` items:
* `len ≤ 2n`: some group contains `c1`, the whole Equal op and `c2` consecutively;
* `2n < len`: `c1` is the last change of one group, which ends with `n` items of context, and `c2` is the
  first change of the next group, which starts with `n` items of context.
`G1` and `s1` hold exactly the changes of `pre`, so the statement is about these occurrences. -/
theorem group_separation (ops : List Op) (n : Nat) (pre post : List Op) (c1 c2 : Op) (o m len : Nat)
    (hops : ops = pre ++ [c1, .equal o m len, c2] ++ post)
    (h1 : c1.tag ≠ .equal) (h2 : c2.tag ≠ .equal) :
    (len ≤ 2 * n → ∃ G1 s1 s2 G2,
      groupDiffOps ops n = G1 ++ [s1 ++ [c1, .equal o m len, c2] ++ s2] ++ G2 ∧
      changesOf (G1.flatten ++ s1) = changesOf pre) ∧
    (2 * n < len → ∃ G1 s1 s2 G2,
      groupDiffOps ops n =
        G1 ++ [s1 ++ [c1, .equal o m n], [.equal (o + (len - n)) (m + (len - n)) n, c2] ++ s2] ++ G2 ∧
      changesOf (G1.flatten ++ s1) = changesOf pre) := by
  subst hops
  have hL : trimLast n (trimFirst n (pre ++ [c1, .equal o m len, c2] ++ post)) =
      trimFirst n pre ++ (c1 :: .equal o m len :: c2 :: trimLast n post) := by
    have := trim_split n (pre ++ [c1, .equal o m len]) c2 post h2
    simp only [List.append_assoc, List.cons_append, List.nil_append] at this ⊢
    rw [this, trimFirst_append_ne n pre c1 _ h1]
    simp
  obtain ⟨done, p', hG, hch⟩ := G_prefix n (trimFirst n pre) []
  rw [changesOf_trimFirst] at hch
  rw [groupDiffOps_eq, hL, hG, G_small _ _ _ _ (isBig_false_of_ne h1)]
  constructor
  · intro hlen
    have hb : isBig n (.equal o m len) = false := by simp [isBig]; omega
    rw [G_small _ _ _ _ hb, G_small _ _ _ _ (isBig_false_of_ne h2)]
    obtain ⟨s, t, h⟩ := G_of_change n (trimLast n post) (p' ++ [c1] ++ [.equal o m len] ++ [c2])
      (by rw [changesOf_append, changesOf_single_ne h2]; simp)
    refine ⟨done, p', s, t, ?_, by simpa [changesOf] using hch⟩
    rw [h]; simp
  · intro hlen
    rw [G_big _ _ _ _ _ _ (by omega), G_small _ _ _ _ (isBig_false_of_ne h2)]
    obtain ⟨s, t, h⟩ := G_of_change n (trimLast n post)
      ([.equal (o + (len - n)) (m + (len - n)) (len - (len - n))] ++ [c2])
      (by rw [changesOf_append, changesOf_single_ne h2]; simp)
    refine ⟨done, p', s, t, ?_, by simpa [changesOf] using hch⟩
    rw [h, show len - (len - n) = n by omega]; simp

/-- two adjacent changes (no Equal item between them) are adjacent in one group -/
theorem group_adjacent_changes (ops : List Op) (n : Nat) (pre post : List Op) (c1 c2 : Op)
    (hops : ops = pre ++ [c1, c2] ++ post) (h1 : c1.tag ≠ .equal) (h2 : c2.tag ≠ .equal) :
    ∃ G1 s1 s2 G2, groupDiffOps ops n = G1 ++ [s1 ++ [c1, c2] ++ s2] ++ G2 ∧
      changesOf (G1.flatten ++ s1) = changesOf pre := by
  subst hops
  have hL : trimLast n (trimFirst n (pre ++ [c1, c2] ++ post)) =
      trimFirst n pre ++ (c1 :: c2 :: trimLast n post) := by
    have := trim_split n (pre ++ [c1]) c2 post h2
    simp only [List.append_assoc, List.cons_append, List.nil_append] at this ⊢
    rw [this, trimFirst_append_ne n pre c1 _ h1]
    simp
  obtain ⟨done, p', hG, hch⟩ := G_prefix n (trimFirst n pre) []
  rw [changesOf_trimFirst] at hch
  rw [groupDiffOps_eq, hL, hG, G_small _ _ _ _ (isBig_false_of_ne h1),
    G_small _ _ _ _ (isBig_false_of_ne h2)]
  obtain ⟨s, t, h⟩ := G_of_change n (trimLast n post) (p' ++ [c1] ++ [c2])
    (by rw [changesOf_append, changesOf_single_ne h2]; simp)
  refine ⟨done, p', s, t, ?_, by simpa [changesOf] using hch⟩
  rw [h]; simp

/-! ### C12: context at the borders of the first and the last group -/

/-- **Leading context.** If the input starts with an Equal op followed by a change, the first group starts
with the last `min n len` items of that Equal op, followed by the change. -/
theorem group_leading_context (n o m len : Nat) (c : Op) (rest : List Op) (hc : c.tag ≠ .equal) :
    ∃ s gs, groupDiffOps (.equal o m len :: c :: rest) n =
      (.equal (o + (len - min n len)) (m + (len - min n len)) (min n len) :: c :: s) :: gs := by
  have hL : trimLast n (trimFirst n (.equal o m len :: c :: rest)) =
      .equal (o + (len - n)) (m + (len - n)) (len - (len - n)) :: c :: trimLast n rest := by
    have := trim_split n [.equal o m len] c rest hc
    simpa [trimFirst] using this
  have hb : isBig n (.equal (o + (len - n)) (m + (len - n)) (len - (len - n))) = false := by
    simp [isBig]; omega
  rw [groupDiffOps_eq, hL, G_small _ _ _ _ hb, G_small _ _ _ _ (isBig_false_of_ne hc)]
  obtain ⟨s, t, h⟩ := G_of_change n (trimLast n rest)
    ([] ++ [.equal (o + (len - n)) (m + (len - n)) (len - (len - n))] ++ [c])
    (by rw [changesOf_append, changesOf_single_ne hc]; simp)
  refine ⟨s, t, ?_⟩
  rw [h, show len - min n len = len - n by omega, show len - (len - n) = min n len by omega]; simp

/-- **Trailing context.** If the input ends with a change followed by an Equal op, the last group ends with
that change followed by the first `min n len` items of the Equal op. -/
theorem group_trailing_context (n o m len : Nat) (c : Op) (pre : List Op) (hc : c.tag ≠ .equal) :
    ∃ gs s, groupDiffOps (pre ++ [c, .equal o m len]) n =
      gs ++ [s ++ [c, .equal o m (min n len)]] := by
  have hL : trimLast n (trimFirst n (pre ++ [c, .equal o m len])) =
      trimFirst n pre ++ (c :: [.equal o m (len - (len - n))]) := by
    have := trim_split n pre c [.equal o m len] hc
    simpa [trimLast] using this
  have hb : isBig n (.equal o m (len - (len - n))) = false := by
    simp [isBig]; omega
  obtain ⟨done, p', hG, _⟩ := G_prefix n (trimFirst n pre) []
  rw [groupDiffOps_eq, hL, hG, G_small _ _ _ _ (isBig_false_of_ne hc), G_small _ _ _ _ hb]
  refine ⟨done, p', ?_⟩
  rw [G_nil_of_change _ _ (by rw [changesOf_append, changesOf_append, changesOf_single_ne hc]; simp),
    show len - (len - n) = min n len by omega]
  simp

/-- no leading context when the input starts with a change -/
theorem group_leading_change (n : Nat) (c : Op) (rest : List Op) (hc : c.tag ≠ .equal) :
    ∃ s gs, groupDiffOps (c :: rest) n = (c :: s) :: gs := by
  have hL : trimLast n (trimFirst n (c :: rest)) = c :: trimLast n rest := by
    simpa [trimFirst] using trim_split n [] c rest hc
  rw [groupDiffOps_eq, hL, G_small _ _ _ _ (isBig_false_of_ne hc)]
  obtain ⟨s, t, h⟩ := G_of_change n (trimLast n rest) ([] ++ [c])
    (by rw [changesOf_append, changesOf_single_ne hc]; simp)
  exact ⟨s, t, by rw [h]; simp⟩

/-- no trailing context when the input ends with a change -/
theorem group_trailing_change (n : Nat) (c : Op) (pre : List Op) (hc : c.tag ≠ .equal) :
    ∃ gs s, groupDiffOps (pre ++ [c]) n = gs ++ [s ++ [c]] := by
  have hL : trimLast n (trimFirst n (pre ++ [c])) = trimFirst n pre ++ [c] := by
    simpa [trimLast] using trim_split n pre c [] hc
  obtain ⟨done, p', hG, _⟩ := G_prefix n (trimFirst n pre) []
  rw [groupDiffOps_eq, hL, hG, G_small _ _ _ _ (isBig_false_of_ne hc)]
  exact ⟨done, p', by
    rw [G_nil_of_change _ _ (by rw [changesOf_append, changesOf_single_ne hc]; simp)]⟩

/-- leading context, for an alternating list given as a whole -/
theorem group_leading_context_alt (ops : List Op) (n o m len : Nat) (rest : List Op) (hv : AltOps ops)
    (hops : ops = .equal o m len :: rest) (hr : rest ≠ []) :
    ∃ s gs, groupDiffOps ops n =
      (.equal (o + (len - min n len)) (m + (len - min n len)) (min n len) :: s) :: gs := by
  subst hops
  cases rest with
  | nil => exact absurd rfl hr
  | cons c rest =>
    have hc : c.tag ≠ .equal := fun h => hv.2.1 ⟨rfl, h⟩
    obtain ⟨s, gs, h⟩ := group_leading_context n o m len c rest hc
    exact ⟨c :: s, gs, h⟩

/-- trailing context, for an alternating list given as a whole -/
theorem group_trailing_context_alt (ops : List Op) (n o m len : Nat) (pre : List Op) (hv : AltOps ops)
    (hops : ops = pre ++ [.equal o m len]) (hp : pre ≠ []) :
    ∃ gs s, groupDiffOps ops n = gs ++ [s ++ [.equal o m (min n len)]] := by
  subst hops
  rcases eq_nil_or_snoc pre with h | ⟨pre', c, rfl⟩
  · exact absurd h hp
  · have hn : NAE ([c] ++ [.equal o m len]) :=
      NAE_append_right (l := pre') (by simpa using NAE_of_AltOps hv)
    have hc : c.tag ≠ .equal := fun h => hn.1 ⟨h, rfl⟩
    obtain ⟨gs, s, h⟩ := group_trailing_context n o m len c pre' hc
    refine ⟨gs, s ++ [c], ?_⟩
    simpa using h

/-- **Contiguity.** Every group is a contiguous run `mid` of the input ops, in which only the first and the
last op may have been trimmed (to a sub-range of the Equal op they were); all interior ops, in particular
interior Equal runs, are kept whole. -/
theorem group_contiguous (ops : List Op) (n : Nat) (g : List Op) (hg : g ∈ groupDiffOps ops n) :
    ∃ pre mid post, ops = pre ++ mid ++ post ∧ Trimmed mid g := by
  rw [groupDiffOps_eq] at hg
  match ops, hg with
  | [], hg => simp [trimFirst, trimLast, G_nil] at hg
  | [X], hg =>
    obtain ⟨x, hx, hX⟩ := trimFirst_single_piece n X
    rw [hx] at hg
    obtain ⟨t, Z, z, h1, h2, hz⟩ : ∃ t Z z, [x] = t ++ [Z] ∧ trimLast n [x] = t ++ [z] ∧ Piece Z z := by
      rcases trimLast_relT n [x] with ⟨h, _⟩ | h
      · simp at h
      · exact h
    cases t with
    | cons a t => simp at h1
    | nil =>
      simp at h1 h2; subst h1
      rw [h2] at hg
      have hb : isBig n z = false := by
        apply isBig_false_of_small
        exact trimLast_last_small n [x] z (by rw [h2]; rfl)
      rw [G_small _ _ _ _ hb, G_nil] at hg
      have hg : g = [z] := by split at hg <;> simp_all
      subst hg
      exact ⟨[], [X], [], rfl, Or.inl ⟨X, z, rfl, rfl, Piece.trans hX hz⟩⟩
  | X :: Y :: rest, hg =>
    obtain ⟨x, hx, hX⟩ := trimFirst_single_piece n X
    have hL : trimLast n (trimFirst n (X :: Y :: rest)) = x :: trimLast n (Y :: rest) := by
      have : trimFirst n (X :: Y :: rest) = x :: Y :: rest := by
        cases X <;> simp_all [trimFirst]
      rw [this, trimLast]
    have hb : isBig n x = false := by
      apply isBig_false_of_small
      exact trim_head_small n (X :: Y :: rest) x (by rw [hL]; rfl)
    rw [hL, G_small _ _ _ _ hb] at hg
    refine G_contig n _ _ _ [] [X] (Y :: rest) rfl ⟨X, x, [], rfl, rfl, hX⟩ (trimLast_relT n _) ?_ g hg
    intro z hz
    exact isBig_false_of_small (trimLast_last_small n _ z hz)

end SimilarVerif

import SimilarVerif.Model.Common
import SimilarVerif.Spec.Walk
/-! `group_diff_ops` (C12). -/
namespace SimilarVerif
open Spec

/-- the non-Equal ops of a list, in order -/
def changesOf : List Op → List Op
  | [] => []
  | .equal .. :: cs => changesOf cs
  | x :: cs => x :: changesOf cs

/-- ops of an alternating valid list: no two adjacent Equal ops, no empty op -/
def AltOps : List Op → Prop
  | [] => True
  | [x] => ¬ x.isEmpty = true
  | x :: y :: cs => ¬ x.isEmpty = true ∧ ¬ (x.tag = .equal ∧ y.tag = .equal) ∧ AltOps (y :: cs)

/-- every change is kept exactly once, unchanged and in order -/
theorem group_keeps_changes (ops : List Op) (n : Nat) :
    changesOf (groupDiffOps ops n).flatten = changesOf ops := by
  sorry

/-- no group consists of Equal ops only; no changes means no groups -/
theorem group_has_change (ops : List Op) (n : Nat) (g : List Op) (hg : g ∈ groupDiffOps ops n) :
    changesOf g ≠ [] := by
  sorry

theorem group_no_changes (ops : List Op) (n : Nat) (h : changesOf ops = []) : groupDiffOps ops n = [] := by
  sorry

/-- every Equal op inside a group has at most `2n` items, and the first and last op of a group, when
Equal, have at most `n` items -/
theorem group_equal_bounds (ops : List Op) (n : Nat) (hv : AltOps ops) (g : List Op) (hg : g ∈ groupDiffOps ops n) :
    (∀ x ∈ g, x.tag = .equal → x.oLen ≤ 2 * n) ∧
    (∀ x, g.head? = some x → x.tag = .equal → x.oLen ≤ n) ∧
    (∀ x, g.getLast? = some x → x.tag = .equal → x.oLen ≤ n) := by
  sorry

/-- grouping only trims Equal ops: walking the flattened groups' ops consumes, for every group, a
contiguous stretch of both sequences — each group is a valid walk between its own end points -/
theorem group_walk (e : Nat → Nat → Bool) (ops : List Op) (n : Nat) (o0 n0 o1 n1 : Nat)
    (hw : Walk e o0 n0 ops o1 n1) (g : List Op) (hg : g ∈ groupDiffOps ops n) :
    ∃ a b c d, Walk e a b (g.filter fun x => !x.isEmpty) c d ∧ o0 ≤ a ∧ c ≤ o1 ∧ n0 ≤ b ∧ d ≤ n1 := by
  sorry

end SimilarVerif

import SimilarVerif.Lemmas.Udiff
import SimilarVerif.Lemmas.Tokenize
import SimilarVerif.Lemmas.Identify
import SimilarVerif.Lemmas.Capture
/-!
# Property C04: the changes of a text diff reconstruct both texts, and their indices count tokens

For token arrays `old new` and ANY script `ops` that is a `Walk` from `(0,0)` to `(old.size, new.size)`
over a comparison `e` that is `Sound` (only equal tokens compare equal):

1. `old_indices`, `new_indices`, `change_shape`, `equal_change`: index discipline;
2. `old_values`, `new_values`: the values of the non-Insert (non-Delete) changes are the old (new) tokens;
3. `old_bytes`, `new_bytes`: for tokens that are the slices of a tiling, their concatenation is the text;
4. `textDiff_lcs`, `textDiff_myers`, `textDiff_patience`: the hypotheses hold for `textDiffOps`.
-/
namespace SimilarVerif.TextP
open SimilarVerif Spec UdiffP

/-- the value a change carries -/
def value (old new : Array Bytes) (c : Change) : Bytes :=
  if c.fromNew then new[c.idx]?.getD [] else old[c.idx]?.getD []

/-- token `i` of an array (empty when out of range; never the case below) -/
abbrev tokAt (a : Array Bytes) (i : Nat) : Bytes := a[i]?.getD []

/-! ## per-op facts -/

theorem filter_const_true {α} (l : List α) : l.filter (fun _ => true) = l :=
  List.filter_eq_self.2 (fun _ _ => rfl)

theorem filter_const_false {α} (l : List α) : l.filter (fun _ => false) = [] :=
  List.filter_eq_nil_iff.2 (fun _ _ => by simp)

theorem op_old_values (old new : Array Bytes) (x : Op) :
    ((Spec.iterChanges x).filter isOld).map (value old new) =
      (List.range' x.oStart x.oLen).map (tokAt old) := by
  cases x <;> simp [Spec.iterChanges, List.filter_map, List.filter_append, Op.oStart, Op.oLen,
    List.range'_eq_map_range, Function.comp_def, isOld, ctag_bne, value, tokAt, filter_const_true, filter_const_false]

/-- new side of an op that is not Equal -/
theorem op_new_values (old new : Array Bytes) (x : Op) (hx : x.tag ≠ .equal) :
    ((Spec.iterChanges x).filter isNew).map (value old new) =
      (List.range' x.nStart x.nLen).map (tokAt new) := by
  cases x <;> simp [Op.tag] at hx <;>
    simp [Spec.iterChanges, List.filter_map, List.filter_append, Op.nStart, Op.nLen,
      List.range'_eq_map_range, Function.comp_def, isNew, ctag_bne, value, tokAt, filter_const_true, filter_const_false]

/-- new side of an Equal op: it carries the OLD tokens, which equal the new ones -/
theorem op_new_values_equal (old new : Array Bytes) (e : Nat → Nat → Bool) (he : Sound old new e)
    (o n len : Nat) (hg : ∀ t, t < len → e (o + t) (n + t) = true) :
    ((Spec.iterChanges (.equal o n len)).filter isNew).map (value old new) =
      (List.range' n len).map (tokAt new) := by
  simp only [Spec.iterChanges, List.filter_map, List.map_map, List.range'_eq_map_range]
  have hf : (List.range len).filter (isNew ∘ fun t => (⟨.equal, some (o+t), some (n+t), false, o+t⟩ : Change))
      = List.range len := by
    apply List.filter_eq_self.2
    intro t _
    simp [isNew, ctag_bne]
  rw [hf]
  apply List.map_congr_left
  intro t ht
  have := he _ _ (hg t (by simpa using ht))
  simp [value, tokAt, this]

theorem range'_tokAt (a : Array Bytes) : (List.range' 0 a.size).map (tokAt a) = a.toList := by
  apply List.ext_getElem
  · simp
  · intro i h1 h2
    simp at h1
    simp [tokAt, h1]

/-! ## the head of a walk -/

/-- what `Walk` says about its first op, uniformly in the op's kind: the primary indices are the
current position, the rest is a walk from the advanced position, and the op's new-side values are the
new tokens -/
theorem walk_head (old new : Array Bytes) (e : Nat → Nat → Bool) (he : Sound old new e)
    (x : Op) (cs : List Op) (o n o' n' : Nat) (h : Walk e o n (x :: cs) o' n') :
    List.range' x.oStart x.oLen = List.range' o x.oLen ∧
    List.range' x.nStart x.nLen = List.range' n x.nLen ∧
    Walk e (o + x.oLen) (n + x.nLen) cs o' n' ∧
    ((Spec.iterChanges x).filter isNew).map (value old new) = (List.range' n x.nLen).map (tokAt new) := by
  cases x with
  | equal co cn len =>
    obtain ⟨rfl, rfl, _, hg, hw⟩ := h
    exact ⟨rfl, rfl, hw, op_new_values_equal old new e he _ _ _ hg⟩
  | delete co len cn =>
    obtain ⟨rfl, _, hw⟩ := h
    refine ⟨rfl, by simp [Op.nLen], hw, ?_⟩
    rw [op_new_values old new _ (by simp [Op.tag])]; simp [Op.nLen]
  | insert co cn len =>
    obtain ⟨rfl, _, hw⟩ := h
    refine ⟨by simp [Op.oLen], rfl, hw, ?_⟩
    rw [op_new_values old new _ (by simp [Op.tag])]; simp [Op.nStart]
  | replace co ol cn nl =>
    obtain ⟨rfl, rfl, _, _, hw⟩ := h
    refine ⟨rfl, rfl, hw, ?_⟩
    rw [op_new_values old new _ (by simp [Op.tag])]; simp [Op.nStart]

theorem walk_mono {e : Nat → Nat → Bool} {ops : List Op} {o n o' n' : Nat} (h : Walk e o n ops o' n') :
    o ≤ o' ∧ n ≤ n' := by
  have := walk_counts _ _ _ _ _ h; omega

theorem range'_step (a k c : Nat) (h : a + k ≤ c) :
    List.range' a k ++ List.range' (a + k) (c - (a + k)) = List.range' a (c - a) := by
  rw [List.range'_append_1]; congr 1; omega

/-! ## a walk between arbitrary positions -/

/-- the changes of a walk from `(o,n)` to `(o',n')`: their old (new) indices are `o, …, o'-1`
(`n, …, n'-1`) in order, and the values of the non-Insert (non-Delete) ones are those old (new) tokens -/
theorem walk_changes (old new : Array Bytes) (e : Nat → Nat → Bool) (he : Sound old new e) :
    ∀ (ops : List Op) (o n o' n' : Nat), Walk e o n ops o' n' →
    (allChanges ops).filterMap (·.oldIndex) = List.range' o (o' - o) ∧
    (allChanges ops).filterMap (·.newIndex) = List.range' n (n' - n) ∧
    ((allChanges ops).filter isOld).map (value old new) = (List.range' o (o' - o)).map (tokAt old) ∧
    ((allChanges ops).filter isNew).map (value old new) = (List.range' n (n' - n)).map (tokAt new) := by
  intro ops
  simp only [C13.allChanges_eq_spec, Spec.iterAllChanges]
  induction ops with
  | nil => intro o n o' n' h; obtain ⟨rfl, rfl⟩ := h; simp
  | cons x cs ih =>
    intro o n o' n' h
    obtain ⟨h1, h2, hw, h4⟩ := walk_head old new e he x cs o n o' n' h
    obtain ⟨i1, i2, i3, i4⟩ := ih _ _ _ _ hw
    have hm := walk_mono hw
    simp only [List.flatMap_cons, List.filterMap_append, List.filter_append, List.map_append,
      op_old_indices, op_new_indices, op_old_values, h4, h1, h2, i1, i2, i3, i4]
    simp only [← List.map_append, range'_step _ _ _ hm.1, range'_step _ _ _ hm.2]
    exact ⟨trivial, trivial, trivial, trivial⟩

theorem walk_equal_mem {e : Nat → Nat → Bool} : ∀ (ops : List Op) (o n o' n' : Nat), Walk e o n ops o' n' →
    ∀ a b len, Op.equal a b len ∈ ops → ∀ t, t < len → e (a + t) (b + t) = true := by
  intro ops
  induction ops with
  | nil => intro o n o' n' _ a b len hm; simp at hm
  | cons x cs ih =>
    intro o n o' n' h a b len hm
    rcases List.mem_cons.1 hm with rfl | hm'
    · obtain ⟨rfl, rfl, _, hg, _⟩ := h; exact hg
    · cases x with
      | equal co cn l => exact ih _ _ _ _ h.2.2.2.2 a b len hm'
      | delete co l cn => exact ih _ _ _ _ h.2.2 a b len hm'
      | insert co cn l => exact ih _ _ _ _ h.2.2 a b len hm'
      | replace co ol cn nl => exact ih _ _ _ _ h.2.2.2.2 a b len hm'

/-- the index part of `walk_changes` needs no soundness -/
theorem walk_indices (e : Nat → Nat → Bool) (ops : List Op) (o n o' n' : Nat) (h : Walk e o n ops o' n') :
    (allChanges ops).filterMap (·.oldIndex) = List.range' o (o' - o) ∧
    (allChanges ops).filterMap (·.newIndex) = List.range' n (n' - n) := by
  have := walk_changes #[] #[] e (fun i j _ => by simp) ops o n o' n' h
  exact ⟨this.1, this.2.1⟩

/-! ## (1) index discipline -/
section main
variable (old new : Array Bytes) (e : Nat → Nat → Bool) (ops : List Op)

/-- **(1a)** the old indices of the changes count the old tokens `0, 1, …` consecutively -/
theorem old_indices (hw : Walk e 0 0 ops old.size new.size) :
    (allChanges ops).filterMap (·.oldIndex) = List.range old.size := by
  simpa [List.range_eq_range'] using (walk_indices e ops 0 0 _ _ hw).1

/-- **(1b)** the new indices of the changes count the new tokens `0, 1, …` consecutively -/
theorem new_indices (hw : Walk e 0 0 ops old.size new.size) :
    (allChanges ops).filterMap (·.newIndex) = List.range new.size := by
  simpa [List.range_eq_range'] using (walk_indices e ops 0 0 _ _ hw).2

/-- **(1c)** every change has the index shape of its tag and reads its value at its own reported index
of the proper side: Equal and Delete from old, Insert from new (no hypothesis on `ops`) -/
theorem change_shape (c : Change) (hc : c ∈ allChanges ops) :
    (c.tag = .equal → c.oldIndex = some c.idx ∧ c.newIndex.isSome ∧ c.fromNew = false) ∧
    (c.tag = .delete → c.oldIndex = some c.idx ∧ c.newIndex = none ∧ c.fromNew = false) ∧
    (c.tag = .insert → c.oldIndex = none ∧ c.newIndex = some c.idx ∧ c.fromNew = true) :=
  UdiffP.change_shape ops c hc

/-- **(1d)** the indices a change reports are in range, and the value of a change is the token at its
reported index: the old one for Equal/Delete, the new one for Insert; for Equal it is also the new token
at the reported new index -/
theorem change_value (he : Sound old new e) (hw : Walk e 0 0 ops old.size new.size)
    (c : Change) (hc : c ∈ allChanges ops) :
    (∀ i, c.oldIndex = some i → i < old.size ∧ value old new c = old[i]?.getD [] ∧ old[i]? = some (value old new c)) ∧
    (∀ j, c.newIndex = some j → j < new.size ∧ new[j]? = some (value old new c)) := by
  have hob : ∀ i, c.oldIndex = some i → i < old.size := by
    intro i hi
    have : i ∈ (allChanges ops).filterMap (·.oldIndex) := List.mem_filterMap.2 ⟨c, hc, hi⟩
    rw [old_indices old new e ops hw] at this
    simpa using this
  have hnb : ∀ j, c.newIndex = some j → j < new.size := by
    intro j hj
    have : j ∈ (allChanges ops).filterMap (·.newIndex) := List.mem_filterMap.2 ⟨c, hc, hj⟩
    rw [new_indices old new e ops hw] at this
    simpa using this
  have hget : ∀ (a : Array Bytes) (i : Nat), i < a.size → a[i]? = some (a[i]?.getD []) := by
    intro a i h; simp [h]
  rw [C13.allChanges_eq_spec] at hc
  simp only [Spec.iterAllChanges, List.mem_flatMap] at hc
  obtain ⟨x, hx, hcx⟩ := hc
  cases x with
  | equal a b len =>
    simp only [Spec.iterChanges, List.mem_map, List.mem_range] at hcx
    obtain ⟨t, ht, rfl⟩ := hcx
    have hs := he _ _ (walk_equal_mem ops _ _ _ _ hw a b len hx t ht)
    have h1 := hob (a + t) rfl
    have h2 := hnb (b + t) rfl
    refine ⟨?_, ?_⟩
    · intro i hi; cases hi
      exact ⟨h1, by simp [value], by simp [value, h1]⟩
    · intro j hj; cases hj
      refine ⟨h2, ?_⟩
      rw [← hs]; simp [value, h1]
  | delete a len b =>
    simp only [Spec.iterChanges, List.mem_map, List.mem_range] at hcx
    obtain ⟨t, ht, rfl⟩ := hcx
    have h1 := hob (a + t) rfl
    refine ⟨?_, by intro j hj; cases hj⟩
    intro i hi; cases hi
    exact ⟨h1, by simp [value], by simp [value, h1]⟩
  | insert a b len =>
    simp only [Spec.iterChanges, List.mem_map, List.mem_range] at hcx
    obtain ⟨t, ht, rfl⟩ := hcx
    have h2 := hnb (b + t) rfl
    refine ⟨(by intro i hi; cases hi), ?_⟩
    intro j hj; cases hj
    exact ⟨h2, by simp [value, h2]⟩
  | replace a al b bl =>
    simp only [Spec.iterChanges, List.mem_append, List.mem_map, List.mem_range] at hcx
    rcases hcx with ⟨t, ht, rfl⟩ | ⟨t, ht, rfl⟩
    · have h1 := hob (a + t) rfl
      refine ⟨?_, by intro j hj; cases hj⟩
      intro i hi; cases hi
      exact ⟨h1, by simp [value], by simp [value, h1]⟩
    · have h2 := hnb (b + t) rfl
      refine ⟨(by intro i hi; cases hi), ?_⟩
      intro j hj; cases hj
      exact ⟨h2, by simp [value, h2]⟩

/-! ## (2) reconstruction, token level -/

/-- **(2a)** the values of the changes that are not Insert are the old tokens, in order -/
theorem old_values (he : Sound old new e) (hw : Walk e 0 0 ops old.size new.size) :
    ((allChanges ops).filter (·.tag != .insert)).map (value old new) = old.toList := by
  have := (walk_changes old new e he ops 0 0 _ _ hw).2.2.1
  rw [Nat.sub_zero, range'_tokAt] at this
  exact this

/-- **(2b)** the values of the changes that are not Delete are the new tokens, in order (an Equal change
carries the old token, which equals the new one by `Sound`) -/
theorem new_values (he : Sound old new e) (hw : Walk e 0 0 ops old.size new.size) :
    ((allChanges ops).filter (·.tag != .delete)).map (value old new) = new.toList := by
  have := (walk_changes old new e he ops 0 0 _ _ hw).2.2.2
  rw [Nat.sub_zero, range'_tokAt] at this
  exact this

end main

/-! ## (3) reconstruction, byte level -/

/-- **(3a)** tokens that are the slices of tiling ranges: concatenating the values of the non-Insert
changes reproduces the old text exactly -/
theorem old_bytes (bo bn : Bytes) (ro rn : List (Nat × Nat)) (e : Nat → Nat → Bool) (ops : List Op)
    (hto : TokP.Tiling ro bo.length)
    (he : Sound (ro.map (SimilarVerif.slice bo)).toArray (rn.map (SimilarVerif.slice bn)).toArray e)
    (hw : Walk e 0 0 ops (ro.map (SimilarVerif.slice bo)).toArray.size (rn.map (SimilarVerif.slice bn)).toArray.size) :
    (((allChanges ops).filter (·.tag != .insert)).map
      (value (ro.map (SimilarVerif.slice bo)).toArray (rn.map (SimilarVerif.slice bn)).toArray)).flatten = bo := by
  rw [old_values _ _ e ops he hw]
  exact (TokP.tiling_concat hto).1

/-- **(3b)** … and of the non-Delete changes the new text -/
theorem new_bytes (bo bn : Bytes) (ro rn : List (Nat × Nat)) (e : Nat → Nat → Bool) (ops : List Op)
    (htn : TokP.Tiling rn bn.length)
    (he : Sound (ro.map (SimilarVerif.slice bo)).toArray (rn.map (SimilarVerif.slice bn)).toArray e)
    (hw : Walk e 0 0 ops (ro.map (SimilarVerif.slice bo)).toArray.size (rn.map (SimilarVerif.slice bn)).toArray.size) :
    (((allChanges ops).filter (·.tag != .delete)).map
      (value (ro.map (SimilarVerif.slice bo)).toArray (rn.map (SimilarVerif.slice bn)).toArray)).flatten = bn := by
  rw [new_values _ _ e ops he hw]
  exact (TokP.tiling_concat htn).1

/-! ## the bundle -/

/-- C04 for token arrays `old new` and a script `ops` -/
structure Reconstructs (old new : Array Bytes) (ops : List Op) : Prop where
  oldIdx : (allChanges ops).filterMap (·.oldIndex) = List.range old.size
  newIdx : (allChanges ops).filterMap (·.newIndex) = List.range new.size
  shape : ∀ c ∈ allChanges ops,
    (c.tag = .equal → c.oldIndex = some c.idx ∧ c.newIndex.isSome ∧ c.fromNew = false) ∧
    (c.tag = .delete → c.oldIndex = some c.idx ∧ c.newIndex = none ∧ c.fromNew = false) ∧
    (c.tag = .insert → c.oldIndex = none ∧ c.newIndex = some c.idx ∧ c.fromNew = true)
  val : ∀ c ∈ allChanges ops,
    (∀ i, c.oldIndex = some i → i < old.size ∧ value old new c = old[i]?.getD [] ∧ old[i]? = some (value old new c)) ∧
    (∀ j, c.newIndex = some j → j < new.size ∧ new[j]? = some (value old new c))
  oldVals : ((allChanges ops).filter (·.tag != .insert)).map (value old new) = old.toList
  newVals : ((allChanges ops).filter (·.tag != .delete)).map (value old new) = new.toList

/-- **(1)+(2)** for any valid script over a sound comparison -/
theorem reconstructs_of_walk (old new : Array Bytes) (e : Nat → Nat → Bool) (ops : List Op)
    (he : Sound old new e) (hw : Walk e 0 0 ops old.size new.size) : Reconstructs old new ops :=
  ⟨old_indices old new e ops hw, new_indices old new e ops hw, change_shape ops,
   change_value old new e ops he hw, old_values old new e ops he hw, new_values old new e ops he hw⟩

/-- **(3)** from the bundle: for tokens that tile the texts, the concatenations are the texts -/
theorem Reconstructs.bytes {bo bn : Bytes} {ro rn : List (Nat × Nat)} {ops : List Op}
    (h : Reconstructs (ro.map (SimilarVerif.slice bo)).toArray (rn.map (SimilarVerif.slice bn)).toArray ops)
    (hto : TokP.Tiling ro bo.length) (htn : TokP.Tiling rn bn.length) :
    (((allChanges ops).filter (·.tag != .insert)).map
      (value (ro.map (SimilarVerif.slice bo)).toArray (rn.map (SimilarVerif.slice bn)).toArray)).flatten = bo ∧
    (((allChanges ops).filter (·.tag != .delete)).map
      (value (ro.map (SimilarVerif.slice bo)).toArray (rn.map (SimilarVerif.slice bn)).toArray)).flatten = bn := by
  rw [h.oldVals, h.newVals]
  exact ⟨(TokP.tiling_concat hto).1, (TokP.tiling_concat htn).1⟩

/-! ## (4) the model's text diff -/

theorem inBounds_ofTokens (old new : Array Bytes) : InBounds (Env.ofTokens old new) 0 old.size 0 new.size := by
  intro i j _ hi _ hj
  simp [Env.ofTokens, hi, hj]

/-- **(4a)** LCS, unconditionally: whenever the text diff returns, its script is a valid walk over the
(sound) token comparison -/
theorem textDiff_lcs_walk (repair : Bool) (old new : Array Bytes) (w w' : World) (ops : List Op)
    (h : textDiffOps .lcs repair old new w = .ok (ops, w')) :
    Walk (eqB (Env.ofTokens old new)) 0 0 ops old.size new.size := by
  rw [IdentP.textDiffOps_eq_capture] at h
  obtain ⟨_, _, _, _, _, hw, _⟩ := CaptureP.capture_lcs_valid _ repair 0 old.size 0 new.size w
    (Nat.zero_le _) (Nat.zero_le _) (inBounds_ofTokens old new) ops w' h
  exact hw

theorem textDiff_myers_walk (repair : Bool) (old new : Array Bytes) (w w' : World) (ops : List Op)
    (hbox : MyersP.SnakeInBox (Env.ofTokens old new))
    (h : textDiffOps .myers repair old new w = .ok (ops, w')) :
    Walk (eqB (Env.ofTokens old new)) 0 0 ops old.size new.size := by
  rw [IdentP.textDiffOps_eq_capture] at h
  obtain ⟨_, _, _, _, _, _, hw, _⟩ := CaptureP.capture_myers_valid _ hbox repair 0 old.size 0 new.size w
    (Nat.zero_le _) (Nat.zero_le _) (inBounds_ofTokens old new) ops w' h
  exact hw

theorem textDiff_patience_walk (repair : Bool) (old new : Array Bytes) (w w' : World) (ops : List Op)
    (hbox : MyersP.SnakeInBox (Env.ofTokens old new))
    (hboxU : ∀ uo un, unique (Env.ofTokens old new).oo 0 old.size = some uo →
      unique (Env.ofTokens old new).nn 0 new.size = some un →
      MyersP.SnakeInBox ((Env.ofTokens old new).sub uo.toArray un.toArray))
    (h : textDiffOps .patience repair old new w = .ok (ops, w')) :
    Walk (eqB (Env.ofTokens old new)) 0 0 ops old.size new.size := by
  rw [IdentP.textDiffOps_eq_capture] at h
  obtain ⟨_, _, _, _, _, hw, _⟩ := CaptureP.capture_patience_valid _ hbox repair 0 old.size 0 new.size hboxU w
    (Nat.zero_le _) (Nat.zero_le _) (inBounds_ofTokens old new) ops w' h
  exact hw

/-- **C04, token level, LCS (unconditional)** -/
theorem textDiff_lcs (repair : Bool) (old new : Array Bytes) (w w' : World) (ops : List Op)
    (h : textDiffOps .lcs repair old new w = .ok (ops, w')) : Reconstructs old new ops :=
  reconstructs_of_walk old new _ ops (sound_ofTokens old new) (textDiff_lcs_walk repair old new w w' ops h)

/-- **C04, token level, Myers** (relative to `SnakeInBox`) -/
theorem textDiff_myers (repair : Bool) (old new : Array Bytes) (w w' : World) (ops : List Op)
    (hbox : MyersP.SnakeInBox (Env.ofTokens old new))
    (h : textDiffOps .myers repair old new w = .ok (ops, w')) : Reconstructs old new ops :=
  reconstructs_of_walk old new _ ops (sound_ofTokens old new)
    (textDiff_myers_walk repair old new w w' ops hbox h)

/-- **C04, token level, Patience** (relative to `SnakeInBox` of the tokens and of the unique-token
sub-problem) -/
theorem textDiff_patience (repair : Bool) (old new : Array Bytes) (w w' : World) (ops : List Op)
    (hbox : MyersP.SnakeInBox (Env.ofTokens old new))
    (hboxU : ∀ uo un, unique (Env.ofTokens old new).oo 0 old.size = some uo →
      unique (Env.ofTokens old new).nn 0 new.size = some un →
      MyersP.SnakeInBox ((Env.ofTokens old new).sub uo.toArray un.toArray))
    (h : textDiffOps .patience repair old new w = .ok (ops, w')) : Reconstructs old new ops :=
  reconstructs_of_walk old new _ ops (sound_ofTokens old new)
    (textDiff_patience_walk repair old new w w' ops hbox hboxU h)

/-- the tokens of a text for given ranges -/
abbrev tokens (b : Bytes) (r : List (Nat × Nat)) : Array Bytes := (r.map (SimilarVerif.slice b)).toArray

/-- **C04, byte level**: for every algorithm whose script on the tokens of two tilings is a valid walk
(see `textDiff_*_walk`), the index discipline holds and the concatenated values are the two texts -/
theorem textDiff_bytes (alg : Alg) (repair : Bool) (bo bn : Bytes) (ro rn : List (Nat × Nat))
    (hto : TokP.Tiling ro bo.length) (htn : TokP.Tiling rn bn.length) (w w' : World) (ops : List Op)
    (_h : textDiffOps alg repair (tokens bo ro) (tokens bn rn) w = .ok (ops, w'))
    (hw : Walk (eqB (Env.ofTokens (tokens bo ro) (tokens bn rn))) 0 0 ops (tokens bo ro).size (tokens bn rn).size) :
    Reconstructs (tokens bo ro) (tokens bn rn) ops ∧
    (((allChanges ops).filter (·.tag != .insert)).map (value (tokens bo ro) (tokens bn rn))).flatten = bo ∧
    (((allChanges ops).filter (·.tag != .delete)).map (value (tokens bo ro) (tokens bn rn))).flatten = bn :=
  have hr := reconstructs_of_walk _ _ _ ops (sound_ofTokens _ _) hw
  ⟨hr, hr.bytes hto htn⟩

/-- **C04, byte level, LCS (unconditional)**; `ro`, `rn` may be the output of any of the eight
tokenizers (`TokP.tokenize*_tiling`) -/
theorem textDiff_lcs_bytes (repair : Bool) (bo bn : Bytes) (ro rn : List (Nat × Nat))
    (hto : TokP.Tiling ro bo.length) (htn : TokP.Tiling rn bn.length) (w w' : World) (ops : List Op)
    (h : textDiffOps .lcs repair (tokens bo ro) (tokens bn rn) w = .ok (ops, w')) :
    Reconstructs (tokens bo ro) (tokens bn rn) ops ∧
    (((allChanges ops).filter (·.tag != .insert)).map (value (tokens bo ro) (tokens bn rn))).flatten = bo ∧
    (((allChanges ops).filter (·.tag != .delete)).map (value (tokens bo ro) (tokens bn rn))).flatten = bn :=
  textDiff_bytes .lcs repair bo bn ro rn hto htn w w' ops h (textDiff_lcs_walk repair _ _ w w' ops h)

/-- example instance: line diff of two byte strings with LCS -/
theorem textDiff_lcs_linesB (repair : Bool) (bo bn : Bytes) (w w' : World) (ops : List Op)
    (h : textDiffOps .lcs repair (tokens bo (tokenizeLinesB bo)) (tokens bn (tokenizeLinesB bn)) w = .ok (ops, w')) :
    (((allChanges ops).filter (·.tag != .insert)).map
      (value (tokens bo (tokenizeLinesB bo)) (tokens bn (tokenizeLinesB bn)))).flatten = bo ∧
    (((allChanges ops).filter (·.tag != .delete)).map
      (value (tokens bo (tokenizeLinesB bo)) (tokens bn (tokenizeLinesB bn)))).flatten = bn :=
  (textDiff_lcs_bytes repair bo bn _ _ (TokP.tokenizeLinesB_tiling bo) (TokP.tokenizeLinesB_tiling bn) w w' ops h).2

end SimilarVerif.TextP

open SimilarVerif.TextP in
#print axioms reconstructs_of_walk
#print axioms SimilarVerif.TextP.Reconstructs.bytes
#print axioms SimilarVerif.TextP.textDiff_lcs
#print axioms SimilarVerif.TextP.textDiff_myers
#print axioms SimilarVerif.TextP.textDiff_patience
#print axioms SimilarVerif.TextP.textDiff_lcs_bytes
#print axioms SimilarVerif.TextP.textDiff_lcs_linesB
#print axioms SimilarVerif.TextP.old_bytes
#print axioms SimilarVerif.TextP.new_bytes

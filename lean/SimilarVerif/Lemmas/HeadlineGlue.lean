import SimilarVerif.Props.C01
import SimilarVerif.Props.C02
import SimilarVerif.Lemmas.CaptureMinimal
import SimilarVerif.Lemmas.Identify
import SimilarVerif.Model.Close
import SimilarVerif.Lemmas.HookFail
import SimilarVerif.Lemmas.Deadline
/-! # Glue for the headline theorems (Props/Headline/*.lean)

Shared vocabulary and the small lemmas that let one headline statement quantify over all algorithms. -/
namespace SimilarVerif.Headline
open SimilarVerif Spec HookFail

/-- "a pair of in-bounds index ranges": the ranges are not reversed and every element test an algorithm may
perform on them is defined (`new[j] == old[i]` for all three algorithms; the same-side tests `old[i] == old[j]`,
`new[i] == new[j]` that only Patience's `unique` performs).  `none` = the Rust indexing would panic. -/
structure RangesInBounds (E : Env) (os oe ns ne : Nat) : Prop where
  old_le : os ≤ oe
  new_le : ns ≤ ne
  cross : InBounds E os oe ns ne
  oldSide : ∀ i j, os ≤ i → i < oe → os ≤ j → j < oe → (E.oo i j).isSome
  newSide : ∀ i j, ns ≤ i → i < ne → ns ≤ j → j < ne → (E.nn i j).isSome

/-- every algorithm returns on in-bounds ranges, for every clock, with a valid callback stream -/
theorem rawTrace_total_valid (alg : Alg) (E : Env) (os oe ns ne : Nat) (w : World)
    (hr : RangesInBounds E os oe ns ne) :
    ∃ r w', rawTrace alg E os oe ns ne w = .ok (r, w') ∧ ValidRaw E os oe ns ne r.trace := by
  cases alg with
  | myers => exact C01.myers_total_valid E os oe ns ne w hr.old_le hr.new_le hr.cross
  | patience => exact C01.patience_total_valid E os oe ns ne w hr.old_le hr.new_le hr.cross hr.oldSide hr.newSide
  | lcs => exact C01.lcs_total_valid E os oe ns ne w hr.old_le hr.new_le hr.cross

/-- the environment of two label sequences (`EqPattern`: all three element tests are those of a labelling of
the items of the ranges) is in bounds -/
theorem RangesInBounds.of_eqPattern {E : Env} {os oe ns ne : Nat} (ho : os ≤ oe) (hn : ns ≤ ne)
    (h : IdentP.EqPattern E os oe ns ne) : RangesInBounds E os oe ns ne := by
  obtain ⟨lo, ln, P⟩ := h
  refine ⟨ho, hn, ?_, ?_, ?_⟩
  · intro i j h1 h2 h3 h4; rw [P.on i j h1 h2 h3 h4]; rfl
  · intro i j h1 h2 h3 h4; rw [P.oo i j h1 h2 h3 h4]; rfl
  · intro i j h1 h2 h3 h4; rw [P.nn i j h1 h2 h3 h4]; rfl

/-- **`capture_diff_deadline` returns, for every algorithm, clock and setting of the repair switch**, with
a valid alternating script that keeps the item counts of the raw stream -/
theorem captureDiff_total_valid (alg : Alg) (E : Env) (repair : Bool) (os oe ns ne : Nat) (w : World)
    (hr : RangesInBounds E os oe ns ne) :
    ∃ ops w', captureDiff alg E repair os oe ns ne w = .ok (ops, w') ∧ Walk (eqB E) os ns ops oe ne ∧
      Alternating ops := by
  obtain ⟨r, w1, h, hv⟩ := rawTrace_total_valid alg E os oe ns ne w hr
  obtain ⟨raw, ops, w', -, -, -, hc, hw, -, -, -, ha, -⟩ :=
    CaptureMin.capture_total_of_validRaw alg E repair os oe ns ne w r w1 h hv hr.cross
  exact ⟨ops, w', hc, hw, ha⟩

/-! ### inverting a script (old from new) -/

/-- the op with the roles of old and new exchanged -/
def invOp : Op → Op
  | .equal o n l => .equal n o l
  | .delete o l n => .insert n o l
  | .insert o n l => .delete n l o
  | .replace o ol n nl => .replace n nl o ol

/-- a valid script old → new, inverted, is a valid script new → old -/
theorem walk_invert {e : Nat → Nat → Bool} : ∀ (ops : List Op) (o n o' n' : Nat), Walk e o n ops o' n' →
    Walk (fun j i => e i j) n o (ops.map invOp) n' o' := by
  intro ops
  induction ops with
  | nil => intro o n o' n' h; exact ⟨h.2, h.1⟩
  | cons x xs ih =>
    intro o n o' n' h
    cases x with
    | equal a b l =>
      simp only [Walk] at h
      obtain ⟨h1, h2, h3, h4, h5⟩ := h
      simp only [List.map_cons, invOp, Walk]
      exact ⟨h2, h1, h3, h4, ih _ _ _ _ h5⟩
    | delete a l b =>
      simp only [Walk] at h
      obtain ⟨h1, h2, h3⟩ := h
      simp only [List.map_cons, invOp, Walk]
      exact ⟨h1, h2, ih _ _ _ _ h3⟩
    | insert a b l =>
      simp only [Walk] at h
      obtain ⟨h1, h2, h3⟩ := h
      simp only [List.map_cons, invOp, Walk]
      exact ⟨h1, h2, ih _ _ _ _ h3⟩
    | replace a al b bl =>
      simp only [Walk] at h
      obtain ⟨h1, h2, h3, h4, h5⟩ := h
      simp only [List.map_cons, invOp, Walk]
      exact ⟨h2, h1, h4, h3, ih _ _ _ _ h5⟩

/-- `2.0 * a / (a + a)` is `1.0` at every size -/
theorem F32_ratio_self (a : Nat) : F32.ratio a (a + a) = F32.one := by
  unfold F32.ratio
  by_cases h : a = 0
  · subst h; rfl
  · have hp : 0 < F32.natVal a := F32.natVal_pos (by omega)
    rw [if_neg (by omega), show a + a = 2 * a from by omega, F32.natVal_double]
    have := F32.rnd_scale (2 * F32.natVal a) 1 1 (by omega)
    rw [Nat.mul_one] at this
    rw [this]; exact F32.rnd_one

/-- `get_diff_ratio(ops, old_len, new_len)` / `TextDiff::ratio` as `f32` bits, computed as in `diffRatio`
(Model/Close.lean) from the exact pair `ratioPair` -/
def ratioBits (ops : List Op) (oldLen newLen : Nat) : Nat :=
  ratioF ((ratioPair ops oldLen newLen).1 / 2) (ratioPair ops oldLen newLen).2

theorem ratioBits_eq (ops : List Op) (a b : Nat) : ratioBits ops a b = F32.ratio (nEq ops) (a + b) := by
  unfold ratioBits ratioF
  rw [CaptureMin.ratioPair_eq]
  simp

/-! ### the algorithms wrapped in `Compact` -/

/-- delivering calls to the never-failing recording hook records them -/
theorem deliver_recHook : ∀ (cs : List Call) (T : List Call) (w : World),
    deliver recHook cs { trace := T } w = .ok ({ trace := T ++ cs }, w) := by
  intro cs
  induction cs with
  | nil => intro T w; simp [deliver]
  | cons c cs ih =>
    intro T w
    simp only [deliver, Replace.recHook_call]
    rw [ih]; simp

/-- **any algorithm against `Compact<H>`**: the raw stream is buffered (every `replace` expanded), cleaned up at
`finish`, then delivered to `H` followed by `finish` -/
theorem compact_run {τ} (alg : Alg) (E : Env) (repair : Bool) (H : Hook τ) (s0 : τ) (os oe ns ne : Nat) (w : World)
    (raw : List Op) (w1 : World)
    (hraw : rawTrace alg E os oe ns ne w = .ok ({ trace := raw.map Call.op ++ [.finish] }, w1)) :
    diffWith alg E (compactHook E repair H) os oe ns ne ([], s0) w =
      (match cleanupDiffOps E repair (CaptureP.expandReplace raw) w1 with
       | .error e => .error e
       | .ok (ops', w2) =>
         match deliver H (ops'.map Call.op ++ [.finish]) s0 w2 with
         | .error e => .error e
         | .ok (s, w3) => .ok ((ops', s), w3)) := by
  rw [CaptureP.diffWith_fin, CaptureP.compact_buffers alg E repair _ _ os oe ns ne w _ w1 hraw, CaptureP.opsOf_raw,
    CaptureP.fin_ok]
  simp only [compactHook, CaptureP.deliver_snoc]
  cases cleanupDiffOps E repair (CaptureP.expandReplace raw) w1 with
  | error e => rfl
  | ok v =>
    obtain ⟨ops', w2⟩ := v
    dsimp only
    cases deliver H (List.map Call.op ops') s0 w2 with
    | error e => rfl
    | ok v2 =>
      obtain ⟨s2, w3⟩ := v2
      dsimp only
      cases H.call Call.finish s2 w3 with
      | error e => rfl
      | ok v3 => rfl

/-- **`Compact` over the recording hook, and `Compact` over `Replace` over the recording hook** (the stack of
`capture_diff`), any algorithm, any clock: the run returns, and the recording hook has been told a valid script
followed by exactly one `finish` -/
theorem compact_stacks_total (alg : Alg) (E : Env) (repair : Bool) (os oe ns ne : Nat) (w : World)
    (hr : RangesInBounds E os oe ns ne) :
    (∃ ops w', diffWith alg E (compactHook E repair recHook) os oe ns ne ([], {}) w =
        .ok ((ops, { trace := ops.map Call.op ++ [.finish] }), w') ∧ Walk (eqB E) os ns ops oe ne) ∧
    (∃ buf rs out w', diffWith alg E (compactHook E repair (replaceHook recHook)) os oe ns ne ([], ({}, {})) w =
        .ok ((buf, (rs, { trace := out.map Call.op ++ [.finish] })), w') ∧ Walk (eqB E) os ns out oe ne ∧
        Alternating out) := by
  obtain ⟨r, w1, h, hv⟩ := rawTrace_total_valid alg E os oe ns ne w hr
  obtain ⟨raw, ht, hw, hcar⟩ := hv
  have hreta := CaptureP.raw_rec_eta alg E os oe ns ne w r w1 h
  rw [ht] at hreta
  rw [hreta] at h
  obtain ⟨-, -, -, c4⟩ := CaptureP.counts_expand raw
  have hwe := CaptureP.walk_expand _ raw _ _ _ _ hw
  obtain ⟨ops', w2, hcl⟩ := CompactT.cleanup_total E repair (CaptureP.expandReplace raw) os ns oe ne w1 c4 hwe
    (CaptureMin.carOK_expand _ raw _ _ _ _ 0 hw (CompactT.carried_carOK os ns raw hcar)) hr.cross
  obtain ⟨a1, -, -, -, a5, -⟩ := CompactP.cleanup_preserves E repair _ os ns oe ne w1 ops' w2 c4 hwe hcl
  refine ⟨⟨ops', w2, ?_, a1⟩, ?_⟩
  · rw [compact_run alg E repair recHook {} os oe ns ne w raw w1 h, hcl]
    simp only [deliver_recHook, List.nil_append]
  · obtain ⟨out, rs, hro, b1, -, -, -, b5, -⟩ := replace_preserves (eqB E) ops' os ns oe ne w2 a5 a1
    refine ⟨ops', rs, out, w2, ?_, b1, b5⟩
    rw [compact_run alg E repair (replaceHook recHook) ({}, {}) os oe ns ne w raw w1 h, hcl]
    unfold replaceOut at hro
    simp only [hro]

/-! ### the finish protocol behind `Replace` -/

def countFin (T : List Call) : Nat := (T.filter (· == Call.finish)).length

theorem countFin_append (a b : List Call) : countFin (a ++ b) = countFin a + countFin b := by
  simp [countFin, List.filter_append]

theorem countFin_ops (xs : List Op) : countFin (xs.map Call.op) = 0 := by
  induction xs with
  | nil => rfl
  | cons x xs ih => simp only [List.map_cons, countFin, List.filter] at ih ⊢; exact ih

theorem countFin_finish : countFin [Call.finish] = 1 := rfl

/-- the calls `r'` has been told beyond `r` are ops only -/
def OpsOnly (r r' : Rec) : Prop := ∃ xs : List Op, r'.trace = r.trace ++ xs.map Call.op

theorem OpsOnly.refl (r : Rec) : OpsOnly r r := ⟨[], by simp⟩
theorem OpsOnly.trans {a b c : Rec} (h1 : OpsOnly a b) (h2 : OpsOnly b c) : OpsOnly a c := by
  obtain ⟨xs, h1⟩ := h1; obtain ⟨ys, h2⟩ := h2
  exact ⟨xs ++ ys, by rw [h2, h1]; simp⟩

theorem rec_op {x : Op} {r r' : Rec} {w w' : World} (hc : recHook.call (.op x) r w = .ok (r', w')) :
    ∃ xs : List Op, xs ≠ [] ∧ r'.trace = r.trace ++ xs.map Call.op := by
  cases x with
  | replace o ol n nl =>
    simp only [recHook] at hc
    split at hc
    · exact ⟨[_], by simp, by rw [push_ok (push_map_ok hc).1]; rfl⟩
    · split at hc
      · cases hc
      · rename_i r1 hp1
        refine ⟨[.delete o ol n, .insert o n nl], by simp, ?_⟩
        rw [push_ok (push_map_ok hc).1, push_ok hp1]
        exact List.append_assoc _ _ _
  | equal a b l => exact ⟨[_], by simp, by simp only [recHook] at hc; rw [push_ok (push_map_ok hc).1]; rfl⟩
  | delete a b l => exact ⟨[_], by simp, by simp only [recHook] at hc; rw [push_ok (push_map_ok hc).1]; rfl⟩
  | insert a b l => exact ⟨[_], by simp, by simp only [recHook] at hc; rw [push_ok (push_map_ok hc).1]; rfl⟩

theorem rec_op' {x : Op} {r r' : Rec} {w w' : World} (hc : recHook.call (.op x) r w = .ok (r', w')) :
    OpsOnly r r' ∧ w' = w := by
  obtain ⟨xs, -, h⟩ := rec_op hc
  exact ⟨⟨xs, h⟩, DeadlineP.recHook_worldId _ _ _ _ _ hc⟩

theorem rec_fin {r r' : Rec} {w w' : World} (hc : recHook.call .finish r w = .ok (r', w')) :
    r'.trace = r.trace ++ [.finish] ∧ w' = w := by
  refine ⟨?_, DeadlineP.recHook_worldId _ _ _ _ _ hc⟩
  unfold recHook at hc
  dsimp only at hc
  rw [push_ok (push_map_ok hc).1]

theorem flushEq_opsOnly {a a' : RState} {r r' : Rec} {w w' : World}
    (hc : rFlushEq recHook a r w = .ok (a', r', w')) : OpsOnly r r' ∧ w' = w := by
  unfold rFlushEq at hc
  split at hc
  · split at hc
    · cases hc
    · rename_i h1
      cases hc
      exact rec_op' h1
  · cases hc; exact ⟨OpsOnly.refl _, rfl⟩

theorem flushDelIns_opsOnly {a a' : RState} {r r' : Rec} {w w' : World}
    (hc : rFlushDelIns recHook a r w = .ok (a', r', w')) : OpsOnly r r' ∧ w' = w := by
  unfold rFlushDelIns at hc
  split at hc
  all_goals first
    | (cases hc; exact ⟨OpsOnly.refl _, rfl⟩)
    | (split at hc
       · cases hc
       · rename_i h1
         cases hc
         exact rec_op' h1)

theorem replace_op_opsOnly {x : Op} {a a' : RState} {r r' : Rec} {w w' : World}
    (hc : (replaceHook recHook).call (.op x) (a, r) w = .ok ((a', r'), w')) : OpsOnly r r' ∧ w' = w := by
  cases x with
  | equal o n l =>
    simp only [replaceHook] at hc
    split at hc
    · cases hc
    · rename_i h1
      have := flushDelIns_opsOnly h1
      split at hc <;> (cases hc; exact this)
  | delete o l n =>
    simp only [replaceHook] at hc
    split at hc
    · cases hc
    · rename_i h1
      have := flushEq_opsOnly h1
      split at hc
      · split at hc
        · cases hc; exact this
        · cases hc
      · cases hc; exact this
  | insert o n l =>
    simp only [replaceHook] at hc
    split at hc
    · cases hc
    · rename_i h1
      have := flushEq_opsOnly h1
      split at hc
      · split at hc
        · cases hc; exact this
        · cases hc
      · cases hc; exact this
  | replace o ol n nl =>
    simp only [replaceHook] at hc
    split at hc
    · cases hc
    · rename_i h1
      have h1' := flushEq_opsOnly h1
      split at hc
      · cases hc
      · rename_i h2
        cases hc
        have h2' := rec_op' h2
        exact ⟨h1'.1.trans h2'.1, by rw [h2'.2, h1'.2]⟩

theorem replace_fin {a a' : RState} {r r' : Rec} {w w' : World}
    (hc : (replaceHook recHook).call .finish (a, r) w = .ok ((a', r'), w')) :
    (∃ xs : List Op, r'.trace = r.trace ++ xs.map Call.op ++ [.finish]) ∧ w' = w := by
  simp only [replaceHook] at hc
  split at hc
  · cases hc
  · rename_i h1
    split at hc
    · cases hc
    · rename_i h2
      split at hc
      · cases hc
      · rename_i h3
        cases hc
        have e1 := flushEq_opsOnly h1
        have e2 := flushDelIns_opsOnly h2
        have e3 := rec_fin h3
        obtain ⟨xs, hx⟩ := e1.1.trans e2.1
        exact ⟨⟨xs, by rw [e3.1, hx]⟩, by rw [e3.2, e2.2, e1.2]⟩

/-- relation between what the recording hook alone and the recording hook behind `Replace` have been told:
the same number of `finish` calls, and `finish` last on the left means `finish` last on the right -/
def FinRel (r : Rec) (t : RState × Rec) : Prop :=
  countFin t.2.trace = countFin r.trace ∧ (r.trace.getLast? = some .finish → t.2.trace.getLast? = some .finish)

theorem getLast_ops_ne {T : List Call} {xs : List Op} (h : xs ≠ []) :
    (T ++ xs.map Call.op).getLast? ≠ some .finish := by
  obtain ⟨y, hy⟩ : ∃ y, xs.getLast? = some y := by
    cases h' : xs.getLast? with
    | none => exact absurd (List.getLast?_eq_none_iff.1 h') h
    | some y => exact ⟨y, rfl⟩
  simp [List.getLast?_append, List.getLast?_map, hy]

theorem finRel_sim : Sim recHook (replaceHook recHook) FinRel (fun _ _ => True) := by
  refine ⟨fun _ _ _ _ _ _ _ _ => trivial, ?_⟩
  intro c r t w r' w' hR hc
  obtain ⟨a, r2⟩ := t
  cases hg : (replaceHook recHook).call c (a, r2) w with
  | error e => exact Out.err trivial
  | ok v =>
    obtain ⟨⟨a', r2'⟩, w2⟩ := v
    have hw : w' = w := DeadlineP.recHook_worldId _ _ _ _ _ hc
    subst hw
    cases c with
    | op x =>
      obtain ⟨xs, hne, hx⟩ := rec_op hc
      obtain ⟨⟨ys, hy⟩, hw2⟩ := replace_op_opsOnly hg
      subst hw2
      refine Out.ok ⟨?_, ?_⟩
      · simp only [hx, hy, countFin_append, countFin_ops]; exact hR.1
      · intro hl; rw [hx] at hl; exact absurd hl (getLast_ops_ne hne)
    | finish =>
      obtain ⟨⟨ys, hy⟩, hw2⟩ := replace_fin hg
      subst hw2
      refine Out.ok ⟨?_, ?_⟩
      · simp only [(rec_fin hc).1, hy, countFin_append, countFin_ops, countFin_finish]; have h1 : countFin r2.trace = countFin r.trace := hR.1; omega
      · intro _; rw [hy]; simp

/-- **any algorithm against `Replace` over the recording hook, on success**: if the plain run recorded a stream
that ends with its only `finish`, so does the recording hook behind `Replace` -/
theorem replace_stack_finish (alg : Alg) (E : Env) (os oe ns ne : Nat) (w : World) (r : Rec) (w1 : World)
    (hraw : rawTrace alg E os oe ns ne w = .ok (r, w1))
    (hf : r.trace.getLast? = some .finish ∧ (r.trace.filter (· == .finish)).length = 1)
    (a : RState) (r2 : Rec) (w' : World)
    (hrun : diffWith alg E (replaceHook recHook) os oe ns ne ({}, {}) w = .ok ((a, r2), w')) :
    r2.trace.getLast? = some .finish ∧ (r2.trace.filter (· == .finish)).length = 1 := by
  have hO := diffWith_sim finRel_sim (s := ({} : Rec)) (t := (({}, {}) : RState × Rec)) ⟨rfl, fun h => h⟩ hraw
  rcases hO with ⟨t', hk, hR⟩ | ⟨e, hk, -⟩
  · rw [hrun] at hk
    cases hk
    exact ⟨hR.2 hf.1, by have := hR.1; unfold countFin at this; rw [this]; exact hf.2⟩
  · rw [hrun] at hk; cases hk

/-! ### feeding a script to `Compact` -/

theorem deliver_compact_ops {τ} (E : Env) (repair : Bool) (H : Hook τ) (s0 : τ) (w : World) :
    ∀ (ops : List Op), NoReplaceOp ops → ∀ (buf : List Op),
      deliver (compactHook E repair H) (ops.map Call.op) (buf, s0) w = .ok ((buf ++ ops, s0), w) := by
  intro ops
  induction ops with
  | nil => intro _ buf; simp [deliver]
  | cons x xs ih =>
    intro hnr buf
    cases x with
    | replace a b c d => exact hnr.elim
    | equal a b c =>
      have hcall : (compactHook E repair H).call (.op (.equal a b c)) (buf, s0) w = .ok ((buf ++ [.equal a b c], s0), w) := rfl
      simp only [List.map_cons, deliver, hcall]
      rw [ih hnr]; simp
    | delete a b c =>
      have hcall : (compactHook E repair H).call (.op (.delete a b c)) (buf, s0) w = .ok ((buf ++ [.delete a b c], s0), w) := rfl
      simp only [List.map_cons, deliver, hcall]
      rw [ih hnr]; simp
    | insert a b c =>
      have hcall : (compactHook E repair H).call (.op (.insert a b c)) (buf, s0) w = .ok ((buf ++ [.insert a b c], s0), w) := rfl
      simp only [List.map_cons, deliver, hcall]
      rw [ih hnr]; simp

/-- **feeding a `replace`-free script and `finish` to `Compact<H>`**: clean-up, then delivery to `H` -/
theorem compact_deliver {τ} (E : Env) (repair : Bool) (H : Hook τ) (s0 : τ) (w : World) (ops : List Op)
    (hnr : NoReplaceOp ops) :
    deliver (compactHook E repair H) (ops.map Call.op ++ [.finish]) ([], s0) w =
      (match cleanupDiffOps E repair ops w with
       | .error e => .error e
       | .ok (ops', w2) =>
         match deliver H (ops'.map Call.op ++ [.finish]) s0 w2 with
         | .error e => .error e
         | .ok (s, w3) => .ok ((ops', s), w3)) := by
  rw [CaptureP.deliver_snoc, deliver_compact_ops E repair H s0 w ops hnr []]
  simp only [List.nil_append, compactHook, CaptureP.deliver_snoc]
  cases cleanupDiffOps E repair ops w with
  | error e => rfl
  | ok v =>
    obtain ⟨ops', w2⟩ := v
    dsimp only
    cases deliver H (List.map Call.op ops') s0 w2 with
    | error e => rfl
    | ok v2 =>
      obtain ⟨s2, w3⟩ := v2
      dsimp only
      cases H.call Call.finish s2 w3 with
      | error e => rfl
      | ok v3 => rfl

/-! ### LCS never calls `replace` -/

/-- a hook that rejects `replace` calls and forwards everything else -/
def guardReplace {σ} (h : Hook σ) : Hook σ where
  call c s w := match c with
    | .op (.replace _ _ _ _) => .error .panic
    | c => h.call c s w

section Guard
variable {σ : Type} (h : Hook σ)

theorem guard_equal (a b c : Nat) (s : σ) (w : World) :
    (guardReplace h).call (.op (.equal a b c)) s w = h.call (.op (.equal a b c)) s w := rfl
theorem guard_delete (a b c : Nat) (s : σ) (w : World) :
    (guardReplace h).call (.op (.delete a b c)) s w = h.call (.op (.delete a b c)) s w := rfl
theorem guard_insert (a b c : Nat) (s : σ) (w : World) :
    (guardReplace h).call (.op (.insert a b c)) s w = h.call (.op (.insert a b c)) s w := rfl
theorem guard_finish (s : σ) (w : World) :
    (guardReplace h).call .finish s w = h.call .finish s w := rfl

theorem lcsWalk_guard (E : Env) (t : Table) (o0 n0 ol nl : Nat) : ∀ fuel oi ni s w,
    lcsWalk E (guardReplace h) t o0 n0 ol nl fuel oi ni s w = lcsWalk E h t o0 n0 ol nl fuel oi ni s w := by
  intro fuel
  induction fuel with
  | zero => intros; rfl
  | succ fuel ih =>
    intro oi ni s w
    simp only [lcsWalk, emit, guard_equal, guard_delete, guard_insert, ih]

/-- LCS never calls `replace`: guarding the hook changes nothing -/
theorem lcsDiff_guard (E : Env) (os oe ns ne : Nat) (s : σ) (w : World) :
    lcsDiff E (guardReplace h) os oe ns ne s w = lcsDiff E h os oe ns ne s w := by
  simp only [lcsDiff, lcsWalk_guard, emit, guard_equal, guard_delete, guard_insert, guard_finish]

end Guard

theorem lcsDiff_pres {σ} {h : Hook σ} {F : σ → Prop} (hp : Pres h F) {E : Env} {os oe ns ne s w s' w'}
    (hc : lcsDiff E h os oe ns ne s w = .ok (s', w')) : F s → F s' := by
  intro hF
  unfold lcsDiff at hc
  destruct_run
  all_goals pres_chain

theorem guard_rec_pres : Pres (guardReplace recHook) (fun r : Rec => NoReplaceOp (opsOf r.trace)) := by
  intro c r w r' w' hc hF
  have step : ∀ x : Op, NoReplaceOp [x] → recHook.call (.op x) r w = .ok (r', w') → NoReplaceOp (opsOf r'.trace) := by
    intro x hx hc
    cases x with
    | replace a b c d => exact hx.elim
    | equal a b c =>
      simp only [recHook] at hc
      rw [push_ok (push_map_ok hc).1]
      simp only [CaptureP.opsOf_append, opsOf]
      exact MyersG.noReplaceOp_append _ _ hF hx
    | delete a b c =>
      simp only [recHook] at hc
      rw [push_ok (push_map_ok hc).1]
      simp only [CaptureP.opsOf_append, opsOf]
      exact MyersG.noReplaceOp_append _ _ hF hx
    | insert a b c =>
      simp only [recHook] at hc
      rw [push_ok (push_map_ok hc).1]
      simp only [CaptureP.opsOf_append, opsOf]
      exact MyersG.noReplaceOp_append _ _ hF hx
  cases c with
  | finish =>
    rw [guard_finish] at hc
    rw [(rec_fin hc).1]
    simp only [CaptureP.opsOf_append, opsOf, List.append_nil]
    exact hF
  | op x =>
    cases x with
    | replace a b c d => simp [guardReplace] at hc
    | equal a b c => exact step (.equal a b c) trivial hc
    | delete a b c => exact step (.delete a b c) trivial hc
    | insert a b c => exact step (.insert a b c) trivial hc

/-- **the raw LCS stream contains no `replace` call** (every clock, every input) -/
theorem lcs_raw_noReplace (E : Env) (os oe ns ne : Nat) (w : World) (raw : List Op) (w' : World)
    (h : rawTrace .lcs E os oe ns ne w = .ok ({ trace := raw.map Call.op ++ [.finish] }, w')) : NoReplaceOp raw := by
  have h1 : lcsDiff E (guardReplace recHook) os oe ns ne {} w = .ok ({ trace := raw.map Call.op ++ [.finish] }, w') := by
    rw [lcsDiff_guard]; simpa [rawTrace, diffWith] using h
  have := lcsDiff_pres guard_rec_pres h1 (by simp [opsOf, NoReplaceOp])
  simpa [CaptureP.opsOf_raw] using this

/-- **exact positions end to end (repaired swap)**: LCS under every clock, Myers without a deadline — `capture_diff`
returns a valid, alternating script in which every op carries exact positions -/
theorem capture_exact_repaired_total (alg : Alg) (E : Env) (os oe ns ne : Nat) (w : World)
    (halg : alg = .lcs ∨ (alg = .myers ∧ w.clock = none))
    (ho : os ≤ oe) (hn : ns ≤ ne) (hb : InBounds E os oe ns ne) :
    ∃ ops w', captureDiff alg E true os oe ns ne w = .ok (ops, w') ∧ Walk (eqB E) os ns ops oe ne ∧
      Exact os ns ops ∧ Alternating ops := by
  rcases halg with rfl | ⟨rfl, hclk⟩
  · obtain ⟨raw, w1, h, hw, hx⟩ := C01.lcs_exact E os oe ns ne w ho hn hb
    have hnr := lcs_raw_noReplace E os oe ns ne w raw w1 h
    obtain ⟨ops, w', hc, h1, -, -, -, h5, -, h7⟩ :=
      CaptureMin.capture_total_gen .lcs E true os oe ns ne w raw w1 h hw (LcsP.exact_carried _ raw os ns oe ne hw hx) hb
    exact ⟨ops, w', hc, h1, h7 rfl hnr hx, h5⟩
  · obtain ⟨ops, w', hc, h1, -, -, -, -, h5, h6⟩ := CaptureMin.capture_myers_minimal E true os oe ns ne w ho hn hb hclk
    exact ⟨ops, w', hc, h1, h6 rfl, h5⟩

end SimilarVerif.Headline

#print axioms SimilarVerif.Headline.rawTrace_total_valid
#print axioms SimilarVerif.Headline.captureDiff_total_valid
#print axioms SimilarVerif.Headline.walk_invert
#print axioms SimilarVerif.Headline.F32_ratio_self
#print axioms SimilarVerif.Headline.compact_stacks_total
#print axioms SimilarVerif.Headline.replace_stack_finish
#print axioms SimilarVerif.Headline.compact_deliver
#print axioms SimilarVerif.Headline.lcs_raw_noReplace
#print axioms SimilarVerif.Headline.capture_exact_repaired_total

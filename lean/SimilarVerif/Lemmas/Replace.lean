import SimilarVerif.Model.Replace
import SimilarVerif.Spec.Walk
/-! The `Replace` adapter over the recording hook preserves validity, item counts and exactness of
any valid script, and its output alternates equal / non-equal ops (C10, C09 clauses 1–3). -/
namespace SimilarVerif
open Spec

/-- no `replace` call in the input (what the algorithms and `Compact` emit) -/
def NoReplaceOp : List Op → Prop
  | [] => True
  | .replace .. :: _ => False
  | _ :: cs => NoReplaceOp cs

/-- Equal and non-Equal ops strictly alternate (hence no Delete is adjacent to an Insert) -/
def Alternating : List Op → Prop
  | [] => True
  | [_] => True
  | x :: y :: cs => ((x.tag = .equal) ≠ (y.tag = .equal)) ∧ Alternating (y :: cs)

/-- feed `ops` then `finish` through `Replace::new(recording hook)` -/
def replaceOut (ops : List Op) (w : World) : Res ((RState × Rec) × World) :=
  deliver (replaceHook recHook) (ops.map Call.op ++ [.finish]) ({}, {}) w

theorem replace_preserves (e : Nat → Nat → Bool) (ops : List Op) (o n o' n' : Nat) (w : World)
    (hnr : NoReplaceOp ops) (hw : Walk e o n ops o' n') :
    ∃ out rs, replaceOut ops w = .ok ((rs, { trace := out.map Call.op ++ [.finish] }), w) ∧
      Walk e o n out o' n' ∧ nDel out = nDel ops ∧ nIns out = nIns ops ∧ nEq out = nEq ops ∧
      Alternating out ∧ (Exact o n ops → Exact o n out) := by
  sorry

end SimilarVerif

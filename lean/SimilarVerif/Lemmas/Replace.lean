import SimilarVerif.Model.Replace
import SimilarVerif.Spec.Walk
/-! The `Replace` adapter over the recording hook preserves validity, item counts and exactness of
any valid script, and its output alternates equal / non-equal ops (C10, C09 clauses 1–3). -/
namespace SimilarVerif
open Spec

/-- no `replace` call in the input (what the algorithms and `Compact` emit) -/
def NoReplaceOp : List Op → Prop
  | [] => True
  | .replace .. :: _ => False
  | _ :: cs => NoReplaceOp cs

/-- Equal and non-Equal ops strictly alternate (hence no Delete is adjacent to an Insert) -/
def Alternating : List Op → Prop
  | [] => True
  | [_] => True
  | x :: y :: cs => ((x.tag = .equal) ≠ (y.tag = .equal)) ∧ Alternating (y :: cs)

/-- feed `ops` then `finish` through `Replace::new(recording hook)` -/
def replaceOut (ops : List Op) (w : World) : Res ((RState × Rec) × World) :=
  deliver (replaceHook recHook) (ops.map Call.op ++ [.finish]) ({}, {}) w

/-! Helper lemmas live in the sub-namespace `SimilarVerif.Replace` to avoid clashes with other lemma files. -/
namespace Replace

/-! ### the recording hook -/

theorem recHook_call (c : Call) (t : List Call) (w : World) :
    recHook.call c { trace := t } w = .ok ({ trace := t ++ [c] }, w) := by
  cases c with
  | finish => simp [recHook, Rec.push, Except.map]
  | op x => cases x <;> simp [recHook, Rec.push, Except.map]

/-! ### append lemmas -/

theorem walk_append (e : Nat → Nat → Bool) : ∀ (a b : List Op) (o n o2 n2 : Nat),
    Walk e o n (a ++ b) o2 n2 ↔ ∃ o1 n1, Walk e o n a o1 n1 ∧ Walk e o1 n1 b o2 n2 := by
  intro a
  induction a with
  | nil =>
    intro b o n o2 n2
    simp only [Walk, List.nil_append]
    constructor
    · intro h; exact ⟨o, n, ⟨rfl, rfl⟩, h⟩
    · rintro ⟨o1, n1, ⟨rfl, rfl⟩, h⟩; exact h
  | cons c cs ih =>
    intro b o n o2 n2
    cases c <;> simp only [Walk, List.cons_append, ih] <;> grind

theorem exact_append (e : Nat → Nat → Bool) : ∀ (a b : List Op) (o n o1 n1 : Nat),
    Walk e o n a o1 n1 → (Exact o n (a ++ b) ↔ Exact o n a ∧ Exact o1 n1 b) := by
  intro a
  induction a with
  | nil => intro b o n o1 n1 h; simp [Walk] at h; simp [Exact, h]
  | cons c cs ih =>
    intro b o n o1 n1 h
    cases c <;> simp only [Walk] at h <;>
      simp only [Exact, List.cons_append, Op.oStart, Op.nStart, Op.oLen, Op.nLen, Nat.add_zero] <;>
      grind

theorem nDel_append : ∀ (a b : List Op), nDel (a ++ b) = nDel a + nDel b := by
  intro a b
  induction a with
  | nil => simp [nDel]
  | cons c cs ih => cases c <;> simp [nDel, ih] <;> omega

theorem nIns_append : ∀ (a b : List Op), nIns (a ++ b) = nIns a + nIns b := by
  intro a b
  induction a with
  | nil => simp [nIns]
  | cons c cs ih => cases c <;> simp [nIns, ih] <;> omega

theorem nEq_append : ∀ (a b : List Op), nEq (a ++ b) = nEq a + nEq b := by
  intro a b
  induction a with
  | nil => simp [nEq]
  | cons c cs ih => cases c <;> simp [nEq, ih] <;> omega

theorem alt_snoc_congr (x y : Op) (hxy : x.tag = .equal ↔ y.tag = .equal) :
    ∀ l : List Op, Alternating (l ++ [x]) → Alternating (l ++ [y]) := by
  intro l
  induction l with
  | nil => intro _; simp [Alternating]
  | cons a l ih =>
    cases l with
    | nil => simp only [List.cons_append, List.nil_append, Alternating]; grind
    | cons b l =>
      simp only [List.cons_append, Alternating] at ih ⊢
      exact fun h => ⟨h.1, ih h.2⟩

theorem alt_snoc_snoc (x y : Op) (hxy : (x.tag = .equal) ≠ (y.tag = .equal)) :
    ∀ l : List Op, Alternating (l ++ [x]) → Alternating (l ++ [x, y]) := by
  intro l
  induction l with
  | nil => intro _; simp only [List.nil_append, Alternating]; exact ⟨hxy, trivial⟩
  | cons a l ih =>
    cases l with
    | nil =>
      simp only [List.cons_append, List.nil_append, Alternating]
      exact fun h => ⟨h.1, hxy, trivial⟩
    | cons b l =>
      simp only [List.cons_append, Alternating] at ih ⊢
      exact fun h => ⟨h.1, ih h.2⟩


/-! ### the invariant -/

/-- `S` is a valid, alternating script from `(o,n)` to `(oc,nc)` with the given item counts, exact if `ex` -/
def Good (e : Nat → Nat → Bool) (o n : Nat) (ex : Prop) (S : List Op) (oc nc d i q : Nat) : Prop :=
  Walk e o n S oc nc ∧ Alternating S ∧ (ex → Exact o n S) ∧ nDel S = d ∧ nIns S = i ∧ nEq S = q

theorem good_nil (e : Nat → Nat → Bool) (o n : Nat) (ex : Prop) : Good e o n ex [] o n 0 0 0 :=
  ⟨⟨rfl, rfl⟩, trivial, fun _ => trivial, rfl, rfl, rfl⟩

theorem good_single {e o n ex c oc nc d i q} (hw : Walk e o n [c] oc nc) (hx : ex → Exact o n [c])
    (hd : d = nDel [c]) (hi : i = nIns [c]) (hq : q = nEq [c]) :
    Good e o n ex ([] ++ [c]) oc nc d i q :=
  ⟨hw, by simp [Alternating], hx, hd.symm, hi.symm, hq.symm⟩

theorem good_last {e o n ex out p oc nc d i q} (h : Good e o n ex (out ++ [p]) oc nc d i q) :
    ∃ o1 n1, Walk e o1 n1 [p] oc nc := by
  obtain ⟨o1, n1, _, hb⟩ := (walk_append e _ _ _ _ _ _).1 h.1
  exact ⟨o1, n1, hb⟩

theorem good_add {e o n ex out p c oc nc d i q oc2 nc2 d' i' q'}
    (h : Good e o n ex (out ++ [p]) oc nc d i q)
    (ht : (p.tag = .equal) ≠ (c.tag = .equal))
    (hw : Walk e oc nc [c] oc2 nc2) (hx : ex → Exact oc nc [c])
    (hd : d' = d + nDel [c]) (hi : i' = i + nIns [c]) (hq : q' = q + nEq [c]) :
    Good e o n ex ((out ++ [p]) ++ [c]) oc2 nc2 d' i' q' := by
  obtain ⟨h1, h2, h3, h4, h5, h6⟩ := h
  refine ⟨(walk_append e _ _ _ _ _ _).2 ⟨_, _, h1, hw⟩, ?_, ?_, ?_, ?_, ?_⟩
  · rw [List.append_assoc]; exact alt_snoc_snoc p c ht out h2
  · intro hex; exact (exact_append e _ _ _ _ _ _ h1).2 ⟨h3 hex, hx hex⟩
  · rw [nDel_append, h4, hd]
  · rw [nIns_append, h5, hi]
  · rw [nEq_append, h6, hq]

theorem good_repl {e o n ex out p p' oc nc d i q oc2 nc2 d' i' q'}
    (h : Good e o n ex (out ++ [p]) oc nc d i q)
    (ht : p.tag = .equal ↔ p'.tag = .equal)
    (hw : ∀ o1 n1, Walk e o1 n1 [p] oc nc → Walk e o1 n1 [p'] oc2 nc2)
    (hx : ex → ∀ o1 n1, Walk e o1 n1 [p] oc nc → Exact o1 n1 [p] → Exact o1 n1 [p'])
    (hd : nDel [p'] + d = nDel [p] + d') (hi : nIns [p'] + i = nIns [p] + i')
    (hq : nEq [p'] + q = nEq [p] + q') :
    Good e o n ex (out ++ [p']) oc2 nc2 d' i' q' := by
  obtain ⟨h1, h2, h3, h4, h5, h6⟩ := h
  obtain ⟨o1, n1, ha, hb⟩ := (walk_append e _ _ _ _ _ _).1 h1
  refine ⟨(walk_append e _ _ _ _ _ _).2 ⟨_, _, ha, hw _ _ hb⟩, alt_snoc_congr p p' ht out h2, ?_, ?_, ?_, ?_⟩
  · intro hex
    have := (exact_append e _ _ _ _ _ _ ha).1 (h3 hex)
    exact (exact_append e _ _ _ _ _ _ ha).2 ⟨this.1, hx hex _ _ hb this.2⟩
  · rw [nDel_append] at h4 ⊢; omega
  · rw [nIns_append] at h5 ⊢; omega
  · rw [nEq_append] at h6 ⊢; omega

inductive RInv (e : Nat → Nat → Bool) (o n : Nat) (ex : Prop) :
    RState → List Op → Nat → Nat → Nat → Nat → Nat → Prop
  | init : RInv e o n ex {} [] o n 0 0 0
  | eq {out a b c oc nc d i q} : Good e o n ex (out ++ [.equal a b c]) oc nc d i q →
      RInv e o n ex { eq := some (a, b, c) } out oc nc d i q
  | del {out a b c oc nc d i q} : Good e o n ex (out ++ [.delete a b c]) oc nc d i q →
      RInv e o n ex { del := some (a, b, c) } out oc nc d i q
  | ins {out a b c oc nc d i q} : Good e o n ex (out ++ [.insert a b c]) oc nc d i q →
      RInv e o n ex { ins := some (a, b, c) } out oc nc d i q
  | both {out a b x y c l oc nc d i q} : Good e o n ex (out ++ [.replace a b c l]) oc nc d i q →
      RInv e o n ex { del := some (a, b, x), ins := some (y, c, l) } out oc nc d i q

theorem eq_merge {e : Nat → Nat → Bool} {o n a b : Nat} (h1 : ∀ t, t < a → e (o+t) (n+t) = true)
    (h2 : ∀ t, t < b → e (o+a+t) (n+a+t) = true) : ∀ t, t < a + b → e (o+t) (n+t) = true := by
  intro t ht
  by_cases hta : t < a
  · exact h1 t hta
  · have := h2 (t - a) (by omega)
    have e1 : o + a + (t - a) = o + t := by omega
    have e2 : n + a + (t - a) = n + t := by omega
    rwa [e1, e2] at this

local macro "cnt" : tactic => `(tactic| (simp only [nDel, nIns, nEq] <;> omega))
local macro "tg" : tactic => `(tactic| simp [Op.tag])
local macro "run" : tactic => `(tactic| simp [replaceHook, rFlushEq, rFlushDelIns, recHook_call])
local macro "wk" : tactic =>
  `(tactic| (intro o1 n1 h; simp only [Walk] at *; refine ⟨?_, ?_⟩ <;> omega))
local macro "xk" : tactic =>
  `(tactic| (intro hex o1 n1 h1 h2
             simp only [Walk, Exact, Op.oStart, Op.nStart, and_true] at *
             omega))

theorem step_equal {e o n ex r out oc nc d i q a b l oc2 nc2} (w : World)
    (h : RInv e o n ex r out oc nc d i q) (hw : Walk e oc nc [.equal a b l] oc2 nc2) :
    ∃ out2 r2, (replaceHook recHook).call (.op (.equal a b l)) (r, { trace := out.map Call.op }) w
        = .ok ((r2, { trace := out2.map Call.op }), w) ∧ RInv e o n ex r2 out2 oc2 nc2 d i (q + l) := by
  have hx : ex → Exact oc nc [.equal a b l] := by
    intro _; simp only [Walk] at hw; simp [Exact, Op.oStart, Op.nStart, hw]
  cases h with
  | init => exact ⟨[], { eq := some (a, b, l) }, by run, .eq (good_single hw hx (by cnt) (by cnt) (by cnt))⟩
  | eq hg =>
    rename_i a0 b0 l0
    refine ⟨out, { eq := some (a0, b0, l0 + l) }, by run,
      .eq (good_repl hg (by tg) ?_ ?_ (by cnt) (by cnt) (by cnt))⟩
    · intro o1 n1 h
      simp only [Walk] at h hw ⊢
      obtain ⟨rfl, rfl, hl0, he0, rfl, rfl⟩ := h
      obtain ⟨rfl, rfl, hl, he, rfl, rfl⟩ := hw
      exact ⟨rfl, rfl, by omega, eq_merge he0 he, by omega, by omega⟩
    · intro _ o1 n1 _ h2
      simpa [Exact, Op.oStart, Op.nStart] using h2
  | del hg => exact ⟨_, { eq := some (a, b, l) }, by run, .eq (good_add hg (by tg) hw hx (by cnt) (by cnt) (by cnt))⟩
  | ins hg => exact ⟨_, { eq := some (a, b, l) }, by run, .eq (good_add hg (by tg) hw hx (by cnt) (by cnt) (by cnt))⟩
  | both hg => exact ⟨_, { eq := some (a, b, l) }, by run, .eq (good_add hg (by tg) hw hx (by cnt) (by cnt) (by cnt))⟩


theorem step_delete {e o n ex r out oc nc d i q a l x oc2 nc2} (w : World)
    (h : RInv e o n ex r out oc nc d i q) (hw : Walk e oc nc [.delete a l x] oc2 nc2)
    (hx : ex → Exact oc nc [.delete a l x]) :
    ∃ out2 r2, (replaceHook recHook).call (.op (.delete a l x)) (r, { trace := out.map Call.op }) w
        = .ok ((r2, { trace := out2.map Call.op }), w) ∧ RInv e o n ex r2 out2 oc2 nc2 (d + l) i q := by
  cases h with
  | init => exact ⟨[], { del := some (a, l, x) }, by run, .del (good_single hw hx (by cnt) (by cnt) (by cnt))⟩
  | eq hg => exact ⟨_, { del := some (a, l, x) }, by run, .del (good_add hg (by tg) hw hx (by cnt) (by cnt) (by cnt))⟩
  | del hg =>
    rename_i a0 l0 x0
    obtain ⟨o1, n1, hp⟩ := good_last hg
    have ha : a = a0 + l0 := by simp only [Walk] at hp hw; omega
    exact ⟨out, { del := some (a0, l0 + l, x0) }, by simp [replaceHook, rFlushEq, ha],
      .del (good_repl hg (by tg) (by wk) (by xk) (by cnt) (by cnt) (by cnt))⟩
  | ins hg =>
    rename_i y0 c0 i0
    exact ⟨out, { del := some (a, l, x), ins := some (y0, c0, i0) }, by run,
      .both (good_repl hg (by tg) (by wk) (by xk) (by cnt) (by cnt) (by cnt))⟩
  | both hg =>
    rename_i a0 l0 x0 y0 c0 i0
    obtain ⟨o1, n1, hp⟩ := good_last hg
    have ha : a = a0 + l0 := by simp only [Walk] at hp hw; omega
    exact ⟨out, { del := some (a0, l0 + l, x0), ins := some (y0, c0, i0) }, by simp [replaceHook, rFlushEq, ha],
      .both (good_repl hg (by tg) (by wk) (by xk) (by cnt) (by cnt) (by cnt))⟩

theorem step_insert {e o n ex r out oc nc d i q y a l oc2 nc2} (w : World)
    (h : RInv e o n ex r out oc nc d i q) (hw : Walk e oc nc [.insert y a l] oc2 nc2)
    (hx : ex → Exact oc nc [.insert y a l]) :
    ∃ out2 r2, (replaceHook recHook).call (.op (.insert y a l)) (r, { trace := out.map Call.op }) w
        = .ok ((r2, { trace := out2.map Call.op }), w) ∧ RInv e o n ex r2 out2 oc2 nc2 d (i + l) q := by
  cases h with
  | init => exact ⟨[], { ins := some (y, a, l) }, by run, .ins (good_single hw hx (by cnt) (by cnt) (by cnt))⟩
  | eq hg => exact ⟨_, { ins := some (y, a, l) }, by run, .ins (good_add hg (by tg) hw hx (by cnt) (by cnt) (by cnt))⟩
  | ins hg =>
    rename_i y0 c0 i0
    obtain ⟨o1, n1, hp⟩ := good_last hg
    have ha : c0 + i0 = a := by simp only [Walk] at hp hw; omega
    exact ⟨out, { ins := some (y0, c0, l + i0) }, by simp [replaceHook, rFlushEq, ha],
      .ins (good_repl hg (by tg) (by wk) (by xk) (by cnt) (by cnt) (by cnt))⟩
  | del hg =>
    rename_i a0 l0 x0
    exact ⟨out, { del := some (a0, l0, x0), ins := some (y, a, l) }, by run,
      .both (good_repl hg (by tg) (by wk) (by xk) (by cnt) (by cnt) (by cnt))⟩
  | both hg =>
    rename_i a0 l0 x0 y0 c0 i0
    obtain ⟨o1, n1, hp⟩ := good_last hg
    have ha : c0 + i0 = a := by simp only [Walk] at hp hw; omega
    exact ⟨out, { del := some (a0, l0, x0), ins := some (y0, c0, l + i0) }, by simp [replaceHook, rFlushEq, ha],
      .both (good_repl hg (by tg) (by wk) (by xk) (by cnt) (by cnt) (by cnt))⟩

theorem step_finish {e o n ex r out oc nc d i q} (w : World) (h : RInv e o n ex r out oc nc d i q) :
    ∃ out2 r2, (replaceHook recHook).call .finish (r, { trace := out.map Call.op }) w
        = .ok ((r2, { trace := out2.map Call.op ++ [.finish] }), w) ∧ Good e o n ex out2 oc nc d i q := by
  cases h with
  | init => exact ⟨[], {}, by run, good_nil e o n ex⟩
  | eq hg => exact ⟨_, {}, by run, hg⟩
  | del hg => exact ⟨_, {}, by run, hg⟩
  | ins hg => exact ⟨_, {}, by run, hg⟩
  | both hg => exact ⟨_, {}, by run, hg⟩


theorem deliver_ops (e : Nat → Nat → Bool) (o n : Nat) (ex : Prop) (o' n' : Nat) (w : World) :
    ∀ (ops : List Op) (r : RState) (out : List Op) (oc nc d i q : Nat),
    RInv e o n ex r out oc nc d i q → NoReplaceOp ops → Walk e oc nc ops o' n' →
    (ex → Exact oc nc ops) →
    ∃ out' rs, deliver (replaceHook recHook) (ops.map Call.op ++ [.finish])
        (r, { trace := out.map Call.op }) w = .ok ((rs, { trace := out'.map Call.op ++ [.finish] }), w) ∧
      Good e o n ex out' o' n' (d + nDel ops) (i + nIns ops) (q + nEq ops) := by
  intro ops
  induction ops with
  | nil =>
    intro r out oc nc d i q hinv _ hw _
    obtain ⟨rfl, rfl⟩ := hw
    obtain ⟨out2, r2, hc, hg⟩ := step_finish w hinv
    exact ⟨out2, r2, by simp [deliver, hc], hg⟩
  | cons c ops ih =>
    intro r out oc nc d i q hinv hnr hw hx
    cases c with
    | replace => exact hnr.elim
    | equal a b l =>
      simp only [Walk] at hw
      obtain ⟨rfl, rfl, hl, he, hw'⟩ := hw
      obtain ⟨out2, r2, hc, hinv2⟩ := step_equal (a := a) (b := b) (l := l) (oc2 := a + l) (nc2 := b + l) w hinv
        (by simp only [Walk]; refine ⟨?_, ?_, hl, he, ?_, ?_⟩ <;> trivial)
      obtain ⟨out3, r3, hd, hg⟩ := ih r2 out2 _ _ _ _ _ hinv2 hnr hw'
        (fun hex => by have := hx hex; simp only [Exact] at this; exact this.2.2)
      refine ⟨out3, r3, by simp [deliver, hc] at hd ⊢; exact hd, ?_⟩
      simp only [nDel, nIns, nEq]
      rwa [Nat.add_assoc] at hg
    | delete a l x =>
      simp only [Walk] at hw
      obtain ⟨rfl, hl, hw'⟩ := hw
      obtain ⟨out2, r2, hc, hinv2⟩ := step_delete (a := a) (l := l) (x := x) (oc2 := a + l) (nc2 := nc) w hinv
        (by simp [Walk, hl])
        (fun hex => by
          have := hx hex; simp only [Exact] at this ⊢; exact ⟨this.1, this.2.1, trivial⟩)
      obtain ⟨out3, r3, hd, hg⟩ := ih r2 out2 _ _ _ _ _ hinv2 hnr hw'
        (fun hex => by
          have := hx hex; simp only [Exact, Op.oLen, Op.nLen, Nat.add_zero] at this; exact this.2.2)
      refine ⟨out3, r3, by simp [deliver, hc] at hd ⊢; exact hd, ?_⟩
      simp only [nDel, nIns, nEq]
      rwa [Nat.add_assoc] at hg
    | insert y a l =>
      simp only [Walk] at hw
      obtain ⟨rfl, hl, hw'⟩ := hw
      obtain ⟨out2, r2, hc, hinv2⟩ := step_insert (y := y) (a := a) (l := l) (oc2 := oc) (nc2 := a + l) w hinv
        (by simp [Walk, hl])
        (fun hex => by
          have := hx hex; simp only [Exact] at this ⊢; exact ⟨this.1, this.2.1, trivial⟩)
      obtain ⟨out3, r3, hd, hg⟩ := ih r2 out2 _ _ _ _ _ hinv2 hnr hw'
        (fun hex => by
          have := hx hex; simp only [Exact, Op.oLen, Op.nLen, Nat.add_zero] at this; exact this.2.2)
      refine ⟨out3, r3, by simp [deliver, hc] at hd ⊢; exact hd, ?_⟩
      simp only [nDel, nIns, nEq]
      rwa [Nat.add_assoc] at hg

end Replace

theorem replace_preserves (e : Nat → Nat → Bool) (ops : List Op) (o n o' n' : Nat) (w : World)
    (hnr : NoReplaceOp ops) (hw : Walk e o n ops o' n') :
    ∃ out rs, replaceOut ops w = .ok ((rs, { trace := out.map Call.op ++ [.finish] }), w) ∧
      Walk e o n out o' n' ∧ nDel out = nDel ops ∧ nIns out = nIns ops ∧ nEq out = nEq ops ∧
      Alternating out ∧ (Exact o n ops → Exact o n out) := by
  obtain ⟨out, rs, hd, h1, h2, h3, h4, h5, h6⟩ :=
    Replace.deliver_ops e o n (Exact o n ops) o' n' w ops {} [] o n 0 0 0 .init hnr hw id
  refine ⟨out, rs, ?_, h1, by omega, by omega, by omega, h2, h3⟩
  simpa [replaceOut] using hd

end SimilarVerif

import SimilarVerif.Lemmas.HookFail
import SimilarVerif.Lemmas.Compact
import SimilarVerif.Lemmas.LcsMinimal
import SimilarVerif.Lemmas.Patience
/-! # Factorization of the capture pipeline

`captureDiff` = run the algorithm against the recording hook (`rawTrace`), then `cleanupDiffOps` on the
recorded ops, then `Replace` over the recording hook (`replaceOut`).

* `*_agree`: two hooks that agree on every `.op` call are indistinguishable for everything that
  happens before `finish`.
* `*_fin`: every algorithm is "run against `noFinishHook h`, then call `h.finish` once".
* `buf_sim`: `noFinishHook (compactHook E repair h)` only buffers — a `HookFail.Sim` of the recording hook.
-/
namespace SimilarVerif.CaptureP
open SimilarVerif Spec HookFail

/-! ## hooks that agree on all `.op` calls -/

/-- the two hooks answer every non-`finish` call identically -/
def AgreeOp {σ} (h1 h2 : Hook σ) : Prop := ∀ x s w, h1.call (.op x) s w = h2.call (.op x) s w

theorem Hook.ext' {σ} {h1 h2 : Hook σ} (h : ∀ c s w, h1.call c s w = h2.call c s w) : h1 = h2 := by
  cases h1; cases h2; congr; funext c s w; exact h c s w

theorem agree_noFinish {σ} (h : Hook σ) : AgreeOp h (noFinishHook h) := fun _ _ _ => rfl

theorem noFinish_eq {σ} {h1 h2 : Hook σ} (hA : AgreeOp h1 h2) : noFinishHook h1 = noFinishHook h2 := by
  apply Hook.ext'
  intro c s w
  cases c with
  | finish => rfl
  | op x => exact hA x s w

section Agree
variable {σ : Type} {h1 h2 : Hook σ} (hA : AgreeOp h1 h2)
include hA

theorem conquer_agree (E : Env) (off : Nat) : ∀ fuel os oe ns ne vf vb s w,
    conquer E h1 off fuel os oe ns ne vf vb s w = conquer E h2 off fuel os oe ns ne vf vb s w := by
  intro fuel
  induction fuel with
  | zero => intros; rfl
  | succ fuel ih =>
    intro os oe ns ne vf vb s w
    simp only [conquer, emit, hA _, ih]

theorem lcsWalk_agree (E : Env) (t : Table) (o0 n0 ol nl : Nat) : ∀ fuel oi ni s w,
    lcsWalk E h1 t o0 n0 ol nl fuel oi ni s w = lcsWalk E h2 t o0 n0 ol nl fuel oi ni s w := by
  intro fuel
  induction fuel with
  | zero => intros; rfl
  | succ fuel ih =>
    intro oi ni s w
    simp only [lcsWalk, emit, hA _, ih]

theorem rFlushEq_agree (r : RState) (s : σ) (w : World) : rFlushEq h1 r s w = rFlushEq h2 r s w := by
  simp only [rFlushEq, hA _]

theorem rFlushDelIns_agree (r : RState) (s : σ) (w : World) :
    rFlushDelIns h1 r s w = rFlushDelIns h2 r s w := by
  simp only [rFlushDelIns, hA _]

theorem replace_agree : AgreeOp (replaceHook h1) (replaceHook h2) := by
  intro x st w
  obtain ⟨r, s⟩ := st
  cases x <;> simp only [replaceHook, rFlushEq_agree hA, rFlushDelIns_agree hA, hA _]

theorem patAnchor_agree (E : Env) (uo un : Array Nat) (i j : Nat) (p : PState) (s : σ) (w : World) :
    patAnchor E h1 uo un i j p s w = patAnchor E h2 uo un i j p s w := by
  simp only [patAnchor, emit, hA _, noFinish_eq hA]

theorem patEqual_agree (E : Env) (uo un : Array Nat) : ∀ len i j p s w,
    patEqual E h1 uo un len i j p s w = patEqual E h2 uo un len i j p s w := by
  intro len
  induction len with
  | zero => intros; rfl
  | succ len ih =>
    intro i j p s w
    simp only [patEqual, patAnchor_agree hA, ih]

theorem patience_agree (E : Env) (uo un : Array Nat) (oe ne : Nat) :
    AgreeOp (patienceHook E h1 uo un oe ne) (patienceHook E h2 uo un oe ne) := by
  intro x st w
  obtain ⟨p, s⟩ := st
  cases x <;> simp only [patienceHook, patEqual_agree hA]

end Agree

/-! ## every algorithm calls `finish` exactly once, last -/

/-- call `h.finish` on a successful result -/
def fin {σ} (h : Hook σ) (y : Res (σ × World)) : Res (σ × World) :=
  match y with
  | .error e => .error e
  | .ok (s, w) => h.call .finish s w

theorem nF_op {σ} (h : Hook σ) (x : Op) (s : σ) (w : World) :
    (noFinishHook h).call (.op x) s w = h.call (.op x) s w := rfl
theorem nF_fin {σ} (h : Hook σ) (s : σ) (w : World) : (noFinishHook h).call .finish s w = .ok (s, w) := rfl
theorem fin_ok {σ} (h : Hook σ) (s : σ) (w : World) : fin h (.ok (s, w)) = h.call .finish s w := rfl
theorem fin_err {σ} (h : Hook σ) (e : Abort) : fin h (.error e) = .error e := rfl

section Fin
variable {σ : Type} (h : Hook σ)

theorem myers_fin (E : Env) (os oe ns ne : Nat) (s : σ) (w : World) :
    myersDiff E h os oe ns ne s w = fin h (myersDiff E (noFinishHook h) os oe ns ne s w) := by
  simp only [myersDiff, ← conquer_agree (agree_noFinish h)]
  split <;> rfl

theorem lcs_fin (E : Env) (os oe ns ne : Nat) (s : σ) (w : World) :
    lcsDiff E h os oe ns ne s w = fin h (lcsDiff E (noFinishHook h) os oe ns ne s w) := by
  simp only [lcsDiff, ← lcsWalk_agree (agree_noFinish h), emit, nF_op, nF_fin]
  repeat' split
  all_goals (first | rfl | trace_state)

/-- `myersDiff` against `g`, seen from a hook `gN` that agrees with `g` before `finish` -/
theorem myers_fin2 {g gN : Hook σ} (hA : AgreeOp g gN) (E : Env) (os oe ns ne : Nat) (s : σ) (w : World) :
    myersDiff E g os oe ns ne s w = fin g (myersDiff E (noFinishHook gN) os oe ns ne s w) := by
  rw [myers_fin g, noFinish_eq hA]

theorem patience_fin (E : Env) (os oe ns ne : Nat) (s : σ) (w : World) :
    patienceDiff E h os oe ns ne s w = fin h (patienceDiff E (noFinishHook h) os oe ns ne s w) := by
  have hP := fun uo un => patience_agree (agree_noFinish h) E uo un oe ne
  simp only [patienceDiff]
  split
  · rename_i uo un _ _
    rw [myers_fin2 (replace_agree (hP uo.toArray un.toArray)),
      myers_fin (replaceHook (patienceHook E (noFinishHook h) uo.toArray un.toArray oe ne))]
    generalize myersDiff _ (noFinishHook _) _ _ _ _ _ _ = Y
    rcases Y with e | ⟨⟨r, p, s1⟩, w1⟩
    · rfl
    · simp only [fin_ok]
      simp only [replaceHook, rFlushEq_agree (hP uo.toArray un.toArray),
        rFlushDelIns_agree (hP uo.toArray un.toArray)]
      generalize rFlushEq _ _ _ _ = Y1
      rcases Y1 with e | ⟨r2, ⟨p2, s2⟩, w2⟩
      · rfl
      · dsimp only
        generalize rFlushDelIns _ _ _ _ = Y2
        rcases Y2 with e | ⟨r3, ⟨p3, s3⟩, w3⟩
        · rfl
        · dsimp only
          simp only [patienceHook]
          rw [myers_fin h]
          generalize myersDiff _ (noFinishHook _) _ _ _ _ _ _ = Y3
          rcases Y3 with e | ⟨s4, w4⟩
          · rfl
          · simp only [fin_ok]
            generalize h.call Call.finish s4 w4 = Y4
            rcases Y4 with e | ⟨s5, w5⟩ <;> rfl
  · rfl

end Fin

theorem diffWith_fin {σ} (h : Hook σ) (alg : Alg) (E : Env) (os oe ns ne : Nat) (s : σ) (w : World) :
    diffWith alg E h os oe ns ne s w = fin h (diffWith alg E (noFinishHook h) os oe ns ne s w) := by
  cases alg with
  | myers => exact myers_fin h E os oe ns ne s w
  | patience => exact patience_fin h E os oe ns ne s w
  | lcs => exact lcs_fin h E os oe ns ne s w

/-! ## `Compact` before `finish` only buffers -/

/-- what `Compact` buffers for one call: the trait-default `replace` is `delete` then `insert` -/
def expand1 : Op → List Op
  | .replace o ol n nl => [.delete o ol n, .insert o n nl]
  | x => [x]

/-- the buffer of `Compact` after the ops `ops` -/
def expandReplace (ops : List Op) : List Op := ops.flatMap expand1

theorem opsOf_append : ∀ (a b : List Call), opsOf (a ++ b) = opsOf a ++ opsOf b := by
  intro a b
  induction a with
  | nil => rfl
  | cons c cs ih => cases c <;> simp [opsOf, ih]

theorem opsOf_map_op : ∀ (ops : List Op), opsOf (ops.map Call.op) = ops := by
  intro ops
  induction ops with
  | nil => rfl
  | cons x xs ih => simp [opsOf, ih]

theorem opsOf_raw (ops : List Op) : opsOf (ops.map Call.op ++ [.finish]) = ops := by
  rw [opsOf_append, opsOf_map_op]; simp [opsOf]

theorem expandReplace_append (a b : List Op) : expandReplace (a ++ b) = expandReplace a ++ expandReplace b := by
  simp [expandReplace]

theorem expandReplace_noReplace : ∀ (ops : List Op), NoReplaceOp ops → expandReplace ops = ops := by
  intro ops
  induction ops with
  | nil => intro _; rfl
  | cons x xs ih =>
    intro h
    cases x <;> simp only [NoReplaceOp] at h <;>
      simp only [expandReplace, List.flatMap_cons, expand1, List.singleton_append] <;>
      exact congrArg _ (ih h)

/-- the recording hook has been told `T`; `Compact` holds the corresponding buffer and has not touched
the inner state `s0` -/
def BufR {τ} (s0 : τ) (r : Rec) (t : List Op × τ) : Prop :=
  ∃ T, r = { trace := T } ∧ t = (expandReplace (opsOf T), s0)

theorem buf_sim {τ} (E : Env) (repair : Bool) (H : Hook τ) (s0 : τ) :
    Sim recHook (noFinishHook (compactHook E repair H)) (BufR s0) (fun _ _ => False) := by
  refine ⟨fun _ _ _ _ _ _ _ hF => hF, ?_⟩
  rintro c r t w r' w' ⟨T, rfl, rfl⟩ hc
  rw [Replace.recHook_call] at hc
  cases hc
  cases c with
  | finish =>
    exact Out.ok ⟨T ++ [.finish], rfl, by simp [opsOf_append, opsOf]⟩
  | op x =>
    have hx : expandReplace (opsOf (T ++ [Call.op x])) = expandReplace (opsOf T) ++ expand1 x := by
      simp [opsOf_append, opsOf, expandReplace]
    cases x <;> exact Out.ok ⟨_, rfl, by rw [hx]; rfl⟩

/-- the algorithm against `Compact` minus its `finish`: the buffer is what the recording hook records -/
theorem compact_buffers {τ} (alg : Alg) (E : Env) (repair : Bool) (H : Hook τ) (s0 : τ)
    (os oe ns ne : Nat) (w : World) (T : List Call) (w1 : World)
    (hraw : rawTrace alg E os oe ns ne w = .ok ({ trace := T }, w1)) :
    diffWith alg E (noFinishHook (compactHook E repair H)) os oe ns ne ([], s0) w =
      .ok ((expandReplace (opsOf T), s0), w1) := by
  have hO := diffWith_sim (buf_sim E repair H s0) (s := {}) (t := ([], s0)) ⟨[], rfl, rfl⟩ hraw
  rcases hO with ⟨t', hk, T', hT, rfl⟩ | ⟨_, _, hF⟩
  · cases hT; exact hk
  · exact hF.elim

/-! ## the factorization -/

theorem deliver_snoc {σ} (h : Hook σ) (c : Call) : ∀ (cs : List Call) (s : σ) (w : World),
    deliver h (cs ++ [c]) s w =
      (match deliver h cs s w with
       | .error e => .error e
       | .ok (s', w') => h.call c s' w') := by
  intro cs
  induction cs with
  | nil =>
    intro s w
    simp only [List.nil_append, deliver]
    cases h.call c s w with
    | error e => rfl
    | ok v => rfl
  | cons c' cs ih =>
    intro s w
    simp only [List.cons_append, deliver]
    cases h.call c' s w with
    | error e => rfl
    | ok v => exact ih v.1 v.2

/-- **Factorization of `capture_diff`** (general form): what `Compact` buffers is the recorded raw
ops with every `replace` expanded. -/
theorem capture_factor_gen (alg : Alg) (E : Env) (repair : Bool) (os oe ns ne : Nat) (w : World)
    (raw : List Op) (w1 : World)
    (hraw : rawTrace alg E os oe ns ne w = .ok ({ trace := raw.map Call.op ++ [.finish] }, w1)) :
    captureDiff alg E repair os oe ns ne w =
      (match cleanupDiffOps E repair (expandReplace raw) w1 with
       | .error e => .error e
       | .ok (ops', w2) =>
         match replaceOut ops' w2 with
         | .error e => .error e
         | .ok ((_, r), w3) => .ok (traceOps r.trace, w3)) := by
  unfold captureDiff
  rw [diffWith_fin, compact_buffers alg E repair _ _ os oe ns ne w _ w1 hraw, opsOf_raw, fin_ok]
  simp only [compactHook, replaceOut, deliver_snoc]
  cases cleanupDiffOps E repair (expandReplace raw) w1 with
  | error e => rfl
  | ok v =>
    obtain ⟨ops', w2⟩ := v
    dsimp only
    cases deliver (replaceHook recHook) (List.map Call.op ops') ({}, {}) w2 with
    | error e => rfl
    | ok v2 =>
      obtain ⟨s2, w3⟩ := v2
      dsimp only
      cases (replaceHook recHook).call Call.finish s2 w3 with
      | error e => rfl
      | ok v3 => rfl

/-- **Factorization of `capture_diff`**: algorithm against the recording hook, then `cleanup_diff_ops`,
then `Replace` over the recording hook. -/
theorem capture_factor (alg : Alg) (E : Env) (repair : Bool) (os oe ns ne : Nat) (w : World)
    (raw : List Op) (w1 : World) (hnr : NoReplaceOp raw)
    (hraw : rawTrace alg E os oe ns ne w = .ok ({ trace := raw.map Call.op ++ [.finish] }, w1)) :
    captureDiff alg E repair os oe ns ne w =
      (match cleanupDiffOps E repair raw w1 with
       | .error e => .error e
       | .ok (ops', w2) =>
         match replaceOut ops' w2 with
         | .error e => .error e
         | .ok ((_, r), w3) => .ok (traceOps r.trace, w3)) := by
  rw [capture_factor_gen alg E repair os oe ns ne w raw w1 hraw, expandReplace_noReplace raw hnr]

/-! ## end-to-end corollaries -/

theorem expandReplace_cons (x : Op) (xs : List Op) : expandReplace (x :: xs) = expand1 x ++ expandReplace xs := by
  simp [expandReplace]

theorem walk_expand (e : Nat → Nat → Bool) : ∀ (raw : List Op) (o n o' n' : Nat),
    Walk e o n raw o' n' → Walk e o n (expandReplace raw) o' n' := by
  intro raw
  induction raw with
  | nil => intro o n o' n' h; exact h
  | cons x xs ih =>
    intro o n o' n' h
    rw [expandReplace_cons]
    cases x with
    | equal a b l => simp only [Walk, expand1, List.singleton_append] at h ⊢; exact ⟨h.1, h.2.1, h.2.2.1, h.2.2.2.1, ih _ _ _ _ h.2.2.2.2⟩
    | delete a l b => simp only [Walk, expand1, List.singleton_append] at h ⊢; exact ⟨h.1, h.2.1, ih _ _ _ _ h.2.2⟩
    | insert a b l => simp only [Walk, expand1, List.singleton_append] at h ⊢; exact ⟨h.1, h.2.1, ih _ _ _ _ h.2.2⟩
    | replace a al b bl =>
      simp only [Walk, expand1, List.cons_append, List.nil_append] at h ⊢
      exact ⟨h.1, h.2.2.1, h.2.1, h.2.2.2.1, ih _ _ _ _ h.2.2.2.2⟩

theorem counts_expand : ∀ (raw : List Op), nDel (expandReplace raw) = nDel raw ∧
    nIns (expandReplace raw) = nIns raw ∧ nEq (expandReplace raw) = nEq raw ∧ NoReplaceOp (expandReplace raw) := by
  intro raw
  induction raw with
  | nil => simp [expandReplace, nDel, nIns, nEq, NoReplaceOp]
  | cons x xs ih =>
    rw [expandReplace_cons]
    obtain ⟨h1, h2, h3, h4⟩ := ih
    cases x <;> simp [expand1, nDel, nIns, nEq, NoReplaceOp, h1, h2, h3, h4]

theorem traceOps_eq_opsOf : ∀ (t : List Call), traceOps t = opsOf t := by
  intro t
  induction t with
  | nil => rfl
  | cons c cs ih => cases c <;> simp [traceOps, opsOf, ih]

/-- a run against the recording hook started from `{}` ends in a record with the default `failAt`
and `nativeReplace` -/
theorem raw_rec_eta (alg : Alg) (E : Env) (os oe ns ne : Nat) (w : World) (r : Rec) (w1 : World)
    (hraw : rawTrace alg E os oe ns ne w = .ok (r, w1)) : r = { trace := r.trace } := by
  have hO := diffWith_sim (buf_sim E false recHook ({} : Rec)) (s := {}) (t := ([], {})) ⟨[], rfl, rfl⟩ hraw
  rcases hO with ⟨t', _, T', hT, _⟩ | ⟨_, _, hF⟩
  · rw [hT]
  · exact hF.elim

/-- core of the corollaries: no `NoReplaceOp` needed for validity and counts -/
theorem capture_valid_gen (alg : Alg) (E : Env) (repair : Bool) (os oe ns ne : Nat) (w : World)
    (r : Rec) (w1 : World) (raw : List Op) (ops : List Op) (w' : World)
    (hraw : rawTrace alg E os oe ns ne w = .ok (r, w1)) (ht : r.trace = raw.map Call.op ++ [.finish])
    (hw : Walk (eqB E) os ns raw oe ne)
    (hc : captureDiff alg E repair os oe ns ne w = .ok (ops, w')) :
    Walk (eqB E) os ns ops oe ne ∧ nDel ops = nDel raw ∧ nIns ops = nIns raw ∧ nEq ops = nEq raw ∧
      Alternating ops ∧ w'.clock = w1.clock ∧
      (repair = true → NoReplaceOp raw → Exact os ns raw → Exact os ns ops) := by
  have hr := raw_rec_eta alg E os oe ns ne w r w1 hraw
  rw [ht] at hr
  rw [hr] at hraw
  rw [capture_factor_gen alg E repair os oe ns ne w raw w1 hraw] at hc
  obtain ⟨c1, c2, c3, c4⟩ := counts_expand raw
  split at hc
  · cases hc
  · rename_i ops' w2 hcl
    obtain ⟨a1, a2, a3, a4, a5, a6, -⟩ :=
      CompactP.cleanup_preserves E repair _ os ns oe ne w1 ops' w2 c4 (walk_expand _ raw _ _ _ _ hw) hcl
    obtain ⟨out, rs, hro, b1, b2, b3, b4, b5, b6⟩ := replace_preserves (eqB E) ops' os ns oe ne w2 a5 a1
    rw [hro] at hc
    simp only [traceOps_eq_opsOf, opsOf_raw, Except.ok.injEq, Prod.mk.injEq] at hc
    obtain ⟨rfl, rfl⟩ := hc
    refine ⟨b1, by omega, by omega, by omega, b5, a6, ?_⟩
    intro hrep hnr hx
    subst hrep
    rw [expandReplace_noReplace raw hnr] at hcl
    exact b6 (CompactP.cleanup_exact E raw os ns oe ne w1 ops' _ hnr hw hx hcl)

/-- **(1)** the captured ops are a valid script with the item counts of the raw script, Equal and
non-Equal ops alternate, and the pipeline after the algorithm does not touch the clock -/
theorem capture_valid (alg : Alg) (E : Env) (repair : Bool) (os oe ns ne : Nat) (w : World)
    (r : Rec) (w1 : World) (raw : List Op) (ops : List Op) (w' : World)
    (hraw : rawTrace alg E os oe ns ne w = .ok (r, w1)) (ht : r.trace = raw.map Call.op ++ [.finish])
    (_hnr : NoReplaceOp raw) (hw : Walk (eqB E) os ns raw oe ne)
    (hc : captureDiff alg E repair os oe ns ne w = .ok (ops, w')) :
    (Walk (eqB E) os ns ops oe ne ∧ nDel ops = nDel raw ∧ nIns ops = nIns raw ∧ nEq ops = nEq raw ∧
      Alternating ops) ∧ w'.clock = w1.clock := by
  obtain ⟨h1, h2, h3, h4, h5, h6, -⟩ := capture_valid_gen alg E repair os oe ns ne w r w1 raw ops w' hraw ht hw hc
  exact ⟨⟨h1, h2, h3, h4, h5⟩, h6⟩

/-- **(2)** with the repair switch on, exact indices of the raw script survive the pipeline -/
theorem capture_exact_repaired (alg : Alg) (E : Env) (os oe ns ne : Nat) (w : World)
    (r : Rec) (w1 : World) (raw : List Op) (ops : List Op) (w' : World)
    (hraw : rawTrace alg E os oe ns ne w = .ok (r, w1)) (ht : r.trace = raw.map Call.op ++ [.finish])
    (hnr : NoReplaceOp raw) (hw : Walk (eqB E) os ns raw oe ne) (hx : Exact os ns raw)
    (hc : captureDiff alg E true os oe ns ne w = .ok (ops, w')) : Exact os ns ops :=
  (capture_valid_gen alg E true os oe ns ne w r w1 raw ops w' hraw ht hw hc).2.2.2.2.2.2 rfl hnr hx

/-- the recording hook simulates `Compact` minus its `finish` (neither ever fails) -/
theorem buf_sim_rev {τ} (E : Env) (repair : Bool) (H : Hook τ) (s0 : τ) :
    Sim (noFinishHook (compactHook E repair H)) recHook (fun t r => BufR s0 r t) (fun _ _ => False) := by
  refine ⟨fun _ _ _ _ _ _ _ hF => hF, ?_⟩
  rintro c t r w t' w' ⟨T, rfl, rfl⟩ hc
  rw [Replace.recHook_call]
  cases c with
  | finish =>
    cases hc
    exact Out.ok ⟨T ++ [.finish], rfl, by simp [opsOf_append, opsOf]⟩
  | op x =>
    have hx : expandReplace (opsOf (T ++ [Call.op x])) = expandReplace (opsOf T) ++ expand1 x := by
      simp [opsOf_append, opsOf, expandReplace]
    cases x <;> (cases hc; exact Out.ok ⟨_, rfl, by rw [hx]; rfl⟩)

/-- if `capture_diff` returns, so does the algorithm against the recording hook -/
theorem capture_ok_raw (alg : Alg) (E : Env) (repair : Bool) (os oe ns ne : Nat) (w : World)
    (ops : List Op) (w' : World) (hc : captureDiff alg E repair os oe ns ne w = .ok (ops, w')) :
    ∃ r w1, rawTrace alg E os oe ns ne w = .ok (r, w1) := by
  unfold captureDiff at hc
  split at hc
  · cases hc
  · rename_i heq
    rw [diffWith_fin] at heq
    cases hy : diffWith alg E (noFinishHook (compactHook E repair (replaceHook recHook))) os oe ns ne
        ([], ({}, {})) w with
    | error e => rw [hy] at heq; cases heq
    | ok v =>
      obtain ⟨t', w1⟩ := v
      have hO := diffWith_sim (buf_sim_rev E repair (replaceHook recHook) (({}, {}) : RState × Rec))
        (s := ([], ({}, {}))) (t := ({} : Rec)) ⟨[], rfl, rfl⟩ hy
      rcases hO with ⟨r, hk, _⟩ | ⟨_, _, hF⟩
      · exact ⟨r, w1, hk⟩
      · exact hF.elim

/-- the corollaries for an algorithm whose raw stream is known to be valid -/
theorem capture_of_validRaw (alg : Alg) (E : Env) (repair : Bool) (os oe ns ne : Nat) (w : World)
    (ops : List Op) (w' : World)
    (hv : ∀ r w1, rawTrace alg E os oe ns ne w = .ok (r, w1) → ValidRaw E os oe ns ne r.trace)
    (hc : captureDiff alg E repair os oe ns ne w = .ok (ops, w')) :
    ∃ raw w1, rawTrace alg E os oe ns ne w = .ok ({ trace := raw.map Call.op ++ [.finish] }, w1) ∧
      Walk (eqB E) os ns raw oe ne ∧ Carried os ns raw ∧
      Walk (eqB E) os ns ops oe ne ∧ nDel ops = nDel raw ∧ nIns ops = nIns raw ∧ nEq ops = nEq raw ∧
      Alternating ops ∧ w'.clock = w1.clock ∧
      (repair = true → NoReplaceOp raw → Exact os ns raw → Exact os ns ops) := by
  obtain ⟨r, w1, hraw⟩ := capture_ok_raw alg E repair os oe ns ne w ops w' hc
  obtain ⟨raw, ht, hw, hcar⟩ := hv r w1 hraw
  have hr := raw_rec_eta alg E os oe ns ne w r w1 hraw
  obtain ⟨h1, h2, h3, h4, h5, h6, h7⟩ :=
    capture_valid_gen alg E repair os oe ns ne w r w1 raw ops w' hraw ht hw hc
  rw [ht] at hr
  rw [hr] at hraw
  exact ⟨raw, w1, hraw, hw, hcar, h1, h2, h3, h4, h5, h6, h7⟩

/-- **(3)** LCS: the raw run is total for in-bounds ranges (any clock), so whenever `capture_diff`
returns its result is valid (and exact when repaired, provided the raw ops contain no `replace`) -/
theorem capture_lcs_valid (E : Env) (repair : Bool) (os oe ns ne : Nat) (w : World)
    (ho : os ≤ oe) (hn : ns ≤ ne) (hb : InBounds E os oe ns ne) (ops : List Op) (w' : World)
    (hc : captureDiff .lcs E repair os oe ns ne w = .ok (ops, w')) :
    ∃ raw w1, rawTrace .lcs E os oe ns ne w = .ok ({ trace := raw.map Call.op ++ [.finish] }, w1) ∧
      Walk (eqB E) os ns raw oe ne ∧ Exact os ns raw ∧
      Walk (eqB E) os ns ops oe ne ∧ nDel ops = nDel raw ∧ nIns ops = nIns raw ∧ nEq ops = nEq raw ∧
      Alternating ops ∧ w'.clock = w1.clock ∧ (repair = true → NoReplaceOp raw → Exact os ns ops) := by
  obtain ⟨raw, w1, h, hw, hx⟩ := LcsP.lcs_valid E os oe ns ne w ho hn hb
  have hraw : rawTrace .lcs E os oe ns ne w = .ok ({ trace := raw.map Call.op ++ [.finish] }, w1) := by
    simpa [rawTrace, diffWith] using h
  obtain ⟨h1, h2, h3, h4, h5, h6, h7⟩ :=
    capture_valid_gen .lcs E repair os oe ns ne w _ w1 raw ops w' hraw rfl hw hc
  exact ⟨raw, w1, hraw, hw, hx, h1, h2, h3, h4, h5, h6, fun a b => h7 a b hx⟩

/-- **(3')** LCS without a deadline: the captured script has the minimal cost `N + M - 2·LCS` -/
theorem capture_lcs_minimal (E : Env) (repair : Bool) (os oe ns ne : Nat) (w : World)
    (ho : os ≤ oe) (hn : ns ≤ ne) (hb : InBounds E os oe ns ne) (hclk : w.clock = none)
    (ops : List Op) (w' : World) (hc : captureDiff .lcs E repair os oe ns ne w = .ok (ops, w')) :
    Walk (eqB E) os ns ops oe ne ∧
      Spec.cost ops = (oe - os) + (ne - ns) - 2 * Spec.lcsLen (eqB E) (oe - os) (ne - ns) os ns := by
  obtain ⟨raw, w1, h, hw, _, _, hcost, _⟩ := LcsMin.lcs_minimal E os oe ns ne w ho hn hb hclk
  have hraw : rawTrace .lcs E os oe ns ne w = .ok ({ trace := raw.map Call.op ++ [.finish] }, w1) := by
    simpa [rawTrace, diffWith] using h
  obtain ⟨h1, h2, h3, -⟩ := capture_valid_gen .lcs E repair os oe ns ne w _ w1 raw ops w' hraw rfl hw hc
  refine ⟨h1, ?_⟩
  rw [← hcost]
  simp only [Spec.cost, h2, h3]

/-- Myers emits no `replace` (from `MyersG.myersDiff_generic`) -/
theorem myers_raw_noReplace (E : Env) (hbox : MyersP.SnakeInBox E) (os oe ns ne : Nat) (w : World)
    (ho : os ≤ oe) (hn : ns ≤ ne) (hb : InBounds E os oe ns ne) (raw : List Op) (w1 : World)
    (hraw : rawTrace .myers E os oe ns ne w = .ok ({ trace := raw.map Call.op ++ [.finish] }, w1)) :
    NoReplaceOp raw := by
  have hm : myersDiff E recHook os oe ns ne {} w = .ok ({ trace := raw.map Call.op ++ [.finish] }, w1) := by
    simpa [rawTrace, diffWith] using hraw
  obtain ⟨ops, s1, w2, hd, hf, -, -, hnr, -⟩ :=
    MyersG.myersDiff_generic E hbox recHook os oe ns ne {} w _ w1 ho hn hb hm
  have he := hd.rec_ext rfl hnr
  unfold MyersP.Ext at he
  subst he
  rw [Replace.recHook_call] at hf
  simp only [List.nil_append, Except.ok.injEq, Prod.mk.injEq, Rec.mk.injEq, and_true] at hf
  have := congrArg opsOf hf.1
  rw [opsOf_raw, opsOf_raw] at this
  rw [← this]; exact hnr

/-- **(4a)** Myers, relative to `SnakeInBox`: whenever `capture_diff` returns, the result is valid;
the raw ops contain no `replace`, so with the repair switch exact raw indices stay exact -/
theorem capture_myers_valid (E : Env) (hbox : MyersP.SnakeInBox E) (repair : Bool) (os oe ns ne : Nat)
    (w : World) (ho : os ≤ oe) (hn : ns ≤ ne) (hb : InBounds E os oe ns ne) (ops : List Op) (w' : World)
    (hc : captureDiff .myers E repair os oe ns ne w = .ok (ops, w')) :
    ∃ raw w1, rawTrace .myers E os oe ns ne w = .ok ({ trace := raw.map Call.op ++ [.finish] }, w1) ∧
      Walk (eqB E) os ns raw oe ne ∧ Carried os ns raw ∧ NoReplaceOp raw ∧
      Walk (eqB E) os ns ops oe ne ∧ nDel ops = nDel raw ∧ nIns ops = nIns raw ∧ nEq ops = nEq raw ∧
      Alternating ops ∧ w'.clock = w1.clock ∧ (repair = true → Exact os ns raw → Exact os ns ops) := by
  obtain ⟨raw, w1, hraw, h1, h2, h3, h4, h5, h6, h7, h8, h9⟩ :=
    capture_of_validRaw .myers E repair os oe ns ne w ops w'
      (fun r w1 h => MyersP.myers_sound E hbox os oe ns ne w r w1 ho hn hb (by simpa [rawTrace, diffWith] using h)) hc
  have hnr := myers_raw_noReplace E hbox os oe ns ne w ho hn hb raw w1 hraw
  exact ⟨raw, w1, hraw, h1, h2, hnr, h3, h4, h5, h6, h7, h8, fun a b => h9 a hnr b⟩

/-- **(4b)** Patience, relative to `SnakeInBox` of `E` and of the unique-item sub-problem -/
theorem capture_patience_valid (E : Env) (hboxE : MyersP.SnakeInBox E) (repair : Bool) (os oe ns ne : Nat)
    (hboxU : ∀ uo un, unique E.oo os oe = some uo → unique E.nn ns ne = some un →
      MyersP.SnakeInBox (E.sub uo.toArray un.toArray))
    (w : World) (ho : os ≤ oe) (hn : ns ≤ ne) (hb : InBounds E os oe ns ne) (ops : List Op) (w' : World)
    (hc : captureDiff .patience E repair os oe ns ne w = .ok (ops, w')) :
    ∃ raw w1, rawTrace .patience E os oe ns ne w = .ok ({ trace := raw.map Call.op ++ [.finish] }, w1) ∧
      Walk (eqB E) os ns raw oe ne ∧ Carried os ns raw ∧
      Walk (eqB E) os ns ops oe ne ∧ nDel ops = nDel raw ∧ nIns ops = nIns raw ∧ nEq ops = nEq raw ∧
      Alternating ops ∧ w'.clock = w1.clock ∧
      (repair = true → NoReplaceOp raw → Exact os ns raw → Exact os ns ops) :=
  capture_of_validRaw .patience E repair os oe ns ne w ops w'
    (fun r w1 h => PatienceP.patience_sound E hboxE os oe ns ne hboxU w r w1 ho hn hb
      (by simpa [rawTrace, diffWith] using h)) hc

end SimilarVerif.CaptureP

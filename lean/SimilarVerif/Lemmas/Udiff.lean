import SimilarVerif.Spec.Udiff
import SimilarVerif.Model.Udiff
import SimilarVerif.Model.TextDiff
import SimilarVerif.Lemmas.Group
import SimilarVerif.Lemmas.Walk
import SimilarVerif.Props.C13
/-!
# C05, structured part: what the unified-diff renderer prints denotes a correct patch

`Spec/Udiff.lean` has the independent notions (structured hunks, the strict applier).  Here:
the groups of an exact valid script form a *chain* of exact walks separated by stretches of equal
lines (`chain_of_walk`), and from the chain: header counts and positions (a), order (b), strict
application (c); equal inputs (d); context bounds and shape (e); the byte renderer's layout (f);
the range format (g).
-/
namespace SimilarVerif.UdiffP
open SimilarVerif Spec Group

/-! ## exact walks that tolerate empty Equal ops, gaps, chains -/

/-- `k` equal lines from `(a, b)` on -/
def Gap (e : Nat → Nat → Bool) (a b k : Nat) : Prop := ∀ t, t < k → e (a + t) (b + t) = true

/-- an exact walk: every op starts at the current position, Equal ops (possibly of length 0, as
produced by trimming with radius 0) cover equal lines -/
def HWalk (e : Nat → Nat → Bool) : Nat → Nat → List Op → Nat → Nat → Prop
  | o, n, [], o', n' => o = o' ∧ n = n'
  | o, n, x :: cs, o', n' =>
    x.oStart = o ∧ x.nStart = n ∧ (x.tag = .equal → Gap e o n x.oLen ∧ x.nLen = x.oLen) ∧
    HWalk e (o + x.oLen) (n + x.nLen) cs o' n'

/-- the groups, in order: before each group `k ≥ s` equal lines are skipped, the group is an exact walk,
later gaps have at least one line, and after the last group only equal lines remain up to `(N, M)` -/
def Chain (e : Nat → Nat → Bool) (N M : Nat) : Nat → Nat → Nat → List (List Op) → Prop
  | _, a, b, [] => ∃ k, N = a + k ∧ M = b + k ∧ Gap e a b k
  | s, a, b, g :: gs => ∃ k c d, s ≤ k ∧ Gap e a b k ∧ g ≠ [] ∧ HWalk e (a + k) (b + k) g c d ∧
      Chain e N M 1 c d gs

theorem gap_zero (e : Nat → Nat → Bool) (a b : Nat) : Gap e a b 0 := fun _ h => absurd h (Nat.not_lt_zero _)

theorem gap_add {e : Nat → Nat → Bool} {a b k l : Nat} (h1 : Gap e a b k) (h2 : Gap e (a + k) (b + k) l) :
    Gap e a b (k + l) := by
  intro t ht
  by_cases h : t < k
  · exact h1 t h
  · have := h2 (t - k) (by omega)
    rwa [show a + k + (t - k) = a + t from by omega, show b + k + (t - k) = b + t from by omega] at this

theorem gap_sub {e : Nat → Nat → Bool} {a b k : Nat} (d l : Nat) (h : Gap e a b k) (hl : d + l ≤ k) :
    Gap e (a + d) (b + d) l := by
  intro t ht
  have := h (d + t) (by omega)
  rwa [← Nat.add_assoc, ← Nat.add_assoc] at this

theorem hwalk_append {e : Nat → Nat → Bool} : ∀ (p q : List Op) (a b c d c' d' : Nat),
    HWalk e a b p c d → HWalk e c d q c' d' → HWalk e a b (p ++ q) c' d' := by
  intro p
  induction p with
  | nil => intro q a b c d c' d' h1 h2; obtain ⟨rfl, rfl⟩ := h1; exact h2
  | cons x p ih =>
    intro q a b c d c' d' h1 h2
    exact ⟨h1.1, h1.2.1, h1.2.2.1, ih q _ _ _ _ _ _ h1.2.2.2 h2⟩

theorem hwalk_split {e : Nat → Nat → Bool} : ∀ (p q : List Op) (a b c' d' : Nat),
    HWalk e a b (p ++ q) c' d' → ∃ c d, HWalk e a b p c d ∧ HWalk e c d q c' d' := by
  intro p
  induction p with
  | nil => intro q a b c' d' h; exact ⟨a, b, ⟨rfl, rfl⟩, h⟩
  | cons x p ih =>
    intro q a b c' d' h
    obtain ⟨c, d, h1, h2⟩ := ih q _ _ _ _ h.2.2.2
    exact ⟨c, d, ⟨h.1, h.2.1, h.2.2.1, h1⟩, h2⟩

theorem hwalk_mono {e : Nat → Nat → Bool} : ∀ (p : List Op) (a b c d : Nat), HWalk e a b p c d →
    a ≤ c ∧ b ≤ d := by
  intro p
  induction p with
  | nil => intro a b c d h; obtain ⟨rfl, rfl⟩ := h; exact ⟨Nat.le_refl _, Nat.le_refl _⟩
  | cons x p ih => intro a b c d h; have := ih _ _ _ _ h.2.2.2; omega

/-- a valid script with exact positions is an exact walk -/
theorem hwalk_of_walk {e : Nat → Nat → Bool} : ∀ (ops : List Op) (o n o' n' : Nat),
    Walk e o n ops o' n' → Exact o n ops → HWalk e o n ops o' n' := by
  intro ops
  induction ops with
  | nil => intro o n o' n' h _; exact h
  | cons x cs ih =>
    intro o n o' n' h hx
    obtain ⟨h1, h2, h3⟩ := hx
    cases x with
    | equal co cn len =>
      obtain ⟨_, _, _, he, hw⟩ := h
      exact ⟨h1, h2, fun _ => ⟨he, rfl⟩, ih _ _ _ _ hw h3⟩
    | delete co len cn =>
      obtain ⟨_, _, hw⟩ := h
      exact ⟨h1, h2, fun ht => by simp [Op.tag] at ht, ih _ _ _ _ hw h3⟩
    | insert co cn len =>
      obtain ⟨_, _, hw⟩ := h
      exact ⟨h1, h2, fun ht => by simp [Op.tag] at ht, ih _ _ _ _ hw h3⟩
    | replace co ol cn nl =>
      obtain ⟨_, _, _, _, hw⟩ := h
      exact ⟨h1, h2, fun ht => by simp [Op.tag] at ht, ih _ _ _ _ hw h3⟩

theorem hwalk_congr {e : Nat → Nat → Bool} {p : List Op} {a b c d a' b' c' d' : Nat}
    (h : HWalk e a b p c d) (h1 : a = a') (h2 : b = b') (h3 : c = c') (h4 : d = d') :
    HWalk e a' b' p c' d' := by subst h1 h2 h3 h4; exact h

/-! ## the grouping loop produces a chain -/

theorem G_chain (e : Nat → Nat → Bool) (n N M : Nat) : ∀ (ops p : List Op) (s a0 b0 k c d c' d' : Nat),
    s ≤ k → Gap e a0 b0 k → HWalk e (a0 + k) (b0 + k) p c d → HWalk e c d ops c' d' →
    (∃ k', N = c' + k' ∧ M = d' + k' ∧ Gap e c' d' k') → Chain e N M s a0 b0 (G n ops p) := by
  intro ops
  induction ops with
  | nil =>
    intro p s a0 b0 k c d c' d' hs hg hp ho ⟨k', hN, hM, hk'⟩
    obtain ⟨rfl, rfl⟩ := ho
    rw [G_nil]
    split
    · obtain ⟨rfl, rfl⟩ := hp
      exact ⟨k + k', by omega, by omega, gap_add hg hk'⟩
    · rename_i o m l
      obtain ⟨ho, hm, hq, rfl, rfl⟩ := hp
      have hq := hq rfl
      simp only [Op.oLen, Op.nLen] at hq hk' hN hM ⊢
      refine ⟨k + l + k', by omega, by omega, gap_add (gap_add hg hq.1) ?_⟩
      intro t ht; have := hk' t ht; rwa [Nat.add_assoc a0 k l, Nat.add_assoc b0 k l] at this
    · rename_i h1 h2
      refine ⟨k, c, d, hs, hg, ?_, hp, k', hN, hM, hk'⟩
      rintro rfl; exact h1 rfl
  | cons x rest ih =>
    intro p s a0 b0 k c d c' d' hs hg hp ho hT
    by_cases hb : isBig n x = true
    · obtain ⟨o, m, len, rfl, hlen⟩ := isBig_true hb
      rw [G_big _ _ _ _ _ _ hlen]
      obtain ⟨ho1, ho2, ho3, ho4⟩ := ho
      simp only [Op.oStart, Op.nStart, Op.oLen, Op.nLen] at ho1 ho2 ho3 ho4
      subst ho1 ho2
      have hq := (ho3 rfl).1
      refine ⟨k, o + n, m + n, hs, hg, by simp, ?_, ?_⟩
      · refine hwalk_append _ _ _ _ _ _ _ _ hp ⟨rfl, rfl, fun _ => ⟨?_, rfl⟩, rfl, rfl⟩
        exact fun t ht => hq t (by simp only [Op.oLen] at ht; omega)
      · refine ih _ 1 (o + n) (m + n) (len - 2 * n) (o + len) (m + len) c' d' (by omega)
          (gap_sub n _ hq (by omega)) ?_ ho4 hT
        refine ⟨by simp only [Op.oStart]; omega, by simp only [Op.nStart]; omega, fun _ => ⟨?_, rfl⟩, ?_, ?_⟩
        · have := gap_sub (len - n) (len - (len - n)) hq (by omega)
          simp only [Op.oLen]
          rwa [show o + n + (len - 2 * n) = o + (len - n) from by omega,
            show m + n + (len - 2 * n) = m + (len - n) from by omega]
        · simp only [Op.oLen]; omega
        · simp only [Op.nLen]; omega
    · have hb : isBig n x = false := by simpa using hb
      rw [G_small _ _ _ _ hb]
      refine ih _ s a0 b0 k _ _ c' d' hs hg ?_ ho.2.2.2 hT
      exact hwalk_append _ _ _ _ _ _ _ _ hp ⟨ho.1, ho.2.1, ho.2.2.1, rfl, rfl⟩

theorem trimFirst_hwalk (e : Nat → Nat → Bool) (n : Nat) (l : List Op) (a b c d : Nat)
    (h : HWalk e a b l c d) : ∃ k, Gap e a b k ∧ HWalk e (a + k) (b + k) (trimFirst n l) c d := by
  cases l with
  | nil => exact ⟨0, gap_zero _ _ _, h⟩
  | cons x rest =>
    cases x with
    | equal o m len =>
      obtain ⟨h1, h2, h3, h4⟩ := h
      simp only [Op.oStart, Op.nStart, Op.oLen, Op.nLen] at h1 h2 h3 h4
      subst h1 h2
      have hq := (h3 rfl).1
      refine ⟨len - n, gap_sub 0 _ hq (by omega), rfl, rfl, fun _ => ⟨?_, rfl⟩, ?_⟩
      · exact gap_sub (len - n) _ hq (by simp only [Op.oLen]; omega)
      · exact hwalk_congr h4 (by simp only [Op.oLen]; omega) (by simp only [Op.nLen]; omega) rfl rfl
    | delete o len m => exact ⟨0, gap_zero _ _ _, h⟩
    | insert o m len => exact ⟨0, gap_zero _ _ _, h⟩
    | replace o ol m nl => exact ⟨0, gap_zero _ _ _, h⟩

theorem trimLast_hwalk (e : Nat → Nat → Bool) (n : Nat) (l : List Op) : ∀ (a b c d : Nat),
    HWalk e a b l c d →
    ∃ c0 d0 k, HWalk e a b (trimLast n l) c0 d0 ∧ c = c0 + k ∧ d = d0 + k ∧ Gap e c0 d0 k := by
  fun_induction trimLast n l with
  | case1 => intro a b c d h; exact ⟨c, d, 0, h, rfl, rfl, gap_zero _ _ _⟩
  | case2 o m len =>
    intro a b c d h
    obtain ⟨h1, h2, h3, rfl, rfl⟩ := h
    simp only [Op.oStart, Op.nStart, Op.oLen, Op.nLen] at h1 h2 h3 ⊢
    subst h1 h2
    have hq := (h3 rfl).1
    refine ⟨o + (len - (len - n)), m + (len - (len - n)), len - n,
      ⟨rfl, rfl, fun _ => ⟨gap_sub 0 _ hq (by simp only [Op.oLen]; omega), rfl⟩, rfl, rfl⟩,
      by omega, by omega, gap_sub _ _ hq (by omega)⟩
  | case3 x hne => intro a b c d h; exact ⟨c, d, 0, h, rfl, rfl, gap_zero _ _ _⟩
  | case4 x y rest ih =>
    intro a b c d h
    obtain ⟨c0, d0, k, h1, h2, h3, h4⟩ := ih _ _ _ _ h.2.2.2
    exact ⟨c0, d0, k, ⟨h.1, h.2.1, h.2.2.1, h1⟩, h2, h3, h4⟩

/-- **The groups of an exact valid script form a chain.** -/
theorem chain_of_hwalk (e : Nat → Nat → Bool) (ops : List Op) (n a b N M : Nat)
    (h : HWalk e a b ops N M) : Chain e N M 0 a b (groupDiffOps ops n) := by
  rw [groupDiffOps_eq]
  obtain ⟨k, hk, h1⟩ := trimFirst_hwalk e n ops a b N M h
  obtain ⟨c0, d0, k', h2, hN, hM, hk'⟩ := trimLast_hwalk e n _ _ _ _ _ h1
  exact G_chain e n N M _ [] 0 a b k (a + k) (b + k) c0 d0 (Nat.zero_le _) hk ⟨rfl, rfl⟩ h2
    ⟨k', hN, hM, hk'⟩

theorem chain_of_walk (e : Nat → Nat → Bool) (ops : List Op) (n N M : Nat)
    (hw : Walk e 0 0 ops N M) (hx : Exact 0 0 ops) : Chain e N M 0 0 0 (groupDiffOps ops n) :=
  chain_of_hwalk e ops n 0 0 N M (hwalk_of_walk ops 0 0 N M hw hx)

/-- in a chain every group is non-empty, so `iter_hunks`' filter drops nothing -/
theorem chain_filter {e : Nat → Nat → Bool} {N M : Nat} : ∀ (gs : List (List Op)) (s a b : Nat),
    Chain e N M s a b gs → gs.filter (fun g => !g.isEmpty) = gs := by
  intro gs
  induction gs with
  | nil => intros; rfl
  | cons g gs ih =>
    intro s a b h
    obtain ⟨k, c, d, _, _, hne, _, hc⟩ := h
    rw [List.filter_cons_of_pos (by cases g <;> simp_all), ih _ _ _ hc]

theorem chain_bound {e : Nat → Nat → Bool} {N M : Nat} : ∀ (gs : List (List Op)) (s a b : Nat),
    Chain e N M s a b gs → a ≤ N ∧ b ≤ M := by
  intro gs
  induction gs with
  | nil => intro s a b ⟨k, h1, h2, _⟩; omega
  | cons g gs ih =>
    intro s a b ⟨k, c, d, _, _, _, hw, hc⟩
    have := ih _ _ _ hc; have := hwalk_mono _ _ _ _ _ hw; omega

theorem chain_mem {e : Nat → Nat → Bool} {N M : Nat} : ∀ (gs : List (List Op)) (s a b : Nat),
    Chain e N M s a b gs → ∀ g ∈ gs, ∃ a' b' c d, g ≠ [] ∧ HWalk e a' b' g c d ∧ c ≤ N ∧ d ≤ M := by
  intro gs
  induction gs with
  | nil => intro s a b _ g hg; simp at hg
  | cons g0 gs ih =>
    intro s a b ⟨k, c, d, _, _, hne, hw, hc⟩ g hg
    rcases List.mem_cons.mp hg with rfl | hg
    · have := chain_bound _ _ _ _ hc
      exact ⟨_, _, c, d, hne, hw, this.1, this.2⟩
    · exact ih _ _ _ hc g hg

/-! ## (a) header counts and positions -/

/-- old-side lines of a body are those not inserted, new-side lines those not deleted -/
abbrev isOld (c : Change) : Bool := c.tag != .insert
abbrev isNew (c : Change) : Bool := c.tag != .delete

theorem op_old_indices (x : Op) :
    (Spec.iterChanges x).filterMap (·.oldIndex) = List.range' x.oStart x.oLen := by
  cases x <;> simp [Spec.iterChanges, List.filterMap_map, Op.oStart, Op.oLen, List.range'_eq_map_range,
    Function.comp_def, List.filterMap_append]

theorem op_new_indices (x : Op) :
    (Spec.iterChanges x).filterMap (·.newIndex) = List.range' x.nStart x.nLen := by
  cases x <;> simp [Spec.iterChanges, List.filterMap_map, Op.nStart, Op.nLen, List.range'_eq_map_range,
    Function.comp_def, List.filterMap_append]

theorem ctag_bne :
    (CTag.equal != CTag.insert) = true ∧ (CTag.delete != CTag.insert) = true ∧
    (CTag.equal != CTag.delete) = true ∧ (CTag.insert != CTag.delete) = true ∧
    (CTag.insert != CTag.insert) = false ∧ (CTag.delete != CTag.delete) = false ∧
    (CTag.insert != CTag.equal) = true ∧ (CTag.delete != CTag.equal) = true ∧
    (CTag.equal != CTag.equal) = false := by decide

theorem op_old_count (x : Op) : (Spec.iterChanges x).countP isOld = x.oLen := by
  cases x <;> simp [Spec.iterChanges, List.countP_map, Op.oLen, Function.comp_def, List.countP_append, isOld, ctag_bne]

theorem op_new_count (x : Op) : (Spec.iterChanges x).countP isNew = x.nLen := by
  cases x <;> simp [Spec.iterChanges, List.countP_map, Op.nLen, Function.comp_def, List.countP_append, isNew, ctag_bne]

/-- every change of an expansion has the shape its tag demands; in particular its value is read at
its own reported index (C13) -/
theorem change_shape (g : List Op) (c : Change) (hc : c ∈ allChanges g) :
    (c.tag = .equal → c.oldIndex = some c.idx ∧ c.newIndex.isSome ∧ c.fromNew = false) ∧
    (c.tag = .delete → c.oldIndex = some c.idx ∧ c.newIndex = none ∧ c.fromNew = false) ∧
    (c.tag = .insert → c.oldIndex = none ∧ c.newIndex = some c.idx ∧ c.fromNew = true) := by
  rw [C13.allChanges_eq_spec] at hc
  simp only [Spec.iterAllChanges, List.mem_flatMap] at hc
  obtain ⟨x, _, hx⟩ := hc
  cases x <;> simp [Spec.iterChanges] at hx <;> grind

theorem hwalk_body {e : Nat → Nat → Bool} : ∀ (g : List Op) (a b c d : Nat), HWalk e a b g c d →
    (allChanges g).filterMap (·.oldIndex) = List.range' a (c - a) ∧
    (allChanges g).filterMap (·.newIndex) = List.range' b (d - b) ∧
    (allChanges g).countP isOld = c - a ∧ (allChanges g).countP isNew = d - b := by
  intro g
  simp only [C13.allChanges_eq_spec, Spec.iterAllChanges]
  induction g with
  | nil => intro a b c d h; obtain ⟨rfl, rfl⟩ := h; simp
  | cons x g ih =>
    intro a b c d h
    obtain ⟨h1, h2, _, h4⟩ := h
    obtain ⟨i1, i2, i3, i4⟩ := ih _ _ _ _ h4
    have hm := hwalk_mono _ _ _ _ _ h4
    simp only [List.flatMap_cons, List.filterMap_append, List.countP_append, op_old_indices,
      op_new_indices, op_old_count, op_new_count, i1, i2, i3, i4, h1, h2]
    refine ⟨?_, ?_, by omega, by omega⟩
    · rw [List.range'_append_1]; congr 1; omega
    · rw [List.range'_append_1]; congr 1; omega

theorem hwalk_ends {e : Nat → Nat → Bool} : ∀ (g : List Op) (a b c d : Nat), HWalk e a b g c d → g ≠ [] →
    ∃ f l, g.head? = some f ∧ g.getLast? = some l ∧ f.oStart = a ∧ f.nStart = b ∧ l.oEnd = c ∧ l.nEnd = d := by
  intro g
  induction g with
  | nil => intro a b c d _ h; exact absurd rfl h
  | cons x g ih =>
    intro a b c d h _
    cases g with
    | nil =>
      obtain ⟨h1, h2, _, h3, h4⟩ := h
      exact ⟨x, x, rfl, rfl, h1, h2, by simp only [Op.oEnd]; omega, by simp only [Op.nEnd]; omega⟩
    | cons y g =>
      obtain ⟨f, l, _, hl, _, _, h5, h6⟩ := ih _ _ _ _ h.2.2.2 (by simp)
      exact ⟨x, l, rfl, by rw [List.getLast?_cons_cons]; exact hl, h.1, h.2.1, h5, h6⟩

/-- **(a)** For every hunk of an exact valid script: the header's ranges (first op's starts, last op's
ends) are ordered and inside the texts, their lengths are the numbers of old-side (` `/`-`) and new-side
(` `/`+`) body lines, and the old-side (new-side) body lines are exactly the old (new) lines
`oS, oS+1, …, oE-1` (`nS, …, nE-1`) in order: the printed starts are the true positions. -/
theorem header_counts (e : Nat → Nat → Bool) (ops : List Op) (n N M : Nat)
    (hw : Walk e 0 0 ops N M) (hx : Exact 0 0 ops) (g : List Op)
    (hg : g ∈ (groupDiffOps ops n).filter fun g => !g.isEmpty) :
    ∃ f l, g.head? = some f ∧ g.getLast? = some l ∧
      f.oStart ≤ l.oEnd ∧ l.oEnd ≤ N ∧ f.nStart ≤ l.nEnd ∧ l.nEnd ≤ M ∧
      (allChanges g).countP isOld = l.oEnd - f.oStart ∧
      (allChanges g).countP isNew = l.nEnd - f.nStart ∧
      (allChanges g).filterMap (·.oldIndex) = List.range' f.oStart (l.oEnd - f.oStart) ∧
      (allChanges g).filterMap (·.newIndex) = List.range' f.nStart (l.nEnd - f.nStart) := by
  have hc := chain_of_walk e ops n N M hw hx
  rw [chain_filter _ _ _ _ hc] at hg
  obtain ⟨a, b, c, d, hne, hh, hN, hM⟩ := chain_mem _ _ _ _ hc g hg
  obtain ⟨f, l, h1, h2, rfl, rfl, rfl, rfl⟩ := hwalk_ends g _ _ _ _ hh hne
  obtain ⟨b1, b2, b3, b4⟩ := hwalk_body g _ _ _ _ hh
  have hm := hwalk_mono _ _ _ _ _ hh
  exact ⟨f, l, h1, h2, hm.1, hN, hm.2, hM, b3, b4, b1, b2⟩

/-! ## (c) strict application reproduces the new text -/

theorem applyBody_append (old : Array Bytes) : ∀ (xs ys : List (CTag × Bytes)) (pos : Nat),
    applyBody old pos (xs ++ ys) =
      match applyBody old pos xs with
      | some (p, out) =>
        (match applyBody old p ys with
         | some (q, out2) => some (q, out ++ out2)
         | none => none)
      | none => none := by
  intro xs
  induction xs with
  | nil => intro ys pos; simp only [List.nil_append, applyBody]; cases applyBody old pos ys <;> rfl
  | cons x xs ih =>
    intro ys pos
    obtain ⟨t, v⟩ := x
    cases t <;> simp only [List.cons_append, applyBody]
    · split
      · rw [ih]
        rcases applyBody old (pos + 1) xs with _ | ⟨p, out⟩
        · rfl
        · dsimp only; rcases applyBody old p ys with _ | ⟨q, o2⟩ <;> rfl
      · rfl
    · split
      · rw [ih]
      · rfl
    · rw [ih]
      rcases applyBody old pos xs with _ | ⟨p, out⟩
      · rfl
      · dsimp only; rcases applyBody old p ys with _ | ⟨q, o2⟩ <;> rfl

theorem bodyOf_append (old new : Array Bytes) : ∀ (xs ys : List Change) (b1 b2 : List (CTag × Bytes)),
    bodyOf old new xs = some b1 → bodyOf old new ys = some b2 → bodyOf old new (xs ++ ys) = some (b1 ++ b2) := by
  intro xs
  induction xs with
  | nil => intro ys b1 b2 h1 h2; simp only [bodyOf, Option.some.injEq] at h1; subst h1; simpa using h2
  | cons c xs ih =>
    intro ys b1 b2 h1 h2
    simp only [bodyOf, List.cons_append] at h1 ⊢
    cases hl : lineOf old new c with
    | none => simp [hl] at h1
    | some l =>
      cases hb : bodyOf old new xs with
      | none => simp [hl, hb] at h1
      | some ls =>
        simp only [hl, hb, Option.some.injEq] at h1; subst h1
        simp [ih ys ls b2 hb h2]

/-- the slice `l[s .. s+k)` -/
abbrev slice (l : List Bytes) (s k : Nat) : List Bytes := (l.drop s).take k

theorem slice_succ (l : List Bytes) (s k : Nat) (v : Bytes) (h : l[s]? = some v) :
    slice l s (k + 1) = v :: slice l (s + 1) k := by
  obtain ⟨hs, rfl⟩ := List.getElem?_eq_some_iff.mp h
  simp only [slice]
  rw [List.drop_eq_getElem_cons hs, List.take_succ_cons]

theorem slice_zero (l : List Bytes) (s : Nat) : slice l s 0 = [] := by simp [slice]

theorem slice_add (l : List Bytes) (s k j : Nat) : slice l s (k + j) = slice l s k ++ slice l (s + k) j := by
  simp only [slice]
  rw [List.take_add, List.drop_drop]

section runs
variable (old new : Array Bytes) (e : Nat → Nat → Bool)

/-- `e` is (at least) equality of the lines -/
def Sound : Prop := ∀ i j, e i j = true → old[i]? = new[j]?

theorem run_equal (he : Sound old new e) : ∀ (k o n : Nat), o + k ≤ old.size → n + k ≤ new.size →
    Gap e o n k →
    ∃ body, bodyOf old new ((List.range k).map fun t => (⟨.equal, some (o+t), some (n+t), false, o+t⟩ : Change))
        = some body ∧ applyBody old o body = some (o + k, slice new.toList n k) := by
  intro k
  induction k with
  | zero => intro o n _ _ _; exact ⟨[], rfl, by simp [applyBody, slice]⟩
  | succ k ih =>
    intro o n ho hn hg
    obtain ⟨body, hb, ha⟩ := ih (o + 1) (n + 1) (by omega) (by omega) (gap_sub 1 k hg (by omega))
    have h0 := he o n (by simpa using hg 0 (by omega))
    obtain ⟨v, hv⟩ : ∃ v, old[o]? = some v := ⟨old[o]'(by omega), Array.getElem?_eq_getElem (by omega)⟩
    have hf : ((fun t => (⟨.equal, some (o+t), some (n+t), false, o+t⟩ : Change)) ∘ Nat.succ) =
        fun t => (⟨.equal, some (o+1+t), some (n+1+t), false, o+1+t⟩ : Change) := by
      funext t; simp only [Function.comp, Change.mk.injEq, Option.some.injEq, true_and]; omega
    refine ⟨(.equal, v) :: body, ?_, ?_⟩
    · rw [List.range_succ_eq_map, List.map_cons, List.map_map, hf]
      simp [bodyOf, lineOf, hv, hb]
    · simp only [applyBody, hv, if_true, ha]
      rw [slice_succ _ _ _ v (by simpa [← h0] using hv)]
      rw [show o + 1 + k = o + (k + 1) from by omega]

theorem run_delete : ∀ (k o : Nat), o + k ≤ old.size →
    ∃ body, bodyOf old new ((List.range k).map fun t => (⟨.delete, some (o+t), none, false, o+t⟩ : Change))
        = some body ∧ applyBody old o body = some (o + k, []) := by
  intro k
  induction k with
  | zero => intro o _; exact ⟨[], rfl, by simp [applyBody]⟩
  | succ k ih =>
    intro o ho
    obtain ⟨body, hb, ha⟩ := ih (o + 1) (by omega)
    obtain ⟨v, hv⟩ : ∃ v, old[o]? = some v := ⟨old[o]'(by omega), Array.getElem?_eq_getElem (by omega)⟩
    have hf : ((fun t => (⟨.delete, some (o+t), none, false, o+t⟩ : Change)) ∘ Nat.succ) =
        fun t => (⟨.delete, some (o+1+t), none, false, o+1+t⟩ : Change) := by
      funext t; simp only [Function.comp, Change.mk.injEq, Option.some.injEq, true_and]; omega
    refine ⟨(.delete, v) :: body, ?_, ?_⟩
    · rw [List.range_succ_eq_map, List.map_cons, List.map_map, hf]
      simp [bodyOf, lineOf, hv, hb]
    · simp only [applyBody, hv, if_true, ha]
      rw [show o + 1 + k = o + (k + 1) from by omega]

theorem run_insert : ∀ (k o n : Nat), n + k ≤ new.size →
    ∃ body, bodyOf old new ((List.range k).map fun t => (⟨.insert, none, some (n+t), true, n+t⟩ : Change))
        = some body ∧ applyBody old o body = some (o, slice new.toList n k) := by
  intro k
  induction k with
  | zero => intro o n _; exact ⟨[], rfl, by simp [applyBody, slice]⟩
  | succ k ih =>
    intro o n hn
    obtain ⟨body, hb, ha⟩ := ih o (n + 1) (by omega)
    obtain ⟨v, hv⟩ : ∃ v, new[n]? = some v := ⟨new[n]'(by omega), Array.getElem?_eq_getElem (by omega)⟩
    have hf : ((fun t => (⟨.insert, none, some (n+t), true, n+t⟩ : Change)) ∘ Nat.succ) =
        fun t => (⟨.insert, none, some (n+1+t), true, n+1+t⟩ : Change) := by
      funext t; simp only [Function.comp, Change.mk.injEq, Option.some.injEq, true_and]; omega
    refine ⟨(.insert, v) :: body, ?_, ?_⟩
    · rw [List.range_succ_eq_map, List.map_cons, List.map_map, hf]
      simp [bodyOf, lineOf, hv, hb]
    · simp only [applyBody, ha]
      rw [slice_succ _ _ _ v (by simpa using hv)]

end runs

theorem applyBody_append_some (old : Array Bytes) (xs ys : List (CTag × Bytes)) (pos p q : Nat)
    (o1 o2 : List Bytes) (h1 : applyBody old pos xs = some (p, o1)) (h2 : applyBody old p ys = some (q, o2)) :
    applyBody old pos (xs ++ ys) = some (q, o1 ++ o2) := by
  rw [applyBody_append, h1]; dsimp only; rw [h2]

theorem op_apply (old new : Array Bytes) (e : Nat → Nat → Bool) (he : Sound old new e) (x : Op) (a b : Nat)
    (h1 : x.oStart = a) (h2 : x.nStart = b) (h3 : x.tag = .equal → Gap e a b x.oLen ∧ x.nLen = x.oLen)
    (ho : a + x.oLen ≤ old.size) (hn : b + x.nLen ≤ new.size) :
    ∃ body, bodyOf old new (Spec.iterChanges x) = some body ∧
      applyBody old a body = some (a + x.oLen, slice new.toList b x.nLen) := by
  cases x with
  | equal o m len =>
    simp only [Op.oStart, Op.nStart, Op.oLen, Op.nLen] at *
    subst h1 h2
    exact run_equal old new e he len o m ho hn (h3 rfl).1
  | delete o len m =>
    simp only [Op.oStart, Op.nStart, Op.oLen, Op.nLen] at *
    subst h1 h2
    simpa [slice, Spec.iterChanges] using run_delete old new len o ho
  | insert o m len =>
    simp only [Op.oStart, Op.nStart, Op.oLen, Op.nLen] at *
    subst h1 h2
    exact run_insert old new len o m hn
  | replace o ol m nl =>
    simp only [Op.oStart, Op.nStart, Op.oLen, Op.nLen] at *
    subst h1 h2
    obtain ⟨b1, hb1, ha1⟩ := run_delete old new ol o ho
    obtain ⟨b2, hb2, ha2⟩ := run_insert old new nl (o + ol) m hn
    exact ⟨b1 ++ b2, bodyOf_append old new _ _ _ _ hb1 hb2, by
      simpa using applyBody_append_some old _ _ _ _ _ _ _ ha1 ha2⟩

/-- the body of an exact walk applies strictly at its start and emits exactly its new-side stretch -/
theorem hwalk_apply (old new : Array Bytes) (e : Nat → Nat → Bool) (he : Sound old new e) :
    ∀ (g : List Op) (a b c d : Nat), HWalk e a b g c d → c ≤ old.size → d ≤ new.size →
    ∃ body, bodyOf old new (allChanges g) = some body ∧
      applyBody old a body = some (c, slice new.toList b (d - b)) := by
  intro g
  simp only [C13.allChanges_eq_spec, Spec.iterAllChanges]
  induction g with
  | nil =>
    intro a b c d h _ _; obtain ⟨rfl, rfl⟩ := h
    exact ⟨[], rfl, by simp [applyBody, slice]⟩
  | cons x g ih =>
    intro a b c d h hc hd
    obtain ⟨h1, h2, h3, h4⟩ := h
    have hm := hwalk_mono _ _ _ _ _ h4
    obtain ⟨b1, hb1, ha1⟩ := op_apply old new e he x a b h1 h2 h3 (by omega) (by omega)
    obtain ⟨b2, hb2, ha2⟩ := ih _ _ _ _ h4 hc hd
    refine ⟨b1 ++ b2, by simpa using bodyOf_append old new _ _ _ _ hb1 hb2, ?_⟩
    rw [applyBody_append_some old _ _ _ _ _ _ _ ha1 ha2, ← slice_add]
    congr 3; omega

theorem gap_slice (old new : Array Bytes) (e : Nat → Nat → Bool) (he : Sound old new e) :
    ∀ (k a b : Nat), Gap e a b k → a + k ≤ old.size → b + k ≤ new.size →
    slice old.toList a k = slice new.toList b k := by
  intro k
  induction k with
  | zero => intros; simp [slice]
  | succ k ih =>
    intro a b hg ha hb
    have h0 := he a b (by simpa using hg 0 (by omega))
    obtain ⟨v, hv⟩ : ∃ v, old[a]? = some v := ⟨old[a]'(by omega), Array.getElem?_eq_getElem (by omega)⟩
    rw [slice_succ _ _ _ v (by simpa using hv), slice_succ _ _ _ v (by simpa [← h0] using hv),
      ih (a + 1) (b + 1) (gap_sub 1 k hg (by omega)) (by omega) (by omega)]

theorem drop_eq_slice (l : List Bytes) (s k : Nat) : l.drop s = slice l s k ++ l.drop (s + k) := by
  simp only [slice]; rw [← List.drop_drop, List.take_append_drop]

theorem slice_length (l : List Bytes) (s k : Nat) (h : s + k ≤ l.length) : (slice l s k).length = k := by
  simp only [slice, List.length_take, List.length_drop]; omega

theorem slice_to_end (l : List Bytes) (s k : Nat) (h : l.length = s + k) : slice l s k = l.drop s := by
  simp only [slice]; exact List.take_of_length_le (by simp; omega)

/-- applying the hunks of a chain from its start produces the rest of the new text -/
theorem chain_apply (old new : Array Bytes) (e : Nat → Nat → Bool) (he : Sound old new e) :
    ∀ (gs : List (List Op)) (s a b : Nat), Chain e old.size new.size s a b gs →
    ∃ hs, hunksOf old new gs = some hs ∧ applyFrom old a b hs = some (new.toList.drop b) := by
  intro gs
  induction gs with
  | nil =>
    intro s a b ⟨k, hN, hM, hg⟩
    refine ⟨[], rfl, ?_⟩
    simp only [applyFrom]
    rw [← slice_to_end old.toList a k (by simpa using hN), ← slice_to_end new.toList b k (by simpa using hM),
      gap_slice old new e he k a b hg (by omega) (by omega)]
  | cons g gs ih =>
    intro s a b ⟨k, c, d, _, hg, hne, hw, hc⟩
    obtain ⟨hs, hhs, hap⟩ := ih _ _ _ hc
    have hb := chain_bound _ _ _ _ hc
    have hm := hwalk_mono _ _ _ _ _ hw
    obtain ⟨f, l, hf, hl, h1, h2, h3, h4⟩ := hwalk_ends g _ _ _ _ hw hne
    obtain ⟨body, hbody, hab⟩ := hwalk_apply old new e he g _ _ _ _ hw hb.1 hb.2
    refine ⟨⟨a + k, c, b + k, d, body⟩ :: hs, ?_, ?_⟩
    · simp only [hunksOf, hunkOf, hf, hl, hbody, hhs, h1, h2, h3, h4]
    · have hlen : (slice new.toList (b + k) (d - (b + k))).length = d - (b + k) :=
        slice_length _ _ _ (by simp only [Array.length_toList]; omega)
      simp only [applyFrom, hab, hap]
      rw [if_pos ⟨by omega, by omega, by omega⟩, if_pos ⟨trivial, by omega⟩]
      show some (slice old.toList a (a + k - a) ++ _ ++ _) = _
      rw [show a + k - a = k from by omega, gap_slice old new e he k a b hg (by omega) (by omega),
        drop_eq_slice new.toList b k, drop_eq_slice new.toList (b + k) (d - (b + k)),
        show b + k + (d - (b + k)) = d from by omega, List.append_assoc]

/-- **(c)** Strictly applying the hunks of an exact valid line script to the old lines yields exactly the
new lines.  (All hunks exist: no index is out of bounds.) -/
theorem apply_hunks (old new : Array Bytes) (e : Nat → Nat → Bool) (he : Sound old new e)
    (ops : List Op) (n : Nat) (hw : Walk e 0 0 ops old.size new.size) (hx : Exact 0 0 ops) :
    ∃ hs, hunksOf old new ((groupDiffOps ops n).filter fun g => !g.isEmpty) = some hs ∧
      applyHunks old hs = some new.toList := by
  have hc := chain_of_walk e ops n _ _ hw hx
  rw [chain_filter _ _ _ _ hc]
  simpa [applyHunks] using chain_apply old new e he _ _ _ _ hc

/-- the comparison of the text layer (lines compare by their bytes) is sound -/
theorem sound_ofTokens (old new : Array Bytes) : Sound old new (Spec.eqB (Env.ofTokens old new)) := by
  intro i j h
  simp only [Spec.eqB, Env.ofTokens] at h
  cases ho : old[i]? with
  | none => simp [ho] at h
  | some a =>
    cases hn : new[j]? with
    | none => simp [ho, hn] at h
    | some b => simp [ho, hn] at h; rw [h]

/-! ## (b) order -/

theorem hunkOf_some {old new : Array Bytes} {g : List Op} {h : SHunk} (hh : hunkOf old new g = some h) :
    ∃ f l body, g.head? = some f ∧ g.getLast? = some l ∧ bodyOf old new (allChanges g) = some body ∧
      h = ⟨f.oStart, l.oEnd, f.nStart, l.nEnd, body⟩ := by
  unfold hunkOf at hh
  split at hh
  · rename_i f l body h1 h2 h3
    exact ⟨f, l, body, h1, h2, h3, by simpa using hh.symm⟩
  · simp at hh

theorem hunksOf_cons {old new : Array Bytes} {g : List Op} {gs : List (List Op)} {hs : List SHunk}
    (hh : hunksOf old new (g :: gs) = some hs) :
    ∃ h hs', hunkOf old new g = some h ∧ hunksOf old new gs = some hs' ∧ hs = h :: hs' := by
  simp only [hunksOf] at hh
  split at hh
  · rename_i h hs' h1 h2
    exact ⟨h, hs', h1, h2, by simpa using hh.symm⟩
  · simp at hh

/-- the hunk ranges are ordered and inside the texts -/
def InRange (N M : Nat) (h : SHunk) : Prop := h.oS ≤ h.oE ∧ h.oE ≤ N ∧ h.nS ≤ h.nE ∧ h.nE ≤ M

/-- `h1` ends strictly before `h2` starts, on both sides -/
def Before (h1 h2 : SHunk) : Prop := h1.oE < h2.oS ∧ h1.nE < h2.nS

theorem chain_ordered {old new : Array Bytes} {e : Nat → Nat → Bool} {N M : Nat} :
    ∀ (gs : List (List Op)) (s a b : Nat), Chain e N M s a b gs → ∀ hs, hunksOf old new gs = some hs →
    (∀ h ∈ hs, a + s ≤ h.oS ∧ b + s ≤ h.nS ∧ InRange N M h) ∧ hs.Pairwise Before := by
  intro gs
  induction gs with
  | nil => intro s a b _ hs hh; simp only [hunksOf, Option.some.injEq] at hh; subst hh; simp
  | cons g gs ih =>
    intro s a b ⟨k, c, d, hk, _, hne, hw, hc⟩ hs hh
    obtain ⟨h, hs', h1, h2, rfl⟩ := hunksOf_cons hh
    obtain ⟨f, l, body, hf, hl, _, rfl⟩ := hunkOf_some h1
    obtain ⟨f', l', hf', hl', e1, e2, e3, e4⟩ := hwalk_ends g _ _ _ _ hw hne
    rw [hf] at hf'; rw [hl] at hl'
    simp only [Option.some.injEq] at hf' hl'; subst hf' hl'
    obtain ⟨i1, i2⟩ := ih _ _ _ hc hs' h2
    have hb := chain_bound _ _ _ _ hc
    have hm := hwalk_mono _ _ _ _ _ hw
    constructor
    · intro h hmem
      rcases List.mem_cons.mp hmem with rfl | hmem
      · simp only [InRange]; omega
      · have := i1 h hmem; simp only [InRange] at this ⊢; omega
    · refine List.pairwise_cons.mpr ⟨?_, i2⟩
      intro h hmem
      have := i1 h hmem
      simp only [Before]; omega

/-- **(b)** The hunks come in strictly increasing, non-overlapping (not even touching) order on both
sides, each with ordered ranges inside the two texts. -/
theorem hunks_ordered (old new : Array Bytes) (e : Nat → Nat → Bool) (ops : List Op) (n N M : Nat)
    (hw : Walk e 0 0 ops N M) (hx : Exact 0 0 ops) (hs : List SHunk)
    (hh : hunksOf old new ((groupDiffOps ops n).filter fun g => !g.isEmpty) = some hs) :
    hs.Pairwise Before ∧ ∀ h ∈ hs, InRange N M h := by
  have hc := chain_of_walk e ops n _ _ hw hx
  rw [chain_filter _ _ _ _ hc] at hh
  obtain ⟨h1, h2⟩ := chain_ordered _ _ _ _ hc hs hh
  exact ⟨h2, fun h hm => (h1 h hm).2.2⟩

/-! ## (d) equal inputs -/

/-- **(d)** A script without changes renders as the empty string, whatever the header setting. -/
theorem render_no_changes (ops : List Op) (n : Nat) (header : Option (Bytes × Bytes)) (old new : Array Bytes)
    (nlt hint isLossy : Bool) (hv : AltOps ops) (h : changesOf ops = []) :
    renderUnified n header ops old new nlt hint isLossy = .ok [] := by
  simp [renderUnified, group_no_changes ops n hv h]

/-! ## (e) every hunk has a change; context bounds -/

theorem altOps_nonempty : ∀ (l : List Op), AltOps l → ∀ x ∈ l, x.isEmpty = false
  | [], _, x, hx => by simp at hx
  | [y], h, x, hx => by simp at hx; subst hx; simpa [AltOps] using h
  | y :: z :: cs, h, x, hx => by
    rcases List.mem_cons.mp hx with rfl | hx
    · simpa using h.1
    · exact altOps_nonempty (z :: cs) h.2.2 x hx

theorem mem_changesOf {l : List Op} {x : Op} : x ∈ changesOf l ↔ x ∈ l ∧ x.tag ≠ .equal := by
  rw [changesOf_eq_filter]; simp

/-- the non-Equal ops of a group are ops of the input -/
theorem group_change_mem (ops : List Op) (n : Nat) (g : List Op) (hg : g ∈ groupDiffOps ops n) (x : Op)
    (hx : x ∈ g) (ht : x.tag ≠ .equal) : x ∈ ops := by
  have h1 : x ∈ changesOf (groupDiffOps ops n).flatten :=
    mem_changesOf.mpr ⟨List.mem_flatten.mpr ⟨g, hg, hx⟩, ht⟩
  rw [group_keeps_changes] at h1
  exact (mem_changesOf.mp h1).1

theorem op_has_change (x : Op) (ht : x.tag ≠ .equal) (hne : x.isEmpty = false) :
    ∃ c ∈ Spec.iterChanges x, c.tag ≠ .equal := by
  cases x with
  | equal o m len => simp [Op.tag] at ht
  | delete o len m =>
    have : 0 < len := by simp [Op.isEmpty, Op.oLen, Op.nLen] at hne; omega
    exact ⟨⟨.delete, some (o+0), none, false, o+0⟩, by simp only [Spec.iterChanges, List.mem_map, List.mem_range]; exact ⟨0, this, rfl⟩, by simp⟩
  | insert o m len =>
    have : 0 < len := by simp [Op.isEmpty, Op.oLen, Op.nLen] at hne; omega
    exact ⟨⟨.insert, none, some (m+0), true, m+0⟩, by simp only [Spec.iterChanges, List.mem_map, List.mem_range]; exact ⟨0, this, rfl⟩, by simp⟩
  | replace o ol m nl =>
    by_cases h0 : 0 < ol
    · exact ⟨⟨.delete, some (o+0), none, false, o+0⟩, by
        simp only [Spec.iterChanges, List.mem_append, List.mem_map, List.mem_range]; exact Or.inl ⟨0, h0, rfl⟩, by simp⟩
    · have : 0 < nl := by simp [Op.isEmpty, Op.oLen, Op.nLen] at hne; omega
      exact ⟨⟨.insert, none, some (m+0), true, m+0⟩, by
        simp only [Spec.iterChanges, List.mem_append, List.mem_map, List.mem_range]; exact Or.inr ⟨0, this, rfl⟩, by simp⟩

/-- **(e), first part.** Every hunk body contains a `-` or `+` line. -/
theorem hunk_has_change (ops : List Op) (n : Nat) (hv : AltOps ops) (g : List Op)
    (hg : g ∈ groupDiffOps ops n) : ∃ c ∈ allChanges g, c.tag ≠ .equal := by
  obtain ⟨x, hx, ht⟩ := changesOf_ne_nil.mp (group_has_change ops n hv g hg)
  have hne := altOps_nonempty ops hv x (group_change_mem ops n g hg x hx ht)
  obtain ⟨c, hc, hct⟩ := op_has_change x ht hne
  refine ⟨c, ?_, hct⟩
  rw [C13.allChanges_eq_spec]
  exact List.mem_flatMap.mpr ⟨x, hx, hc⟩

/-! ## (f) the byte renderer prints the structured hunks -/

/-- one body line as printed: tag byte, the text (lossily decoded on the `Display` path), a newline
unless the diff is newline-terminated (the text then carries its own), and the marker line when the diff
is newline-terminated but this line's text does not end in a newline -/
def renderLine (nlt hint isLossy : Bool) (l : CTag × Bytes) : Bytes :=
  [tagByte l.1] ++ (if isLossy then lossy l.2 else l.2) ++ (if nlt then [] else [10]) ++
  (if nlt && !endsWithNewline l.2 then
    (if hint then ascii "\n\\ No newline at end of file" else []) ++ [10] else [])

/-- a structured hunk as printed -/
def renderSHunk (nlt hint isLossy : Bool) (h : SHunk) : Bytes :=
  ascii "@@ -" ++ hunkRange h.oS h.oE ++ ascii " +" ++ hunkRange h.nS h.nE ++ ascii " @@" ++ [10] ++
  h.body.flatMap (renderLine nlt hint isLossy)

def fileHeader : Option (Bytes × Bytes) → Bytes
  | some (a, b) => ascii "--- " ++ a ++ [10] ++ ascii "+++ " ++ b ++ [10]
  | none => []

theorem renderChange_eq (old new : Array Bytes) (nlt hint isLossy : Bool) (c : Change) (v : Bytes)
    (hv : changeValue old new c = .ok v) :
    renderChange old new nlt hint isLossy c = .ok (renderLine nlt hint isLossy (c.tag, v)) := by
  simp only [renderChange, hv, renderLine]
  cases nlt <;> cases endsWithNewline v <;> simp

theorem lineOf_some {old new : Array Bytes} {c : Change} {l : CTag × Bytes} (h : lineOf old new c = some l) :
    changeValue old new c = .ok l.2 ∧ l.1 = c.tag := by
  unfold lineOf at h
  unfold changeValue
  split at h
  · rename_i v hv; rw [hv]; simp only [Option.some.injEq] at h; subst h; exact ⟨rfl, rfl⟩
  · simp at h

theorem renderChanges_of_body (old new : Array Bytes) (nlt hint isLossy : Bool) :
    ∀ (cs : List Change) (body : List (CTag × Bytes)), bodyOf old new cs = some body →
    renderChanges old new nlt hint isLossy cs = .ok (body.flatMap (renderLine nlt hint isLossy)) := by
  intro cs
  induction cs with
  | nil => intro body h; simp only [bodyOf, Option.some.injEq] at h; subst h; rfl
  | cons c cs ih =>
    intro body h
    simp only [bodyOf] at h
    split at h
    · rename_i l ls h1 h2
      simp only [Option.some.injEq] at h; subst h
      obtain ⟨hv, ht⟩ := lineOf_some h1
      simp only [renderChanges, renderChange_eq old new nlt hint isLossy c l.2 hv, ih ls h2,
        List.flatMap_cons, ← ht]
    · simp at h

/-- **(f)** as asked: a hunk with a change is its header line followed by its body lines -/
theorem renderHunk_eq (g : List Op) (old new : Array Bytes) (nlt hint isLossy : Bool) (hd lines : Bytes)
    (hne : allChanges g ≠ []) (hh : hunkHeader g = .ok hd)
    (hl : renderChanges old new nlt hint isLossy (allChanges g) = .ok lines) :
    renderHunk g old new nlt hint isLossy = .ok (hd ++ [10] ++ lines) := by
  unfold renderHunk
  split
  · rename_i h; exact absurd h hne
  · simp only [hh, hl]

theorem renderHunk_of_hunk (g : List Op) (old new : Array Bytes) (nlt hint isLossy : Bool) (h : SHunk)
    (hne : allChanges g ≠ []) (hh : hunkOf old new g = some h) :
    renderHunk g old new nlt hint isLossy = .ok (renderSHunk nlt hint isLossy h) := by
  obtain ⟨f, l, body, hf, hl, hb, rfl⟩ := hunkOf_some hh
  have hhd : hunkHeader g = .ok (ascii "@@ -" ++ hunkRange f.oStart l.oEnd ++ ascii " +" ++
      hunkRange f.nStart l.nEnd ++ ascii " @@") := by simp only [hunkHeader, hf, hl]
  rw [renderHunk_eq g old new nlt hint isLossy _ _ hne hhd
    (renderChanges_of_body old new nlt hint isLossy _ _ hb)]
  simp [renderSHunk]

theorem renderHunks_of_hunks (old new : Array Bytes) (nlt hint isLossy : Bool) :
    ∀ (gs : List (List Op)) (hs : List SHunk), (∀ g ∈ gs, allChanges g ≠ []) → hunksOf old new gs = some hs →
    renderHunks gs old new nlt hint isLossy = .ok (hs.flatMap (renderSHunk nlt hint isLossy)) := by
  intro gs
  induction gs with
  | nil => intro hs _ h; simp only [hunksOf, Option.some.injEq] at h; subst h; rfl
  | cons g gs ih =>
    intro hs hne hh
    obtain ⟨h, hs', h1, h2, rfl⟩ := hunksOf_cons hh
    simp only [renderHunks, renderHunk_of_hunk g old new nlt hint isLossy h (hne g (by simp)) h1,
      ih hs' (fun g hg => hne g (by simp [hg])) h2, List.flatMap_cons]

/-- **(c)+(f) together.** For an exact valid alternating line script the renderer does not fail and prints
exactly: nothing when there are no hunks, else the file header (if any) followed by the printed form of the
structured hunks — and strictly applying these hunks to the old lines yields the new lines. -/
theorem render_unified (old new : Array Bytes) (e : Nat → Nat → Bool) (he : Sound old new e)
    (ops : List Op) (n : Nat) (header : Option (Bytes × Bytes)) (nlt hint isLossy : Bool)
    (hw : Walk e 0 0 ops old.size new.size) (hx : Exact 0 0 ops) (hv : AltOps ops) :
    ∃ hs, hunksOf old new ((groupDiffOps ops n).filter fun g => !g.isEmpty) = some hs ∧
      applyHunks old hs = some new.toList ∧
      renderUnified n header ops old new nlt hint isLossy =
        .ok (if hs = [] then [] else fileHeader header ++ hs.flatMap (renderSHunk nlt hint isLossy)) := by
  obtain ⟨hs, h1, h2⟩ := apply_hunks old new e he ops n hw hx
  refine ⟨hs, h1, h2, ?_⟩
  have hne : ∀ g ∈ (groupDiffOps ops n).filter (fun g => !g.isEmpty), allChanges g ≠ [] := by
    intro g hg
    obtain ⟨c, hc, _⟩ := hunk_has_change ops n hv g (List.mem_filter.mp hg).1
    exact List.ne_nil_of_mem hc
  have hr := renderHunks_of_hunks old new nlt hint isLossy _ hs hne h1
  unfold renderUnified
  dsimp only
  cases hgs : (groupDiffOps ops n).filter (fun g => !g.isEmpty) with
  | nil => rw [hgs] at h1; simp only [hunksOf, Option.some.injEq] at h1; subst h1; rfl
  | cons g gs =>
    rw [hgs] at h1 hr
    obtain ⟨h, hs', _, _, rfl⟩ := hunksOf_cons h1
    simp only [hr]
    cases header with
    | none => simp [fileHeader]
    | some ab => obtain ⟨a, b⟩ := ab; simp [fileHeader]

/-! ## (g) the range format -/

/-- **(g)** `hunkRange s e` for the 0-based half-open range `[s, e)`: one line prints as its 1-based
number; an empty range prints the line *before* it (`s`, since `s + 1 - 1 = s`) and count 0; otherwise the
1-based start and the count. -/
theorem hunkRange_format (s e : Nat) :
    (e - s = 1 → hunkRange s e = natBytes (s + 1)) ∧
    (e - s = 0 → hunkRange s e = natBytes s ++ ascii "," ++ natBytes 0) ∧
    (2 ≤ e - s → hunkRange s e = natBytes (s + 1) ++ ascii "," ++ natBytes (e - s)) := by
  refine ⟨fun h => ?_, fun h => ?_, fun h => ?_⟩
  · simp [hunkRange, h]
  · simp [hunkRange, h]
  · have h1 : e - s ≠ 1 := by omega
    have h0 : e - s ≠ 0 := by omega
    simp [hunkRange, h1, h0]

/-! ## (e) continued: shape of a group -/

theorem piece_tag {x y : Op} (h : Piece x y) : y.tag = x.tag := by
  rcases h with rfl | ⟨o, m, len, d, k, rfl, rfl, _⟩ <;> rfl

theorem trimmed_tags {mid g : List Op} (h : Trimmed mid g) : g.map Op.tag = mid.map Op.tag := by
  rcases h with ⟨x, y, rfl, rfl, hp⟩ | ⟨x, y, inner, x', y', rfl, rfl, hp, hp'⟩
  · simp [piece_tag hp]
  · simp [piece_tag hp, piece_tag hp']

/-- the tags of a group are a contiguous stretch of the tags of the input: every adjacency pattern of the
script (no two adjacent Equal ops, strict alternation, …) holds inside each hunk -/
theorem group_tags_infix (ops : List Op) (n : Nat) (g : List Op) (hg : g ∈ groupDiffOps ops n) :
    g.map Op.tag <:+: ops.map Op.tag := by
  obtain ⟨pre, mid, post, rfl, ht⟩ := group_contiguous ops n g hg
  rw [trimmed_tags ht]
  exact ⟨pre.map Op.tag, post.map Op.tag, by simp⟩

theorem NAEt_append_right : ∀ (l r : List Tag), NAEt (l ++ r) → NAEt r
  | [], _, h => h
  | [_], [], _ => trivial
  | [_], _ :: _, h => h.2
  | _ :: b :: l, r, h => NAEt_append_right (b :: l) r h.2

theorem NAEt_append_left : ∀ (l r : List Tag), NAEt (l ++ r) → NAEt l
  | [], _, _ => trivial
  | [_], _, _ => trivial
  | a :: b :: l, r, h => ⟨h.1, NAEt_append_left (b :: l) r h.2⟩

theorem group_NAE (ops : List Op) (n : Nat) (hv : AltOps ops) (g : List Op) (hg : g ∈ groupDiffOps ops n) :
    NAE g := by
  obtain ⟨p, q, hpq⟩ := group_tags_infix ops n g hg
  have h : NAEt (p ++ g.map Op.tag ++ q) := by rw [hpq]; exact NAE_of_AltOps hv
  exact NAEt_append_right _ _ (NAEt_append_left _ _ h)

/-- within one change op the `-` lines come before the `+` lines -/
theorem op_dels_before_inss (x : Op) (ht : x.tag ≠ .equal) :
    ∃ D I, Spec.iterChanges x = D ++ I ∧ (∀ c ∈ D, c.tag = .delete) ∧ (∀ c ∈ I, c.tag = .insert) := by
  cases x with
  | equal o m len => simp [Op.tag] at ht
  | delete o len m => exact ⟨_, [], (List.append_nil _).symm, by simp [Spec.iterChanges], by simp⟩
  | insert o m len => exact ⟨[], _, rfl, by simp, by simp [Spec.iterChanges]⟩
  | replace o ol m nl => exact ⟨_, _, rfl, by simp, by simp⟩

theorem op_equal_changes (x : Op) (ht : x.tag = .equal) :
    (∀ c ∈ Spec.iterChanges x, c.tag = .equal) ∧ (Spec.iterChanges x).length = x.oLen := by
  cases x <;> simp [Op.tag] at ht
  simp [Spec.iterChanges, Op.oLen]

theorem op_change_changes (x : Op) (ht : x.tag ≠ .equal) : ∀ c ∈ Spec.iterChanges x, c.tag ≠ .equal := by
  cases x <;> simp [Op.tag] at ht <;> simp [Spec.iterChanges] <;> grind

theorem changesOf_equal_cons {x : Op} {l : List Op} (ht : x.tag = .equal) : changesOf (x :: l) = changesOf l := by
  cases x <;> simp [Op.tag] at ht; rfl

/-- non-Equal ops are not empty -/
def OKOps (l : List Op) : Prop := ∀ x ∈ l, x.tag ≠ .equal → x.isEmpty = false

theorem head_change (y : Op) (l : List Op) (ht : y.tag ≠ .equal) (hne : y.isEmpty = false) :
    ∃ c, ((y :: l).flatMap Spec.iterChanges).head? = some c ∧ c.tag ≠ .equal := by
  obtain ⟨c0, hc0, _⟩ := op_has_change y ht hne
  cases hF : Spec.iterChanges y with
  | nil => rw [hF] at hc0; simp at hc0
  | cons c t =>
    refine ⟨c, by simp [hF], op_change_changes y ht c (by simp [hF])⟩

theorem last_change (x : Op) (ht : x.tag ≠ .equal) (hne : x.isEmpty = false) :
    ∃ c, (Spec.iterChanges x).getLast? = some c ∧ c.tag ≠ .equal := by
  obtain ⟨c0, hc0, _⟩ := op_has_change x ht hne
  have hnil : Spec.iterChanges x ≠ [] := List.ne_nil_of_mem hc0
  exact ⟨_, List.getLast?_eq_some_getLast hnil, op_change_changes x ht _ (List.getLast_mem hnil)⟩

theorem trail_context (n : Nat) : ∀ (L : List Op), NAE L → OKOps L → changesOf L ≠ [] →
    (∀ x, L.getLast? = some x → x.tag = .equal → x.oLen ≤ n) →
    ∃ core trail, L.flatMap Spec.iterChanges = core ++ trail ∧ (∀ c ∈ trail, c.tag = .equal) ∧
      trail.length ≤ n ∧ ∃ c, core.getLast? = some c ∧ c.tag ≠ .equal := by
  intro L
  induction L with
  | nil => intro _ _ h; exact absurd rfl h
  | cons x L ih =>
    intro hN hO hC hL
    by_cases hc : changesOf L = []
    · have hx : x.tag ≠ .equal := by
        intro ht; rw [changesOf_equal_cons ht] at hC; exact hC hc
      obtain ⟨c, hc1, hc2⟩ := last_change x hx (hO x (by simp) hx)
      rcases NAE_no_changes (NAE_tail hN) hc with rfl | ⟨o, m, len, rfl⟩
      · exact ⟨Spec.iterChanges x, [], by simp, by simp, by simp, c, hc1, hc2⟩
      · have h1 := op_equal_changes (.equal o m len) rfl
        refine ⟨Spec.iterChanges x, Spec.iterChanges (.equal o m len), by simp, h1.1, ?_, c, hc1, hc2⟩
        rw [h1.2]; exact hL (.equal o m len) (by simp) rfl
    · have hLne : L ≠ [] := by rintro rfl; exact hc rfl
      obtain ⟨core, trail, h1, h2, h3, c, h4, h5⟩ := ih (NAE_tail hN)
        (fun y hy => hO y (List.mem_cons_of_mem _ hy)) hc
        (fun y hy => hL y (by rw [List.getLast?_cons_of_ne_nil hLne]; exact hy))
      refine ⟨Spec.iterChanges x ++ core, trail, by simp [h1], h2, h3, c, ?_, h5⟩
      rw [List.getLast?_append, h4]; rfl

theorem context_core (n : Nat) (all lead : List Change) (L : List Op)
    (e1 : all = lead ++ L.flatMap Spec.iterChanges)
    (e2 : ∀ c ∈ lead, c.tag = .equal) (e3 : lead.length ≤ n) (hN : NAE L) (hO : OKOps L)
    (hC : changesOf L ≠ []) (hL : ∀ x, L.getLast? = some x → x.tag = .equal → x.oLen ≤ n)
    (hy : ∃ y L', L = y :: L' ∧ y.tag ≠ .equal) :
    ∃ lead core trail, all = lead ++ core ++ trail ∧
      (∀ c ∈ lead, c.tag = .equal) ∧ lead.length ≤ n ∧ (∀ c ∈ trail, c.tag = .equal) ∧ trail.length ≤ n ∧
      (∃ c, core.head? = some c ∧ c.tag ≠ .equal) ∧ (∃ c, core.getLast? = some c ∧ c.tag ≠ .equal) := by
  obtain ⟨y, L', hy, hyt⟩ := hy
  obtain ⟨core, trail, h1, h2, h3, c, h4, h5⟩ := trail_context n L hN hO hC hL
  obtain ⟨c0, h6, h7⟩ := head_change y L' hyt (hO y (by simp [hy]) hyt)
  have hcore : core ≠ [] := by rintro rfl; simp at h4
  refine ⟨lead, core, trail, by rw [e1, h1, List.append_assoc], e2, e3, h2, h3, ⟨c0, ?_, h7⟩, c, h4, h5⟩
  rw [← hy, h1] at h6
  cases core with
  | nil => exact absurd rfl hcore
  | cons a t => simpa using h6

/-- **(e), context.** The body of every hunk is: at most `n` context lines, then a stretch that starts and
ends with a `-`/`+` line, then at most `n` context lines. -/
theorem hunk_context (ops : List Op) (n : Nat) (hv : AltOps ops) (g : List Op) (hg : g ∈ groupDiffOps ops n) :
    ∃ lead core trail, allChanges g = lead ++ core ++ trail ∧
      (∀ c ∈ lead, c.tag = .equal) ∧ lead.length ≤ n ∧ (∀ c ∈ trail, c.tag = .equal) ∧ trail.length ≤ n ∧
      (∃ c, core.head? = some c ∧ c.tag ≠ .equal) ∧ (∃ c, core.getLast? = some c ∧ c.tag ≠ .equal) := by
  have hN := group_NAE ops n hv g hg
  have hO : OKOps g := fun x hx ht => altOps_nonempty ops hv x (group_change_mem ops n g hg x hx ht)
  have hC := group_has_change ops n hv g hg
  obtain ⟨_, hB1, hB2⟩ := group_equal_bounds' ops n g hg
  rw [C13.allChanges_eq_spec]; unfold Spec.iterAllChanges
  cases g with
  | nil => exact absurd rfl hC
  | cons x g' =>
    by_cases hx : x.tag = .equal
    · have h1 := op_equal_changes x hx
      have hC' : changesOf g' ≠ [] := by rwa [changesOf_equal_cons hx] at hC
      cases g' with
      | nil => exact absurd rfl hC'
      | cons y g'' =>
        exact context_core n _ (Spec.iterChanges x) (y :: g'') (by simp) h1.1
          (by rw [h1.2]; exact hB1 x rfl hx)
          (NAE_tail hN) (fun z hz => hO z (List.mem_cons_of_mem _ hz)) hC'
          (fun z hz => hB2 z (by rw [List.getLast?_cons_cons]; exact hz)) ⟨y, g'', rfl, NAE_head hN hx y rfl⟩
    · exact context_core n _ [] (x :: g') (by simp) (by simp) (by simp) hN hO hC hB2 ⟨x, g', rfl, hx⟩

/-- strict alternation of Equal and non-Equal ops (C09's normal form), on tags -/
def SAltT : List Tag → Prop
  | [] => True
  | [_] => True
  | a :: b :: cs => ((a = .equal) ≠ (b = .equal)) ∧ SAltT (b :: cs)

theorem SAltT_append_right : ∀ (l r : List Tag), SAltT (l ++ r) → SAltT r
  | [], _, h => h
  | [_], [], _ => trivial
  | [_], _ :: _, h => h.2
  | _ :: b :: l, r, h => SAltT_append_right (b :: l) r h.2

theorem SAltT_append_left : ∀ (l r : List Tag), SAltT (l ++ r) → SAltT l
  | [], _, _ => trivial
  | [_], _, _ => trivial
  | a :: b :: l, r, h => ⟨h.1, SAltT_append_left (b :: l) r h.2⟩

/-- **(e), deletions before insertions.** In a strictly alternating script every hunk is strictly
alternating too, so each run of `-`/`+` lines between context lines is the expansion of a single op, and
that expansion lists its `-` lines before its `+` lines. -/
theorem hunk_change_runs (ops : List Op) (n : Nat) (ha : SAltT (ops.map Op.tag)) (g : List Op)
    (hg : g ∈ groupDiffOps ops n) :
    SAltT (g.map Op.tag) ∧
    ∀ x ∈ g, x.tag ≠ .equal →
      ∃ D I, Spec.iterChanges x = D ++ I ∧ (∀ c ∈ D, c.tag = .delete) ∧ (∀ c ∈ I, c.tag = .insert) := by
  obtain ⟨p, q, hpq⟩ := group_tags_infix ops n g hg
  rw [← hpq] at ha
  exact ⟨SAltT_append_right _ _ (SAltT_append_left _ _ ha), fun x _ ht => op_dels_before_inss x ht⟩

/-! ### no `+` line is directly followed by a `-` line -/

def NoID : List Change → Prop
  | [] => True
  | [_] => True
  | a :: b :: r => ¬ (a.tag = .insert ∧ b.tag = .delete) ∧ NoID (b :: r)

theorem noID_append : ∀ (A B : List Change), NoID A → NoID B →
    (∀ a b, A.getLast? = some a → B.head? = some b → ¬ (a.tag = .insert ∧ b.tag = .delete)) → NoID (A ++ B)
  | [], B, _, hB, _ => hB
  | [a], [], _, _, _ => trivial
  | [a], b :: B, _, hB, hj => ⟨hj a b rfl rfl, hB⟩
  | a :: a' :: A, B, hA, hB, hj =>
    ⟨hA.1, noID_append (a' :: A) B hA.2 hB (fun x y hx hy => hj x y (by rw [List.getLast?_cons_cons]; exact hx) hy)⟩

theorem noID_of_no_insert : ∀ (l : List Change), (∀ c ∈ l, c.tag ≠ .insert) → NoID l
  | [], _ => trivial
  | [_], _ => trivial
  | a :: b :: r, h => ⟨fun hh => h a (by simp) hh.1, noID_of_no_insert (b :: r) (fun c hc => h c (by simp [hc]))⟩

theorem noID_of_no_delete : ∀ (l : List Change), (∀ c ∈ l, c.tag ≠ .delete) → NoID l
  | [], _ => trivial
  | [_], _ => trivial
  | a :: b :: r, h => ⟨fun hh => h b (by simp) hh.2, noID_of_no_delete (b :: r) (fun c hc => h c (by simp [hc]))⟩

theorem noID_op (x : Op) : NoID (Spec.iterChanges x) := by
  by_cases ht : x.tag = .equal
  · exact noID_of_no_insert _ (fun c hc => by rw [(op_equal_changes x ht).1 c hc]; simp)
  · obtain ⟨D, I, h, hD, hI⟩ := op_dels_before_inss x ht
    rw [h]
    refine noID_append D I (noID_of_no_insert _ (fun c hc => by rw [hD c hc]; simp))
      (noID_of_no_delete _ (fun c hc => by rw [hI c hc]; simp)) ?_
    intro a b ha _ hh
    have := hD a (List.mem_of_getLast? ha)
    rw [this] at hh; simp at hh

/-- a strictly alternating list of non-empty ops expands without a `+` directly before a `-` -/
theorem noID_flatMap : ∀ (L : List Op), SAltT (L.map Op.tag) → (∀ x ∈ L, x.isEmpty = false) →
    NoID (L.flatMap Spec.iterChanges)
  | [], _, _ => trivial
  | x :: L, hS, hE => by
    rw [List.flatMap_cons]
    have hS' : SAltT (L.map Op.tag) := SAltT_append_right [x.tag] _ hS
    refine noID_append _ _ (noID_op x) (noID_flatMap L hS' (fun y hy => hE y (by simp [hy]))) ?_
    intro a b ha hb hh
    by_cases ht : x.tag = .equal
    · rw [(op_equal_changes x ht).1 a (List.mem_of_getLast? ha)] at hh; simp at hh
    · cases L with
      | nil => simp at hb
      | cons y L' =>
        have hy : y.tag = .equal := by
          have h1 := hS.1
          exact Decidable.byContradiction fun h => h1 (by simp [ht, h])
        have hne : Spec.iterChanges y ≠ [] := by
          intro h0
          have hl := (op_equal_changes y hy).2
          have hem := hE y (by simp)
          rw [h0] at hl
          cases y <;> simp [Op.tag] at hy
          simp [Op.isEmpty, Op.oLen, Op.nLen] at hem hl; omega
        cases hF : Spec.iterChanges y with
        | nil => exact hne hF
        | cons c t =>
          simp only [List.flatMap_cons, hF, List.cons_append, List.head?_cons, Option.some.injEq] at hb
          subst hb
          rw [(op_equal_changes y hy).1 c (by simp [hF])] at hh; simp at hh

theorem piece_ne {x y : Op} (h : Piece x y) (ht : x.tag ≠ .equal) : y = x := by
  rcases h with rfl | ⟨o, m, len, d, k, rfl, _, _⟩
  · rfl
  · exact absurd rfl ht

theorem all_equal_no_insert {l : List Change} (h : ∀ c ∈ l, c.tag = .equal) : ∀ c ∈ l, c.tag ≠ .insert :=
  fun c hc => by rw [h c hc]; simp

theorem piece_left {x y : Op} (hp : Piece x y) (R : List Change)
    (h1 : x.tag ≠ .equal → NoID (Spec.iterChanges x ++ R)) (h2 : x.tag = .equal → NoID R) :
    NoID (Spec.iterChanges y ++ R) := by
  by_cases ht : x.tag = .equal
  · have hy := op_equal_changes y (by rw [piece_tag hp]; exact ht)
    refine noID_append _ _ (noID_of_no_insert _ (all_equal_no_insert hy.1)) (h2 ht) ?_
    intro a b ha _ hh
    rw [hy.1 a (List.mem_of_getLast? ha)] at hh; simp at hh
  · rw [piece_ne hp ht]; exact h1 ht

theorem piece_right {x y : Op} (hp : Piece x y) (R : List Change)
    (h1 : x.tag ≠ .equal → NoID (R ++ Spec.iterChanges x)) (h2 : x.tag = .equal → NoID R) :
    NoID (R ++ Spec.iterChanges y) := by
  by_cases ht : x.tag = .equal
  · have hy := op_equal_changes y (by rw [piece_tag hp]; exact ht)
    refine noID_append _ _ (h2 ht) (noID_of_no_insert _ (all_equal_no_insert hy.1)) ?_
    intro a b _ hb hh
    rw [hy.1 b (List.mem_of_head? hb)] at hh; simp at hh
  · rw [piece_ne hp ht]; exact h1 ht

/-- **(e), deletions before insertions, on the body.** In the hunks of a strictly alternating script no
`+` line is directly followed by a `-` line. -/
theorem hunk_no_insert_before_delete (ops : List Op) (n : Nat) (hv : AltOps ops)
    (ha : SAltT (ops.map Op.tag)) (g : List Op) (hg : g ∈ groupDiffOps ops n) : NoID (allChanges g) := by
  obtain ⟨pre, mid, post, rfl, ht⟩ := group_contiguous _ n g hg
  have hE : ∀ x ∈ mid, x.isEmpty = false := fun x hx => altOps_nonempty _ hv x (by simp [hx])
  have hS : SAltT (mid.map Op.tag) := by
    simp only [List.map_append] at ha
    exact SAltT_append_right _ _ (SAltT_append_left _ _ ha)
  rw [C13.allChanges_eq_spec]; unfold Spec.iterAllChanges
  rcases ht with ⟨x, y, rfl, rfl, hp⟩ | ⟨x, y, inner, x', y', rfl, rfl, hp, hp'⟩
  · have := piece_left hp [] (fun _ => by simpa using noID_op x) (fun _ => trivial)
    simpa using this
  · have hSi : SAltT ((inner ++ [x']).map Op.tag) := SAltT_append_right [x.tag] _ hS
    have hSj : SAltT ((x :: inner).map Op.tag) := by
      have : SAltT ((x :: inner).map Op.tag ++ [x'.tag]) := by simpa using hS
      exact SAltT_append_left _ _ this
    have hSk : SAltT (inner.map Op.tag) := SAltT_append_right [x.tag] _ hSj
    have e : (y :: (inner ++ [y'])).flatMap Spec.iterChanges =
        Spec.iterChanges y ++ (inner.flatMap Spec.iterChanges ++ Spec.iterChanges y') := by simp
    rw [e]
    refine piece_left hp _ (fun _ => ?_) (fun _ => ?_)
    · rw [← List.append_assoc]
      refine piece_right hp' _ (fun _ => ?_) (fun _ => ?_)
      · have := noID_flatMap (x :: (inner ++ [x'])) hS hE
        simpa using this
      · have := noID_flatMap (x :: inner) hSj (fun z hz => hE z (by
          rcases List.mem_cons.mp hz with rfl | hz <;> simp [*]))
        simpa using this
    · refine piece_right hp' _ (fun _ => ?_) (fun _ => ?_)
      · have := noID_flatMap (inner ++ [x']) hSi (fun z hz => hE z (List.mem_cons_of_mem _ hz))
        simpa using this
      · exact noID_flatMap inner hSk (fun z hz => hE z (by simp [hz]))

end SimilarVerif.UdiffP
